import SamplyModel.Lemmas.BreakpadRender
import SamplyModel.Lemmas.BreakpadSort
/-!
Helper lemmas for C10, part 5: the creator run over a rendered abstract file yields `BPS.specIndex`.
-/
namespace BPS
open BP
open LB (Byte Log)

/-! ### rendered lines: no `\n`, CR stripping gives back the content -/

/-- the list does not end in `\r` -/
def EndsOk (l : List Byte) : Prop := l.getLast? ≠ some 13

theorem stripCR_replicate (l : List Byte) (k : Nat) (h : EndsOk l) :
    stripCR (l ++ List.replicate k 13) = l := by
  unfold stripCR
  rw [List.reverse_append, List.reverse_replicate]
  have h1 : ∀ (k : Nat) (r : List Byte), List.dropWhile (fun b => decide (b = 13)) (List.replicate k 13 ++ r)
      = List.dropWhile (fun b => decide (b = 13)) r := by
    intro k r
    induction k with
    | zero => simp
    | succ n ih => simp [List.replicate_succ, List.dropWhile_cons, ih]
  rw [h1]
  have h2 : List.dropWhile (fun b => decide (b = 13)) l.reverse = l.reverse := by
    cases hr : l.reverse with
    | nil => simp
    | cons b r =>
      have : l.getLast? = some b := by
        rw [← List.head?_reverse, hr]; rfl
      have hb : b ≠ 13 := by
        intro e; subst e; exact h this
      simp [List.dropWhile_cons, hb]
  rw [h2, List.reverse_reverse]

theorem endsOk_append (a b : List Byte) (hb : b ≠ []) (h : EndsOk b) : EndsOk (a ++ b) := by
  unfold EndsOk at *
  rw [List.getLast?_append]
  cases hl : b.getLast? with
  | none => exact absurd (List.getLast?_eq_none_iff.1 hl) hb
  | some x => simpa [hl] using h

theorem endsOk_sp_name (name : List Byte) (h : EndsOk name) : EndsOk (32 :: name) := by
  cases name with
  | nil => simp [EndsOk]
  | cons b r =>
    have := endsOk_append [32] (b :: r) (by simp) h
    simpa using this

theorem endsOk_of_all (l : List Byte) (h : ∀ b ∈ l, b ≠ 13) : EndsOk l := by
  intro e
  exact h 13 (List.mem_of_getLast? e) rfl

theorem toHex_all (v : Nat) : ∀ b ∈ toHex v, b ≠ 13 ∧ b ≠ 10 := by
  intro b hb
  simp only [toHex, List.mem_map] at hb
  obtain ⟨d, hd, rfl⟩ := hb
  have := natDigits_lt 16 (by decide) 64 v d hd
  exact ⟨digitByte_ne_13 d this, digitByte_ne_10 d this⟩

theorem toDec_all (v : Nat) : ∀ b ∈ toDec v, b ≠ 13 ∧ b ≠ 10 := by
  intro b hb
  simp only [toDec, List.mem_map] at hb
  obtain ⟨d, hd, rfl⟩ := hb
  have := natDigits_lt 10 (by decide) 64 v d hd
  exact ⟨digitByte_ne_13 d (by omega), digitByte_ne_10 d (by omega)⟩

theorem renderRanges_all (rs : List (Nat × Nat)) : ∀ b ∈ renderRanges rs, b ≠ 13 ∧ b ≠ 10 := by
  induction rs with
  | nil => simp [renderRanges]
  | cons r rs ih =>
    intro b hb
    simp only [renderRanges, List.mem_cons, List.mem_append] at hb
    rcases hb with hb | hb | hb | hb | hb
    · subst hb; decide
    · exact toHex_all _ b hb
    · subst hb; decide
    · exact toHex_all _ b hb
    · exact ih b hb

theorem mFlag_all (m : Bool) : ∀ b ∈ mFlag m, b ≠ 13 ∧ b ≠ 10 := by
  cases m <;> simp [mFlag]

theorem endsOk_toDec (v : Nat) : EndsOk (toDec v) := endsOk_of_all _ (fun b hb => (toDec_all v b hb).1)

/-- a well-formed record renders to a line without `\n` that does not end in `\r` -/
theorem content_ok (r : Rec) (h : r.ok) : (10 : Byte) ∉ r.content ∧ EndsOk r.content := by
  cases r with
  | info rest =>
    obtain ⟨h1, h2⟩ := h
    refine ⟨?_, h2⟩
    simp only [Rec.content, List.mem_append, not_or]
    exact ⟨by decide, h1⟩
  | file idx name =>
    obtain ⟨_, hn⟩ := h
    constructor
    · simp only [Rec.content, List.mem_append, List.mem_cons, not_or]
      exact ⟨by decide, by decide, fun hc => (toDec_all _ _ hc).2 rfl, by decide, hn.noNl⟩
    · simp only [Rec.content]
      apply endsOk_append _ _ (by simp)
      rw [show (32 :: (toDec idx ++ 32 :: name)) = (32 :: toDec idx) ++ (32 :: name) by simp]
      exact endsOk_append _ _ (by simp) (endsOk_sp_name _ hn.noCrEnd)
  | origin idx name =>
    obtain ⟨_, hn⟩ := h
    constructor
    · simp only [Rec.content, List.mem_append, List.mem_cons, not_or]
      exact ⟨by decide, by decide, fun hc => (toDec_all _ _ hc).2 rfl, by decide, hn.noNl⟩
    · simp only [Rec.content]
      apply endsOk_append _ _ (by simp)
      rw [show (32 :: (toDec idx ++ 32 :: name)) = (32 :: toDec idx) ++ (32 :: name) by simp]
      exact endsOk_append _ _ (by simp) (endsOk_sp_name _ hn.noCrEnd)
  | pub m addr psize name =>
    obtain ⟨_, _, hn⟩ := h
    constructor
    · simp only [Rec.content, List.mem_append, List.mem_cons, not_or]
      exact ⟨by decide, by decide, fun hc => (mFlag_all _ _ hc).2 rfl, fun hc => (toHex_all _ _ hc).2 rfl,
        by decide, fun hc => (toHex_all _ _ hc).2 rfl, by decide, hn.noNl⟩
    · simp only [Rec.content]
      apply endsOk_append _ _ (by simp)
      rw [show (32 :: (mFlag m ++ (toHex addr ++ 32 :: (toHex psize ++ 32 :: name))))
        = (32 :: (mFlag m ++ (toHex addr ++ 32 :: toHex psize))) ++ (32 :: name) by simp]
      exact endsOk_append _ _ (by simp) (endsOk_sp_name _ hn.noCrEnd)
  | func m addr size psize name =>
    obtain ⟨_, _, _, hn⟩ := h
    constructor
    · simp only [Rec.content, List.mem_append, List.mem_cons, not_or]
      exact ⟨by decide, by decide, fun hc => (mFlag_all _ _ hc).2 rfl, fun hc => (toHex_all _ _ hc).2 rfl,
        by decide, fun hc => (toHex_all _ _ hc).2 rfl, by decide, fun hc => (toHex_all _ _ hc).2 rfl,
        by decide, hn.noNl⟩
    · simp only [Rec.content]
      apply endsOk_append _ _ (by simp)
      rw [show (32 :: (mFlag m ++ (toHex addr ++ 32 :: (toHex size ++ 32 :: (toHex psize ++ 32 :: name)))))
        = (32 :: (mFlag m ++ (toHex addr ++ 32 :: (toHex size ++ 32 :: toHex psize)))) ++ (32 :: name) by simp]
      exact endsOk_append _ _ (by simp) (endsOk_sp_name _ hn.noCrEnd)
  | line addr size ln fl =>
    constructor
    · simp only [Rec.content, List.mem_append, List.mem_cons, not_or]
      exact ⟨fun hc => (toHex_all _ _ hc).2 rfl, by decide, fun hc => (toHex_all _ _ hc).2 rfl, by decide,
        fun hc => (toDec_all _ _ hc).2 rfl, by decide, fun hc => (toDec_all _ _ hc).2 rfl⟩
    · simp only [Rec.content]
      rw [show (toHex addr ++ 32 :: (toHex size ++ 32 :: (toDec ln ++ 32 :: toDec fl)))
        = (toHex addr ++ 32 :: (toHex size ++ 32 :: (toDec ln ++ [32]))) ++ toDec fl by simp]
      exact endsOk_append _ _ (toDec_ne_nil _) (endsOk_toDec _)
  | inline depth callLine callFile org r0 ranges =>
    constructor
    · simp only [Rec.content, List.mem_append, List.mem_cons, not_or]
      exact ⟨by decide, by decide, fun hc => (toDec_all _ _ hc).2 rfl, by decide,
        fun hc => (toDec_all _ _ hc).2 rfl, by decide, fun hc => (toDec_all _ _ hc).2 rfl, by decide,
        fun hc => (toDec_all _ _ hc).2 rfl, fun hc => (renderRanges_all _ _ hc).2 rfl⟩
    · apply endsOk_of_all
      intro b hb
      simp only [Rec.content, List.mem_append, List.mem_cons] at hb
      rcases hb with hb | hb | hb | hb | hb | hb | hb | hb | hb | hb
      · revert hb; revert b; decide
      · subst hb; decide
      · exact (toDec_all _ _ hb).1
      · subst hb; decide
      · exact (toDec_all _ _ hb).1
      · subst hb; decide
      · exact (toDec_all _ _ hb).1
      · subst hb; decide
      · exact (toDec_all _ _ hb).1
      · exact (renderRanges_all _ _ hb).1
  | stack rest =>
    obtain ⟨h1, h2⟩ := h
    refine ⟨?_, h2⟩
    simp only [Rec.content, List.mem_append, not_or]
    exact ⟨by decide, h1⟩

/-! ### the creator sees exactly the lines, with their offsets -/

/-- the unterminated tail line handed over by `LineBuffer::finish` -/
def tailOf (lb : LB.St) : Log :=
  if lb.leftover.isEmpty then [] else [(lb.off - lb.leftover.length, lb.leftover)]

theorem creator_pre_of (pick : Pick) (lb : LB.St) (log : Log) (h : LB.Inv lb) :
    preOf (processLog Inner.init log) (fun i => (Creator.mk lb i).pre pick) =
    preOf (processLog Inner.init (log ++ tailOf lb)) (fun st => st.pre pick lb.off) := by
  rw [processLog_append]
  cases processLog Inner.init log with
  | none => rfl
  | some i =>
    simp only [preOf, Creator.pre, Option.bind_some]
    rw [LB.finish_of_inv lb h]
    simp only [tailOf]
    cases processLog i (if lb.leftover.isEmpty = true then [] else [(lb.off - lb.leftover.length, lb.leftover)]) <;> rfl

theorem preIndex_lines (pick : Pick) (first : List Byte) (rest : List (List Byte)) (nl : Bool)
    (hf : (10 : Byte) ∉ first) (hr : ∀ l ∈ rest, (10 : Byte) ∉ l)
    (hlast : (first :: rest).getLastD [] ≠ []) :
    preIndex pick [LB.joinNl first rest ++ (if nl then [10] else [])] =
      preOf (processLog Inner.init (LB.lineOffsets 0 (first :: rest)))
        (fun st => st.pre pick (LB.joinNl first rest ++ (if nl then [10] else [])).length) := by
  rw [preIndex_eq_spec]
  unfold preIndexSpec
  have hinv := LB.bytewise_inv LB.St.init (LB.joinNl first rest ++ (if nl then [10] else [])) LB.inv_init
  have hoff := LB.bytewise_off LB.St.init (LB.joinNl first rest ++ (if nl then [10] else []))
  simp only
  rw [creator_pre_of pick _ _ hinv, hoff]
  simp only [LB.St.init, Nat.zero_add]
  suffices hlog : (LB.bytewise { leftover := [], off := 0 } (LB.joinNl first rest ++ if nl = true then [10] else [])).2
      ++ tailOf (LB.bytewise { leftover := [], off := 0 } (LB.joinNl first rest ++ if nl = true then [10] else [])).1
      = LB.lineOffsets 0 (first :: rest) by
    rw [hlog]
  simp only [LB.St.init, Nat.zero_add] at hoff
  cases nl with
  | true =>
    simp only [if_true] at hoff ⊢
    rw [← LB.joinNl_length_snoc] at hoff ⊢
    obtain ⟨h1, h2, _⟩ := LB.bytewise_joinNl_log 0 first (rest ++ [[]]) hf (by
      intro l hl
      simp only [List.mem_append, List.mem_singleton] at hl
      rcases hl with hl | hl
      · exact hr l hl
      · subst hl; simp)
    have e1 : (first :: (rest ++ [[]])).dropLast = first :: rest := by
      rw [← List.cons_append, List.dropLast_concat]
    have e2 : (first :: (rest ++ [[]])).getLastD [] = [] := by
      rw [← List.cons_append, List.getLastD_eq_getLast?, List.getLast?_append]; simp
    rw [e1] at h1
    rw [e2] at h2
    cases hb : LB.bytewise { leftover := [], off := 0 } (LB.joinNl first (rest ++ [[]])) with
    | mk lb log =>
      rw [hb] at h1 h2
      obtain ⟨lo, o⟩ := lb
      simp only at h1 h2
      subst h1 h2
      simp [tailOf]
  | false =>
    simp only [Bool.false_eq_true, if_false, List.append_nil] at hoff ⊢
    obtain ⟨h1, h2, h3⟩ := LB.bytewise_joinNl_log 0 first rest hf hr
    cases hb : LB.bytewise { leftover := [], off := 0 } (LB.joinNl first rest) with
    | mk lb log =>
      rw [hb] at h1 h2 hoff
      obtain ⟨lo, o⟩ := lb
      simp only at h1 h2 hoff
      subst h1 h2 hoff
      have he : ((first :: rest).getLastD []).isEmpty = false := by
        cases h : (first :: rest).getLastD [] with
        | nil => exact absurd h hlast
        | cons a l => rfl
      simp only [tailOf, he, Bool.false_eq_true, if_false]
      rw [h3]
      simp

/-! ### the state machine over rendered records -/

theorem processLine_rec (st : Inner) (off : Nat) (l : SLine) (hm : st.hasModule = true) (hok : l.r.ok) :
    processLine st off l.bytes = applyClass st off (l.r.content.length % pow32) l.r.content l.r.cls := by
  unfold processLine SLine.bytes
  simp only [hm, Bool.not_true, Bool.false_eq_true, if_false]
  rw [stripCR_replicate _ _ (content_ok _ hok).2, classify_content _ hok]

def runLines (st : Inner) : List (Nat × SLine) → Option Inner
  | [] => some st
  | p :: rest =>
    match processLine st p.1 p.2.bytes with
    | none => none
    | some st' => runLines st' rest

theorem processLog_eq_runLines (st : Inner) (ols : List (Nat × SLine)) :
    processLog st (ols.map fun p => (p.1, p.2.bytes)) = runLines st ols := by
  induction ols generalizing st with
  | nil => rfl
  | cons p rest ih =>
    simp only [List.map_cons, processLog, runLines]
    cases processLine st p.1 p.2.bytes with
    | none => rfl
    | some st' => exact ih st'

theorem lineOffsets_map (off : Nat) (ls : List SLine) :
    LB.lineOffsets off (ls.map SLine.bytes) = (withOffsets off ls).map fun p => (p.1, p.2.bytes) := by
  induction ls generalizing off with
  | nil => rfl
  | cons l ls ih => simp [LB.lineOffsets, withOffsets, ih]

/-- offsets are non-decreasing, start at `lo` or later, and every line ends at or before `endOff` -/
def OffsOk (endOff : Nat) : Nat → List (Nat × SLine) → Prop
  | _, [] => True
  | lo, p :: rest => lo ≤ p.1 ∧ p.1 + p.2.bytes.length ≤ endOff ∧ OffsOk endOff p.1 rest

def closeP : Option (Nat × Nat) → Nat → List (Nat × SymEntry)
  | none, _ => []
  | some (a, fo), e => [(a, ⟨1, e - fo, fo⟩)]

def infoFold (mi : List Byte) : List (Nat × SLine) → List Byte
  | [] => mi
  | p :: rest =>
    match p.2.r with
    | .info _ => infoFold (mi ++ 10 :: p.2.r.content) rest
    | _ => infoFold mi rest

theorem finishPending_mk (mi : List Byte) (syms : List (Nat × SymEntry)) (files origins : SVB)
    (pending : Option (Nat × Nat)) (off : Nat) (hE : off < pow32)
    (hp : ∀ a fo, pending = some (a, fo) → fo ≤ off) :
    finishPending ⟨mi, true, syms, files, origins, pending⟩ off
      = some ⟨mi, true, syms ++ closeP pending off, files, origins, none⟩ := by
  cases pending with
  | none => simp [finishPending, closeP]
  | some p =>
    obtain ⟨a, fo⟩ := p
    have := hp a fo rfl
    have hm : (off - fo) % pow32 = off - fo := Nat.mod_eq_of_lt (by omega)
    simp [finishPending, closeP, this, hm]

theorem run_spec (endOff : Nat) (hE : endOff < pow32) (ols : List (Nat × SLine))
    (hok : ∀ p ∈ ols, p.2.r.ok) :
    ∀ (lo : Nat) (mi : List Byte) (syms : List (Nat × SymEntry)) (files origins : SVB)
      (pending : Option (Nat × Nat)), OffsOk endOff lo ols →
      (∀ a fo, pending = some (a, fo) → fo ≤ lo ∧ fo ≤ endOff) →
      ∃ st', runLines ⟨mi, true, syms, files, origins, pending⟩ ols = some st' ∧
        finishPending st' endOff = some ⟨infoFold mi ols, true,
          syms ++ closeP pending (blockEnd endOff ols) ++ specSymbols endOff ols,
          (specFiles ols).foldl SVB.push files, (specOrigins ols).foldl SVB.push origins, none⟩ := by
  induction ols with
  | nil =>
    intro lo mi syms files origins pending ho hp
    refine ⟨_, rfl, ?_⟩
    rw [finishPending_mk _ _ _ _ _ _ hE (fun a fo h => (hp a fo h).2)]
    simp [infoFold, blockEnd, specSymbols, specFiles, specOrigins]
  | cons p rest ih =>
    intro lo mi syms files origins pending ho hp
    obtain ⟨off, l⟩ := p
    obtain ⟨h1, h2, h3⟩ := ho
    simp only at h1 h2 h3
    have hrok := hok (off, l) (by simp)
    have ih' := ih (fun q hq => hok q (by simp [hq]))
    have hoffE : off < pow32 := by omega
    have hlen : l.r.content.length % pow32 = l.r.content.length := by
      apply Nat.mod_eq_of_lt
      have : l.r.content.length ≤ l.bytes.length := by simp [SLine.bytes]
      omega
    have hpoff : ∀ a fo, pending = some (a, fo) → fo ≤ off := fun a fo h => Nat.le_trans (hp a fo h).1 h1
    have hpoff2 : ∀ a fo, pending = some (a, fo) → fo ≤ off ∧ fo ≤ endOff :=
      fun a fo h => ⟨hpoff a fo h, (hp a fo h).2⟩
    simp only [runLines]
    rw [processLine_rec _ _ _ rfl hrok, hlen]
    have hfp := finishPending_mk mi syms files origins pending off hoffE hpoff
    cases hr : l.r with
    | info rest' =>
      simp only [Rec.cls, applyClass, hfp, Option.map_some]
      obtain ⟨st', hrun, hfin⟩ := ih' off (mi ++ 10 :: l.r.content) (syms ++ closeP pending off) files origins none h3
        (by intro a fo h; cases h)
      rw [hr] at hrun hfin
      refine ⟨st', hrun, ?_⟩
      rw [hfin]
      simp [infoFold, blockEnd, specSymbols, specFiles, specOrigins, hr, Rec.isCloser, closeP]
    | file idx name =>
      simp only [Rec.cls, applyClass]
      obtain ⟨st', hrun, hfin⟩ := ih' off mi syms (files.push ⟨idx, l.r.content.length, off⟩) origins pending h3 hpoff2
      rw [hr] at hrun hfin
      refine ⟨st', hrun, ?_⟩
      rw [hfin]
      simp [infoFold, blockEnd, specSymbols, specFiles, specOrigins, hr, Rec.isCloser]
    | origin idx name =>
      simp only [Rec.cls, applyClass]
      obtain ⟨st', hrun, hfin⟩ := ih' off mi syms files (origins.push ⟨idx, l.r.content.length, off⟩) pending h3 hpoff2
      rw [hr] at hrun hfin
      refine ⟨st', hrun, ?_⟩
      rw [hfin]
      simp [infoFold, blockEnd, specSymbols, specFiles, specOrigins, hr, Rec.isCloser]
    | pub m addr psize name =>
      simp only [Rec.cls, applyClass, hfp, Option.map_some]
      obtain ⟨st', hrun, hfin⟩ := ih' off mi
        (syms ++ closeP pending off ++ [(addr % pow32, ⟨0, l.r.content.length, off⟩)]) files origins none h3
        (by intro a fo h; cases h)
      rw [hr] at hrun hfin
      refine ⟨st', hrun, ?_⟩
      rw [hfin]
      simp [infoFold, blockEnd, specSymbols, specFiles, specOrigins, hr, Rec.isCloser, closeP]
    | func m addr size psize name =>
      simp only [Rec.cls, applyClass, hfp, Option.map_some]
      obtain ⟨st', hrun, hfin⟩ := ih' off mi (syms ++ closeP pending off) files origins (some (addr, off)) h3
        (by intro a fo h; cases h; exact ⟨Nat.le_refl _, by omega⟩)
      refine ⟨st', hrun, ?_⟩
      rw [hfin]
      simp [infoFold, blockEnd, specSymbols, specFiles, specOrigins, hr, Rec.isCloser, closeP]
    | line addr size ln fl =>
      simp only [Rec.cls, applyClass]
      obtain ⟨st', hrun, hfin⟩ := ih' off mi syms files origins pending h3 hpoff2
      refine ⟨st', hrun, ?_⟩
      rw [hfin]
      simp [infoFold, blockEnd, specSymbols, specFiles, specOrigins, hr, Rec.isCloser]
    | inline depth callLine callFile org r0 ranges =>
      simp only [Rec.cls, applyClass]
      obtain ⟨st', hrun, hfin⟩ := ih' off mi syms files origins pending h3 hpoff2
      refine ⟨st', hrun, ?_⟩
      rw [hfin]
      simp [infoFold, blockEnd, specSymbols, specFiles, specOrigins, hr, Rec.isCloser]
    | stack rest' =>
      simp only [Rec.cls, applyClass, hfp]
      obtain ⟨st', hrun, hfin⟩ := ih' off mi (syms ++ closeP pending off) files origins none h3
        (by intro a fo h; cases h)
      refine ⟨st', hrun, ?_⟩
      rw [hfin]
      simp [infoFold, blockEnd, specSymbols, specFiles, specOrigins, hr, Rec.isCloser, closeP]

/-! ### assembling: the index of a rendered well-formed file is `specIndex` -/

theorem specSymbols_keys (endOff off : Nat) (ls : List SLine) :
    (specSymbols endOff (withOffsets off ls)).map (·.1) = symAddrs ls := by
  induction ls generalizing off with
  | nil => rfl
  | cons l ls ih =>
    simp only [withOffsets, specSymbols, symAddrs]
    cases l.r <;> simp [ih]

theorem specFiles_keys (off : Nat) (ls : List SLine) :
    (specFiles (withOffsets off ls)).map (·.index) = fileIdxs ls := by
  induction ls generalizing off with
  | nil => rfl
  | cons l ls ih =>
    simp only [withOffsets, specFiles, fileIdxs]
    cases l.r <;> simp [ih]

theorem specOrigins_keys (off : Nat) (ls : List SLine) :
    (specOrigins (withOffsets off ls)).map (·.index) = originIdxs ls := by
  induction ls generalizing off with
  | nil => rfl
  | cons l ls ih =>
    simp only [withOffsets, specOrigins, originIdxs]
    cases l.r <;> simp [ih]

theorem infoFold_eq (mi : List Byte) (off : Nat) (ls : List SLine) :
    infoFold mi (withOffsets off ls) = ls.foldl infoStep mi := by
  induction ls generalizing mi off with
  | nil => rfl
  | cons l ls ih =>
    simp only [withOffsets, infoFold, List.foldl_cons, infoStep]
    cases l.r <;> simp [ih]

theorem content_ne_nil (r : Rec) : r.content ≠ [] := by
  cases r <;> simp [Rec.content, tINFO_, tFILE, tINLINE_ORIGIN, tPUBLIC, tFUNC, tINLINE, tSTACK_, toHex_ne_nil]

/-- the lines end where the text ends -/
theorem offsOk_withOffsets (endOff off : Nat) (ls : List SLine)
    (h : off + ((ls.map fun l => l.bytes.length + 1).sum) ≤ endOff + 1) :
    OffsOk endOff off (withOffsets off ls) := by
  induction ls generalizing off with
  | nil => trivial
  | cons l ls ih =>
    simp only [List.map_cons, List.sum_cons] at h
    simp only [withOffsets, OffsOk]
    refine ⟨Nat.le_refl _, by omega, ?_⟩
    have := ih (off + l.bytes.length + 1) (by omega)
    cases hw : withOffsets (off + l.bytes.length + 1) ls with
    | nil => trivial
    | cons p rest =>
      rw [hw] at this
      have t1 := this.1
      exact ⟨by omega, this.2.1, this.2.2⟩

theorem joinNl_length (first : List Byte) (rest : List (List Byte)) :
    (LB.joinNl first rest).length = first.length + (rest.map fun l => l.length + 1).sum := by
  induction rest generalizing first with
  | nil => simp [LB.joinNl]
  | cons l ls ih => simp [LB.joinNl, ih]; omega

theorem preIndex_render (pick : Pick) (s : SymFile) (h : WFIndex s) :
    preIndex pick [render s] = .ix (specIndex s) := by
  have hfirstNl : (10 : Byte) ∉ s.moduleLine ++ List.replicate s.moduleCrs 13 := by
    simp only [List.mem_append, List.mem_replicate, not_or]
    exact ⟨h.moduleNoNl, by simp⟩
  have hrestNl : ∀ l ∈ s.lines.map SLine.bytes, (10 : Byte) ∉ l := by
    intro l hl
    obtain ⟨sl, hsl, rfl⟩ := List.mem_map.1 hl
    simp only [SLine.bytes, List.mem_append, List.mem_replicate, not_or]
    exact ⟨(content_ok _ (h.recs sl hsl)).1, by simp⟩
  have hmne : s.moduleLine ≠ [] := by
    intro e
    have := h.moduleOk
    rw [e] at this
    simp [moduleLine, tag, tMODULE] at this
  have hlast : ((s.moduleLine ++ List.replicate s.moduleCrs 13) :: s.lines.map SLine.bytes).getLastD [] ≠ [] := by
    rw [List.getLastD_eq_getLast?]
    cases hl : ((s.moduleLine ++ List.replicate s.moduleCrs 13) :: s.lines.map SLine.bytes).getLast? with
    | none => simp at hl
    | some x =>
      simp only [Option.getD_some]
      have hx := List.mem_of_getLast? hl
      rcases List.mem_cons.1 hx with e | e
      · subst e; simp [hmne]
      · obtain ⟨sl, _, rfl⟩ := List.mem_map.1 e
        simp [SLine.bytes, content_ne_nil]
  unfold render
  rw [preIndex_lines pick _ _ s.finalNl hfirstNl hrestNl hlast]
  -- the MODULE line
  simp only [LB.lineOffsets, processLog]
  have hstrip : stripCR (s.moduleLine ++ List.replicate s.moduleCrs 13) = s.moduleLine :=
    stripCR_replicate _ _ h.moduleEnds
  have hfirst : processLine Inner.init 0 (s.moduleLine ++ List.replicate s.moduleCrs 13)
      = some ⟨s.moduleLine, true, [], SVB.init, SVB.init, none⟩ := by
    simp [processLine, Inner.init, hstrip, h.moduleOk]
  rw [hfirst]
  simp only [Nat.zero_add]
  rw [lineOffsets_map, processLog_eq_runLines]
  -- the records
  have hsmall := h.small
  unfold render at hsmall
  generalize hE : (LB.joinNl (s.moduleLine ++ List.replicate s.moduleCrs 13) (s.lines.map SLine.bytes) ++
    if s.finalNl = true then [10] else []).length = endOff at hsmall ⊢
  have hlenE : (s.moduleLine ++ List.replicate s.moduleCrs 13).length + 1
      + ((s.lines.map fun l => l.bytes.length + 1).sum) ≤ endOff + 1 := by
    have e1 : (LB.joinNl (s.moduleLine ++ List.replicate s.moduleCrs 13) (s.lines.map SLine.bytes) ++
        if s.finalNl = true then [10] else []).length
        = (s.moduleLine ++ List.replicate s.moduleCrs 13).length
          + ((s.lines.map SLine.bytes).map fun l => l.length + 1).sum
          + (if s.finalNl = true then [10] else ([] : List Byte)).length := by
      rw [List.length_append, joinNl_length]
    have e2 : ((s.lines.map SLine.bytes).map fun l => l.length + 1) = s.lines.map fun l => l.bytes.length + 1 := by
      rw [List.map_map]; rfl
    rw [← hE, e1, e2]
    omega
  have hoffs := offsOk_withOffsets endOff _ s.lines hlenE
  have hrecs : ∀ p ∈ withOffsets ((s.moduleLine ++ List.replicate s.moduleCrs 13).length + 1) s.lines, p.2.r.ok := by
    intro p hp
    have : ∀ (off : Nat) (ls : List SLine), (∀ l ∈ ls, l.r.ok) → ∀ p ∈ withOffsets off ls, p.2.r.ok := by
      intro off ls
      induction ls generalizing off with
      | nil => intro _ p hp; cases hp
      | cons l ls ih =>
        intro hl p hp
        simp only [withOffsets, List.mem_cons] at hp
        rcases hp with e | e
        · subst e; exact hl l (by simp)
        · exact ih _ (fun x hx => hl x (by simp [hx])) p e
    exact this _ _ h.recs p hp
  obtain ⟨st', hrun, hfin⟩ := run_spec endOff hsmall _ hrecs _ s.moduleLine [] SVB.init SVB.init none hoffs
    (by simp)
  rw [hrun]
  simp only [preOf, Inner.pre, hfin, Bool.not_true, Bool.false_eq_true, if_false]
  -- sorting
  have hoff0 : (s.moduleLine ++ List.replicate s.moduleCrs 13).length + 1 = firstOff s := by
    simp [firstOff]
  rw [hoff0]
  have hk1 : ((specSymbols endOff (olines s)).map (·.1)).Nodup := by
    rw [olines, specSymbols_keys]; exact h.symDistinct
  have hk2 : ((specFiles (olines s)).map (·.index)).Nodup := by
    rw [olines, specFiles_keys]; exact h.fileDistinct
  have hk3 : ((specOrigins (olines s)).map (·.index)).Nodup := by
    rw [olines, specOrigins_keys]; exact h.originDistinct
  simp only [Inner.toIndex, closeP, List.nil_append, List.append_nil]
  rw [show withOffsets (firstOff s) s.lines = olines s from rfl]
  rw [sortDedup_eq_sortBy _ _ _ _ hk1, intoSorted_foldl_push _ _ hk2, intoSorted_foldl_push _ _ hk3]
  rw [olines, infoFold_eq]
  simp only [specIndex, specModInfo, render, hE, olines]

theorem specIndex_ok (s : SymFile) (h : WFIndex s) : (specIndex s).ok ∧
    (specIndex s).addrs.Pairwise (· < ·) ∧ ((specIndex s).files.map (·.index)).Pairwise (· < ·) ∧
    ((specIndex s).origins.map (·.index)).Pairwise (· < ·) ∧
    (specIndex s).addrs.length = (specIndex s).entries.length := by
  obtain ⟨st, hc, _, he⟩ := preIndex_spec Pick.first (render s)
  rw [preIndex_render Pick.first s h] at he
  cases hm : st.hasModule with
  | false => simp [hm] at he
  | true =>
    simp only [hm, if_true, Pre.ix.injEq] at he
    rw [he]
    have hlt : (render s).length < pow64 := Nat.lt_trans h.small (by decide)
    exact ⟨toIndex_ok _ st _ hc hlt hm, toIndex_sorted _ st _ hc⟩

theorem index_render (pick : Pick) (s : SymFile) (h : WFIndex s) (chunks : List (List Byte))
    (hflat : chunks.flatten = render s) :
    index pick chunks =
      if serializeSafe (specIndex s) then .ok (serialize (specIndex s)) else .panic := by
  unfold index
  rw [preIndex_chunk_independent, hflat, preIndex_render pick s h]
  rfl

theorem mapSelf_render (pick : Pick) (s : SymFile) (h : WFIndex s)
    (hm : (tag tMODULE_ s.moduleLine).isSome = true) (hs : serializeSafe (specIndex s) = true) :
    mapSelf pick (render s) = .ok (specIndex s) := by
  rw [mapSelf_eq]
  have htag : (tag tMODULE_ (render s)).isNone = false := by
    have : ∀ (t a b : List Byte), (tag t a).isSome = true → (tag t (a ++ b)).isSome = true := by
      intro t
      induction t with
      | nil => intro a b _; simp [tag]
      | cons x xs ih =>
        intro a b hab
        cases a with
        | nil => simp [tag] at hab
        | cons y ys =>
          simp only [tag, List.cons_append] at hab ⊢
          split at hab
          · rename_i e; simp only [e, if_true]; exact ih ys b hab
          · simp at hab
    have h1 : (tag tMODULE_ (render s)).isSome = true := by
      unfold render
      cases hl : s.lines.map SLine.bytes with
      | nil =>
        simp only [LB.joinNl, List.append_assoc]
        exact this _ _ _ hm
      | cons l ls =>
        simp only [LB.joinNl, List.append_assoc]
        exact this _ _ _ hm
    cases ht : tag tMODULE_ (render s) with
    | none => simp [ht] at h1
    | some x => rfl
  rw [htag]
  simp only [Bool.false_eq_true, if_false]
  rw [index_render pick s h [render s] (by simp), hs]
  simp only [if_true]
  rw [parse_serialize _ (specIndex_ok s h).1 hs]

end BPS
