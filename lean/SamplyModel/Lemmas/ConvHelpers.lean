import SamplyModel.Lemmas.ConvInv
/-! Every helper of the converter keeps the invariant, the buffered samples and (except the removals) the
per-thread last timestamps (C01). -/
namespace Conv

theorem getElem?_concat_self {α} (l : List α) (x : α) : (l ++ [x])[l.length]? = some x := by simp

theorem lt_of_getElem?_some {α} {l : List α} {i : Nat} {x : α} (h : l[i]? = some x) : i < l.length :=
  (List.getElem?_eq_some_iff.mp h).1

theorem addProcess_spec' {s s1 : St} {name : String} {pid start ph : Nat}
    (h : addProcess s name pid start = (s1, ph)) : Skel s s1 ∧ (psk s1.pents)[ph]? = some pid := by
  obtain ⟨sk, hph, hP, _⟩ := addProcess_spec h
  exact ⟨sk, by rw [hP, hph]; exact getElem?_concat_self _ _⟩

theorem addThread_spec' {s s1 : St} {ph tid start th : Nat} {isMain : Bool}
    (h : addThread s ph tid start isMain = (s1, th)) (hph : ph < (psk s.pents).length) :
    Skel s s1 ∧ (tsk s1.tents)[th]? = some (ph, tid) := by
  obtain ⟨sk, hth, hT, _⟩ := addThread_spec h hph
  exact ⟨sk, by rw [hT, hth]; exact getElem?_concat_self _ _⟩

theorem lastOf_fresh {p : ProcC} (h1 : p.main.lastTs = none) (h2 : p.threads = []) (b : Nat) :
    lastOf p b = none := by
  unfold lastOf thrOf
  rw [h2]
  by_cases h : b = p.pid <;> simp [h, h1, alGet_nil]

theorem lastOf_alPut {p p' : ProcC} {tid : Nat} {t : ThreadC} (h1 : p'.pid = p.pid)
    (h2 : p'.main.lastTs = p.main.lastTs) (h3 : p'.threads = alPut p.threads tid t) (hne : tid ≠ p.pid)
    (b : Nat) : lastOf p' b = if b = tid then t.lastTs else lastOf p b := by
  unfold lastOf thrOf
  rw [h1, h3, alGet_alPut]
  by_cases h : b = p.pid
  · have h' : ¬ p.pid = tid := by omega
    subst h
    simp [h2, h']
  · by_cases h' : b = tid
    · subst h'
      simp [h]
    · simp [h, h']

theorem lastOf_alDel {p p' : ProcC} {tid : Nat} (h1 : p'.pid = p.pid)
    (h2 : p'.main.lastTs = p.main.lastTs) (h3 : p'.threads = alDel p.threads tid) (hne : tid ≠ p.pid)
    (b : Nat) : lastOf p' b = if b = tid then none else lastOf p b := by
  unfold lastOf thrOf
  rw [h1, h3, alGet_alDel]
  by_cases h : b = p.pid
  · have h' : ¬ p.pid = tid := by omega
    subst h
    simp [h2, h']
  · by_cases h' : b = tid
    · subst h'
      simp [h]
    · simp [h, h']

theorem lastOf_withPut (p : ProcC) (tid : Nat) (t : ThreadC) (pool : Pool) (hne : tid ≠ p.pid) (b : Nat) :
    lastOf { p with threads := alPut p.threads tid t, pool := pool } b =
      if b = tid then t.lastTs else lastOf p b :=
  lastOf_alPut (p := p) (p' := { p with threads := alPut p.threads tid t, pool := pool }) rfl rfl rfl hne b

theorem lastOf_withDel (p : ProcC) (tid : Nat) (pool : Pool) (hne : tid ≠ p.pid) (b : Nat) :
    lastOf { p with threads := alDel p.threads tid, pool := pool } b =
      if b = tid then none else lastOf p b :=
  lastOf_alDel (p := p) (p' := { p with threads := alDel p.threads tid, pool := pool }) rfl rfl rfl hne b

theorem lastOf_thread {p : ProcC} {tid : Nat} (hne : tid ≠ p.pid) :
    lastOf p tid = (alGet p.threads tid).bind (·.lastTs) := by
  unfold lastOf thrOf; simp [hne]

theorem ProcOK.fresh {r : Bool} {P : List Nat} {T : List (Nat × Nat)} {p : ProcC}
    (hP : P[p.h]? = some p.pid) (hT : T[p.main.h]? = some (p.h, p.pid)) (h1 : p.threads = [])
    (h2 : p.pool = []) : ProcOK r P T p where
  h := lt_of_getElem?_some hP
  main := lt_of_getElem?_some hT
  thr := by rw [h1]; intro e he; simp at he
  pool := by rw [h2]; exact PoolOK.nil _
  bind := fun _ => ⟨hP, hT, by rw [h1]; intro e he; simp at he⟩

theorem getByPid_spec {s s' : St} {pid : Nat} {p : ProcC} (hinv : InvA s) (h : getByPid s pid = (s', p)) :
    GoodT s s' ∧ alGet s'.procs pid = some p := by
  unfold getByPid at h
  split at h
  · rename_i p0 hg
    obtain ⟨rfl, rfl⟩ := Prod.mk.inj h
    exact ⟨GoodT.refl hinv, hg⟩
  · rename_i hg
    generalize hap : addProcess s (pidLabel pid) pid 0 = r at h
    obtain ⟨s1, ph⟩ := r
    dsimp only at h
    generalize hat : addThread s1 ph pid 0 true = r at h
    obtain ⟨s2, th⟩ := r
    dsimp only at h
    obtain ⟨rfl, rfl⟩ := Prod.mk.inj h
    obtain ⟨sk1, hP1⟩ := addProcess_spec' hap
    obtain ⟨sk2, hT2⟩ := addThread_spec' hat (lt_of_getElem?_some hP1)
    have g1 := sk1.goodT hinv
    have g2 := sk2.goodT g1.inv
    refine ⟨(g1.trans g2).trans (put_fresh_goodT g2.inv ?_ rfl (lastOf_fresh rfl rfl) ?_), put_get _ _⟩
    · show alGet s2.procs pid = none
      rw [sk2.procs, sk1.procs]; exact hg
    · exact ProcOK.fresh (prefix_getElem? sk2.extP hP1) hT2 rfl rfl

theorem ProcOK.ofReuse {r : Bool} {P : List Nat} {T : List (Nat × Nat)} {p : ProcC} (hr : r = true)
    (h1 : p.h < P.length) (h2 : p.main.h < T.length) (h3 : ∀ e ∈ p.threads, e.2.h < T.length)
    (h4 : PoolOK T.length p.pool) : ProcOK r P T p :=
  ⟨h1, h2, h3, h4, fun hf => by rw [hr] at hf; cases hf⟩

/-- creation of a process entry with its main thread entry -/
theorem newProc_goodT {s s1 s2 s3 : St} {pid start st2 ph th : Nat} {nm : String} {p : ProcC}
    (hinv : InvA s) (hg : alGet s.procs pid = none)
    (hap : addProcess s nm pid start = (s1, ph)) (hat : addThread s1 ph pid st2 true = (s2, th))
    (sk3 : Skel s2 s3) (h1 : p.pid = pid) (h2 : p.h = ph) (h3 : p.main.h = th) (h4 : p.main.lastTs = none)
    (h5 : p.threads = []) (h6 : p.pool = []) (h7 : p.samples = []) : GoodT s (putProc s3 p) := by
  obtain ⟨sk1, hP1⟩ := addProcess_spec' hap
  obtain ⟨sk2, hT2⟩ := addThread_spec' hat (lt_of_getElem?_some hP1)
  have g1 := sk1.goodT hinv
  have g2 := sk2.goodT g1.inv
  have g3 := sk3.goodT g2.inv
  refine ((g1.trans g2).trans g3).trans (put_fresh_goodT g3.inv ?_ h7 (lastOf_fresh h4 h5) ?_)
  · rw [h1, sk3.procs, sk2.procs, sk1.procs]; exact hg
  · apply ProcOK.fresh _ _ h5 h6
    · rw [h1, h2]; exact prefix_getElem? (sk2.extP.trans sk3.extP) hP1
    · rw [h1, h2, h3]; exact prefix_getElem? sk3.extT hT2

theorem getNewProc_spec {s s' : St} {pid start : Nat} {name : Option String} {p : ProcC} (hinv : InvA s)
    (h : getNewProc s pid name start = (s', p)) : GoodT s s' ∧ alGet s'.procs pid = some p := by
  unfold getNewProc at h
  split at h
  · rename_i hg
    dsimp only at h
    split at h
    · rename_i r pool' heq
      obtain ⟨rfl, rfl⟩ := Prod.mk.inj h
      have hr : s.cfg.reuse = true := by
        cases hc : s.cfg.reuse
        · simp [hc] at heq
        · rfl
      have ⟨n, hn⟩ : ∃ n, procPoolTake s.procPool n = some (r, pool') := by
        cases name with
        | none => simp at heq
        | some n => exact ⟨n, by simpa [hr] using heq⟩
      obtain ⟨hrec, hpp⟩ := procPoolTake_ok hinv.ppool hn
      have g1 := setPool_goodT hinv hpp
      refine ⟨g1.trans (put_fresh_goodT g1.inv hg rfl (lastOf_fresh rfl rfl) ?_), put_get _ _⟩
      exact ProcOK.ofReuse hr hrec.1 hrec.2.1 (by intro e he; simp at he) hrec.2.2
    · generalize hap : addProcess s (name.getD (pidLabel pid)) pid start = r at h
      obtain ⟨s1, ph⟩ := r
      dsimp only at h
      generalize hat : addThread s1 ph pid start true = r at h
      obtain ⟨s2, th⟩ := r
      dsimp only at h
      obtain ⟨rfl, rfl⟩ := Prod.mk.inj h
      refine ⟨newProc_goodT hinv hg hap hat ?_ rfl rfl rfl rfl rfl rfl rfl, put_get _ _⟩
      split
      · exact skel_setTName _ _ _
      · exact Skel.refl _
  · rename_i p0 hg
    obtain ⟨rfl, rfl⟩ := Prod.mk.inj h
    refine ⟨Skel.goodT ?_ hinv, ?_⟩
    · split
      · exact (skel_setPStart _ _ _).trans (skel_setTStart _ _ _)
      · exact Skel.refl _
    · split
      · exact hg
      · exact hg

theorem getThread_spec {s s' : St} {p p' : ProcC} {tid : Nat} {t : ThreadC} (hinv : InvA s)
    (hp : alGet s.procs p.pid = some p) (h : getThread s p tid = (s', p', t)) :
    GoodT s s' ∧ alGet s'.procs p.pid = some p' ∧ p'.pid = p.pid ∧ thrOf p' tid = some t := by
  unfold getThread at h
  split at h
  · rename_i htid
    cases h
    exact ⟨GoodT.refl hinv, hp, rfl, by simp [thrOf, htid]⟩
  · rename_i htid
    split at h
    · rename_i t0 hg
      cases h
      exact ⟨GoodT.refl hinv, hp, rfl, by simp [thrOf, htid, hg]⟩
    · rename_i hg
      generalize hat : addThread s p.h tid 0 false = r at h
      obtain ⟨s1, th⟩ := r
      dsimp only at h
      cases h
      have hok := (hinv.get hp).2
      obtain ⟨sk1, hT1⟩ := addThread_spec' hat hok.h
      have g1 := sk1.goodT hinv
      have hok1 : ProcOK s1.cfg.reuse (psk s1.pents) (tsk s1.tents) p := by
        rw [sk1.cfg]; exact hok.mono sk1.extP sk1.extT
      refine ⟨g1.trans (put_goodT g1.inv (p0 := p) ?_ rfl ?_ ?_), put_get _ _, rfl, ?_⟩
      · show alGet s1.procs p.pid = some p
        rw [sk1.procs]; exact hp
      · intro b
        rw [lastOf_withPut p tid _ _ htid]
        by_cases hb : b = tid
        · subst hb; simp only [if_true]; rw [lastOf_thread htid, hg]; rfl
        · simp only [hb, if_false]
      · exact hok1.withThreads rfl rfl rfl
          (all_alPut hok1.thrAll ⟨lt_of_getElem?_some hT1, fun _ => hT1⟩) hok1.pool
      · simp [thrOf, htid, alGet_alPut_self]

theorem getNewThread_spec {s s' : St} {p p' : ProcC} {tid start : Nat} {name : Option String} (hinv : InvA s)
    (hp : alGet s.procs p.pid = some p) (h : getNewThread s p tid name start = (s', p')) : GoodT s s' := by
  unfold getNewThread at h
  split at h
  · obtain ⟨rfl, rfl⟩ := Prod.mk.inj h
    exact GoodT.refl hinv
  · rename_i htid
    have hok := (hinv.get hp).2
    split at h
    · rename_i hg
      dsimp only at h
      split at h
      · rename_i hh pool' heq
        obtain ⟨rfl, rfl⟩ := Prod.mk.inj h
        have hr : s.cfg.reuse = true := by
          cases hc : s.cfg.reuse
          · simp [hc] at heq
          · rfl
        have ⟨n, hn⟩ : ∃ n, poolTake p.pool n = some (hh, pool') := by
          cases name with
          | none => simp at heq
          | some n => exact ⟨n, by simpa [hr] using heq⟩
        obtain ⟨hlt, hpool⟩ := poolTake_ok hok.pool hn
        refine put_goodT hinv (p0 := p) hp rfl ?_ ?_
        · intro b
          rw [lastOf_withPut p tid _ _ htid]
          by_cases hb : b = tid
          · subst hb; simp only [if_true]; rw [lastOf_thread htid, hg]; rfl
          · simp only [hb, if_false]
        · exact hok.withThreads rfl rfl rfl
            (all_alPut hok.thrAll ⟨hlt, fun hf => by rw [hr] at hf; cases hf⟩) hpool
      · generalize hat : addThread s p.h tid start false = r at h
        obtain ⟨s1, th⟩ := r
        dsimp only at h
        obtain ⟨rfl, rfl⟩ := Prod.mk.inj h
        obtain ⟨sk1, hT1⟩ := addThread_spec' hat hok.h
        have key : ∀ s3, Skel s1 s3 →
            GoodT s (putProc s3 { p with threads := alPut p.threads tid { h := th, name } }) := by
          intro s3 sk2
          have sk := sk1.trans sk2
          have g1 := sk.goodT hinv
          have hok1 : ProcOK s3.cfg.reuse (psk s3.pents) (tsk s3.tents) p := by
            rw [sk.cfg]; exact hok.mono sk.extP sk.extT
          refine g1.trans (put_goodT g1.inv (p0 := p) ?_ rfl ?_ ?_)
          · show alGet s3.procs p.pid = some p
            rw [sk.procs]; exact hp
          · intro b
            rw [lastOf_withPut p tid _ _ htid]
            by_cases hb : b = tid
            · subst hb; simp only [if_true]; rw [lastOf_thread htid, hg]; rfl
            · simp only [hb, if_false]
          · exact hok1.withThreads rfl rfl rfl
              (all_alPut hok1.thrAll ⟨lt_of_getElem?_some (prefix_getElem? sk2.extT hT1),
                fun _ => prefix_getElem? sk2.extT hT1⟩) hok1.pool
        apply key
        split
        · exact skel_setTName _ _ _
        · exact Skel.refl _
    · rename_i t0 hg
      obtain ⟨rfl, rfl⟩ := Prod.mk.inj h
      apply Skel.goodT _ hinv
      split
      · exact skel_setTStart _ _ _
      · exact Skel.refl _

theorem removeThread_spec {s s' : St} {p p' : ProcC} {tid time : Nat} (hinv : InvA s)
    (hp : alGet s.procs p.pid = some p) (hne : tid ≠ p.pid) (h : removeThread s p tid time = (s', p')) :
    Good s s' ∧ (∀ a b, tl s' a b = if a = p.pid ∧ b = tid then none else tl s a b) ∧
      alGet s'.procs p.pid = some p' ∧ p'.pid = p.pid := by
  unfold removeThread at h
  split at h
  · rename_i hg
    cases h
    refine ⟨Good.refl hinv, ?_, hp, rfl⟩
    intro a b
    by_cases hab : a = p.pid ∧ b = tid
    · obtain ⟨rfl, rfl⟩ := hab
      simp only [and_self, if_true]
      unfold tl; rw [tlP_of_get hp, lastOf_thread hne, hg]; rfl
    · simp only [hab, if_false]
  · rename_i t hg
    dsimp only at h
    cases h
    have sk := skel_setTEnd s t.h time
    have g1 := sk.goodT hinv
    have hok := (hinv.get hp).2
    have hok1 : ProcOK (setTEnd s t.h time).cfg.reuse (psk (setTEnd s t.h time).pents)
        (tsk (setTEnd s t.h time).tents) p := by
      rw [sk.cfg]; exact hok.mono sk.extP sk.extT
    have hp1 : alGet (setTEnd s t.h time).procs p.pid = some p := by rw [sk.procs]; exact hp
    refine ⟨g1.toGood.trans (put_good g1.inv (p0 := p) hp1 rfl ?_), ?_, put_get _ _, rfl⟩
    · refine hok1.withThreads rfl rfl rfl (all_alDel hok1.thrAll) ?_
      dsimp only
      split
      · split
        · exact poolAdd_ok hok1.pool _ (hok1.thr (tid, t) (alGet_mem hg))
        · exact hok1.pool
      · exact hok1.pool
    · intro a b
      rw [put_tl]
      by_cases ha : a = p.pid
      · subst ha
        simp only [true_and, if_true]
        rw [lastOf_withDel p tid _ hne]
        by_cases hb : b = tid
        · simp only [hb, if_true]
        · simp only [hb, if_false]; unfold tl; rw [tlP_of_get hp]
      · have : ¬ (a = p.pid ∧ b = tid) := fun hh => ha hh.1
        simp only [ha, false_and, if_false]
        exact g1.tl a b

theorem foldl_setTEnd_skel (l : List (Nat × ThreadC)) (time : Nat) (s : St) :
    Skel s (l.foldl (fun s e => setTEnd s e.2.h time) s) := by
  induction l generalizing s with
  | nil => exact Skel.refl s
  | cons a l ih => exact (skel_setTEnd s a.2.h time).trans (ih _)

theorem foldl_poolAdd_ok {n : Nat} (l : List (Nat × ThreadC)) (pool : Pool) (hp : PoolOK n pool)
    (hl : ∀ e ∈ l, e.2.h < n) :
    PoolOK n (l.foldl (fun pool e => match e.2.name with | some nm => poolAdd pool nm e.2.h | none => pool) pool) := by
  induction l generalizing pool with
  | nil => exact hp
  | cons a l ih =>
    simp only [List.foldl_cons]
    apply ih
    · split
      · exact poolAdd_ok hp _ (hl a List.mem_cons_self)
      · exact hp
    · exact fun e he => hl e (List.mem_cons_of_mem _ he)

theorem remove_good {s r : St} {p : ProcC} {pid : Nat} (hinv : InvA s) (hg : alGet s.procs pid = some p)
    (hcfg : r.cfg = s.cfg) (hprocs : r.procs = alDel s.procs pid) (hP : r.pents = s.pents)
    (hT : r.tents = s.tents)
    (hpark : r.parked.flatMap (·.1) = s.parked.flatMap (·.1) ++ p.samples)
    (hpp : ProcPoolOK (psk s.pents).length (tsk s.tents).length r.procPool) :
    Good s r ∧ ∀ a b, tl r a b = if a = pid then none else tl s a b := by
  refine ⟨⟨hcfg, by rw [hP]; exact List.prefix_refl _, by rw [hT]; exact List.prefix_refl _, ?_, ?_⟩, ?_⟩
  · unfold InvA
    rw [hcfg, hprocs, hP, hT]
    exact (InvC.del hinv pid).setPool hpp
  · unfold buffered
    rw [hpark, hprocs, List.append_assoc]
    exact List.Perm.append_left _ (bufP_perm_get hinv.nodup hg).symm
  · intro a b
    unfold tl
    rw [hprocs]
    exact tlP_alDel _ _ _ _

theorem removeProc_spec {s : St} {pid time : Nat} (hinv : InvA s) :
    Good s (removeProc s pid time) ∧
      (∀ a b, tl (removeProc s pid time) a b = if a = pid then none else tl s a b) := by
  unfold removeProc
  split
  · rename_i hg
    refine ⟨Good.refl hinv, ?_⟩
    intro a b
    by_cases ha : a = pid
    · subst ha; simp only [if_true]; exact tlP_of_none hg b
    · simp only [ha, if_false]
  · rename_i p hg
    extract_lets s1 pool s2 s3 s4 s5
    have hok := (hinv.get hg).2
    have sk3 : Skel s s3 :=
      ((foldl_setTEnd_skel p.threads time s).trans (skel_setTEnd _ _ _)).trans (skel_setPEnd _ _ _)
    have g3 := sk3.goodT hinv
    have hok3 := hok.mono sk3.extP sk3.extT
    have hpool : PoolOK (tsk s3.tents).length pool := by
      simp only [pool]
      split
      · exact foldl_poolAdd_ok _ _ hok3.pool hok3.thr
      · exact hok3.pool
    have c4 : s4.cfg = s3.cfg := by simp only [s4]; split <;> rfl
    have p4 : s4.procs = s3.procs := by simp only [s4]; split <;> rfl
    have e4 : s4.pents = s3.pents := by simp only [s4]; split <;> rfl
    have t4 : s4.tents = s3.tents := by simp only [s4]; split <;> rfl
    have q4 : s4.procPool = s3.procPool := by simp only [s4]; split <;> rfl
    have k4 : s4.parked.flatMap (·.1) = s3.parked.flatMap (·.1) ++ p.samples := by
      simp only [s4]
      split
      · rename_i he
        rw [List.isEmpty_iff.mp he]; simp
      · simp
    have c5 : s5.cfg = s4.cfg := by simp only [s5]; split <;> (try split) <;> rfl
    have p5 : s5.procs = s4.procs := by simp only [s5]; split <;> (try split) <;> rfl
    have e5 : s5.pents = s4.pents := by simp only [s5]; split <;> (try split) <;> rfl
    have t5 : s5.tents = s4.tents := by simp only [s5]; split <;> (try split) <;> rfl
    have k5 : s5.parked = s4.parked := by simp only [s5]; split <;> (try split) <;> rfl
    have q5 : ProcPoolOK (psk s3.pents).length (tsk s3.tents).length s5.procPool := by
      have base : ProcPoolOK (psk s3.pents).length (tsk s3.tents).length s4.procPool := by
        rw [q4]; exact g3.inv.ppool
      simp only [s5]
      split
      · split
        · exact procPoolAdd_ok base _ ⟨hok3.h, hok3.main, hpool⟩
        · exact base
      · exact base
    have hg3 : alGet s3.procs pid = some p := by rw [sk3.procs]; exact hg
    have fin := remove_good (r := delProc s5 pid) g3.inv hg3 (c5.trans c4)
      (by show alDel s5.procs pid = _; rw [p5, p4]) (e5.trans e4) (t5.trans t4)
      (by show s5.parked.flatMap (·.1) = _; rw [k5, k4]) q5
    refine ⟨g3.toGood.trans fin.1, ?_⟩
    intro a b
    rw [fin.2 a b, g3.tl a b]

theorem renameProcess_spec {s : St} {pid time : Nat} {name : String} (hinv : InvA s) :
    GoodT s (renameProcess s pid time name) := by
  unfold renameProcess
  split
  · exact (getNewProc_spec hinv (show getNewProc s pid (some name) time = (_, _) from rfl)).1
  · rename_i p hg
    have hok := (hinv.get hg).2
    have hpid := (hinv.get hg).1
    split
    · exact GoodT.refl hinv
    · dsimp only
      split
      · rename_i r pool' heq
        have hr : s.cfg.reuse = true := by
          cases hc : s.cfg.reuse
          · simp [hc] at heq
          · rfl
        have hn : procPoolTake s.procPool name = some (r, pool') := by simpa [hr] using heq
        obtain ⟨hrec, hpp⟩ := procPoolTake_ok hinv.ppool hn
        have key : ∀ pp, ProcPoolOK (psk s.pents).length (tsk s.tents).length pp →
            GoodT s (putProc { s with procPool := pp }
              { p with h := r.ph, name := some name,
                       main := { p.main with h := r.mainTh, name := some name }, pool := r.pool }) := by
          intro pp hppok
          have g1 := setPool_goodT hinv hppok
          refine g1.trans (put_goodT g1.inv (p0 := p) ?_ rfl (lastOf_congr rfl rfl rfl) ?_)
          · show alGet s.procs p.pid = some p
            rw [hpid]; exact hg
          · exact ProcOK.ofReuse hr hrec.1 hrec.2.1 hok.thr hrec.2.2
        apply key
        split
        · exact procPoolAdd_ok hpp _ ⟨hok.h, hok.main, hok.pool⟩
        · exact hpp
      · have sk : Skel s (setTName (setPName s p.h name) p.main.h name) :=
          (skel_setPName _ _ _).trans (skel_setTName _ _ _)
        have g1 := sk.goodT hinv
        refine g1.trans (put_goodT g1.inv (p0 := p) ?_ rfl (lastOf_congr rfl rfl rfl) ?_)
        · show alGet (setTName (setPName s p.h name) p.main.h name).procs p.pid = some p
          rw [sk.procs, hpid]; exact hg
        · have hok1 := hok.mono sk.extP sk.extT
          rw [← sk.cfg] at hok1
          exact hok1.congr rfl rfl rfl rfl rfl

theorem putThread_ne {p : ProcC} {tid : Nat} (t : ThreadC) (hne : tid ≠ p.pid) :
    putThread p tid t = { p with threads := alPut p.threads tid t } := by
  unfold putThread; simp [hne]

theorem renameThread_spec {s : St} {p : ProcC} {tid time : Nat} {name : String} (hinv : InvA s)
    (hp : alGet s.procs p.pid = some p) : GoodT s (renameThread s p tid time name) := by
  unfold renameThread
  split
  · exact GoodT.refl hinv
  · rename_i htid
    have hok := (hinv.get hp).2
    split
    · exact getNewThread_spec hinv hp (show getNewThread s p tid (some name) time = (_, _) from rfl)
    · rename_i th hg
      have hth : lastOf p tid = th.lastTs := by rw [lastOf_thread htid, hg]; rfl
      split
      · exact GoodT.refl hinv
      · split
        · rename_i hr
          split
          · rename_i hh pool' hn
            obtain ⟨hlt, hpool⟩ := poolTake_ok hok.pool hn
            have key : ∀ pool'', PoolOK (tsk s.tents).length pool'' →
                GoodT s (putProc s { p with threads := alPut p.threads tid { th with h := hh, name := some name },
                                            pool := pool'' }) := by
              intro pool'' hpo
              refine put_goodT hinv (p0 := p) hp rfl ?_ ?_
              · intro b
                rw [lastOf_withPut p tid _ _ htid]
                by_cases hb : b = tid
                · subst hb; simp only [if_true]; exact hth.symm
                · simp only [hb, if_false]
              · exact hok.withThreads rfl rfl rfl
                  (all_alPut hok.thrAll ⟨hlt, fun hf => by rw [hr] at hf; cases hf⟩) hpo
            apply key
            split
            · exact poolAdd_ok hpool _ (hok.thr (tid, th) (alGet_mem hg))
            · exact hpool
          · exact GoodT.refl hinv
        · rw [putThread_ne _ htid]
          have sk := skel_setTName s th.h name
          have g1 := sk.goodT hinv
          have hok1 := hok.mono sk.extP sk.extT
          rw [← sk.cfg] at hok1
          refine g1.trans (put_goodT g1.inv (p0 := p) ?_ rfl ?_ ?_)
          · show alGet (setTName s th.h name).procs p.pid = some p
            rw [sk.procs]; exact hp
          · intro b
            rw [lastOf_withPut p tid _ _ htid]
            by_cases hb : b = tid
            · subst hb; simp only [if_true]; exact hth.symm
            · simp only [hb, if_false]
          · refine hok1.withThreads rfl rfl rfl (all_alPut hok1.thrAll ?_) hok1.pool
            exact hok1.thrAll (tid, th) (alGet_mem hg)

end Conv
