import SamplyModel.Model.AsmDecode
/-!
Helper lemmas for C20: the loop invariant (`loop_chain`), termination, absence of panics, completeness, and
the list-level consequences of `chainOk`.
-/
namespace Asm

/-! ### `LoopRes.cons` -/

theorem cons_done {it : Item} {r : LoopRes} {items : List Item} {f : Nat}
    (h : r.cons it = .done items f) : ∃ rest, r = .done rest f ∧ items = it :: rest := by
  cases r with
  | done rest f' =>
    simp only [LoopRes.cons, LoopRes.done.injEq] at h
    exact ⟨rest, by rw [h.2], h.1.symm⟩
  | panic => simp [LoopRes.cons] at h
  | nofuel => simp [LoopRes.cons] at h

theorem cons_panic {it : Item} {r : LoopRes} : r.cons it = .panic ↔ r = .panic := by
  cases r <;> simp [LoopRes.cons]

theorem cons_nofuel {it : Item} {r : LoopRes} : r.cons it = .nofuel ↔ r = .nofuel := by
  cases r <;> simp [LoopRes.cons]

/-! ### The loop produces a chain -/

theorem loop_chain (adjust decodeLen bytesLen : Nat) (dec : Nat → Dec)
    (hor : OracleOK bytesLen dec) (hadj : 1 ≤ adjust) :
    ∀ fuel offset items final,
      loop adjust decodeLen bytesLen dec fuel offset = .done items final →
      chainOk dec adjust decodeLen offset items final = true := by
  intro fuel
  induction fuel with
  | zero => intro offset items final h; simp [loop] at h
  | succ fuel ih =>
    intro offset items final h
    unfold loop at h
    split at h
    · -- offset ≥ decode_len
      simp only [LoopRes.done.injEq] at h
      obtain ⟨rfl, rfl⟩ := h
      simp [chainOk]
    · rename_i hlt
      split at h
      · -- ok len
        rename_i len hdec
        split at h
        · simp at h
        · obtain ⟨rest, hr, rfl⟩ := cons_done h
          have := ih _ _ _ hr
          have hl := (hor _ _ hdec).1
          simp only [chainOk, stepAt, hdec, beq_self_eq_true, Bool.true_and, Bool.and_eq_true,
            decide_eq_true_eq]
          exact ⟨by omega, hl, this⟩
      · -- exhausted
        simp only [LoopRes.done.injEq] at h
        obtain ⟨rfl, rfl⟩ := h
        simp [chainOk]
      · -- invalid
        rename_i hdec
        split at h
        · simp at h
        · split at h
          · simp at h
          · split at h
            · simp only [LoopRes.done.injEq] at h
              obtain ⟨rfl, rfl⟩ := h
              simp only [chainOk, stepAt, hdec, beq_self_eq_true, Bool.true_and, Bool.and_eq_true,
                decide_eq_true_eq]
              exact ⟨by omega, hadj, trivial⟩
            · obtain ⟨rest, hr, rfl⟩ := cons_done h
              have := ih _ _ _ hr
              simp only [chainOk, stepAt, hdec, beq_self_eq_true, Bool.true_and, Bool.and_eq_true,
                decide_eq_true_eq]
              exact ⟨by omega, hadj, this⟩

/-! ### Termination: `decodeLen - offset < fuel` suffices -/

theorem loop_fuel (adjust decodeLen bytesLen : Nat) (dec : Nat → Dec)
    (hor : OracleOK bytesLen dec) (hadj : 1 ≤ adjust) :
    ∀ fuel offset, decodeLen - offset < fuel →
      loop adjust decodeLen bytesLen dec fuel offset ≠ .nofuel := by
  intro fuel
  induction fuel with
  | zero => intro offset h; omega
  | succ fuel ih =>
    intro offset hf
    unfold loop
    split
    · simp
    · rename_i hlt
      split
      · rename_i len hdec
        have hl := (hor _ _ hdec).1
        split
        · simp
        · rw [Ne, cons_nofuel]
          exact ih _ (by omega)
      · simp
      · split
        · simp
        · split
          · simp
          · split
            · simp
            · rw [Ne, cons_nofuel]
              exact ih _ (by omega)

/-! ### No panic -/

theorem loop_no_panic (adjust decodeLen bytesLen : Nat) (dec : Nat → Dec)
    (hor : OracleOK bytesLen dec) (hlen : bytesLen + adjust ≤ u32max) :
    ∀ fuel offset, offset ≤ bytesLen →
      loop adjust decodeLen bytesLen dec fuel offset ≠ .panic := by
  intro fuel
  induction fuel with
  | zero => intro offset _; simp [loop]
  | succ fuel ih =>
    intro offset hoff
    unfold loop
    split
    · simp
    · split
      · rename_i len hdec
        have hl := (hor _ _ hdec).2
        split
        · omega
        · rw [Ne, cons_panic]
          exact ih _ hl
      · simp
      · split
        · omega
        · split
          · omega
          · split
            · simp
            · rw [Ne, cons_panic]
              exact ih _ (by omega)

/-! ### Completeness: the listing stops only at the requested length, at exhausted input, or past the slice -/

theorem loop_complete (adjust decodeLen bytesLen : Nat) (dec : Nat → Dec) :
    ∀ fuel offset items final,
      loop adjust decodeLen bytesLen dec fuel offset = .done items final →
      decodeLen ≤ final ∨ dec final = .exhausted ∨ bytesLen < final := by
  intro fuel
  induction fuel with
  | zero => intro offset items final h; simp [loop] at h
  | succ fuel ih =>
    intro offset items final h
    unfold loop at h
    split at h
    · simp only [LoopRes.done.injEq] at h
      obtain ⟨_, rfl⟩ := h
      left; assumption
    · split at h
      · split at h
        · simp at h
        · obtain ⟨rest, hr, _⟩ := cons_done h
          exact ih _ _ _ hr
      · rename_i hdec
        simp only [LoopRes.done.injEq] at h
        obtain ⟨_, rfl⟩ := h
        right; left; exact hdec
      · split at h
        · simp at h
        · split at h
          · simp at h
          · split at h
            · simp only [LoopRes.done.injEq] at h
              obtain ⟨_, rfl⟩ := h
              right; right; omega
            · obtain ⟨rest, hr, _⟩ := cons_done h
              exact ih _ _ _ hr

/-! ### What a chain means -/

theorem chain_cons {dec : Nat → Dec} {adjust limit p : Nat} {it : Item} {rest : List Item} {final : Nat}
    (h : chainOk dec adjust limit p (it :: rest) final = true) :
    it.off = p ∧ p < limit ∧ ∃ s, stepAt dec adjust it = some s ∧ 1 ≤ s ∧
      chainOk dec adjust limit (p + s) rest final = true := by
  simp only [chainOk, Bool.and_eq_true, beq_iff_eq, decide_eq_true_eq] at h
  obtain ⟨⟨h1, h2⟩, h3⟩ := h
  refine ⟨h1, h2, ?_⟩
  split at h3
  · rename_i s hs
    simp only [Bool.and_eq_true, decide_eq_true_eq] at h3
    exact ⟨s, hs, h3.1, h3.2⟩
  · simp at h3

/-- every listed offset lies in `[p, limit)`, and the chain ends at or after `p` -/
theorem chain_bounds {dec : Nat → Dec} {adjust limit : Nat} :
    ∀ (items : List Item) (p final : Nat), chainOk dec adjust limit p items final = true →
      p ≤ final ∧ ∀ it ∈ items, p ≤ it.off ∧ it.off < limit := by
  intro items
  induction items with
  | nil =>
    intro p final h
    simp only [chainOk, beq_iff_eq] at h
    subst h
    simp
  | cons it rest ih =>
    intro p final h
    obtain ⟨h1, h2, s, _, hs1, hrest⟩ := chain_cons h
    obtain ⟨hf, hall⟩ := ih _ _ hrest
    refine ⟨by omega, ?_⟩
    intro x hx
    rcases List.mem_cons.mp hx with rfl | hx
    · omega
    · have := hall x hx; omega

theorem chain_pairwise {dec : Nat → Dec} {adjust limit : Nat} :
    ∀ (items : List Item) (p final : Nat), chainOk dec adjust limit p items final = true →
      items.Pairwise (fun a b => a.off < b.off) := by
  intro items
  induction items with
  | nil => intro p final _; exact List.Pairwise.nil
  | cons it rest ih =>
    intro p final h
    obtain ⟨h1, _, s, _, hs1, hrest⟩ := chain_cons h
    refine List.Pairwise.cons ?_ (ih _ _ hrest)
    intro x hx
    have := (chain_bounds rest _ _ hrest).2 x hx
    omega

/-- consecutive listed instructions: the later offset is the earlier one plus the earlier one's step -/
theorem chain_consecutive {dec : Nat → Dec} {adjust limit : Nat} :
    ∀ (items : List Item) (p final : Nat), chainOk dec adjust limit p items final = true →
      ∀ i a b, items[i]? = some a → items[i + 1]? = some b →
        ∃ s, stepAt dec adjust a = some s ∧ b.off = a.off + s := by
  intro items
  induction items with
  | nil => intro p final _ i a b ha; simp at ha
  | cons it rest ih =>
    intro p final h i a b ha hb
    obtain ⟨h1, _, s, hs, _, hrest⟩ := chain_cons h
    cases i with
    | zero =>
      simp only [List.getElem?_cons_zero, Option.some.injEq] at ha
      subst ha
      simp only [Nat.zero_add, List.getElem?_cons_succ] at hb
      cases rest with
      | nil => simp at hb
      | cons it2 rest2 =>
        simp only [List.getElem?_cons_zero, Option.some.injEq] at hb
        subst hb
        obtain ⟨h2, _⟩ := chain_cons hrest
        exact ⟨s, hs, by omega⟩
    | succ i =>
      simp only [List.getElem?_cons_succ] at ha hb
      exact ih _ _ hrest i a b ha hb

/-- the chain's end is the last listed offset plus the last step -/
theorem chain_last {dec : Nat → Dec} {adjust limit : Nat} :
    ∀ (items : List Item) (p final : Nat), chainOk dec adjust limit p items final = true →
      ∀ a, items.getLast? = some a →
        ∃ s, stepAt dec adjust a = some s ∧ 1 ≤ s ∧ final = a.off + s := by
  intro items
  induction items with
  | nil => intro p final _ a ha; simp at ha
  | cons it rest ih =>
    intro p final h a ha
    obtain ⟨h1, _, s, hs, hs1, hrest⟩ := chain_cons h
    cases rest with
    | nil =>
      simp only [List.getLast?_singleton, Option.some.injEq] at ha
      subst ha
      simp only [chainOk, beq_iff_eq] at hrest
      exact ⟨s, hs, hs1, by omega⟩
    | cons it2 rest2 =>
      rw [List.getLast?_cons_cons] at ha
      exact ih _ _ hrest a ha

/-! ### Request arithmetic -/

theorem alignStart_le (a : Arch) (start : Nat) : alignStart a start ≤ start := by
  unfold alignStart; omega

theorem align_pos (a : Arch) : 0 < a.align := by cases a <;> simp [Arch.align]

theorem adjust_pos (a : Arch) : 1 ≤ a.adjust := by cases a <;> simp [Arch.adjust]

theorem adjust_le (a : Arch) : a.adjust ≤ 4 := by cases a <;> simp [Arch.adjust]

theorem disasmLen_eq_specLen (req : Req) (fe : Option Nat) :
    disasmLen req.start req.size req.cont fe = specLen req fe := by
  unfold disasmLen specLen
  cases req.cont <;> simp only [Bool.false_eq_true, if_false, if_true]
  cases fe with
  | none => rfl
  | some e =>
    simp only
    split
    · split <;> omega
    · omega

/-! ### The read -/

theorem containing_some {rs : List Region} {svma : Nat} {r : Region} (h : containing rs svma = some r) :
    r ∈ rs ∧ r.addr ≤ svma ∧ svma < r.addr + r.size := by
  unfold containing at h
  have h1 := List.mem_of_find?_eq_some h
  have h2 := List.find?_some h
  simp only [Region.containsAddr, Bool.and_eq_true, decide_eq_true_eq] at h2
  exact ⟨h1, h2.1.2, h2.2⟩

theorem readRange_ok {img : Image} {rel size fileOff n : Nat} (h : readRange img rel size = .ok fileOff n) :
    ∃ sec, containing img.sections (img.base + rel) = some sec ∧
      n = min size (sec.addr + sec.size - (img.base + rel)) ∧
      ∃ dl, (sourceRegion img sec (img.base + rel)).dataLen = some dl ∧
        (sourceRegion img sec (img.base + rel)).addr ≤ img.base + rel ∧
        fileOff = (sourceRegion img sec (img.base + rel)).fileOff
                    + (img.base + rel - (sourceRegion img sec (img.base + rel)).addr) ∧
        (img.base + rel - (sourceRegion img sec (img.base + rel)).addr) + n ≤ dl := by
  unfold readRange at h
  simp only at h
  split at h
  · simp at h
  · split at h
    · simp at h
    · rename_i sec hsec
      split at h
      · simp at h
      · rename_i dl hdl
        split at h
        · rename_i hc
          simp only [ReadRes.ok.injEq] at h
          obtain ⟨rfl, rfl⟩ := h
          refine ⟨sec, hsec, rfl, dl, hdl, hc.1, rfl, ?_⟩
          omega
        · simp at h

theorem fileSlice_some {lo : Nat} {w : List UInt8} {off n : Nat} {bs : List UInt8}
    (h : fileSlice lo w off n = some bs) :
    bs.length = n ∧ ∀ i, i < n → bs[i]? = w[off + i - lo]? := by
  unfold fileSlice at h
  split at h
  · rename_i hc
    simp only [Option.some.injEq] at h
    subst h
    refine ⟨by simp only [List.length_take, List.length_drop]; omega, ?_⟩
    intro i hi
    rw [List.getElem?_take_of_lt hi, List.getElem?_drop]
    congr 1
    omega
  · simp at h

end Asm
