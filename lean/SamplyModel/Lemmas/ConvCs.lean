import SamplyModel.Lemmas.ConvThread
import SamplyModel.Lemmas.ContextSwitch
/-!
Thread level of the converter's context-switch handling (C12 at converter level).

`threadStep` is what `Conv.step` does to the thread object it has looked up (`step` is literally
`commitThread … (sampleThread | wake | switchOutThread | schedThread …)` after `getByPid` / `getThread`, see
`Conv.step_thread_*` below); `threadRun` iterates it over the records of one thread incarnation, starting from a
fresh `Thread` (`Thread::new`: `context_switch_data: Default::default()`, no off-CPU stack, no last sample).
`timed` is the bare history of the incarnation as `CS.Ev`s (what `CS.spec` reads).
-/
namespace Conv
open CS

/-- the records of one thread incarnation -/
inductive TRec
  | sample (t period : Nat) (stack : List SFrame)
  | switchIn (t : Nat)
  | switchOut (t : Nat)
  | sched (t : Nat) (stack : List SFrame)
deriving Repr, DecidableEq

structure TRun where
  th : ThreadC
  /-- samples appended to the process's buffer for this thread, oldest first -/
  out : List USample := []
  safe : Bool := true
  /-- ghost: units of off-CPU groups that were dropped because no stack was stored -/
  dropped : Nat := 0
  /-- ghost: units of the off-CPU groups that were turned into samples -/
  units : Nat := 0
  /-- ghost: some emitted group stood for more than 2^31 samples (`i32::try_from(..).unwrap_or(0)` hit) -/
  sat : Bool := false
deriving Repr

/-- units of the group a wake-up produces (0 = none) -/
def wakeUnits (s : St) (th : ThreadC) (e : Ev) : Nat :=
  (((CS.step s.cfg.interval th.cs e).2.1).map (·.count)).getD 0

/-- ghost bookkeeping of a wake-up: the units of the group go to `units` when a stack is stored (the group
becomes samples), else to `dropped` -/
def wakeGhost (s : St) (r : TRun) (e : Ev) : Nat × Nat × Bool :=
  let n := wakeUnits s r.th e
  if r.th.offStack.isSome then (r.dropped, r.units + n, r.sat || decide (2^31 ≤ n - 1))
  else (r.dropped + n, r.units, r.sat)

def threadStep (s : St) (pid tid : Nat) (r : TRun) : TRec → TRun
  | .sample t period stack =>
    if r.th.lastTs = some t then r else
    let x := sampleThread s r.th pid tid t period stack
    let g := wakeGhost s r (.sample t)
    { th := x.1, out := r.out ++ x.2.1, safe := r.safe && x.2.2, dropped := g.1, units := g.2.1, sat := g.2.2 }
  | .switchIn t =>
    let x := wake s r.th (.switchIn t) pid tid
    let g := wakeGhost s r (.switchIn t)
    { th := x.1, out := r.out ++ x.2.1, safe := r.safe && x.2.2, dropped := g.1, units := g.2.1, sat := g.2.2 }
  | .switchOut t =>
    let x := switchOutThread s r.th t
    { r with th := x.1, safe := r.safe && x.2.2 }
  | .sched t stack =>
    let x := schedThread s r.th t stack
    { r with th := x.1, safe := r.safe && x.2.2 }

def threadRun (s : St) (pid tid h : Nat) (rs : List TRec) : TRun :=
  rs.foldl (threadStep s pid tid) { th := { h } }

/-- the bare history of the incarnation: accepted samples (a sample with the timestamp of the previous
accepted sample is a repeat), switch-ins, switch-outs; a `sched_switch` sample is a switch-out only in
`SchedSwitchAndSamples` mode -/
def timedAux (cfg : Config) : Option Nat → List TRec → List Ev
  | _, [] => []
  | last, .sample t _ _ :: rest => if last = some t then timedAux cfg last rest else .sample t :: timedAux cfg (some t) rest
  | last, .switchIn t :: rest => .switchIn t :: timedAux cfg last rest
  | last, .switchOut t :: rest => .switchOut t :: timedAux cfg last rest
  | last, .sched t _ :: rest =>
    if cfg.offCpu == some .schedSwitchAndSamples then .switchOut t :: timedAux cfg last rest
    else timedAux cfg last rest

def timed (cfg : Config) (rs : List TRec) : List Ev := timedAux cfg none rs

def cpuSum (us : List USample) : Nat := (us.map (·.cpu)).sum
def offWeight (us : List USample) : Nat := ((us.filter (·.synth)).map (·.weight)).sum

/-! ### `process_off_cpu_sample_group` -/

theorem offCpuGroup_sums (s : St) (h : Nat) (g : Group) (c : Nat) (stk : List SFrame) (lbl : String)
    (pid tid : Nat) (hc : 1 ≤ g.count) (hsat : g.count - 1 < 2^31) :
    offWeight (offCpuGroup s h g c stk lbl pid tid) = g.count * s.cfg.offWeight ∧
    cpuSum (offCpuGroup s h g c stk lbl pid tid) = c ∧
    (offCpuGroup s h g c stk lbl pid tid).map (·.t) =
      (if g.count > 1 then [conv s g.begin_, conv s g.end_] else [conv s g.begin_]) := by
  unfold offCpuGroup offWeight cpuSum
  by_cases h1 : g.count > 1
  · rw [if_pos h1, if_pos h1]
    simp only [List.filter_cons, List.filter_nil, List.map_cons, List.map_nil, List.sum_cons,
      List.sum_nil, i32OrZero, hsat, if_true, Nat.add_zero, USample.synth_mk, ItemKind.offCpu_bne]
    refine ⟨?_, trivial, trivial⟩
    have : g.count = (g.count - 1) + 1 := by omega
    generalize s.cfg.offWeight = w
    conv => rhs; rw [this, Nat.add_mul, Nat.one_mul]
    omega
  · have h2 : g.count = 1 := by omega
    rw [if_neg h1, if_neg h1]
    simp only [List.filter_cons, List.filter_nil, List.map_cons, List.map_nil, List.sum_cons,
      List.sum_nil, if_true, h2, Nat.one_mul, Nat.add_zero, and_self, USample.synth_mk, ItemKind.offCpu_bne]


theorem offCpuGroup_cpu (s : St) (h : Nat) (g : Group) (c : Nat) (stk : List SFrame) (lbl : String)
    (pid tid : Nat) : cpuSum (offCpuGroup s h g c stk lbl pid tid) = c := by
  unfold offCpuGroup cpuSum
  split <;> simp

/-! ### the module-level account of a thread -/

theorem cpuSum_append (a b : List USample) : cpuSum (a ++ b) = cpuSum a + cpuSum b := by
  simp [cpuSum, List.sum_append]

theorem offWeight_append (a b : List USample) : offWeight (a ++ b) = offWeight a + offWeight b := by
  simp [offWeight, List.sum_append]

theorem step_no_delta (i : Nat) (st : CS.St) (e : Ev) (he : e ≠ .consume) : (CS.step i st e).2.2 = none := by
  obtain ⟨s0, on, off⟩ := st
  cases e <;> cases s0 <;> first | rfl | exact absurd rfl he

theorem step_out_no_group (i : Nat) (st : CS.St) (t : Nat) : (CS.step i st (.switchOut t)).2.1 = none := by
  obtain ⟨s0, on, off⟩ := st
  cases s0 <;> rfl

theorem step_consume (i : Nat) (st : CS.St) :
    (CS.step i st .consume).2.1 = none ∧ (CS.step i st .consume).2.2 = some st.onAcc ∧
    (CS.step i st .consume).1.onAcc = 0 ∧ (CS.step i st .consume).1.offAcc = st.offAcc ∧
    (CS.step i st .consume).1.state = st.state := by
  obtain ⟨s0, on, off⟩ := st
  cases s0 <;> exact ⟨rfl, rfl, rfl, rfl, rfl⟩

/-- what a thread run stands for at module level: an account `a` of the module model that satisfies the
module invariant (`CS.Inv`), is in the thread's state, has seen the bare history summarised by `h`, has handed
out exactly the cpu deltas attached to the emitted samples, and whose groups are the emitted + dropped units -/
def TInv (s : St) (r : TRun) (last : Option Nat) (h : H) : Prop :=
  r.th.lastTs = last ∧ r.safe = true ∧
  ∃ a : Acc, Inv s.cfg.interval a ∧ a.st = r.th.cs ∧ a.h = h ∧ a.handed = cpuSum r.out ∧
    groupCount a.groups = r.units + r.dropped ∧
    (r.sat = false → offWeight r.out = r.units * s.cfg.offWeight)

/-- the account after one non-consume event -/
theorem acc_step (i : Nat) (hi : 0 < i) (a : Acc) (e : Ev) (hinv : Inv i a) (ht : timeOk a.h e) (he : e ≠ .consume) :
    Inv i (accStep i a e) ∧ (accStep i a e).st = (CS.step i a.st e).1 ∧ (accStep i a e).h = hstep a.h e ∧
    (accStep i a e).handed = a.handed ∧
    groupCount (accStep i a e).groups = groupCount a.groups + (((CS.step i a.st e).2.1).map (·.count)).getD 0 ∧
    stepSafe i a.st e = true ∧ (∀ g, (CS.step i a.st e).2.1 = some g → 1 ≤ g.count) := by
  have hf := step_facts i hi a e hinv ht
  refine ⟨hf.inv, rfl, rfl, ?_, ?_, hf.safe, ?_⟩
  · show a.handed + ((CS.step i a.st e).2.2).getD 0 = a.handed
    rw [step_no_delta i a.st e he]; rfl
  · show groupCount (a.groups ++ ((CS.step i a.st e).2.1).toList) = _
    rw [groupCount_append]
  · intro g hg
    obtain ⟨_, _, _, _, _, _, _, hok⟩ := hf.inside g hg
    exact hok.2.1

/-- the account after a `consume` -/
theorem acc_consume (i : Nat) (hi : 0 < i) (a : Acc) (hinv : Inv i a) :
    Inv i (accStep i a .consume) ∧ (accStep i a .consume).st = (CS.step i a.st .consume).1 ∧
    (accStep i a .consume).h = a.h ∧
    (accStep i a .consume).handed = a.handed + ((CS.step i a.st .consume).2.2).getD 0 ∧
    groupCount (accStep i a .consume).groups = groupCount a.groups := by
  have hf := step_facts i hi a .consume hinv (by unfold timeOk; simp [Ev.time?])
  refine ⟨hf.inv, rfl, rfl, rfl, ?_⟩
  show groupCount (a.groups ++ ((CS.step i a.st .consume).2.1).toList) = _
  rw [(step_consume i a.st).1]; simp

/-- a wake-up (`wake` with a switch-in or an accepted sample) at account level -/
theorem wake_acc (s : St) (hi : 0 < s.cfg.interval) (th : ThreadC) (e : Ev) (pid tid : Nat) (he : e ≠ .consume)
    (a : Acc) (hinv : Inv s.cfg.interval a) (hst : a.st = th.cs) (ht : timeOk a.h e) :
    ∃ a', Inv s.cfg.interval a' ∧ a'.st = (wake s th e pid tid).1.cs ∧ a'.h = hstep a.h e ∧
      a'.handed = a.handed + cpuSum (wake s th e pid tid).2.1 ∧
      groupCount a'.groups = groupCount a.groups + wakeUnits s th e ∧
      (wake s th e pid tid).2.2 = true ∧
      (th.offStack.isSome → wakeUnits s th e - 1 < 2^31 →
        offWeight (wake s th e pid tid).2.1 = wakeUnits s th e * s.cfg.offWeight) ∧
      (th.offStack.isNone → (wake s th e pid tid).2.1 = []) := by
  obtain ⟨h1, h2, h3, h4, h5, h6, h7⟩ := acc_step s.cfg.interval hi a e hinv ht he
  rw [hst] at h2 h5 h6 h7
  unfold wake wakeUnits
  dsimp only
  cases hg : (CS.step s.cfg.interval th.cs e).2.1 with
  | none =>
    refine ⟨accStep s.cfg.interval a e, h1, ?_, h3, ?_, ?_, h6, ?_, ?_⟩
    · rw [h2]
    · rw [h4]; simp [cpuSum]
    · rw [h5, hg]
    · intro _ _; simp [offWeight]
    · intro _; rfl
  | some g =>
    cases hs : th.offStack with
    | none =>
      refine ⟨accStep s.cfg.interval a e, h1, ?_, h3, ?_, ?_, h6, ?_, ?_⟩
      · rw [h2]
      · rw [h4]; simp [cpuSum]
      · rw [h5, hg]
      · intro hsome; simp at hsome
      · intro _; rfl
    | some stk =>
      obtain ⟨c1, c2, c3, c4, c5⟩ := acc_consume s.cfg.interval hi (accStep s.cfg.interval a e) h1
      rw [h2] at c2 c4
      have hcnt := h7 g hg
      refine ⟨accStep s.cfg.interval (accStep s.cfg.interval a e) .consume, c1, ?_, ?_, ?_, ?_, h6, ?_, ?_⟩
      · rw [c2]
      · rw [c3, h3]
      · rw [c4, h4, offCpuGroup_cpu]
      · rw [c5, h5, hg]
      · intro _ hlt
        simp only [Option.map_some, Option.getD_some] at hlt ⊢
        exact (offCpuGroup_sums s th.h g _ stk (threadLabel th.name pid tid) pid tid hcnt hlt).1
      · intro hn; simp at hn

/-! ### one record of the incarnation -/

/-- the timed event a record of the incarnation amounts to in the bare history (`none`: a repeated sample;
a `sched_switch` sample outside `SchedSwitchAndSamples` mode) -/
def tev (cfg : Config) (last : Option Nat) : TRec → Option Ev
  | .sample t _ _ => if last = some t then none else some (.sample t)
  | .switchIn t => some (.switchIn t)
  | .switchOut t => some (.switchOut t)
  | .sched t _ => if cfg.offCpu == some .schedSwitchAndSamples then some (.switchOut t) else none

/-- specification side of one record: (time of the last accepted sample, bare-history summary) -/
def tstep (cfg : Config) (p : Option Nat × H) (r : TRec) : Option Nat × H :=
  match tev cfg p.1 r with
  | none => p
  | some e => ((match r with | .sample t _ _ => some t | _ => p.1), hstep p.2 e)

/-- what the bare history of the incarnation says (`CS.hstep` folded over its timed events) -/
def threadSpec (cfg : Config) (rs : List TRec) : H := (rs.foldl (tstep cfg) (none, H.init)).2

/-- the records of the incarnation are time-ordered -/
def TOrdered (cfg : Config) : Option Nat × H → List TRec → Prop
  | _, [] => True
  | p, r :: rs => (match tev cfg p.1 r with | some e => timeOk p.2 e | none => True) ∧ TOrdered cfg (tstep cfg p r) rs

instance decTOrdered (cfg : Config) : (p : Option Nat × H) → (rs : List TRec) → Decidable (TOrdered cfg p rs)
  | _, [] => isTrue trivial
  | p, r :: rs =>
    have : Decidable (TOrdered cfg (tstep cfg p r) rs) := decTOrdered cfg (tstep cfg p r) rs
    have : Decidable (match tev cfg p.1 r with | some e => timeOk p.2 e | none => True) := by
      split <;> infer_instance
    by unfold TOrdered; exact inferInstance

theorem threadSpec_eq_aux (cfg : Config) (rs : List TRec) (p : Option Nat × H) :
    (rs.foldl (tstep cfg) p).2 = (timedAux cfg p.1 rs).foldl hstep p.2 := by
  induction rs generalizing p with
  | nil => rfl
  | cons r rs ih =>
    simp only [List.foldl_cons]
    rw [ih]
    cases r with
    | sample t period stack =>
      simp only [tstep, tev, timedAux]
      split <;> simp_all
    | switchIn t => simp [tstep, tev, timedAux]
    | switchOut t => simp [tstep, tev, timedAux]
    | sched t stack =>
      simp only [tstep, tev, timedAux]
      split <;> simp_all

/-- `threadSpec` is `CS.spec` of the incarnation's bare history -/
theorem threadSpec_eq (cfg : Config) (rs : List TRec) : threadSpec cfg rs = CS.spec (timed cfg rs) :=
  threadSpec_eq_aux cfg rs (none, H.init)

theorem hstep_consume (h : H) : hstep h .consume = h := rfl

/-- the sample path in a mode with an off-CPU indicator: wake-up on the thread with the new `lastTs`, then the
hand-out that goes to the sample itself -/
theorem sampleThread_eq (s : St) (th : ThreadC) (pid tid t period : Nat) (stack : List SFrame)
    (hoc : s.cfg.offCpu.isSome = true) :
    sampleThread s th pid tid t period stack =
      ({ (wake s { th with lastTs := some t } (.sample t) pid tid).1 with
          cs := (CS.step s.cfg.interval (wake s { th with lastTs := some t } (.sample t) pid tid).1.cs .consume).1 },
        (wake s { th with lastTs := some t } (.sample t) pid tid).2.1 ++
          [{ th := th.h, t := conv s t, tmono := t,
             cpu := ((CS.step s.cfg.interval (wake s { th with lastTs := some t } (.sample t) pid tid).1.cs .consume).2.2).getD 0,
             stack, tlabel := threadLabel th.name pid tid, gpid := pid, gtid := tid }],
        (wake s { th with lastTs := some t } (.sample t) pid tid).2.2) := by
  simp only [sampleThread, hoc, if_true]

theorem threadStep_inv (s : St) (hi : 0 < s.cfg.interval) (hoc : s.cfg.offCpu.isSome = true) (pid tid : Nat)
    (r : TRun) (p : Option Nat × H) (rec : TRec) (hinv : TInv s r p.1 p.2)
    (ht : ∀ e, tev s.cfg p.1 rec = some e → timeOk p.2 e) :
    TInv s (threadStep s pid tid r rec) (tstep s.cfg p rec).1 (tstep s.cfg p rec).2 := by
  obtain ⟨hl, hsafe, a, ainv, ast, ah, ahanded, agroups, aw⟩ := hinv
  cases rec with
  | switchOut t =>
    have hto : timeOk a.h (.switchOut t) := by rw [ah]; exact ht _ rfl
    obtain ⟨h1, h2, h3, h4, h5, h6, _⟩ := acc_step s.cfg.interval hi a (.switchOut t) ainv hto (by intro h; cases h)
    rw [ast] at h2 h5 h6
    refine ⟨hl, ?_, accStep s.cfg.interval a (.switchOut t), h1, h2, by rw [h3, ah]; rfl, ?_, ?_, aw⟩
    · simp only [threadStep, switchOutThread, hsafe, h6, Bool.and_self]
    · rw [h4]; exact ahanded
    · rw [h5, step_out_no_group]; exact agroups
  | sched t stack =>
    simp only [threadStep, schedThread, tstep, tev]
    by_cases hss : (s.cfg.offCpu == some OffCpu.schedSwitchAndSamples) = true
    · simp only [hss, if_true]
      have hto : timeOk a.h (.switchOut t) := by
        rw [ah]; exact ht _ (by simp only [tev, hss, if_true])
      obtain ⟨h1, h2, h3, h4, h5, h6, _⟩ := acc_step s.cfg.interval hi a (.switchOut t) ainv hto (by intro h; cases h)
      rw [ast] at h2 h5 h6
      refine ⟨hl, ?_, accStep s.cfg.interval a (.switchOut t), h1, h2, by rw [h3, ah], ?_, ?_, aw⟩
      · simp only [switchOutThread, hsafe, h6, Bool.and_self]
      · rw [h4]; exact ahanded
      · rw [h5, step_out_no_group]; exact agroups
    · simp only [hss, if_false, Bool.false_eq_true]
      exact ⟨hl, by simp [hsafe], a, ainv, ast, ah, ahanded, agroups, aw⟩
  | switchIn t =>
    have hto : timeOk a.h (.switchIn t) := by rw [ah]; exact ht _ rfl
    obtain ⟨a', w1, w2, w3, w4, w5, w6, w7, w8⟩ :=
      wake_acc s hi r.th (.switchIn t) pid tid (by intro h; cases h) a ainv ast hto
    have hsp := wake_spec s r.th (.switchIn t) pid tid
    refine ⟨hsp.2.1.trans hl, ?_, a', w1, w2, by rw [w3, ah]; rfl, ?_, ?_, ?_⟩
    · simp only [threadStep, hsafe, w6, Bool.and_self]
    · simp only [threadStep]; rw [w4, cpuSum_append, ahanded]
    · simp only [threadStep, wakeGhost]
      rw [w5, agroups]
      split <;> simp only <;> omega
    · simp only [threadStep, wakeGhost]
      cases hs : r.th.offStack with
      | none =>
        simp only [Option.isSome_none, Bool.false_eq_true, if_false]
        intro hsat
        rw [w8 (by rw [hs]; rfl), List.append_nil]
        exact aw hsat
      | some stk =>
        simp only [Option.isSome_some, if_true, Bool.or_eq_false_iff, decide_eq_false_iff_not, Nat.not_le]
        intro ⟨hsat, hlt⟩
        rw [offWeight_append, aw hsat, w7 (by rw [hs]; rfl) hlt, Nat.add_mul]
  | sample t period stack =>
    simp only [threadStep, tstep, tev]
    rw [hl]
    by_cases hdup : p.1 = some t
    · simp only [hdup, if_true]
      exact ⟨hl.trans hdup, hsafe, a, ainv, ast, ah, ahanded, agroups, aw⟩
    · simp only [hdup, if_false]
      have hto : timeOk a.h (.sample t) := by
        rw [ah]; exact ht _ (by simp only [tev, hdup, if_false])
      rw [sampleThread_eq s r.th pid tid t period stack hoc]
      have hwu : wakeGhost s r (.sample t) =
          (let n := wakeUnits s { r.th with lastTs := some t } (.sample t)
           if ({ r.th with lastTs := some t } : ThreadC).offStack.isSome then
             (r.dropped, r.units + n, r.sat || decide (2^31 ≤ n - 1))
           else (r.dropped + n, r.units, r.sat)) := rfl
      rw [hwu]
      have ast0 : a.st = ({ r.th with lastTs := some t } : ThreadC).cs := ast
      have hl0 : ({ r.th with lastTs := some t } : ThreadC).lastTs = some t := rfl
      generalize ({ r.th with lastTs := some t } : ThreadC) = th0 at ast0 hl0 ⊢
      -- the wake-up on the thread with `lastTs := some t`
      obtain ⟨a', w1, w2, w3, w4, w5, w6, w7, w8⟩ :=
        wake_acc s hi th0 (.sample t) pid tid (by intro h; cases h) a ainv ast0 hto
      obtain ⟨c1, c2, c3, c4, c5⟩ := acc_consume s.cfg.interval hi a' w1
      rw [w2] at c2 c4
      have hu : ∀ (u : USample) (l : List USample), u.synth = false → offWeight (l ++ [u]) = offWeight l := by
        intro u l hu
        rw [offWeight_append]; simp [offWeight, hu]
      refine ⟨(wake_spec s th0 (.sample t) pid tid).2.1.trans hl0, ?_, accStep s.cfg.interval a' .consume, c1, c2,
        by rw [c3, w3, ah], ?_, ?_, ?_⟩
      · simp only [hsafe, w6, Bool.and_self]
      · rw [c4, w4, cpuSum_append, cpuSum_append, ahanded]
        simp only [cpuSum, List.map_cons, List.map_nil, List.sum_cons, List.sum_nil, Nat.add_zero]
        omega
      · dsimp only
        rw [c5, w5, agroups]
        split <;> simp only <;> omega
      · dsimp only
        cases hs : th0.offStack with
        | none =>
          simp only [Option.isSome_none, Bool.false_eq_true, if_false]
          intro hsat
          rw [← List.append_assoc, hu _ _ rfl, w8 (by rw [hs]; rfl), List.append_nil]
          exact aw hsat
        | some stk =>
          simp only [Option.isSome_some, if_true, Bool.or_eq_false_iff, decide_eq_false_iff_not, Nat.not_le]
          intro ⟨hsat, hlt⟩
          rw [← List.append_assoc, hu _ _ rfl, offWeight_append, aw hsat, w7 (by rw [hs]; rfl) hlt, Nat.add_mul]

theorem threadRun_inv (s : St) (hi : 0 < s.cfg.interval) (hoc : s.cfg.offCpu.isSome = true) (pid tid : Nat)
    (rs : List TRec) (r : TRun) (p : Option Nat × H) (hinv : TInv s r p.1 p.2) (ho : TOrdered s.cfg p rs) :
    TInv s (rs.foldl (threadStep s pid tid) r) (rs.foldl (tstep s.cfg) p).1 (rs.foldl (tstep s.cfg) p).2 := by
  induction rs generalizing r p with
  | nil => exact hinv
  | cons x xs ih =>
    simp only [List.foldl_cons]
    exact ih _ _ (threadStep_inv s hi hoc pid tid r p x hinv
      (fun e he => by have hm := ho.1; rw [he] at hm; exact hm)) ho.2

theorem tinv_init (s : St) (hi : 0 < s.cfg.interval) (h : Nat) : TInv s { th := { h } } none H.init :=
  ⟨rfl, rfl, Acc.init, inv_init s.cfg.interval hi, rfl, rfl, rfl, rfl, fun _ => by simp [offWeight]⟩

theorem tinv_offcpu {s : St} {r : TRun} {last : Option Nat} {h : H} (hinv : TInv s r last h) :
    r.th.cs.offAcc < s.cfg.interval ∧
    (r.units + r.dropped) * s.cfg.interval + r.th.cs.offAcc
      + (match h.last, h.sleepStart with
         | some (now, false), some s0 => now - s0
         | _, _ => 0)
      = h.sleeping ∧
    (r.sat = false → offWeight r.out = r.units * s.cfg.offWeight) := by
  obtain ⟨_, _, a, ainv, ast, ah, _, agroups, aw⟩ := hinv
  obtain ⟨_, h2, h3, _⟩ := ainv
  rw [agroups, ast, ah] at h3
  rw [ast] at h2
  refine ⟨h2, ?_, aw⟩
  generalize r.units + r.dropped = n at *
  generalize r.th.cs = st at *
  obtain ⟨s0, on, off⟩ := st
  obtain ⟨last', ss, rr, sl⟩ := h
  rcases s0 with _ | t | t <;> rcases last' with _ | ⟨t', (_ | _)⟩ <;> rcases ss with _ | s1 <;>
    simp only [Link] at h3 ⊢ <;> omega

end Conv
