import SamplyModel.Lemmas.FileCreation
/-!
"Written successfully at most once" (C16): bookkeeping invariant for the ghost fields `okWrites` (callbacks
that returned `Ok`), `lost` (those whose attempt was lost afterwards: killed before the rename, or the
rename failed) and `okAt` (the one that has not renamed yet).
-/
namespace FC

structure OInv (s : State) : Prop where
  k1 : ∀ p i, s.pc p = .wroteOk i → s.okAt = some p
  k2 : ∀ p, s.okAt = some p → isWroteOk (s.pc p) = true
  /-- every `Ok` of a callback is accounted for: it was renamed, it was lost, or it is about to be renamed -/
  k3 : s.okWrites.length = s.winners.length + s.lost.length + (if s.okAt.isSome then 1 else 0)

theorem isWroteOk_eq {pc : PC} (h : isWroteOk pc = true) : inCS pc = true ∧ ∃ i, pc = .wroteOk i := by
  cases pc <;> simp [isWroteOk] at h <;> simp [inCS]

theorem oinv_init : OInv State.init := by
  constructor <;> simp [State.init]

set_option maxHeartbeats 1000000

theorem oinv_stepP {pl : Pid → Content} {s s' : State} {p : Pid} (h : Inv pl s) (ho : OInv s)
    (hn : stepP pl s p = some s') : OInv s' := by
  have hm := @Inv.mutex pl s h
  obtain ⟨k1, k2, k3⟩ := ho
  have k2' : ∀ q, s.okAt = some q → inCS (s.pc q) = true ∧ ∃ i, s.pc q = .wroteOk i :=
    fun q hq => isWroteOk_eq (k2 q hq)
  have hw : isWroteOk (s.pc p) = true → ∃ i, s.pc p = .wroteOk i := fun h => (isWroteOk_eq h).2
  cases hok : s.okAt
  all_goals unfold stepP at hn
  all_goals (split at hn <;> (try split at hn))
  all_goals (first | (injection hn with hn; subst hn) | (exact absurd hn (by simp)))
  all_goals constructor
  all_goals (try simp only [upd])
  all_goals (grind [inCS, isWroteOk])

theorem oinv_failP {pl : Pid → Content} {s s' : State} {p : Pid} (h : Inv pl s) (ho : OInv s)
    (hn : failP s p = some s') : OInv s' := by
  have hm := @Inv.mutex pl s h
  obtain ⟨k1, k2, k3⟩ := ho
  have k2' : ∀ q, s.okAt = some q → inCS (s.pc q) = true ∧ ∃ i, s.pc q = .wroteOk i :=
    fun q hq => isWroteOk_eq (k2 q hq)
  have hw : isWroteOk (s.pc p) = true → ∃ i, s.pc p = .wroteOk i := fun h => (isWroteOk_eq h).2
  cases hok : s.okAt
  all_goals unfold failP at hn
  all_goals split at hn
  all_goals (first | (injection hn with hn; subst hn) | (exact absurd hn (by simp)))
  all_goals constructor
  all_goals (try simp only [upd])
  all_goals (grind [inCS, isWroteOk])

theorem oinv_cancelP {pl : Pid → Content} {s s' : State} {p : Pid} (h : Inv pl s) (ho : OInv s)
    (hn : cancelP s p = some s') : OInv s' := by
  have hm := @Inv.mutex pl s h
  obtain ⟨k1, k2, k3⟩ := ho
  have k2' : ∀ q, s.okAt = some q → inCS (s.pc q) = true ∧ ∃ i, s.pc q = .wroteOk i :=
    fun q hq => isWroteOk_eq (k2 q hq)
  have hw : isWroteOk (s.pc p) = true → ∃ i, s.pc p = .wroteOk i := fun h => (isWroteOk_eq h).2
  cases hok : s.okAt
  all_goals unfold cancelP at hn
  all_goals split at hn
  all_goals (first | (injection hn with hn; subst hn) | (exact absurd hn (by simp)))
  all_goals constructor
  all_goals (try simp only [upd])
  all_goals (grind [inCS, isWroteOk])

theorem oinv_crashP {pl : Pid → Content} {s s' : State} {p : Pid} (h : Inv pl s) (ho : OInv s)
    (hn : crashP s p = some s') : OInv s' := by
  have hm := @Inv.mutex pl s h
  obtain ⟨k1, k2, k3⟩ := ho
  have k2' : ∀ q, s.okAt = some q → inCS (s.pc q) = true ∧ ∃ i, s.pc q = .wroteOk i :=
    fun q hq => isWroteOk_eq (k2 q hq)
  have hw : isWroteOk (s.pc p) = true → ∃ i, s.pc p = .wroteOk i := fun h => (isWroteOk_eq h).2
  cases hok : s.okAt
  all_goals unfold crashP at hn
  all_goals split at hn
  all_goals (try (exact absurd hn (by simp)))
  all_goals split at hn
  all_goals (injection hn with hn; subst hn)
  all_goals constructor
  all_goals (try simp only [upd, lostAfterCrash, okAtAfterCrash])
  all_goals (grind [inCS, isWroteOk, quiet])

theorem oinv_next {pl : Pid → Content} {s s' : State} {a : Act} (h : Inv pl s) (ho : OInv s)
    (hn : next pl s a = some s') : OInv s' := by
  cases a with
  | step p => exact oinv_stepP h ho hn
  | fail p => exact oinv_failP h ho hn
  | crash p => exact oinv_crashP h ho hn
  | cancel p => exact oinv_cancelP h ho hn

theorem oinv_reachable {pl : Pid → Content} {s : State} (h : Reachable pl s) : OInv s := by
  induction h with
  | init => exact oinv_init
  | step a hr hn ih => exact oinv_next (inv_reachable hr) ih hn

end FC
