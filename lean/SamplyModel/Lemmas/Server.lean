import SamplyModel.Model.Server
/-!
Helper lemmas for C18: `stripPrefix` is `List.IsPrefix`, and the bit-level description of the
nix-base32 encoder (digit `n`, bit `m` of the output is bit `5n+m` of the little-endian input).
-/
namespace Server

/-! ## stripPrefix -/

theorem stripPrefix_eq_some_iff (p s r : List Char) : stripPrefix p s = some r ↔ s = p ++ r := by
  induction p generalizing s with
  | nil => simp [stripPrefix, eq_comm]
  | cons a p ih =>
    cases s with
    | nil => simp [stripPrefix]
    | cons c s =>
      by_cases h : a = c
      · subst h; simp [stripPrefix, ih]
      · simp [stripPrefix, h]; intro h'; exact absurd h'.symm h

theorem stripPrefix_isSome_iff (p s : List Char) : (stripPrefix p s).isSome ↔ p <+: s := by
  constructor
  · intro h
    obtain ⟨r, hr⟩ := Option.isSome_iff_exists.mp h
    exact ⟨r, ((stripPrefix_eq_some_iff p s r).mp hr).symm⟩
  · rintro ⟨r, hr⟩
    rw [(stripPrefix_eq_some_iff p s r).mpr hr.symm]; rfl

theorem stripPrefix_eq_none_iff (p s : List Char) : stripPrefix p s = none ↔ ¬ p <+: s := by
  rw [← stripPrefix_isSome_iff]; cases stripPrefix p s <;> simp

/-! ## sequence -/

theorem sequence_map_some {α β : Type} (f : α → β) (l : List α) :
    sequence (l.map fun a => some (f a)) = some (l.map f) := by
  induction l with
  | nil => rfl
  | cons a l ih => simp [sequence, ih]

/-! ## the encoder, bit by bit -/

/-- bit `k` of the little-endian bit string denoted by `bs` (`false` beyond the end) -/
def bitOf (bs : List UInt8) (k : Nat) : Bool := ((bs.getD (k / 8) 0).toNat).testBit (k % 8)

/-- total version of `digitVal` -/
def digitTot (bs : List UInt8) (n : Nat) : Nat :=
  let i := n * 5 / 8
  let j := n * 5 % 8
  ((bs.getD i 0).toNat >>> j) |||
    (if i + 1 < bs.length ∧ j ≠ 0 then ((bs.getD (i + 1) 0).toNat <<< (8 - j)) % 256 else 0)

theorem ndigits_bound {len n : Nat} (hlen : 0 < len) (hn : n < ndigits len) : n * 5 / 8 < len := by
  unfold ndigits at hn
  omega

theorem digitVal_eq (bs : List UInt8) (n : Nat) (hlen : 0 < bs.length) (hn : n < ndigits bs.length) :
    digitVal bs n = some (digitTot bs n) := by
  have hi : n * 5 / 8 < bs.length := ndigits_bound hlen hn
  unfold digitVal digitTot
  simp only [List.getElem?_eq_getElem hi]
  by_cases hlast : n * 5 / 8 ≥ bs.length - 1
  · have h1 : ¬ (n * 5 / 8 + 1 < bs.length) := by omega
    simp [hlast, h1, List.getD_eq_getElem?_getD, List.getElem?_eq_getElem hi]
  · have h1 : n * 5 / 8 + 1 < bs.length := by omega
    simp only [hlast, if_false, List.getElem?_eq_getElem h1]
    by_cases hj : n * 5 % 8 = 0
    · simp [hj, List.getD_eq_getElem?_getD, List.getElem?_eq_getElem hi]
    · have h8 : ¬ (8 - n * 5 % 8 ≥ 8) := by omega
      simp [hj, h8, h1, List.getD_eq_getElem?_getD, List.getElem?_eq_getElem hi]

theorem toNat_testBit_ge (b : UInt8) (t : Nat) (ht : 8 ≤ t) : b.toNat.testBit t = false := by
  apply Nat.testBit_lt_two_pow
  have : b.toNat < 2 ^ 8 := UInt8.toNat_lt b
  exact Nat.lt_of_lt_of_le this (Nat.pow_le_pow_right (by decide) ht)

/-- **Key lemma**: bit `m < 5` of digit `n` is bit `5n+m` of the input. -/
theorem digitTot_testBit (bs : List UInt8) (n m : Nat) (hm : m < 5) :
    (digitTot bs n).testBit m = bitOf bs (n * 5 + m) := by
  unfold digitTot bitOf
  simp only [Nat.testBit_or, Nat.testBit_shiftRight]
  by_cases hlt : n * 5 % 8 + m < 8
  · -- the bit comes from the lower byte
    have e1 : (n * 5 + m) / 8 = n * 5 / 8 := by omega
    have e2 : (n * 5 + m) % 8 = n * 5 % 8 + m := by omega
    rw [e1, e2]
    have : (if n * 5 / 8 + 1 < bs.length ∧ n * 5 % 8 ≠ 0
        then ((bs.getD (n * 5 / 8 + 1) 0).toNat <<< (8 - n * 5 % 8)) % 256 else 0).testBit m = false := by
      split
      · rw [show (256 : Nat) = 2 ^ 8 from rfl, Nat.testBit_mod_two_pow, Nat.testBit_shiftLeft]
        have : ¬ (m ≥ 8 - n * 5 % 8) := by omega
        simp [this]
      · simp
    rw [this, Bool.or_false]
  · -- the bit comes from the upper byte
    have e1 : (n * 5 + m) / 8 = n * 5 / 8 + 1 := by omega
    have e2 : (n * 5 + m) % 8 = n * 5 % 8 + m - 8 := by omega
    rw [e1, e2, toNat_testBit_ge _ _ (by omega), Bool.false_or]
    by_cases hin : n * 5 / 8 + 1 < bs.length
    · have hj : n * 5 % 8 ≠ 0 := by omega
      rw [if_pos ⟨hin, hj⟩, show (256 : Nat) = 2 ^ 8 from rfl, Nat.testBit_mod_two_pow,
        Nat.testBit_shiftLeft]
      have h1 : m < 8 := by omega
      have h2 : m ≥ 8 - n * 5 % 8 := by omega
      have h3 : m - (8 - n * 5 % 8) = n * 5 % 8 + m - 8 := by omega
      simp [h1, h2, h3]
    · have : ¬ (n * 5 / 8 + 1 < bs.length ∧ n * 5 % 8 ≠ 0) := fun h => hin h.1
      rw [if_neg this]
      have : bs[n * 5 / 8 + 1]? = none := List.getElem?_eq_none (by omega)
      simp [this]

theorem alphabet_length : alphabet.length = 32 := by decide

theorem alphabet_nodup : alphabet.Nodup := by decide

/-- the encoder never panics on a non-empty input, and its output is the list of digit characters -/
theorem encode_eq (bs : List UInt8) (hlen : 0 < bs.length) :
    encode bs = some ((List.range (ndigits bs.length)).reverse.map
      fun n => alphabet.getD (digitTot bs n % 32) '0') := by
  unfold encode
  have h0 : ¬ (bs.length * 8 < 1) := by omega
  rw [if_neg h0]
  have : (List.range (ndigits bs.length)).reverse.map (digitChar bs)
      = (List.range (ndigits bs.length)).reverse.map
          (fun n => some (alphabet.getD (digitTot bs n % 32) '0')) := by
    apply List.map_congr_left
    intro n hn
    have hn' : n < ndigits bs.length := by
      simpa using hn
    unfold digitChar
    rw [digitVal_eq bs n hlen hn', Option.bind_some, alphabet_length]
    have hlt : digitTot bs n % 32 < alphabet.length := by
      rw [alphabet_length]; exact Nat.mod_lt _ (by decide)
    rw [List.getElem?_eq_getElem hlt, List.getD_eq_getElem?_getD, List.getElem?_eq_getElem hlt]
    rfl
  rw [this, sequence_map_some]

theorem getD_alphabet_inj {a b : Nat} (ha : a < 32) (hb : b < 32)
    (h : alphabet.getD a '0' = alphabet.getD b '0') : a = b := by
  have ha' : a < alphabet.length := by rw [alphabet_length]; exact ha
  have hb' : b < alphabet.length := by rw [alphabet_length]; exact hb
  rw [List.getD_eq_getElem?_getD, List.getD_eq_getElem?_getD, List.getElem?_eq_getElem ha',
    List.getElem?_eq_getElem hb'] at h
  exact (List.getElem_inj alphabet_nodup).mp h

theorem getD_alphabet_mem {a : Nat} (ha : a < 32) : alphabet.getD a '0' ∈ alphabet := by
  have ha' : a < alphabet.length := by rw [alphabet_length]; exact ha
  rw [List.getD_eq_getElem?_getD, List.getElem?_eq_getElem ha']
  exact List.getElem_mem ha'

/-- equal digit strings ⇒ equal bits everywhere below `8 * length` -/
theorem bits_eq_of_encode_eq (a b : List UInt8) (hlen : 0 < a.length) (hab : a.length = b.length)
    (h : encode a = encode b) (k : Nat) (hk : k < 8 * a.length) : bitOf a k = bitOf b k := by
  rw [encode_eq a hlen, encode_eq b (hab ▸ hlen), ← hab] at h
  have h' := Option.some.inj h
  have hn : k / 5 < ndigits a.length := by unfold ndigits; omega
  have hmem : k / 5 ∈ (List.range (ndigits a.length)).reverse := by simpa using hn
  have hd := (List.map_inj_left.mp h') (k / 5) hmem
  have hd' := getD_alphabet_inj (Nat.mod_lt _ (by decide)) (Nat.mod_lt _ (by decide)) hd
  have hm : k % 5 < 5 := Nat.mod_lt _ (by decide)
  have e : k / 5 * 5 + k % 5 = k := by omega
  have ta := digitTot_testBit a (k / 5) (k % 5) hm
  have tb := digitTot_testBit b (k / 5) (k % 5) hm
  rw [e] at ta tb
  rw [← ta, ← tb]
  have h32 : ∀ x : Nat, x.testBit (k % 5) = (x % 32).testBit (k % 5) := by
    intro x
    rw [show (32 : Nat) = 2 ^ 5 from rfl, Nat.testBit_mod_two_pow]
    simp [hm]
  rw [h32 (digitTot a (k / 5)), h32 (digitTot b (k / 5)), hd']

theorem encode_injective_same_length (a b : List UInt8) (hlen : 0 < a.length)
    (hab : a.length = b.length) (h : encode a = encode b) : a = b := by
  apply List.ext_getElem hab
  intro i hi hi'
  apply UInt8.toNat_inj.mp
  apply Nat.eq_of_testBit_eq
  intro t
  by_cases ht : t < 8
  · have hk : 8 * i + t < 8 * a.length := by omega
    have := bits_eq_of_encode_eq a b hlen hab h (8 * i + t) hk
    unfold bitOf at this
    have e1 : (8 * i + t) / 8 = i := by omega
    have e2 : (8 * i + t) % 8 = t := by omega
    rw [e1, e2, List.getD_eq_getElem?_getD, List.getD_eq_getElem?_getD,
      List.getElem?_eq_getElem hi, List.getElem?_eq_getElem hi'] at this
    simpa using this
  · rw [toNat_testBit_ge _ _ (by omega), toNat_testBit_ge _ _ (by omega)]

theorem encode_length (bs : List UInt8) (hlen : 0 < bs.length) (s : List Char)
    (h : encode bs = some s) : s.length = ndigits bs.length := by
  rw [encode_eq bs hlen] at h
  rw [← Option.some.inj h]; simp

theorem encode_mem_alphabet (bs : List UInt8) (hlen : 0 < bs.length) (s : List Char)
    (h : encode bs = some s) : ∀ c ∈ s, c ∈ alphabet := by
  rw [encode_eq bs hlen] at h
  rw [← Option.some.inj h]
  intro c hc
  obtain ⟨n, _, rfl⟩ := List.mem_map.mp hc
  exact getD_alphabet_mem (Nat.mod_lt _ (by decide))


/-! ## the encoder as a positional numeral: `numeralValue (encode bs) = leValue bs` -/

theorem leValue_lt (bs : List UInt8) : leValue bs < 2 ^ (8 * bs.length) := by
  induction bs with
  | nil => simp [leValue]
  | cons b rest ih =>
    have hb : b.toNat < 2 ^ 8 := UInt8.toNat_lt b
    have e : 2 ^ (8 * (b :: rest).length) = 256 * 2 ^ (8 * rest.length) := by
      rw [List.length_cons, Nat.mul_add, Nat.pow_add, Nat.mul_comm]
    rw [e, leValue]
    have h256 : (2 : Nat) ^ 8 = 256 := rfl
    omega

theorem bitOf_eq_testBit (bs : List UInt8) (k : Nat) : bitOf bs k = (leValue bs).testBit k := by
  induction bs generalizing k with
  | nil => simp [bitOf, leValue]
  | cons b rest ih =>
    have hb : b.toNat < 2 ^ 8 := UInt8.toNat_lt b
    have e : leValue (b :: rest) = 2 ^ 8 * leValue rest + b.toNat := by
      rw [leValue, show (2 : Nat) ^ 8 = 256 from rfl]; omega
    rw [e, Nat.testBit_two_pow_mul_add _ hb]
    by_cases hk : k < 8
    · have e1 : k / 8 = 0 := by omega
      have e2 : k % 8 = k := by omega
      simp [bitOf, hk, e1, e2]
    · have e1 : k / 8 = (k - 8) / 8 + 1 := by omega
      have e2 : k % 8 = (k - 8) % 8 := by omega
      rw [if_neg hk, ← ih (k - 8)]
      simp [bitOf, e1, e2]

theorem digitTot_mod (bs : List UInt8) (n : Nat) :
    digitTot bs n % 32 = leValue bs / 32 ^ n % 32 := by
  apply Nat.eq_of_testBit_eq
  intro m
  rw [show (32 : Nat) = 2 ^ 5 from rfl, Nat.testBit_mod_two_pow, Nat.testBit_mod_two_pow,
    ← Nat.pow_mul, Nat.testBit_div_two_pow]
  by_cases hm : m < 5
  · rw [digitTot_testBit bs n m hm, bitOf_eq_testBit, Nat.mul_comm 5 n, Nat.add_comm m]
  · simp [hm]

theorem alphaIndex_getD {d : Nat} (hd : d < 32) : alphaIndex (alphabet.getD d '0') = some d := by
  have hd' : d < alphabet.length := by rw [alphabet_length]; exact hd
  unfold alphaIndex
  rw [List.getD_eq_getElem?_getD, List.getElem?_eq_getElem hd']
  simp only [Option.getD_some]
  rw [List.Nodup.idxOf_getElem alphabet_nodup d hd']
  simp [hd']

/-- most-significant-first digits `N-1 … 0` of `v`, folded from an accumulator `a` -/
theorem numeral_fold (v : Nat) (N a : Nat) :
    ((List.range N).reverse.map fun n => alphabet.getD (v / 32 ^ n % 32) '0').foldl
      numeralStep (some a)
    = some (a * 32 ^ N + v % 32 ^ N) := by
  induction N generalizing a with
  | zero => simp [Nat.mod_one]
  | succ N ih =>
    rw [List.range_succ, List.reverse_append]
    simp only [List.reverse_cons, List.reverse_nil, List.nil_append, List.cons_append, List.map_cons,
      List.foldl_cons]
    rw [show numeralStep (some a) (alphabet.getD (v / 32 ^ N % 32) '0') = some (a * 32 + v / 32 ^ N % 32) by
      unfold numeralStep; rw [alphaIndex_getD (Nat.mod_lt _ (by decide : 0 < 32))]]
    rw [ih, Nat.mod_pow_succ, Nat.pow_succ]
    congr 1
    rw [Nat.add_mul, Nat.mul_assoc, Nat.mul_comm 32 (32 ^ N), Nat.mul_comm (v / 32 ^ N % 32)]
    omega

theorem pow32_ge (len : Nat) (hlen : 0 < len) : 2 ^ (8 * len) ≤ 32 ^ ndigits len := by
  rw [show (32 : Nat) = 2 ^ 5 from rfl, ← Nat.pow_mul]
  apply Nat.pow_le_pow_right (by decide)
  unfold ndigits
  omega

theorem numeralValue_encode (bs : List UInt8) (hlen : 0 < bs.length) (s : List Char)
    (h : encode bs = some s) : numeralValue s = some (leValue bs) := by
  rw [encode_eq bs hlen] at h
  rw [← Option.some.inj h]
  have : ((List.range (ndigits bs.length)).reverse.map fun n => alphabet.getD (digitTot bs n % 32) '0')
      = ((List.range (ndigits bs.length)).reverse.map
          fun n => alphabet.getD (leValue bs / 32 ^ n % 32) '0') := by
    apply List.map_congr_left
    intro n _
    rw [digitTot_mod]
  rw [this]
  unfold numeralValue
  rw [numeral_fold, Nat.zero_mul, Nat.zero_add]
  congr 1
  apply Nat.mod_eq_of_lt
  exact Nat.lt_of_lt_of_le (leValue_lt bs) (pow32_ge bs.length hlen)

/-! ## headers -/

theorem hdrGet_insert (a b : Headers) (n v name : List Char) (hn : hdrNameEq n name = false) :
    hdrGet (a ++ (n, v) :: b) name = hdrGet (a ++ b) name := by
  induction a with
  | nil => simp [hdrGet, hn]
  | cons x a ih =>
    obtain ⟨n', v'⟩ := x
    simp only [List.cons_append, hdrGet, ih]

/-- the service function reads the header map only through the two look-ups -/
theorem service_headers_congr (cfg : Cfg) (req : Req) (hs : Headers)
    (h1 : hdrContains hs acrmName = hdrContains req.headers acrmName)
    (h2 : hdrGet hs acrhName = hdrGet req.headers acrhName) :
    service cfg { req with headers := hs } = service cfg req := by
  obtain ⟨m, p, hs0, b⟩ := req
  simp only at h1 h2
  simp only [service, Req.hasACRM, Req.acrh, h1, h2]
  rfl

/-! ## request-target -/

theorem mem_takeWhile_not {α : Type} (p : α → Bool) (l : List α) (c : α)
    (hc : c ∈ l.takeWhile (fun c => !p c)) : p c = false := by
  induction l with
  | nil => simp at hc
  | cons x l ih =>
    rw [List.takeWhile_cons] at hc
    by_cases hx : p x
    · simp [hx] at hc
    · simp only [hx, Bool.not_false, if_true, List.mem_cons] at hc
      rcases hc with rfl | hc
      · simpa using hx
      · exact ih hc

theorem dropWhile_eq_drop {α : Type} (p : α → Bool) (l : List α) :
    l.dropWhile p = l.drop (l.takeWhile p).length := by
  induction l with
  | nil => rfl
  | cons x l ih =>
    by_cases hx : p x
    · simp [List.dropWhile_cons, List.takeWhile_cons, hx, ih]
    · simp [List.dropWhile_cons, List.takeWhile_cons, hx]

theorem isSep_false {c : Char} (h : isSep c = false) : c ≠ '/' ∧ c ≠ '?' ∧ c ≠ '#' := by
  simp only [isSep, Bool.or_eq_false_iff, decide_eq_false_iff_not] at h
  exact ⟨h.1.1, h.1.2, h.2⟩

/-- the path the parser extracts is a prefix of what it was given -/
theorem pathScan_prefix (s p : List Char) (h : pathScan s = some p) : p <+: s := by
  induction s generalizing p with
  | nil => simp [pathScan] at h; subst h; exact List.nil_prefix
  | cons c r ih =>
    unfold pathScan at h
    split at h
    · split at h
      · cases h; exact List.nil_prefix
      · cases h
    · split at h
      · cases h; exact List.nil_prefix
      · split at h
        · cases hr : pathScan r with
          | none => rw [hr] at h; cases h
          | some q =>
            rw [hr] at h
            simp only [Option.map_some, Option.some.injEq] at h
            subst h
            exact List.cons_prefix_cons.mpr ⟨rfl, ih q hr⟩
        · cases h

/-- the authority ends at the first `/ ? #` (or at the end) -/
theorem authScan_end (s : List Char) (i : Nat) (st : AuthSt) (e : Nat) (st' : AuthSt)
    (h : authScan s i st = some (e, st')) : e = i + (s.takeWhile (fun c => !isSep c)).length := by
  induction s generalizing i st with
  | nil => simp [authScan] at h; simp [h.1]
  | cons c r ih =>
    unfold authScan at h
    by_cases hsep : isSep c = true
    · simp only [hsep, if_true, Option.some.injEq, Prod.mk.injEq] at h
      simp [List.takeWhile_cons, hsep, h.1]
    · have hsep' : isSep c = false := by simpa using hsep
      have htw : (List.takeWhile (fun c => !isSep c) (c :: r)).length =
          1 + (List.takeWhile (fun c => !isSep c) r).length := by
        simp [List.takeWhile_cons, hsep']; omega
      rw [htw]
      simp only [hsep', Bool.false_eq_true, if_false] at h
      repeat' split at h
      all_goals first
        | (cases h; done)
        | (have := ih _ _ h; omega)

theorem authorityEnd_eq (s : List Char) (e : Nat) (h : authorityEnd s = some e) :
    e = (s.takeWhile (fun c => !isSep c)).length := by
  unfold authorityEnd at h
  split at h
  · cases h
  · rename_i e' st hscan
    have := authScan_end s 0 _ e' st hscan
    repeat' split at h
    all_goals first
      | (cases h; done)
      | (cases h; omega)

theorem schemeChar_not_sep {c : Char} (h : schemeChar c = true) : c ≠ '/' ∧ c ≠ '?' ∧ c ≠ '#' := by
  refine ⟨?_, ?_, ?_⟩ <;> (rintro rfl; revert h; decide)

theorem schemeScan_found (s : List Char) (i : Nat) (sch rest : List Char)
    (h : schemeScan s i = .found sch rest) :
    s = sch ++ ':' :: '/' :: '/' :: rest ∧ ∀ c ∈ sch, c ≠ ':' ∧ c ≠ '/' ∧ c ≠ '?' ∧ c ≠ '#' := by
  induction s generalizing i sch with
  | nil => simp [schemeScan] at h
  | cons c r ih =>
    unfold schemeScan at h
    by_cases hc : c = ':'
    · subst hc
      simp only [if_true] at h
      split at h
      · split at h
        · cases h
        · cases h; simp
      · cases h
    · simp only [hc, if_false] at h
      by_cases hs : schemeChar c = true
      · simp only [hs, if_true] at h
        cases hr : schemeScan r (i + 1) with
        | none => rw [hr] at h; cases h
        | err => rw [hr] at h; cases h
        | found sch' rest' =>
          rw [hr] at h
          simp only [SchemeRes.found.injEq] at h
          obtain ⟨h1, h2⟩ := h
          subst h1; subst h2
          obtain ⟨e1, e2⟩ := ih (i + 1) sch' hr
          refine ⟨by rw [e1]; rfl, ?_⟩
          intro x hx
          rcases List.mem_cons.mp hx with rfl | hx
          · exact ⟨hc, schemeChar_not_sep hs⟩
          · exact e2 x hx
      · simp only [hs, Bool.false_eq_true, if_false] at h
        cases h

theorem ciEq_not_sep {c lo up : Char} (h : ciEq c lo up = true)
    (hlo : lo ≠ ':' ∧ lo ≠ '/' ∧ lo ≠ '?' ∧ lo ≠ '#') (hup : up ≠ ':' ∧ up ≠ '/' ∧ up ≠ '?' ∧ up ≠ '#') :
    c ≠ ':' ∧ c ≠ '/' ∧ c ≠ '?' ∧ c ≠ '#' := by
  simp only [ciEq, Bool.or_eq_true, decide_eq_true_eq] at h
  rcases h with rfl | rfl
  · exact hlo
  · exact hup

theorem httpPrefix_found (t sch rest : List Char) (h : httpPrefix t = some (sch, rest)) :
    t = sch ++ ':' :: '/' :: '/' :: rest ∧ ∀ c ∈ sch, c ≠ ':' ∧ c ≠ '/' ∧ c ≠ '?' ∧ c ≠ '#' := by
  unfold httpPrefix at h
  split at h
  · split at h
    · rename_i hc
      simp only [Bool.and_eq_true] at hc
      obtain ⟨⟨⟨h1, h2⟩, h3⟩, h4⟩ := hc
      simp only [Option.some.injEq, Prod.mk.injEq] at h
      obtain ⟨hs, hr⟩ := h
      subst hs; subst hr
      refine ⟨rfl, ?_⟩
      intro x hx
      simp only [List.mem_cons, List.not_mem_nil, or_false] at hx
      rcases hx with rfl | rfl | rfl | rfl
      · exact ciEq_not_sep h1 (by decide) (by decide)
      · exact ciEq_not_sep h2 (by decide) (by decide)
      · exact ciEq_not_sep h3 (by decide) (by decide)
      · exact ciEq_not_sep h4 (by decide) (by decide)
    · cases h
  · cases h

theorem httpsPrefix_found (t sch rest : List Char) (h : httpsPrefix t = some (sch, rest)) :
    t = sch ++ ':' :: '/' :: '/' :: rest ∧ ∀ c ∈ sch, c ≠ ':' ∧ c ≠ '/' ∧ c ≠ '?' ∧ c ≠ '#' := by
  unfold httpsPrefix at h
  split at h
  · split at h
    · rename_i hc
      simp only [Bool.and_eq_true] at hc
      obtain ⟨⟨⟨⟨h1, h2⟩, h3⟩, h4⟩, h5⟩ := hc
      simp only [Option.some.injEq, Prod.mk.injEq] at h
      obtain ⟨hs, hr⟩ := h
      subst hs; subst hr
      refine ⟨rfl, ?_⟩
      intro x hx
      simp only [List.mem_cons, List.not_mem_nil, or_false] at hx
      rcases hx with rfl | rfl | rfl | rfl | rfl
      · exact ciEq_not_sep h1 (by decide) (by decide)
      · exact ciEq_not_sep h2 (by decide) (by decide)
      · exact ciEq_not_sep h3 (by decide) (by decide)
      · exact ciEq_not_sep h4 (by decide) (by decide)
      · exact ciEq_not_sep h5 (by decide) (by decide)
    · cases h
  · cases h

theorem schemeOf_found (t sch rest : List Char) (h : schemeOf t = .found sch rest) :
    t = sch ++ ':' :: '/' :: '/' :: rest ∧ ∀ c ∈ sch, c ≠ ':' ∧ c ≠ '/' ∧ c ≠ '?' ∧ c ≠ '#' := by
  unfold schemeOf at h
  split at h
  · rename_i sch' rest' hh
    simp only [SchemeRes.found.injEq] at h
    obtain ⟨h1, h2⟩ := h; subst h1; subst h2
    exact httpPrefix_found t _ _ hh
  · split at h
    · rename_i sch' rest' hh
      simp only [SchemeRes.found.injEq] at h
      obtain ⟨h1, h2⟩ := h; subst h1; subst h2
      exact httpsPrefix_found t _ _ hh
    · split at h
      · exact schemeScan_found t 0 sch rest h
      · cases h

/-- Whatever form the request-target has: if the path hyper hands to the service function begins with
a prefix `"/" ++ (non-empty token)`, the prefix stands literally in the request-target, at the start
of its path. -/
theorem pathOfTarget_literal (t p pfx : List Char) (hp : pathOfTarget t = some p)
    (hslash : pfx.head? = some '/') (hlen : 2 ≤ pfx.length) (h : pfx <+: p) : LiteralUnder pfx t := by
  have hstar : ∀ q : List Char, q.length ≤ 1 → ¬ pfx <+: q := by
    intro q hq hpre
    have := List.IsPrefix.length_le hpre
    omega
  unfold pathOfTarget at hp
  split at hp
  · cases hp
  · split at hp
    · cases hp
    · cases hp; exact absurd h (hstar _ (by simp))
    · cases hp; exact absurd h (hstar _ (by simp))
    · -- origin-form
      left
      exact List.IsPrefix.trans h (pathScan_prefix _ _ hp)
    · -- everything else: `parse_full`
      unfold parseFull at hp
      split at hp
      · cases hp
      · -- authority-form
        split at hp
        · cases hp
        · split at hp
          · cases hp
          · cases hp; exact absurd h (hstar _ (by simp))
      · -- absolute-form
        rename_i sch rest hsch
        obtain ⟨ht, hschars⟩ := schemeOf_found t sch rest hsch
        split at hp
        · cases hp
        · rename_i e he
          have hee := authorityEnd_eq rest e he
          split at hp
          · cases hp
          · rename_i hne
            split at hp
            · cases hp
            · rename_i p0 hp0
              have hpp : p = if p0.isEmpty then ['/'] else p0 := (Option.some.inj hp).symm
              have hp0ne : p0.isEmpty = false := by
                cases hpe : p0.isEmpty with
                | false => rfl
                | true => rw [hpe] at hpp; simp only [if_true] at hpp; rw [hpp] at h; exact absurd h (hstar _ (by simp))
              rw [hp0ne] at hpp
              simp only [Bool.false_eq_true, if_false] at hpp
              subst hpp
              right
              refine ⟨sch, rest.takeWhile (fun c => !isSep c), hschars, ?_, ?_, ?_⟩
              · intro c hc
                exact isSep_false (mem_takeWhile_not isSep rest c hc)
              · intro hnil
                rw [hnil] at hee
                simp at hee
                exact hne hee
              · have hpre : pfx <+: rest.drop e := List.IsPrefix.trans h (pathScan_prefix _ _ hp0)
                obtain ⟨r, hr⟩ := hpre
                refine ⟨r, ?_⟩
                have hsplit : rest = rest.takeWhile (fun c => !isSep c) ++ rest.drop e := by
                  rw [hee]
                  conv => lhs; rw [← List.takeWhile_append_dropWhile (p := fun c => !isSep c) (l := rest)]
                  rw [dropWhile_eq_drop]
                rw [ht]
                conv => rhs; rw [hsplit, ← hr]
                simp [List.append_assoc]

end Server
