import SamplyModel.Lemmas.QuotaFs
/-!
Helper lemmas for C15, part 2: sizes, the selection loop, `unlink` on plain paths, `delete_files`.
-/
namespace Quota

/-! ### sizes -/

theorem sumSizes_eq_sumNat (l : List Row) (h : ∀ r ∈ l, 0 ≤ r.size) : sumSizes l = (sumNat l : Int) := by
  induction l with
  | nil => rfl
  | cons r rs ih =>
    have h0 := h r (by simp)
    have := ih (fun x hx => h x (by simp [hx]))
    simp only [sumSizes, sumNat, this]
    omega

theorem toU64_of_small (i : Int) (h0 : 0 ≤ i) (h1 : i < 2 ^ 63) : toU64 i = i.toNat := by
  unfold toU64
  rw [Int.emod_eq_of_lt h0 (by omega)]

theorem totalSize_ok (l : List Row) (h : ∀ r ∈ l, 0 ≤ r.size) (hs : sumSizes l < 2 ^ 63) :
    totalSize l = sumNat l := by
  have e := sumSizes_eq_sumNat l h
  unfold totalSize
  simp only
  have h0 : 0 ≤ sumSizes l := by rw [e]; omega
  rw [if_neg (by omega), toU64_of_small _ h0 hs, e]
  simp

theorem sumNat_perm {l1 l2 : List Row} (h : l1.Perm l2) : sumNat l1 = sumNat l2 := by
  induction h with
  | nil => rfl
  | cons x _ ih => simp [sumNat, ih]
  | swap x y l => simp only [sumNat]; omega
  | trans _ _ ih1 ih2 => rw [ih1, ih2]

theorem sumNat_append (a b : List Row) : sumNat (a ++ b) = sumNat a + sumNat b := by
  induction a with
  | nil => simp [sumNat]
  | cons x xs ih => simp only [List.cons_append, sumNat, ih]; omega

theorem sumNat_filter_le (l : List Row) (p : Row → Bool) : sumNat (l.filter p) ≤ sumNat l := by
  induction l with
  | nil => simp [sumNat]
  | cons x xs ih =>
    simp only [List.filter]
    split <;> simp only [sumNat] <;> omega

theorem sumSizes_filter_le (l : List Row) (p : Row → Bool) (h : ∀ r ∈ l, 0 ≤ r.size) :
    sumSizes (l.filter p) ≤ sumSizes l := by
  rw [sumSizes_eq_sumNat l h, sumSizes_eq_sumNat (l.filter p) (fun r hr => h r (List.mem_filter.mp hr).1)]
  have := sumNat_filter_le l p
  omega

/-! ### the selection loop -/

theorem selectPrefix_zero (l : List Row) : selectPrefix 0 l = [] := by
  cases l <;> simp [selectPrefix]

theorem selectPrefix_prefix (e : Nat) (l : List Row) : selectPrefix e l <+: l := by
  induction l generalizing e with
  | nil => simp [selectPrefix]
  | cons r rs ih =>
    simp only [selectPrefix]
    split
    · exact List.nil_prefix
    · exact (List.prefix_cons_inj r).mpr (ih _)

theorem selectPrefix_cover (e : Nat) (l : List Row) (h : e ≤ sumNat l) : e ≤ sumNat (selectPrefix e l) := by
  induction l generalizing e with
  | nil => simpa [sumNat, selectPrefix] using h
  | cons r rs ih =>
    simp only [selectPrefix]
    split
    · omega
    · simp only [sumNat] at h ⊢
      have := ih (e - r.size.toNat) (by omega)
      omega

/-- minimality: every proper prefix of the selected prefix leaves part of the excess uncovered -/
theorem selectPrefix_minimal (e : Nat) (l q : List Row) (hq : q <+: selectPrefix e l)
    (hne : q ≠ selectPrefix e l) : sumNat q < e := by
  induction l generalizing e q with
  | nil => simp [selectPrefix] at hq; exact absurd hq hne
  | cons r rs ih =>
    simp only [selectPrefix] at hq hne
    split at hq
    · next h0 => simp [h0] at hne; simp at hq; exact absurd hq hne
    · next h0 =>
      simp only [h0, if_false] at hne
      cases q with
      | nil => simp only [sumNat]; omega
      | cons x xs =>
        rw [List.cons_prefix_cons] at hq
        obtain ⟨hx, hxs⟩ := hq
        subst hx
        have hne' : xs ≠ selectPrefix (e - x.size.toNat) rs := fun h => hne (by rw [h])
        have := ih (e - x.size.toNat) xs hxs hne'
        simp only [sumNat]
        omega

theorem selectLoop_eq (conv : Row → Option (Row × Path)) (f : Row → Path) (e : Nat) (l : List Row)
    (h : ∀ r ∈ l, conv r = some (r, f r)) :
    selectLoop conv e l = some ((selectPrefix e l).map fun r => (r, f r)) := by
  induction l generalizing e with
  | nil => rfl
  | cons r rs ih =>
    simp only [selectLoop, selectPrefix, h r (by simp)]
    split
    · rfl
    · rw [ih _ (fun x hx => h x (by simp [hx]))]
      rfl

theorem mapConv_eq (conv : Row → Option (Row × Path)) (f : Row → Path) (l : List Row)
    (h : ∀ r ∈ l, conv r = some (r, f r)) : mapConv conv l = some (l.map fun r => (r, f r)) := by
  induction l with
  | nil => rfl
  | cons r rs ih =>
    simp only [mapConv, h r (by simp), ih (fun x hx => h x (by simp [hx]))]
    rfl

theorem convert_plain (fs : FS) (root : Path) (r : Row) (hr : DirChain fs [] root)
    (hp : NoLinkBelow fs root r.rel) (hs : 0 ≤ r.size) : convert fs root r = some (r, root ++ r.rel) := by
  unfold convert
  rw [toAbsolute_plain fs root r.rel hr hp]
  simp only
  rw [if_neg (by omega)]

/-! ### plain paths: prefixes -/

theorem dirChain_append (fs : FS) (cur a b : Path) :
    DirChain fs cur (a ++ b) ↔ DirChain fs cur a ∧ DirChain fs (cur ++ a) b := by
  induction a generalizing cur with
  | nil => simp [DirChain]
  | cons x xs ih =>
    simp only [List.cons_append, DirChain, ih]
    constructor
    · rintro ⟨h1, h2, h3, h4⟩; exact ⟨⟨h1, h2, h3⟩, by simpa using h4⟩
    · rintro ⟨⟨h1, h2, h3⟩, h4⟩; exact ⟨h1, h2, h3, by simpa using h4⟩

/-- a successful `unlink` of a plain path removes exactly that path -/
theorem unlink_ok_plain (fs : FS) (root rel : Path) (hr : DirChain fs [] root)
    (hp : NoLinkBelow fs root rel) (hok : (unlink fs (root ++ rel)).1 = .ok) :
    (unlink fs (root ++ rel)).2 = eraseKey fs (root ++ rel) := by
  rcases List.eq_nil_or_concat rel with hnil | ⟨init, last, hrel⟩
  rotate_left
  · rw [List.concat_eq_append] at hrel
    subst hrel
    have hp' := (noLinkBelow_append fs root init [last]).mp hp
    have hne : last ≠ ".." := by
      have := hp'.2; simp only [NoLinkBelow] at this; exact this.1
    have eassoc : root ++ (init ++ [last]) = root ++ init ++ [last] := (List.append_assoc _ _ _).symm
    rw [eassoc] at hok ⊢
    unfold unlink at hok ⊢
    simp only [List.getLast?_concat, List.dropLast_concat] at hok ⊢
    rcases canonicalize_plain fs root init hr hp'.1 with hc | ⟨e, hc⟩
    · rw [hc] at hok ⊢
      simp only at hok ⊢
      by_cases hd : isDir fs (root ++ init) = true
      · simp only [hd, Bool.not_true, Bool.false_eq_true, if_false, hne] at hok ⊢
        cases hl : fs.lookup (root ++ init ++ [last]) with
        | none => simp only [List.append_assoc] at hok hl; simp [hl] at hok
        | some n =>
          cases n with
          | dir => simp only [List.append_assoc] at hok hl; simp [hl] at hok
          | file => rfl
          | link t => rfl
      · simp only [Bool.not_eq_true] at hd
        simp [hd] at hok
    · rw [hc] at hok
      cases e <;> simp at hok
  · -- the root itself: a directory, `unlink` fails
    subst hnil
    exfalso
    simp only [List.append_nil] at hok
    rcases List.eq_nil_or_concat root with hr0 | ⟨ri, rl, hroot⟩
    · subst hr0; simp [unlink] at hok
    · rw [List.concat_eq_append] at hroot
      subst hroot
      have hsplit := (dirChain_append fs [] ri [rl]).mp hr
      have hc := canonicalize_dirChain fs ri hsplit.1
      have hd : fs.lookup (ri ++ [rl]) = some .dir := by
        have := hsplit.2; simp only [DirChain, List.nil_append] at this; exact this.2.1
      have hne : rl ≠ ".." := by
        have := hsplit.2; simp only [DirChain] at this; exact this.1
      have hdir : isDir fs ri = true := by
        rcases List.eq_nil_or_concat ri with h0 | ⟨a, b, hab⟩
        · subst h0; rfl
        · rw [List.concat_eq_append] at hab
          subst hab
          have h2 := (dirChain_append fs [] a [b]).mp hsplit.1
          have : fs.lookup (a ++ [b]) = some .dir := by
            have := h2.2; simp only [DirChain, List.nil_append] at this; exact this.2.1
          cases hx : a ++ [b] with
          | nil => simp at hx
          | cons y ys => rw [hx] at this; simp only [isDir, this]
      simp [unlink, hc, hd, hne, hdir] at hok

/-! ### the inventory -/

theorem invDelete_eq_filter (rel : Path) (inv : List Row) :
    invDelete rel inv = inv.filter fun x => !(x.rel == rel) := rfl

theorem rel_inj_of_nodup {inv : List Row} (h : (inv.map (·.rel)).Nodup) {x y : Row}
    (hx : x ∈ inv) (hy : y ∈ inv) (e : x.rel = y.rel) : x = y := by
  induction inv with
  | nil => cases hx
  | cons a as ih =>
    simp only [List.map_cons, List.nodup_cons, List.mem_map, not_exists, not_and] at h
    rcases List.mem_cons.mp hx with rfl | hx' <;> rcases List.mem_cons.mp hy with rfl | hy'
    · rfl
    · exact absurd e.symm (h.1 y hy')
    · exact absurd e (h.1 x hx')
    · exact ih h.2 hx' hy'

/-- successful or not-found attempts -/
def doneRels (log : List Attempt) : List Path :=
  (log.filter fun a => a.res != .err).map (·.row.rel)

theorem deleteFiles_cons (root : Path) (fs : FS) (inv : List Row) (r : Row) (p : Path)
    (rest : List (Row × Path)) :
    deleteFiles root fs inv ((r, p) :: rest) =
      ((deleteFiles root (unlink fs p).2
          (if (unlink fs p).1 = .err then inv else onDeleted (unlink fs p).2 root inv p) rest).1,
       (deleteFiles root (unlink fs p).2
          (if (unlink fs p).1 = .err then inv else onDeleted (unlink fs p).2 root inv p) rest).2.1,
       ⟨r, p, (unlink fs p).1⟩ ::
       (deleteFiles root (unlink fs p).2
          (if (unlink fs p).1 = .err then inv else onDeleted (unlink fs p).2 root inv p) rest).2.2) := by
  simp only [deleteFiles]
  cases (unlink fs p).1 <;> simp

/-- what `delete_files` guarantees on plain candidates -/
structure DelFacts (root : Path) (rows : List Row) (fs : FS) (inv : List Row)
    (t : FS × List Row × List Attempt) : Prop where
  rootOk : DirChain t.1 [] root
  plain : ∀ q rel, NoLinkBelow fs q rel → NoLinkBelow t.1 q rel
  gone : ∀ q, fs.lookup q = none → t.1.lookup q = none
  rowsEq : t.2.2.map (·.row) = rows
  paths : ∀ a ∈ t.2.2, a.path = root ++ a.row.rel
  inv : t.2.1 = inv.filter (fun x => !(doneRels t.2.2).contains x.rel)
  removed : ∀ a ∈ t.2.2, a.res = .ok → t.1.lookup (root ++ a.row.rel) = none
  only : ∀ q, t.1.lookup q = fs.lookup q ∨ ∃ a ∈ t.2.2, a.res = .ok ∧ q = root ++ a.row.rel
  all : (∀ a ∈ t.2.2, a.res ≠ .err) → doneRels t.2.2 = rows.map (·.rel)

/-- `delete_files` on plain candidates `(r, root/r.rel)`: the inventory loses exactly the rows whose
`remove_file` succeeded or found the file absent; successfully removed paths are gone from the file
system; plain paths stay plain. -/
theorem deleteFiles_plain (root : Path) (rows : List Row) (fs : FS) (inv : List Row)
    (hr : DirChain fs [] root) (hp : ∀ r ∈ rows, NoLinkBelow fs root r.rel) :
    DelFacts root rows fs inv (deleteFiles root fs inv (rows.map fun r => (r, root ++ r.rel))) := by
  induction rows generalizing fs inv with
  | nil =>
    refine ⟨hr, fun _ _ h => h, fun _ h => h, rfl, ?_, ?_, ?_, fun _ => Or.inl rfl, fun _ => rfl⟩
    · simp [deleteFiles]
    · simp only [deleteFiles, doneRels, List.filter_nil, List.map_nil, List.contains_nil, Bool.not_false]
      exact (List.filter_eq_self.mpr (fun _ _ => rfl)).symm
    · simp [deleteFiles]
  | cons r rs ih =>
    have hpr := hp r (by simp)
    rw [List.map_cons, deleteFiles_cons]
    generalize hu : unlink fs (root ++ r.rel) = u
    have hr' : DirChain u.2 [] root := by rw [← hu]; exact dirChain_unlink fs _ _ _ hr
    have hp' : ∀ x ∈ rs, NoLinkBelow u.2 root x.rel := fun x hx => by
      rw [← hu]; exact noLinkBelow_unlink fs _ _ _ (hp x (by simp [hx]))
    have hrel : relUnder u.2 root (root ++ r.rel) = some r.rel :=
      relUnder_plain u.2 root r.rel hr' (by rw [← hu]; exact noLinkBelow_unlink fs _ _ _ hpr)
    have hinv : (if u.1 = .err then inv else onDeleted u.2 root inv (root ++ r.rel))
        = if u.1 = .err then inv else inv.filter fun x => !(x.rel == r.rel) := by
      simp [onDeleted, hrel, invDelete]
    rw [hinv]
    generalize hinv' : (if u.1 = .err then inv else inv.filter fun x => !(x.rel == r.rel)) = inv'
    have I := ih u.2 inv' hr' hp'
    generalize deleteFiles root u.2 inv' (rs.map fun r => (r, root ++ r.rel)) = t at I
    obtain ⟨i1, i2, i3, i4, i5, i6, i7, i9, i8⟩ := I
    have hu2 : u.1 = .ok → u.2 = eraseKey fs (root ++ r.rel) := fun hok => by
      have := unlink_ok_plain fs root r.rel hr hpr (by rw [hu]; exact hok)
      rw [hu] at this; exact this
    refine ⟨i1, ?_, ?_, ?_, ?_, ?_, ?_, ?_, ?_⟩
    · intro q rel h
      exact i2 q rel (by rw [← hu]; exact noLinkBelow_unlink fs _ _ _ h)
    · intro q h
      exact i3 q (by rw [← hu]; exact lookup_none_unlink fs _ _ h)
    · simp [i4]
    · intro a ha
      rcases List.mem_cons.mp ha with rfl | ha'
      · rfl
      · exact i5 a ha'
    · simp only
      rw [i6, ← hinv']
      by_cases he : u.1 = .err
      · simp [he, doneRels]
      · have : (u.1 != DelRes.err) = true := by simpa using he
        simp only [he, if_false, doneRels, List.filter_cons, this, if_true, List.map_cons,
          List.filter_filter]
        apply List.filter_congr
        intro x _
        simp [Bool.and_comm]
    · intro a ha hok
      rcases List.mem_cons.mp ha with rfl | ha'
      · simp only at hok ⊢
        apply i3
        rw [hu2 hok, lookup_eraseKey]
        simp
      · exact i7 a ha' hok
    · intro q
      rcases i9 q with h | ⟨a, ha, hok, hq⟩
      · by_cases hok : u.1 = .ok
        · rw [hu2 hok, lookup_eraseKey] at h
          by_cases hq : q = root ++ r.rel
          · right; exact ⟨_, List.mem_cons_self, hok, hq⟩
          · left; rw [h]; simp [hq]
        · left
          have := unlink_fs_of_not_ok fs (root ++ r.rel) (by rw [hu]; exact hok)
          rw [hu] at this
          rw [h, this]
      · right; exact ⟨a, List.mem_cons_of_mem _ ha, hok, hq⟩
    · intro hne
      have h1 : u.1 ≠ .err := hne _ (List.mem_cons_self)
      have h2 := i8 (fun a ha => hne a (List.mem_cons_of_mem _ ha))
      have : (u.1 != DelRes.err) = true := by simpa using h1
      simp only [doneRels, List.filter_cons, this, if_true, List.map_cons] at h2 ⊢
      rw [h2]

end Quota
