import SamplyModel.Lemmas.ConvSim
import SamplyModel.Lemmas.ConvViews
/-! From the buffered samples to the output views (C01): flushing keeps entry, time and weight of every
buffered sample, and grouping by entry neither loses nor duplicates any. -/
namespace Conv
open ConvSpec

theorem flushBuffer_proj (pm maps : List MapAdd) (q : List (Nat × MapAdd)) (us : List USample) :
    (flushBuffer pm maps q us).map (fun o => (o.1, o.2.t, o.2.weight, o.2.synth)) =
      us.map (fun u => (u.th, u.t, u.weight, u.synth)) := by
  induction us generalizing maps q with
  | nil => rfl
  | cons u rest ih =>
    unfold flushBuffer
    simp only [List.map_cons]
    rw [ih]
    rfl

theorem flushBuffer_kind (pm maps : List MapAdd) (q : List (Nat × MapAdd)) (us : List USample) :
    (flushBuffer pm maps q us).map (fun o => (o.1, o.2.t, o.2.weight, o.2.kind)) =
      us.map (fun u => (u.th, u.t, u.weight, u.kind)) := by
  induction us generalizing maps q with
  | nil => rfl
  | cons u rest ih =>
    unfold flushBuffer
    simp only [List.map_cons]
    rw [ih]

/-- a recorded sample is no marker item: filtering the markers out first changes nothing -/
theorem filter_marker_synthO (l : List (Nat × OutSample)) :
    (l.filter (fun o => !o.2.marker)).filter (fun o => !o.2.synth) = l.filter (fun o => !o.2.synth) := by
  rw [List.filter_filter]
  apply List.filter_congr
  intro o _
  cases h : o.2.synth
  · simp [OutSample.marker_of_not_synth _ h]
  · simp

theorem filter_marker_synthU (l : List USample) :
    (l.filter (fun u => !u.marker)).filter (fun u => !u.synth) = l.filter (fun u => !u.synth) := by
  rw [List.filter_filter]
  apply List.filter_congr
  intro u _
  cases h : u.synth
  · simp [USample.marker_of_not_synth _ h]
  · simp

theorem flatMap_filter_nonempty {γ} (f : USample → γ) (procs : List (Nat × ProcC)) :
    ((procs.filter (fun p => !p.2.samples.isEmpty)).map (fun p => (p.2.samples, p.2.mapq, p.2.pid))).flatMap
        (fun b => b.1.map f) = (bufP procs).map f := by
  induction procs with
  | nil => rfl
  | cons a l ih =>
    have hb : bufP (a :: l) = a.2.samples ++ bufP l := by simp [bufP]
    rw [List.filter_cons, hb, List.map_append, ← ih]
    cases hs : a.2.samples with
    | nil => simp
    | cons x xs => simp [hs]

theorem flushAll_proj (s : St) :
    (flushAll s).map (fun o => (o.1, o.2.t, o.2.weight, o.2.synth)) =
      (buffered s).map (fun u => (u.th, u.t, u.weight, u.synth)) := by
  unfold flushAll
  rw [List.map_flatMap]
  have : (fun b : List USample × List (Nat × MapAdd) × Nat =>
      (flushBuffer (perfMapTable s.cfg b.2.2) [] b.2.1 b.1).map (fun o => (o.1, o.2.t, o.2.weight, o.2.synth))) =
      (fun b => b.1.map (fun u => (u.th, u.t, u.weight, u.synth))) := by
    funext b; exact flushBuffer_proj (perfMapTable s.cfg b.2.2) [] b.2.1 b.1
  rw [this]
  unfold allBuffers buffered
  rw [List.flatMap_append, List.map_append, flatMap_filter_nonempty]
  congr 1
  rw [List.map_flatMap]

theorem flushAll_kind (s : St) :
    (flushAll s).map (fun o => (o.1, o.2.t, o.2.weight, o.2.kind)) =
      (buffered s).map (fun u => (u.th, u.t, u.weight, u.kind)) := by
  unfold flushAll
  rw [List.map_flatMap]
  have : (fun b : List USample × List (Nat × MapAdd) × Nat =>
      (flushBuffer (perfMapTable s.cfg b.2.2) [] b.2.1 b.1).map (fun o => (o.1, o.2.t, o.2.weight, o.2.kind))) =
      (fun b => b.1.map (fun u => (u.th, u.t, u.weight, u.kind))) := by
    funext b; exact flushBuffer_kind (perfMapTable s.cfg b.2.2) [] b.2.1 b.1
  rw [this]
  unfold allBuffers buffered
  rw [List.flatMap_append, List.map_append, flatMap_filter_nonempty]
  congr 1
  rw [List.map_flatMap]

/-- the views, keyed by anything computable from the entry index, time, weight and the synthesized flag, list
exactly the buffered samples (the buffered items that are not marker items) -/
theorem views_perm_buffered {γ} (s : St) (hinv : InvA s)
    (hsok : ∀ u ∈ buffered s, u.th < (tsk s.tents).length)
    (F : View → OutSample → γ) (G : Nat → Nat → Nat → Bool → γ)
    (hFG : ∀ i te v, s.tents[i]? = some te → viewOf s (flushAll s) i te = some v →
      ∀ o, F v o = G i o.t o.weight o.synth) :
    List.Perm ((views s).flatMap (fun v => v.samples.map (F v)))
      (((buffered s).filter (fun u => !u.marker)).map (fun u => G u.th u.t u.weight u.synth)) := by
  have hv : ∀ te ∈ s.tents, te.proc < s.pents.length := by
    intro te hte
    have := hinv.tents (te.proc, te.tid) (List.mem_map_of_mem (f := fun e : TEntry => (e.proc, e.tid)) hte)
    simpa [psk] using this
  have hout : ∀ o ∈ flushAll s, o.1 < s.tents.length := by
    intro o ho
    have hm : (o.1, o.2.t, o.2.weight, o.2.synth) ∈ (flushAll s).map (fun o => (o.1, o.2.t, o.2.weight, o.2.synth)) :=
      List.mem_map_of_mem (f := fun o : Nat × OutSample => (o.1, o.2.t, o.2.weight, o.2.synth)) ho
    rw [flushAll_proj] at hm
    obtain ⟨u, hu, heq⟩ := List.mem_map.mp hm
    have h1 : u.th = o.1 := congrArg Prod.fst heq
    have := hsok u hu
    simp only [tsk, List.length_map] at this
    omega
  have h := views_perm s (flushAll s) F (fun i o => G i o.t o.weight o.synth) hv hout hFG
  unfold views
  refine h.trans (List.Perm.of_eq ?_)
  have : ((flushAll s).filter (fun o => !o.2.marker)).map (fun o => G o.1 o.2.t o.2.weight o.2.synth) =
      ((((flushAll s).map (fun o => (o.1, o.2.t, o.2.weight, o.2.kind))).filter
        (fun x => !(x.2.2.2 == ItemKind.marker))).map (fun x => G x.1 x.2.1 x.2.2.1 (x.2.2.2 != ItemKind.recorded))) := by
    rw [List.filter_map, List.map_map]; rfl
  rw [this, flushAll_kind, List.filter_map, List.map_map]
  rfl

def entKey (s : St) (i : Nat) : Nat × Nat :=
  match s.tents[i]? with
  | some te => (((s.pents[te.proc]?).map (·.pid)).getD 0, te.tid)
  | none => (0, 0)

theorem entKey_of_skel {s : St} {i ph pid tid : Nat} (h1 : (tsk s.tents)[i]? = some (ph, tid))
    (h2 : (psk s.pents)[ph]? = some pid) : entKey s i = (pid, tid) := by
  unfold tsk at h1
  unfold psk at h2
  rw [List.getElem?_map] at h1 h2
  cases hte : s.tents[i]? with
  | none => rw [hte] at h1; cases h1
  | some te =>
    rw [hte] at h1
    simp only [Option.map_some, Option.some.injEq, Prod.mk.injEq] at h1
    obtain ⟨hp, ht⟩ := h1
    cases hpe : s.pents[ph]? with
    | none => rw [hpe] at h2; cases h2
    | some pe =>
      rw [hpe] at h2
      simp only [Option.map_some, Option.some.injEq] at h2
      unfold entKey
      rw [hte]
      simp only [hp, hpe, Option.map_some, Option.getD_some, h2, ht]

theorem viewOf_key {s : St} {out : List (Nat × OutSample)} {i : Nat} {te : TEntry} {v : View}
    (hte : s.tents[i]? = some te) (hv : viewOf s out i te = some v) :
    (v.pidBase, v.tidBase) = entKey s i := by
  unfold viewOf at hv
  unfold entKey
  rw [hte]
  split at hv
  · cases hv
  · rename_i pe hpe
    simp only [Option.some.injEq] at hv
    rw [← hv]
    simp only [hpe, Option.map_some, Option.getD_some]

/-- one step of the specification fold keeps "no accepted sample has tid 0" (used by `C01_accepted_no_idle`) -/
theorem accStep_no_idle (st : Last × List Acc) (r : Rec) (h : ∀ a ∈ st.2, a.tid ≠ 0) :
    ∀ a ∈ (accStep st r).2, a.tid ≠ 0 := by
  cases r with
  | sample pid tid t km period ip chain =>
    simp only [accStep]
    split
    · exact h
    · split
      · exact h
      · intro a ha
        simp only [List.mem_append, List.mem_singleton] at ha
        rcases ha with ha | ha
        · exact h a ha
        · subst ha; assumption
  | exit pid tid t => simp only [accStep]; split <;> exact h
  | comm pid tid name isExec t =>
    cases isExec
    · exact h
    · simp only [accStep]; split <;> exact h
  | fork => exact h
  | mmap2 => exact h
  | switchIn => exact h
  | switchOut => exact h
  | sched => exact h
  | otherEvent => exact h

end Conv
