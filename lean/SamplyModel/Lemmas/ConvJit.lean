import SamplyModel.Lemmas.ConvStacks
/-! Lemmas about the perf-map loader, the mapping hierarchy and the JS label frames (C02, C14). -/
namespace Conv
open ConvSpec

/-! ## The label-prepending iterator (closed form) against the declarative expansion -/

theorem emitJs_eq_expandJsFrom (before : List Info) (infos : List Info) :
    emitJs (jsNameBefore before) infos = expandJsFrom before infos := by
  induction infos generalizing before with
  | nil => rfl
  | cons i rest ih =>
    unfold emitJs expandJsFrom
    have hstate : (jsStep (jsNameBefore before) i.js).2 = jsNameBefore (i :: before) := by
      cases hj : i.js with
      | none => simp [jsStep, jsNameBefore, hj]
      | some j => cases j <;> simp [jsStep, jsNameBefore, hj]
    have hfr : framesOf (jsStep (jsNameBefore before) i.js).1 i =
        (match labelOf before i with
          | some s => [Frame.label s, i.frame]
          | none => [i.frame]) := by
      cases hj : i.js with
      | none => simp [jsStep, framesOf, labelOf, hj]
      | some j =>
        cases j with
        | regular n => cases n <;> simp [jsStep, framesOf, labelOf, hj]
        | stub n => cases n <;> simp [jsStep, framesOf, labelOf, hj]
        | baselineInterp =>
          simp only [jsStep, labelOf, hj]
          cases hb : jsNameBefore before with
          | none => simp [framesOf]
          | some n => cases n <;> simp [framesOf]
    rw [hfr, hstate, ih]
    rfl

theorem emitJs_eq_expandJs (infos : List Info) : emitJs none infos = expandJs infos :=
  emitJs_eq_expandJsFrom [] infos

theorem framesOf_length (x : Option JsName) (i : Info) :
    1 ≤ (framesOf x i).length ∧ (framesOf x i).length ≤ 2 := by
  unfold framesOf
  split <;> simp

/-- every frame of the second pass yields one or two frames -/
theorem emitJs_length (st : Option JsName) (infos : List Info) :
    infos.length ≤ (emitJs st infos).length ∧ (emitJs st infos).length ≤ 2 * infos.length := by
  induction infos generalizing st with
  | nil => simp [emitJs]
  | cons i rest ih =>
    unfold emitJs
    have h1 := framesOf_length (jsStep st i.js).1 i
    have h2 := ih (jsStep st i.js).2
    simp only [List.length_append, List.length_cons]
    omega

/-- without JS information nothing is prepended -/
theorem emitJs_no_js (st : Option JsName) (infos : List Info) (h : ∀ i ∈ infos, i.js = none) :
    emitJs st infos = infos.map (·.frame) := by
  induction infos generalizing st with
  | nil => rfl
  | cons i rest ih =>
    unfold emitJs
    have hi : i.js = none := h i List.mem_cons_self
    simp only [hi, jsStep, framesOf, List.map_cons, List.singleton_append]
    rw [ih st (fun j hj => h j (List.mem_cons_of_mem _ hj))]

/-! ## The loader against the declaration list -/

/-- `try_load_perf_map`'s loop, when it does not panic, adds exactly the declared functions in file order -/
theorem loadPmLines_eq (path : String) (table : List MapAdd) (cum : Nat) (ls : List PmLine) (r : List MapAdd)
    (h : loadPmLines path table cum ls = some r) :
    r = (pmDecl path cum ls).foldl applyAdd table := by
  induction ls generalizing table cum with
  | nil =>
    simp only [loadPmLines, Option.some.injEq] at h
    simp [pmDecl, h]
  | cons l rest ih =>
    unfold loadPmLines at h
    split at h
    · cases h
    · dsimp only at h
      split at h
      · cases h
      · have := ih _ _ h
        rw [this]
        simp [pmDecl]

/-- the loop panics exactly when an address range leaves `u64` or the running total of the sizes leaves `u32` -/
theorem loadPmLines_isSome_iff (path : String) (table : List MapAdd) (cum : Nat) (ls : List PmLine)
    (hcum : cum < 2 ^ 32) :
    (loadPmLines path table cum ls).isSome = true ↔
      (∀ l ∈ ls, l.addr + l.len < 2 ^ 64) ∧ cum + (ls.map (fun l => l.len % 2 ^ 32)).sum < 2 ^ 32 := by
  induction ls generalizing table cum with
  | nil => simp [loadPmLines, hcum]
  | cons l rest ih =>
    unfold loadPmLines
    by_cases h1 : l.addr + l.len ≥ 2 ^ 64
    · simp only [h1, if_true, Option.isSome_none, Bool.false_eq_true, false_iff]
      intro ⟨hall, _⟩
      have := hall l List.mem_cons_self; omega
    · simp only [h1, if_false]
      by_cases h2 : cum + l.len % 2 ^ 32 ≥ 2 ^ 32
      · simp only [h2, if_true, Option.isSome_none, Bool.false_eq_true, false_iff]
        intro ⟨_, hsum⟩
        simp only [List.map_cons, List.sum_cons] at hsum; omega
      · simp only [h2, if_false]
        rw [ih _ _ (by omega)]
        simp only [List.map_cons, List.sum_cons, List.mem_cons, forall_eq_or_imp]
        constructor
        · intro ⟨hall, hsum⟩
          exact ⟨⟨by omega, hall⟩, by omega⟩
        · intro ⟨⟨_, hall⟩, hsum⟩
          exact ⟨hall, by omega⟩

/-- the perf-map level of the hierarchy is the table of the declared functions of the pid's file -/
theorem perfMapTable_eq (cfg : Config) (pid : Nat) (h : (loadPerfMap cfg pid).isSome = true) :
    perfMapTable cfg pid = (pmCands cfg pid).foldl applyAdd [] := by
  unfold perfMapTable pmCands
  unfold loadPerfMap at h ⊢
  cases hl : alGet cfg.perfMaps pid with
  | none => simp
  | some lines =>
    simp only [hl] at h ⊢
    cases hr : loadPmLines (perfMapPath pid) [] 0 (lines.filterMap parsePmLine) with
    | none => simp [hr] at h
    | some r =>
      simp only [Option.map_some]
      exact loadPmLines_eq _ _ _ _ _ hr

end Conv
