import SamplyModel.Lemmas.ChunkCache
import SamplyModel.Lemmas.ChunkCacheCover
import SamplyModel.Iface.C13
/-!
The byte-source oracle that the C13 model driver executes (`C13.src g`, the in-memory source of the harness
described by a `file …` line) satisfies the hypotheses of the C13 theorems for the file
`F = C13.fileSlice g 0 g.len`. Core Lean only.
-/
namespace C13
open CC

theorem fileSlice_go (g : Gen) (o : Nat) (k : Nat) (acc : List UInt8) :
    fileSlice.go g o k acc = (List.range k).map (fun i => genByte g (o + i)) ++ acc := by
  induction k generalizing acc with
  | zero => simp [fileSlice.go]
  | succ k ih => simp [fileSlice.go, ih, List.range_succ]

theorem fileSlice_eq (g : Gen) (o n : Nat) :
    fileSlice g o n = (List.range n).map (fun i => genByte g (o + i)) := by
  simp [fileSlice, fileSlice_go]

theorem fileSlice_length (g : Gen) (o n : Nat) : (fileSlice g o n).length = n := by
  simp [fileSlice_eq]

/-- a slice of the whole generated file is the generated slice -/
theorem slice_fileSlice (g : Gen) (o n : Nat) (h : o + n ≤ g.len) :
    slice (fileSlice g 0 g.len) o n = fileSlice g o n := by
  apply List.ext_getElem?
  intro i
  simp only [slice, fileSlice_eq, List.getElem?_take, List.getElem?_drop, List.getElem?_map,
    Nat.zero_add]
  by_cases hi : i < n
  · have : o + i < g.len := by omega
    simp [hi, this]
  · simp [hi]

theorem src_faithful (g : Gen) : Faithful (fileSlice g 0 g.len) (src g) := by
  intro o n bs hin hs
  rw [fileSlice_length] at hin
  unfold src at hs
  have h1 : ¬ g.len < o + n := by omega
  simp only [h1, if_false] at hs
  split at hs
  · cases hs
  · simp only [Option.some.injEq] at hs
    rw [← hs, slice_fileSlice g o n hin]

theorem src_ok (g : Gen) (hbad : g.badHi = 0) : SourceOk (fileSlice g 0 g.len) (src g) := by
  intro o n hin
  rw [fileSlice_length] at hin
  unfold src
  have h1 : ¬ g.len < o + n := by omega
  have h2 : hitsBad g o n = false := by simp [hitsBad, hbad]
  simp [h1, h2]

/-- the driver's source is monotone: it fails exactly on the requests that reach past the end or touch the
bad range -/
theorem src_mono (g : Gen) : SrcMono (src g) := by
  intro o n o' n' h h1 h2
  unfold src at h ⊢
  by_cases hl : g.len < o + n
  · simp [hl] at h
  · simp only [hl, if_false] at h
    by_cases hb : hitsBad g o n = true
    · simp [hb] at h
    · have hl' : ¬ g.len < o' + n' := by omega
      have hb' : hitsBad g o' n' = false := by
        cases hq : hitsBad g o' n' with
        | false => rfl
        | true =>
          exfalso; apply hb
          simp only [hitsBad, Bool.and_eq_true, decide_eq_true_eq] at hq ⊢
          obtain ⟨⟨q1, q2⟩, q3⟩ := hq
          refine ⟨⟨?_, ?_⟩, ?_⟩ <;> omega
      simp [hl', hb']

/-- in mode 0 the driver's source is the faithful one -/
theorem srcMode_zero (g : Gen) : srcMode g 0 = src g := by
  funext o n
  unfold srcMode
  cases src g o n <;> simp

end C13
