import SamplyModel.Lemmas.BreakpadCreator
/-!
Helper lemmas for C10, part 3: the symbol map that indexes the file itself (1 MiB reads) and the one that
is handed a stored index.
-/
namespace BP
open LB (Byte Log)

theorem chunksOf_flatten (n : Nat) (hn : 0 < n) (fuel : Nat) (l : List Byte) (h : l.length ≤ fuel) :
    (chunksOf n fuel l).flatten = l := by
  induction fuel generalizing l with
  | zero =>
    have : l = [] := List.length_eq_zero_iff.1 (Nat.le_zero.1 h)
    subst this; simp [chunksOf]
  | succ f ih =>
    simp only [chunksOf]
    split
    · rename_i he
      have : l = [] := by simpa using he
      subst this; simp
    · rename_i he
      have hne : l ≠ [] := by simpa using he
      have hpos : 0 < l.length := List.length_pos_iff.2 hne
      simp only [List.flatten_cons]
      rw [ih (l.drop n) (by simp only [List.length_drop]; omega)]
      exact List.take_append_drop n l

theorem selfChunks_flatten (text : List Byte) : (selfChunks text).flatten = text :=
  chunksOf_flatten _ (by decide) _ _ (Nat.le_refl _)

/-- the self-indexing map is a function of the whole text: the 1 MiB reads are one particular chunking -/
theorem mapSelf_eq (pick : Pick) (text : List Byte) :
    mapSelf pick text =
      if (tag tMODULE_ text).isNone then .notBreakpad
      else match index pick [text] with
        | .panic => .panic
        | .err => .noModule
        | .ok bytes =>
          match parseSymindex bytes with
          | none => .panic
          | some ix => .ok ix := by
  unfold mapSelf
  rw [index_chunk_independent pick (selfChunks text), selfChunks_flatten]
  split
  · rfl
  · cases index pick [text] with
    | panic => rfl
    | err => rfl
    | ok bytes => simp only; cases parseSymindex bytes <;> rfl

theorem mapStored_eq_mapSelf (pick : Pick) (text : List Byte) (chunks : List (List Byte))
    (bytes : List Byte) (hflat : chunks.flatten = text) (hidx : index pick chunks = .ok bytes) :
    mapStored pick text (some bytes) = mapSelf pick text := by
  have h1 : index pick [text] = .ok bytes := by
    rw [← hflat, ← index_chunk_independent]; exact hidx
  unfold mapStored
  by_cases hm : (tag tMODULE_ text).isNone = true
  · rw [mapSelf_eq]; simp [hm]
  · simp only [hm, Bool.false_eq_true, if_false, Option.bind_some]
    cases hp : parseSymindex bytes with
    | none => rfl
    | some ix =>
      simp only
      split
      · -- accepted: the self-indexing map parses the same bytes
        rw [mapSelf_eq]
        simp [hm, h1, hp]
      · rfl

/-- a stored index that parses but whose MODULE line is not the beginning of the text is ignored -/
theorem mapStored_mismatch (pick : Pick) (text b : List Byte) (ix : Index)
    (hp : parseSymindex b = some ix) (hm : storedMatches text ix = false) :
    mapStored pick text (some b) = mapSelf pick text := by
  unfold mapStored
  by_cases ht : (tag tMODULE_ text).isNone = true
  · unfold mapSelf; simp [ht]
  · simp [ht, hp, hm]

theorem storedMatchesFirstLine_iff (text : List Byte) (ix : Index) :
    storedMatchesFirstLine text ix = true ↔ storedModuleLine ix ≠ [] ∧ storedModuleLine ix <+: text := by
  unfold storedMatchesFirstLine
  simp only [Bool.and_eq_true, Bool.not_eq_true', List.isEmpty_eq_false_iff, beq_iff_eq]
  rw [List.prefix_iff_eq_take]
  constructor
  · rintro ⟨h1, h2⟩; exact ⟨h1, h2.symm⟩
  · rintro ⟨h1, h2⟩; exact ⟨h1, h2.symm⟩

theorem storedMatches_iff (text : List Byte) (ix : Index) :
    storedMatches text ix = true ↔
      storedModuleLine ix ≠ [] ∧ storedModuleLine ix <+: text ∧ storedIdAgrees ix = true := by
  unfold storedMatches
  rw [Bool.and_eq_true, storedMatchesFirstLine_iff]
  constructor
  · rintro ⟨⟨h1, h2⟩, h3⟩; exact ⟨h1, h2, h3⟩
  · rintro ⟨h1, h2, h3⟩; exact ⟨⟨h1, h2⟩, h3⟩

theorem storedIdAgrees_iff (ix : Index) :
    storedIdAgrees ix = true ↔
      ∃ v, debugIdOfModuleLine (storedModuleLine ix) = some v ∧ indexDebugId ix = some v := by
  unfold storedIdAgrees
  cases debugIdOfModuleLine (storedModuleLine ix) with
  | none => simp
  | some a =>
    cases indexDebugId ix with
    | none => simp
    | some b =>
      simp only [beq_iff_eq, Option.some.injEq]
      constructor
      · intro h; exact ⟨a, rfl, h.symm⟩
      · rintro ⟨v, h1, h2⟩; rw [h1, h2]

/-- what `index` yields in terms of the creator's final state -/
theorem index_spec (pick : Pick) (chunks : List (List Byte)) :
    ∃ st, CInv chunks.flatten.length st ∧ st.pending = none ∧
      index pick chunks =
        if st.hasModule then
          (if serializeSafe (st.toIndex pick) then .ok (serialize (st.toIndex pick)) else .panic)
        else .err := by
  obtain ⟨st, hc, hp, he⟩ := preIndex_spec pick chunks.flatten
  refine ⟨st, hc, hp, ?_⟩
  unfold index
  rw [preIndex_chunk_independent, he]
  cases st.hasModule <;> simp [Pre.toOutcome]

/-- `preIndex` of a whole text with the line buffer replaced by its bytewise specification (structural
recursion only, so that concrete instances can be evaluated by the kernel) -/
def preOf (o : Option Inner) (f : Inner → Pre) : Pre :=
  match o with
  | none => .panic
  | some i => f i

def preIndexSpec (pick : Pick) (text : List Byte) : Pre :=
  let r := LB.bytewise LB.St.init text
  preOf (processLog Inner.init r.2) fun i => (Creator.mk r.1 i).pre pick

theorem preIndex_eq_spec (pick : Pick) (text : List Byte) :
    preIndex pick [text] = preIndexSpec pick text := by
  unfold preIndex preIndexSpec preOf
  rw [consumeAll_eq _ _ LB.inv_init, lb_consumeAll_single]
  simp only [Creator.init]
  rw [LB.consume_eq_bytewise _ _ LB.inv_init]
  cases processLog Inner.init (LB.bytewise LB.St.init text).2 <;> rfl

end BP
