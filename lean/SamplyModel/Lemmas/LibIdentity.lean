import SamplyModel.Model.LibIdentity
/-!
Helper lemmas for C19: hexadecimal printing / parsing round trips, association-list facts.
Core Lean only.
-/
namespace LI

/-! ### digits -/

theorem hexVal_upperDigit (n : Nat) (h : n < 16) : hexVal? (upperDigit n) = some n := by
  unfold hexVal? upperDigit
  split <;> (repeat' split) <;> first | (congr 1; omega) | omega

theorem hexVal_lowerDigit (n : Nat) (h : n < 16) : hexVal? (lowerDigit n) = some n := by
  unfold hexVal? lowerDigit
  split <;> (repeat' split) <;> first | (congr 1; omega) | omega

theorem upperDigit_range (n : Nat) (h : n < 16) :
    (48 ≤ upperDigit n ∧ upperDigit n ≤ 57) ∨ (65 ≤ upperDigit n ∧ upperDigit n ≤ 70) := by
  unfold upperDigit; split <;> omega

theorem lowerDigit_range (n : Nat) (h : n < 16) :
    (48 ≤ lowerDigit n ∧ lowerDigit n ≤ 57 ∧ n < 10) ∨ (97 ≤ lowerDigit n ∧ lowerDigit n ≤ 102 ∧ 10 ≤ n) := by
  unfold lowerDigit; split <;> omega

theorem digitsVal_append (acc : Nat) (s : Str) (c : Nat) :
    digitsVal acc (s ++ [c]) =
      match digitsVal acc s, hexVal? c with
      | some a, some d => some (a * 16 + d)
      | _, _ => none := by
  induction s generalizing acc with
  | nil => simp [digitsVal]; cases hexVal? c <;> simp
  | cons x xs ih =>
    simp only [List.cons_append, digitsVal]
    cases hexVal? x with
    | none => simp
    | some d => simp only; exact ih _

theorem digitsVal_toHexLower (n : Nat) : digitsVal 0 (toHexLower n) = some n := by
  fun_induction toHexLower n with
  | case1 n h => simp [digitsVal, hexVal_lowerDigit n h]
  | case2 n h ih =>
    rw [digitsVal_append, ih, hexVal_lowerDigit _ (Nat.mod_lt _ (by omega))]
    simp only [Option.some.injEq]; omega

theorem digitsVal_toHexUpper (n : Nat) : digitsVal 0 (toHexUpper n) = some n := by
  fun_induction toHexUpper n with
  | case1 n h => simp [digitsVal, hexVal_upperDigit n h]
  | case2 n h ih =>
    rw [digitsVal_append, ih, hexVal_upperDigit _ (Nat.mod_lt _ (by omega))]
    simp only [Option.some.injEq]; omega

/-! ### shape of printed numbers -/

def IsLowerHexChar (c : Nat) : Prop := (48 ≤ c ∧ c ≤ 57) ∨ (97 ≤ c ∧ c ≤ 102)
def IsUpperHexChar (c : Nat) : Prop := (48 ≤ c ∧ c ≤ 57) ∨ (65 ≤ c ∧ c ≤ 70)

theorem lowerDigit_isLower (n : Nat) (h : n < 16) : IsLowerHexChar (lowerDigit n) := by
  unfold IsLowerHexChar lowerDigit; split <;> omega

theorem upperDigit_isUpper (n : Nat) (h : n < 16) : IsUpperHexChar (upperDigit n) := by
  unfold IsUpperHexChar upperDigit; split <;> omega

theorem toHexLower_chars (n : Nat) : ∀ c ∈ toHexLower n, IsLowerHexChar c := by
  fun_induction toHexLower n with
  | case1 n h => intro c hc; simp at hc; subst hc; exact lowerDigit_isLower n h
  | case2 n h ih =>
    intro c hc
    rcases List.mem_append.1 hc with h1 | h1
    · exact ih c h1
    · simp at h1; subst h1; exact lowerDigit_isLower _ (Nat.mod_lt _ (by omega))

theorem toHexUpper_chars (n : Nat) : ∀ c ∈ toHexUpper n, IsUpperHexChar c := by
  fun_induction toHexUpper n with
  | case1 n h => intro c hc; simp at hc; subst hc; exact upperDigit_isUpper n h
  | case2 n h ih =>
    intro c hc
    rcases List.mem_append.1 hc with h1 | h1
    · exact ih c h1
    · simp at h1; subst h1; exact upperDigit_isUpper _ (Nat.mod_lt _ (by omega))

theorem toHexLower_ne_nil (n : Nat) : toHexLower n ≠ [] := by
  fun_induction toHexLower n <;> simp

theorem toHexUpper_ne_nil (n : Nat) : toHexUpper n ≠ [] := by
  fun_induction toHexUpper n <;> simp

theorem toHexLower_length_pos (n : Nat) : 1 ≤ (toHexLower n).length := by
  have := toHexLower_ne_nil n
  cases h : toHexLower n with
  | nil => exact absurd h this
  | cons _ _ => simp

theorem toHexLower_length_le (n k : Nat) (hk : 1 ≤ k) (h : n < 16 ^ k) : (toHexLower n).length ≤ k := by
  fun_induction toHexLower n generalizing k with
  | case1 n hn => simpa using hk
  | case2 n hn ih =>
    have hk2 : 2 ≤ k := by
      rcases Nat.lt_or_ge k 2 with h2 | h2
      · have : k = 1 := by omega
        subst this; simp at h; omega
      · exact h2
    have hdiv : n / 16 < 16 ^ (k - 1) := by
      have : 16 ^ k = 16 ^ (k - 1) * 16 := by
        rw [← Nat.pow_succ]; congr 1; omega
      rw [this] at h
      exact (Nat.div_lt_iff_lt_mul (by omega)).2 h
    have := ih (k - 1) (by omega) hdiv
    simp only [List.length_append, List.length_cons, List.length_nil]
    omega

theorem toHexUpper_length_le (n k : Nat) (hk : 1 ≤ k) (h : n < 16 ^ k) : (toHexUpper n).length ≤ k := by
  fun_induction toHexUpper n generalizing k with
  | case1 n hn => simpa using hk
  | case2 n hn ih =>
    have hk2 : 2 ≤ k := by
      rcases Nat.lt_or_ge k 2 with h2 | h2
      · have : k = 1 := by omega
        subst this; simp at h; omega
      · exact h2
    have hdiv : n / 16 < 16 ^ (k - 1) := by
      have : 16 ^ k = 16 ^ (k - 1) * 16 := by
        rw [← Nat.pow_succ]; congr 1; omega
      rw [this] at h
      exact (Nat.div_lt_iff_lt_mul (by omega)).2 h
    have := ih (k - 1) (by omega) hdiv
    simp only [List.length_append, List.length_cons, List.length_nil]
    omega

theorem u32Bound_eq : u32Bound = 16 ^ 8 := by decide

/-! ### `from_str_radix` on printed numbers -/

theorem digitsVal_zeros (k : Nat) (s : Str) : digitsVal 0 (List.replicate k 48 ++ s) = digitsVal 0 s := by
  induction k with
  | zero => simp
  | succ k ih =>
    simp only [List.replicate_succ, List.cons_append, digitsVal]
    have : hexVal? 48 = some 0 := by decide
    rw [this]; simpa using ih

/-- a string whose first character is a hex digit is parsed without sign handling -/
theorem fromStrRadix16_of_digits (bound : Nat) (s : Str) (v : Nat)
    (hhead : ∀ c, s.head? = some c → c ≠ 43) (hne : s ≠ []) (hv : digitsVal 0 s = some v) (hb : v < bound) :
    fromStrRadix16 bound s = some v := by
  unfold fromStrRadix16
  have hbody : stripPlus s = s := by
    cases s with
    | nil => rfl
    | cons c cs =>
      have := hhead c rfl
      unfold stripPlus
      split
      · rename_i heq; simp at heq; omega
      · rfl
  simp only [hbody]
  have : s.isEmpty = false := by cases s <;> simp_all
  simp [this, hv, hb]

theorem head_not_plus_of_lower (s : Str) (h : ∀ c ∈ s, IsLowerHexChar c) : ∀ c, s.head? = some c → c ≠ 43 := by
  intro c hc
  cases s with
  | nil => simp at hc
  | cons x xs =>
    simp at hc; subst hc
    have := h x (by simp)
    unfold IsLowerHexChar at this; omega

theorem head_not_plus_of_upper (s : Str) (h : ∀ c ∈ s, IsUpperHexChar c) : ∀ c, s.head? = some c → c ≠ 43 := by
  intro c hc
  cases s with
  | nil => simp at hc
  | cons x xs =>
    simp at hc; subst hc
    have := h x (by simp)
    unfold IsUpperHexChar at this; omega

theorem fromStrRadix16_toHexLower (bound n : Nat) (h : n < bound) :
    fromStrRadix16 bound (toHexLower n) = some n :=
  fromStrRadix16_of_digits bound _ n (head_not_plus_of_lower _ (toHexLower_chars n)) (toHexLower_ne_nil n)
    (digitsVal_toHexLower n) h

theorem pad8Upper_chars (n : Nat) : ∀ c ∈ pad8Upper n, IsUpperHexChar c := by
  intro c hc
  unfold pad8Upper at hc
  rcases List.mem_append.1 hc with h1 | h1
  · have := (List.mem_replicate.1 h1).2; subst this; unfold IsUpperHexChar; omega
  · exact toHexUpper_chars n c h1

theorem pad8Upper_length (n : Nat) (h : n < u32Bound) : (pad8Upper n).length = 8 := by
  have := toHexUpper_length_le n 8 (by omega) (by rw [← u32Bound_eq]; exact h)
  unfold pad8Upper
  simp only [List.length_append, List.length_replicate]
  omega

theorem fromStrRadix16_pad8Upper (n : Nat) (h : n < u32Bound) :
    fromStrRadix16 u32Bound (pad8Upper n) = some n := by
  apply fromStrRadix16_of_digits _ _ n (head_not_plus_of_upper _ (pad8Upper_chars n))
  · intro hnil
    have := pad8Upper_length n h
    rw [hnil] at this; simp at this
  · unfold pad8Upper; rw [digitsVal_zeros]; exact digitsVal_toHexUpper n
  · exact h

/-! ### byte strings as hex -/

theorem hexLower_length (bs : List Nat) : (hexLower bs).length = 2 * bs.length := by
  induction bs with
  | nil => rfl
  | cons b bs ih => simp only [hexLower, List.flatMap_cons] at ih ⊢; simp [ih]; omega

theorem hexUpper_length (bs : List Nat) : (hexUpper bs).length = 2 * bs.length := by
  induction bs with
  | nil => rfl
  | cons b bs ih => simp only [hexUpper, List.flatMap_cons] at ih ⊢; simp [ih]; omega

theorem hexLower_cons (b : Nat) (bs : List Nat) :
    hexLower (b :: bs) = lowerDigit (b / 16) :: lowerDigit (b % 16) :: hexLower bs := by
  simp [hexLower]

theorem hexUpper_cons (b : Nat) (bs : List Nat) :
    hexUpper (b :: bs) = upperDigit (b / 16) :: upperDigit (b % 16) :: hexUpper bs := by
  simp [hexUpper]

theorem hexUpper_chars (bs : List Nat) (hb : IsBytes bs) : ∀ c ∈ hexUpper bs, IsUpperHexChar c := by
  induction bs with
  | nil => intro c hc; simp [hexUpper] at hc
  | cons b bs ih =>
    intro c hc
    rw [hexUpper_cons] at hc
    have hb1 : b < 256 := hb b (by simp)
    have hbs : IsBytes bs := fun x hx => hb x (by simp [hx])
    simp only [List.mem_cons] at hc
    rcases hc with h1 | h1 | h1
    · subst h1; exact upperDigit_isUpper _ (by omega)
    · subst h1; exact upperDigit_isUpper _ (by omega)
    · exact ih hbs c h1

theorem hexLower_chars (bs : List Nat) (hb : IsBytes bs) : ∀ c ∈ hexLower bs, IsLowerHexChar c := by
  induction bs with
  | nil => intro c hc; simp [hexLower] at hc
  | cons b bs ih =>
    intro c hc
    rw [hexLower_cons] at hc
    have hb1 : b < 256 := hb b (by simp)
    have hbs : IsBytes bs := fun x hx => hb x (by simp [hx])
    simp only [List.mem_cons] at hc
    rcases hc with h1 | h1 | h1
    · subst h1; exact lowerDigit_isLower _ (by omega)
    · subst h1; exact lowerDigit_isLower _ (by omega)
    · exact ih hbs c h1

theorem strictPairs_hexUpper (bs : List Nat) (hb : IsBytes bs) : strictPairs (hexUpper bs) = some bs := by
  induction bs with
  | nil => simp [hexUpper, strictPairs]
  | cons b bs ih =>
    have hb1 : b < 256 := hb b (by simp)
    have hbs : IsBytes bs := fun x hx => hb x (by simp [hx])
    rw [hexUpper_cons, strictPairs, hexVal_upperDigit _ (by omega), hexVal_upperDigit _ (Nat.mod_lt _ (by omega)), ih hbs]
    simp only [Option.some.injEq, List.cons.injEq, and_true]; omega

theorem pair_lower (b : Nat) (hb : b < 256) :
    fromStrRadix16 256 [lowerDigit (b / 16), lowerDigit (b % 16)] = some b := by
  apply fromStrRadix16_of_digits
  · intro c hc; simp at hc; subst hc
    have := lowerDigit_isLower (b / 16) (by omega); unfold IsLowerHexChar at this; omega
  · simp
  · simp only [digitsVal, hexVal_lowerDigit (b / 16) (by omega), hexVal_lowerDigit (b % 16) (Nat.mod_lt _ (by omega))]
    simp only [Option.some.injEq]; omega
  · exact hb

theorem hexPairs_hexLower (bs : List Nat) (hb : IsBytes bs) : hexPairs (hexLower bs) = some bs := by
  induction bs with
  | nil => simp [hexLower, hexPairs]
  | cons b bs ih =>
    have hb1 : b < 256 := hb b (by simp)
    have hbs : IsBytes bs := fun x hx => hb x (by simp [hx])
    rw [hexLower_cons, hexPairs, pair_lower b hb1, ih hbs]

theorem isAscii_of_chars (s : Str) (h : ∀ c ∈ s, c < 128) : isAscii s = true := by
  unfold isAscii; simpa using h

theorem isUppercaseHex_iff (s : Str) : isUppercaseHex s = true ↔ ∀ c ∈ s, IsUpperHexChar c := by
  unfold isUppercaseHex IsUpperHexChar
  simp [List.all_eq_true]

/-- lower-case hex text consists of upper-case hex characters only if every nibble is a decimal digit -/
theorem decimalOnly_of_isUppercaseHex (bs : List Nat) (hb : IsBytes bs)
    (h : isUppercaseHex (hexLower bs) = true) : DecimalOnly bs := by
  rw [isUppercaseHex_iff] at h
  intro b hmem
  have hb1 : b < 256 := hb b hmem
  have hin1 : lowerDigit (b / 16) ∈ hexLower bs := by
    unfold hexLower; exact List.mem_flatMap.2 ⟨b, hmem, by simp⟩
  have hin2 : lowerDigit (b % 16) ∈ hexLower bs := by
    unfold hexLower; exact List.mem_flatMap.2 ⟨b, hmem, by simp⟩
  have h1 := h _ hin1
  have h2 := h _ hin2
  have r1 := lowerDigit_range (b / 16) (by omega)
  have r2 := lowerDigit_range (b % 16) (Nat.mod_lt _ (by omega))
  unfold IsUpperHexChar at h1 h2
  omega

theorem isUppercaseHex_of_decimalOnly (bs : List Nat) (h : DecimalOnly bs) :
    isUppercaseHex (hexLower bs) = true := by
  rw [isUppercaseHex_iff]
  intro c hc
  unfold hexLower at hc
  obtain ⟨b, hmem, hcb⟩ := List.mem_flatMap.1 hc
  have := h b hmem
  simp only [List.mem_cons, List.not_mem_nil, or_false] at hcb
  unfold IsUpperHexChar
  rcases hcb with h1 | h1 <;> subst h1 <;> unfold lowerDigit <;> split <;> omega

/-! ### Breakpad ids -/

theorem upper_lt_128 (c : Nat) (h : IsUpperHexChar c) : c < 128 := by unfold IsUpperHexChar at h; omega
theorem lower_lt_128 (c : Nat) (h : IsLowerHexChar c) : c < 128 := by unfold IsLowerHexChar at h; omega

theorem getElem?_ne_of_all (s : Str) (i bad : Nat) (P : Nat → Prop) (h : ∀ c ∈ s, P c) (hbad : ¬ P bad) :
    (s[i]? == some bad) = false := by
  cases hg : s[i]? with
  | none => rfl
  | some c =>
    have hc : c ∈ s := List.mem_of_getElem? hg
    have : c ≠ bad := fun e => hbad (e ▸ h c hc)
    simp [this]

theorem head?_ne_of_all (s : Str) (bad : Nat) (P : Nat → Prop) (h : ∀ c ∈ s, P c) (hbad : ¬ P bad) :
    (s.head? == some bad) = false := by
  cases s with
  | nil => rfl
  | cons c cs =>
    have : c ≠ bad := fun e => hbad (e ▸ h c (by simp))
    simp [this]

theorem fromBreakpad_toBreakpad_uuid (bs : List Nat) (age : Nat)
    (hlen : bs.length = 16) (hb : IsBytes bs) (hage : age < u32Bound) :
    DebugId.fromBreakpad (DebugId.uuid bs age).toBreakpad = some (.uuid bs age) := by
  have hul : (hexUpper bs).length = 32 := by rw [hexUpper_length, hlen]
  have hal := toHexLower_length_pos age
  have huc := hexUpper_chars bs hb
  have hlc := toHexLower_chars age
  have hmix : ∀ c ∈ hexUpper bs ++ toHexLower age, c < 128 ∧ c ≠ 45 := by
    intro c hc
    rcases List.mem_append.1 hc with h1 | h1
    · have := huc c h1; unfold IsUpperHexChar at this; omega
    · have := hlc c h1; unfold IsLowerHexChar at this; omega
  have h8 : ((hexUpper bs ++ toHexLower age)[8]? == some 45) = false :=
    getElem?_ne_of_all _ 8 45 (fun c => c < 128 ∧ c ≠ 45) hmix (by omega)
  have hascii : isAscii (hexUpper bs ++ toHexLower age) = true :=
    isAscii_of_chars _ (fun c hc => (hmix c hc).1)
  have hlen2 : (hexUpper bs ++ toHexLower age).length = 32 + (toHexLower age).length := by
    simp [hul]
  have htake : (hexUpper bs ++ toHexLower age).take 32 = hexUpper bs := List.take_left' hul
  have hdrop : (hexUpper bs ++ toHexLower age).drop 32 = toHexLower age := List.drop_left' hul
  have hhead : ((toHexLower age).head? == some 45) = false :=
    head?_ne_of_all _ 45 IsLowerHexChar hlc (by unfold IsLowerHexChar; omega)
  have huuid : parseUuid32 (hexUpper bs) = some bs := by
    unfold parseUuid32; simp [hul, strictPairs_hexUpper bs hb]
  unfold DebugId.toBreakpad DebugId.fromBreakpad
  simp only [h8, hascii, Bool.not_true, Bool.or_self, Bool.false_eq_true, ↓reduceIte, hlen2, htake, hdrop, huuid,
    hhead, fromStrRadix16_toHexLower u32Bound age hage]
  rw [if_neg (by omega), if_neg (by omega)]

theorem fromBreakpad_toBreakpad_pdb20 (ts age : Nat) (hts : ts < u32Bound) (hage : age < u32Bound) :
    DebugId.fromBreakpad (DebugId.pdb20 ts age).toBreakpad = some (.pdb20 ts age) := by
  have hpl := pad8Upper_length ts hts
  have hal := toHexLower_length_pos age
  have hal2 := toHexLower_length_le age 8 (by omega) (by rw [← u32Bound_eq]; exact hage)
  have hpc := pad8Upper_chars ts
  have hlc := toHexLower_chars age
  have hmix : ∀ c ∈ pad8Upper ts ++ toHexLower age, c < 128 ∧ c ≠ 45 := by
    intro c hc
    rcases List.mem_append.1 hc with h1 | h1
    · have := hpc c h1; unfold IsUpperHexChar at this; omega
    · have := hlc c h1; unfold IsLowerHexChar at this; omega
  have h8 : ((pad8Upper ts ++ toHexLower age)[8]? == some 45) = false :=
    getElem?_ne_of_all _ 8 45 (fun c => c < 128 ∧ c ≠ 45) hmix (by omega)
  have hascii : isAscii (pad8Upper ts ++ toHexLower age) = true :=
    isAscii_of_chars _ (fun c hc => (hmix c hc).1)
  have hlen2 : (pad8Upper ts ++ toHexLower age).length = 8 + (toHexLower age).length := by
    simp [hpl]
  have htake : (pad8Upper ts ++ toHexLower age).take 8 = pad8Upper ts := List.take_left' hpl
  have hdrop : (pad8Upper ts ++ toHexLower age).drop 8 = toHexLower age := List.drop_left' hpl
  unfold DebugId.toBreakpad DebugId.fromBreakpad
  simp only [h8, hascii, Bool.not_true, Bool.or_self, Bool.false_eq_true, ↓reduceIte, hlen2, htake, hdrop,
    fromStrRadix16_toHexLower u32Bound age hage, fromStrRadix16_pad8Upper ts hts]
  rw [if_pos (by omega)]

/-! ### code ids -/

theorem codeId_roundtrip_pe (ts size : Nat) (hts : ts < u32Bound) (hsize : size < u32Bound) :
    CodeId.fromStr (CodeId.pe ts size).toStr = some (.pe ts size) := by
  have hpl := pad8Upper_length ts hts
  have hal := toHexLower_length_pos size
  have hal2 := toHexLower_length_le size 8 (by omega) (by rw [← u32Bound_eq]; exact hsize)
  have hlen2 : (pad8Upper ts ++ toHexLower size).length = 8 + (toHexLower size).length := by
    simp [hpl]
  have htake : (pad8Upper ts ++ toHexLower size).take 8 = pad8Upper ts := List.take_left' hpl
  have hdrop : (pad8Upper ts ++ toHexLower size).drop 8 = toHexLower size := List.drop_left' hpl
  simp only [CodeId.toStr]
  unfold CodeId.fromStr
  rw [if_pos (by omega)]
  unfold peFromStr
  rw [if_neg (by omega)]
  simp only [htake, hdrop, fromStrRadix16_toHexLower u32Bound size hsize, fromStrRadix16_pad8Upper ts hts]

theorem codeId_roundtrip_macho (u : List Nat) (hlen : u.length = 16) (hb : IsBytes u) :
    CodeId.fromStr (CodeId.macho u).toStr = some (.macho u) := by
  have hul : (hexUpper u).length = 32 := by rw [hexUpper_length, hlen]
  have hup : isUppercaseHex (hexUpper u) = true := (isUppercaseHex_iff _).2 (hexUpper_chars u hb)
  simp only [CodeId.toStr]
  unfold CodeId.fromStr
  rw [if_neg (by omega), if_pos ⟨hul, hup⟩]
  unfold parseUuid32
  simp [hul, strictPairs_hexUpper u hb]

theorem codeId_roundtrip_elf (b : List Nat) (hb : IsBytes b) (hlen : 9 ≤ b.length)
    (hnot : ¬ (b.length = 16 ∧ DecimalOnly b)) :
    CodeId.fromStr (CodeId.elf b).toStr = some (.elf b) := by
  have hl := hexLower_length b
  simp only [CodeId.toStr]
  unfold CodeId.fromStr
  rw [if_neg (by omega), if_neg]
  · simp [hexPairs_hexLower b hb]
  · rintro ⟨h32, hup⟩
    exact hnot ⟨by omega, decimalOnly_of_isUppercaseHex b hb hup⟩

theorem peFromStr_is_pe (s : Str) (c : CodeId) (h : peFromStr s = some c) : ∃ ts size, c = .pe ts size := by
  unfold peFromStr at h
  split at h
  · simp at h
  · split at h
    · simp at h; exact ⟨_, _, h.symm⟩
    · simp at h

/-- excluded point 1: a build id of at most 8 bytes prints as at most 16 characters and is parsed by the
PE branch: the result is `none` or a `PeCodeId`, never the ELF build id -/
theorem codeId_short_elf (b : List Nat) (hlen : b.length ≤ 8) :
    CodeId.fromStr (CodeId.elf b).toStr = none ∨ ∃ ts size, CodeId.fromStr (CodeId.elf b).toStr = some (.pe ts size) := by
  have hl := hexLower_length b
  simp only [CodeId.toStr]
  unfold CodeId.fromStr
  rw [if_pos (by omega)]
  cases h : peFromStr (hexLower b) with
  | none => exact Or.inl rfl
  | some c =>
    obtain ⟨ts, size, hc⟩ := peFromStr_is_pe _ _ h
    exact Or.inr ⟨ts, size, by rw [hc]⟩

theorem strictPairs_hexLower (bs : List Nat) (hb : IsBytes bs) : strictPairs (hexLower bs) = some bs := by
  induction bs with
  | nil => simp [hexLower, strictPairs]
  | cons b bs ih =>
    have hb1 : b < 256 := hb b (by simp)
    have hbs : IsBytes bs := fun x hx => hb x (by simp [hx])
    rw [hexLower_cons, strictPairs, hexVal_lowerDigit _ (by omega), hexVal_lowerDigit _ (Nat.mod_lt _ (by omega)), ih hbs]
    simp only [Option.some.injEq, List.cons.injEq, and_true]; omega

/-- excluded point 2: a 16-byte build id all of whose hex digits are decimal digits is parsed as a Mach-O
uuid -/
theorem codeId_decimal16_elf (b : List Nat) (hb : IsBytes b) (hlen : b.length = 16) (hdec : DecimalOnly b) :
    CodeId.fromStr (CodeId.elf b).toStr = some (.macho b) := by
  have hl := hexLower_length b
  simp only [CodeId.toStr]
  unfold CodeId.fromStr
  rw [if_neg (by omega), if_pos ⟨by omega, isUppercaseHex_of_decimalOnly b hdec⟩]
  unfold parseUuid32
  rw [if_pos (by omega), strictPairs_hexLower b hb]; rfl

/-! ### association lists -/

theorem find?_insert (m : LibMap) (k k' : MapKey) (v : RLib) :
    (m.insert k v).find? k' = if k = k' then some v else m.find? k' := by
  induction m with
  | nil => simp [LibMap.insert, LibMap.find?]
  | cons kv rest ih =>
    obtain ⟨k0, v0⟩ := kv
    simp only [LibMap.insert]
    by_cases h0 : k0 = k
    · subst h0; simp only [↓reduceIte, LibMap.find?]; by_cases hk : k0 = k' <;> simp [hk]
    · simp only [h0, ↓reduceIte, LibMap.find?]
      by_cases h1 : k0 = k'
      · subst h1; simp [Ne.symm h0]
      · simp [h1, ih]

def dbgKey (v : RLib) : Option MapKey :=
  match v.debugName, v.debugId with
  | some n, some d => some (n, d)
  | _, _ => none

/-- invariant of the reader's map: every value carries its own key, keys are pairwise distinct -/
def MapInv (m : LibMap) : Prop :=
  (∀ kv ∈ m, dbgKey kv.2 = some kv.1) ∧ m.Pairwise (fun a b => a.1 ≠ b.1)

theorem mem_insert (m : LibMap) (k : MapKey) (v : RLib) (kv : MapKey × RLib) (h : kv ∈ m.insert k v) :
    kv = (k, v) ∨ kv ∈ m := by
  induction m with
  | nil => simp [LibMap.insert] at h; exact Or.inl h
  | cons kv0 rest ih =>
    obtain ⟨k0, v0⟩ := kv0
    simp only [LibMap.insert] at h
    by_cases h0 : k0 = k
    · subst h0
      simp only [↓reduceIte, List.mem_cons] at h
      rcases h with h | h
      · exact Or.inl h
      · exact Or.inr (List.mem_cons_of_mem _ h)
    · simp only [h0, ↓reduceIte, List.mem_cons] at h
      rcases h with h | h
      · exact Or.inr (by simp [h])
      · rcases ih h with h' | h'
        · exact Or.inl h'
        · exact Or.inr (List.mem_cons_of_mem _ h')

theorem insert_inv (m : LibMap) (k : MapKey) (v : RLib) (hm : MapInv m) (hv : dbgKey v = some k) :
    MapInv (m.insert k v) := by
  induction m with
  | nil =>
    refine ⟨?_, ?_⟩
    · intro kv h; simp [LibMap.insert] at h; subst h; exact hv
    · simp [LibMap.insert]
  | cons kv0 rest ih =>
    obtain ⟨k0, v0⟩ := kv0
    obtain ⟨hvals, hpw⟩ := hm
    rw [List.pairwise_cons] at hpw
    have hrest : MapInv rest := ⟨fun kv h => hvals kv (List.mem_cons_of_mem _ h), hpw.2⟩
    simp only [LibMap.insert]
    by_cases h0 : k0 = k
    · subst h0
      simp only [↓reduceIte]
      refine ⟨?_, ?_⟩
      · intro kv h
        rcases List.mem_cons.1 h with h | h
        · subst h; exact hv
        · exact hvals kv (List.mem_cons_of_mem _ h)
      · rw [List.pairwise_cons]; exact ⟨hpw.1, hpw.2⟩
    · simp only [h0, ↓reduceIte]
      have ih' := ih hrest
      refine ⟨?_, ?_⟩
      · intro kv h
        rcases List.mem_cons.1 h with h | h
        · subst h; exact hvals _ (by simp)
        · exact ih'.1 kv h
      · rw [List.pairwise_cons]
        refine ⟨?_, ih'.2⟩
        intro kv h
        rcases mem_insert rest k v kv h with h' | h'
        · subst h'; exact h0
        · exact hpw.1 kv h'

theorem find?_of_mem (m : LibMap) (hm : MapInv m) (k : MapKey) (v : RLib) (h : (k, v) ∈ m) :
    m.find? k = some v := by
  induction m with
  | nil => simp at h
  | cons kv0 rest ih =>
    obtain ⟨k0, v0⟩ := kv0
    obtain ⟨hvals, hpw⟩ := hm
    rw [List.pairwise_cons] at hpw
    have hrest : MapInv rest := ⟨fun kv h => hvals kv (List.mem_cons_of_mem _ h), hpw.2⟩
    rcases List.mem_cons.1 h with h | h
    · simp at h; obtain ⟨h1, h2⟩ := h; subst h1; subst h2; simp [LibMap.find?]
    · have hne : k0 ≠ k := hpw.1 (k, v) h
      simp [LibMap.find?, hne, ih hrest h]

theorem mem_of_find? (m : LibMap) (k : MapKey) (v : RLib) (h : m.find? k = some v) : (k, v) ∈ m := by
  induction m with
  | nil => simp [LibMap.find?] at h
  | cons kv0 rest ih =>
    obtain ⟨k0, v0⟩ := kv0
    simp only [LibMap.find?] at h
    by_cases h0 : k0 = k
    · subst h0; simp at h; subst h; simp
    · simp only [h0, ↓reduceIte] at h; exact List.mem_cons_of_mem _ (ih h)

/-! ### the reader on the writer's output -/

/-- the deserialized form of a written library -/
def jlibOf (l : LibInfo) : JLib :=
  ⟨some l.debugName, some l.debugPath, some l.name, some l.path, some l.debugId.toBreakpad, l.codeId, l.arch⟩

theorem parseLib_serializeLib (l : LibInfo) : parseLib (serializeLib l) = some (jlibOf l) := by
  obtain ⟨n, dn, p, dp, id, c, a⟩ := l
  cases c <;> cases a <;> rfl

theorem parseLibs_map (ls : List LibInfo) : parseLibs (ls.map serializeLib) = some (ls.map jlibOf) := by
  induction ls with
  | nil => rfl
  | cons l ls ih => simp [parseLibs, parseLib_serializeLib, ih]

theorem flatten_replicate_nil (n : Nat) : (List.replicate n ([] : List JObj)).flatten = [] := by
  induction n with
  | zero => rfl
  | succ n ih => simp [List.replicate_succ, ih]

theorem collect_serializeProfile (p : Profile) :
    collect (serializeProfile p) = some (p.usedLibs.map jlibOf) := by
  unfold serializeProfile
  rw [collect, parseLibs_map, flatten_replicate_nil]
  simp [parseLibs, collectAll]

theorem entry_jlibOf (l : LibInfo) (h : l.debugId.WF) : libinfoMapEntryForLib (jlibOf l) = some l.view := by
  have hb : DebugId.fromBreakpad l.debugId.toBreakpad = some l.debugId := by
    cases hd : l.debugId with
    | uuid bs age =>
      rw [hd] at h; obtain ⟨h1, h2, h3⟩ := h
      exact fromBreakpad_toBreakpad_uuid bs age h1 h2 h3
    | pdb20 ts age =>
      rw [hd] at h; obtain ⟨h1, h2⟩ := h
      exact fromBreakpad_toBreakpad_pdb20 ts age h1 h2
  unfold libinfoMapEntryForLib jlibOf LibInfo.view
  simp [hb]

theorem dbgKey_view (l : LibInfo) : dbgKey l.view = some l.key := rfl

/-- the last library of the list that has key `k` -/
def lastWith (k : MapKey) : List LibInfo → Option LibInfo
  | [] => none
  | l :: ls =>
    match lastWith k ls with
    | some x => some x
    | none => if l.key = k then some l else none

theorem addLibs_find? (ls : List LibInfo) (hwf : ∀ l ∈ ls, l.debugId.WF) (m : LibMap) (k : MapKey) :
    (addLibs m (ls.map jlibOf)).find? k =
      match lastWith k ls with
      | some l => some l.view
      | none => m.find? k := by
  induction ls generalizing m with
  | nil => simp [addLibs, lastWith]
  | cons l ls ih =>
    have hl : l.debugId.WF := hwf l (by simp)
    have hls : ∀ x ∈ ls, x.debugId.WF := fun x hx => hwf x (by simp [hx])
    simp only [List.map_cons, addLibs, entry_jlibOf l hl]
    have : (l.view.debugName, l.view.debugId) = (some l.debugName, some l.debugId) := rfl
    simp only [LibInfo.view]
    rw [ih hls]
    simp only [lastWith]
    cases hlast : lastWith k ls with
    | some x => rfl
    | none =>
      simp only [find?_insert]
      by_cases hk : l.key = k
      · have : (l.debugName, l.debugId) = k := hk
        simp [hk, this]
      · have : ¬ (l.debugName, l.debugId) = k := hk
        simp [hk, this]

theorem addLibs_inv (ls : List LibInfo) (hwf : ∀ l ∈ ls, l.debugId.WF) (m : LibMap) (hm : MapInv m) :
    MapInv (addLibs m (ls.map jlibOf)) := by
  induction ls generalizing m with
  | nil => simpa [addLibs] using hm
  | cons l ls ih =>
    have hl : l.debugId.WF := hwf l (by simp)
    have hls : ∀ x ∈ ls, x.debugId.WF := fun x hx => hwf x (by simp [hx])
    simp only [List.map_cons, addLibs, entry_jlibOf l hl]
    simp only [LibInfo.view]
    exact ih hls _ (insert_inv m _ _ hm rfl)

theorem lastWith_some_of_mem (k : MapKey) (ls : List LibInfo) (l : LibInfo) (hl : l ∈ ls) (hk : l.key = k) :
    ∃ l', lastWith k ls = some l' := by
  induction ls with
  | nil => simp at hl
  | cons x xs ih =>
    simp only [lastWith]
    cases hlast : lastWith k xs with
    | some y => exact ⟨y, rfl⟩
    | none =>
      rcases List.mem_cons.1 hl with h | h
      · subst h; simp [hk]
      · obtain ⟨y, hy⟩ := ih h; rw [hlast] at hy; simp at hy

theorem lastWith_mem (k : MapKey) (ls : List LibInfo) (l' : LibInfo) (h : lastWith k ls = some l') :
    l' ∈ ls ∧ l'.key = k := by
  induction ls with
  | nil => simp [lastWith] at h
  | cons x xs ih =>
    simp only [lastWith] at h
    cases hlast : lastWith k xs with
    | some y =>
      rw [hlast] at h; simp at h; subst h
      have := ih hlast
      exact ⟨List.mem_cons_of_mem _ this.1, this.2⟩
    | none =>
      rw [hlast] at h
      by_cases hk : x.key = k
      · simp [hk] at h; subst h; exact ⟨by simp, hk⟩
      · simp [hk] at h

/-- libraries with pairwise distinct keys: a key determines the library -/
def KeysDistinct (ls : List LibInfo) : Prop := ls.Pairwise (fun a b => a.key ≠ b.key)

theorem eq_of_key_eq (ls : List LibInfo) (hd : KeysDistinct ls) (a b : LibInfo) (ha : a ∈ ls) (hb : b ∈ ls)
    (hk : a.key = b.key) : a = b := by
  induction ls with
  | nil => simp at ha
  | cons x xs ih =>
    unfold KeysDistinct at hd
    rw [List.pairwise_cons] at hd
    rcases List.mem_cons.1 ha with ha1 | ha1
    · rcases List.mem_cons.1 hb with hb1 | hb1
      · rw [ha1, hb1]
      · rw [ha1] at hk; exact absurd hk (hd.1 b hb1)
    · rcases List.mem_cons.1 hb with hb1 | hb1
      · rw [hb1] at hk; exact absurd hk.symm (hd.1 a ha1)
      · exact ih hd.2 ha1 hb1

/-! ### known libraries -/

theorem absorb_path_of_none (a b : RLib) (h : a.path = none) : (a.absorb b).path = b.path := by
  simp [RLib.absorb, h]

theorem absorb_path_of_some (a b : RLib) (p : Str) (h : a.path = some p) : (a.absorb b).path = some p := by
  simp [RLib.absorb, h]

theorem assocInsert_eq_insert (m : LibMap) (k : MapKey) (v : RLib) : assocInsert m k v = m.insert k v := by
  induction m with
  | nil => rfl
  | cons kv rest ih => obtain ⟨k0, v0⟩ := kv; simp [assocInsert, LibMap.insert, ih]

theorem addCode_byDebug (k : KnownLibs) (l : RLib) : (k.addCode l).byDebug = k.byDebug := by
  unfold KnownLibs.addCode; split <;> rfl

theorem add_byDebug (k : KnownLibs) (l : RLib) :
    (k.add l).byDebug = match dbgKey l with
      | some key => k.byDebug.insert key l
      | none => k.byDebug := by
  unfold KnownLibs.add
  rw [addCode_byDebug]
  unfold KnownLibs.addDebug dbgKey
  split <;> simp_all

/-- the last element of the list that carries key `key` -/
def lastKnown (key : MapKey) : List RLib → Option RLib
  | [] => none
  | v :: vs =>
    match lastKnown key vs with
    | some x => some x
    | none => if dbgKey v = some key then some v else none

theorem foldl_add_byDebug (vs : List RLib) (k : KnownLibs) (key : MapKey) :
    (vs.foldl (fun k v => k.add v) k).byDebug.find? key =
      match lastKnown key vs with
      | some v => some v
      | none => k.byDebug.find? key := by
  induction vs generalizing k with
  | nil => simp [lastKnown]
  | cons v vs ih =>
    simp only [List.foldl_cons, lastKnown]
    rw [ih]
    cases hlast : lastKnown key vs with
    | some x => rfl
    | none =>
      rw [add_byDebug]
      cases hk : dbgKey v with
      | none => simp
      | some key' =>
        simp only [find?_insert]
        by_cases h : key' = key
        · subst h; simp
        · simp [h]

theorem lastKnown_unique (key : MapKey) (vs : List RLib) (v0 : RLib) (hmem : v0 ∈ vs) (hk : dbgKey v0 = some key)
    (huniq : ∀ v ∈ vs, dbgKey v = some key → v = v0) : lastKnown key vs = some v0 := by
  induction vs with
  | nil => simp at hmem
  | cons x xs ih =>
    simp only [lastKnown]
    cases hlast : lastKnown key xs with
    | some y =>
      -- y is a member of xs with the key, hence equal to v0
      have hy : y ∈ xs ∧ dbgKey y = some key := by
        clear ih hmem huniq
        induction xs with
        | nil => simp [lastKnown] at hlast
        | cons z zs ihz =>
          simp only [lastKnown] at hlast
          cases hl2 : lastKnown key zs with
          | some w =>
            rw [hl2] at hlast; simp at hlast; subst hlast
            have := ihz hl2
            exact ⟨List.mem_cons_of_mem _ this.1, this.2⟩
          | none =>
            rw [hl2] at hlast
            by_cases hz : dbgKey z = some key
            · simp [hz] at hlast; subst hlast; exact ⟨by simp, hz⟩
            · simp [hz] at hlast
      have := huniq y (List.mem_cons_of_mem _ hy.1) hy.2
      simp [this]
    | none =>
      rcases List.mem_cons.1 hmem with h | h
      · subst h; simp [hk]
      · have := ih h (fun v hv => huniq v (List.mem_cons_of_mem _ hv))
        rw [hlast] at this; simp at this

theorem fillCode_path (k : KnownLibs) (info : RLib) (p : Str) (h : info.path = some p) :
    (fillCode k info).path = some p := by
  unfold fillCode
  cases lookupCode k info with
  | none => exact h
  | some known => exact absorb_path_of_some _ _ p h

theorem fillCode_name (k : KnownLibs) (info : RLib) (n : Str) (h : info.name = some n) :
    (fillCode k info).name = some n := by
  unfold fillCode
  cases lookupCode k info with
  | none => exact h
  | some known => simp [absorbOpt, RLib.absorb, h]

/-- the `by_debug` table built from any list of values in which `v0` is the only value with key `key` -/
theorem ofValues_byDebug (vs : List RLib) (key : MapKey) (v0 : RLib) (hmem : v0 ∈ vs) (hk : dbgKey v0 = some key)
    (huniq : ∀ v ∈ vs, dbgKey v = some key → v = v0) :
    (KnownLibs.ofValues vs).byDebug.find? key = some v0 := by
  unfold KnownLibs.ofValues
  rw [foldl_add_byDebug, lastKnown_unique key vs v0 hmem hk huniq]

/-- what the server knows after `samply load`: for every permutation of the map's values, the `by_debug`
table answers a key exactly like the reader's map -/
theorem known_of_map (m : LibMap) (hm : MapInv m) (vs : List RLib) (hperm : vs.Perm (m.map (·.2)))
    (key : MapKey) (v0 : RLib) (hfind : m.find? key = some v0) :
    (KnownLibs.ofValues vs).byDebug.find? key = some v0 := by
  have hin : (key, v0) ∈ m := mem_of_find? m key v0 hfind
  apply ofValues_byDebug
  · exact hperm.mem_iff.2 (List.mem_map.2 ⟨(key, v0), hin, rfl⟩)
  · exact hm.1 _ hin
  · intro v hv hkv
    obtain ⟨⟨k', v'⟩, hkv', hvv⟩ := List.mem_map.1 (hperm.mem_iff.1 hv)
    simp only at hvv; subst hvv
    have h1 := hm.1 _ hkv'
    simp only at h1
    rw [hkv] at h1
    have hkk : key = k' := Option.some.inj h1
    subst hkk
    have := find?_of_mem m hm key v' hkv'
    rw [hfind] at this
    exact (Option.some.inj this).symm

theorem fillIn_request (k : KnownLibs) (dn : Str) (d : DebugId) (known : RLib)
    (h : k.byDebug.find? (dn, d) = some known) (p : Str) (hp : known.path = some p) :
    (fillIn k (requestFor dn d)).path = some p := by
  unfold fillIn
  apply fillCode_path
  unfold fillDebug requestFor
  simp only [h]
  rw [absorb_path_of_none _ _ rfl]; exact hp

/-! ### the completed library info of a request that names a known library -/

/-- `fillCode` on an info whose identity fields are all present only ever fills `arch` -/
theorem fillCode_full (k : KnownLibs) (v : RLib) (dn : Str) (d : DebugId) (dp n p : Str)
    (h1 : v.debugName = some dn) (h2 : v.debugId = some d) (h3 : v.debugPath = some dp) (h4 : v.name = some n)
    (h5 : v.path = some p) : ∃ a, fillCode k v = { v with arch := a } := by
  obtain ⟨vdn, vd, vdp, vn, vc, vp, va⟩ := v
  simp only at h1 h2 h3 h4 h5
  subst h1 h2 h3 h4 h5
  unfold fillCode
  cases hl : lookupCode k _ with
  | none => exact ⟨va, rfl⟩
  | some known =>
    cases vc with
    | none => simp [lookupCode] at hl
    | some c => exact ⟨va.orElse fun _ => known.arch, by simp [absorbOpt, RLib.absorb]⟩

theorem fillDebug_request (k : KnownLibs) (l : LibInfo)
    (h : k.byDebug.find? (l.debugName, l.debugId) = some l.view) :
    fillDebug k (requestFor l.debugName l.debugId) = l.view := by
  unfold fillDebug requestFor
  simp only [h]
  simp [RLib.absorb, RLib.empty, LibInfo.view]

theorem debugCandsOf_arch (v : RLib) (a : Option Str) : debugCandsOf { v with arch := a } = debugCandsOf v := rfl

theorem candidatesForDebugFile_known (k : KnownLibs) (l : LibInfo)
    (h : k.byDebug.find? (l.debugName, l.debugId) = some l.view) :
    candidatesForDebugFile k (requestFor l.debugName l.debugId) = debugCandsOf l.view := by
  unfold candidatesForDebugFile fillIn
  rw [fillDebug_request k l h]
  obtain ⟨a, ha⟩ := fillCode_full k l.view l.debugName l.debugId l.debugPath l.name l.path rfl rfl rfl rfl rfl
  rw [ha, debugCandsOf_arch]

/-! ### first accepted candidate -/

theorem firstAccepted_append_of_none (fs : FsView) (d : DebugId) (pre post : List Cand)
    (h : ∀ c ∈ pre, fs c ≠ some d) : firstAccepted fs d (pre ++ post) = firstAccepted fs d post := by
  unfold firstAccepted
  rw [List.find?_append]
  have : pre.find? (fun c => fs c == some d) = none := by
    rw [List.find?_eq_none]; intro c hc; simpa using h c hc
  rw [this]; rfl

theorem firstAccepted_cases (fs : FsView) (d : DebugId) (pre : List Cand) (x : Cand) (post : List Cand)
    (hx : fs x = some d) :
    ∃ c, firstAccepted fs d (pre ++ [x] ++ post) = some c ∧ fs c = some d ∧ (c = x ∨ c ∈ pre) := by
  unfold firstAccepted
  rw [List.append_assoc, List.find?_append]
  cases hp : pre.find? (fun c => fs c == some d) with
  | some c =>
    refine ⟨c, rfl, ?_, Or.inr (List.mem_of_find?_eq_some hp)⟩
    have := List.find?_some hp; simpa using this
  | none =>
    refine ⟨x, ?_, hx, Or.inl rfl⟩
    simp [hx]

/-! ### key names -/

theorem camelCase_readerField (k : Key) : camelCase k.readerField = k.writerText := by
  cases k <;> decide

theorem ofText_writerText (k : Key) : Key.ofText k.writerText = some k := by
  cases k <;> decide

theorem ofText_eq_some (s : Str) (k : Key) (h : Key.ofText s = some k) : s = k.writerText := by
  unfold Key.ofText at h
  have := List.find?_some h
  rw [← camelCase_readerField]; have h2 : camelCase k.readerField = s := by simpa using this
  exact h2.symm

theorem resolveObj_serializeLibText (l : LibInfo) : resolveObj (serializeLibText l) = serializeLib l := by
  simp [resolveObj, serializeLibText, serializeLib, ofText_writerText]

theorem resolve_serializeProfileText (p : Profile) :
    (serializeProfileText p).resolve = serializeProfile p := by
  have h1 : ∀ ls : List LibInfo, (ls.map serializeLibText).map resolveObj = ls.map serializeLib := by
    intro ls; rw [List.map_map]; apply List.map_congr_left; intro l _; exact resolveObj_serializeLibText l
  have h2 : ∀ n : Nat, (List.replicate n ([] : List TObj)).map (·.map resolveObj) = List.replicate n [] := by
    intro n; simp
  unfold serializeProfileText serializeProfile
  simp only [TDoc.resolve, TDoc.resolveAll, h1, h2]

/-! ### the converter's identity -/

theorem fromIdentifierLE_wf (id : List Nat) (h : IsBytes id) : (DebugId.fromIdentifierLE id).WF := by
  unfold DebugId.fromIdentifierLE
  have hb : IsBytes (id.take 16 ++ List.replicate (16 - (id.take 16).length) 0) := by
    intro b hb
    rcases List.mem_append.1 hb with h1 | h1
    · exact h b (List.mem_of_mem_take h1)
    · have := List.eq_of_mem_replicate h1; omega
  generalize id.take 16 ++ List.replicate (16 - (id.take 16).length) 0 = d at hb
  simp only
  split
  · rename_i a0 a1 a2 a3 a4 a5 a6 a7 a8 a9 a10 a11 a12 a13 a14 a15
    refine ⟨rfl, ?_, by decide⟩
    intro b hb'
    have hall : ∀ x ∈ [a0, a1, a2, a3, a4, a5, a6, a7, a8, a9, a10, a11, a12, a13, a14, a15], x < 256 := hb
    simp only [List.mem_cons, List.not_mem_nil, or_false] at hb' hall
    rcases hb' with h | h | h | h | h | h | h | h | h | h | h | h | h | h | h | h <;> subst h <;>
      (apply hall; simp)
  · exact ⟨by decide, by decide, by decide⟩

end LI
