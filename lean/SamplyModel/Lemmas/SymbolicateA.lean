import SamplyModel.Model.Symbolicate
/-!
Helper lemmas for C07, part A: association lists, the `BTreeMap` stand-in, `gather_requested_addresses`.
-/
namespace Sym

/-! ### association lists -/

section Assoc
variable {κ α : Type} [DecidableEq κ]

theorem alookup_hinsert (m : List (κ × α)) (k : κ) (v : α) (x : κ) :
    alookup (hinsert m k v) x = if k = x then some v else alookup m x := by
  induction m with
  | nil => simp [hinsert, alookup]
  | cons p rest ih =>
    obtain ⟨k', w⟩ := p
    by_cases h : k' = k
    · subst h
      by_cases hx : k' = x <;> simp [hinsert, alookup, hx]
    · by_cases hx : k' = x
      · subst hx
        have : ¬ k = k' := fun h2 => h h2.symm
        simp [hinsert, alookup, h, this]
      · simp [hinsert, alookup, h, hx, ih]

theorem alookup_mem {m : List (κ × α)} {k : κ} {v : α} (h : alookup m k = some v) : (k, v) ∈ m := by
  induction m with
  | nil => simp [alookup] at h
  | cons p rest ih =>
    obtain ⟨k', w⟩ := p
    by_cases hk : k' = k
    · simp [alookup, hk] at h
      subst hk; subst h; exact List.mem_cons_self
    · simp [alookup, hk] at h
      exact List.mem_cons_of_mem _ (ih h)

theorem alookup_ne_none_of_mem {m : List (κ × α)} {k : κ} {v : α} (h : (k, v) ∈ m) : alookup m k ≠ none := by
  induction m with
  | nil => simp at h
  | cons p rest ih =>
    obtain ⟨k', w⟩ := p
    by_cases hk : k' = k
    · simp [alookup, hk]
    · simp only [alookup, hk, if_false]
      rcases List.mem_cons.mp h with h1 | h1
      · exact absurd (congrArg Prod.fst h1).symm hk
      · exact ih h1

end Assoc

/-! ### `extendAt`: the `entry().or_default().extend()` tables -/

section Extend
variable {κ : Type} [DecidableEq κ]

/-- address `a` is recorded under key `k` -/
def Has (m : List (κ × List Nat)) (k : κ) (a : Nat) : Prop := ∃ vs, alookup m k = some vs ∧ a ∈ vs

/-- every recorded (key, address) pair satisfies `P` -/
def AllPairs (m : List (κ × List Nat)) (P : κ → Nat → Prop) : Prop := ∀ g ∈ m, ∀ a ∈ g.2, P g.1 a

/-- no key has an empty address list -/
def NonEmptyVals (m : List (κ × List Nat)) : Prop := ∀ g ∈ m, g.2 ≠ []

theorem alookup_extendAt (m : List (κ × List Nat)) (k : κ) (vs : List Nat) (x : κ) :
    alookup (extendAt m k vs) x =
      if k = x then some ((match alookup m k with | some w => w | none => []) ++ vs) else alookup m x := by
  induction m with
  | nil => by_cases h : k = x <;> simp [extendAt, alookup, h]
  | cons p rest ih =>
    obtain ⟨k', w⟩ := p
    by_cases h : k' = k
    · subst h
      by_cases hx : k' = x <;> simp [extendAt, alookup, hx]
    · by_cases hx : k' = x
      · subst hx
        have : ¬ k = k' := fun h2 => h h2.symm
        simp [extendAt, alookup, h, this]
      · simp only [extendAt, h, if_false, alookup, hx, ih]

theorem has_extendAt (m : List (κ × List Nat)) (k : κ) (vs : List Nat) (x : κ) (a : Nat) :
    Has (extendAt m k vs) x a ↔ Has m x a ∨ (k = x ∧ a ∈ vs) := by
  unfold Has
  rw [alookup_extendAt]
  by_cases h : k = x
  · subst h
    simp only [if_true, true_and]
    cases hm : alookup m k with
    | none => simp
    | some w =>
      simp only [Option.some.injEq]
      constructor
      · rintro ⟨vs', rfl, ha⟩
        rcases List.mem_append.mp ha with h1 | h1
        · exact Or.inl ⟨w, rfl, h1⟩
        · exact Or.inr h1
      · rintro (⟨w', rfl, h1⟩ | h1)
        · exact ⟨_, rfl, List.mem_append_left _ h1⟩
        · exact ⟨_, rfl, List.mem_append_right _ h1⟩
  · simp [h]

theorem allPairs_extendAt {m : List (κ × List Nat)} {P : κ → Nat → Prop} (k : κ) (vs : List Nat)
    (hm : AllPairs m P) (hv : ∀ a ∈ vs, P k a) : AllPairs (extendAt m k vs) P := by
  induction m with
  | nil =>
    intro g hg a ha
    simp only [extendAt, List.mem_singleton] at hg
    subst hg; exact hv a ha
  | cons p rest ih =>
    obtain ⟨k', w⟩ := p
    have hrest : AllPairs rest P := fun g hg => hm g (List.mem_cons_of_mem _ hg)
    by_cases h : k' = k
    · subst h
      intro g hg a ha
      simp only [extendAt, if_true, List.mem_cons] at hg
      rcases hg with rfl | hg
      · rcases List.mem_append.mp ha with h1 | h1
        · exact hm (k', w) List.mem_cons_self a h1
        · exact hv a h1
      · exact hrest g hg a ha
    · intro g hg a ha
      simp only [extendAt, h, if_false, List.mem_cons] at hg
      rcases hg with rfl | hg
      · exact hm (k', w) List.mem_cons_self a ha
      · exact ih hrest g hg a ha

theorem nonEmptyVals_extendAt {m : List (κ × List Nat)} (k : κ) (vs : List Nat)
    (hm : NonEmptyVals m) (hv : vs ≠ []) : NonEmptyVals (extendAt m k vs) := by
  induction m with
  | nil =>
    intro g hg
    simp only [extendAt, List.mem_singleton] at hg
    subst hg; exact hv
  | cons p rest ih =>
    obtain ⟨k', w⟩ := p
    have hrest : NonEmptyVals rest := fun g hg => hm g (List.mem_cons_of_mem _ hg)
    by_cases h : k' = k
    · subst h
      intro g hg
      simp only [extendAt, if_true, List.mem_cons] at hg
      rcases hg with rfl | hg
      · simp [hv]
      · exact hrest g hg
    · intro g hg
      simp only [extendAt, h, if_false, List.mem_cons] at hg
      rcases hg with rfl | hg
      · exact hm (k', w) List.mem_cons_self
      · exact ih hrest g hg

end Extend

/-! ### the `BTreeMap<u32, Option<AddressResult>>` stand-in -/

theorem btGet_btInsert (m : AddressResults) (k : Nat) (v : Option AddressResult) (x : Nat) :
    btGet (btInsert m k v) x = if k = x then some v else btGet m x := by
  unfold btGet
  induction m with
  | nil => simp [btInsert, alookup]
  | cons p rest ih =>
    obtain ⟨k', v'⟩ := p
    by_cases h1 : k < k'
    · simp only [btInsert, h1, if_true, alookup]
    · by_cases h2 : k = k'
      · subst h2
        by_cases hx : k = x <;> simp [btInsert, alookup, hx]
      · simp only [btInsert, h1, h2, if_false, alookup]
        by_cases hx : k' = x
        · have : ¬ k = x := by intro h3; exact h2 (by rw [h3, hx])
          simp [hx, this]
        · simp [hx, ih]

theorem btGet_forAddresses_aux (addrs : List Nat) (m : AddressResults) (x : Nat) :
    btGet (addrs.foldl (fun m a => btInsert m a none) m) x = if x ∈ addrs then some none else btGet m x := by
  induction addrs generalizing m with
  | nil => simp
  | cons a rest ih =>
    simp only [List.foldl_cons, ih, btGet_btInsert, List.mem_cons]
    by_cases h1 : x ∈ rest
    · simp [h1]
    · by_cases h2 : a = x
      · simp [h2]
      · have : ¬ x = a := fun h => h2 h.symm
        simp [h1, h2, this]

theorem btGet_forAddresses (addrs : List Nat) (x : Nat) :
    btGet (forAddresses addrs) x = if x ∈ addrs then some none else none := by
  unfold forAddresses
  rw [btGet_forAddresses_aux]
  simp [btGet, alookup]

theorem btModify_none_iff (m : AddressResults) (k : Nat) (f : Option AddressResult → Option AddressResult) :
    btModify m k f = none ↔ btGet m k = none := by
  unfold btGet
  induction m with
  | nil => simp [btModify, alookup]
  | cons p rest ih =>
    obtain ⟨k', v'⟩ := p
    by_cases h : k' = k
    · simp [btModify, alookup, h]
    · simp only [btModify, h, if_false, alookup]
      cases hr : btModify rest k f with
      | none => simpa [hr] using ih
      | some r => simp only [reduceCtorEq, false_iff]; rw [hr] at ih; simpa using ih

theorem btGet_btModify {m m' : AddressResults} {k : Nat} {f : Option AddressResult → Option AddressResult}
    (h : btModify m k f = some m') (x : Nat) :
    btGet m' x = if k = x then (btGet m k).map f else btGet m x := by
  unfold btGet
  induction m generalizing m' with
  | nil => simp [btModify] at h
  | cons p rest ih =>
    obtain ⟨k', v'⟩ := p
    by_cases hk : k' = k
    · simp only [btModify, hk, if_true, Option.some.injEq] at h
      subst h; subst hk
      by_cases hx : k' = x <;> simp [alookup, hx]
    · simp only [btModify, hk, if_false] at h
      cases hr : btModify rest k f with
      | none => simp [hr] at h
      | some r =>
        simp only [hr, Option.some.injEq] at h
        subst h
        have := ih hr
        by_cases hx : k' = x
        · have : ¬ k = x := by intro h3; exact hk (by rw [hx, h3])
          simp [alookup, hx, this]
        · simp only [alookup, hx, if_false, hk]
          exact this

/-- keys of the table (the `BTreeMap` invariant is that they are strictly increasing) -/
def keysSorted (m : AddressResults) : Prop := (m.map Prod.fst).Pairwise (· < ·)

theorem btInsert_keys_mem (m : AddressResults) (k : Nat) (v : Option AddressResult) (x : Nat) :
    x ∈ (btInsert m k v).map Prod.fst ↔ x = k ∨ x ∈ m.map Prod.fst := by
  induction m with
  | nil => simp [btInsert]
  | cons p rest ih =>
    obtain ⟨k', v'⟩ := p
    by_cases h1 : k < k'
    · simp [btInsert, h1]
    · by_cases h2 : k = k'
      · subst h2; simp [btInsert]
      · simp only [btInsert, h1, h2, if_false, List.map_cons, List.mem_cons, ih]
        constructor
        · rintro (h | h | h)
          · exact Or.inr (Or.inl h)
          · exact Or.inl h
          · exact Or.inr (Or.inr h)
        · rintro (h | h | h)
          · exact Or.inr (Or.inl h)
          · exact Or.inl h
          · exact Or.inr (Or.inr h)

theorem keysSorted_btInsert (m : AddressResults) (k : Nat) (v : Option AddressResult) (h : keysSorted m) :
    keysSorted (btInsert m k v) := by
  unfold keysSorted at *
  induction m with
  | nil => simp [btInsert]
  | cons p rest ih =>
    obtain ⟨k', v'⟩ := p
    simp only [List.map_cons, List.pairwise_cons] at h
    by_cases h1 : k < k'
    · simp only [btInsert, h1, if_true, List.map_cons, List.pairwise_cons, List.mem_cons]
      refine ⟨?_, h.1, h.2⟩
      rintro y (rfl | hy)
      · exact h1
      · exact Nat.lt_trans h1 (h.1 y hy)
    · by_cases h2 : k = k'
      · subst h2
        simp only [btInsert, Nat.lt_irrefl, if_false, if_true, List.map_cons, List.pairwise_cons]
        exact h
      · simp only [btInsert, h1, h2, if_false, List.map_cons, List.pairwise_cons]
        refine ⟨?_, ih h.2⟩
        intro y hy
        rcases (btInsert_keys_mem rest k v y).mp hy with rfl | hy
        · omega
        · exact h.1 y hy

theorem keysSorted_forAddresses (addrs : List Nat) : keysSorted (forAddresses addrs) := by
  unfold forAddresses
  suffices ∀ m, keysSorted m → keysSorted (addrs.foldl (fun m a => btInsert m a none) m) from
    this [] (by simp [keysSorted])
  induction addrs with
  | nil => intro m h; exact h
  | cons a rest ih => intro m h; exact ih _ (keysSorted_btInsert m a none h)

theorem btModify_keys {m m' : AddressResults} {k : Nat} {f : Option AddressResult → Option AddressResult}
    (h : btModify m k f = some m') : m'.map Prod.fst = m.map Prod.fst := by
  induction m generalizing m' with
  | nil => simp [btModify] at h
  | cons p rest ih =>
    obtain ⟨k', v'⟩ := p
    by_cases hk : k' = k
    · subst hk
      simp only [btModify, if_true, Option.some.injEq] at h
      subst h; simp
    · simp only [btModify, hk, if_false] at h
      cases hr : btModify rest k f with
      | none => simp [hr] at h
      | some r =>
        simp only [hr, Option.some.injEq] at h
        subst h
        simp [ih hr]

/-! ### `Vec::dedup` and the sort keep exactly the requested addresses -/

theorem mem_dedupAdj (l : List Nat) (x : Nat) : x ∈ dedupAdj l ↔ x ∈ l := by
  fun_induction dedupAdj l <;> simp_all

theorem mem_insertNat (y : Nat) (l : List Nat) (x : Nat) : x ∈ insertNat y l ↔ x = y ∨ x ∈ l := by
  induction l with
  | nil => simp [insertNat]
  | cons z rest ih =>
    by_cases h : y ≤ z
    · simp [insertNat, h]
    · simp only [insertNat, h, if_false, List.mem_cons, ih]
      constructor
      · rintro (h1 | h1 | h1)
        · exact Or.inr (Or.inl h1)
        · exact Or.inl h1
        · exact Or.inr (Or.inr h1)
      · rintro (h1 | h1 | h1)
        · exact Or.inr (Or.inl h1)
        · exact Or.inl h1
        · exact Or.inr (Or.inr h1)

theorem mem_sortNat (l : List Nat) (x : Nat) : x ∈ sortNat l ↔ x ∈ l := by
  induction l with
  | nil => simp [sortNat]
  | cons y rest ih => simp [sortNat, mem_insertNat, ih]

theorem sorted_insertNat (y : Nat) (l : List Nat) (h : l.Pairwise (· ≤ ·)) :
    (insertNat y l).Pairwise (· ≤ ·) := by
  induction l with
  | nil => simp [insertNat]
  | cons z rest ih =>
    simp only [List.pairwise_cons] at h
    by_cases hyz : y ≤ z
    · simp only [insertNat, hyz, if_true, List.pairwise_cons, List.mem_cons]
      refine ⟨?_, h.1, h.2⟩
      rintro w (rfl | hw)
      · exact hyz
      · exact Nat.le_trans hyz (h.1 w hw)
    · simp only [insertNat, hyz, if_false, List.pairwise_cons]
      refine ⟨?_, ih h.2⟩
      intro w hw
      rcases (mem_insertNat y rest w).mp hw with rfl | hw
      · omega
      · exact h.1 w hw

/-- `sortNat` sorts (so it is *the* sorted rearrangement `sort_unstable` produces) -/
theorem sorted_sortNat (l : List Nat) : (sortNat l).Pairwise (· ≤ ·) := by
  induction l with
  | nil => simp [sortNat]
  | cons y rest ih => exact sorted_insertNat y _ ih

/-- after the sort, `dedup` leaves a strictly increasing list -/
theorem strictSorted_dedupAdj (l : List Nat) (h : l.Pairwise (· ≤ ·)) : (dedupAdj l).Pairwise (· < ·) := by
  fun_induction dedupAdj l with
  | case1 => simp
  | case2 a => simp
  | case3 a rest ih =>
    exact ih (List.pairwise_cons.mp h).2
  | case4 a b rest hab ih =>
    obtain ⟨h1, h2⟩ := List.pairwise_cons.mp h
    obtain ⟨h3, _⟩ := List.pairwise_cons.mp h2
    rw [List.pairwise_cons]
    refine ⟨?_, ih h2⟩
    intro y hy
    rw [mem_dedupAdj] at hy
    have hab' : a < b := by
      have := h1 b List.mem_cons_self
      omega
    rcases List.mem_cons.mp hy with rfl | hy
    · exact hab'
    · have := h3 y hy
      omega

theorem mem_sortDedup (l : List Nat) (x : Nat) :
    x ∈ dedupAdj (sortNat l) ↔ x ∈ l := by
  rw [mem_dedupAdj, mem_sortNat]

/-! ### `gather_requested_addresses` -/

theorem has_groupStack (m : List (Nat × List Nat)) (st : List ReqFrame) (idx a : Nat) :
    Has (groupStack m st) idx a ↔ Has m idx a ∨ ∃ fr ∈ st, fr.moduleIndex = idx ∧ fr.address = a := by
  induction st generalizing m with
  | nil => simp [groupStack]
  | cons fr rest ih =>
    simp only [groupStack, ih, has_extendAt, List.mem_cons, List.not_mem_nil, or_false]
    constructor
    · rintro ((h | ⟨h1, h2⟩) | ⟨fr', h1, h2⟩)
      · exact Or.inl h
      · exact Or.inr ⟨fr, Or.inl rfl, h1, h2.symm⟩
      · exact Or.inr ⟨fr', Or.inr h1, h2⟩
    · rintro (h | ⟨fr', rfl | h1, h2⟩)
      · exact Or.inl (Or.inl h)
      · exact Or.inl (Or.inr ⟨h2.1, h2.2.symm⟩)
      · exact Or.inr ⟨fr', h1, h2⟩

theorem has_groupStacks (m : List (Nat × List Nat)) (sts : List (List ReqFrame)) (idx a : Nat) :
    Has (groupStacks m sts) idx a ↔
      Has m idx a ∨ ∃ st ∈ sts, ∃ fr ∈ st, fr.moduleIndex = idx ∧ fr.address = a := by
  induction sts generalizing m with
  | nil => simp [groupStacks]
  | cons st rest ih =>
    simp only [groupStacks, ih, has_groupStack, List.mem_cons]
    constructor
    · rintro ((h | h) | ⟨st', h1, h2⟩)
      · exact Or.inl h
      · exact Or.inr ⟨st, Or.inl rfl, h⟩
      · exact Or.inr ⟨st', Or.inr h1, h2⟩
    · rintro (h | ⟨st', rfl | h1, h2⟩)
      · exact Or.inl (Or.inl h)
      · exact Or.inl (Or.inr h2)
      · exact Or.inr ⟨st', h1, h2⟩

theorem allPairs_groupStack {m : List (Nat × List Nat)} {P : Nat → Nat → Prop} (st : List ReqFrame)
    (hm : AllPairs m P) (hs : ∀ fr ∈ st, P fr.moduleIndex fr.address) : AllPairs (groupStack m st) P := by
  induction st generalizing m with
  | nil => exact hm
  | cons fr rest ih =>
    simp only [groupStack]
    apply ih
    · apply allPairs_extendAt _ _ hm
      intro a ha
      simp only [List.mem_singleton] at ha
      subst ha
      exact hs fr List.mem_cons_self
    · intro fr' h; exact hs fr' (List.mem_cons_of_mem _ h)

theorem allPairs_groupStacks {m : List (Nat × List Nat)} {P : Nat → Nat → Prop} (sts : List (List ReqFrame))
    (hm : AllPairs m P) (hs : ∀ st ∈ sts, ∀ fr ∈ st, P fr.moduleIndex fr.address) :
    AllPairs (groupStacks m sts) P := by
  induction sts generalizing m with
  | nil => exact hm
  | cons st rest ih =>
    simp only [groupStacks]
    apply ih
    · exact allPairs_groupStack st hm (hs st List.mem_cons_self)
    · intro st' h; exact hs st' (List.mem_cons_of_mem _ h)

theorem nonEmptyVals_groupStack {m : List (Nat × List Nat)} (st : List ReqFrame)
    (hm : NonEmptyVals m) : NonEmptyVals (groupStack m st) := by
  induction st generalizing m with
  | nil => exact hm
  | cons fr rest ih =>
    simp only [groupStack]
    exact ih (nonEmptyVals_extendAt _ _ hm (by simp))

theorem nonEmptyVals_groupStacks {m : List (Nat × List Nat)} (sts : List (List ReqFrame))
    (hm : NonEmptyVals m) : NonEmptyVals (groupStacks m sts) := by
  induction sts generalizing m with
  | nil => exact hm
  | cons st rest ih =>
    simp only [groupStacks]
    exact ih (nonEmptyVals_groupStack st hm)

/-- an error of `mergeGroups` is the bad-index error and is caused by a group whose index is outside -/
theorem mergeGroups_error {mm : List Lib} {gs : List (Nat × List Nat)} {acc : List (Lib × List Nat)} {e : Fail}
    (h : mergeGroups mm gs acc = .error e) : e = .badModuleIndex ∧ ∃ g ∈ gs, mm[g.1]? = none := by
  induction gs generalizing acc with
  | nil => simp [mergeGroups] at h
  | cons g rest ih =>
    obtain ⟨idx, addrs⟩ := g
    cases hm : mm[idx]? with
    | none =>
      simp only [mergeGroups, hm, Except.error.injEq] at h
      exact ⟨h.symm, (idx, addrs), List.mem_cons_self, hm⟩
    | some lib =>
      simp only [mergeGroups, hm] at h
      obtain ⟨h1, g, hg, h2⟩ := ih h
      exact ⟨h1, g, List.mem_cons_of_mem _ hg, h2⟩

theorem mergeGroups_ok {mm : List Lib} {gs : List (Nat × List Nat)} {acc tbl : List (Lib × List Nat)}
    (h : mergeGroups mm gs acc = .ok tbl) :
    (∀ g ∈ gs, mm[g.1]? ≠ none) ∧
    (∀ lib a, (Has acc lib a ∨ ∃ idx, mm[idx]? = some lib ∧ Has gs idx a) → Has tbl lib a) ∧
    (∀ P : Lib → Nat → Prop, AllPairs acc P →
      (∀ g ∈ gs, ∀ a ∈ g.2, ∀ lib, mm[g.1]? = some lib → P lib a) → AllPairs tbl P) ∧
    (NonEmptyVals acc → NonEmptyVals gs → NonEmptyVals tbl) := by
  induction gs generalizing acc with
  | nil =>
    simp only [mergeGroups, Except.ok.injEq] at h
    subst h
    refine ⟨by simp, ?_, fun P hP _ => hP, fun h _ => h⟩
    rintro lib a (h | ⟨idx, _, vs, h2, _⟩)
    · exact h
    · simp [alookup] at h2
  | cons g rest ih =>
    obtain ⟨idx, addrs⟩ := g
    cases hm : mm[idx]? with
    | none => simp [mergeGroups, hm] at h
    | some lib0 =>
      simp only [mergeGroups, hm] at h
      obtain ⟨i1, i2, i3, i4⟩ := ih h
      refine ⟨?_, ?_, ?_, ?_⟩
      · intro g hg
        rcases List.mem_cons.mp hg with rfl | hg
        · simp [hm]
        · exact i1 g hg
      · rintro lib a (hacc | ⟨idx', hl, vs, hv, ha⟩)
        · exact i2 lib a (Or.inl ((has_extendAt _ _ _ _ _).mpr (Or.inl hacc)))
        · by_cases hi : idx = idx'
          · subst hi
            simp only [alookup, if_true, Option.some.injEq] at hv
            subst hv
            rw [hm] at hl
            simp only [Option.some.injEq] at hl
            subst hl
            exact i2 lib0 a (Or.inl ((has_extendAt _ _ _ _ _).mpr (Or.inr ⟨rfl, ha⟩)))
          · simp only [alookup, hi, if_false] at hv
            exact i2 lib a (Or.inr ⟨idx', hl, vs, hv, ha⟩)
      · intro P hP hg
        apply i3 P
        · apply allPairs_extendAt _ _ hP
          intro a ha
          exact hg (idx, addrs) List.mem_cons_self a ha lib0 hm
        · intro g hg' ; exact hg g (List.mem_cons_of_mem _ hg')
      · intro hacc hgs
        apply i4
        · exact nonEmptyVals_extendAt _ _ hacc (hgs (idx, addrs) List.mem_cons_self)
        · intro g hg; exact hgs g (List.mem_cons_of_mem _ hg)

/-- the (library, address) pairs the frames of these jobs ask for -/
def JobsRequest (jobs : List Job) (lib : Lib) (a : Nat) : Prop :=
  ∃ job ∈ jobs, ∃ st ∈ job.stacks, ∃ fr ∈ st, job.memoryMap[fr.moduleIndex]? = some lib ∧ fr.address = a

def JobsValid (jobs : List Job) : Prop :=
  ∀ job ∈ jobs, ∀ st ∈ job.stacks, ∀ fr ∈ st, fr.moduleIndex < job.memoryMap.length

theorem mem_of_has_groups {gs : List (Nat × List Nat)} {idx a : Nat} (h : Has gs idx a) :
    ∃ g ∈ gs, g.1 = idx ∧ a ∈ g.2 := by
  obtain ⟨vs, h1, h2⟩ := h
  exact ⟨(idx, vs), alookup_mem h1, rfl, h2⟩

theorem gatherJobs_error {jobs : List Job} {acc : List (Lib × List Nat)} {e : Fail}
    (h : gatherJobs jobs acc = .error e) : e = .badModuleIndex ∧ ¬ JobsValid jobs := by
  induction jobs generalizing acc with
  | nil => simp [gatherJobs] at h
  | cons job rest ih =>
    simp only [gatherJobs] at h
    cases hm : mergeGroups job.memoryMap (groupStacks [] job.stacks) acc with
    | error e' =>
      simp only [hm, Except.error.injEq] at h
      subst h
      obtain ⟨h1, g, hg, h2⟩ := mergeGroups_error hm
      refine ⟨h1, ?_⟩
      intro hv
      -- the group's index comes from a frame
      have hP : AllPairs (groupStacks [] job.stacks) (fun idx _ => idx < job.memoryMap.length) := by
        apply allPairs_groupStacks
        · intro g hg; simp at hg
        · intro st hst fr hfr; exact hv job List.mem_cons_self st hst fr hfr
      have hne : NonEmptyVals (groupStacks [] job.stacks) :=
        nonEmptyVals_groupStacks _ (by intro g hg; simp at hg)
      obtain ⟨a, ha⟩ := List.exists_mem_of_ne_nil _ (hne g hg)
      have := hP g hg a ha
      simp only [List.getElem?_eq_none_iff] at h2
      omega
    | ok acc' =>
      simp only [hm] at h
      obtain ⟨h1, h2⟩ := ih h
      exact ⟨h1, fun hv => h2 (fun j hj => hv j (List.mem_cons_of_mem _ hj))⟩

theorem gatherJobs_ok {jobs : List Job} {acc tbl : List (Lib × List Nat)}
    (h : gatherJobs jobs acc = .ok tbl) :
    JobsValid jobs ∧
    (∀ lib a, (Has acc lib a ∨ JobsRequest jobs lib a) → Has tbl lib a) ∧
    (∀ P : Lib → Nat → Prop, AllPairs acc P → (∀ lib a, JobsRequest jobs lib a → P lib a) → AllPairs tbl P) ∧
    (NonEmptyVals acc → NonEmptyVals tbl) := by
  induction jobs generalizing acc with
  | nil =>
    simp only [gatherJobs, Except.ok.injEq] at h
    subst h
    refine ⟨by intro j hj; simp at hj, ?_, fun P hP _ => hP, fun h => h⟩
    rintro lib a (h | ⟨j, hj, _⟩)
    · exact h
    · simp at hj
  | cons job rest ih =>
    simp only [gatherJobs] at h
    cases hm : mergeGroups job.memoryMap (groupStacks [] job.stacks) acc with
    | error e' => simp [hm] at h
    | ok acc' =>
      simp only [hm] at h
      obtain ⟨m1, m2, m3, m4⟩ := mergeGroups_ok hm
      obtain ⟨i1, i2, i3, i4⟩ := ih h
      have hne : NonEmptyVals (groupStacks [] job.stacks) :=
        nonEmptyVals_groupStacks _ (by intro g hg; simp at hg)
      have hempty : ∀ idx a, ¬ Has ([] : List (Nat × List Nat)) idx a := by
        rintro idx a ⟨vs, h1, _⟩; simp [alookup] at h1
      refine ⟨?_, ?_, ?_, ?_⟩
      · intro j hj st hst fr hfr
        rcases List.mem_cons.mp hj with rfl | hj
        · have hh : Has (groupStacks [] j.stacks) fr.moduleIndex fr.address :=
            (has_groupStacks _ _ _ _).mpr (Or.inr ⟨st, hst, fr, hfr, rfl, rfl⟩)
          obtain ⟨g, hg, hg1, _⟩ := mem_of_has_groups hh
          have := m1 g hg
          rw [hg1] at this
          simp only [ne_eq, List.getElem?_eq_none_iff, Nat.not_le] at this
          exact this
        · exact i1 j hj st hst fr hfr
      · rintro lib a (hacc | ⟨j, hj, st, hst, fr, hfr, hl, ha⟩)
        · exact i2 lib a (Or.inl (m2 lib a (Or.inl hacc)))
        · rcases List.mem_cons.mp hj with rfl | hj
          · apply i2 lib a (Or.inl _)
            apply m2 lib a (Or.inr ⟨fr.moduleIndex, hl, _⟩)
            exact (has_groupStacks _ _ _ _).mpr (Or.inr ⟨st, hst, fr, hfr, rfl, ha⟩)
          · exact i2 lib a (Or.inr ⟨j, hj, st, hst, fr, hfr, hl, ha⟩)
      · intro P hP hreq
        apply i3 P
        · apply m3 P hP
          intro g hg a ha lib hl
          -- every pair of a group comes from a frame of this job
          have hQ : AllPairs (groupStacks [] job.stacks)
              (fun idx a => ∃ st ∈ job.stacks, ∃ fr ∈ st, fr.moduleIndex = idx ∧ fr.address = a) := by
            apply allPairs_groupStacks
            · intro g hg; simp at hg
            · intro st hst fr hfr; exact ⟨st, hst, fr, hfr, rfl, rfl⟩
          obtain ⟨st, hst, fr, hfr, h1, h2⟩ := hQ g hg a ha
          apply hreq
          exact ⟨job, List.mem_cons_self, st, hst, fr, hfr, by rw [h1]; exact hl, h2⟩
        · intro lib a ⟨j, hj, rest'⟩
          exact hreq lib a ⟨j, List.mem_cons_of_mem _ hj, rest'⟩
      · intro hacc
        exact i4 (m4 hacc hne)

end Sym
