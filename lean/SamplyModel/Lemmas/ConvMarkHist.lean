import SamplyModel.Lemmas.ConvHistFinal
import SamplyModel.Lemmas.ConvMarkers
import SamplyModel.Lemmas.ConvElide
/-!
convD4: the marker analogue of `C02_history` / `C14_history`. Same induction as `ConvHistStep.hist_step`, over the
marker items of the buffers instead of the recorded samples: the multiset "what the final flush will attach to the
markers of the buffered marker items, each attributed with the *final* queue of its incarnation" ++ "what the
specification expects from the other-event samples of the rest of the history" is constant along a history inside the
hypotheses of `C02_history`. The invariant `HInv` and the sortedness `HSort` are those of `ConvHistStep` (they are
carried by `hist_step` / `sort_step`).
-/
namespace Conv
open ConvSpec

/-! ### what the final flush will say about the buffered marker items -/

def specBufM (cfg : Config) (b : List USample × Announced × Nat) : List (Nat × Nat × Nat × List Frame) :=
  (b.1.filter (fun u => u.marker)).map (uExp cfg b.2.1 b.2.2)

def FpM (cfg : Config) (post : List Rec) (k : Nat) (o : PObs) : List (Nat × Nat × Nat × List Frame) :=
  specBufM cfg (o.samples, o.mapq ++ laterAnn false cfg k none post, k)

def PhiM (cfg : Config) (s : St) (post : List Rec) : List (Nat × Nat × Nat × List Frame) :=
  s.parked.flatMap (specBufM cfg) ++ s.procs.flatMap (FF (FpM cfg post))

theorem FpM_nil_samples (cfg : Config) (post : List Rec) (k : Nat) {o : PObs} (h : o.samples = []) :
    FpM cfg post k o = [] := by
  unfold FpM specBufM; simp [h]

theorem FpM_empty (cfg : Config) (post : List Rec) (k : Nat) : FpM cfg post k PObs.empty = [] :=
  FpM_nil_samples cfg post k rfl

theorem FpM_congr (cfg : Config) {post post' : List Rec} {k : Nat} {o o' : PObs} (h1 : o'.samples = o.samples)
    (h2 : o'.mapq ++ laterAnn false cfg k none post' = o.mapq ++ laterAnn false cfg k none post) :
    FpM cfg post' k o' = FpM cfg post k o := by
  unfold FpM; rw [h1, h2]

theorem PhiM_perm_of_obs (cfg : Config) {s s' : St} {post post' : List Rec} (hn : NodupKeys s.procs)
    (hn' : NodupKeys s'.procs) (hp : s'.parked = s.parked)
    (h : ∀ a, FpM cfg post' a (pobs s'.procs a) = FpM cfg post a (pobs s.procs a)) :
    List.Perm (PhiM cfg s' post') (PhiM cfg s post) := by
  unfold PhiM
  rw [hp]
  exact List.Perm.append_left _
    (flatMap_perm_of_obs (FpM cfg post) (FpM cfg post') (FpM_empty cfg post) (FpM_empty cfg post') hn hn' h)

theorem PhiM_cons_inert (cfg : Config) (s : St) (r : Rec) (post : List Rec)
    (h : ∀ k, laterAnn false cfg k none (r :: post) = laterAnn false cfg k none post) :
    PhiM cfg s (r :: post) = PhiM cfg s post := by
  unfold PhiM
  congr 2
  funext e
  simp only [FF, FpM, h]

theorem histM_same {cfg : Config} {s s' : St} {r : Rec} {post : List Rec} (hn : NodupKeys s.procs)
    (hn' : NodupKeys s'.procs) (hobs : ∀ a, pobs s'.procs a = pobs s.procs a) (hp : s'.parked = s.parked)
    (hl : ∀ k, laterAnn false cfg k none (r :: post) = laterAnn false cfg k none post) :
    List.Perm (PhiM cfg s' post) (PhiM cfg s (r :: post)) := by
  rw [PhiM_cons_inert cfg s r post hl]
  exact PhiM_perm_of_obs cfg hn hn' hp (fun a => by rw [hobs a])

theorem specBufM_park (cfg : Config) (o : PObs) (pid : Nat) :
    (park o pid).flatMap (specBufM cfg) = specBufM cfg (o.samples, o.mapq, pid) := by
  unfold park
  split
  · next he =>
    have : o.samples = [] := List.isEmpty_iff.mp he
    simp [specBufM, this]
  · simp

theorem histM_remove {cfg : Config} {s s' : St} {r : Rec} {post : List Rec} {pid : Nat} (hn : NodupKeys s.procs)
    (hn' : NodupKeys s'.procs) (hobs : ∀ a, pobs s'.procs a = upd (pobs s.procs) pid PObs.empty a)
    (hp : s'.parked = s.parked ++ park (pobs s.procs pid) pid)
    (hl : ∀ k, k ≠ pid → laterAnn false cfg k none (r :: post) = laterAnn false cfg k none post)
    (hl0 : laterAnn false cfg pid none (r :: post) = []) :
    List.Perm (PhiM cfg s' post) (PhiM cfg s (r :: post)) := by
  obtain ⟨R, p1, p2⟩ := flatMap_perm_except (FpM cfg (r :: post)) (FpM cfg post) (FpM_empty cfg _) (FpM_empty cfg _)
    hn hn' pid (fun a ha => by
      rw [hobs a]; unfold upd; rw [if_neg ha]
      exact FpM_congr cfg rfl (by rw [hl a ha]))
  unfold PhiM
  rw [hp, List.flatMap_append, specBufM_park]
  have e2 : FpM cfg post pid (pobs s'.procs pid) = [] := by
    rw [hobs pid]; unfold upd; rw [if_pos rfl]; exact FpM_empty cfg post pid
  have e1 : FpM cfg (r :: post) pid (pobs s.procs pid) =
      specBufM cfg ((pobs s.procs pid).samples, (pobs s.procs pid).mapq, pid) := by
    unfold FpM; rw [hl0, List.append_nil]
  rw [e2] at p2
  rw [e1] at p1
  rw [List.append_assoc]
  refine List.Perm.append_left _ ?_
  exact (List.Perm.append_left _ p2).trans p1.symm

/-- a buffer extended by items that are no marker items expects the same marker stacks -/
theorem FpM_append_nomarker (cfg : Config) (post : List Rec) (k : Nat) (o : PObs) (q : TQ) (tid : Nat)
    (us : List USample) (h : ∀ u ∈ us, u.marker = false) :
    FpM cfg post k { o.setThr tid q with samples := o.samples ++ us } = FpM cfg post k o := by
  unfold FpM specBufM
  simp only [List.filter_append, PObs.setThr]
  have : us.filter (fun u => u.marker) = [] := by
    rw [List.filter_eq_nil_iff]; intro u hu; simp [h u hu]
  rw [this, List.append_nil]

/-! ### the specification's recursion for markers, in a form suited to induction -/

def expGoM (cfg : Config) : List (Nat × Announced) → List Rec → List (Nat × Nat × Nat × List Frame)
  | _, [] => []
  | st, .otherEvent pid tid t km ip chain :: rest =>
    expX cfg st pid tid t km ip chain rest :: expGoM cfg st rest
  | st, r :: rest => expGoM cfg (annStep cfg st r) rest

theorem expGoM_eq (cfg : Config) (rs : List Rec) (st : List (Nat × Announced)) :
    (expectedMarkers.go cfg st rs).map (ExpSample.out cfg) = expGoM cfg st rs := by
  induction rs generalizing st with
  | nil => simp [expectedMarkers.go, expGoM]
  | cons r rest ih =>
    cases r with
    | otherEvent pid tid t km ip chain =>
      unfold expectedMarkers.go
      simp only [expGoM, List.map_cons]
      have hst : annStepX false cfg st (.otherEvent pid tid t km ip chain) = st := rfl
      rw [hst, ih]
      congr 1
      simp only [ExpSample.out, expX, List.length_reverse]
    | sample pid tid t km pe ip chain => unfold expectedMarkers.go; simp only [expGoM]; exact ih _
    | fork pid tid ppid ptid t => unfold expectedMarkers.go; simp only [expGoM]; exact ih _
    | exit pid tid t => unfold expectedMarkers.go; simp only [expGoM]; exact ih _
    | comm pid tid nm ex t => unfold expectedMarkers.go; simp only [expGoM]; exact ih _
    | mmap2 pid tid addr len pgoff exec path t => unfold expectedMarkers.go; simp only [expGoM]; exact ih _
    | switchIn pid tid t => unfold expectedMarkers.go; simp only [expGoM]; exact ih _
    | switchOut pid tid t => unfold expectedMarkers.go; simp only [expGoM]; exact ih _
    | sched pid tid t km ip chain => unfold expectedMarkers.go; simp only [expGoM]; exact ih _

theorem expectedMarkers_out (cfg : Config) (rs : List Rec) :
    (expectedMarkers cfg rs).map (ExpSample.out cfg) = expGoM cfg [] rs := expGoM_eq cfg rs []

/-! ### one record of the history -/

theorem histM_step {cfg : Config} {s : St} {st : List (Nat × Announced)} {last : Last} {l : Life.S}
    (h : HInv cfg s st last l) (r : Rec) (post : List Rec) (hf : LifeL.forkOk l r) (hok : recOk r) :
    List.Perm (PhiM cfg (step s r) post ++ expGoM cfg (annStep cfg st r) post)
      (PhiM cfg s (r :: post) ++ expGoM cfg st (r :: post)) := by
  have hsim' := h.next_sim r
  have hinv := h.inv
  have hn : NodupKeys s.procs := hinv.nodup
  have hn' : NodupKeys (step s r).procs := by obtain ⟨_, hs⟩ := hsim'; exact hs.inv.nodup
  cases r with
  | sample pid tid t km period ip chain =>
    have hl : ∀ k, laterAnn false cfg k none (.sample pid tid t km period ip chain :: post) =
        laterAnn false cfg k none post := fun k => rfl
    have hX : expGoM cfg st (.sample pid tid t km period ip chain :: post) =
        expGoM cfg (annStep cfg st (.sample pid tid t km period ip chain)) post := by simp only [expGoM]
    rw [hX]
    refine List.Perm.append_right _ ?_
    by_cases h0 : tid = 0
    · have hs : step s (.sample pid tid t km period ip chain) = s := by rw [h0]; simp [step]
      rw [hs, PhiM_cons_inert cfg s _ post hl]
    · obtain ⟨o1, o2, o3⟩ := obs_sample hinv pid tid t km period ip chain h0 (h.noff pid tid)
      split at o3
      · exact histM_same hn hn' o3 o1 hl
      · obtain ⟨u, q', u1, _, _, _, _, _, _, _, o3⟩ := o3
        rw [PhiM_cons_inert cfg s _ post hl]
        refine PhiM_perm_of_obs cfg hn hn' o1 (fun a => ?_)
        rw [o3 a]; unfold upd
        split
        · next e =>
          rw [e]
          exact FpM_append_nomarker cfg post pid _ q' tid [u] (fun x hx => by
            simp only [List.mem_singleton] at hx; rw [hx]; exact USample.marker_of_not_synth u u1)
        · rfl
  | fork pid tid ppid ptid t =>
    obtain ⟨o1, o2, o3, o4⟩ := obs_fork hinv pid tid ppid ptid t
    have hl : ∀ k, laterAnn false cfg k none (.fork pid tid ppid ptid t :: post) =
        laterAnn false cfg k none post := fun k => rfl
    have hX : expGoM cfg st (.fork pid tid ppid ptid t :: post) =
        expGoM cfg (annStep cfg st (.fork pid tid ppid ptid t)) post := by simp only [expGoM]
    rw [hX]
    refine List.Perm.append_right _ ?_
    by_cases hpp : pid ≠ ppid
    · simp only [if_pos hpp] at o1
      have hnone : alGet s.procs pid = none := by
        simp only [LifeL.forkOk, if_pos hpp] at hf
        exact h.life.live.unbound_of_curProc hf
      have hemp : pobs s.procs pid = PObs.empty := pobs_of_none hnone
      rw [PhiM_cons_inert cfg s _ post hl]
      refine PhiM_perm_of_obs cfg hn hn' o2 (fun a => ?_)
      rw [o1 a]; unfold upd
      split
      · next e =>
        rw [e, hemp]
        rw [FpM_nil_samples cfg post pid rfl, FpM_empty]
      · rfl
    · simp only [if_neg hpp] at o1
      exact histM_same hn hn' o1 o2 hl
  | exit pid tid t =>
    obtain ⟨o1, o2, o3, o4⟩ := obs_exit hinv pid tid t
    have hX : expGoM cfg st (.exit pid tid t :: post) =
        expGoM cfg (annStep cfg st (.exit pid tid t)) post := by simp only [expGoM]
    rw [hX]
    refine List.Perm.append_right _ ?_
    by_cases hpt : pid = tid
    · subst hpt
      simp only [if_true] at o1 o2
      refine histM_remove (pid := pid) hn hn' o1 o2 ?_ ?_
      · intro k hk
        simp only [laterAnn]
        rw [if_neg]; intro e; exact hk e.1.symm
      · simp [laterAnn]
    · simp only [if_neg hpt] at o1 o2
      have hl : ∀ k, laterAnn false cfg k none (.exit pid tid t :: post) = laterAnn false cfg k none post := by
        intro k
        simp only [laterAnn]
        rw [if_neg]; intro e; exact hpt (e.1.trans e.2.symm)
      rw [PhiM_cons_inert cfg s _ post hl]
      refine PhiM_perm_of_obs cfg hn hn' o2 (fun a => ?_)
      rw [o1 a]; unfold upd
      split
      · next e => rw [e]; exact FpM_congr cfg rfl rfl
      · rfl
  | comm pid tid name isExec t =>
    obtain ⟨o1, o2, o3, o4⟩ := obs_comm hinv pid tid name isExec t
    have hX : expGoM cfg st (.comm pid tid name isExec t :: post) =
        expGoM cfg (annStep cfg st (.comm pid tid name isExec t)) post := by simp only [expGoM]
    rw [hX]
    refine List.Perm.append_right _ ?_
    cases isExec with
    | true =>
      have hpt : pid = tid := hf rfl
      subst hpt
      simp only [if_true, decide_true, Bool.and_self] at o1 o2
      refine histM_remove (pid := pid) hn hn' o1 o2 ?_ ?_
      · intro k hk
        simp only [laterAnn]
        rw [if_neg]; intro e; exact hk e.1.symm
      · simp [laterAnn]
    | false =>
      simp only [Bool.false_eq_true, if_false, Bool.false_and] at o1 o2
      have hl : ∀ k, laterAnn false cfg k none (.comm pid tid name false t :: post) =
          laterAnn false cfg k none post := fun k => rfl
      exact histM_same hn hn' o1 o2 hl
  | mmap2 pid tid addr len pgoff exec path t =>
    obtain ⟨o1, o2, o3, o4⟩ := obs_mmap2 hinv pid tid addr len pgoff exec path t
    have hX : expGoM cfg st (.mmap2 pid tid addr len pgoff exec path t :: post) =
        expGoM cfg (annStep cfg st (.mmap2 pid tid addr len pgoff exec path t)) post := by simp only [expGoM]
    rw [hX]
    refine List.Perm.append_right _ ?_
    cases exec with
    | false =>
      simp only [Bool.false_and, Bool.false_eq_true, if_false] at o1
      have hl : ∀ k, laterAnn false cfg k none (.mmap2 pid tid addr len pgoff false path t :: post) =
          laterAnn false cfg k none post := fun k => rfl
      exact histM_same hn hn' o1 o2 hl
    | true =>
      have hsp : specialPath path = false := hok
      simp only [hsp, Bool.not_false, Bool.and_self, if_true] at o1
      unfold PhiM
      rw [o2]
      refine List.Perm.append_left _ ?_
      refine flatMap_perm_of_obs _ _ (FpM_empty cfg _) (FpM_empty cfg _) hn hn' (fun a => ?_)
      rw [o1 a]; unfold upd
      split
      · next e =>
        rw [e]
        refine FpM_congr cfg rfl ?_
        show ((pobs s.procs pid).mapq ++ mapOps s.cfg addr len pgoff path t) ++ _ = _
        simp only [laterAnn, beq_self_eq_true, Bool.true_and, hsp, Bool.and_false, Bool.not_false, if_true,
          annOf_noSpecial hsp, h.cfg_eq, List.append_assoc]
      · next e =>
        refine FpM_congr cfg rfl ?_
        have : (pid == a) = false := by simpa using fun e' : pid = a => e e'.symm
        simp only [laterAnn, this, Bool.false_and, Bool.false_eq_true, if_false]
  | switchIn pid tid t => exact hok.elim
  | switchOut pid tid t => exact hok.elim
  | sched pid tid t km ip chain => exact hok.elim
  | otherEvent pid tid t km ip chain =>
    -- the new marker item, attributed with its final queue, is what the specification expects for it
    obtain ⟨o1, _, _, u, _, u2, u3, u4, u5, u6, u7, o3⟩ := obs_otherEvent hinv pid tid t km ip chain
    have hl : ∀ k, laterAnn false cfg k none (.otherEvent pid tid t km ip chain :: post) =
        laterAnn false cfg k none post := fun k => rfl
    have hst : annStep cfg st (.otherEvent pid tid t km ip chain) = st := rfl
    rw [hst, PhiM_cons_inert cfg s _ post hl]
    have hX : expGoM cfg st (.otherEvent pid tid t km ip chain :: post) =
        expX cfg st pid tid t km ip chain post :: expGoM cfg st post := by simp only [expGoM]
    rw [hX]
    obtain ⟨R, p1, p2⟩ := flatMap_perm_except (FpM cfg post) (FpM cfg post) (FpM_empty cfg _) (FpM_empty cfg _)
      hn hn' pid (fun a ha => by rw [o3 a]; unfold upd; rw [if_neg ha])
    have hmap : (sampleStack cfg km ip chain).reverse.map
          (expectInfo ((pobs s.procs pid).mapq ++ laterAnn false cfg pid none post) t (pmCands cfg pid)) =
        (sampleStack cfg km ip chain).reverse.map
          (expectInfo ((alGet st pid).getD [] ++ laterAnn false cfg pid (some t) post) t (pmCands cfg pid)) :=
      List.map_congr_left (fun f _ => by rw [h.q pid, expectInfo_lookahead])
    have e2 : FpM cfg post pid (pobs (step s (.otherEvent pid tid t km ip chain)).procs pid) =
        FpM cfg post pid (pobs s.procs pid) ++ [expX cfg st pid tid t km ip chain post] := by
      rw [o3 pid]; unfold upd; rw [if_pos rfl]
      simp only [FpM, specBufM, List.filter_append, List.map_append]
      congr 1
      simp only [List.filter_cons, u2, if_true, List.filter_nil, List.map_cons, List.map_nil,
        uExp, expX, u3, u4, u5, u6, u7, h.cfg_eq, hmap]
    rw [e2] at p2
    unfold PhiM
    rw [o1]
    have p3 : List.Perm ((step s (.otherEvent pid tid t km ip chain)).procs.flatMap (FF (FpM cfg post)))
        (s.procs.flatMap (FF (FpM cfg post)) ++ [expX cfg st pid tid t km ip chain post]) := by
      refine p2.trans ?_
      rw [List.append_assoc]
      refine (List.Perm.append_left _ List.perm_append_comm).trans ?_
      rw [← List.append_assoc]
      exact List.Perm.append_right _ p1.symm
    rw [List.append_assoc, List.append_assoc]
    refine List.Perm.append_left _ ?_
    refine (List.Perm.append_right _ p3).trans ?_
    rw [List.append_assoc]
    rfl

/-! ### whole histories -/

theorem histM_fold (cfg : Config) (rs : List Rec) :
    ∀ (s : St) (st : List (Nat × Announced)) (last : Last) (g : Life.G) (T : Nat),
      HInv cfg s st last g.s → HSort s T → (rs.foldl Life.gStep g).ok = true → (∀ r ∈ rs, recOk r) →
      orderedFrom T rs = true →
      HInv cfg (rs.foldl step s) (rs.foldl (annStep cfg) st) (lastFold last rs) (rs.foldl Life.step g.s) ∧
      (∃ T', HSort (rs.foldl step s) T') ∧
        List.Perm (PhiM cfg (rs.foldl step s) []) (PhiM cfg s rs ++ expGoM cfg st rs) := by
  induction rs with
  | nil =>
    intro s st last g T h hs _ _ _
    exact ⟨h, ⟨T, hs⟩, by simp [expGoM]⟩
  | cons r rs ih =>
    intro s st last g T h hs hg hok ho
    have hf := (LifeL.gStep_ok (LifeL.foldl_gStep_ok (g := Life.gStep g r) hg)).2
    have hr := hok r List.mem_cons_self
    obtain ⟨h1, _⟩ := hist_step h r rs hf hr
    have p1 := histM_step h r rs hf hr
    obtain ⟨T1, hs1, ho1⟩ := sort_step h hs r rs hf hr ho
    obtain ⟨h2, hs2, p2⟩ := ih (step s r) _ _ (Life.gStep g r) T1 h1 hs1 hg
      (fun x hx => hok x (List.mem_cons_of_mem _ hx)) ho1
    exact ⟨h2, hs2, p2.trans p1⟩

theorem histM_run (cfg : Config) (rs : List Rec) (hr : cfg.reuse = false)
    (hg : Life.grammarOk cfg.ref rs = true) (hcs : hasCsRec rs = false) (hsp : noSpecial rs = true)
    (hord : queuedOrdered rs = true) :
    HInv cfg (run cfg rs) (rs.foldl (annStep cfg) []) (lastFold [] rs) (Life.run cfg.ref rs) ∧
      (∃ T, HSort (run cfg rs) T) ∧
      List.Perm (PhiM cfg (run cfg rs) []) ((expectedMarkers cfg rs).map (ExpSample.out cfg)) := by
  obtain ⟨h, hs, p⟩ := histM_fold cfg rs (St.init cfg) [] []
    { s := { ref := cfg.ref, cur := cfg.ref } } 0 (HInv.init cfg hr) (HSort.init cfg) hg (recOk_of hsp hcs) hord
  refine ⟨h, hs, ?_⟩
  rw [expectedMarkers_out]
  exact p

/-! ### the flush of one sorted buffer, all buffers, views -/

theorem filter_map_marker (us : List USample) (f : USample → Nat × OutSample) (hf : ∀ u, (f u).2.marker = u.marker) :
    (us.map f).filter (fun o => o.2.marker) = (us.filter (fun u => u.marker)).map f := by
  induction us with
  | nil => rfl
  | cons u us ih =>
    simp only [List.map_cons, List.filter_cons, hf u]
    cases u.marker <;> simp [ih]

theorem flushBuffer_specBufM (cfg : Config) (key : Nat → Nat × Nat) (b : List USample × Announced × Nat)
    (hq : SortedQ b.2.1) (hu : MonoU b.1) (hpm : (loadPerfMap cfg b.2.2).isSome = true)
    (hk : ∀ u ∈ b.1, key u.th = (u.gpid, u.gtid)) :
    ((flushBuffer (perfMapTable cfg b.2.2) [] b.2.1 b.1).filter (fun o => o.2.marker)).map
        (fun o => ((key o.1).1, (key o.1).2, o.2.t, o.2.frames)) = specBufM cfg b := by
  rw [flushBuffer_spec _ _ _ _ hq hu, filter_map_marker _ _ (fun _ => rfl)]
  unfold specBufM
  rw [List.map_map]
  apply List.map_congr_left
  intro u hu'
  have hmem := (List.mem_filter.mp hu').1
  simp only [Function.comp, flushOne, uExp, hk u hmem, convertStack_eq_expect cfg b.2.2 b.2.1 u.tmono u.stack hpm]

theorem PhiM_nil_eq (cfg : Config) (s : St) (hk : ∀ e ∈ s.procs, e.2.pid = e.1) :
    PhiM cfg s [] = (allBuffers s).flatMap (specBufM cfg) := by
  unfold PhiM allBuffers
  rw [List.flatMap_append]
  congr 1
  generalize s.procs = procs at hk
  induction procs with
  | nil => rfl
  | cons e t ih =>
    have ih' := ih (fun x hx => hk x (List.mem_cons_of_mem _ hx))
    have he := hk e List.mem_cons_self
    rw [List.flatMap_cons, ih', List.filter_cons]
    have hF : FF (FpM cfg []) e = specBufM cfg (e.2.samples, e.2.mapq, e.2.pid) := by
      simp only [FF, FpM, laterAnn, List.append_nil, pobsP, he]
    rw [hF]
    cases hs : e.2.samples with
    | nil => simp [specBufM]
    | cons x xs => simp [hs]

/-- **The history-level statement behind `C14_marker_history`.** -/
theorem history_markers (cfg : Config) (rs : List Rec) (hr : cfg.reuse = false)
    (hg : Life.grammarOk cfg.ref rs = true) (hcs : hasCsRec rs = false) (hsp : noSpecial rs = true)
    (hord : queuedOrdered rs = true) (hpm : ∀ pid, (loadPerfMap cfg pid).isSome = true) :
    List.Perm
      ((views (run cfg rs)).flatMap (fun v => v.markers.map (fun o => (v.pidBase, v.tidBase, o.t, o.frames))))
      ((expectedMarkers cfg rs).map (ExpSample.out cfg)) := by
  obtain ⟨h, ⟨T, hs⟩, p⟩ := histM_run cfg rs hr hg hcs hsp hord
  generalize run cfg rs = s at h hs p
  obtain ⟨acc, hsim⟩ := h.sim
  have hinv := hsim.inv
  have hkey : ∀ u ∈ buffered s, entKey s u.th = (u.gpid, u.gtid) := by
    intro u hu
    obtain ⟨ph, h3, h4⟩ := (hsim.sok u hu).2 (by rw [hsim.hcfg]; exact hr)
    exact entKey_of_skel h3 h4
  have hv : ∀ te ∈ s.tents, te.proc < s.pents.length := by
    intro te hte
    have := hinv.tents (te.proc, te.tid) (List.mem_map_of_mem (f := fun e : TEntry => (e.proc, e.tid)) hte)
    simpa [psk] using this
  have hout : ∀ o ∈ flushAll s, o.1 < s.tents.length := by
    intro o ho
    have hm : (o.1, o.2.t, o.2.weight, o.2.synth) ∈ (flushAll s).map (fun o => (o.1, o.2.t, o.2.weight, o.2.synth)) :=
      List.mem_map_of_mem (f := fun o : Nat × OutSample => (o.1, o.2.t, o.2.weight, o.2.synth)) ho
    rw [flushAll_proj] at hm
    obtain ⟨u, hu, heq⟩ := List.mem_map.mp hm
    have h1 : u.th = o.1 := congrArg Prod.fst heq
    have := (hsim.sok u hu).1
    simp only [tsk, List.length_map] at this
    omega
  have h1 := views_perm_markers s (flushAll s) (fun v o => (v.pidBase, v.tidBase, o.t, o.frames))
    (fun i o => ((entKey s i).1, (entKey s i).2, o.t, o.frames)) hv hout
    (fun i te v hte hvw o => by
      have := viewOf_key hte hvw
      simp only [← this])
  unfold views
  refine h1.trans (List.Perm.trans (List.Perm.of_eq ?_) p)
  rw [PhiM_nil_eq cfg s (fun e he => (hinv.procs e he).1)]
  unfold flushAll
  rw [List.filter_flatMap, List.map_flatMap]
  apply flatMap_congr'
  intro b hb
  rw [h.cfg_eq]
  refine flushBuffer_specBufM cfg (entKey s) b ?_ ?_ (hpm _) (fun u hu => hkey u (mem_buffered_of_allBuffers hb hu))
  · unfold allBuffers at hb
    rcases List.mem_append.mp hb with hb | hb
    · exact (hs.parked b hb).1
    · obtain ⟨e, he, rfl⟩ := List.mem_map.mp hb
      have hg' := alGet_of_mem_nodup hinv.nodup (List.mem_filter.mp he).1
      have := (hs.q e.1).1
      rw [pobs_of_get hg'] at this
      exact this
  · unfold allBuffers at hb
    rcases List.mem_append.mp hb with hb | hb
    · exact (hs.parked b hb).2
    · obtain ⟨e, he, rfl⟩ := List.mem_map.mp hb
      have hg' := alGet_of_mem_nodup hinv.nodup (List.mem_filter.mp he).1
      have := (hs.u e.1).1
      rw [pobs_of_get hg'] at this
      exact this

end Conv

namespace Conv
open ConvSpec

/-- every expected marker stack is the label expansion of as many attributed frames as were recorded -/
theorem expectedMarkers_go_shape (cfg : Config) (rs : List Rec) :
    ∀ (st : List (Nat × Announced)),
      ∀ e ∈ expectedMarkers.go cfg st rs,
        ∃ infos : List Info, e.frames = expandJs infos ∧ e.nrec = infos.length ∧
          ∀ i ∈ infos, plainFrame i.frame = true := by
  induction rs with
  | nil => intro st e he; simp [expectedMarkers.go] at he
  | cons r rest ih =>
    intro st e he
    unfold expectedMarkers.go at he
    dsimp only at he
    split at he
    · rcases List.mem_cons.mp he with rfl | he
      · refine ⟨_, rfl, by simp, ?_⟩
        intro i hi
        obtain ⟨x, _, rfl⟩ := List.mem_map.mp hi
        exact expectInfo_plain _ _ _ x
      · exact ih _ e he
    · exact ih _ e he

end Conv
