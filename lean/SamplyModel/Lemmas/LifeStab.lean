import SamplyModel.Lemmas.LifeStep
/-!
Stability of the eager lifecycle tables (convD2, C01 keyed by entry): `Life.step` only appends incarnations and
rewrites name / lifetime / alive fields, so the identity of an incarnation — its position, pid / tid, suffix and
(for threads) process index — never changes once it exists.
-/
open Conv ConvSpec
namespace LifeL

structure Stab (l l' : Life.S) : Prop where
  ts : ∀ (i : Nat) (t : Life.TInc), l.ts[i]? = some t →
    ∃ t', l'.ts[i]? = some t' ∧ t'.tid = t.tid ∧ t'.suffix = t.suffix ∧ t'.pinc = t.pinc
  ps : ∀ (j : Nat) (p : Life.PInc), l.ps[j]? = some p →
    ∃ p', l'.ps[j]? = some p' ∧ p'.pid = p.pid ∧ p'.suffix = p.suffix

theorem Stab.refl (l : Life.S) : Stab l l := ⟨fun _ t h => ⟨t, h, rfl, rfl, rfl⟩, fun _ p h => ⟨p, h, rfl, rfl⟩⟩

theorem Stab.trans {a b c : Life.S} (h1 : Stab a b) (h2 : Stab b c) : Stab a c := by
  refine ⟨fun i t h => ?_, fun j p h => ?_⟩
  · obtain ⟨t1, e1, a1, a2, a3⟩ := h1.ts i t h
    obtain ⟨t2, e2, b1, b2, b3⟩ := h2.ts i t1 e1
    exact ⟨t2, e2, b1.trans a1, b2.trans a2, b3.trans a3⟩
  · obtain ⟨p1, e1, a1, a2⟩ := h1.ps j p h
    obtain ⟨p2, e2, b1, b2⟩ := h2.ps j p1 e1
    exact ⟨p2, e2, b1.trans a1, b2.trans a2⟩

/-- same tables up to the clock -/
theorem Stab.of_tables {l l' : Life.S} (h1 : l'.ts = l.ts) (h2 : l'.ps = l.ps) : Stab l l' :=
  ⟨fun _ t h => ⟨t, by rw [h1]; exact h, rfl, rfl, rfl⟩, fun _ p h => ⟨p, by rw [h2]; exact h, rfl, rfl⟩⟩

theorem Stab.append {l l' : Life.S} {xs : List Life.TInc} {ys : List Life.PInc} (h1 : l'.ts = l.ts ++ xs)
    (h2 : l'.ps = l.ps ++ ys) : Stab l l' := by
  refine ⟨fun i t h => ⟨t, ?_, rfl, rfl, rfl⟩, fun j p h => ⟨p, ?_, rfl, rfl⟩⟩
  · rw [h1, List.getElem?_append_left (lt_of_getElem?_some h)]; exact h
  · rw [h2, List.getElem?_append_left (lt_of_getElem?_some h)]; exact h

theorem stab_newProc (l : Life.S) (pid : Nat) (name : Option String) (start : Nat) :
    Stab l (Life.newProc l pid name start).1 :=
  Stab.append (xs := [_]) (ys := [_]) rfl rfl

theorem stab_ensureProc (l : Life.S) (pid : Nat) : Stab l (Life.ensureProc l pid).1 := by
  unfold Life.ensureProc
  split
  · exact Stab.refl l
  · exact stab_newProc l pid none 0

theorem stab_newThread (l : Life.S) (pi tid : Nat) (name : Option String) (start : Nat) :
    Stab l (Life.newThread l pi tid name start) :=
  Stab.append (xs := [_]) (ys := []) rfl (by simp [Life.newThread])

theorem stab_ensureThread (l : Life.S) (pid tid : Nat) : Stab l (Life.ensureThread l pid tid) := by
  unfold Life.ensureThread
  have h1 := stab_ensureProc l pid
  generalize Life.ensureProc l pid = ep at *
  obtain ⟨l1, pi⟩ := ep
  dsimp only at *
  split
  · exact h1
  · exact h1.trans (stab_newThread l1 pi tid none 0)

theorem stab_modT (l : Life.S) (i : Nat) (f : Life.TInc → Life.TInc)
    (hf : ∀ t, (f t).tid = t.tid ∧ (f t).suffix = t.suffix ∧ (f t).pinc = t.pinc) : Stab l (Life.modT l i f) := by
  refine ⟨fun k t h => ?_, fun j p h => ⟨p, h, rfl, rfl⟩⟩
  simp only [Life.modT, getElem?_modifyNth]
  split
  · next e => subst e; rw [h]; exact ⟨f t, rfl, (hf t).1, (hf t).2.1, (hf t).2.2⟩
  · exact ⟨t, h, rfl, rfl, rfl⟩

theorem stab_modP (l : Life.S) (i : Nat) (f : Life.PInc → Life.PInc)
    (hf : ∀ p, (f p).pid = p.pid ∧ (f p).suffix = p.suffix) : Stab l (Life.modP l i f) := by
  refine ⟨fun k t h => ⟨t, h, rfl, rfl, rfl⟩, fun j p h => ?_⟩
  simp only [Life.modP, getElem?_modifyNth]
  split
  · next e => subst e; rw [h]; exact ⟨f p, rfl, (hf p).1, (hf p).2⟩
  · exact ⟨p, h, rfl, rfl⟩

theorem stab_endThread (l : Life.S) (i time : Nat) : Stab l (Life.endThread l i time) :=
  stab_modT l i _ (fun _ => ⟨rfl, rfl, rfl⟩)

theorem stab_endProc (l : Life.S) (pi time : Nat) : Stab l (Life.endProc l pi time) := by
  unfold Life.endProc
  refine Stab.trans (b := { l with ts := l.ts.map (fun t => if t.alive && t.pinc == pi then
      { t with end_ := some time, alive := false } else t) }) ?_ (stab_modP _ pi _ (fun _ => ⟨rfl, rfl⟩))
  refine ⟨fun k t h => ?_, fun j p h => ⟨p, h, rfl, rfl⟩⟩
  simp only [List.getElem?_map, h, Option.map_some]
  refine ⟨_, rfl, ?_⟩
  split <;> exact ⟨rfl, rfl, rfl⟩

theorem stab_step (l : Life.S) (r : Rec) : Stab l (Life.step l r) := by
  cases r with
  | sample pid tid t km period ip chain =>
    simp only [Life.step]
    split
    · exact Stab.refl l
    · have h0 : Stab l { l with cur := t } := Stab.of_tables rfl rfl
      exact h0.trans (stab_ensureThread _ pid tid)
  | switchIn pid tid t =>
    simp only [Life.step]
    split
    · exact Stab.refl l
    · exact stab_ensureThread _ pid tid
  | switchOut pid tid t =>
    simp only [Life.step]
    split
    · exact Stab.refl l
    · exact stab_ensureThread _ pid tid
  | sched pid tid t km ip chain => exact stab_ensureThread _ pid tid
  | otherEvent pid tid t km ip chain => exact stab_ensureThread _ pid tid
  | exit pid tid t =>
    rw [lstep_exit]
    split
    · split
      · exact stab_endProc _ _ _
      · exact Stab.refl l
    · split
      · exact Stab.refl l
      · have h1 := stab_ensureProc l pid
        split
        · exact h1.trans (stab_endThread _ _ _)
        · exact h1
  | mmap2 pid tid addr len pgoff exec path t =>
    rw [lstep_mmap2]
    have h1 : Stab l (if l.cur = l.ref || path.isEmpty then l else Life.ensureThread l pid tid) := by
      split
      · exact Stab.refl l
      · exact stab_ensureThread _ pid tid
    simp only []
    split
    · exact h1.trans (stab_ensureProc _ pid)
    · exact h1
  | comm pid tid name isExec t =>
    cases isExec with
    | true =>
      by_cases hpt : pid = tid
      · subst hpt
        rw [lstep_comm_exec_main]
        have h1 : Stab l (match Life.curProc l pid with
            | some pi => Life.endProc l pi (Life.conv l (if t = 0 then l.cur else t))
            | none => l) := by
          split
          · exact stab_endProc _ _ _
          · exact Stab.refl l
        exact h1.trans (stab_newProc _ _ _ _)
      · simp only [Life.step, if_true, if_neg hpt]
        have h1 := stab_ensureProc l pid
        generalize Life.ensureProc l pid = ep at *
        obtain ⟨l1, pi⟩ := ep
        dsimp only at *
        have h2 : Stab l1 (match Life.curThread l1 pi tid with
            | some i => Life.endThread l1 i (Life.conv l (if t = 0 then l.cur else t))
            | none => l1) := by
          split
          · exact stab_endThread _ _ _
          · exact Stab.refl l1
        exact (h1.trans h2).trans (stab_newThread _ _ _ _ _)
    | false =>
      by_cases hpt : pid = tid
      · subst hpt
        rw [lstep_comm_main]
        split
        · exact stab_newProc _ _ _ _
        · next pi _ =>
          have h1 := stab_modP l pi (fun p => { p with name := some name }) (fun _ => ⟨rfl, rfl⟩)
          split
          · exact h1.trans (stab_modT _ _ _ (fun _ => ⟨rfl, rfl, rfl⟩))
          · exact h1
      · rw [lstep_comm_thread _ _ _ _ _ hpt]
        have h1 := stab_ensureProc l pid
        split
        · exact h1.trans (stab_newThread _ _ _ _ _)
        · exact h1.trans (stab_modT _ _ _ (fun _ => ⟨rfl, rfl, rfl⟩))
  | fork pid tid ppid ptid t =>
    rw [lstep_fork]
    have h1 := stab_ensureProc l ppid
    split
    · split
      · exact h1.trans (stab_newProc _ _ _ _)
      · exact h1
    · have h2 := h1.trans (stab_ensureThread (Life.ensureProc l ppid).1 ppid ptid)
      split
      · exact h2
      · exact h2.trans (stab_newThread _ _ _ _ _)

end LifeL
