import SamplyModel.Model.Candidates
/-!
Helper lemmas for C06: characterisation of the candidate loops of `Model/Candidates.lean`.
-/
namespace Cand

section
variable {ι : Type} [DecidableEq ι] {α : Type}

/-! ### `minByKey` / `fatMember` -/

theorem minByKey_none {β : Type} (l : List (β × Nat)) : minByKey l = none ↔ l = [] := by
  induction l with
  | nil => simp [minByKey]
  | cons x xs ih =>
    simp only [minByKey]
    split
    · simp
    · split <;> simp

theorem minByKey_some {β : Type} (l : List (β × Nat)) (x : β × Nat) (h : minByKey l = some x) :
    x ∈ l ∧ ∀ y ∈ l, x.2 ≤ y.2 := by
  induction l generalizing x with
  | nil => simp [minByKey] at h
  | cons a as ih =>
    simp only [minByKey] at h
    split at h
    · rename_i hn
      have : as = [] := (minByKey_none as).1 hn
      subst this
      cases h
      simp
    · rename_i y hy
      obtain ⟨hy1, hy2⟩ := ih y hy
      split at h
      · cases h
        refine ⟨List.mem_cons_of_mem _ hy1, ?_⟩
        intro z hz
        rcases List.mem_cons.1 hz with rfl | hz
        · omega
        · exact hy2 z hz
      · cases h
        refine ⟨List.mem_cons_self, ?_⟩
        intro z hz
        rcases List.mem_cons.1 hz with rfl | hz
        · omega
        · have := hy2 z hz; omega

/-- the scored list that `fatMember` minimises over -/
def scored (native : List ι) (d : Disamb ι) (ms : List (Member ι α)) : List (Member ι α × Nat) :=
  ms.filterMap fun x => (x.score native d).map fun s => (x, s)

theorem mem_scored (native : List ι) (d : Disamb ι) (ms : List (Member ι α)) (x : Member ι α) (s : Nat) :
    (x, s) ∈ scored native d ms ↔ x ∈ ms ∧ x.score native d = some s := by
  simp only [scored, List.mem_filterMap, Option.map_eq_some_iff]
  constructor
  · rintro ⟨a, ha, s', hs', heq⟩
    cases heq
    exact ⟨ha, hs'⟩
  · rintro ⟨hx, hs⟩
    exact ⟨x, hx, s, hs, rfl⟩

theorem fatMember_some_ok (native : List ι) (d : Disamb ι) (ms : List (Member ι α)) (m : Member ι α)
    (h : fatMember native (some d) ms = .ok m) :
    m ∈ ms ∧ ∃ s, m.score native d = some s ∧ ∀ m' ∈ ms, ∀ s', m'.score native d = some s' → s ≤ s' := by
  cases ms with
  | nil => simp [fatMember] at h
  | cons a rest =>
    simp only [fatMember] at h
    split at h
    · rename_i x s hmin
      cases h
      have hmin' : minByKey (scored native d (a :: rest)) = some (m, s) := hmin
      obtain ⟨h1, h2⟩ := minByKey_some _ _ hmin'
      obtain ⟨hm, hs⟩ := (mem_scored native d (a :: rest) m s).1 h1
      refine ⟨hm, s, hs, ?_⟩
      intro m' hm' s' hs'
      exact h2 (m', s') ((mem_scored native d (a :: rest) m' s').2 ⟨hm', hs'⟩)
    · cases h

theorem fatMember_ok_mem (native : List ι) (d : Option (Disamb ι)) (ms : List (Member ι α)) (m : Member ι α)
    (h : fatMember native d ms = .ok m) : m ∈ ms := by
  cases d with
  | some d => exact (fatMember_some_ok native d ms m h).1
  | none =>
    cases ms with
    | nil => simp [fatMember] at h
    | cons a rest =>
      simp only [fatMember] at h
      split at h
      · cases h; exact List.mem_cons_self
      · cases h

/-- a matching member exists ⇒ the selection does not fail -/
theorem fatMember_some_isOk (native : List ι) (d : Disamb ι) (ms : List (Member ι α)) (m : Member ι α) (s : Nat)
    (hm : m ∈ ms) (hs : m.score native d = some s) : ∃ m', fatMember native (some d) ms = .ok m' := by
  cases ms with
  | nil => cases hm
  | cons a rest =>
    simp only [fatMember]
    have hmem : (m, s) ∈ scored native d (a :: rest) := (mem_scored native d _ m s).2 ⟨hm, hs⟩
    cases hmin : minByKey (scored native d (a :: rest)) with
    | none =>
      have := (minByKey_none _).1 hmin
      rw [this] at hmem
      cases hmem
    | some x =>
      obtain ⟨x1, x2⟩ := x
      have hmin' : minByKey (List.filterMap (fun x => Option.map (fun s => (x, s)) (x.score native d)) (a :: rest))
          = some (x1, x2) := hmin
      rw [hmin']
      exact ⟨x1, rfl⟩
end

/-! ### symbol-map loop -/

section
variable {ι : Type} [DecidableEq ι]

/-- candidate `c` can serve the request: loaded with the debug-id disambiguator it yields a map with that id -/
def SymMatches (native : List ι) (req : DebugId ι) (c : Candidate ι (SymInfo ι)) : Prop :=
  ∃ m, c.load native (some (.debugId req)) = .ok m ∧ m.debugId = req

theorem symLoop_inl (native : List ι) (req : DebugId ι) (cs : List (Candidate ι (SymInfo ι))) (i k : Nat)
    (m : SymInfo ι) (h : symLoop native req i cs = .inl (k, m)) :
    m.debugId = req ∧ i ≤ k ∧ ∃ c, cs[k - i]? = some c ∧ c.load native (some (.debugId req)) = .ok m ∧
      ∀ j, j < k - i → ∀ c', cs[j]? = some c' → ¬ SymMatches native req c' := by
  induction cs generalizing i with
  | nil => simp [symLoop] at h
  | cons c cs ih =>
    simp only [symLoop] at h
    split at h
    · rename_i m' hload
      split at h
      · rename_i heq
        cases h
        refine ⟨heq, Nat.le_refl _, c, by simp, hload, ?_⟩
        intro j hj; omega
      · rename_i hne
        split at h
        · rename_i r hr
          cases h
          obtain ⟨h1, h2, c', h3, h4, h5⟩ := ih (i + 1) hr
          refine ⟨h1, by omega, c', ?_, h4, ?_⟩
          · have : k - i = (k - (i + 1)) + 1 := by omega
            rw [this]; simpa using h3
          · intro j hj c'' hc''
            cases j with
            | zero =>
              simp at hc''; subst hc''
              rintro ⟨m2, hm2, hm2'⟩
              rw [hload] at hm2; cases hm2; exact hne hm2'
            | succ j =>
              simp at hc''
              exact h5 j (by omega) c'' hc''
        · cases h
    · rename_i e hload
      split at h
      · rename_i r hr
        cases h
        obtain ⟨h1, h2, c', h3, h4, h5⟩ := ih (i + 1) hr
        refine ⟨h1, by omega, c', ?_, h4, ?_⟩
        · have : k - i = (k - (i + 1)) + 1 := by omega
          rw [this]; simpa using h3
        · intro j hj c'' hc''
          cases j with
          | zero =>
            simp at hc''; subst hc''
            rintro ⟨m2, hm2, _⟩
            rw [hload] at hm2; cases hm2
          | succ j =>
            simp at hc''
            exact h5 j (by omega) c'' hc''
      · cases h

theorem symLoop_inr (native : List ι) (req : DebugId ι) (cs : List (Candidate ι (SymInfo ι))) (i : Nat)
    (es : List (Err ι)) (h : symLoop native req i cs = .inr es) :
    es.length = cs.length ∧ ∀ c ∈ cs, ¬ SymMatches native req c := by
  induction cs generalizing i es with
  | nil => simp [symLoop] at h; subst h; simp
  | cons c cs ih =>
    simp only [symLoop] at h
    split at h
    · rename_i m' hload
      split at h
      · cases h
      · rename_i hne
        split at h
        · cases h
        · rename_i es' hes'
          cases h
          obtain ⟨h1, h2⟩ := ih (i + 1) es' hes'
          refine ⟨by simp [h1], ?_⟩
          intro c' hc'
          rcases List.mem_cons.1 hc' with rfl | hc'
          · rintro ⟨m2, hm2, hm2'⟩
            rw [hload] at hm2; cases hm2; exact hne hm2'
          · exact h2 c' hc'
    · rename_i e hload
      split at h
      · cases h
      · rename_i es' hes'
        cases h
        obtain ⟨h1, h2⟩ := ih (i + 1) es' hes'
        refine ⟨by simp [h1], ?_⟩
        intro c' hc'
        rcases List.mem_cons.1 hc' with rfl | hc'
        · rintro ⟨m2, hm2, _⟩
          rw [hload] at hm2; cases hm2
        · exact h2 c' hc'

/-- the loop succeeds exactly when some candidate matches -/
theorem symLoop_isLeft_iff (native : List ι) (req : DebugId ι) (cs : List (Candidate ι (SymInfo ι))) (i : Nat) :
    (∃ r, symLoop native req i cs = .inl r) ↔ ∃ c ∈ cs, SymMatches native req c := by
  constructor
  · rintro ⟨⟨k, m⟩, h⟩
    obtain ⟨h1, _, c, h3, h4, _⟩ := symLoop_inl native req cs i k m h
    exact ⟨c, List.mem_of_getElem? h3, m, h4, h1⟩
  · rintro ⟨c, hc, hm⟩
    cases h : symLoop native req i cs with
    | inl r => exact ⟨r, rfl⟩
    | inr es => exact absurd hm ((symLoop_inr native req cs i es h).2 c hc)

theorem loadSymbolMap_ok_iff (native : List ι) (req : DebugId ι) (cs : List (Candidate ι (SymInfo ι))) :
    (∃ k m, loadSymbolMap native (some req) cs = .ok k m) ↔ ∃ c ∈ cs, SymMatches native req c := by
  rw [← symLoop_isLeft_iff native req cs 0]
  simp only [loadSymbolMap]
  constructor
  · rintro ⟨k, m, h⟩
    cases hs : symLoop native req 0 cs with
    | inl r => exact ⟨r, rfl⟩
    | inr es =>
      rw [hs] at h
      rcases es with _ | ⟨e, _ | ⟨e2, es⟩⟩ <;> simp at h
  · rintro ⟨⟨k, m⟩, h⟩
    exact ⟨k, m, by rw [h]⟩
end

/-! ### binary loop -/

section
variable {ι : Type} [DecidableEq ι]

/-- the image carries the requested identity: the debug id if one was requested, else the code id -/
def BinReq.Accepts (r : BinReq ι) (m : BinInfo ι) : Prop :=
  match r.debugId with
  | some d => m.debugId = some d
  | none =>
    match r.codeId with
    | some c => m.codeId = some c
    | none => False

def BinMatches (native : List ι) (r : BinReq ι) (c : Candidate ι (BinInfo ι)) : Prop :=
  ∃ m, c.load native r.disamb = .ok m ∧ r.Accepts m

theorem binLoop_ok (native : List ι) (r : BinReq ι) (cs : List (Candidate ι (BinInfo ι))) (last : Option (Err ι))
    (m : BinInfo ι) (h : binLoop native r cs last = .ok m) :
    r.Accepts m ∧ ∃ c ∈ cs, c.load native r.disamb = .ok m := by
  induction cs generalizing last with
  | nil => cases last <;> simp [binLoop] at h
  | cons c cs ih =>
    simp only [binLoop] at h
    split at h
    · rename_i m' hload
      split at h
      · rename_i exp hexp
        split at h
        · rename_i heq
          cases h
          exact ⟨by simp [BinReq.Accepts, hexp, heq], c, List.mem_cons_self, hload⟩
        · obtain ⟨h1, c', hc', h2⟩ := ih _ h
          exact ⟨h1, c', List.mem_cons_of_mem _ hc', h2⟩
      · rename_i hnone
        split at h
        · rename_i expc hexpc
          split at h
          · rename_i heq
            cases h
            exact ⟨by simp [BinReq.Accepts, hnone, hexpc, heq], c, List.mem_cons_self, hload⟩
          · obtain ⟨h1, c', hc', h2⟩ := ih _ h
            exact ⟨h1, c', List.mem_cons_of_mem _ hc', h2⟩
        · cases h
    · obtain ⟨h1, c', hc', h2⟩ := ih _ h
      exact ⟨h1, c', List.mem_cons_of_mem _ hc', h2⟩

theorem binLoop_not_ok (native : List ι) (r : BinReq ι) (cs : List (Candidate ι (BinInfo ι))) (last : Option (Err ι))
    (hid : r.debugId.isSome ∨ r.codeId.isSome)
    (hno : ∀ c ∈ cs, ¬ BinMatches native r c) :
    (∃ e, binLoop native r cs last = .lastErr e) ∨ (binLoop native r cs last = .noCandidates ∧ cs = [] ∧ last = none) := by
  induction cs generalizing last with
  | nil => cases last <;> simp [binLoop]
  | cons c cs ih =>
    have hno' : ∀ c' ∈ cs, ¬ BinMatches native r c' := fun c' hc' => hno c' (List.mem_cons_of_mem _ hc')
    have hc := hno c List.mem_cons_self
    simp only [binLoop]
    split
    · rename_i m' hload
      split
      · rename_i exp hexp
        split
        · rename_i heq
          exact absurd ⟨m', hload, by simp [BinReq.Accepts, hexp, heq]⟩ hc
        · rcases ih _ hno' with h | ⟨_, _, h⟩
          · exact .inl h
          · cases h
      · rename_i hnone
        split
        · rename_i expc hexpc
          split
          · rename_i heq
            exact absurd ⟨m', hload, by simp [BinReq.Accepts, hnone, hexpc, heq]⟩ hc
          · rcases ih _ hno' with h | ⟨_, _, h⟩
            · exact .inl h
            · cases h
        · rename_i hnonec
          simp [hnone, hnonec] at hid
    · rcases ih _ hno' with h | ⟨_, _, h⟩
      · exact .inl h
      · cases h

theorem binLoop_finds (native : List ι) (r : BinReq ι) (cs : List (Candidate ι (BinInfo ι))) (last : Option (Err ι))
    (h : ∃ c ∈ cs, BinMatches native r c) : ∃ m, binLoop native r cs last = .ok m := by
  induction cs generalizing last with
  | nil => obtain ⟨c, hc, _⟩ := h; cases hc
  | cons c cs ih =>
    obtain ⟨c', hc', m, hload, hacc⟩ := h
    simp only [binLoop]
    split
    · rename_i m' hload'
      split
      · rename_i exp hexp
        split
        · exact ⟨m', rfl⟩
        · rename_i hne
          rcases List.mem_cons.1 hc' with rfl | hc'
          · rw [hload] at hload'; cases hload'
            simp [BinReq.Accepts, hexp] at hacc
            exact absurd hacc hne
          · exact ih _ ⟨c', hc', m, hload, hacc⟩
      · rename_i hnone
        split
        · rename_i expc hexpc
          split
          · exact ⟨m', rfl⟩
          · rename_i hne
            rcases List.mem_cons.1 hc' with rfl | hc'
            · rw [hload] at hload'; cases hload'
              simp [BinReq.Accepts, hnone, hexpc] at hacc
              exact absurd hacc hne
            · exact ih _ ⟨c', hc', m, hload, hacc⟩
        · rename_i hnonec
          simp [BinReq.Accepts, hnone, hnonec] at hacc
    · rename_i e hload'
      rcases List.mem_cons.1 hc' with rfl | hc'
      · rw [hload] at hload'; cases hload'
      · exact ih _ ⟨c', hc', m, hload, hacc⟩
end

/-! ### companions -/

theorem debugLinkLoop_some {β : Type} (wanted : Nat) (cs : List (DlCand β)) (p : β)
    (h : debugLinkLoop wanted cs = some p) :
    ∃ c ∈ cs, c.payload = p ∧ c.readable = true ∧ c.crc = wanted ∧ c.parses = true := by
  induction cs with
  | nil => simp [debugLinkLoop] at h
  | cons c cs ih =>
    simp only [debugLinkLoop] at h
    split at h
    · rename_i hc
      cases h
      simp only [Bool.and_eq_true, beq_iff_eq] at hc
      exact ⟨c, List.mem_cons_self, rfl, hc.1.1, hc.1.2, hc.2⟩
    · obtain ⟨c', hc', h'⟩ := ih h
      exact ⟨c', List.mem_cons_of_mem _ hc', h'⟩

theorem debugLinkLoop_none {β : Type} (wanted : Nat) (cs : List (DlCand β))
    (h : ∀ c ∈ cs, c.readable = false ∨ c.crc ≠ wanted ∨ c.parses = false) : debugLinkLoop wanted cs = none := by
  induction cs with
  | nil => rfl
  | cons c cs ih =>
    simp only [debugLinkLoop]
    split
    · rename_i hc
      simp only [Bool.and_eq_true, beq_iff_eq] at hc
      rcases h c List.mem_cons_self with h1 | h1 | h1
      · rw [hc.1.1] at h1; cases h1
      · exact absurd hc.1.2 h1
      · rw [hc.2] at h1; cases h1
    · exact ih fun c' hc' => h c' (List.mem_cons_of_mem _ hc')

theorem supplementaryLoop_some {ι β : Type} [DecidableEq ι] (wanted : ι) (cs : List (SupCand ι β)) (p : β)
    (h : supplementaryLoop wanted cs = some p) :
    ∃ c ∈ cs, c.payload = p ∧ c.readable = true ∧ c.isObject = true ∧ c.buildId = some wanted := by
  induction cs with
  | nil => simp [supplementaryLoop] at h
  | cons c cs ih =>
    simp only [supplementaryLoop] at h
    split at h
    · rename_i hc
      cases h
      simp only [Bool.and_eq_true, decide_eq_true_eq] at hc
      exact ⟨c, List.mem_cons_self, rfl, hc.1.1, hc.1.2, hc.2⟩
    · obtain ⟨c', hc', h'⟩ := ih h
      exact ⟨c', List.mem_cons_of_mem _ hc', h'⟩

theorem supplementaryLoop_none {ι β : Type} [DecidableEq ι] (wanted : ι) (cs : List (SupCand ι β))
    (h : ∀ c ∈ cs, c.readable = false ∨ c.isObject = false ∨ c.buildId ≠ some wanted) :
    supplementaryLoop wanted cs = none := by
  induction cs with
  | nil => rfl
  | cons c cs ih =>
    simp only [supplementaryLoop]
    split
    · rename_i hc
      simp only [Bool.and_eq_true, decide_eq_true_eq] at hc
      rcases h c List.mem_cons_self with h1 | h1 | h1
      · rw [hc.1.1] at h1; cases h1
      · rw [hc.1.2] at h1; cases h1
      · exact absurd hc.2 h1
    · exact ih fun c' hc' => h c' (List.mem_cons_of_mem _ hc')

end Cand
