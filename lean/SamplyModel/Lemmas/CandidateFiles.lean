import SamplyModel.Model.CandidateFiles
import SamplyModel.Lemmas.Candidates
/-!
Helper lemmas for the file-level part of the C06 model (`Model/CandidateFiles.lean`).
-/
namespace Cand

theorem take_min_length {α : Type} (n : Nat) (l : List α) : l.take (min n l.length) = l.take n := by
  by_cases h : n ≤ l.length
  · rw [Nat.min_eq_left h]
  · have h' : l.length ≤ n := by omega
    rw [Nat.min_eq_right h', List.take_of_length_le (Nat.le_refl _), List.take_of_length_le h']

/-- one chunk and the rest make up the whole remainder -/
theorem foldl_chunk {σ : Type} (step : σ → UInt8 → σ) (chunk offset : Nat) (bytes : List UInt8) (s : σ) :
    (bytes.drop (offset + chunk)).foldl step
        (hashUpdate step s ((bytes.drop offset).take (min chunk (bytes.length - offset))))
      = (bytes.drop offset).foldl step s := by
  have hl : bytes.length - offset = (bytes.drop offset).length := by simp
  rw [hl, take_min_length, hashUpdate, ← List.foldl_append, ← List.drop_drop, List.take_append_drop]

/-- The loop hashes exactly the bytes from `offset` to the end, in order, each once — or stops at the `u64`
overflow of `offset`, which needs a file within `chunk` bytes of 2^64. It never runs out of fuel when
`fuel ≥ len - offset`. -/
theorem crcLoop_spec {σ : Type} (step : σ → UInt8 → σ) (chunk : Nat) (hc : 0 < chunk) (bytes : List UInt8) :
    ∀ (fuel offset : Nat) (s : σ), bytes.length - offset ≤ fuel →
      crcLoop step chunk bytes fuel offset s = .ok ((bytes.drop offset).foldl step s)
      ∨ (crcLoop step chunk bytes fuel offset s = .overflow ∧ 2 ^ 64 < bytes.length + chunk) := by
  intro fuel
  induction fuel with
  | zero =>
    intro offset s hf
    have h : ¬ offset < bytes.length := by omega
    left
    simp only [crcLoop, if_neg h]
    rw [List.drop_eq_nil_of_le (by omega)]; rfl
  | succ fuel ih =>
    intro offset s hf
    simp only [crcLoop]
    by_cases h : offset < bytes.length
    · rw [if_pos h]
      by_cases ho : offset + chunk < 2 ^ 64
      · simp only [if_pos ho]
        rcases ih (offset + chunk) (hashUpdate step s ((bytes.drop offset).take (min chunk (bytes.length - offset))))
          (by omega) with h1 | ⟨h1, h2⟩
        · left; rw [h1, foldl_chunk]
        · right; exact ⟨h1, h2⟩
      · simp only [if_neg ho]
        right; exact ⟨trivial, by omega⟩
    · rw [if_neg h]
      left
      rw [List.drop_eq_nil_of_le (by omega)]; rfl

theorem crcChunked_spec {σ : Type} (step : σ → UInt8 → σ) (init : σ) (chunk : Nat) (hc : 0 < chunk)
    (bytes : List UInt8) :
    crcChunked step init chunk bytes = .ok (bytes.foldl step init)
    ∨ (crcChunked step init chunk bytes = .overflow ∧ 2 ^ 64 < bytes.length + chunk) := by
  have := crcLoop_spec step chunk hc bytes bytes.length 0 init (by omega)
  simpa [crcChunked] using this

/-- refinement: on files that do not make the offset overflow, the byte-level loop is `debugLinkLoop` over the
whole-file hashes -/
theorem debugLinkFilesLoop_refines {σ β : Type} (h : Hasher σ) (chunk : Nat) (hc : 0 < chunk) (wanted : Nat)
    (fs : List (DlFile β))
    (hsz : ∀ f ∈ fs, ∀ b, f.bytes = some b → b.length + chunk ≤ 2 ^ 64) :
    debugLinkFilesLoop h chunk wanted fs
      = match debugLinkLoop wanted (fs.map (DlFile.toCand h)) with
        | some p => .used p
        | none => .notUsed := by
  induction fs with
  | nil => rfl
  | cons f fs ih =>
    have ih' := ih (fun f' hf' => hsz f' (List.mem_cons_of_mem _ hf'))
    simp only [debugLinkFilesLoop, List.map_cons, debugLinkLoop]
    cases hb : f.bytes with
    | none =>
      simp only [DlFile.toCand, hb, Bool.false_and]
      simpa using ih'
    | some b =>
      have hsz' := hsz f (List.mem_cons_self) b hb
      rcases crcChunked_spec h.step h.init chunk hc b with h1 | ⟨_, h2⟩
      · simp only [h1, DlFile.toCand, hb, Hasher.whole, Bool.true_and]
        by_cases hacc : (h.fin (List.foldl h.step h.init b) == wanted && f.parses) = true
        · simp [hacc]
        · simp only [hacc]
          simpa using ih'
      · omega

theorem debugLinkFilesLoop_used {σ β : Type} (h : Hasher σ) (chunk : Nat) (hc : 0 < chunk) (wanted : Nat)
    (fs : List (DlFile β)) (p : β) (hu : debugLinkFilesLoop h chunk wanted fs = .used p) :
    ∃ f ∈ fs, f.payload = p ∧ f.parses = true ∧ ∃ b, f.bytes = some b ∧ h.whole b = wanted := by
  induction fs with
  | nil => simp [debugLinkFilesLoop] at hu
  | cons f fs ih =>
    simp only [debugLinkFilesLoop] at hu
    cases hb : f.bytes with
    | none =>
      rw [hb] at hu
      obtain ⟨f', hf', r⟩ := ih hu
      exact ⟨f', List.mem_cons_of_mem _ hf', r⟩
    | some b =>
      rw [hb] at hu
      rcases crcChunked_spec h.step h.init chunk hc b with h1 | ⟨h1, _⟩
      · simp only [h1] at hu
        by_cases hacc : (h.fin (List.foldl h.step h.init b) == wanted && f.parses) = true
        · simp only [hacc, if_true] at hu
          simp only [Bool.and_eq_true, beq_iff_eq] at hacc
          cases hu
          exact ⟨f, List.mem_cons_self, rfl, hacc.2, b, hb, hacc.1⟩
        · simp only [hacc] at hu
          obtain ⟨f', hf', r⟩ := ih hu
          exact ⟨f', List.mem_cons_of_mem _ hf', r⟩
      · simp [h1] at hu

theorem debugLinkFilesLoop_no_panic {σ β : Type} (h : Hasher σ) (chunk : Nat) (hc : 0 < chunk) (wanted : Nat)
    (fs : List (DlFile β)) (hsz : ∀ f ∈ fs, ∀ b, f.bytes = some b → b.length + chunk ≤ 2 ^ 64) :
    debugLinkFilesLoop h chunk wanted fs ≠ .panic := by
  rw [debugLinkFilesLoop_refines h chunk hc wanted fs hsz]
  split <;> simp

/-! ### MODULE line: the id token is stable under extension of the line -/

theorem dropWhile_append_of_ne_nil {α : Type} (p : α → Bool) (l e : List α) (h : l.dropWhile p ≠ []) :
    (l ++ e).dropWhile p = l.dropWhile p ++ e := by
  induction l with
  | nil => simp at h
  | cons a l ih =>
    simp only [List.cons_append, List.dropWhile_cons] at h ⊢
    by_cases hp : p a = true
    · simp only [hp, if_true] at h ⊢; exact ih h
    · simp [hp]

theorem takeWhile_append_of_ne_nil {α : Type} (p : α → Bool) (l e : List α) (h : l.dropWhile p ≠ []) :
    (l ++ e).takeWhile p = l.takeWhile p := by
  induction l with
  | nil => simp at h
  | cons a l ih =>
    simp only [List.cons_append, List.dropWhile_cons, List.takeWhile_cons] at h ⊢
    by_cases hp : p a = true
    · simp only [hp, if_true] at h ⊢; rw [ih h]
    · simp [hp]

theorem space1_ne_nil {l r : List UInt8} (h : space1 l = some r) : l ≠ [] := by
  cases l <;> simp [space1] at h ⊢

theorem space1_append {l r : List UInt8} (e : List UInt8) (h : space1 l = some r) (hr : r ≠ []) :
    space1 (l ++ e) = some (r ++ e) := by
  cases l with
  | nil => simp [space1] at h
  | cons b t =>
    simp only [space1, List.cons_append] at h ⊢
    split at h
    · rename_i hb
      cases h
      simp only [hb, if_true]
      rw [dropWhile_append_of_ne_nil _ _ _ hr]
    · cases h

theorem space1_append_isSome {l r : List UInt8} (e : List UInt8) (h : space1 l = some r) :
    ∃ r', space1 (l ++ e) = some r' := by
  cases l with
  | nil => simp [space1] at h
  | cons b t =>
    simp only [space1, List.cons_append] at h ⊢
    split at h
    · rename_i hb; exact ⟨(t ++ e).dropWhile isSp, by simp [hb]⟩
    · cases h

theorem dropWhile_ne_nil_imp {α : Type} (p : α → Bool) {l : List α} (h : l.dropWhile p ≠ []) : l ≠ [] := by
  cases l <;> simp at h ⊢

theorem stripTag_append {l r : List UInt8} (e : List UInt8) (h : stripTag l = some r) :
    stripTag (l ++ e) = some (r ++ e) := by
  simp only [stripTag] at h ⊢
  split at h
  · rename_i ht
    cases h
    have hlen : 6 ≤ l.length := by
      have := congrArg List.length ht
      simp [tagModule, List.length_take] at this
      omega
    rw [List.take_append_of_le_length hlen, if_pos ht, List.drop_append_of_le_length hlen]
  · cases h

/-- A line whose id token is `t` keeps that token when anything is appended to it: every token before the name is
delimited by a blank that is already part of the line. -/
theorem idToken_append (l e t : List UInt8) (h : idToken l = some t) : idToken (l ++ e) = some t := by
  unfold idToken at h
  cases h0 : stripTag l with
  | none => simp [h0] at h
  | some r0 =>
  simp only [h0] at h
  cases h1 : space1 r0 with
  | none => simp [h1] at h
  | some r1 =>
  simp only [h1] at h
  cases h2 : space1 (r1.dropWhile notBlank) with
  | none => simp [h2] at h
  | some r2 =>
  simp only [h2] at h
  cases h3 : space1 (r2.dropWhile notBlank) with
  | none => simp [h3] at h
  | some r3 =>
  simp only [h3] at h
  split at h
  · cases h
  · rename_i hne
    cases h4 : space1 (r3.dropWhile isHexDigit) with
    | none => simp [h4] at h
    | some r4 =>
    simp only [h4, Option.some.injEq] at h
    -- non-emptiness of every remainder, from the last blank upwards
    have n3d : r3.dropWhile isHexDigit ≠ [] := space1_ne_nil h4
    have n3 : r3 ≠ [] := dropWhile_ne_nil_imp _ n3d
    have n2d : r2.dropWhile notBlank ≠ [] := space1_ne_nil h3
    have n2 : r2 ≠ [] := dropWhile_ne_nil_imp _ n2d
    have n1d : r1.dropWhile notBlank ≠ [] := space1_ne_nil h2
    have n1 : r1 ≠ [] := dropWhile_ne_nil_imp _ n1d
    obtain ⟨r4', h4'⟩ := space1_append_isSome e h4
    unfold idToken
    simp only [stripTag_append e h0, space1_append e h1 n1, dropWhile_append_of_ne_nil _ _ _ n1d,
      space1_append e h2 n2, dropWhile_append_of_ne_nil _ _ _ n2d, space1_append e h3 n3,
      takeWhile_append_of_ne_nil _ _ _ n3d, dropWhile_append_of_ne_nil _ _ _ n3d, h4', hne]
    simpa using h

theorem firstLine_append_of_no_lf (l rest : List UInt8) (h : ∀ b ∈ l, (b != 10) = true) :
    firstLine (l ++ rest) = l ++ firstLine rest := by
  induction l with
  | nil => rfl
  | cons a l ih =>
    have ha := h a List.mem_cons_self
    simp only [firstLine, List.cons_append, List.takeWhile_cons, ha, if_true] at ih ⊢
    rw [ih (fun b hb => h b (List.mem_cons_of_mem _ hb))]

theorem firstLine_no_lf (l : List UInt8) : ∀ b ∈ firstLine l, (b != 10) = true := by
  induction l with
  | nil => intro b hb; simp [firstLine] at hb
  | cons a l ih =>
    intro b hb
    simp only [firstLine, List.takeWhile_cons] at hb ih
    split at hb
    · rename_i ha
      rcases List.mem_cons.1 hb with rfl | hb'
      · exact ha
      · exact ih b hb'
    · simp at hb

theorem lineId_some {ι : Type} (parseId : List UInt8 → Option (DebugId ι)) (utf8 : List UInt8 → Bool)
    (l : List UInt8) (d : DebugId ι) (h : lineId parseId utf8 l = some d) : (idToken l).bind parseId = some d := by
  simp only [lineId] at h
  split at h
  · exact h
  · cases h

/-- The repaired comparison implies: a sidecar that is used reports the id of the `.sym`'s own MODULE line. -/
theorem BpCand.own_eq_sideReported_of_used {ι : Type} [DecidableEq ι] (parseId : List UInt8 → Option (DebugId ι))
    (utf8 : List UInt8 → Bool) (c : BpCand) (hu : c.sidecarUsed parseId utf8 = true) :
    c.own parseId = c.sideReported parseId utf8 := by
  simp only [BpCand.sidecarUsed] at hu
  split at hu
  · rename_i info r hside hrep
    simp only [Bool.and_eq_true, decide_eq_true_eq] at hu
    obtain ⟨⟨_, hpre⟩, hfirst⟩ := hu
    rw [hrep]
    simp only [BpCand.sideFirstId, hside] at hfirst
    have htok := lineId_some parseId utf8 _ r hfirst
    simp only [BpCand.own]
    have hhead : c.head = firstLine info ++ c.head.drop (firstLine info).length := by
      conv => lhs; rw [← List.take_append_drop (firstLine info).length c.head]
      rw [hpre]
    rw [hhead, firstLine_append_of_no_lf _ _ (firstLine_no_lf info)]
    cases ht : idToken (firstLine info) with
    | none => simp [ht] at htok
    | some t =>
      rw [idToken_append _ _ t ht]
      simpa [ht] using htok
  · cases hu

/-! ### dyld loop -/

theorem dyldLoop_ok {α ι : Type} [DecidableEq ι] (idOf : α → Option (DebugId ι)) (d : Option (Disamb ι))
    (ls : List (Load α)) (last : Option (Err ι)) (a : α) (h : dyldLoop idOf d ls last = .ok a) :
    .ok a ∈ ls ∧ ∀ exp, d = some (.debugId exp) → idOf a = some exp := by
  induction ls generalizing last with
  | nil => cases last <;> simp [dyldLoop] at h
  | cons l ls ih =>
    cases l with
    | unreadable =>
      simp only [dyldLoop] at h
      obtain ⟨h1, h2⟩ := ih _ h
      exact ⟨List.mem_cons_of_mem _ h1, h2⟩
    | unparsable =>
      simp only [dyldLoop] at h
      obtain ⟨h1, h2⟩ := ih _ h
      exact ⟨List.mem_cons_of_mem _ h1, h2⟩
    | ok a' =>
      simp only [dyldLoop] at h
      split at h
      · rename_i exp
        split at h
        · rename_i hid
          cases h
          exact ⟨List.mem_cons_self, fun e he => by cases he; exact hid⟩
        · obtain ⟨h1, h2⟩ := ih _ h
          exact ⟨List.mem_cons_of_mem _ h1, h2⟩
      · rename_i hne
        cases h
        exact ⟨List.mem_cons_self, fun e he => absurd he (hne e)⟩

theorem dyldLoop_none_match {α ι : Type} [DecidableEq ι] (idOf : α → Option (DebugId ι)) (exp : DebugId ι)
    (ls : List (Load α)) (last : Option (Err ι))
    (h : ∀ a, .ok a ∈ ls → idOf a ≠ some exp) :
    ∀ a, dyldLoop idOf (some (.debugId exp)) ls last ≠ .ok a := by
  intro a ha
  obtain ⟨h1, h2⟩ := dyldLoop_ok idOf _ ls last a ha
  exact h a h1 (h2 exp rfl)

end Cand
