import SamplyModel.Model.CandidateFiles
import SamplyModel.Lemmas.Candidates
/-!
Helper lemmas for the file-level part of the C06 model (`Model/CandidateFiles.lean`).
-/
namespace Cand

theorem take_min_length {α : Type} (n : Nat) (l : List α) : l.take (min n l.length) = l.take n := by
  by_cases h : n ≤ l.length
  · rw [Nat.min_eq_left h]
  · have h' : l.length ≤ n := by omega
    rw [Nat.min_eq_right h', List.take_of_length_le (Nat.le_refl _), List.take_of_length_le h']

/-- one chunk and the rest make up the whole remainder -/
theorem foldl_chunk {σ : Type} (step : σ → UInt8 → σ) (chunk offset : Nat) (bytes : List UInt8) (s : σ) :
    (bytes.drop (offset + chunk)).foldl step
        (hashUpdate step s ((bytes.drop offset).take (min chunk (bytes.length - offset))))
      = (bytes.drop offset).foldl step s := by
  have hl : bytes.length - offset = (bytes.drop offset).length := by simp
  rw [hl, take_min_length, hashUpdate, ← List.foldl_append, ← List.drop_drop, List.take_append_drop]

/-- The loop hashes exactly the bytes from `offset` to the end, in order, each once — or stops at the `u64`
overflow of `offset`, which needs a file within `chunk` bytes of 2^64. It never runs out of fuel when
`fuel ≥ len - offset`. -/
theorem crcLoop_spec {σ : Type} (step : σ → UInt8 → σ) (chunk : Nat) (hc : 0 < chunk) (bytes : List UInt8) :
    ∀ (fuel offset : Nat) (s : σ), bytes.length - offset ≤ fuel →
      crcLoop step chunk bytes fuel offset s = .ok ((bytes.drop offset).foldl step s)
      ∨ (crcLoop step chunk bytes fuel offset s = .overflow ∧ 2 ^ 64 < bytes.length + chunk) := by
  intro fuel
  induction fuel with
  | zero =>
    intro offset s hf
    have h : ¬ offset < bytes.length := by omega
    left
    simp only [crcLoop, if_neg h]
    rw [List.drop_eq_nil_of_le (by omega)]; rfl
  | succ fuel ih =>
    intro offset s hf
    simp only [crcLoop]
    by_cases h : offset < bytes.length
    · rw [if_pos h]
      by_cases ho : offset + chunk < 2 ^ 64
      · simp only [if_pos ho]
        rcases ih (offset + chunk) (hashUpdate step s ((bytes.drop offset).take (min chunk (bytes.length - offset))))
          (by omega) with h1 | ⟨h1, h2⟩
        · left; rw [h1, foldl_chunk]
        · right; exact ⟨h1, h2⟩
      · simp only [if_neg ho]
        right; exact ⟨trivial, by omega⟩
    · rw [if_neg h]
      left
      rw [List.drop_eq_nil_of_le (by omega)]; rfl

theorem crcChunked_spec {σ : Type} (step : σ → UInt8 → σ) (init : σ) (chunk : Nat) (hc : 0 < chunk)
    (bytes : List UInt8) :
    crcChunked step init chunk bytes = .ok (bytes.foldl step init)
    ∨ (crcChunked step init chunk bytes = .overflow ∧ 2 ^ 64 < bytes.length + chunk) := by
  have := crcLoop_spec step chunk hc bytes bytes.length 0 init (by omega)
  simpa [crcChunked] using this

/-- refinement: on files that do not make the offset overflow, the byte-level loop is `debugLinkLoop` over the
whole-file hashes -/
theorem debugLinkFilesLoop_refines {σ β : Type} (h : Hasher σ) (chunk : Nat) (hc : 0 < chunk) (wanted : Nat)
    (fs : List (DlFile β))
    (hsz : ∀ f ∈ fs, ∀ b, f.bytes = some b → b.length + chunk ≤ 2 ^ 64) :
    debugLinkFilesLoop h chunk wanted fs
      = match debugLinkLoop wanted (fs.map (DlFile.toCand h)) with
        | some p => .used p
        | none => .notUsed := by
  induction fs with
  | nil => rfl
  | cons f fs ih =>
    have ih' := ih (fun f' hf' => hsz f' (List.mem_cons_of_mem _ hf'))
    simp only [debugLinkFilesLoop, List.map_cons, debugLinkLoop]
    cases hb : f.bytes with
    | none =>
      simp only [DlFile.toCand, hb, Bool.false_and]
      simpa using ih'
    | some b =>
      have hsz' := hsz f (List.mem_cons_self) b hb
      rcases crcChunked_spec h.step h.init chunk hc b with h1 | ⟨_, h2⟩
      · simp only [h1, DlFile.toCand, hb, Hasher.whole, Bool.true_and]
        by_cases hacc : (h.fin (List.foldl h.step h.init b) == wanted && f.parses) = true
        · simp [hacc]
        · simp only [hacc]
          simpa using ih'
      · omega

theorem debugLinkFilesLoop_used {σ β : Type} (h : Hasher σ) (chunk : Nat) (hc : 0 < chunk) (wanted : Nat)
    (fs : List (DlFile β)) (p : β) (hu : debugLinkFilesLoop h chunk wanted fs = .used p) :
    ∃ f ∈ fs, f.payload = p ∧ f.parses = true ∧ ∃ b, f.bytes = some b ∧ h.whole b = wanted := by
  induction fs with
  | nil => simp [debugLinkFilesLoop] at hu
  | cons f fs ih =>
    simp only [debugLinkFilesLoop] at hu
    cases hb : f.bytes with
    | none =>
      rw [hb] at hu
      obtain ⟨f', hf', r⟩ := ih hu
      exact ⟨f', List.mem_cons_of_mem _ hf', r⟩
    | some b =>
      rw [hb] at hu
      rcases crcChunked_spec h.step h.init chunk hc b with h1 | ⟨h1, _⟩
      · simp only [h1] at hu
        by_cases hacc : (h.fin (List.foldl h.step h.init b) == wanted && f.parses) = true
        · simp only [hacc, if_true] at hu
          simp only [Bool.and_eq_true, beq_iff_eq] at hacc
          cases hu
          exact ⟨f, List.mem_cons_self, rfl, hacc.2, b, hb, hacc.1⟩
        · simp only [hacc] at hu
          obtain ⟨f', hf', r⟩ := ih hu
          exact ⟨f', List.mem_cons_of_mem _ hf', r⟩
      · simp [h1] at hu

theorem debugLinkFilesLoop_no_panic {σ β : Type} (h : Hasher σ) (chunk : Nat) (hc : 0 < chunk) (wanted : Nat)
    (fs : List (DlFile β)) (hsz : ∀ f ∈ fs, ∀ b, f.bytes = some b → b.length + chunk ≤ 2 ^ 64) :
    debugLinkFilesLoop h chunk wanted fs ≠ .panic := by
  rw [debugLinkFilesLoop_refines h chunk hc wanted fs hsz]
  split <;> simp

/-! ### dyld loop -/

theorem dyldLoop_ok {α ι : Type} [DecidableEq ι] (idOf : α → Option (DebugId ι)) (d : Option (Disamb ι))
    (ls : List (Load α)) (last : Option (Err ι)) (a : α) (h : dyldLoop idOf d ls last = .ok a) :
    .ok a ∈ ls ∧ ∀ exp, d = some (.debugId exp) → idOf a = some exp := by
  induction ls generalizing last with
  | nil => cases last <;> simp [dyldLoop] at h
  | cons l ls ih =>
    cases l with
    | unreadable =>
      simp only [dyldLoop] at h
      obtain ⟨h1, h2⟩ := ih _ h
      exact ⟨List.mem_cons_of_mem _ h1, h2⟩
    | unparsable =>
      simp only [dyldLoop] at h
      obtain ⟨h1, h2⟩ := ih _ h
      exact ⟨List.mem_cons_of_mem _ h1, h2⟩
    | ok a' =>
      simp only [dyldLoop] at h
      split at h
      · rename_i exp
        split at h
        · rename_i hid
          cases h
          exact ⟨List.mem_cons_self, fun e he => by cases he; exact hid⟩
        · obtain ⟨h1, h2⟩ := ih _ h
          exact ⟨List.mem_cons_of_mem _ h1, h2⟩
      · rename_i hne
        cases h
        exact ⟨List.mem_cons_self, fun e he => absurd he (hne e)⟩

theorem dyldLoop_none_match {α ι : Type} [DecidableEq ι] (idOf : α → Option (DebugId ι)) (exp : DebugId ι)
    (ls : List (Load α)) (last : Option (Err ι))
    (h : ∀ a, .ok a ∈ ls → idOf a ≠ some exp) :
    ∀ a, dyldLoop idOf (some (.debugId exp)) ls last ≠ .ok a := by
  intro a ha
  obtain ⟨h1, h2⟩ := dyldLoop_ok idOf _ ls last a ha
  exact h a h1 (h2 exp rfl)

end Cand
