import SamplyModel.Model.SymbolicateFront
/-!
Lemmas for the front end of `/symbolicate/v5` (C07): the parser `fromBreakpad` (which follows the Rust
code: digit loop with overflow checks, `take`/`drop` at the byte positions) against the declarative
`BreakpadIdOk`.
-/
namespace Sym

theorem isHexChar_iff (c : Char) : isHexChar c = (hexDigit? c).isSome := by
  unfold isHexChar hexDigit?
  by_cases h1 : 48 ≤ c.toNat ∧ c.toNat ≤ 57
  · simp [h1]
  · by_cases h2 : 97 ≤ c.toNat ∧ c.toNat ≤ 102
    · simp [h1, h2]
    · by_cases h3 : 65 ≤ c.toNat ∧ c.toNat ≤ 70
      · simp [h1, h2, h3]
      · simp only [h1, h2, h3, if_false, Option.isSome_none]
        simp only [not_and, Nat.not_le] at h1 h2 h3
        simp only [Bool.or_eq_false_iff, Bool.and_eq_false_imp, decide_eq_true_eq, decide_eq_false_iff_not,
          Nat.not_le]
        exact ⟨⟨h1, h2⟩, h3⟩

theorem le_hexValueFrom (cs : List Char) (r : Nat) : r ≤ hexValueFrom r cs := by
  induction cs generalizing r with
  | nil => simp [hexValueFrom]
  | cons c rest ih =>
    unfold hexValueFrom
    have := ih (r * 16 + (hexDigit? c).getD 0)
    omega

theorem hexAcc_spec (cs : List Char) (r : Nat) (hr : r < 4294967296) :
    hexAcc cs r =
      if cs.all isHexChar = true ∧ hexValueFrom r cs < 4294967296 then some (hexValueFrom r cs) else none := by
  induction cs generalizing r with
  | nil => simp [hexAcc, hexValueFrom, hr]
  | cons c rest ih =>
    unfold hexAcc hexValueFrom
    simp only [List.all_cons, isHexChar_iff, Bool.and_eq_true]
    cases hd : hexDigit? c with
    | none => simp
    | some d =>
      simp only [Option.isSome_some, true_and, Option.getD_some]
      by_cases hlt : r * 16 + d < 4294967296
      · simp only [hlt, if_true]
        rw [ih _ hlt]
      · simp only [hlt, if_false]
        have := le_hexValueFrom rest (r * 16 + d)
        rw [if_neg]
        omega

theorem hexAll_spec (cs : List Char) (r : Nat) :
    hexAll cs r = if cs.all isHexChar = true then some (hexValueFrom r cs) else none := by
  induction cs generalizing r with
  | nil => simp [hexAll, hexValueFrom]
  | cons c rest ih =>
    unfold hexAll hexValueFrom
    simp only [List.all_cons, isHexChar_iff, Bool.and_eq_true]
    cases hd : hexDigit? c with
    | none => simp
    | some d =>
      simp only [Option.isSome_some, true_and, Option.getD_some]
      rw [ih]

theorem parseHexU32_spec (s : List Char) :
    parseHexU32 s = if U32Hex s = true then some (hexValue (stripPlus s)) else none := by
  unfold U32Hex hexValue
  match s with
  | [] => simp [parseHexU32, stripPlus]
  | [c] =>
    unfold parseHexU32
    by_cases hp : c = '+'
    · subst hp; simp [stripPlus]
    · by_cases hm : c = '-'
      · subst hm
        simp [stripPlus, isHexChar]
      · simp only [hp, hm, or_self, if_false, stripPlus]
        rw [hexAcc_spec _ _ (by omega)]
        simp
  | c :: c2 :: rest =>
    unfold parseHexU32
    by_cases hp : c = '+'
    · simp only [hp, if_true, stripPlus]
      rw [hexAcc_spec _ _ (by omega)]
      simp
    · simp only [hp, if_false, stripPlus]
      rw [hexAcc_spec _ _ (by omega)]
      simp

theorem u32Hex_dash (r : List Char) : U32Hex ('-' :: r) = false := by
  simp [U32Hex, stripPlus, isHexChar]

theorem toDebugIdChars_spec (s : List Char) :
    toDebugIdChars s = if BreakpadIdOk s = true then some (breakpadIdValue s) else none := by
  unfold toDebugIdChars fromBreakpad BreakpadIdOk breakpadIdValue
  by_cases ha : s.all (fun c => decide (c.toNat < 128)) = true
  · by_cases h8 : s[8]? = some '-'
    · simp [ha, h8]
    · by_cases hl : 9 ≤ s.length ∧ s.length ≤ 16
      · simp only [ha, h8, hl, parseHexU32_spec]
        by_cases h1 : U32Hex (s.take 8) = true
        · by_cases h2 : U32Hex (s.drop 8) = true
          · have hmul : ∀ x : Nat, x * 2 ^ 96 = 0 ↔ x = 0 := by intro x; omega
            by_cases hx : hexValue (stripPlus (s.take 8)) = 0 <;>
              by_cases hy : hexValue (stripPlus (s.drop 8)) = 0 <;>
              simp [h1, h2, h8, hx, hy, DebugId.isNil, hmul, -Nat.reducePow]
          · simp [h1, h2]
        · simp [h1]
      · simp only [ha, h8, hl, parseHexU32_spec, hexAll_spec]
        by_cases h32 : s.length < 32
        · have : ¬ 32 ≤ s.length := by omega
          simp [h32, this]
        · have h32' : 32 ≤ s.length := by omega
          by_cases hh : (s.take 32).all isHexChar = true
          · by_cases hd : (s.drop 32).head? = some '-'
            · have : U32Hex (s.drop 32) = false := by
                cases hdr : s.drop 32 with
                | nil => rw [hdr] at hd; simp at hd
                | cons c r =>
                  rw [hdr] at hd
                  simp only [List.head?_cons, Option.some.injEq] at hd
                  subst hd
                  exact u32Hex_dash r
              simp [h32, hh, hd, this]
            · by_cases h2 : U32Hex (s.drop 32) = true
              · have hd' : ¬ s[32]? = some '-' := by simpa using hd
                by_cases hx : hexValueFrom 0 (s.take 32) = 0 <;>
                  by_cases hy : hexValueFrom 0 (stripPlus (s.drop 32)) = 0 <;>
                  simp [h32, h32', hh, hd', h2, h8, hx, hy, DebugId.isNil, hexValue]
              · simp [h32, hh, h2]
          · simp [h32, hh]
  · simp [ha]

end Sym
