import SamplyModel.Lemmas.ProfileIdent
/-!
Facts about `sortedThreads` that follow from the structural invariant: it lists exactly the valid
thread handles, each once, grouped by process.
-/
namespace PT

theorem mem_sortedProcs (p : P) (pi : Nat) : pi ∈ sortedProcs p ↔ pi < p.processes.length := by
  simp [sortedProcs]

theorem nodup_sortedProcs (p : P) : (sortedProcs p).Nodup :=
  (List.mergeSort_perm _ _).nodup_iff.mpr List.nodup_range

theorem mem_procBlock (p : P) (pi h : Nat) :
    h ∈ procBlock p pi ↔ ∃ pr, p.processes[pi]? = some pr ∧ h ∈ pr.threads := by
  unfold procBlock
  cases hp : p.processes[pi]? with
  | none => simp
  | some pr => simp

theorem skel_procs_get (p : P) (pi : Nat) (pr : Process) (h : p.processes[pi]? = some pr) :
    (skel p).2.1[pi]? = some (pr.threads, pr.pid) := by simp [skel, h]

theorem skel_threads_get (p : P) (h : Nat) :
    (skel p).1[h]? = (p.threads[h]?).map (fun t => (t.process, t.tid)) := by simp [skel]

/-- every handle in a process's block is a thread of that process -/
theorem procBlock_thread (p : P) (hs : SInv p) (pi h : Nat) (hm : h ∈ procBlock p pi) :
    ∃ t, p.threads[h]? = some t ∧ t.process = pi := by
  obtain ⟨pr, hpr, hmem⟩ := (mem_procBlock p pi h).mp hm
  obtain ⟨tid, ht⟩ := hs.listed pi _ _ (skel_procs_get p pi pr hpr) h hmem
  rw [skel_threads_get] at ht
  cases hth : p.threads[h]? with
  | none => rw [hth] at ht; cases ht
  | some t =>
    rw [hth] at ht
    simp only [Option.map_some, Option.some.injEq, Prod.mk.injEq] at ht
    exact ⟨t, rfl, ht.1⟩

theorem mem_sortedThreads (p : P) (hs : SInv p) (h : Nat) : h ∈ sortedThreads p ↔ h < p.threads.length := by
  unfold sortedThreads
  simp only [List.mem_flatMap]
  constructor
  · rintro ⟨pi, _, hm⟩
    obtain ⟨t, ht, _⟩ := procBlock_thread p hs pi h hm
    exact (List.getElem?_eq_some_iff.mp ht).1
  · intro hlt
    have hth : (skel p).1[h]? = some ((p.threads[h]).process, (p.threads[h]).tid) := by
      rw [skel_threads_get, List.getElem?_eq_getElem hlt]; rfl
    obtain ⟨l, pid, hl, hm⟩ := hs.owner h _ _ hth
    have hpi : (p.threads[h]).process < p.processes.length := by
      have := (List.getElem?_eq_some_iff.mp hl).1
      simpa [skel] using this
    refine ⟨(p.threads[h]).process, (mem_sortedProcs p _).mpr hpi, ?_⟩
    rw [mem_procBlock]
    refine ⟨_, List.getElem?_eq_getElem hpi, ?_⟩
    rw [skel_procs_get p _ _ (List.getElem?_eq_getElem hpi)] at hl
    simp only [Option.some.injEq, Prod.mk.injEq] at hl
    rw [hl.1]; exact hm

theorem nodup_procBlock (p : P) (hs : SInv p) (pi : Nat) : (procBlock p pi).Nodup := by
  unfold procBlock
  cases hp : p.processes[pi]? with
  | none => exact List.nodup_nil
  | some pr =>
    simp only
    refine (List.mergeSort_perm _ _).nodup_iff.mpr ?_
    exact hs.nodup (pr.threads, pr.pid) (List.mem_of_getElem? (skel_procs_get p pi pr hp))

theorem nodup_sortedThreads (p : P) (hs : SInv p) : (sortedThreads p).Nodup := by
  unfold sortedThreads
  rw [List.Nodup, List.pairwise_flatMap]
  refine ⟨fun pi _ => nodup_procBlock p hs pi, ?_⟩
  refine (nodup_sortedProcs p).imp ?_
  intro a b hab x hx y hy hxy
  subst hxy
  obtain ⟨t1, ht1, hp1⟩ := procBlock_thread p hs a x hx
  obtain ⟨t2, ht2, hp2⟩ := procBlock_thread p hs b x hy
  rw [ht1] at ht2
  cases ht2
  exact hab (hp1.symm.trans hp2)

end PT
