import SamplyModel.Lemmas.BreakpadStored
/-!
Helper lemmas for C10: the id token of a MODULE line lies before the name and is delimited by blanks, so
appending bytes to a line that parses as a MODULE record does not change the id (if the longer line still
parses). Used for `C10_stored_used_reports_first_line_id`.
-/
namespace BP
open LB (Byte)

/-- the first line of a `.sym` text as the creator hands it to `module_line` (bytes before the first `\n`,
trailing CRs stripped; index.rs:591-595) -/
def firstLine (text : List Byte) : List Byte := stripCR (text.takeWhile (· ≠ 10))

theorem tag_append_some (t a a1 e : List Byte) (h : tag t a = some a1) : tag t (a ++ e) = some (a1 ++ e) := by
  induction t generalizing a with
  | nil => simp only [tag] at h ⊢; cases h; rfl
  | cons x t ih =>
    cases a with
    | nil => simp [tag] at h
    | cons y a =>
      simp only [tag, List.cons_append] at h ⊢
      split at h
      · rename_i hxy; simp only [hxy, if_true]; exact ih a h
      · cases h

theorem dropWhile_append_ne (p : Byte → Bool) (l e : List Byte) (h : l.dropWhile p ≠ []) :
    (l ++ e).dropWhile p = l.dropWhile p ++ e := by
  induction l with
  | nil => simp at h
  | cons x l ih =>
    simp only [List.cons_append, List.dropWhile_cons] at h ⊢
    split
    · rename_i hp; simp only [hp, if_true] at h; exact ih h
    · rfl

theorem takeWhile_append_ne (p : Byte → Bool) (l e : List Byte) (h : l.dropWhile p ≠ []) :
    (l ++ e).takeWhile p = l.takeWhile p := by
  induction l with
  | nil => simp at h
  | cons x l ih =>
    simp only [List.cons_append, List.dropWhile_cons, List.takeWhile_cons] at h ⊢
    split
    · rename_i hp; simp only [hp, if_true] at h; rw [ih h]
    · rfl

theorem space1_ne (x y : List Byte) (h : space1 x = some y) : x ≠ [] := by
  intro e; subst e; simp [space1] at h

theorem space1_append (x y e : List Byte) (h : space1 x = some y) (hy : y ≠ []) :
    space1 (x ++ e) = some (y ++ e) := by
  cases x with
  | nil => simp [space1] at h
  | cons b t =>
    simp only [space1, List.cons_append] at h ⊢
    split at h
    · rename_i hb
      simp only [Option.some.injEq] at h
      subst h
      simp only [hb, if_true]
      rw [dropWhile_append_ne _ _ _ hy]
    · cases h

/-- what a successful `module_line` went through, up to the id token -/
theorem moduleLine_some (inp : List Byte) (r : ModuleRec) (h : moduleLine inp = some r) :
    ∃ a1 a2 a3 a4 nm, tag tMODULE inp = some a1 ∧ space1 a1 = some a2 ∧
      space1 (a2.dropWhile (· ≠ 32)) = some a3 ∧ space1 (a3.dropWhile (· ≠ 32)) = some a4 ∧
      space1 (a4.dropWhile (fun b => (hexVal b).isSome)) = some nm ∧
      r.id = a4.takeWhile (fun b => (hexVal b).isSome) := by
  unfold moduleLine at h
  split at h
  · cases h
  rename_i a1 h1
  split at h
  · cases h
  rename_i a2 h2
  simp only at h
  split at h
  · cases h
  rename_i a3 h3
  split at h
  · cases h
  rename_i a4 h4
  split at h
  · cases h
  rename_i nm h5
  split at h
  · simp only [Option.some.injEq] at h
    subst h
    exact ⟨a1, a2, a3, a4, nm, h1, h2, h3, h4, h5, rfl⟩
  · cases h

/-- appending bytes to a MODULE line does not change its id token -/
theorem moduleLine_append_id (a e : List Byte) (r r' : ModuleRec)
    (h : moduleLine a = some r) (h' : moduleLine (a ++ e) = some r') : r'.id = r.id := by
  obtain ⟨a1, a2, a3, a4, nm, h1, h2, h3, h4, h5, hid⟩ := moduleLine_some a r h
  obtain ⟨b1, b2, b3, b4, nm', g1, g2, g3, g4, g5, gid⟩ := moduleLine_some (a ++ e) r' h'
  have n2 := space1_ne _ _ h3   -- a2.dropWhile ≠ []
  have n3 := space1_ne _ _ h4
  have n4 := space1_ne _ _ h5
  have ne2 : a2 ≠ [] := by intro e; subst e; simp at n2
  have ne3 : a3 ≠ [] := by intro e; subst e; simp at n3
  have ne4 : a4 ≠ [] := by intro e; subst e; simp at n4
  rw [tag_append_some _ _ _ e h1] at g1
  simp only [Option.some.injEq] at g1
  subst g1
  rw [space1_append _ _ e h2 ne2] at g2
  simp only [Option.some.injEq] at g2
  subst g2
  rw [dropWhile_append_ne _ _ e n2, space1_append _ _ e h3 ne3] at g3
  simp only [Option.some.injEq] at g3
  subst g3
  rw [dropWhile_append_ne _ _ e n3, space1_append _ _ e h4 ne4] at g4
  simp only [Option.some.injEq] at g4
  subst g4
  rw [gid, hid, takeWhile_append_ne _ _ e n4]

theorem takeWhile_prefix (p : Byte → Bool) (l : List Byte) : l.takeWhile p <+: l := by
  have := List.takeWhile_append_dropWhile (p := p) (l := l)
  exact ⟨l.dropWhile p, this⟩

theorem stripCR_prefix (l : List Byte) : stripCR l <+: l := by
  unfold stripCR
  have hs : l.reverse.dropWhile (· = 13) <:+ l.reverse := List.dropWhile_suffix _
  have := List.reverse_prefix.2 hs
  simpa using this

theorem prefix_takeWhile_of_not_mem (m text : List Byte) (h : m <+: text) (hn : (10 : Byte) ∉ m) :
    m <+: text.takeWhile (· ≠ 10) := by
  obtain ⟨t, rfl⟩ := h
  induction m with
  | nil => exact List.nil_prefix
  | cons x m ih =>
    have hx : x ≠ 10 := by intro e; subst e; simp at hn
    have hm : (10 : Byte) ∉ m := by intro h; exact hn (List.mem_cons_of_mem _ h)
    simp only [List.cons_append, List.takeWhile_cons, ne_eq, hx, not_false_eq_true, decide_true, if_true]
    exact (List.cons_prefix_cons).2 ⟨rfl, ih hm⟩

/-- the id of a MODULE line that is a prefix of the text (and contains no `\n`) is the id of the text's whole
first line, if that parses -/
theorem moduleLine_prefix_firstLine_id (m text : List Byte) (r r' : ModuleRec)
    (hp : m <+: text) (hn : (10 : Byte) ∉ m) (h : moduleLine m = some r)
    (h' : moduleLine (firstLine text) = some r') : r'.id = r.id := by
  have h1 : m <+: text.takeWhile (· ≠ 10) := prefix_takeWhile_of_not_mem m text hp hn
  have h2 : firstLine text <+: text.takeWhile (· ≠ 10) := stripCR_prefix _
  rcases Nat.le_total m.length (firstLine text).length with hl | hl
  · obtain ⟨e, he⟩ := List.prefix_of_prefix_length_le h1 h2 hl
    rw [← he] at h'
    exact moduleLine_append_id m e r r' h h'
  · obtain ⟨e, he⟩ := List.prefix_of_prefix_length_le h2 h1 hl
    rw [← he] at h
    exact (moduleLine_append_id _ e r' r h' h).symm

end BP
