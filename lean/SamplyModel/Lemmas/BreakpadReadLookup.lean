import SamplyModel.Lemmas.BreakpadReadBody
import SamplyModel.Lemmas.BreakpadBsearch
/-!
Helper lemmas for C10, part 9: what the lookup reads through the entries of `specIndex` — the bytes of
the PUBLIC line / FUNC block / FILE line / INLINE_ORIGIN line — parses back to the abstract records.
-/
namespace BPS
open BP
open LB (Byte)

/-- elementwise relation between two lists (core has no `List.Forall₂`) -/
inductive Forall2 {α β : Type} (R : α → β → Prop) : List α → List β → Prop
  | nil : Forall2 R [] []
  | cons {a b l1 l2} : R a b → Forall2 R l1 l2 → Forall2 R (a :: l1) (b :: l2)

theorem Forall2.mem_left {α β : Type} {R : α → β → Prop} {l1 : List α} {l2 : List β}
    (h : Forall2 R l1 l2) {a : α} (ha : a ∈ l1) : ∃ b ∈ l2, R a b := by
  induction h with
  | nil => cases ha
  | cons hr _ ih =>
    rcases List.mem_cons.1 ha with e | e
    · subst e; exact ⟨_, by simp, hr⟩
    · obtain ⟨b, hb, hrb⟩ := ih e
      exact ⟨b, by simp [hb], hrb⟩

theorem Forall2.mem_right {α β : Type} {R : α → β → Prop} {l1 : List α} {l2 : List β}
    (h : Forall2 R l1 l2) {b : β} (hb : b ∈ l2) : ∃ a ∈ l1, R a b := by
  induction h with
  | nil => cases hb
  | cons hr _ ih =>
    rcases List.mem_cons.1 hb with e | e
    · subst e; exact ⟨_, by simp, hr⟩
    · obtain ⟨a, ha, hra⟩ := ih e
      exact ⟨a, by simp [ha], hra⟩

theorem readAt_of_drop (T A B : List Byte) (off : Nat) (h : T.drop off = A ++ B) (hne : A ≠ []) :
    readAt T off A.length = some A := by
  have hl : (T.drop off).length = A.length + B.length := by rw [h]; simp
  have hpos : 0 < A.length := List.length_pos_iff.2 hne
  simp only [List.length_drop] at hl
  unfold readAt
  have : off + A.length ≤ T.length := by omega
  simp only [this, if_true, h]
  simp

/-! ### symbol entries -/

/-- what the lookup finds behind a symbol entry of the index -/
def EntryOK (T : List Byte) (ae : Nat × SymEntry) (r : RSym) : Prop :=
  ae.1 = r.addr ∧
  match r.size with
  | none => ae.2.kind = 0 ∧ ∃ line, readAt T ae.2.offset ae.2.len = some line ∧ parsePublic line = some r.name
  | some size =>
    ae.2.kind = 1 ∧ ∃ block, readAt T ae.2.offset ae.2.len = some block ∧
      parseFunc block = some (funcInfoOf r.name size r.body)

theorem entries_ok (T : List Byte) (nl : Bool) (endOff : Nat) (hE : endOff = T.length) (ls : List SLine)
    (hok : ∀ l ∈ ls, l.r.ok) :
    ∀ P : List Byte, T = P ++ restText ls nl →
      Forall2 (EntryOK T) (specSymbols endOff (withOffsets (P.length + 1) ls)) (readSyms ls) := by
  induction ls with
  | nil => intro P _; exact Forall2.nil
  | cons l ls ih =>
    intro P hT
    have hlok := hok l (by simp)
    have hdrop : T.drop (P.length + 1) = l.bytes ++ restText ls nl := by
      rw [hT]
      simp only [restText]
      rw [show P.length + 1 = (P ++ [10]).length by simp]
      rw [show P ++ 10 :: (l.bytes ++ restText ls nl) = (P ++ [10]) ++ (l.bytes ++ restText ls nl) by simp]
      exact List.drop_left' rfl
    have ih' := ih (fun x hx => hok x (by simp [hx])) (P ++ 10 :: l.bytes) (by rw [hT]; simp [restText])
    have hoff : (P ++ 10 :: l.bytes).length + 1 = P.length + 1 + l.bytes.length + 1 := by simp; omega
    rw [hoff] at ih'
    simp only [withOffsets, specSymbols, readSyms]
    cases hr : l.r with
    | pub m addr psize name =>
      simp only
      refine Forall2.cons ?_ ih'
      refine ⟨by first | rfl | trivial, ?_⟩
      simp only
      refine ⟨by first | rfl | trivial, (Rec.pub m addr psize name).content, ?_, ?_⟩
      · apply readAt_of_drop T _ (List.replicate l.crs 13 ++ restText ls nl) _ _ (content_ne_nil _)
        rw [hdrop]; simp [SLine.bytes, hr]
      · rw [hr] at hlok
        obtain ⟨ha, hp, hn⟩ := hlok
        simp [parsePublic, publicLine_pub m addr psize name ha hp hn.noLead, hn.utf8]
    | func m addr size psize name =>
      simp only
      refine Forall2.cons ?_ ih'
      refine ⟨by first | rfl | trivial, ?_⟩
      simp only
      have hbe := blockEnd_eq ls nl (P.length + 1 + l.bytes.length + 1) endOff (by omega) (by
        rw [hE, hT]; simp [restText]; omega)
      obtain ⟨tail, htail⟩ := blockBytes_prefix ls nl
      refine ⟨by first | rfl | trivial, l.bytes ++ blockBytes ls nl, ?_, ?_⟩
      · have hlen : blockEnd endOff (withOffsets (P.length + 1 + l.bytes.length + 1) ls) - (P.length + 1)
            = (l.bytes ++ blockBytes ls nl).length := by
          rw [hbe]; simp; omega
        rw [hlen]
        apply readAt_of_drop T _ tail _ _ (by simp [bytes_ne_nil])
        rw [hdrop, htail]; simp
      · have : l = ⟨.func m addr size psize name, l.crs⟩ := by
          cases l; simp_all
        rw [this]
        rw [hr] at hlok
        exact parseFunc_block m addr size psize name l.crs ls nl hlok (fun x hx => hok x (by simp [hx]))
    | info _ => simpa using ih'
    | file _ _ => simpa using ih'
    | origin _ _ => simpa using ih'
    | line _ _ _ _ => simpa using ih'
    | inline _ _ _ _ _ _ => simpa using ih'
    | stack _ => simpa using ih'

/-! ### FILE / INLINE_ORIGIN entries -/

def TableOK (lineParser : List Byte → Option (Nat × List Byte)) (T : List Byte) (e : FEntry)
    (p : Nat × List Byte) : Prop :=
  e.index = p.1 ∧ ∃ line, readAt T e.offset e.lineLen = some line ∧ lineParser line = some p ∧
    validUtf8 p.2 = true

theorem files_ok (T : List Byte) (nl : Bool) (ls : List SLine) (hok : ∀ l ∈ ls, l.r.ok) :
    ∀ P : List Byte, T = P ++ restText ls nl →
      Forall2 (TableOK fileLine T) (specFiles (withOffsets (P.length + 1) ls)) (fileRecs ls) := by
  induction ls with
  | nil => intro P _; exact Forall2.nil
  | cons l ls ih =>
    intro P hT
    have hlok := hok l (by simp)
    have hdrop : T.drop (P.length + 1) = l.bytes ++ restText ls nl := by
      rw [hT]
      simp only [restText]
      rw [show P.length + 1 = (P ++ [10]).length by simp]
      rw [show P ++ 10 :: (l.bytes ++ restText ls nl) = (P ++ [10]) ++ (l.bytes ++ restText ls nl) by simp]
      exact List.drop_left' rfl
    have ih' := ih (fun x hx => hok x (by simp [hx])) (P ++ 10 :: l.bytes) (by rw [hT]; simp [restText])
    have hoff : (P ++ 10 :: l.bytes).length + 1 = P.length + 1 + l.bytes.length + 1 := by simp; omega
    rw [hoff] at ih'
    simp only [withOffsets, specFiles, fileRecs]
    cases hr : l.r with
    | file idx name =>
      simp only
      refine Forall2.cons ?_ ih'
      rw [hr] at hlok
      obtain ⟨hi, hn⟩ := hlok
      refine ⟨by first | rfl | trivial, (Rec.file idx name).content, ?_, ?_, hn.utf8⟩
      · apply readAt_of_drop T _ (List.replicate l.crs 13 ++ restText ls nl) _ _ (content_ne_nil _)
        rw [hdrop]; simp [SLine.bytes, hr]
      · exact fileLine_file idx name hi hn.noLead
    | pub _ _ _ _ => simpa using ih'
    | func _ _ _ _ _ => simpa using ih'
    | info _ => simpa using ih'
    | origin _ _ => simpa using ih'
    | line _ _ _ _ => simpa using ih'
    | inline _ _ _ _ _ _ => simpa using ih'
    | stack _ => simpa using ih'

theorem origins_ok (T : List Byte) (nl : Bool) (ls : List SLine) (hok : ∀ l ∈ ls, l.r.ok) :
    ∀ P : List Byte, T = P ++ restText ls nl →
      Forall2 (TableOK inlineOriginLine T) (specOrigins (withOffsets (P.length + 1) ls)) (originRecs ls) := by
  induction ls with
  | nil => intro P _; exact Forall2.nil
  | cons l ls ih =>
    intro P hT
    have hlok := hok l (by simp)
    have hdrop : T.drop (P.length + 1) = l.bytes ++ restText ls nl := by
      rw [hT]
      simp only [restText]
      rw [show P.length + 1 = (P ++ [10]).length by simp]
      rw [show P ++ 10 :: (l.bytes ++ restText ls nl) = (P ++ [10]) ++ (l.bytes ++ restText ls nl) by simp]
      exact List.drop_left' rfl
    have ih' := ih (fun x hx => hok x (by simp [hx])) (P ++ 10 :: l.bytes) (by rw [hT]; simp [restText])
    have hoff : (P ++ 10 :: l.bytes).length + 1 = P.length + 1 + l.bytes.length + 1 := by simp; omega
    rw [hoff] at ih'
    simp only [withOffsets, specOrigins, originRecs]
    cases hr : l.r with
    | origin idx name =>
      simp only
      refine Forall2.cons ?_ ih'
      rw [hr] at hlok
      obtain ⟨hi, hn⟩ := hlok
      refine ⟨by first | rfl | trivial, (Rec.origin idx name).content, ?_, ?_, hn.utf8⟩
      · apply readAt_of_drop T _ (List.replicate l.crs 13 ++ restText ls nl) _ _ (content_ne_nil _)
        rw [hdrop]; simp [SLine.bytes, hr]
      · exact originLine_origin idx name hi hn.noLead
    | pub _ _ _ _ => simpa using ih'
    | func _ _ _ _ _ => simpa using ih'
    | info _ => simpa using ih'
    | file _ _ => simpa using ih'
    | line _ _ _ _ => simpa using ih'
    | inline _ _ _ _ _ _ => simpa using ih'
    | stack _ => simpa using ih'

end BPS
