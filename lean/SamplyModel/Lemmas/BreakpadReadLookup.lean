import SamplyModel.Lemmas.BreakpadReadBody
import SamplyModel.Lemmas.BreakpadBsearch
/-!
Helper lemmas for C10, part 9: what the lookup reads through the entries of `specIndex` — the bytes of
the PUBLIC line / FUNC block / FILE line / INLINE_ORIGIN line — parses back to the abstract records.
-/
namespace BPS
open BP
open LB (Byte)

/-- elementwise relation between two lists (core has no `List.Forall₂`) -/
inductive Forall2 {α β : Type} (R : α → β → Prop) : List α → List β → Prop
  | nil : Forall2 R [] []
  | cons {a b l1 l2} : R a b → Forall2 R l1 l2 → Forall2 R (a :: l1) (b :: l2)

theorem Forall2.mem_left {α β : Type} {R : α → β → Prop} {l1 : List α} {l2 : List β}
    (h : Forall2 R l1 l2) {a : α} (ha : a ∈ l1) : ∃ b ∈ l2, R a b := by
  induction h with
  | nil => cases ha
  | cons hr _ ih =>
    rcases List.mem_cons.1 ha with e | e
    · subst e; exact ⟨_, by simp, hr⟩
    · obtain ⟨b, hb, hrb⟩ := ih e
      exact ⟨b, by simp [hb], hrb⟩

theorem Forall2.mem_right {α β : Type} {R : α → β → Prop} {l1 : List α} {l2 : List β}
    (h : Forall2 R l1 l2) {b : β} (hb : b ∈ l2) : ∃ a ∈ l1, R a b := by
  induction h with
  | nil => cases hb
  | cons hr _ ih =>
    rcases List.mem_cons.1 hb with e | e
    · subst e; exact ⟨_, by simp, hr⟩
    · obtain ⟨a, ha, hra⟩ := ih e
      exact ⟨a, by simp [ha], hra⟩

theorem readAt_of_drop (T A B : List Byte) (off : Nat) (h : T.drop off = A ++ B) (hne : A ≠ []) :
    readAt T off A.length = some A := by
  have hl : (T.drop off).length = A.length + B.length := by rw [h]; simp
  have hpos : 0 < A.length := List.length_pos_iff.2 hne
  simp only [List.length_drop] at hl
  unfold readAt
  have : off + A.length ≤ T.length := by omega
  simp only [this, if_true, h]
  simp

/-! ### symbol entries -/

/-- what the lookup finds behind a symbol entry of the index -/
def EntryOK (T : List Byte) (ae : Nat × SymEntry) (r : RSym) : Prop :=
  ae.1 = r.addr ∧
  match r.size with
  | none => ae.2.kind = 0 ∧ ∃ line, readAt T ae.2.offset ae.2.len = some line ∧ parsePublic line = some r.name
  | some size =>
    ae.2.kind = 1 ∧ ∃ block, readAt T ae.2.offset ae.2.len = some block ∧
      parseFunc block = some (funcInfoOf r.name size r.body)

theorem entries_ok (T : List Byte) (nl : Bool) (endOff : Nat) (hE : endOff = T.length) (ls : List SLine)
    (hok : ∀ l ∈ ls, l.r.ok) :
    ∀ P : List Byte, T = P ++ restText ls nl →
      Forall2 (EntryOK T) (specSymbols endOff (withOffsets (P.length + 1) ls)) (readSyms ls) := by
  induction ls with
  | nil => intro P _; exact Forall2.nil
  | cons l ls ih =>
    intro P hT
    have hlok := hok l (by simp)
    have hdrop : T.drop (P.length + 1) = l.bytes ++ restText ls nl := by
      rw [hT]
      simp only [restText]
      rw [show P.length + 1 = (P ++ [10]).length by simp]
      rw [show P ++ 10 :: (l.bytes ++ restText ls nl) = (P ++ [10]) ++ (l.bytes ++ restText ls nl) by simp]
      exact List.drop_left' rfl
    have ih' := ih (fun x hx => hok x (by simp [hx])) (P ++ 10 :: l.bytes) (by rw [hT]; simp [restText])
    have hoff : (P ++ 10 :: l.bytes).length + 1 = P.length + 1 + l.bytes.length + 1 := by simp; omega
    rw [hoff] at ih'
    simp only [withOffsets, specSymbols, readSyms]
    cases hr : l.r with
    | pub m addr psize name =>
      simp only
      refine Forall2.cons ?_ ih'
      refine ⟨by first | rfl | trivial, ?_⟩
      simp only
      refine ⟨by first | rfl | trivial, (Rec.pub m addr psize name).content, ?_, ?_⟩
      · apply readAt_of_drop T _ (List.replicate l.crs 13 ++ restText ls nl) _ _ (content_ne_nil _)
        rw [hdrop]; simp [SLine.bytes, hr]
      · rw [hr] at hlok
        obtain ⟨ha, hp, hn⟩ := hlok
        simp [parsePublic, publicLine_pub m addr psize name ha hp hn.noLead, hn.utf8]
    | func m addr size psize name =>
      simp only
      refine Forall2.cons ?_ ih'
      refine ⟨by first | rfl | trivial, ?_⟩
      simp only
      have hbe := blockEnd_eq ls nl (P.length + 1 + l.bytes.length + 1) endOff (by omega) (by
        rw [hE, hT]; simp [restText]; omega)
      obtain ⟨tail, htail⟩ := blockBytes_prefix ls nl
      refine ⟨by first | rfl | trivial, l.bytes ++ blockBytes ls nl, ?_, ?_⟩
      · have hlen : blockEnd endOff (withOffsets (P.length + 1 + l.bytes.length + 1) ls) - (P.length + 1)
            = (l.bytes ++ blockBytes ls nl).length := by
          rw [hbe]; simp; omega
        rw [hlen]
        apply readAt_of_drop T _ tail _ _ (by simp [bytes_ne_nil])
        rw [hdrop, htail]; simp
      · have : l = ⟨.func m addr size psize name, l.crs⟩ := by
          cases l; simp_all
        rw [this]
        rw [hr] at hlok
        exact parseFunc_block m addr size psize name l.crs ls nl hlok (fun x hx => hok x (by simp [hx]))
    | info _ => simpa using ih'
    | file _ _ => simpa using ih'
    | origin _ _ => simpa using ih'
    | line _ _ _ _ => simpa using ih'
    | inline _ _ _ _ _ _ => simpa using ih'
    | stack _ => simpa using ih'

/-! ### FILE / INLINE_ORIGIN entries -/

def TableOK (lineParser : List Byte → Option (Nat × List Byte)) (T : List Byte) (e : FEntry)
    (p : Nat × List Byte) : Prop :=
  e.index = p.1 ∧ ∃ line, readAt T e.offset e.lineLen = some line ∧ lineParser line = some p ∧
    validUtf8 p.2 = true

theorem files_ok (T : List Byte) (nl : Bool) (ls : List SLine) (hok : ∀ l ∈ ls, l.r.ok) :
    ∀ P : List Byte, T = P ++ restText ls nl →
      Forall2 (TableOK fileLine T) (specFiles (withOffsets (P.length + 1) ls)) (fileRecs ls) := by
  induction ls with
  | nil => intro P _; exact Forall2.nil
  | cons l ls ih =>
    intro P hT
    have hlok := hok l (by simp)
    have hdrop : T.drop (P.length + 1) = l.bytes ++ restText ls nl := by
      rw [hT]
      simp only [restText]
      rw [show P.length + 1 = (P ++ [10]).length by simp]
      rw [show P ++ 10 :: (l.bytes ++ restText ls nl) = (P ++ [10]) ++ (l.bytes ++ restText ls nl) by simp]
      exact List.drop_left' rfl
    have ih' := ih (fun x hx => hok x (by simp [hx])) (P ++ 10 :: l.bytes) (by rw [hT]; simp [restText])
    have hoff : (P ++ 10 :: l.bytes).length + 1 = P.length + 1 + l.bytes.length + 1 := by simp; omega
    rw [hoff] at ih'
    simp only [withOffsets, specFiles, fileRecs]
    cases hr : l.r with
    | file idx name =>
      simp only
      refine Forall2.cons ?_ ih'
      rw [hr] at hlok
      obtain ⟨hi, hn⟩ := hlok
      refine ⟨by first | rfl | trivial, (Rec.file idx name).content, ?_, ?_, hn.utf8⟩
      · apply readAt_of_drop T _ (List.replicate l.crs 13 ++ restText ls nl) _ _ (content_ne_nil _)
        rw [hdrop]; simp [SLine.bytes, hr]
      · exact fileLine_file idx name hi hn.noLead
    | pub _ _ _ _ => simpa using ih'
    | func _ _ _ _ _ => simpa using ih'
    | info _ => simpa using ih'
    | origin _ _ => simpa using ih'
    | line _ _ _ _ => simpa using ih'
    | inline _ _ _ _ _ _ => simpa using ih'
    | stack _ => simpa using ih'

theorem origins_ok (T : List Byte) (nl : Bool) (ls : List SLine) (hok : ∀ l ∈ ls, l.r.ok) :
    ∀ P : List Byte, T = P ++ restText ls nl →
      Forall2 (TableOK inlineOriginLine T) (specOrigins (withOffsets (P.length + 1) ls)) (originRecs ls) := by
  induction ls with
  | nil => intro P _; exact Forall2.nil
  | cons l ls ih =>
    intro P hT
    have hlok := hok l (by simp)
    have hdrop : T.drop (P.length + 1) = l.bytes ++ restText ls nl := by
      rw [hT]
      simp only [restText]
      rw [show P.length + 1 = (P ++ [10]).length by simp]
      rw [show P ++ 10 :: (l.bytes ++ restText ls nl) = (P ++ [10]) ++ (l.bytes ++ restText ls nl) by simp]
      exact List.drop_left' rfl
    have ih' := ih (fun x hx => hok x (by simp [hx])) (P ++ 10 :: l.bytes) (by rw [hT]; simp [restText])
    have hoff : (P ++ 10 :: l.bytes).length + 1 = P.length + 1 + l.bytes.length + 1 := by simp; omega
    rw [hoff] at ih'
    simp only [withOffsets, specOrigins, originRecs]
    cases hr : l.r with
    | origin idx name =>
      simp only
      refine Forall2.cons ?_ ih'
      rw [hr] at hlok
      obtain ⟨hi, hn⟩ := hlok
      refine ⟨by first | rfl | trivial, (Rec.origin idx name).content, ?_, ?_, hn.utf8⟩
      · apply readAt_of_drop T _ (List.replicate l.crs 13 ++ restText ls nl) _ _ (content_ne_nil _)
        rw [hdrop]; simp [SLine.bytes, hr]
      · exact originLine_origin idx name hi hn.noLead
    | pub _ _ _ _ => simpa using ih'
    | func _ _ _ _ _ => simpa using ih'
    | info _ => simpa using ih'
    | file _ _ => simpa using ih'
    | line _ _ _ _ => simpa using ih'
    | inline _ _ _ _ _ _ => simpa using ih'
    | stack _ => simpa using ih'

/-! ### searching sorted tables -/

theorem find_last_sorted {α : Type} (key : α → Nat) (t : Nat) (p : List α)
    (hs : (p.map key).Pairwise (· < ·)) (hle : ∀ x ∈ p, key x ≤ t) :
    p.find? (fun e => decide (key e = t)) =
      match p.getLast? with
      | some x => if key x = t then some x else none
      | none => none := by
  induction p with
  | nil => rfl
  | cons a p ih =>
    cases p with
    | nil =>
      simp only [List.find?_cons, List.find?_nil, List.getLast?_singleton]
      by_cases h : key a = t <;> simp [h]
    | cons b p' =>
      simp only [List.map_cons, List.pairwise_cons] at hs
      have hab : key a < key b := hs.1 (key b) (by simp)
      have hb : key b ≤ t := hle b (by simp)
      have hne : ¬ key a = t := by omega
      rw [List.find?_cons]
      simp only [hne, decide_false]
      rw [ih (by simpa using hs.2) (fun x hx => hle x (by simp [hx]))]
      simp [List.getLast?_cons_cons]

theorem getElem?_append_last {α : Type} (p q : List α) (hp : p ≠ []) :
    (p ++ q)[p.length - 1]? = p.getLast? := by
  have hlt : p.length - 1 < p.length := by
    have := List.length_pos_iff.2 hp; omega
  rw [List.getElem?_append_left hlt, List.getLast?_eq_getElem?]

theorem find_sorted {α : Type} (key : α → Nat) (t : Nat) (l : List α) (hs : (l.map key).Pairwise (· < ·)) :
    (bsearchEq (fun e => decide (t < key e)) (fun e => decide (key e = t)) l).bind (l[·]?)
      = l.find? (fun e => decide (key e = t)) := by
  have hle : l.Pairwise (fun a b => key a ≤ key b) :=
    (List.pairwise_map.1 hs).imp (fun h => Nat.le_of_lt h)
  have hsp := BP.sorted_split key l hle t
  have hl := List.takeWhile_append_dropWhile (p := fun x => decide (key x ≤ t)) (l := l)
  generalize hP : l.takeWhile (fun x => decide (key x ≤ t)) = P at hsp hl
  generalize hQ : l.dropWhile (fun x => decide (key x ≤ t)) = Q at hsp hl
  subst hl
  have hsP : (P.map key).Pairwise (· < ·) := by
    rw [List.map_append, List.pairwise_append] at hs; exact hs.1
  rw [bsearchEq_part _ _ P Q (by intro x hx; have := hsp.1 x hx; simp; omega)
    (by intro x hx; have := hsp.2 x hx; simp; omega)
    (by intro x hx; have := hsp.2 x hx; simp; omega)]
  rw [List.find?_append, find_last_sorted key t P hsP hsp.1]
  have hq : Q.find? (fun e => decide (key e = t)) = none := by
    rw [List.find?_eq_none]
    intro x hx; have := hsp.2 x hx; simp; omega
  rw [hq, Option.or_none]
  cases hPl : P.getLast? with
  | none => simp
  | some x =>
    have hne : P ≠ [] := by intro e; subst e; simp at hPl
    by_cases hk : key x = t
    · simp only [hk, decide_true, if_true, Option.bind_some]
      rw [getElem?_append_last P Q hne, hPl]
    · simp [hk]

theorem find?_of_nodup {α : Type} (key : α → Nat) (l : List α) (hnd : (l.map key).Nodup) (x : α) (hx : x ∈ l) :
    l.find? (fun e => decide (key e = key x)) = some x := by
  induction l with
  | nil => cases hx
  | cons a l ih =>
    simp only [List.map_cons, List.nodup_cons, List.mem_map, not_exists, not_and] at hnd
    rw [List.find?_cons]
    rcases List.mem_cons.1 hx with e | e
    · subst e; simp
    · have : ¬ key a = key x := fun h => hnd.1 x e h.symm
      simp only [this, decide_false]
      exact ih hnd.2 e

theorem forall2_keys {α β : Type} {R : α → β → Prop} (ka : α → Nat) (kb : β → Nat) {l1 : List α} {l2 : List β}
    (h : Forall2 R l1 l2) (hk : ∀ a b, R a b → ka a = kb b) : l1.map ka = l2.map kb := by
  induction h with
  | nil => rfl
  | cons hr _ ih => simp [hk _ _ hr, ih]

/-- `ItemCache::get_string` through the sorted table finds the name of the record with that id -/
theorem getString_table (parser : List Byte → Option (Nat × List Byte)) (T : List Byte) (F : List FEntry)
    (recs : List (Nat × List Byte)) (hF : Forall2 (TableOK parser T) F recs)
    (hnd : (F.map (·.index)).Nodup) (idx : Nat) :
    getString parser T (sortBy (·.index) F) idx = nameOf recs idx := by
  have hkeys : F.map (·.index) = recs.map (·.1) := forall2_keys _ _ hF (fun a b h => h.1)
  unfold getString nameOf
  rw [find_sorted (fun (e : FEntry) => e.index) idx (sortBy (fun (e : FEntry) => e.index) F) (sortBy_strict _ _ hnd)]
  cases hf : (sortBy (·.index) F).find? (fun e => decide (e.index = idx)) with
  | none =>
    simp only
    have hnone : recs.find? (fun p => decide (p.1 = idx)) = none := by
      rw [List.find?_eq_none]
      intro p hp
      obtain ⟨e, he, hr⟩ := hF.mem_right hp
      have := List.find?_eq_none.1 hf e ((mem_sortBy _ _ _).2 he)
      simp only [decide_eq_true_eq] at this ⊢
      rw [← hr.1]; exact this
    rw [hnone]; rfl
  | some e =>
    have he := List.mem_of_find?_eq_some hf
    have hei : e.index = idx := by simpa using List.find?_some hf
    obtain ⟨p, hp, hr⟩ := hF.mem_left ((mem_sortBy _ _ _).1 he)
    obtain ⟨h1, line, h2, h3, h4⟩ := hr
    have hfind : recs.find? (fun q => decide (q.1 = idx)) = some p := by
      have := find?_of_nodup (·.1) recs (by rw [← hkeys]; exact hnd) p hp
      rw [← hei, h1]; exact this
    simp only [h2, h3, h4, if_true, hfind, Option.map_some]

/-! ### which symbol the binary search selects -/

/-- `o` is the least key above `x` (`none`: there is none) -/
def NextIs (keys : List Nat) (x : Nat) : Option Nat → Prop
  | none => ∀ k ∈ keys, ¬ x < k
  | some n => n ∈ keys ∧ x < n ∧ ∀ k ∈ keys, x < k → n ≤ k

theorem pairwise_le_getLast {α : Type} (key : α → Nat) (p : List α) (h : p.Pairwise (fun a b => key a ≤ key b))
    (x : α) (hx : p.getLast? = some x) : ∀ y ∈ p, key y ≤ key x := by
  induction p with
  | nil => simp at hx
  | cons a p ih =>
    have ha := List.pairwise_cons.1 h
    cases p with
    | nil =>
      simp only [List.getLast?_singleton, Option.some.injEq] at hx
      subst hx; intro y hy; simp at hy; subst hy; exact Nat.le_refl _
    | cons b p' =>
      rw [List.getLast?_cons_cons] at hx
      intro y hy
      rcases List.mem_cons.1 hy with e | e
      · subst e; exact ha.1 x (List.mem_of_getLast? hx)
      · exact ih ha.2 hx y e

theorem select_spec (S : List (Nat × SymEntry)) (hnd : (S.map (·.1)).Nodup) (a : Nat) :
    (bsearchLE (fun x => decide (a < x)) ((sortBy (fun (p : Nat × SymEntry) => p.1) S).map (·.1)) = none ∧
      ∀ p ∈ S, a < p.1) ∨
    ∃ i ae, bsearchLE (fun x => decide (a < x)) ((sortBy (fun (p : Nat × SymEntry) => p.1) S).map (·.1)) = some i ∧
      (sortBy (fun (p : Nat × SymEntry) => p.1) S)[i]? = some ae ∧ ae ∈ S ∧ ae.1 ≤ a ∧
      (∀ p ∈ S, p.1 ≤ a → p.1 ≤ ae.1) ∧
      NextIs (S.map (·.1)) ae.1 (((sortBy (fun (p : Nat × SymEntry) => p.1) S).map (·.1))[i + 1]?) := by
  have hsort := sortBy_sorted (fun (p : Nat × SymEntry) => p.1) S
  have hmem := mem_sortBy (fun (p : Nat × SymEntry) => p.1) S
  generalize sortBy (fun (p : Nat × SymEntry) => p.1) S = SS at hsort hmem
  have hsp := BP.sorted_split (fun (p : Nat × SymEntry) => p.1) SS hsort a
  have hl := List.takeWhile_append_dropWhile (p := fun (x : Nat × SymEntry) => decide (x.1 ≤ a)) (l := SS)
  generalize SS.takeWhile (fun x => decide (x.1 ≤ a)) = P at hsp hl
  generalize SS.dropWhile (fun x => decide (x.1 ≤ a)) = Q at hsp hl
  subst hl
  rw [List.map_append, bsearchLE_part _ (P.map (·.1)) (Q.map (·.1))
    (by intro x hx; obtain ⟨p, hp, rfl⟩ := List.mem_map.1 hx; have := hsp.1 p hp; simp; omega)
    (by intro x hx; obtain ⟨p, hp, rfl⟩ := List.mem_map.1 hx; have := hsp.2 p hp; simp; omega)]
  cases hP : P with
  | nil =>
    left
    refine ⟨by simp, ?_⟩
    intro p hp
    have := (hmem p).2 hp
    rw [hP] at this
    exact hsp.2 p (by simpa using this)
  | cons p0 P' =>
    right
    rw [← hP]
    have hne : P ≠ [] := by rw [hP]; simp
    have hlen : 0 < P.length := List.length_pos_iff.2 hne
    obtain ⟨ae, hae⟩ : ∃ ae, P.getLast? = some ae := by
      cases h : P.getLast? with
      | none => rw [List.getLast?_eq_none_iff] at h; exact absurd h hne
      | some x => exact ⟨x, rfl⟩
    have haeP : ae ∈ P := List.mem_of_getLast? hae
    have hPs : P.Pairwise (fun a b => a.1 ≤ b.1) := (List.pairwise_append.1 hsort).1
    have hQs : Q.Pairwise (fun a b => a.1 ≤ b.1) := (List.pairwise_append.1 hsort).2.1
    have hmax := pairwise_le_getLast (fun (p : Nat × SymEntry) => p.1) P hPs ae hae
    refine ⟨P.length - 1, ae, ?_, ?_, ?_, hsp.1 ae haeP, ?_, ?_⟩
    · have : (P.map (·.1)).isEmpty = false := by
        cases P with
        | nil => exact absurd rfl hne
        | cons _ _ => rfl
      simp [this]
    · rw [getElem?_append_last P Q hne, hae]
    · exact (hmem ae).1 (by simp [haeP])
    · intro p hp hpa
      have hpm := (hmem p).2 hp
      rcases List.mem_append.1 hpm with h | h
      · exact hmax p h
      · have := hsp.2 p h; omega
    · have hidx : (P.map (·.1) ++ Q.map (·.1))[P.length - 1 + 1]? = (Q.map (·.1)).head? := by
        have e : P.length - 1 + 1 = (P.map (·.1)).length := by simp; omega
        rw [e, List.getElem?_append_right (Nat.le_refl _)]
        simp [List.head?_eq_getElem?]
      rw [hidx]
      cases hQ : Q with
      | nil =>
        simp only [List.map_nil, List.head?_nil, NextIs]
        intro k hk
        obtain ⟨p, hp, rfl⟩ := List.mem_map.1 hk
        have hpm := (hmem p).2 hp
        rw [hQ, List.append_nil] at hpm
        have := hmax p hpm
        omega
      | cons q Q' =>
        simp only [List.map_cons, List.head?_cons, NextIs]
        have hqQ : q ∈ Q := by rw [hQ]; simp
        refine ⟨List.mem_map.2 ⟨q, (hmem q).1 (by simp [hqQ]), rfl⟩, ?_, ?_⟩
        · have := hsp.2 q hqQ; have := hsp.1 ae haeP; omega
        · intro k hk hlt
          obtain ⟨p, hp, rfl⟩ := List.mem_map.1 hk
          have hpm := (hmem p).2 hp
          rcases List.mem_append.1 hpm with h | h
          · have := hmax p h; omega
          · rw [hQ] at h hQs
            rcases List.mem_cons.1 h with e | e
            · subst e; exact Nat.le_refl _
            · exact (List.pairwise_cons.1 hQs).1 p e

/-! ### the reader's choice of symbol -/

theorem bestSym_fold_some (r : RSym) (a : Nat) (L : List RSym)
    (hmax : ∀ s ∈ L, s.addr ≤ a → s.addr ≤ r.addr) :
    L.foldl (bestStep a) (some r) = some r := by
  induction L with
  | nil => rfl
  | cons s L ih =>
    simp only [List.foldl_cons, bestStep]
    by_cases hs : s.addr ≤ a
    · have := hmax s (by simp) hs
      have hlt : ¬ r.addr < s.addr := by omega
      simp only [hs, if_true, hlt, if_false]
      exact ih (fun x hx => hmax x (by simp [hx]))
    · simp only [hs, if_false]
      exact ih (fun x hx => hmax x (by simp [hx]))

theorem bestSym_gen (r : RSym) (a : Nat) (hra : r.addr ≤ a) :
    ∀ (L : List RSym) (acc : Option RSym), r ∈ L → (L.map (·.addr)).Nodup →
      (∀ s ∈ L, s.addr ≤ a → s.addr ≤ r.addr) →
      (acc = none ∨ ∃ b, acc = some b ∧ b.addr < r.addr) →
      L.foldl (bestStep a) acc = some r := by
  intro L
  induction L with
  | nil => intro _ h; cases h
  | cons s L ih =>
    intro acc hrL hndL hmaxL hacc
    simp only [List.map_cons, List.nodup_cons, List.mem_map, not_exists, not_and] at hndL
    simp only [List.foldl_cons]
    by_cases hsr : s = r
    · subst hsr
      have hrest : ∀ x ∈ L, x.addr ≤ a → x.addr ≤ s.addr := fun x hx => hmaxL x (by simp [hx])
      rcases hacc with h | ⟨b, h, hb⟩
      · subst h
        simp only [bestStep, hra, if_true]
        exact bestSym_fold_some s a L hrest
      · subst h
        simp only [bestStep, hra, if_true, hb]
        exact bestSym_fold_some s a L hrest
    · have hrL' : r ∈ L := by
        rcases List.mem_cons.1 hrL with e | e
        · exact absurd e.symm hsr
        · exact e
      have hne : s.addr ≠ r.addr := fun e => hndL.1 r hrL' e.symm
      by_cases hs : s.addr ≤ a
      · have hle := hmaxL s (by simp) hs
        have hlt : s.addr < r.addr := by omega
        apply ih _ hrL' hndL.2 (fun x hx => hmaxL x (by simp [hx]))
        rcases hacc with h | ⟨b, h, hb⟩
        · subst h; simp only [bestStep, hs, if_true]; exact Or.inr ⟨s, rfl, hlt⟩
        · subst h
          by_cases hbs : b.addr < s.addr
          · simp only [bestStep, hs, hbs, if_true]; exact Or.inr ⟨s, rfl, hlt⟩
          · simp only [bestStep, hs, hbs, if_true, if_false]; exact Or.inr ⟨b, rfl, hb⟩
      · have : bestStep a acc s = acc := by simp [bestStep, hs]
        rw [this]
        exact ih _ hrL' hndL.2 (fun x hx => hmaxL x (by simp [hx])) hacc

theorem bestSym_some (R : List RSym) (hnd : (R.map (·.addr)).Nodup) (r : RSym) (a : Nat) (hr : r ∈ R)
    (hra : r.addr ≤ a) (hmax : ∀ s ∈ R, s.addr ≤ a → s.addr ≤ r.addr) : bestSym R a = some r :=
  bestSym_gen r a hra R none hr hnd hmax (Or.inl rfl)

theorem bestSym_none (R : List RSym) (a : Nat) (h : ∀ s ∈ R, a < s.addr) : bestSym R a = none := by
  unfold bestSym
  induction R with
  | nil => rfl
  | cons s R ih =>
    have hs : ¬ s.addr ≤ a := by have := h s (by simp); omega
    simp only [List.foldl_cons, bestStep, hs, if_false]
    exact ih (fun x hx => h x (by simp [hx]))

theorem nextAddr_none (R : List RSym) (x : Nat) (h : ∀ s ∈ R, ¬ x < s.addr) : nextAddr R x = none := by
  unfold nextAddr
  induction R with
  | nil => rfl
  | cons s R ih =>
    simp only [List.foldl_cons, nextStep, h s (by simp), if_false]
    exact ih (fun t ht => h t (by simp [ht]))

theorem nextAddr_gen (x n : Nat) (hx : x < n) :
    ∀ (L : List RSym) (acc : Option Nat), (∀ s ∈ L, x < s.addr → n ≤ s.addr) →
      (∀ b, acc = some b → n ≤ b) → (acc = some n ∨ ∃ s ∈ L, s.addr = n) →
      L.foldl (nextStep x) acc = some n := by
  intro L
  induction L with
  | nil =>
    intro acc _ _ h4
    rcases h4 with h | ⟨s, hs, _⟩
    · simpa using h
    · cases hs
  | cons s L ih =>
    intro acc h2 h3 h4
    simp only [List.foldl_cons]
    have h2' : ∀ t ∈ L, x < t.addr → n ≤ t.addr := fun t ht => h2 t (by simp [ht])
    by_cases hxs : x < s.addr
    · have hns := h2 s (by simp) hxs
      cases hacc : acc with
      | none =>
        have : nextStep x none s = some s.addr := by simp [nextStep, hxs]
        rw [this]
        apply ih (some s.addr) h2' (by intro b hb; cases hb; exact hns)
        rcases h4 with h | ⟨t, ht, htn⟩
        · rw [hacc] at h; cases h
        · rcases List.mem_cons.1 ht with e | e
          · subst e; left; rw [htn]
          · exact Or.inr ⟨t, e, htn⟩
      | some b =>
        have hnb := h3 b hacc
        by_cases hsb : s.addr < b
        · have : nextStep x (some b) s = some s.addr := by simp [nextStep, hxs, hsb]
          rw [this]
          apply ih (some s.addr) h2' (by intro c hc; cases hc; exact hns)
          rcases h4 with h | ⟨t, ht, htn⟩
          · rw [hacc] at h; cases h; omega
          · rcases List.mem_cons.1 ht with e | e
            · subst e; left; rw [htn]
            · exact Or.inr ⟨t, e, htn⟩
        · have : nextStep x (some b) s = some b := by simp [nextStep, hxs, hsb]
          rw [this]
          apply ih (some b) h2' (by intro c hc; cases hc; exact hnb)
          rcases h4 with h | ⟨t, ht, htn⟩
          · rw [hacc] at h; exact Or.inl h
          · rcases List.mem_cons.1 ht with e | e
            · subst e; left
              have : b = t.addr := by omega
              rw [this, htn]
            · exact Or.inr ⟨t, e, htn⟩
    · have : nextStep x acc s = acc := by simp [nextStep, hxs]
      rw [this]
      apply ih acc h2' h3
      rcases h4 with h | ⟨t, ht, htn⟩
      · exact Or.inl h
      · rcases List.mem_cons.1 ht with e | e
        · subst e; omega
        · exact Or.inr ⟨t, e, htn⟩

theorem nextAddr_of (R : List RSym) (x : Nat) (o : Option Nat) (h : NextIs (R.map (·.addr)) x o) :
    nextAddr R x = o := by
  cases o with
  | none =>
    exact nextAddr_none R x (fun s hs => h s.addr (List.mem_map.2 ⟨s, hs, rfl⟩))
  | some n =>
    obtain ⟨h1, h2, h3⟩ := h
    obtain ⟨s, hs, hsn⟩ := List.mem_map.1 h1
    exact nextAddr_gen x n h2 R none (fun t ht hx => h3 t.addr (List.mem_map.2 ⟨t, ht, rfl⟩) hx)
      (by intro b hb; cases hb) (Or.inr ⟨s, hs, hsn⟩)

end BPS
