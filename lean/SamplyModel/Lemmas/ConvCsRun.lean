import SamplyModel.Lemmas.ConvCs
import SamplyModel.Lemmas.ConvHistStep
/-!
C12 at the level of `Conv.run cfg rs` (convD2): the thread object bound to (pid, tid) is carried unchanged between
the records of the thread — its fields `lastTs`, `context_switch_data`, `off_cpu_stack` (the triple `tq`) change
only through the thread-level functions applied to it, and the samples emitted for it are appended to the buffer of
its process. So along a history without EXIT / EXEC the thread object and the samples in the buffer tagged with
(pid, tid) are those of `threadRun` over the thread's own records (`trecs`).
-/
namespace Conv
open ConvSpec CS

/-- the part of a buffered sample the C12 statements read -/
def esamp (u : USample) : Nat × Nat × Nat × Nat × Bool := (u.t, u.tmono, u.cpu, u.weight, u.synth)

theorem cpuSum_esamp {a b : List USample} (h : a.map esamp = b.map esamp) : cpuSum a = cpuSum b := by
  have : a.map (·.cpu) = b.map (·.cpu) := by
    have := congrArg (List.map (fun x : Nat × Nat × Nat × Nat × Bool => x.2.2.1)) h
    simpa [List.map_map, esamp, Function.comp_def] using this
  unfold cpuSum; rw [this]

theorem offWeight_esamp {a b : List USample} (h : a.map esamp = b.map esamp) : offWeight a = offWeight b := by
  have : (a.filter (·.synth)).map (·.weight) = (b.filter (·.synth)).map (·.weight) := by
    have := congrArg (fun l : List (Nat × Nat × Nat × Nat × Bool) => (l.filter (fun x => x.2.2.2.2)).map (fun x => x.2.2.2.1)) h
    simpa [List.filter_map, List.map_map, esamp, Function.comp_def] using this
  unfold offWeight; rw [this]

/-! ### the thread-level functions read the triple and the configuration only -/

theorem eq_of_tqOf {a b : ThreadC} (h : tqOf a = tqOf b) : b = { a with h := b.h, name := b.name } := by
  obtain ⟨h1, l1, n1, c1, o1⟩ := a
  obtain ⟨h2, l2, n2, c2, o2⟩ := b
  simp only [tqOf, Prod.mk.injEq] at h
  obtain ⟨rfl, rfl, rfl⟩ := h
  rfl

theorem offCpuGroup_esamp (s s' : St) (hc : s'.cfg = s.cfg) (h h' : Nat) (g : Group) (c : Nat) (stk : List SFrame)
    (lbl lbl' : String) (pid tid : Nat) :
    (offCpuGroup s' h' g c stk lbl' pid tid).map esamp = (offCpuGroup s h g c stk lbl pid tid).map esamp := by
  unfold offCpuGroup
  simp only [conv, hc]
  split <;> rfl

theorem wake_congr (s s' : St) (hc : s'.cfg = s.cfg) (th th' : ThreadC) (h : tqOf th' = tqOf th) (e : Ev)
    (pid tid : Nat) :
    tqOf (wake s' th' e pid tid).1 = tqOf (wake s th e pid tid).1 ∧
    (wake s' th' e pid tid).2.1.map esamp = (wake s th e pid tid).2.1.map esamp ∧
    (wake s' th' e pid tid).2.2 = (wake s th e pid tid).2.2 := by
  rw [eq_of_tqOf h.symm]
  unfold wake
  simp only [hc]
  cases (CS.step s.cfg.interval th.cs e).2.1 with
  | none => exact ⟨rfl, rfl, rfl⟩
  | some g =>
    cases th.offStack with
    | none => exact ⟨rfl, rfl, rfl⟩
    | some stk => exact ⟨rfl, offCpuGroup_esamp s s' hc _ _ _ _ _ _ _ _ _, rfl⟩

theorem sampleThread_congr (s s' : St) (hc : s'.cfg = s.cfg) (th th' : ThreadC) (h : tqOf th' = tqOf th)
    (pid tid t period : Nat) (stack : List SFrame) :
    tqOf (sampleThread s' th' pid tid t period stack).1 = tqOf (sampleThread s th pid tid t period stack).1 ∧
    (sampleThread s' th' pid tid t period stack).2.1.map esamp =
      (sampleThread s th pid tid t period stack).2.1.map esamp ∧
    (sampleThread s' th' pid tid t period stack).2.2 = (sampleThread s th pid tid t period stack).2.2 := by
  have hw := wake_congr s s' hc { th with lastTs := some t } { th' with lastTs := some t }
    (by simp only [tqOf, Prod.mk.injEq] at h ⊢; exact ⟨trivial, h.2.1, h.2.2⟩) (.sample t) pid tid
  obtain ⟨w1, w2, w3⟩ := hw
  have wcs : (wake s' { th' with lastTs := some t } (.sample t) pid tid).1.cs =
      (wake s { th with lastTs := some t } (.sample t) pid tid).1.cs := congrArg (fun x : TQ => x.2.1) w1
  unfold sampleThread
  by_cases ho : s.cfg.offCpu.isSome = true
  · simp only [hc, ho, if_true, wcs]
    refine ⟨?_, ?_, w3⟩
    · simp only [tqOf, Prod.mk.injEq] at w1 ⊢
      exact ⟨w1.1, trivial, w1.2.2⟩
    · simp only [List.map_append, w2, List.map_cons, List.map_nil, esamp, conv, hc, USample.synth_mk,
        ItemKind.recorded_bne]
  · simp only [hc, ho, if_false, Bool.false_eq_true]
    refine ⟨w1, ?_, w3⟩
    simp only [List.map_append, w2, List.map_cons, List.map_nil, esamp, conv, hc, USample.synth_mk,
      ItemKind.recorded_bne]

theorem switchOutThread_congr (s s' : St) (hc : s'.cfg = s.cfg) (th th' : ThreadC) (h : tqOf th' = tqOf th)
    (t : Nat) :
    tqOf (switchOutThread s' th' t).1 = tqOf (switchOutThread s th t).1 ∧
    (switchOutThread s' th' t).2.1 = [] ∧ (switchOutThread s th t).2.1 = [] ∧
    (switchOutThread s' th' t).2.2 = (switchOutThread s th t).2.2 := by
  rw [eq_of_tqOf h.symm]
  simp [switchOutThread, hc, tqOf]

theorem schedThread_congr (s s' : St) (hc : s'.cfg = s.cfg) (th th' : ThreadC) (h : tqOf th' = tqOf th)
    (t : Nat) (stack : List SFrame) :
    tqOf (schedThread s' th' t stack).1 = tqOf (schedThread s th t stack).1 ∧
    (schedThread s' th' t stack).2.1 = [] ∧ (schedThread s th t stack).2.1 = [] ∧
    (schedThread s' th' t stack).2.2 = (schedThread s th t stack).2.2 := by
  rw [eq_of_tqOf h.symm]
  unfold schedThread
  simp only [hc]
  split <;> simp [switchOutThread, hc, tqOf]

/-! ### the records of one thread, and the invariant -/

/-- a record of the history as the thread object of (pid, tid) sees it (`none`: not a record of that thread, an
idle-thread record, or a record kind that does not touch the context-switch data) -/
def trecOf (cfg : Config) (pid tid : Nat) : Rec → Option TRec
  | .sample p t' t km period ip chain =>
    if p = pid ∧ t' = tid ∧ tid ≠ 0 then some (.sample t period (sampleStack cfg km ip chain)) else none
  | .switchIn p t' t => if p = pid ∧ t' = tid ∧ tid ≠ 0 then some (.switchIn t) else none
  | .switchOut p t' t => if p = pid ∧ t' = tid ∧ tid ≠ 0 then some (.switchOut t) else none
  | .sched p t' t km ip chain => if p = pid ∧ t' = tid then some (.sched t (sampleStack cfg km ip chain)) else none
  | _ => none

def trecs (cfg : Config) (pid tid : Nat) (rs : List Rec) : List TRec := rs.filterMap (trecOf cfg pid tid)

/-- the samples in the buffer of `pid` that were emitted for thread `tid` -/
def threadBuf (s : St) (pid tid : Nat) : List USample :=
  (pobs s.procs pid).samples.filter (fun u => u.gtid == tid && !u.marker)

/-- the `context_switch_data` of the thread object bound to (pid, tid) (`Default` when none is bound) -/
def threadCs (s : St) (pid tid : Nat) : CS.St := ((pobs s.procs pid).thr tid).2.1

structure TW (cfg : Config) (s : St) (pid tid : Nat) (r : TRun) : Prop where
  sim : ∃ st, Sim cfg s st
  tq : (pobs s.procs pid).thr tid = tqOf r.th
  /-- the samples of the current incarnation are the last ones buffered for (pid, tid): `old` are those of earlier
  incarnations of a non-main thread (a main thread's EXIT / EXEC parks the whole buffer) -/
  buf : ∃ old, (threadBuf s pid tid).map esamp = old ++ r.out.map esamp
  safe : s.bad = false → r.safe = true

theorem TW.congr {cfg : Config} {s s' : St} {pid tid : Nat} {r : TRun} (h : TW cfg s pid tid r)
    (hsim' : ∃ st, Sim cfg s' st) (hthr : (pobs s'.procs pid).thr tid = (pobs s.procs pid).thr tid)
    (hsamp : (pobs s'.procs pid).samples = (pobs s.procs pid).samples) (hbad : s'.bad = s.bad) :
    TW cfg s' pid tid r :=
  ⟨hsim', by rw [hthr]; exact h.tq, by unfold threadBuf; rw [hsamp]; exact h.buf, by rw [hbad]; exact h.safe⟩

/-- a record that goes through `commitThread` for the thread (p, t') -/
theorem TW.commit {cfg : Config} {s s' : St} {pid tid : Nat} {r r' : TRun} (h : TW cfg s pid tid r)
    (hsim' : ∃ st, Sim cfg s' st) (p t' : Nat) (q' : TQ) (new : List USample) (safe' : Bool)
    (hobs : ∀ a, pobs s'.procs a = upd (pobs s.procs) p
      { (pobs s.procs p).setThr t' q' with samples := (pobs s.procs p).samples ++ new } a)
    (hbad : s'.bad = (s.bad || !safe')) (hnew : ∀ u ∈ new, u.gtid = t' ∧ u.marker = false)
    (hmine : p = pid → t' = tid →
      q' = tqOf r'.th ∧ r'.out.map esamp = r.out.map esamp ++ new.map esamp ∧ r'.safe = (r.safe && safe'))
    (hother : ¬ (p = pid ∧ t' = tid) → r' = r) : TW cfg s' pid tid r' := by
  have hbad1 : s'.bad = false → s.bad = false ∧ safe' = true := by
    intro hb
    rw [hbad] at hb
    cases h1 : s.bad <;> cases h2 : safe' <;> simp_all
  by_cases hp : p = pid
  · subst hp
    by_cases ht : t' = tid
    · subst ht
      obtain ⟨m1, m2, m3⟩ := hmine rfl rfl
      refine ⟨hsim', ?_, ?_, ?_⟩
      · rw [hobs p]; unfold upd; rw [if_pos rfl]
        simp only [PObs.setThr, if_true]
        exact m1
      · obtain ⟨old, hold⟩ := h.buf
        refine ⟨old, ?_⟩
        unfold threadBuf at hold ⊢
        rw [hobs p]; unfold upd; rw [if_pos rfl]
        show ((((pobs s.procs p).samples ++ new)).filter (fun u => u.gtid == t' && !u.marker)).map esamp = _
        rw [List.filter_append, List.map_append, m2, hold, List.append_assoc]
        congr 2
        rw [List.filter_eq_self.mpr]
        intro u hu; simp [(hnew u hu).1, (hnew u hu).2]
      · intro hb
        obtain ⟨b1, b2⟩ := hbad1 hb
        rw [m3, h.safe b1, b2]; rfl
    · rw [hother (fun e => ht e.2)]
      refine ⟨hsim', ?_, ?_, fun hb => h.safe (hbad1 hb).1⟩
      · rw [hobs p]; unfold upd; rw [if_pos rfl]
        simp only [PObs.setThr]
        rw [if_neg (fun e => ht e.symm)]
        exact h.tq
      · obtain ⟨old, hold⟩ := h.buf
        refine ⟨old, ?_⟩
        unfold threadBuf at hold ⊢
        rw [hobs p]; unfold upd; rw [if_pos rfl]
        show ((((pobs s.procs p).samples ++ new)).filter (fun u => u.gtid == tid && !u.marker)).map esamp = _
        rw [List.filter_append]
        have : new.filter (fun u => u.gtid == tid && !u.marker) = [] := by
          rw [List.filter_eq_nil_iff]
          intro u hu
          rw [(hnew u hu).1]
          simp [ht]
        rw [this, List.append_nil]
        exact hold
  · rw [hother (fun e => hp e.1)]
    have e : pobs s'.procs pid = pobs s.procs pid := by
      rw [hobs pid]; unfold upd; rw [if_neg (fun e => hp e.symm)]
    exact ⟨hsim', by rw [e]; exact h.tq, by unfold threadBuf; rw [e]; exact h.buf,
      fun hb => h.safe (hbad1 hb).1⟩

/-- a record that only appends marker items to the buffer of `p` -/
theorem TW.markers {cfg : Config} {s s' : St} {pid tid : Nat} {r : TRun} (h : TW cfg s pid tid r)
    (hsim' : ∃ st, Sim cfg s' st) (p : Nat) (new : List USample)
    (hobs : ∀ a, pobs s'.procs a = upd (pobs s.procs) p
      { pobs s.procs p with samples := (pobs s.procs p).samples ++ new } a)
    (hbad : s'.bad = s.bad) (hm : ∀ u ∈ new, u.marker = true) : TW cfg s' pid tid r := by
  refine ⟨hsim', ?_, ?_, by rw [hbad]; exact h.safe⟩
  · rw [hobs pid]; unfold upd
    split
    · next e => rw [← e]; exact h.tq
    · exact h.tq
  · obtain ⟨old, hold⟩ := h.buf
    refine ⟨old, ?_⟩
    unfold threadBuf at hold ⊢
    rw [hobs pid]; unfold upd
    split
    · next e =>
      rw [← e]
      show ((((pobs s.procs pid).samples ++ new)).filter (fun u => u.gtid == tid && !u.marker)).map esamp = _
      rw [List.filter_append]
      have : new.filter (fun u => u.gtid == tid && !u.marker) = [] := by
        rw [List.filter_eq_nil_iff]
        intro u hu
        simp [hm u hu]
      rw [this, List.append_nil]
      exact hold
    · exact hold

/-! ### one record -/

/-- EXIT and EXEC end thread incarnations (the cut points of `accStep` / `CsSpec`) -/
def isCut : Rec → Bool
  | .exit .. => true
  | .comm _ _ _ true _ => true
  | _ => false

theorem upd_thr (f : Nat → PObs) (k a : Nat) (m : List (Nat × MapAdd)) :
    (upd f k { f k with mapq := m } a).thr = (f a).thr ∧ (upd f k { f k with mapq := m } a).samples = (f a).samples := by
  unfold upd
  split
  · next e => rw [e]; exact ⟨rfl, rfl⟩
  · exact ⟨rfl, rfl⟩

theorem tw_step {cfg : Config} {s : St} {pid tid : Nat} {r : TRun} (h : TW cfg s pid tid r)
    (rec : Rec) (hcut : isCut rec = false) :
    TW cfg (step s rec) pid tid
      (match trecOf cfg pid tid rec with
       | some x => threadStep (St.init cfg) pid tid r x
       | none => r) := by
  obtain ⟨st, hsim⟩ := h.sim
  have hsim' : ∃ st', Sim cfg (step s rec) st' := ⟨_, step_sim hsim rec⟩
  have hinv := hsim.inv
  have hcfg : s.cfg = cfg := hsim.hcfg
  cases rec with
  | exit pid' tid' t => simp [isCut] at hcut
  | otherEvent p t' t km ip chain =>
    -- a sample of another event never reaches the thread object: only a marker item is buffered
    obtain ⟨_, _, o3, u, _, u2, _, _, _, _, _, o4⟩ := obs_otherEvent hinv p t' t km ip chain
    exact h.markers hsim' p [u] o4 o3 (fun x hx => by simp only [List.mem_singleton] at hx; rw [hx]; exact u2)
  | fork pid' tid' ppid ptid t =>
    obtain ⟨o1, _, _, o4⟩ := obs_fork hinv pid' tid' ppid ptid t
    have e : ∀ a, (pobs (step s (.fork pid' tid' ppid ptid t)).procs a).thr = (pobs s.procs a).thr ∧
        (pobs (step s (.fork pid' tid' ppid ptid t)).procs a).samples = (pobs s.procs a).samples := by
      intro a
      rw [o1 a]
      split
      · exact upd_thr _ _ _ _
      · exact ⟨rfl, rfl⟩
    exact h.congr hsim' (by rw [(e pid).1]) (e pid).2 o4
  | mmap2 pid' tid' addr len pgoff exec path t =>
    obtain ⟨o1, _, _, o4⟩ := obs_mmap2 hinv pid' tid' addr len pgoff exec path t
    have e : ∀ a, (pobs (step s (.mmap2 pid' tid' addr len pgoff exec path t)).procs a).thr = (pobs s.procs a).thr ∧
        (pobs (step s (.mmap2 pid' tid' addr len pgoff exec path t)).procs a).samples = (pobs s.procs a).samples := by
      intro a
      rw [o1 a]
      split
      · exact upd_thr _ _ _ _
      · exact ⟨rfl, rfl⟩
    exact h.congr hsim' (by rw [(e pid).1]) (e pid).2 o4
  | comm pid' tid' name isExec t =>
    cases isExec with
    | true => simp [isCut] at hcut
    | false =>
      obtain ⟨o1, _, _, o4⟩ := obs_comm hinv pid' tid' name false t
      simp only [Bool.false_eq_true, if_false] at o1
      exact h.congr hsim' (by rw [o1 pid]) (by rw [o1 pid]) o4
  | switchIn p t' t =>
    by_cases h0 : t' = 0
    · have hstep : step s (.switchIn p t' t) = s := by rw [h0]; simp [step]
      have hnone : trecOf cfg pid tid (.switchIn p t' t) = none := by
        simp only [trecOf]; rw [if_neg]; intro ⟨_, e, ne⟩; exact ne (e.symm.trans h0)
      rw [hstep, hnone]; exact h
    · have e : step s (.switchIn p t' t) =
          commitThread (getThread (getByPid s p).1 (getByPid s p).2 t').1
            (getThread (getByPid s p).1 (getByPid s p).2 t').2.1 t'
            (wake (getThread (getByPid s p).1 (getByPid s p).2 t').1
              (getThread (getByPid s p).1 (getByPid s p).2 t').2.2 (.switchIn t) p t') := by
        simp [step, h0]
      rw [e] at hsim' ⊢
      obtain ⟨c1, c2, _, c4, _, _, c7⟩ := obs_commit hinv p t' (fun s2 th => wake s2 th (.switchIn t) p t')
      generalize getThread (getByPid s p).1 (getByPid s p).2 t' = gt at *
      refine h.commit hsim' p t' _ _ _ c4 c7
        (fun u hu => ⟨((wake_spec _ _ _ _ _).2.2.2 u hu).1.2.2, wake_nomarker _ _ _ _ _ u hu⟩) ?_ ?_
      · intro hp ht
        subst hp; subst ht
        have hnt : t' ≠ 0 := h0
        simp only [trecOf, hnt, ne_eq, not_false_eq_true, and_self, if_true]
        obtain ⟨w1, w2, w3⟩ := wake_congr (St.init cfg) gt.1 (c1.trans hcfg) r.th gt.2.2 (c2.trans h.tq)
          (.switchIn t) p t'
        refine ⟨w1, ?_, ?_⟩
        · simp only [threadStep, List.map_append, w2]
        · simp only [threadStep, w3]
      · intro hne
        have : trecOf cfg pid tid (.switchIn p t' t) = none := by
          simp only [trecOf]; rw [if_neg]; intro ⟨e1, e2, _⟩; exact hne ⟨e1, e2⟩
        rw [this]
  | switchOut p t' t =>
    by_cases h0 : t' = 0
    · have hstep : step s (.switchOut p t' t) = s := by rw [h0]; simp [step]
      have hnone : trecOf cfg pid tid (.switchOut p t' t) = none := by
        simp only [trecOf]; rw [if_neg]; intro ⟨_, e, ne⟩; exact ne (e.symm.trans h0)
      rw [hstep, hnone]; exact h
    · have e : step s (.switchOut p t' t) =
          commitThread (getThread (getByPid s p).1 (getByPid s p).2 t').1
            (getThread (getByPid s p).1 (getByPid s p).2 t').2.1 t'
            (switchOutThread (getThread (getByPid s p).1 (getByPid s p).2 t').1
              (getThread (getByPid s p).1 (getByPid s p).2 t').2.2 t) := by
        simp [step, h0]
      rw [e] at hsim' ⊢
      obtain ⟨c1, c2, _, c4, _, _, c7⟩ := obs_commit hinv p t' (fun s2 th => switchOutThread s2 th t)
      generalize getThread (getByPid s p).1 (getByPid s p).2 t' = gt at *
      refine h.commit hsim' p t' _ _ _ c4 c7 (fun u hu => by simp [switchOutThread] at hu) ?_ ?_
      · intro hp ht
        subst hp; subst ht
        have hnt : t' ≠ 0 := h0
        simp only [trecOf, hnt, ne_eq, not_false_eq_true, and_self, if_true]
        obtain ⟨w1, w2, _, w4⟩ := switchOutThread_congr (St.init cfg) gt.1 (c1.trans hcfg) r.th gt.2.2
          (c2.trans h.tq) t
        refine ⟨w1, ?_, ?_⟩
        · simp only [threadStep, w2, List.map_nil, List.append_nil]
        · simp only [threadStep, w4]
      · intro hne
        have : trecOf cfg pid tid (.switchOut p t' t) = none := by
          simp only [trecOf]; rw [if_neg]; intro ⟨e1, e2, _⟩; exact hne ⟨e1, e2⟩
        rw [this]
  | sched p t' t km ip chain =>
    have e : step s (.sched p t' t km ip chain) =
        commitThread (getThread (getByPid s p).1 (getByPid s p).2 t').1
          (getThread (getByPid s p).1 (getByPid s p).2 t').2.1 t'
          (schedThread (getThread (getByPid s p).1 (getByPid s p).2 t').1
            (getThread (getByPid s p).1 (getByPid s p).2 t').2.2 t
            (sampleStack (getThread (getByPid s p).1 (getByPid s p).2 t').1.cfg km ip chain)) := rfl
    rw [e] at hsim' ⊢
    obtain ⟨c1, c2, _, c4, _, _, c7⟩ := obs_commit hinv p t'
      (fun s2 th => schedThread s2 th t (sampleStack s2.cfg km ip chain))
    generalize getThread (getByPid s p).1 (getByPid s p).2 t' = gt at *
    refine h.commit hsim' p t' _ _ _ c4 c7
      (fun u hu => by rw [(schedThread_spec _ _ _ _).2.2.2] at hu; cases hu) ?_ ?_
    · intro hp ht
      subst hp; subst ht
      simp only [trecOf, and_self, if_true]
      have hc : gt.1.cfg = cfg := c1.trans hcfg
      obtain ⟨w1, w2, _, w4⟩ := schedThread_congr (St.init cfg) gt.1 hc r.th gt.2.2
        (c2.trans h.tq) t (sampleStack gt.1.cfg km ip chain)
      rw [hc] at w1 w2 w4
      refine ⟨?_, ?_, ?_⟩
      · rw [hc]; exact w1
      · rw [hc]; simp only [threadStep, w2, List.map_nil, List.append_nil]
      · rw [hc]; simp only [threadStep, w4]
    · intro hne
      have : trecOf cfg pid tid (.sched p t' t km ip chain) = none := by
        simp only [trecOf]; rw [if_neg]; exact hne
      rw [this]
  | sample p t' t km period ip chain =>
    by_cases h0 : t' = 0
    · have hstep : step s (.sample p t' t km period ip chain) = s := by rw [h0]; simp [step]
      have hnone : trecOf cfg pid tid (.sample p t' t km period ip chain) = none := by
        simp only [trecOf]; rw [if_neg]; intro ⟨_, e, ne⟩; exact ne (e.symm.trans h0)
      rw [hstep, hnone]; exact h
    · have hinv0 : InvA { s with cur := t } := ((skel_cur s t).goodT hinv).inv
      obtain ⟨c1, c2, c3, c4, _, _, c7⟩ := obs_commit hinv0 p t'
        (fun s2 th => sampleThread s2 th p t' t period (sampleStack s2.cfg km ip chain))
      rw [LifeL.step_sample, if_neg h0] at hsim' ⊢
      simp only [] at hsim' ⊢
      generalize getThread (getByPid { s with cur := t } p).1 (getByPid { s with cur := t } p).2 t' = gt at *
      have hc : gt.1.cfg = cfg := by
        have : gt.1.cfg = s.cfg := c1
        rw [this]; exact hcfg
      have c2' : tqOf gt.2.2 = (pobs s.procs p).thr t' := c2
      have hl : gt.2.2.lastTs = ((pobs s.procs p).thr t').1 := by rw [← c2']; rfl
      by_cases hd : gt.2.2.lastTs = some t
      · rw [if_pos hd] at hsim' ⊢
        have hsame : TW cfg gt.1 pid tid r := h.congr hsim' (by rw [c3.obs]) (by rw [c3.obs]) c3.bad
        by_cases hme : p = pid ∧ t' = tid
        · obtain ⟨hp, ht⟩ := hme
          subst hp; subst ht
          have hnt : t' ≠ 0 := h0
          have hdup : r.th.lastTs = some t := by
            have : (tqOf r.th).1 = some t := by rw [← h.tq, ← hl]; exact hd
            exact this
          simp only [trecOf, hnt, ne_eq, not_false_eq_true, and_self, if_true, threadStep, hdup]
          exact hsame
        · have : trecOf cfg pid tid (.sample p t' t km period ip chain) = none := by
            simp only [trecOf]; rw [if_neg]; intro ⟨e1, e2, _⟩; exact hme ⟨e1, e2⟩
          rw [this]; exact hsame
      · rw [if_neg hd] at hsim' ⊢
        refine h.commit hsim' p t' _ _ _ c4 c7 ?_ ?_ ?_
        · intro u hu
          refine ⟨?_, sampleThread_nomarker _ _ _ _ _ _ _ u hu⟩
          obtain ⟨_, _, _, pre, x, hout, hpre, _, _, hx3, _⟩ :=
            sampleThread_spec gt.1 gt.2.2 p t' t period (sampleStack gt.1.cfg km ip chain)
          rw [hout] at hu
          rcases List.mem_append.mp hu with hu | hu
          · exact (hpre u hu).1.2.2
          · simp only [List.mem_singleton] at hu; rw [hu]; exact hx3
        · intro hp ht
          subst hp; subst ht
          have hnt : t' ≠ 0 := h0
          have hndup : ¬ r.th.lastTs = some t := by
            intro hx
            apply hd
            have : (tqOf r.th).1 = some t := hx
            rw [← h.tq, ← hl] at this
            exact this
          simp only [trecOf, hnt, ne_eq, not_false_eq_true, and_self, if_true, threadStep, hndup, if_false]
          obtain ⟨w1, w2, w3⟩ := sampleThread_congr (St.init cfg) gt.1 hc r.th gt.2.2 (c2'.trans h.tq) p t' t
            period (sampleStack gt.1.cfg km ip chain)
          rw [hc] at w1 w2 w3
          refine ⟨?_, ?_, ?_⟩
          · rw [hc]; exact w1
          · rw [hc]; simp only [List.map_append, w2]
          · rw [hc]; simp only [w3]
        · intro hne
          have : trecOf cfg pid tid (.sample p t' t km period ip chain) = none := by
            simp only [trecOf]; rw [if_neg]; intro ⟨e1, e2, _⟩; exact hne ⟨e1, e2⟩
          rw [this]

/-! ### EXIT / EXEC: the incarnation ends -/

/-- the record ends the current incarnation of thread (pid, tid): its own EXIT / EXEC, or the EXIT / EXEC of the
main thread of its process -/
def cutsThread (pid tid : Nat) : Rec → Bool
  | .exit p t' _ => decide (p = pid) && (decide (t' = tid) || decide (p = t'))
  | .comm p t' _ true _ => decide (p = pid) && (decide (t' = tid) || decide (p = t'))
  | _ => false

def freshRun : TRun := { th := { h := 0 } }

/-- one record of the history, as the thread object of (pid, tid) and its run see it -/
def runStep (cfg : Config) (pid tid : Nat) (r : TRun) (rec : Rec) : TRun :=
  if cutsThread pid tid rec then freshRun
  else match trecOf cfg pid tid rec with
    | some x => threadStep (St.init cfg) pid tid r x
    | none => r

theorem cutsThread_isCut {pid tid : Nat} {rec : Rec} (h : isCut rec = false) : cutsThread pid tid rec = false := by
  cases rec with
  | exit => simp [isCut] at h
  | comm p t' nm ex t => cases ex <;> simp_all [isCut, cutsThread]
  | _ => rfl

theorem trecOf_cut {cfg : Config} {pid tid : Nat} {rec : Rec} (h : isCut rec = true) : trecOf cfg pid tid rec = none := by
  cases rec with
  | exit => rfl
  | comm p t' nm ex t => rfl
  | sample => simp [isCut] at h
  | fork => rfl
  | mmap2 => rfl
  | switchIn => simp [isCut] at h
  | switchOut => simp [isCut] at h
  | sched => simp [isCut] at h
  | otherEvent => simp [isCut] at h

/-- the thread's own EXIT / EXEC (non-main): the triple is reset, the buffer keeps the samples of the incarnation
that ended -/
theorem TW.resetThread {cfg : Config} {s s' : St} {pid tid : Nat} {r : TRun} (h : TW cfg s pid tid r)
    (hsim' : ∃ st, Sim cfg s' st) (p t' : Nat)
    (hobs : ∀ a, pobs s'.procs a = upd (pobs s.procs) p ((pobs s.procs p).setThr t' tqFresh) a)
    (hbad : s'.bad = s.bad) :
    TW cfg s' pid tid (if p = pid ∧ t' = tid then freshRun else r) := by
  by_cases hme : p = pid ∧ t' = tid
  · obtain ⟨hp, ht⟩ := hme
    subst hp; subst ht
    rw [if_pos ⟨rfl, rfl⟩]
    obtain ⟨old, hold⟩ := h.buf
    refine ⟨hsim', ?_, ⟨old ++ r.out.map esamp, ?_⟩, fun _ => rfl⟩
    · rw [hobs p]; unfold upd; rw [if_pos rfl]
      simp only [PObs.setThr, if_true]; rfl
    · unfold threadBuf at hold ⊢
      rw [hobs p]; unfold upd; rw [if_pos rfl]
      show ((pobs s.procs p).samples.filter (fun u => u.gtid == t' && !u.marker)).map esamp = _
      rw [hold]; simp [freshRun]
  · rw [if_neg hme]
    refine h.congr hsim' ?_ ?_ hbad
    · rw [hobs pid]; unfold upd
      split
      · next e =>
        simp only [PObs.setThr]
        rw [if_neg (fun e2 => hme ⟨e.symm, e2.symm⟩), e]
      · rfl
    · rw [hobs pid]; unfold upd
      split
      · next e => rw [e]; rfl
      · rfl

/-- EXIT / EXEC of a main thread: the process is removed (its buffer parked) -/
theorem TW.resetProc {cfg : Config} {s s' : St} {pid tid : Nat} {r : TRun} (h : TW cfg s pid tid r)
    (hsim' : ∃ st, Sim cfg s' st) (p : Nat)
    (hobs : ∀ a, pobs s'.procs a = upd (pobs s.procs) p PObs.empty a) (hbad : s'.bad = s.bad) :
    TW cfg s' pid tid (if p = pid then freshRun else r) := by
  by_cases hp : p = pid
  · subst hp
    rw [if_pos rfl]
    refine ⟨hsim', ?_, ⟨[], ?_⟩, fun _ => rfl⟩
    · rw [hobs p]; unfold upd; rw [if_pos rfl]; rfl
    · unfold threadBuf
      rw [hobs p]; unfold upd; rw [if_pos rfl]; rfl
  · rw [if_neg hp]
    have e : pobs s'.procs pid = pobs s.procs pid := by
      rw [hobs pid]; unfold upd; rw [if_neg (fun e => hp e.symm)]
    exact h.congr hsim' (by rw [e]) (by rw [e]) hbad

/-- every record -/
theorem tw_step_all {cfg : Config} {s : St} {pid tid : Nat} {r : TRun} (h : TW cfg s pid tid r) (rec : Rec) :
    TW cfg (step s rec) pid tid (runStep cfg pid tid r rec) := by
  cases hc : isCut rec with
  | false =>
    have := tw_step h rec hc
    unfold runStep
    rw [cutsThread_isCut hc]
    exact this
  | true =>
    obtain ⟨st, hsim⟩ := h.sim
    have hsim' : ∃ st', Sim cfg (step s rec) st' := ⟨_, step_sim hsim rec⟩
    have hinv := hsim.inv
    have hnone : trecOf cfg pid tid rec = none := trecOf_cut hc
    unfold runStep
    rw [hnone]
    cases rec with
    | exit p t' t =>
      obtain ⟨o1, _, _, o4⟩ := obs_exit hinv p t' t
      by_cases hpt : p = t'
      · subst hpt
        simp only [if_true] at o1
        have := h.resetProc hsim' p o1 o4
        simp only [cutsThread, decide_true, Bool.or_true, Bool.and_true]
        by_cases hp : p = pid
        · simpa [hp] using this
        · simpa [hp] using this
      · simp only [if_neg hpt] at o1
        have := h.resetThread hsim' p t' o1 o4
        simp only [cutsThread, hpt, decide_false, Bool.or_false, Bool.and_eq_true, decide_eq_true_eq]
        exact this
    | comm p t' nm ex t =>
      cases ex with
      | false => simp [isCut] at hc
      | true =>
        obtain ⟨o1, _, _, o4⟩ := obs_comm hinv p t' nm true t
        simp only [if_true] at o1
        by_cases hpt : p = t'
        · subst hpt
          simp only [if_true] at o1
          have := h.resetProc hsim' p o1 o4
          simp only [cutsThread, decide_true, Bool.or_true, Bool.and_true]
          by_cases hp : p = pid
          · simpa [hp] using this
          · simpa [hp] using this
        · simp only [if_neg hpt] at o1
          have := h.resetThread hsim' p t' o1 o4
          simp only [cutsThread, hpt, decide_false, Bool.or_false, Bool.and_eq_true, decide_eq_true_eq]
          exact this
    | sample => simp [isCut] at hc
    | fork => simp [isCut] at hc
    | mmap2 => simp [isCut] at hc
    | switchIn => simp [isCut] at hc
    | switchOut => simp [isCut] at hc
    | sched => simp [isCut] at hc
    | otherEvent => simp [isCut] at hc

/-! ### whole histories -/

/-- the records of the current incarnation of thread (pid, tid): those that reach its thread object since the last
EXIT / EXEC that ended an incarnation of it -/
def curRecs (cfg : Config) (pid tid : Nat) (rs : List Rec) : List TRec :=
  rs.foldl (fun acc r =>
    if cutsThread pid tid r then [] else
    match trecOf cfg pid tid r with
    | some x => acc ++ [x]
    | none => acc) []

theorem runStep_fold (cfg : Config) (pid tid : Nat) (rs : List Rec) :
    ∀ (acc : List TRec),
      rs.foldl (runStep cfg pid tid) (acc.foldl (threadStep (St.init cfg) pid tid) freshRun) =
        (rs.foldl (fun acc r =>
          if cutsThread pid tid r then [] else
          match trecOf cfg pid tid r with
          | some x => acc ++ [x]
          | none => acc) acc).foldl (threadStep (St.init cfg) pid tid) freshRun := by
  induction rs with
  | nil => intro acc; rfl
  | cons r rs ih =>
    intro acc
    rw [List.foldl_cons, List.foldl_cons]
    by_cases hc : cutsThread pid tid r = true
    · simp only [hc, if_true]
      have : runStep cfg pid tid (acc.foldl (threadStep (St.init cfg) pid tid) freshRun) r = freshRun := by
        unfold runStep; rw [if_pos hc]
      rw [this]
      exact ih []
    · have hc' : cutsThread pid tid r = false := by simpa using hc
      simp only [hc', Bool.false_eq_true, if_false]
      cases hx : trecOf cfg pid tid r with
      | none =>
        have : runStep cfg pid tid (acc.foldl (threadStep (St.init cfg) pid tid) freshRun) r =
            acc.foldl (threadStep (St.init cfg) pid tid) freshRun := by
          unfold runStep; rw [hc', hx]; rfl
        rw [this]
        exact ih acc
      | some x =>
        have : runStep cfg pid tid (acc.foldl (threadStep (St.init cfg) pid tid) freshRun) r =
            (acc ++ [x]).foldl (threadStep (St.init cfg) pid tid) freshRun := by
          unfold runStep; rw [hc', hx, List.foldl_append]; rfl
        rw [this]
        exact ih (acc ++ [x])

theorem tw_fold {cfg : Config} (pid tid : Nat) (rs : List Rec) :
    ∀ (s : St) (r : TRun), TW cfg s pid tid r → TW cfg (rs.foldl step s) pid tid (rs.foldl (runStep cfg pid tid) r) := by
  induction rs with
  | nil => intro s r h; exact h
  | cons x rs ih => intro s r h; exact ih (step s x) _ (tw_step_all h x)

theorem tw_init (cfg : Config) (pid tid : Nat) : TW cfg (St.init cfg) pid tid freshRun :=
  ⟨⟨_, Sim.init cfg⟩, rfl, ⟨[], rfl⟩, fun _ => rfl⟩

theorem isCut_of_hasCut {rs : List Rec} (h : CsSpec.hasCut rs = false) : ∀ x ∈ rs, isCut x = false := by
  intro x hx
  cases hc : isCut x with
  | false => rfl
  | true =>
    have : CsSpec.hasCut rs = true := by
      unfold CsSpec.hasCut
      rw [List.any_eq_true]
      refine ⟨x, hx, ?_⟩
      cases x with
      | exit => rfl
      | comm pid tid nm ex t => cases ex <;> simp_all [isCut]
      | sample => simp [isCut] at hc
      | fork => simp [isCut] at hc
      | mmap2 => simp [isCut] at hc
      | switchIn => simp [isCut] at hc
      | switchOut => simp [isCut] at hc
      | sched => simp [isCut] at hc
      | otherEvent => simp [isCut] at hc
    rw [h] at this; cases this

/-- **The binding invariant over a history** (every configuration, every history): the thread object bound to
(pid, tid) after `run cfg rs` carries the triple of `threadRun` over the records of the thread's current
incarnation, and the last samples buffered for (pid, tid) are — in time, cpu delta, weight and kind — the ones that
thread run emitted (the samples before them belong to earlier incarnations of a non-main thread); if the run did not
panic, neither did the thread run. -/
theorem thread_of_run (cfg : Config) (rs : List Rec) (pid tid : Nat) :
    TW cfg (run cfg rs) pid tid (threadRun (St.init cfg) pid tid 0 (curRecs cfg pid tid rs)) := by
  have h := tw_fold pid tid rs (St.init cfg) freshRun (tw_init cfg pid tid)
  have e := runStep_fold cfg pid tid rs []
  simp only [List.foldl_nil] at e
  rw [e] at h
  exact h

/-- without EXIT / EXEC the current incarnation is the whole history of the thread -/
theorem curRecs_nocut (cfg : Config) (pid tid : Nat) (rs : List Rec) (hcut : CsSpec.hasCut rs = false) :
    curRecs cfg pid tid rs = trecs cfg pid tid rs := by
  have key : ∀ (rs : List Rec) (acc : List TRec), (∀ x ∈ rs, isCut x = false) →
      rs.foldl (fun acc r =>
        if cutsThread pid tid r then [] else
        match trecOf cfg pid tid r with
        | some x => acc ++ [x]
        | none => acc) acc = acc ++ trecs cfg pid tid rs := by
    intro rs
    induction rs with
    | nil => intro acc _; simp [trecs]
    | cons r rs ih =>
      intro acc hc
      rw [List.foldl_cons]
      have h1 := cutsThread_isCut (pid := pid) (tid := tid) (hc r List.mem_cons_self)
      simp only [h1, Bool.false_eq_true, if_false]
      unfold trecs
      rw [List.filterMap_cons]
      cases hx : trecOf cfg pid tid r with
      | none => exact ih acc (fun y hy => hc y (List.mem_cons_of_mem _ hy))
      | some x =>
        simp only
        rw [ih (acc ++ [x]) (fun y hy => hc y (List.mem_cons_of_mem _ hy))]
        unfold trecs
        simp
  have := key rs [] (isCut_of_hasCut hcut)
  simpa [curRecs] using this

/-- split a list whose projection ends with a given suffix -/
theorem split_of_map_suffix {α β} (f : α → β) (l : List α) (old cur : List β) (h : l.map f = old ++ cur) :
    ∃ lo lc, l = lo ++ lc ∧ lc.map f = cur := by
  refine ⟨l.take old.length, l.drop old.length, (List.take_append_drop _ _).symm, ?_⟩
  rw [List.map_drop, h, List.drop_left]

end Conv
