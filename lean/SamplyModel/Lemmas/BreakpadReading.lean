import SamplyModel.Lemmas.BreakpadReadFrames
/-!
C10, part 11: for a well-formed abstract file the lookup through the specification index over the
rendered text equals the direct reading of the records.
-/
namespace BPS
open BP
open LB (Byte)

theorem wfAt_of_wf (s : SymFile) (h : WF s) (a : Nat) : WFAt s a := by
  refine ⟨h.index, ?_⟩
  intro r hr size hsz _ halt
  obtain ⟨hinl, hlines⟩ := h.bodies r hr size hsz
  exact ⟨inlAt_of_inlOK _ hinl a, linesAsc_of_linesOK _ _ hlines, lineAt_of_linesOK _ _ a hlines halt⟩

theorem lookup_render_at (s : SymFile) (a : Nat) (h : WFAt s a) :
    lookup (render s) (specIndex s) a = readDirectly s a := by
  have hw := h.index
  -- the text and what lies behind the entries of the index
  have hT := render_restText s
  have hoff : (s.moduleLine ++ List.replicate s.moduleCrs 13).length + 1 = firstOff s := by
    simp [firstOff]
  have hS := entries_ok (render s) s.finalNl (render s).length rfl s.lines hw.recs _ hT
  have hF := files_ok (render s) s.finalNl s.lines hw.recs _ hT
  have hO := origins_ok (render s) s.finalNl s.lines hw.recs _ hT
  rw [hoff] at hS hF hO
  rw [show withOffsets (firstOff s) s.lines = olines s from rfl] at hS hF hO
  have hkS : ((specSymbols (render s).length (olines s)).map (·.1)).Nodup := by
    rw [olines, specSymbols_keys]; exact hw.symDistinct
  have hkF : ((specFiles (olines s)).map (·.index)).Nodup := by
    rw [olines, specFiles_keys]; exact hw.fileDistinct
  have hkO : ((specOrigins (olines s)).map (·.index)).Nodup := by
    rw [olines, specOrigins_keys]; exact hw.originDistinct
  have hkeys : (specSymbols (render s).length (olines s)).map (·.1) = (readSyms s.lines).map (·.addr) :=
    forall2_keys _ _ hS (fun a b hab => hab.1)
  have hkR : ((readSyms s.lines).map (·.addr)).Nodup := by rw [← hkeys]; exact hkS
  have hfiles : ∀ idx, getString fileLine (render s) (specIndex s).files idx = fileName s.lines idx :=
    fun idx => getString_table fileLine (render s) _ _ hF hkF idx
  have horigins : ∀ idx, getString inlineOriginLine (render s) (specIndex s).origins idx = originName s.lines idx :=
    fun idx => getString_table inlineOriginLine (render s) _ _ hO hkO idx
  generalize hSd : specSymbols (render s).length (olines s) = S at hS hkS hkeys
  generalize hRd : readSyms s.lines = R at hS hkeys hkR
  have hixa : (specIndex s).addrs = (sortBy (fun (p : Nat × SymEntry) => p.1) S).map (·.1) := by
    simp [specIndex, hSd]
  have hixe : (specIndex s).entries = (sortBy (fun (p : Nat × SymEntry) => p.1) S).map (·.2) := by
    simp [specIndex, hSd]
  unfold lookup readDirectly
  rw [hRd, hixa, hixe]
  rcases select_spec S hkS a with ⟨hnone, hall⟩ | ⟨i, ae, hsome, hget, haeS, hle, hmax, hnext⟩
  · -- no symbol at or below `a`
    rw [hnone]
    have : bestSym R a = none := by
      apply bestSym_none
      intro r hr
      obtain ⟨ae, hae, hok⟩ := hS.mem_right hr
      rw [← hok.1]; exact hall ae hae
    simp only
    rw [this]
  · rw [hsome]
    simp only
    obtain ⟨A, E⟩ := ae
    have hga : ((sortBy (fun (p : Nat × SymEntry) => p.1) S).map (·.1))[i]? = some A := by
      rw [List.getElem?_map, hget]; rfl
    have hge : ((sortBy (fun (p : Nat × SymEntry) => p.1) S).map (·.2))[i]? = some E := by
      rw [List.getElem?_map, hget]; rfl
    rw [hga, hge]
    simp only
    obtain ⟨r, hr, hok⟩ := hS.mem_left haeS
    have hrA : A = r.addr := hok.1
    have hbest : bestSym R a = some r := by
      apply bestSym_some R hkR r a hr (by rw [← hrA]; exact hle)
      intro s' hs' hsa
      obtain ⟨ae', hae', hok'⟩ := hS.mem_right hs'
      rw [← hok'.1, ← hrA]
      exact hmax ae' hae' (by rw [hok'.1]; exact hsa)
    rw [hbest]
    simp only
    have hnextR : nextAddr R r.addr = ((sortBy (fun (p : Nat × SymEntry) => p.1) S).map (·.1))[i + 1]? := by
      apply nextAddr_of
      rw [← hkeys, ← hrA]; exact hnext
    cases hsz : r.size with
    | none =>
      have hok2 := hok.2
      rw [hsz] at hok2
      obtain ⟨hk, line, hread, hparse⟩ := hok2
      simp only at hk hread
      simp only [hk, if_true, hread, hparse]
      rw [hnextR, ← hrA]
      congr 2
      cases hn : ((sortBy (fun (p : Nat × SymEntry) => p.1) S).map (·.1))[i + 1]? with
      | none => rfl
      | some n =>
        rw [hn] at hnext
        have : A ≤ n := Nat.le_of_lt hnext.2.1
        simp [this]
    | some size =>
      have hok2 := hok.2
      rw [hsz] at hok2
      obtain ⟨hk, block, hread, hparse⟩ := hok2
      simp only at hk hread
      have hk0 : ¬ E.kind = 0 := by omega
      simp only [hk0, if_false, hk, if_true, hread, hparse]
      rw [← hrA]
      simp only [funcInfoOf]
      by_cases hend : A + size ≤ a
      · simp [hend]
      · simp only [hend, if_false]
        have halt : a < r.addr + size := by rw [← hrA]; omega
        obtain ⟨hinl, hasc, hlat⟩ := h.body r (by rw [hRd]; exact hr) size hsz (by rw [← hrA]; exact hle) halt
        have hstep : ∀ d, (inlineeAt ((inlineesOf r.body).mergeSort inlLE) d a).map triple = inlineAt r.body d a := by
          intro d
          rw [inlineeAt_sorted_at _ a hinl, covering_inlineAt]
        have hfuel : ((inlineesOf r.body).mergeSort inlLE).length + 1 = rangeCount r.body + 1 := by
          rw [List.length_mergeSort, inlineesOf_length]
        rw [hfuel]
        rw [frames_eq (render s) (specIndex s) s.lines r.body
          ⟨r.name, size, linesOf r.body, (inlineesOf r.body).mergeSort inlLE⟩ a hfiles horigins hstep]
        simp only [List.nil_append]
        rw [sourceLoc_spec_at (linesOf r.body) a hasc hlat]
        have hla := cover_lineAt r.body a
        cases hfl : (linesOf r.body).find? (coverL a) with
        | none =>
          rw [hfl] at hla
          simp only [Option.map_none] at hla
          rw [← hla]
          simp
        | some sl =>
          rw [hfl] at hla
          simp only [Option.map_some] at hla
          rw [← hla]
          simp [hfiles]

theorem lookup_render (s : SymFile) (h : WF s) (a : Nat) :
    lookup (render s) (specIndex s) a = readDirectly s a :=
  lookup_render_at s a (wfAt_of_wf s h a)

end BPS
