import SamplyModel.Lemmas.SymbolLookup
import SamplyModel.Model.BreakpadLookup
/-!
Lemmas about the Breakpad lookup (C05): the chosen slot, cache transparency, index construction.
-/
namespace Breakpad
open SymLookup

def StrictSorted (ix : List Entry) : Prop := ix.Pairwise (fun a b => a.addr < b.addr)

theorem strict_keys_le {ix : List Entry} (h : StrictSorted ix) : (ix.map (·.addr)).Pairwise (· ≤ ·) := by
  rw [List.pairwise_map]
  exact h.imp (fun h => Nat.le_of_lt h)

/-- the slot a successful lookup used -/
theorem lookupRel_hit {f : File} {ix : List Entry} (hs : StrictSorted ix) {a : Nat} {r : SymInfo}
    (h : lookupRel f ix a = .hit r) :
    ∃ i e, ix[i]? = some e ∧ e.addr = r.start ∧ e.addr ≤ a ∧ entryName f e = some r.name ∧
      (∀ (j : Nat) (e' : Entry), i < j → ix[j]? = some e' → a < e'.addr) ∧
      (∀ n, r.size = some n → a < r.start + n) := by
  unfold lookupRel at h
  split at h
  · simp at h
  next i hp =>
    obtain ⟨k, hk, hka, hgt⟩ := pickIndex_spec _ a (strict_keys_le hs) i hp
    split at h
    · simp at h
    next e he =>
      have hk' : k = e.addr := by
        simp [List.getElem?_map, he] at hk; exact hk.symm
      subst hk'
      have hgt' : ∀ j e', i < j → ix[j]? = some e' → a < e'.addr := by
        intro j e' hij hj
        exact hgt j e'.addr hij (by simp [List.getElem?_map, hj])
      refine ⟨i, e, he, ?_⟩
      unfold answer at h
      split at h
      next hkind =>
        split at h
        · simp at h
        next n hn =>
          injection h with h
          subst h
          refine ⟨rfl, hka, by simp [entryName, hkind, hn], hgt', ?_⟩
          intro sz hsz
          simp only at hsz
          cases hnx : ix[i + 1]? with
          | none => simp [hnx] at hsz
          | some nxt =>
            simp [hnx] at hsz
            have := hgt' (i + 1) nxt (by omega) hnx
            dsimp only
            omega
      next hkind =>
        split at h
        · simp at h
        next size n hn =>
          split at h
          · simp at h
          next hlt =>
            injection h with h
            subst h
            refine ⟨rfl, hka, by simp [entryName, hkind, hn], hgt', ?_⟩
            intro sz hsz
            simp at hsz
            subst hsz
            dsimp only
            omega
      · simp at h

theorem lookupRel_no_panic (f : File) (ix : List Entry) (a : Nat) : lookupRel f ix a ≠ .panic := by
  unfold lookupRel
  split
  · simp
  next i hp =>
    have := pickIndex_lt_length _ a i hp
    simp at this
    split
    next hnone => simp at hnone; omega
    · unfold answer
      split
      · split <;> simp
      · split
        · simp
        · split <;> simp
      · simp

theorem mem_iterSymbols {f : File} {ix : List Entry} {p : Nat × Name} :
    p ∈ iterSymbols f ix ↔ ∃ e ∈ ix, e.addr = p.1 ∧ entryName f e = some p.2 := by
  unfold iterSymbols
  simp only [List.mem_filterMap, Option.map_eq_some_iff]
  constructor
  · rintro ⟨e, he, n, hn, rfl⟩; exact ⟨e, he, rfl, hn⟩
  · rintro ⟨e, he, h1, h2⟩
    exact ⟨e, he, p.2, h2, by cases p; simp at h1 ⊢; exact h1⟩

theorem iterSymbols_cons (f : File) (e : Entry) (rest : List Entry) :
    iterSymbols f (e :: rest) = match entryName f e with
      | some n => (e.addr, n) :: iterSymbols f rest
      | none => iterSymbols f rest := by
  simp only [iterSymbols, List.filterMap_cons]
  cases entryName f e <;> simp

/-! ### cache transparency -/

def CacheOk (f : File) (c : Cache) : Prop := MemoOk f.pubAt c.pubs ∧ MemoOk f.funcAt c.funcs

theorem CacheOk_empty (f : File) : CacheOk f Cache.empty := ⟨MemoOk_nil _, MemoOk_nil _⟩

theorem answer_irrelevant (e : Entry) (next : Option Nat) (a : Nat) (p : Option Name) (q : Option (Nat × Name)) :
    (e.kind = .public_ → ∀ q', answer e next a p q = answer e next a p q') ∧
    (e.kind = .func → ∀ p', answer e next a p q = answer e next a p' q) := by
  constructor <;> intro hk _ <;> simp [answer, hk]

theorem lookupRelC_spec (f : File) (ix : List Entry) (c : Cache) (a : Nat) (hc : CacheOk f c) :
    (lookupRelC f ix c a).2 = lookupRel f ix a ∧ CacheOk f (lookupRelC f ix c a).1 := by
  unfold lookupRelC lookupRel
  split
  · exact ⟨rfl, hc⟩
  · split
    · exact ⟨rfl, hc⟩
    next e he =>
      cases hk : e.kind with
      | public_ =>
        have := Memo.get_spec f.pubAt c.pubs e.offset hc.1
        simp only
        refine ⟨?_, this.2, hc.2⟩
        rw [this.1]
        exact ((answer_irrelevant e _ a _ _).1 hk _)
      | func =>
        have := Memo.get_spec f.funcAt c.funcs e.offset hc.2
        simp only
        refine ⟨?_, hc.1, this.2⟩
        rw [this.1]
        exact ((answer_irrelevant e _ a _ _).2 hk _)
      | other =>
        simp only
        exact ⟨by simp [answer, hk], hc⟩

theorem lookupC_spec (f : File) (ix : List Entry) (c : Cache) (a : Addr) (hc : CacheOk f c) :
    (lookupC f ix c a).2 = lookup f ix a ∧ CacheOk f (lookupC f ix c a).1 := by
  cases a with
  | rel a => exact lookupRelC_spec f ix c a hc
  | svma _ => exact ⟨rfl, hc⟩
  | fileOffset _ => exact ⟨rfl, hc⟩

theorem iterSymbolsC_spec (f : File) (ix : List Entry) : ∀ (c : Cache), CacheOk f c →
    (iterSymbolsC f ix c).2 = iterSymbols f ix ∧ CacheOk f (iterSymbolsC f ix c).1 := by
  induction ix with
  | nil => intro c hc; exact ⟨rfl, hc⟩
  | cons e rest ih =>
    intro c hc
    unfold iterSymbolsC
    cases hk : e.kind with
    | public_ =>
      have hg := Memo.get_spec f.pubAt c.pubs e.offset hc.1
      have := ih { c with pubs := (Memo.get f.pubAt c.pubs e.offset).1 } ⟨hg.2, hc.2⟩
      simp only
      refine ⟨?_, this.2⟩
      rw [this.1, hg.1, iterSymbols_cons]
      have : entryName f e = f.pubAt e.offset := by simp [entryName, hk]
      rw [this]
      cases f.pubAt e.offset <;> simp
    | func =>
      have hg := Memo.get_spec f.funcAt c.funcs e.offset hc.2
      have := ih { c with funcs := (Memo.get f.funcAt c.funcs e.offset).1 } ⟨hc.1, hg.2⟩
      simp only
      refine ⟨?_, this.2⟩
      rw [this.1, hg.1, iterSymbols_cons]
      have : entryName f e = (f.funcAt e.offset).map (·.2) := by simp [entryName, hk]
      rw [this]
      cases f.funcAt e.offset <;> simp
    | other =>
      have := ih c hc
      simp only
      refine ⟨?_, this.2⟩
      rw [this.1, iterSymbols_cons]
      have : entryName f e = none := by simp [entryName, hk]
      rw [this]

theorem runC_spec (f : File) (ix : List Entry) (ops : List Op) : ∀ (c : Cache), CacheOk f c →
    runC f ix c ops = ops.map (pureAns f ix) := by
  induction ops with
  | nil => intro c _; rfl
  | cons op rest ih =>
    intro c hc
    cases op with
    | lookup a =>
      have := lookupC_spec f ix c a hc
      simp only [runC, List.map_cons, pureAns]
      rw [this.1, ih _ this.2]
    | iter =>
      have := iterSymbolsC_spec f ix c hc
      simp only [runC, List.map_cons, pureAns]
      rw [this.1, ih _ this.2]

/-! ### index construction -/

theorem mem_dedupAux (prev : Entry) (l : List Entry) : ∀ x ∈ dedupAux prev l, x ∈ prev :: l := by
  induction l generalizing prev with
  | nil => intro x h; simpa [dedupAux] using h
  | cons e rest ih =>
    intro x h
    unfold dedupAux at h
    split at h
    · have := ih prev x h
      simp at this ⊢
      rcases this with h | h
      · exact Or.inl h
      · exact Or.inr (Or.inr h)
    · simp at h
      rcases h with h | h
      · simp [h]
      · have := ih e x h
        simp at this ⊢
        exact Or.inr this

theorem dedupAux_strict (prev : Entry) (l : List Entry)
    (h : (prev :: l).Pairwise (fun a b => a.addr ≤ b.addr)) : StrictSorted (dedupAux prev l) := by
  induction l generalizing prev with
  | nil => simp [dedupAux, StrictSorted]
  | cons e rest ih =>
    rw [List.pairwise_cons] at h
    obtain ⟨h1, h2⟩ := h
    unfold dedupAux
    split
    next heq =>
      apply ih
      rw [List.pairwise_cons] at h2 ⊢
      exact ⟨fun x hx => h1 x (List.mem_cons_of_mem _ hx), h2.2⟩
    next hne =>
      unfold StrictSorted
      rw [List.pairwise_cons]
      refine ⟨?_, ih e h2⟩
      intro x hx
      have hx' := mem_dedupAux e rest x hx
      have hpe := h1 e (by simp)
      rw [List.pairwise_cons] at h2
      simp at hx'
      rcases hx' with rfl | hx'
      · omega
      · have := h2.1 x hx'; omega

theorem buildIndex_strict (recs : List Rec) : StrictSorted (buildIndex recs) := by
  unfold buildIndex
  have h := List.pairwise_mergeSort (le := fun (a b : Entry) => decide (a.addr ≤ b.addr))
    (fun a b c h1 h2 => by simp at *; omega) (fun a b => by simp; omega) (enumFrom 0 recs)
  have h' : (List.mergeSort (enumFrom 0 recs) fun a b => decide (a.addr ≤ b.addr)).Pairwise
      (fun a b => a.addr ≤ b.addr) := h.imp (fun h => by simpa using h)
  generalize (List.mergeSort (enumFrom 0 recs) fun a b => decide (a.addr ≤ b.addr)) = l at h'
  cases l with
  | nil => simp [dedup, StrictSorted]
  | cons e rest => exact dedupAux_strict e rest h'


/-! ### completeness: no spurious miss -/

/-- the slot with the greatest address `≤ a` is the one the lookup uses -/
theorem pick_of_slot {ix : List Entry} (hs : StrictSorted ix) {i : Nat} {e : Entry} {a : Nat}
    (he : ix[i]? = some e) (h1 : e.addr ≤ a) (h2 : ∀ nxt, ix[i + 1]? = some nxt → a < nxt.addr) :
    pick ix a = some i := by
  unfold pick
  apply pickIndex_of_spec _ _ i e.addr (strict_keys_le hs) (by simp [List.getElem?_map, he]) h1
  intro k' hk'
  cases hn : ix[i + 1]? with
  | none => simp [List.getElem?_map, hn] at hk'
  | some nxt =>
    simp [List.getElem?_map, hn] at hk'
    have := h2 nxt hn
    omega

/-- a readable PUBLIC record answers every address from its own up to the next symbol address (or without
bound if it is the last); a readable FUNC record answers every address of its own range below the next
symbol address -/
theorem lookupRel_complete {f : File} {ix : List Entry} (hs : StrictSorted ix) {i : Nat} {e : Entry} {a : Nat}
    (he : ix[i]? = some e) (h1 : e.addr ≤ a) (h2 : ∀ nxt, ix[i + 1]? = some nxt → a < nxt.addr) :
    (∀ n, e.kind = .public_ → f.pubAt e.offset = some n →
      lookupRel f ix a = .hit ⟨e.addr, (ix[i + 1]?).map (fun nxt => nxt.addr - e.addr), n⟩) ∧
    (∀ size n, e.kind = .func → f.funcAt e.offset = some (size, n) → a < e.addr + size →
      lookupRel f ix a = .hit ⟨e.addr, some size, n⟩) := by
  have hp := pick_of_slot hs he h1 h2
  constructor
  · intro n hk hn
    unfold lookupRel
    rw [hp]
    simp only
    rw [he]
    simp only [answer, hk, hn]
    cases hnx : ix[i + 1]? with
    | none => simp
    | some nxt =>
      have := h2 nxt hnx
      simp
      omega
  · intro size n hk hn hlt
    unfold lookupRel
    rw [hp]
    simp only
    rw [he]
    simp only [answer, hk, hn]
    rw [if_neg (by omega)]

/-! ### per-element cache transparency -/

theorem iterElemC_spec (f : File) (ix : List Entry) (c : Cache) (i : Nat) (hc : CacheOk f c) :
    (iterElemC f ix c i).2 = iterElem f ix i ∧ CacheOk f (iterElemC f ix c i).1 := by
  unfold iterElemC iterElem
  cases hi : ix[i]? with
  | none => exact ⟨rfl, hc⟩
  | some e =>
    simp only [Option.bind_some]
    cases hk : e.kind with
    | public_ =>
      have hg := Memo.get_spec f.pubAt c.pubs e.offset hc.1
      simp only
      refine ⟨?_, hg.2, hc.2⟩
      rw [hg.1]
      simp [entryName, hk]
    | func =>
      have hg := Memo.get_spec f.funcAt c.funcs e.offset hc.2
      simp only
      refine ⟨?_, hc.1, hg.2⟩
      rw [hg.1]
      simp only [entryName, hk]
      cases f.funcAt e.offset <;> rfl
    | other =>
      simp only
      exact ⟨by simp [entryName, hk], hc⟩

theorem runSteps_spec (f : File) (ix : List Entry) (steps : List Step) : ∀ (c : Cache), CacheOk f c →
    runSteps f ix c steps = steps.map (pureStep f ix) := by
  induction steps with
  | nil => intro c _; rfl
  | cons st rest ih =>
    intro c hc
    cases st with
    | lookup a =>
      have := lookupC_spec f ix c a hc
      simp only [runSteps, List.map_cons, pureStep]
      rw [this.1, ih _ this.2]
    | elem i =>
      have := iterElemC_spec f ix c i hc
      simp only [runSteps, List.map_cons, pureStep]
      rw [this.1, ih _ this.2]

/-- the elements `0..symbol_count()` put together are the enumeration -/
theorem iterSymbols_eq_elems (f : File) (ix : List Entry) :
    (List.range ix.length).filterMap (iterElem f ix) = iterSymbols f ix := by
  have := filterMap_range_getElem? ix (fun _ e => (entryName f e).map fun n => (e.addr, n))
  unfold iterElem iterSymbols
  rw [this]
  clear this
  generalize 0 = k
  induction ix generalizing k with
  | nil => rfl
  | cons e rest ih => simp only [List.zipIdx_cons, List.filterMap_cons]; rw [ih]

end Breakpad
