import SamplyModel.Lemmas.SymbolicateB
/-!
Helper lemmas for C07, part C: `create_response` re-distributes the per-library tables by module index; the
end-to-end statements about `queryApi`.
-/
namespace Sym

/-! ### `result_for_job`'s walk over the memory map (mod.rs:172-186) -/

theorem scan_byIndex_lt (table : List (Lib × Except Err AddressResults)) (mm : List Lib) (i : Nat)
    (t : JobTables) (idx : Nat) (h : idx < i) :
    alookup (scanMemoryMap table mm i t).byIndex idx = alookup t.byIndex idx := by
  induction mm generalizing i t with
  | nil => rfl
  | cons lib rest ih =>
    simp only [scanMemoryMap]
    cases hl : alookup table lib with
    | none => exact ih (i + 1) t (by omega)
    | some r =>
      cases r with
      | ok syms =>
        simp only
        rw [ih (i + 1) _ (by omega)]
        simp only [alookup_hinsert]
        have : ¬ i = idx := by omega
        simp [this]
      | error e =>
        simp only
        rw [ih (i + 1) _ (by omega)]

theorem scan_byIndex (table : List (Lib × Except Err AddressResults)) (mm : List Lib) (i : Nat)
    (t : JobTables) (k : Nat) :
    alookup (scanMemoryMap table mm i t).byIndex (i + k) =
      match mm[k]? with
      | none => alookup t.byIndex (i + k)
      | some lib =>
        match alookup table lib with
        | some (.ok syms) => some syms
        | _ => alookup t.byIndex (i + k) := by
  induction mm generalizing i t k with
  | nil => simp [scanMemoryMap]
  | cons lib rest ih =>
    cases k with
    | zero =>
      simp only [scanMemoryMap, Nat.add_zero, List.getElem?_cons_zero]
      cases hl : alookup table lib with
      | none => simp only; exact scan_byIndex_lt table rest (i + 1) t i (by omega)
      | some r =>
        cases r with
        | ok syms =>
          simp only
          rw [scan_byIndex_lt table rest (i + 1) _ i (by omega)]
          simp [alookup_hinsert]
        | error e =>
          simp only
          rw [scan_byIndex_lt table rest (i + 1) _ i (by omega)]
    | succ k' =>
      have hik : i + (k' + 1) = (i + 1) + k' := by omega
      simp only [scanMemoryMap, List.getElem?_cons_succ]
      rw [hik]
      cases hl : alookup table lib with
      | none => simp only; exact ih (i + 1) t k'
      | some r =>
        cases r with
        | ok syms =>
          simp only
          rw [ih (i + 1) _ k']
          have : ¬ i = i + 1 + k' := by omega
          simp only [alookup_hinsert, this, if_false]
        | error e =>
          simp only
          rw [ih (i + 1) _ k']

/-- the per-index table of a job: index `idx` has a symbol table iff its library loaded -/
theorem scan_byIndex_zero (table : List (Lib × Except Err AddressResults)) (mm : List Lib) (idx : Nat) :
    alookup (scanMemoryMap table mm 0 JobTables.empty).byIndex idx =
      match mm[idx]? with
      | none => none
      | some lib =>
        match alookup table lib with
        | some (.ok syms) => some syms
        | _ => none := by
  have := scan_byIndex table mm 0 JobTables.empty idx
  simp only [Nat.zero_add] at this
  rw [this]
  simp only [JobTables.empty, alookup]

theorem scan_found_some {table : List (Lib × Except Err AddressResults)} {mm : List Lib} {i : Nat}
    {t : JobTables} {k : String} {b : Bool}
    (h : alookup (scanMemoryMap table mm i t).found k = some b) :
    alookup t.found k = some b ∨
      ∃ lib ∈ mm, moduleKey lib = k ∧ ∃ r, alookup table lib = some r ∧ isOk r = b := by
  induction mm generalizing i t with
  | nil => exact Or.inl h
  | cons lib rest ih =>
    simp only [scanMemoryMap] at h
    cases hl : alookup table lib with
    | none =>
      rw [hl] at h
      rcases ih h with h1 | ⟨l, hm, h2⟩
      · exact Or.inl h1
      · exact Or.inr ⟨l, List.mem_cons_of_mem _ hm, h2⟩
    | some r =>
      rw [hl] at h
      cases r with
      | ok syms =>
        rcases ih h with h1 | ⟨l, hm, h2⟩
        · simp only [alookup_hinsert] at h1
          by_cases hk : moduleKey lib = k
          · simp only [hk, if_true, Option.some.injEq] at h1
            exact Or.inr ⟨lib, List.mem_cons_self, hk, _, hl, by simp [isOk, h1]⟩
          · simp only [hk, if_false] at h1; exact Or.inl h1
        · exact Or.inr ⟨l, List.mem_cons_of_mem _ hm, h2⟩
      | error e =>
        rcases ih h with h1 | ⟨l, hm, h2⟩
        · simp only [alookup_hinsert] at h1
          by_cases hk : moduleKey lib = k
          · simp only [hk, if_true, Option.some.injEq] at h1
            exact Or.inr ⟨lib, List.mem_cons_self, hk, _, hl, by simp [isOk, h1]⟩
          · simp only [hk, if_false] at h1; exact Or.inl h1
        · exact Or.inr ⟨l, List.mem_cons_of_mem _ hm, h2⟩

theorem scan_found_none (table : List (Lib × Except Err AddressResults)) (mm : List Lib) (i : Nat)
    (t : JobTables) (k : String) :
    alookup (scanMemoryMap table mm i t).found k = none ↔
      alookup t.found k = none ∧ ∀ lib ∈ mm, moduleKey lib = k → alookup table lib = none := by
  induction mm generalizing i t with
  | nil => simp [scanMemoryMap]
  | cons lib rest ih =>
    simp only [scanMemoryMap]
    cases hl : alookup table lib with
    | none =>
      simp only
      rw [ih]
      constructor
      · rintro ⟨h1, h2⟩
        refine ⟨h1, fun l hm hk => ?_⟩
        rcases List.mem_cons.mp hm with rfl | hm
        · exact hl
        · exact h2 l hm hk
      · rintro ⟨h1, h2⟩
        exact ⟨h1, fun l hm hk => h2 l (List.mem_cons_of_mem _ hm) hk⟩
    | some r =>
      cases r with
      | ok syms =>
        simp only
        rw [ih]
        simp only [alookup_hinsert]
        constructor
        · rintro ⟨h1, h2⟩
          by_cases hk : moduleKey lib = k
          · simp [hk] at h1
          · simp only [hk, if_false] at h1
            refine ⟨h1, fun l hm hk' => ?_⟩
            rcases List.mem_cons.mp hm with rfl | hm
            · exact absurd hk' hk
            · exact h2 l hm hk'
        · rintro ⟨h1, h2⟩
          by_cases hk : moduleKey lib = k
          · have := h2 lib List.mem_cons_self hk
            rw [hl] at this; simp at this
          · simp only [hk, if_false]
            exact ⟨h1, fun l hm hk' => h2 l (List.mem_cons_of_mem _ hm) hk'⟩
      | error e =>
        simp only
        rw [ih]
        simp only [alookup_hinsert]
        constructor
        · rintro ⟨h1, h2⟩
          by_cases hk : moduleKey lib = k
          · simp [hk] at h1
          · simp only [hk, if_false] at h1
            refine ⟨h1, fun l hm hk' => ?_⟩
            rcases List.mem_cons.mp hm with rfl | hm
            · exact absurd hk' hk
            · exact h2 l hm hk'
        · rintro ⟨h1, h2⟩
          by_cases hk : moduleKey lib = k
          · have := h2 lib List.mem_cons_self hk
            rw [hl] at this; simp at this
          · simp only [hk, if_false]
            exact ⟨h1, fun l hm hk' => h2 l (List.mem_cons_of_mem _ hm) hk'⟩

theorem scan_errors_some {table : List (Lib × Except Err AddressResults)} {mm : List Lib} {i : Nat}
    {t : JobTables} {k : String} {es : List Err}
    (h : alookup (scanMemoryMap table mm i t).errors k = some es) :
    alookup t.errors k = some es ∨
      ∃ lib ∈ mm, moduleKey lib = k ∧ ∃ e, alookup table lib = some (.error e) ∧ es = [e] := by
  induction mm generalizing i t with
  | nil => exact Or.inl h
  | cons lib rest ih =>
    simp only [scanMemoryMap] at h
    cases hl : alookup table lib with
    | none =>
      rw [hl] at h
      rcases ih h with h1 | ⟨l, hm, h2⟩
      · exact Or.inl h1
      · exact Or.inr ⟨l, List.mem_cons_of_mem _ hm, h2⟩
    | some r =>
      rw [hl] at h
      cases r with
      | ok syms =>
        rcases ih h with h1 | ⟨l, hm, h2⟩
        · exact Or.inl h1
        · exact Or.inr ⟨l, List.mem_cons_of_mem _ hm, h2⟩
      | error e =>
        rcases ih h with h1 | ⟨l, hm, h2⟩
        · simp only [alookup_hinsert] at h1
          by_cases hk : moduleKey lib = k
          · simp only [hk, if_true, Option.some.injEq] at h1
            exact Or.inr ⟨lib, List.mem_cons_self, hk, e, hl, h1.symm⟩
          · simp only [hk, if_false] at h1; exact Or.inl h1
        · exact Or.inr ⟨l, List.mem_cons_of_mem _ hm, h2⟩

theorem scan_errors_none (table : List (Lib × Except Err AddressResults)) (mm : List Lib) (i : Nat)
    (t : JobTables) (k : String) :
    alookup (scanMemoryMap table mm i t).errors k = none ↔
      alookup t.errors k = none ∧ ∀ lib ∈ mm, moduleKey lib = k → ∀ e, alookup table lib ≠ some (.error e) := by
  induction mm generalizing i t with
  | nil => simp [scanMemoryMap]
  | cons lib rest ih =>
    simp only [scanMemoryMap]
    cases hl : alookup table lib with
    | none =>
      simp only
      rw [ih]
      constructor
      · rintro ⟨h1, h2⟩
        refine ⟨h1, fun l hm hk e => ?_⟩
        rcases List.mem_cons.mp hm with rfl | hm
        · rw [hl]; simp
        · exact h2 l hm hk e
      · rintro ⟨h1, h2⟩
        exact ⟨h1, fun l hm hk => h2 l (List.mem_cons_of_mem _ hm) hk⟩
    | some r =>
      cases r with
      | ok syms =>
        simp only
        rw [ih]
        constructor
        · rintro ⟨h1, h2⟩
          refine ⟨h1, fun l hm hk e => ?_⟩
          rcases List.mem_cons.mp hm with rfl | hm
          · rw [hl]; simp
          · exact h2 l hm hk e
        · rintro ⟨h1, h2⟩
          exact ⟨h1, fun l hm hk => h2 l (List.mem_cons_of_mem _ hm) hk⟩
      | error e =>
        simp only
        rw [ih]
        simp only [alookup_hinsert]
        constructor
        · rintro ⟨h1, h2⟩
          by_cases hk : moduleKey lib = k
          · simp [hk] at h1
          · simp only [hk, if_false] at h1
            refine ⟨h1, fun l hm hk' e' => ?_⟩
            rcases List.mem_cons.mp hm with rfl | hm
            · exact absurd hk' hk
            · exact h2 l hm hk' e'
        · rintro ⟨h1, h2⟩
          by_cases hk : moduleKey lib = k
          · exact absurd hl (h2 lib List.mem_cons_self hk e)
          · simp only [hk, if_false]
            exact ⟨h1, fun l hm hk' => h2 l (List.mem_cons_of_mem _ hm) hk'⟩

/-! ### the traversals keep the request's shape -/

theorem responseStack_ok {mm : List Lib} {b : List (Nat × AddressResults)} {i : Nat} {st : List ReqFrame}
    {out : List RespFrame} (h : responseStack mm b i st = .ok out) :
    out.length = st.length ∧
    ∀ (k : Nat) fr, st[k]? = some fr → ∃ rf, out[k]? = some rf ∧ responseFrame mm b (i + k) fr = .ok rf := by
  induction st generalizing i out with
  | nil =>
    simp only [responseStack, Except.ok.injEq] at h
    subst h; simp
  | cons fr rest ih =>
    simp only [responseStack] at h
    cases h1 : responseFrame mm b i fr with
    | error e => simp [h1] at h
    | ok rf =>
      cases h2 : responseStack mm b (i + 1) rest with
      | error e => simp [h1, h2] at h
      | ok rfs =>
        simp only [h1, h2, Except.ok.injEq] at h
        subst h
        obtain ⟨l1, l2⟩ := ih h2
        refine ⟨by simp [l1], fun k fr' hk => ?_⟩
        cases k with
        | zero =>
          simp only [List.getElem?_cons_zero, Option.some.injEq] at hk
          subst hk
          exact ⟨rf, by simp, by simpa using h1⟩
        | succ k' =>
          simp only [List.getElem?_cons_succ] at hk
          obtain ⟨rf', r1, r2⟩ := l2 k' fr' hk
          refine ⟨rf', by simpa using r1, ?_⟩
          have : i + (k' + 1) = i + 1 + k' := by omega
          rw [this]; exact r2

theorem responseStack_error {mm : List Lib} {b : List (Nat × AddressResults)} {i : Nat} {st : List ReqFrame}
    {e : Fail} (h : responseStack mm b i st = .error e) :
    ∃ k fr, st[k]? = some fr ∧ responseFrame mm b (i + k) fr = .error e := by
  induction st generalizing i with
  | nil => simp [responseStack] at h
  | cons fr rest ih =>
    simp only [responseStack] at h
    cases h1 : responseFrame mm b i fr with
    | error e' =>
      simp only [h1, Except.error.injEq] at h
      subst h
      exact ⟨0, fr, by simp, by simpa using h1⟩
    | ok rf =>
      cases h2 : responseStack mm b (i + 1) rest with
      | error e' =>
        simp only [h1, h2, Except.error.injEq] at h
        subst h
        obtain ⟨k, fr', r1, r2⟩ := ih h2
        refine ⟨k + 1, fr', by simpa using r1, ?_⟩
        have : i + (k + 1) = i + 1 + k := by omega
        rw [this]; exact r2
      | ok rfs => simp [h1, h2] at h

theorem responseStacks_ok {mm : List Lib} {b : List (Nat × AddressResults)} {sts : List (List ReqFrame)}
    {out : List (List RespFrame)} (h : responseStacks mm b sts = .ok out) :
    out.length = sts.length ∧
    ∀ (s : Nat) st, sts[s]? = some st → ∃ rst, out[s]? = some rst ∧ responseStack mm b 0 st = .ok rst := by
  induction sts generalizing out with
  | nil =>
    simp only [responseStacks, Except.ok.injEq] at h
    subst h; simp
  | cons st rest ih =>
    simp only [responseStacks] at h
    cases h1 : responseStack mm b 0 st with
    | error e => simp [h1] at h
    | ok r =>
      cases h2 : responseStacks mm b rest with
      | error e => simp [h1, h2] at h
      | ok rs =>
        simp only [h1, h2, Except.ok.injEq] at h
        subst h
        obtain ⟨l1, l2⟩ := ih h2
        refine ⟨by simp [l1], fun s st' hs => ?_⟩
        cases s with
        | zero =>
          simp only [List.getElem?_cons_zero, Option.some.injEq] at hs
          subst hs
          exact ⟨r, by simp, h1⟩
        | succ s' =>
          simp only [List.getElem?_cons_succ] at hs
          obtain ⟨rst, r1, r2⟩ := l2 s' st' hs
          exact ⟨rst, by simpa using r1, r2⟩

theorem responseStacks_error {mm : List Lib} {b : List (Nat × AddressResults)} {sts : List (List ReqFrame)}
    {e : Fail} (h : responseStacks mm b sts = .error e) :
    ∃ st ∈ sts, responseStack mm b 0 st = .error e := by
  induction sts with
  | nil => simp [responseStacks] at h
  | cons st rest ih =>
    simp only [responseStacks] at h
    cases h1 : responseStack mm b 0 st with
    | error e' =>
      simp only [h1, Except.error.injEq] at h
      subst h
      exact ⟨st, List.mem_cons_self, h1⟩
    | ok r =>
      cases h2 : responseStacks mm b rest with
      | error e' =>
        simp only [h1, h2, Except.error.injEq] at h
        subst h
        obtain ⟨st', m, r2⟩ := ih h2
        exact ⟨st', List.mem_cons_of_mem _ m, r2⟩
      | ok rs => simp [h1, h2] at h

theorem resultsForJobs_ok {table : List (Lib × Except Err AddressResults)} {jobs : List Job}
    {out : List JobResult} (h : resultsForJobs table jobs = .ok out) :
    out.length = jobs.length ∧
    ∀ (j : Nat) job, jobs[j]? = some job → ∃ res, out[j]? = some res ∧ resultForJob table job = .ok res := by
  induction jobs generalizing out with
  | nil =>
    simp only [resultsForJobs, Except.ok.injEq] at h
    subst h; simp
  | cons job rest ih =>
    simp only [resultsForJobs] at h
    cases h1 : resultForJob table job with
    | error e => simp [h1] at h
    | ok r =>
      cases h2 : resultsForJobs table rest with
      | error e => simp [h1, h2] at h
      | ok rs =>
        simp only [h1, h2, Except.ok.injEq] at h
        subst h
        obtain ⟨l1, l2⟩ := ih h2
        refine ⟨by simp [l1], fun j job' hj => ?_⟩
        cases j with
        | zero =>
          simp only [List.getElem?_cons_zero, Option.some.injEq] at hj
          subst hj
          exact ⟨r, by simp, h1⟩
        | succ j' =>
          simp only [List.getElem?_cons_succ] at hj
          obtain ⟨res, r1, r2⟩ := l2 j' job' hj
          exact ⟨res, by simpa using r1, r2⟩

theorem resultsForJobs_error {table : List (Lib × Except Err AddressResults)} {jobs : List Job}
    {e : Fail} (h : resultsForJobs table jobs = .error e) :
    ∃ job ∈ jobs, resultForJob table job = .error e := by
  induction jobs with
  | nil => simp [resultsForJobs] at h
  | cons job rest ih =>
    simp only [resultsForJobs] at h
    cases h1 : resultForJob table job with
    | error e' =>
      simp only [h1, Except.error.injEq] at h
      subst h
      exact ⟨job, List.mem_cons_self, h1⟩
    | ok r =>
      cases h2 : resultsForJobs table rest with
      | error e' =>
        simp only [h1, h2, Except.error.injEq] at h
        subst h
        obtain ⟨job', m, r2⟩ := ih h2
        exact ⟨job', List.mem_cons_of_mem _ m, r2⟩
      | ok rs => simp [h1, h2] at h

/-! ### what the merged table must provide, and that gather + lookup provide it -/

/-- the per-library table after `symbolicate_requested_addresses`: exactly the requested libraries, each with
its load error or with a table holding the direct-lookup entry of every requested address -/
def TableOk (look : Look) (req : Request) (table : List (Lib × Except Err AddressResults)) : Prop :=
  (∀ lib, alookup table lib = none ↔ ¬ Requested req lib) ∧
  (∀ lib r, alookup table lib = some r →
    match look lib with
    | .error e => r = .error e
    | .ok f => ∃ tbl, r = .ok tbl ∧ keysSorted tbl ∧
        ∀ a, RequestedAddr req lib a → btGet tbl a = some (finalEntry f a))

theorem jobsRequest_iff (req : Request) (lib : Lib) (a : Nat) :
    JobsRequest req.jobs lib a ↔ RequestedAddr req lib a := Iff.rfl

theorem jobsValid_iff (req : Request) : JobsValid req.jobs ↔ AllIndicesValid req := Iff.rfl

theorem table_spec (look : Look) (extOrder) (hext : ExtOrderOk extOrder) (req : Request)
    {requested : List (Lib × List Nat)} (hg : gather req = .ok requested) :
    ∃ table, symbolicateAll look extOrder requested = .ok table ∧ TableOk look req table := by
  obtain ⟨table, h1, h2⟩ := symbolicateAll_spec look extOrder hext requested
  refine ⟨table, h1, ?_, ?_⟩
  all_goals
    obtain ⟨_, g2, g3, g4⟩ := gatherJobs_ok hg
    have hP : AllPairs requested (fun lib a => RequestedAddr req lib a) :=
      g3 _ (by intro g hgm; simp at hgm) (fun lib a h => h)
    have hNE : NonEmptyVals requested := g4 (by intro g hgm; simp at hgm)
  · intro lib
    have := h2 lib
    constructor
    · intro hn ⟨a, ha⟩
      obtain ⟨vs, hv, _⟩ := g2 lib a (Or.inr ha)
      rw [hv] at this
      obtain ⟨r, hr, _⟩ := this
      rw [hn] at hr; simp at hr
    · intro hn
      cases hr : alookup requested lib with
      | none => rw [hr] at this; exact this
      | some addrs =>
        exfalso
        have hm := alookup_mem hr
        obtain ⟨a, ha⟩ := List.exists_mem_of_ne_nil _ (hNE _ hm)
        exact hn ⟨a, hP _ hm a ha⟩
  · intro lib r hr
    have := h2 lib
    cases hreq : alookup requested lib with
    | none => rw [hreq] at this; rw [this] at hr; simp at hr
    | some addrs =>
      rw [hreq] at this
      obtain ⟨r', hr', hs⟩ := this
      rw [hr] at hr'
      simp only [Option.some.injEq] at hr'
      subst hr'
      obtain ⟨r'', hs', hm⟩ := symbolicateLib_spec look extOrder hext lib addrs
      rw [hs] at hs'
      simp only [Except.ok.injEq] at hs'
      subst hs'
      cases hl : look lib with
      | error e => rw [hl] at hm; exact hm
      | ok f =>
        rw [hl] at hm
        obtain ⟨tbl, t1, t2, t3⟩ := hm
        refine ⟨tbl, t1, t2, fun a ha => ?_⟩
        obtain ⟨vs, hv, hav⟩ := g2 lib a (Or.inr ha)
        rw [hreq] at hv
        simp only [Option.some.injEq] at hv
        subst hv
        rw [t3, if_pos hav]

/-! ### one response frame -/

/-- what `response_frame_for_request_frame` computes for the `symbol` field, in terms of the oracle -/
def frameOutcome (look : Look) (lib : Lib) (a : Nat) : Except Fail (Option Symbol) :=
  match look lib with
  | .error _ => .ok none
  | .ok f =>
    match finalEntry f a with
    | none => .ok none
    | some r =>
      match symbolOfResult a r with
      | .error e => .error e
      | .ok s => .ok (some s)

theorem responseFrame_eq {look : Look} {req : Request} {table : List (Lib × Except Err AddressResults)}
    (ht : TableOk look req table) {job : Job} {fr : ReqFrame} {lib : Lib}
    (hl : job.memoryMap[fr.moduleIndex]? = some lib) (hreq : RequestedAddr req lib fr.address) (i : Nat) :
    responseFrame job.memoryMap (scanMemoryMap table job.memoryMap 0 JobTables.empty).byIndex i fr =
      match frameOutcome look lib fr.address with
      | .error e => .error e
      | .ok s => .ok ⟨i, fr.address, lib.debugName, s⟩ := by
  unfold responseFrame frameOutcome
  rw [scan_byIndex_zero, hl]
  simp only
  have hne : alookup table lib ≠ none := by
    intro hn
    exact (ht.1 lib).mp hn ⟨fr.address, hreq⟩
  cases hr : alookup table lib with
  | none => exact absurd hr hne
  | some r =>
    have := ht.2 lib r hr
    cases hlook : look lib with
    | error e =>
      rw [hlook] at this
      subst this
      simp
    | ok f =>
      rw [hlook] at this
      obtain ⟨tbl, t1, _, t3⟩ := this
      subst t1
      simp only [t3 fr.address hreq]
      cases finalEntry f fr.address with
      | none => simp
      | some res =>
        simp only
        cases symbolOfResult fr.address res with
        | error e => simp
        | ok s => simp

theorem frameOutcome_ok {look : Look} {lib : Lib} {a : Nat} {s : Option Symbol}
    (h : frameOutcome look lib a = .ok s) : s = directSymbol look lib a := by
  unfold frameOutcome at h
  unfold directSymbol
  cases hl : look lib with
  | error e => rw [hl] at h; simp only [Except.ok.injEq] at h; exact h.symm
  | ok f =>
    rw [hl] at h
    simp only at h ⊢
    unfold finalEntry at h
    cases hfa : f a with
    | none => rw [hfa] at h; simp only [Except.ok.injEq] at h; exact h.symm
    | some info =>
      rw [hfa] at h
      simp only at h ⊢
      cases hres : info.frames.resolved with
      | none =>
        rw [hres] at h
        simp only [symbolOfResult, symOnly] at h
        by_cases hlt : a < info.symAddr
        · simp [hlt] at h
        · simp only [hlt, if_false, Except.ok.injEq] at h
          subst h
          simp [reportedFunction, hres]
      | some fs =>
        rw [hres] at h
        simp only [symbolOfResult, withFrames] at h
        by_cases hlt : a < info.symAddr
        · simp [hlt] at h
        · simp only [hlt, if_false] at h
          cases hlast : fs.getLast? with
          | none => rw [hlast] at h; simp at h
          | some outer =>
            rw [hlast] at h
            simp only [Except.ok.injEq] at h
            subst h
            simp [reportedFunction, hres, debugInfoOfFrames, hlast]

theorem frameOutcome_error {look : Look} {lib : Lib} {a : Nat} {e : Fail}
    (h : frameOutcome look lib a = .error e) :
    (∃ site, e = .panic site) ∧
    ∃ f info, look lib = .ok f ∧ f a = some info ∧ (a < info.symAddr ∨ info.frames.resolved = some []) := by
  unfold frameOutcome at h
  cases hl : look lib with
  | error e' => rw [hl] at h; simp at h
  | ok f =>
    rw [hl] at h
    simp only at h
    unfold finalEntry at h
    cases hfa : f a with
    | none => rw [hfa] at h; simp at h
    | some info =>
      rw [hfa] at h
      simp only at h
      cases hres : info.frames.resolved with
      | none =>
        rw [hres] at h
        simp only [symbolOfResult, symOnly] at h
        by_cases hlt : a < info.symAddr
        · simp only [hlt, if_true, Except.error.injEq] at h
          exact ⟨⟨_, h.symm⟩, f, info, rfl, hfa, Or.inl hlt⟩
        · simp [hlt] at h
      | some fs =>
        rw [hres] at h
        simp only [symbolOfResult, withFrames] at h
        by_cases hlt : a < info.symAddr
        · simp only [hlt, if_true, Except.error.injEq] at h
          exact ⟨⟨_, h.symm⟩, f, info, rfl, hfa, Or.inl hlt⟩
        · simp only [hlt, if_false] at h
          cases hlast : fs.getLast? with
          | none =>
            rw [hlast] at h
            simp only [Except.error.injEq] at h
            have : fs = [] := by simpa using hlast
            subst this
            exact ⟨⟨_, h.symm⟩, f, info, rfl, hfa, Or.inr hres⟩
          | some outer => rw [hlast] at h; simp at h

end Sym
