import SamplyModel.Model.ChunkCacheShared
import SamplyModel.Lemmas.ChunkCache
/-!
Lemmas for the shared.rs layer (`Model/ChunkCacheShared.lean`): nested `make_subrange` = sum of the starts
(unless it overflows), and the step lemma `xstep_spec` for calls of both layers. Core Lean only.
-/
namespace CC

/-- nested `make_subrange` = sum of the starts, capped at `u64::MAX` -/
theorem build_start (v : View) (subs : List (Nat × Nat)) :
    (v.build subs).start =
      if subs.isEmpty then v.start else min (v.start + (subs.map (·.1)).sum) (U64 - 1) := by
  induction subs generalizing v with
  | nil => rfl
  | cons e rest ih =>
    obtain ⟨s, z⟩ := e
    simp only [View.build, List.isEmpty_cons, Bool.false_eq_true, if_false, List.map_cons, List.sum_cons]
    rw [ih]
    simp only [View.makeSubrange]
    cases rest with
    | nil => simp
    | cons e' rest' =>
      simp only [List.isEmpty_cons, Bool.false_eq_true, if_false]
      simp only [Nat.min_def]
      repeat' split
      all_goals omega

/-- the pre-fix chain: a non-empty chain of `make_subrange` whose starts add up to `2^64` or more panics -/
theorem buildLegacy_overflow (v : View) (subs : List (Nat × Nat)) (hne : subs ≠ [])
    (h : U64 ≤ v.start + (subs.map (·.1)).sum) : v.buildLegacy subs = none := by
  induction subs generalizing v with
  | nil => exact absurd rfl hne
  | cons e rest ih =>
    obtain ⟨s, z⟩ := e
    simp only [List.map_cons, List.sum_cons] at h
    simp only [View.buildLegacy, View.makeSubrangeLegacy]
    by_cases n1 : U64 ≤ v.start + s
    · simp only [n1, if_true]
    · simp only [n1, if_false]
      cases rest with
      | nil => simp only [List.map_nil, List.sum_nil] at h; omega
      | cons e' rest' => exact ih ⟨v.start + s, z⟩ (by simp) (by simp only; omega)

/-- …and without overflow the pre-fix chain is the repaired one -/
theorem buildLegacy_ok (v : View) (subs : List (Nat × Nat)) (h : v.start + (subs.map (·.1)).sum < U64) :
    v.buildLegacy subs = some (v.build subs) := by
  induction subs generalizing v with
  | nil => rfl
  | cons e rest ih =>
    obtain ⟨s, z⟩ := e
    simp only [List.map_cons, List.sum_cons] at h
    have n1 : ¬ U64 ≤ v.start + s := by omega
    have hm : min (v.start + s) (U64 - 1) = v.start + s := by
      simp only [Nat.min_def]; split <;> omega
    simp only [View.buildLegacy, View.makeSubrangeLegacy, n1, if_false, View.build, View.makeSubrange, hm]
    exact ih ⟨v.start + s, z⟩ (by simp only; omega)

theorem viewBase_start (len : Nat) (base : Option (Nat × Nat)) (subs : List (Nat × Nat)) :
    ((viewBase len base).build subs).start = viewStart base subs := by
  rw [build_start]
  cases base with
  | none => simp [viewBase, viewStart]
  | some b => obtain ⟨s, z⟩ := b; simp [viewBase, viewStart]

theorem discard_err {α : Type} (e : Err) : discardErr (.err e : Out α) = .err .discarded := rfl

theorem slice_all (F : List UInt8) : slice F 0 F.length = F := by simp [slice]

/-- the step lemma of the shared.rs layer -/
theorem vstep_spec (c : Cfg) (F : List UInt8) (hc : 0 < c.chunk) (hsz : F.length < U64)
    (hf : Faithful F c.src) (st : St) (hinv : Inv F st) (v : VOp) :
    Inv F (vstep c st v).1 ∧
    ((vstep c st v).2 = vspec F v ∨
     ((vstep c st v).2 = .err v.srcErr ∧ (vstep c st v).1 = st ∧ SrcFails c F (v.under F.length))) := by
  have hl := hinv.fileLen
  cases v with
  | entire =>
    simp only [vstep, vspec, VOp.srcErr, VOp.under, hl]
    obtain ⟨i, hs⟩ := readBytesAt_spec c F hc hsz hf st hinv 0 F.length
    refine ⟨i, ?_⟩
    rcases hs with hs | ⟨h1, h2, h3, h4, h5⟩
    · left
      rw [hs]
      simp only [specRead]
      by_cases h0 : F.length = 0
      · simp only [h0, if_true]
        have : F = [] := List.eq_nil_of_length_eq_zero h0
        rw [this]
      · have n1 : ¬ U64 ≤ 0 + F.length := by omega
        have n2 : ¬ F.length < 0 + F.length := by omega
        simp only [h0, n1, n2, if_false, slice_all]
    · exact Or.inr ⟨h1, h2, h3, h4, h5⟩
  | wread o n =>
    simp only [vstep, vspec, VOp.srcErr, VOp.under]
    obtain ⟨i, hs⟩ := readBytesAt_spec c F hc hsz hf st hinv o n
    refine ⟨i, ?_⟩
    rcases hs with hs | ⟨h1, h2, h3⟩
    · left; rw [hs]
    · right; rw [h1]; exact ⟨rfl, h2, h3⟩
  | wuntil r d =>
    simp only [vstep, vspec, VOp.srcErr, VOp.under]
    obtain ⟨i, hs⟩ := readBytesAtUntil_spec c F hc hsz hf st hinv r d
    refine ⟨i, ?_⟩
    rcases hs with hs | ⟨h1, h2, h3⟩
    · left; rw [hs]
    · right; rw [h1]; exact ⟨rfl, h2, h3⟩
  | vread base subs o n =>
    simp only [vstep, vspec, VOp.srcErr, VOp.under, viewBase_start]
    by_cases hov : U64 ≤ viewStart base subs + o
    · simp only [hov, if_true]; exact ⟨hinv, Or.inl trivial⟩
    · simp only [hov, if_false]
      obtain ⟨i, hs⟩ := readBytesAt_spec c F hc hsz hf st hinv (viewStart base subs + o) n
      refine ⟨i, ?_⟩
      rcases hs with hs | ⟨h1, h2, h3⟩
      · left; rw [hs]
      · right; rw [h1]; exact ⟨rfl, h2, h3⟩
  | vuntil base subs r d =>
    simp only [vstep, vspec, VOp.srcErr, VOp.under, viewBase_start]
    generalize viewStart base subs = s at *
    by_cases h1 : r.hi < r.lo
    · have : s + r.hi < s + r.lo := by omega
      simp only [h1, if_true, specUntil, this]
      exact ⟨hinv, Or.inl rfl⟩
    have n1 : ¬ s + r.hi < s + r.lo := by omega
    by_cases h2 : U64 ≤ s + r.lo
    · have : F.length < s + r.hi := by omega
      simp only [h1, h2, if_true, if_false, specUntil, n1, this]
      exact ⟨hinv, Or.inl rfl⟩
    by_cases h3 : U64 ≤ s + r.hi
    · have : F.length < s + r.hi := by omega
      simp only [h1, h2, h3, if_true, if_false, specUntil, n1, this]
      exact ⟨hinv, Or.inl rfl⟩
    simp only [h1, h2, h3, if_false]
    obtain ⟨i, hs⟩ := readBytesAtUntil_spec c F hc hsz hf st hinv ⟨s + r.lo, s + r.hi⟩ d
    refine ⟨i, ?_⟩
    rcases hs with hs | ⟨h1, h2, h3⟩
    · left; rw [hs]
    · right; rw [h1]; exact ⟨rfl, h2, h3⟩

/-- **Step lemma for both layers.** -/
theorem xstep_spec (c : Cfg) (F : List UInt8) (hc : 0 < c.chunk) (hsz : F.length < U64)
    (hf : Faithful F c.src) (st : St) (hinv : Inv F st) (op : XOp) :
    Inv F (xstep c st op).1 ∧
    ((xstep c st op).2 = xspec F c.src op ∨
     ((xstep c st op).2 = .err op.srcErr ∧ (xstep c st op).1 = st ∧ SrcFails c F (op.under F.length))) := by
  cases op with
  | base op => exact step_spec c F hc hsz hf st hinv op
  | view v => exact vstep_spec c F hc hsz hf st hinv v

theorem xstep_inv (c : Cfg) (F : List UInt8) (hc : 0 < c.chunk) (hsz : F.length < U64)
    (hf : Faithful F c.src) (st : St) (hinv : Inv F st) (op : XOp) : Inv F (xstep c st op).1 :=
  (xstep_spec c F hc hsz hf st hinv op).1

theorem xrun_inv (c : Cfg) (F : List UInt8) (hc : 0 < c.chunk) (hsz : F.length < U64)
    (hf : Faithful F c.src) (ops : List XOp) : Inv F (xrun c F.length ops) := by
  unfold xrun
  suffices h : ∀ st, Inv F st → Inv F (ops.foldl (fun st op => (xstep c st op).1) st) from h _ (inv_init F)
  induction ops with
  | nil => intro st h; exact h
  | cons op ops ih => intro st h; exact ih _ (xstep_inv c F hc hsz hf st h op)

/-- histories of cache-level calls are a special case -/
theorem xrun_base (c : Cfg) (fileLen : Nat) (ops : List Op) :
    xrun c fileLen (ops.map .base) = run c fileLen ops := by
  unfold xrun run
  generalize St.init fileLen = st
  induction ops generalizing st with
  | nil => rfl
  | cons op ops ih => simp only [List.map_cons, List.foldl_cons, xstep]; exact ih _

/-- **A call of the shared.rs layer is its cache-level call plus local wrapper code**: unless the wrapper
refuses it before it reaches the cache, it is exactly `CC.step` on `v.under` (state and outcome), with the
outcome post-processed (`Err(())`). The wrapper touches no shared state, so at lock granularity a view call
has the atomic sections of its cache-level call. -/
theorem vstep_reduces (c : Cfg) (st : St) (v : VOp) :
    vstep c st v =
      if v.refused then (st, .err .discarded)
      else ((step c st (v.under st.fileLen)).1, v.post (step c st (v.under st.fileLen)).2) := by
  cases v with
  | entire => simp [vstep, VOp.refused, VOp.under, VOp.post, step]
  | wread o n => simp [vstep, VOp.refused, VOp.under, VOp.post, step]
  | wuntil r d => simp [vstep, VOp.refused, VOp.under, VOp.post, step]
  | vread base subs o n =>
    simp only [vstep, viewBase_start, VOp.refused, VOp.under, VOp.post, step]
    by_cases h : U64 ≤ viewStart base subs + o <;> simp [h]
  | vuntil base subs r d =>
    simp only [vstep, viewBase_start, VOp.refused, VOp.under, VOp.post, step]
    by_cases h1 : r.hi < r.lo
    · simp [h1]
    by_cases h2 : U64 ≤ viewStart base subs + r.lo
    · simp [h1, h2]
    by_cases h3 : U64 ≤ viewStart base subs + r.hi <;> simp [h1, h2, h3]

/-- the same on the specification side -/
theorem vspec_reduces (F : List UInt8) (src : Nat → Nat → Option (List UInt8)) (hsz : F.length < U64) (v : VOp) :
    vspec F v = if v.refused then .err .discarded else v.post (spec F src (v.under F.length)) := by
  cases v with
  | entire =>
    simp only [vspec, VOp.refused, VOp.under, VOp.post, spec, specRead]
    by_cases h0 : F.length = 0
    · have : F = [] := List.eq_nil_of_length_eq_zero h0
      subst this; simp
    · have n1 : ¬ U64 ≤ 0 + F.length := by omega
      have n2 : ¬ F.length < 0 + F.length := by omega
      simp only [h0, n1, n2, if_false, slice_all]
      simp
  | wread o n => simp [vspec, VOp.refused, VOp.under, VOp.post, spec]
  | wuntil r d => simp [vspec, VOp.refused, VOp.under, VOp.post, spec]
  | vread base subs o n =>
    simp only [vspec, VOp.refused, VOp.under, VOp.post, spec]
    by_cases h : U64 ≤ viewStart base subs + o <;> simp [h]
  | vuntil base subs r d =>
    simp only [vspec, VOp.refused, VOp.under, VOp.post, spec, specUntil]
    generalize viewStart base subs = s
    by_cases h1 : r.hi < r.lo
    · have : s + r.hi < s + r.lo := by omega
      simp [h1, this, discardErr]
    have n1 : ¬ s + r.hi < s + r.lo := by omega
    by_cases h2 : U64 ≤ s + r.lo
    · have : F.length < s + r.hi := by omega
      simp [h1, h2, n1, this, discardErr]
    by_cases h3 : U64 ≤ s + r.hi
    · have : F.length < s + r.hi := by omega
      simp [h1, h2, h3, n1, this, discardErr]
    simp [h1, h2, h3]

end CC
