import SamplyModel.Lemmas.SampleTable
import SamplyModel.Model.SampleTableProfile
/-!
Helper lemmas for the profile level of C04.

1. one call: what it does to thread slot `i` and counter slot `j` (`step_thread`, `step_counter`)
2. a history: slot `i` sees exactly its own `add` / `merge` calls (`runPFrom_thread`), slot `j` its own counter
   calls (`runPFrom_counter`); a panic of the profile is a panic of one thread's own history (`runPFrom_none`)
3. serialization of a good state succeeds and shows every slot's own serialization
4. snapshots = serializations of the states after the prefixes
-/
namespace STabP
open STab

/-! ### 1. one call -/

theorem updThread_some {st st' : PState} {i : Nat} {f : PThread → Option PThread}
    (h : st.updThread i f = some st') :
    ∃ th th', st.threads[i]? = some th ∧ f th = some th' ∧
      st' = { st with threads := st.threads.set i th' } := by
  unfold PState.updThread at h
  split at h
  · cases h
  · rename_i th hth
    split at h
    · cases h
    · rename_i th' hf
      cases h
      exact ⟨th, th', hth, hf, rfl⟩

theorem getElem?_set_of_some {α : Type} (l : List α) (k i : Nat) (a x : α) (hk : l[k]? = some x) :
    (l.set k a)[i]? = if k = i then some a else l[i]? := by
  have hlt : k < l.length := by
    rcases Nat.lt_or_ge k l.length with h | h
    · exact h
    · rw [List.getElem?_eq_none h] at hk; cases hk
  rw [List.getElem?_set]
  simp [hlt]

/-- a call that rewrites slot `k` with something that keeps `core` and `proc` -/
theorem updThread_frame {st st' : PState} {k : Nat} {f : PThread → Option PThread}
    (h : st.updThread k f = some st')
    (hf : ∀ a a', f a = some a' → a'.core = a.core ∧ a'.proc = a.proc) (i : Nat) (th : PThread)
    (hi : st.threads[i]? = some th) :
    ∃ th', st'.threads[i]? = some th' ∧ th'.proc = th.proc ∧ th'.core = th.core := by
  obtain ⟨a, a', ha, hfa, rfl⟩ := updThread_some h
  simp only [getElem?_set_of_some _ _ _ _ _ ha]
  by_cases hki : k = i
  · subst hki
    rw [ha] at hi; cases hi
    obtain ⟨h1, h2⟩ := hf _ _ hfa
    exact ⟨a', by simp, h2, h1⟩
  · exact ⟨th, by simp [hki, hi], rfl, rfl⟩

theorem updThread_counters {st st' : PState} {k : Nat} {f : PThread → Option PThread}
    (h : st.updThread k f = some st') : st'.counters = st.counters := by
  obtain ⟨_, _, _, _, rfl⟩ := updThread_some h
  rfl

theorem runFrom_nil (th : Thread) : runFrom th [] = some th := rfl

theorem runFrom_one (th : Thread) (op : Op) : runFrom th [op] = th.step op := by
  simp only [runFrom]
  cases th.step op <;> rfl

/-- what one successful call does to thread slot `i`: `proc` is kept, and `core` (sample table + the two merge
fields) moves by the call iff it is an `add` / `merge` call on thread `i` itself -/
theorem step_thread {st st' : PState} {op : POp} (h : st.step op = some st') (i : Nat) (th : PThread)
    (hi : st.threads[i]? = some th) :
    ∃ th', st'.threads[i]? = some th' ∧ th'.proc = th.proc ∧
      runFrom th.core (threadOps i [op]) = some th'.core := by
  cases op with
  | sample j o =>
    simp only [PState.step] at h
    obtain ⟨a, a', ha, hfa, rfl⟩ := updThread_some h
    simp only [getElem?_set_of_some _ _ _ _ _ ha]
    by_cases hji : j = i
    · subst hji
      rw [ha] at hi; cases hi
      cases hc : th.core.step o with
      | none => simp [hc] at hfa
      | some c =>
        simp only [hc, Option.map_some, Option.some.injEq] at hfa
        subst hfa
        exact ⟨{ th with core := c }, by simp, rfl, by simp [threadOps, runFrom_one, hc]⟩
    · exact ⟨th, by simp [hji, hi], rfl, by simp [threadOps, hji, runFrom_nil]⟩
  | alloc j t stack addr size =>
    simp only [PState.step] at h
    split at h
    · cases h
    · split at h
      · cases h
      · obtain ⟨th', h1, h2, h3⟩ := updThread_frame h
          (fun a a' e => by cases e; exact ⟨rfl, rfl⟩) i th hi
        exact ⟨th', h1, h2, by simp [threadOps, runFrom_nil, h3]⟩
  | marker j =>
    simp only [PState.step] at h
    obtain ⟨th', h1, h2, h3⟩ := updThread_frame h (fun a a' e => by cases e; exact ⟨rfl, rfl⟩) i th hi
    exact ⟨th', h1, h2, by simp [threadOps, runFrom_nil, h3]⟩
  | wtype j k =>
    simp only [PState.step] at h
    obtain ⟨th', h1, h2, h3⟩ := updThread_frame h (fun a a' e => by cases e; exact ⟨rfl, rfl⟩) i th hi
    exact ⟨th', h1, h2, by simp [threadOps, runFrom_nil, h3]⟩
  | counter j o =>
    simp only [PState.step] at h
    split at h
    · cases h
    · cases h
      exact ⟨th, hi, rfl, by simp [threadOps, runFrom_nil]⟩
  | ser =>
    simp only [PState.step] at h
    cases h
    exact ⟨th, hi, rfl, by simp [threadOps, runFrom_nil]⟩

/-- what one successful call does to counter slot `j` -/
theorem step_counter {st st' : PState} {op : POp} (h : st.step op = some st') (j : Nat)
    (c : CounterSamples) (hj : st.counters[j]? = some c) :
    st'.counters[j]? = some (runCFrom c (counterOps j [op])) := by
  cases op with
  | counter k o =>
    simp only [PState.step] at h
    split at h
    · cases h
    · rename_i ck hk
      cases h
      simp only [getElem?_set_of_some _ _ _ _ _ hk]
      by_cases hkj : k = j
      · subst hkj
        rw [hk] at hj; cases hj
        simp [counterOps, runCFrom]
      · simp [hkj, hj, counterOps, runCFrom]
  | sample i o =>
    simp only [PState.step] at h
    rw [updThread_counters h]; simpa [counterOps, runCFrom] using hj
  | alloc i t stack addr size =>
    simp only [PState.step] at h
    split at h
    · cases h
    · split at h
      · cases h
      · rw [updThread_counters h]; simpa [counterOps, runCFrom] using hj
  | marker i =>
    simp only [PState.step] at h
    rw [updThread_counters h]; simpa [counterOps, runCFrom] using hj
  | wtype i k =>
    simp only [PState.step] at h
    rw [updThread_counters h]; simpa [counterOps, runCFrom] using hj
  | ser =>
    simp only [PState.step] at h
    cases h; simpa [counterOps, runCFrom] using hj

theorem threadOps_cons (i : Nat) (op : POp) (ops : List POp) :
    threadOps i (op :: ops) = threadOps i [op] ++ threadOps i ops := by
  cases op <;> simp [threadOps]
  split <;> simp

theorem counterOps_cons (j : Nat) (op : POp) (ops : List POp) :
    counterOps j (op :: ops) = counterOps j [op] ++ counterOps j ops := by
  cases op <;> simp [counterOps]
  split <;> simp

theorem runFrom_append (th : Thread) (a b : List Op) :
    runFrom th (a ++ b) = (runFrom th a).bind fun th' => runFrom th' b := by
  induction a generalizing th with
  | nil => simp [runFrom]
  | cons op a ih =>
    simp only [List.cons_append, runFrom]
    cases th.step op with
    | none => simp
    | some th' => simp [ih]

/-! ### 2. a history -/

/-- **Frame, threads.** After any successful history, thread slot `i` holds what its own `add` / `merge` calls
alone produce from its initial contents — calls on other threads, allocation samples, markers, weight types,
counter samples and serializations in between do not touch it. -/
theorem runPFrom_thread (ops : List POp) (st st' : PState) (h : runPFrom st ops = some st') (i : Nat)
    (th : PThread) (hi : st.threads[i]? = some th) :
    ∃ th', st'.threads[i]? = some th' ∧ th'.proc = th.proc ∧
      runFrom th.core (threadOps i ops) = some th'.core := by
  induction ops generalizing st th with
  | nil =>
    simp only [runPFrom] at h; cases h
    exact ⟨th, hi, rfl, rfl⟩
  | cons op ops ih =>
    simp only [runPFrom] at h
    cases hs : st.step op with
    | none => simp [hs] at h
    | some st1 =>
      simp only [hs] at h
      obtain ⟨th1, h1, p1, r1⟩ := step_thread hs i th hi
      obtain ⟨th', h2, p2, r2⟩ := ih st1 h th1 h1
      refine ⟨th', h2, p2.trans p1, ?_⟩
      rw [threadOps_cons, runFrom_append, r1]
      simpa using r2

/-- **Frame, counters.** -/
theorem runPFrom_counter (ops : List POp) (st st' : PState) (h : runPFrom st ops = some st') (j : Nat)
    (c : CounterSamples) (hj : st.counters[j]? = some c) :
    st'.counters[j]? = some (runCFrom c (counterOps j ops)) := by
  induction ops generalizing st c with
  | nil =>
    simp only [runPFrom] at h; cases h
    simpa [counterOps, runCFrom] using hj
  | cons op ops ih =>
    simp only [runPFrom] at h
    cases hs : st.step op with
    | none => simp [hs] at h
    | some st1 =>
      simp only [hs] at h
      have h1 := step_counter hs j c hj
      have h2 := ih st1 h _ h1
      rw [h2, counterOps_cons j op ops, runCFrom_append]

theorem step_lengths {st st' : PState} {op : POp} (h : st.step op = some st') :
    st'.threads.length = st.threads.length ∧ st'.counters.length = st.counters.length := by
  cases op with
  | counter k o =>
    simp only [PState.step] at h
    split at h
    · cases h
    · cases h; simp
  | sample i o =>
    simp only [PState.step] at h
    obtain ⟨_, _, _, _, rfl⟩ := updThread_some h; simp
  | alloc i t stack addr size =>
    simp only [PState.step] at h
    split at h
    · cases h
    · split at h
      · cases h
      · obtain ⟨_, _, _, _, rfl⟩ := updThread_some h; simp
  | marker i =>
    simp only [PState.step] at h
    obtain ⟨_, _, _, _, rfl⟩ := updThread_some h; simp
  | wtype i k =>
    simp only [PState.step] at h
    obtain ⟨_, _, _, _, rfl⟩ := updThread_some h; simp
  | ser =>
    simp only [PState.step] at h
    cases h; exact ⟨rfl, rfl⟩

theorem firstOfProc_some (p : Nat) (l : List PThread) (i : Nat) (th : PThread) (hi : l[i]? = some th)
    (hp : th.proc = p) : ∃ k a, firstOfProc p l = some k ∧ l[k]? = some a := by
  induction l generalizing i with
  | nil => simp at hi
  | cons x xs ih =>
    simp only [firstOfProc]
    by_cases hx : x.proc = p
    · exact ⟨0, x, by simp [hx], by simp⟩
    · cases i with
      | zero => simp at hi; subst hi; exact absurd hp hx
      | succ i =>
        simp only [List.getElem?_cons_succ] at hi
        obtain ⟨k, a, hk, ha⟩ := ih i hi
        exact ⟨k + 1, a, by simp [hx, hk], by simpa using ha⟩

theorem updThread_total (st : PState) (k : Nat) (a : PThread) (ha : st.threads[k]? = some a)
    (f : PThread → PThread) : ∃ st', st.updThread k (fun x => some (f x)) = some st' := by
  simp [PState.updThread, ha]

/-- a well-addressed call can only panic in `Thread::step` (= the `i32` overflow of a merged weight) -/
theorem step_none {st : PState} {op : POp} (hw : op.wellAddr st.threads.length st.counters.length = true)
    (h : st.step op = none) :
    ∃ i o th, op = .sample i o ∧ st.threads[i]? = some th ∧ th.core.step o = none := by
  cases op with
  | sample i o =>
    simp only [POp.wellAddr, decide_eq_true_eq] at hw
    have hi : st.threads[i]? = some st.threads[i] := List.getElem?_eq_getElem hw
    refine ⟨i, o, _, rfl, hi, ?_⟩
    simp only [PState.step, PState.updThread, hi] at h
    cases hc : st.threads[i].core.step o with
    | none => rfl
    | some c => simp [hc] at h
  | alloc i t stack addr size =>
    simp only [POp.wellAddr, decide_eq_true_eq] at hw
    have hi : st.threads[i]? = some st.threads[i] := List.getElem?_eq_getElem hw
    obtain ⟨k, a, hk, ha⟩ := firstOfProc_some _ st.threads i _ hi rfl
    obtain ⟨st', hs⟩ := updThread_total st k a ha (fun x => x.addAlloc t stack addr size)
    simp [PState.step, hi, hk, hs] at h
  | marker i =>
    simp only [POp.wellAddr, decide_eq_true_eq] at hw
    have hi : st.threads[i]? = some st.threads[i] := List.getElem?_eq_getElem hw
    simp [PState.step, PState.updThread, hi] at h
  | wtype i k =>
    simp only [POp.wellAddr, decide_eq_true_eq] at hw
    have hi : st.threads[i]? = some st.threads[i] := List.getElem?_eq_getElem hw
    simp [PState.step, PState.updThread, hi] at h
  | counter j o =>
    simp only [POp.wellAddr, decide_eq_true_eq] at hw
    have hj : st.counters[j]? = some st.counters[j] := List.getElem?_eq_getElem hw
    simp [PState.step, hj] at h
  | ser => simp [PState.step] at h

/-- **No other panic.** A well-addressed history panics only if the `add` / `merge` calls of one thread, run on
their own, panic. -/
theorem runPFrom_none (ops : List POp) (st : PState)
    (hw : WellAddr st.threads.length st.counters.length ops) (h : runPFrom st ops = none) :
    ∃ i th, st.threads[i]? = some th ∧ runFrom th.core (threadOps i ops) = none := by
  induction ops generalizing st with
  | nil => simp [runPFrom] at h
  | cons op ops ih =>
    have hwop := hw op (by simp)
    simp only [runPFrom] at h
    cases hs : st.step op with
    | none =>
      obtain ⟨i, o, th, rfl, hi, hc⟩ := step_none hwop hs
      refine ⟨i, th, hi, ?_⟩
      simp [threadOps, runFrom, hc]
    | some st1 =>
      simp only [hs] at h
      obtain ⟨l1, l2⟩ := step_lengths hs
      have hw1 : WellAddr st1.threads.length st1.counters.length ops := by
        intro o ho; rw [l1, l2]; exact hw o (by simp [ho])
      obtain ⟨i, th1, hi1, hr⟩ := ih st1 hw1 h
      have hlt : i < st.threads.length := by
        rw [← l1]
        rcases Nat.lt_or_ge i st1.threads.length with h' | h'
        · exact h'
        · rw [List.getElem?_eq_none h'] at hi1; cases hi1
      have hi : st.threads[i]? = some st.threads[i] := List.getElem?_eq_getElem hlt
      obtain ⟨th1', h1, _, r1⟩ := step_thread hs i _ hi
      rw [hi1] at h1; cases h1
      refine ⟨i, _, hi, ?_⟩
      rw [threadOps_cons, runFrom_append, r1]
      simpa using hr

/-- conversely, a panic of one thread's own history is a panic of the profile -/
theorem runPFrom_some_thread (ops : List POp) (st : PState) (i : Nat) (th : PThread)
    (hi : st.threads[i]? = some th) (h : runFrom th.core (threadOps i ops) = none) :
    runPFrom st ops = none := by
  cases hr : runPFrom st ops with
  | none => rfl
  | some st' =>
    obtain ⟨th', _, _, r⟩ := runPFrom_thread ops st st' hr i th hi
    rw [h] at r; cases r

/-! ### 3. serialization of a whole profile -/

theorem allSome_eq_some {α : Type} (l : List (Option α)) (r : List α) :
    allSome l = some r ↔ l = r.map some := by
  induction l generalizing r with
  | nil => cases r <;> simp [allSome]
  | cons x xs ih =>
    cases x with
    | none => cases r <;> simp [allSome]
    | some a =>
      cases r with
      | nil => simp [allSome]
      | cons b bs =>
        simp only [allSome, Option.map_eq_some_iff, List.map_cons, List.cons.injEq, Option.some.injEq]
        constructor
        · rintro ⟨r', hr, h1, h2⟩
          exact ⟨h1, by rw [← h2]; exact (ih r').1 hr⟩
        · rintro ⟨h1, h2⟩
          exact ⟨bs, (ih bs).2 h2, h1, rfl⟩

theorem allSome_total {α : Type} (l : List (Option α)) (h : ∀ x ∈ l, ∃ a, x = some a) :
    ∃ r, allSome l = some r := by
  induction l with
  | nil => exact ⟨[], rfl⟩
  | cons x xs ih =>
    obtain ⟨a, rfl⟩ := h x (by simp)
    obtain ⟨r, hr⟩ := ih (fun y hy => h y (by simp [hy]))
    exact ⟨a :: r, by simp [allSome, hr]⟩

/-- the snapshot shows, slot by slot, the serialization of that thread / counter -/
theorem serialize_slots {st : PState} {s : PSnap} (h : st.serialize = some s) :
    (∀ (i : Nat) (th : PThread), st.threads[i]? = some th →
      ∃ ts, s.threads[i]? = some ts ∧ th.serialize = some ts) ∧
    (∀ (j : Nat) (c : CounterSamples), st.counters[j]? = some c →
      ∃ co, s.counters[j]? = some co ∧ c.serialize = some co) ∧
    s.threads.length = st.threads.length ∧ s.counters.length = st.counters.length := by
  unfold PState.serialize at h
  split at h
  · rename_i ts cs h1 h2
    cases h
    rw [allSome_eq_some] at h1 h2
    refine ⟨?_, ?_, ?_, ?_⟩
    · intro i th hi
      have := congrArg (·[i]?) h1
      simp only [List.getElem?_map, hi, Option.map_some] at this
      cases hts : ts[i]? with
      | none => simp [hts] at this
      | some x => simp [hts] at this; exact ⟨x, rfl, this⟩
    · intro j c hj
      have := congrArg (·[j]?) h2
      simp only [List.getElem?_map, hj, Option.map_some] at this
      cases hcs : cs[j]? with
      | none => simp [hcs] at this
      | some x => simp [hcs] at this; exact ⟨x, rfl, this⟩
    · have := congrArg List.length h1; simpa using this.symm
    · have := congrArg List.length h2; simpa using this.symm
  · cases h

/-- every slot satisfies the single-table invariant for some logical rows -/
structure Good (st : PState) : Prop where
  threads : ∀ (i : Nat) (th : PThread), st.threads[i]? = some th → ∃ rows, Inv th.core rows
  counters : ∀ (j : Nat) (c : CounterSamples), st.counters[j]? = some c → ∃ rows, CInv c rows

theorem mem_getElem? {α : Type} {l : List α} {x : α} (h : x ∈ l) : ∃ i : Nat, l[i]? = some x := by
  obtain ⟨i, hi, rfl⟩ := List.getElem_of_mem h
  exact ⟨i, List.getElem?_eq_getElem hi⟩

/-- a good state serializes without panic -/
theorem good_serialize {st : PState} (g : Good st) : ∃ s, st.serialize = some s := by
  have h1 : ∃ ts, allSome (st.threads.map PThread.serialize) = some ts := by
    apply allSome_total
    intro x hx
    obtain ⟨th, hth, rfl⟩ := List.mem_map.1 hx
    obtain ⟨i, hi⟩ := mem_getElem? hth
    obtain ⟨rows, inv⟩ := g.threads i th hi
    obtain ⟨idx, hv, he⟩ := serialize_eq th.core rows inv
    obtain ⟨rows', ds, _, _, _, _, _, hs⟩ := serializeWith_rows th.core rows inv idx hv
    simp only [PThread.serialize, he, hs, Option.map_some]
    exact ⟨_, rfl⟩
  have h2 : ∃ cs, allSome (st.counters.map CounterSamples.serialize) = some cs := by
    apply allSome_total
    intro x hx
    obtain ⟨c, hc, rfl⟩ := List.mem_map.1 hx
    obtain ⟨j, hj⟩ := mem_getElem? hc
    obtain ⟨rows, inv⟩ := g.counters j c hj
    obtain ⟨idx, hv, he⟩ := cserialize_eq c rows inv
    obtain ⟨rows', ds, _, _, _, _, _, hs⟩ := cserializeWith_rows c rows inv idx hv
    exact ⟨_, by rw [he, hs]⟩
  obtain ⟨ts, h1⟩ := h1
  obtain ⟨cs, h2⟩ := h2
  exact ⟨⟨ts, cs⟩, by simp [PState.serialize, h1, h2]⟩

theorem runFrom_inv_some (ops : List Op) (th th' : Thread) (rows : List LRow) (h : Inv th rows)
    (hr : runFrom th ops = some th') : Inv th' (logicalFrom rows ops) := by
  cases hf : fitsFrom rows ops with
  | false => rw [(runFrom_inv ops th rows h).2 hf] at hr; cases hr
  | true =>
    obtain ⟨th'', e, i⟩ := (runFrom_inv ops th rows h).1 hf
    rw [e] at hr; cases hr; exact i

theorem good_runPFrom (ops : List POp) (st st' : PState) (g : Good st) (h : runPFrom st ops = some st') :
    Good st' := by
  have hlen : st'.threads.length = st.threads.length ∧ st'.counters.length = st.counters.length := by
    clear g
    induction ops generalizing st with
    | nil => simp only [runPFrom] at h; cases h; exact ⟨rfl, rfl⟩
    | cons op ops ih =>
      simp only [runPFrom] at h
      cases hs : st.step op with
      | none => simp [hs] at h
      | some st1 =>
        simp only [hs] at h
        obtain ⟨a, b⟩ := ih st1 h
        obtain ⟨c, d⟩ := step_lengths hs
        exact ⟨a.trans c, b.trans d⟩
  constructor
  · intro i th' hi'
    have hlt : i < st.threads.length := by
      rw [← hlen.1]
      rcases Nat.lt_or_ge i st'.threads.length with h' | h'
      · exact h'
      · rw [List.getElem?_eq_none h'] at hi'; cases hi'
    have hi : st.threads[i]? = some st.threads[i] := List.getElem?_eq_getElem hlt
    obtain ⟨rows, inv⟩ := g.threads i _ hi
    obtain ⟨th'', h1, _, r⟩ := runPFrom_thread ops st st' h i _ hi
    rw [hi'] at h1; cases h1
    exact ⟨_, runFrom_inv_some _ _ _ rows inv r⟩
  · intro j c' hj'
    have hlt : j < st.counters.length := by
      rw [← hlen.2]
      rcases Nat.lt_or_ge j st'.counters.length with h' | h'
      · exact h'
      · rw [List.getElem?_eq_none h'] at hj'; cases hj'
    have hj : st.counters[j]? = some st.counters[j] := List.getElem?_eq_getElem hlt
    obtain ⟨rows, inv⟩ := g.counters j _ hj
    have := runPFrom_counter ops st st' h j _ hj
    rw [hj'] at this; cases this
    exact ⟨_, runCFrom_inv _ _ rows inv⟩

theorem good_init (procs : List Nat) (nc : Nat) : Good (PState.init procs nc) := by
  constructor
  · intro i th hi
    simp only [PState.init, List.getElem?_map] at hi
    cases hp : procs[i]? with
    | none => simp [hp] at hi
    | some p => simp [hp] at hi; subst hi; exact ⟨[], inv_new⟩
  · intro j c hj
    simp only [PState.init] at hj
    have := List.mem_of_getElem? hj
    rw [List.mem_replicate] at this
    rw [this.2]; exact ⟨[], cinv_new⟩

/-! ### 4. snapshots -/

theorem step_ser_of_isSer {st : PState} {op : POp} (h : op.isSer = true) : st.step op = some st := by
  cases op <;> simp [POp.isSer] at h
  rfl

/-- the `k`-th snapshot is the serialization of the state after the calls before the `k`-th `ser`
(after all calls for the last one) -/
theorem snapsFrom_spec (ops : List POp) (st : PState) (snaps : List PSnap)
    (h : snapsFrom st ops = some snaps) :
    snaps.length = serCount ops + 1 ∧
    ∀ k s, snaps[k]? = some s →
      ∃ stk, runPFrom st (prefixAt k ops) = some stk ∧ stk.serialize = some s := by
  induction ops generalizing st snaps with
  | nil =>
    simp only [snapsFrom, Option.map_eq_some_iff] at h
    obtain ⟨s0, hs0, rfl⟩ := h
    refine ⟨by simp [serCount], ?_⟩
    intro k s hk
    cases k with
    | zero => simp at hk; subst hk; exact ⟨st, rfl, hs0⟩
    | succ k => simp at hk
  | cons op ops ih =>
    simp only [snapsFrom] at h
    by_cases hser : op.isSer = true
    · simp only [hser, if_true] at h
      cases hs0 : st.serialize with
      | none => simp [hs0] at h
      | some s0 =>
        cases hr : snapsFrom st ops with
        | none => simp [hs0, hr] at h
        | some r =>
          simp only [hs0, hr, Option.some.injEq] at h
          subst h
          obtain ⟨l, hk⟩ := ih st r hr
          refine ⟨by simp [serCount, hser] at l ⊢; omega, ?_⟩
          intro k s hks
          cases k with
          | zero =>
            simp at hks; subst hks
            exact ⟨st, by simp [prefixAt, hser, runPFrom], hs0⟩
          | succ k =>
            simp only [List.getElem?_cons_succ] at hks
            obtain ⟨stk, h1, h2⟩ := hk k s hks
            refine ⟨stk, ?_, h2⟩
            simp [prefixAt, hser, runPFrom, step_ser_of_isSer hser, h1]
    · simp only [hser] at h
      cases hs : st.step op with
      | none => simp [hs] at h
      | some st1 =>
        simp only [hs] at h
        obtain ⟨l, hk⟩ := ih st1 snaps h
        refine ⟨by simp [serCount, hser] at l ⊢; omega, ?_⟩
        intro k s hks
        obtain ⟨stk, h1, h2⟩ := hk k s hks
        refine ⟨stk, ?_, h2⟩
        simp [prefixAt, hser, runPFrom, hs, h1]

/-- from a good state, a history that does not panic has all its snapshots (no serialization panics) -/
theorem snapsFrom_total (ops : List POp) (st st' : PState) (g : Good st)
    (h : runPFrom st ops = some st') : ∃ snaps, snapsFrom st ops = some snaps := by
  induction ops generalizing st with
  | nil =>
    obtain ⟨s, hs⟩ := good_serialize g
    exact ⟨[s], by simp [snapsFrom, hs]⟩
  | cons op ops ih =>
    simp only [runPFrom] at h
    cases hs : st.step op with
    | none => simp [hs] at h
    | some st1 =>
      simp only [hs] at h
      by_cases hser : op.isSer = true
      · have : st1 = st := by
          have := step_ser_of_isSer (st := st) hser
          rw [hs] at this; cases this; rfl
        subst this
        obtain ⟨s0, hs0⟩ := good_serialize g
        obtain ⟨r, hr⟩ := ih st1 g h
        exact ⟨s0 :: r, by simp [snapsFrom, hser, hs0, hr]⟩
      · have g1 : Good st1 := good_runPFrom [op] st st1 g (by simp [runPFrom, hs])
        obtain ⟨r, hr⟩ := ih st1 g1 h
        exact ⟨r, by simp [snapsFrom, hser, hs, hr]⟩

end STabP
