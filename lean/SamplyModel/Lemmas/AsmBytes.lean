import SamplyModel.Lemmas.AsmDecode
import SamplyModel.Model.AsmBytes
/-!
Helper lemmas for the byte-level layer of C20: chains stay inside the slice under the tail hypothesis, no panic
without a size hypothesis, `decAt`/`fileBytes` algebra, the JITDUMP read.
-/
namespace Asm

/-! ### Steps and chains stay inside the slice -/

theorem stepAt_within {dec : Nat → Dec} {adjust bytesLen : Nat} {it : Item} {s : Nat}
    (hor : OracleOK bytesLen dec) (ht : OracleTail adjust bytesLen dec)
    (h : stepAt dec adjust it = some s) : it.off + s ≤ bytesLen := by
  unfold stepAt at h
  split at h
  · rename_i len hd _
    simp only [Option.some.injEq] at h
    subst h
    exact (hor _ _ hd).2
  · rename_i hd _
    simp only [Option.some.injEq] at h
    subst h
    exact ht _ hd
  · simp at h

/-- a chain that starts inside the slice ends inside it, and so does every listed instruction -/
theorem chain_within {dec : Nat → Dec} {adjust limit bytesLen : Nat}
    (hor : OracleOK bytesLen dec) (ht : OracleTail adjust bytesLen dec) :
    ∀ (items : List Item) (p final : Nat), chainOk dec adjust limit p items final = true → p ≤ bytesLen →
      final ≤ bytesLen ∧
      ∀ it ∈ items, ∃ s, stepAt dec adjust it = some s ∧ 1 ≤ s ∧ it.off + s ≤ bytesLen := by
  intro items
  induction items with
  | nil =>
    intro p final h hp
    simp only [chainOk, beq_iff_eq] at h
    subst h
    exact ⟨hp, by simp⟩
  | cons it rest ih =>
    intro p final h hp
    obtain ⟨h1, _, s, hs, hs1, hrest⟩ := chain_cons h
    have hw := stepAt_within hor ht hs
    obtain ⟨hf, hall⟩ := ih _ _ hrest (by omega)
    refine ⟨hf, ?_⟩
    intro x hx
    rcases List.mem_cons.mp hx with rfl | hx
    · exact ⟨s, hs, hs1, hw⟩
    · exact hall x hx

/-! ### No panic without a hypothesis on the size: the slice is at most `u32::MAX` long -/

theorem loop_no_panic_tail (adjust decodeLen bytesLen : Nat) (dec : Nat → Dec)
    (hor : OracleOK bytesLen dec) (ht : OracleTail adjust bytesLen dec) (hlen : bytesLen ≤ u32max) :
    ∀ fuel offset, offset ≤ bytesLen →
      loop adjust decodeLen bytesLen dec fuel offset ≠ .panic := by
  intro fuel
  induction fuel with
  | zero => intro offset _; simp [loop]
  | succ fuel ih =>
    intro offset hoff
    unfold loop
    split
    · simp
    · split
      · rename_i len hdec
        have hl := (hor _ _ hdec).2
        split
        · omega
        · rw [Ne, cons_panic]
          exact ih _ hl
      · simp
      · rename_i hdec
        have hl := ht _ hdec
        split
        · omega
        · split
          · omega
          · split
            · simp
            · rw [Ne, cons_panic]
              exact ih _ hl

/-! ### Byte-level decoders -/

theorem decAt_oracle {adjust : Nat} {D : ByteDec} (hadj : 1 ≤ adjust) (hD : ByteDecOK adjust D)
    (bytes : List UInt8) :
    OracleOK bytes.length (decAt D bytes) ∧ OracleTail adjust bytes.length (decAt D bytes) := by
  constructor
  · intro p len h
    have := (hD (bytes.drop p)).1 len h
    rw [List.length_drop] at this
    omega
  · intro p h
    have := (hD (bytes.drop p)).2 h
    rw [List.length_drop] at this
    omega

theorem fileBytes_length {file : List UInt8} {fo n : Nat} (h : fo + n ≤ file.length) :
    (fileBytes file fo n).length = n := by
  unfold fileBytes
  rw [List.length_take, List.length_drop]
  omega

theorem fileBytes_drop (file : List UInt8) (fo n p : Nat) :
    (fileBytes file fo n).drop p = fileBytes file (fo + p) (n - p) := by
  unfold fileBytes
  rw [List.drop_take, List.drop_drop]

theorem shown_fileBytes (file : List UInt8) (fo n adjust p : Nat) (h : p + adjust ≤ n) :
    shown (fileBytes file fo n) adjust p = fileBytes file (fo + p) adjust := by
  unfold shown
  rw [fileBytes_drop]
  unfold fileBytes
  rw [List.take_take]
  congr 1
  omega

/-! ### The read never returns more than it was asked for -/

theorem readRange_le {img : Image} {rel size fileOff n : Nat} (h : readRange img rel size = .ok fileOff n) :
    n ≤ size := by
  obtain ⟨sec, _, hn, _⟩ := readRange_ok h
  omega

/-! ### What `stepAt` says about the oracle -/

theorem stepAt_decoded {dec : Nat → Dec} {adjust : Nat} {it : Item} {s : Nat}
    (hi : it.inv = false) (h : stepAt dec adjust it = some s) : dec it.off = .ok s := by
  unfold stepAt at h
  split at h
  · rename_i len hd _
    simp only [Option.some.injEq] at h
    rw [hd, h]
  · rename_i _ hinv
    rw [hi] at hinv
    simp at hinv
  · simp at h

theorem stepAt_undecodable {dec : Nat → Dec} {adjust : Nat} {it : Item} {s : Nat}
    (hi : it.inv = true) (h : stepAt dec adjust it = some s) : dec it.off = .invalid ∧ s = adjust := by
  unfold stepAt at h
  split at h
  · rename_i _ hinv
    rw [hi] at hinv
    simp at hinv
  · rename_i hd _
    simp only [Option.some.injEq] at h
    exact ⟨hd, h.symm⟩
  · simp at h

/-! ### `decode` under both oracle assumptions -/

theorem decode_facts {adjust decodeLen bytesLen : Nat} {dec : Nat → Dec} {items : List Item} {f : Nat}
    (hor : OracleOK bytesLen dec) (ht : OracleTail adjust bytesLen dec) (hadj : 1 ≤ adjust)
    (h : decode adjust decodeLen bytesLen dec = .done items f) :
    chainOk dec adjust decodeLen 0 items f = true ∧ f ≤ bytesLen ∧
    (∀ it ∈ items, ∃ s, stepAt dec adjust it = some s ∧ 1 ≤ s ∧ it.off + s ≤ bytesLen) ∧
    (decodeLen ≤ f ∨ dec f = .exhausted) := by
  have hc := loop_chain adjust decodeLen bytesLen dec hor hadj _ _ _ _ h
  obtain ⟨hf, hall⟩ := chain_within hor ht items 0 f hc (Nat.zero_le _)
  refine ⟨hc, hf, hall, ?_⟩
  rcases loop_complete adjust decodeLen bytesLen dec _ _ _ _ h with h1 | h2 | h3
  · exact Or.inl h1
  · exact Or.inr h2
  · omega

theorem decode_no_panic_tail {adjust decodeLen bytesLen : Nat} {dec : Nat → Dec}
    (hor : OracleOK bytesLen dec) (ht : OracleTail adjust bytesLen dec) (hlen : bytesLen ≤ u32max) :
    decode adjust decodeLen bytesLen dec ≠ .panic :=
  loop_no_panic_tail adjust decodeLen bytesLen dec hor ht hlen _ _ (Nat.zero_le _)

theorem decode_fuel {adjust decodeLen bytesLen : Nat} {dec : Nat → Dec}
    (hor : OracleOK bytesLen dec) (hadj : 1 ≤ adjust) :
    decode adjust decodeLen bytesLen dec ≠ .nofuel :=
  loop_fuel adjust decodeLen bytesLen dec hor hadj _ _ (by omega)

theorem readSize_le (len : Nat) : readSize len ≤ u32max := by unfold readSize; omega

theorem readRange_ne_panic (img : Image) (rel size : Nat) : readRange img rel size ≠ .panic := by
  unfold readRange
  simp only
  split
  · simp
  · split
    · simp
    · split
      · simp
      · split <;> simp

/-- `query` never panics when the oracle satisfies both assumptions: the slice is at most `u32::MAX` bytes
(`readSize`), so no `u32` addition in the loop can overflow -/
theorem query_no_panic_tail (arch : Arch) (img : Image) (sym : Option Sym) (req : Req) (dec : Nat → Dec)
    (hor : ∀ fo n, (plan arch img sym req).2.2 = .ok fo n → OracleOK n dec ∧ OracleTail arch.adjust n dec) :
    query arch img sym req dec ≠ .panic := by
  unfold query plan
  simp only
  split <;> try simp
  · rename_i hrd
    exact readRange_ne_panic img _ _ hrd
  · rename_i fo' n' hrd
    split
    · simp
    · obtain ⟨ho, ht⟩ := hor fo' n' (by simpa [plan] using hrd)
      have hn := Nat.le_trans (readRange_le hrd) (readSize_le _)
      have := decode_no_panic_tail (decodeLen := disasmLen req.start req.size req.cont (fnEnd sym)) ho ht hn
      split <;> simp_all


/-! ### JITDUMP -/

theorem jitFind_some {entries : List JitEntry} {a : Nat} {e : JitEntry} (h : jitFind entries a = some e) :
    e ∈ entries ∧ e.relAddr ≤ a := by
  induction entries with
  | nil => simp [jitFind] at h
  | cons x rest ih =>
    unfold jitFind at h
    split at h
    · rename_i hx
      split at h
      · rename_i e' he'
        simp only [Option.some.injEq] at h
        subst h
        have := ih he'
        exact ⟨List.mem_cons_of_mem _ this.1, this.2⟩
      · simp only [Option.some.injEq] at h
        subst h
        exact ⟨List.mem_cons_self, hx⟩
    · simp at h

theorem readJit_ok {entries : List JitEntry} {fileLen rel size fileOff n : Nat}
    (h : readJit entries fileLen rel size = .ok fileOff n) :
    ∃ e ∈ entries, e.relAddr ≤ rel ∧ rel < e.relAddr + e.codeLen ∧
      fileOff = e.codeOff + (rel - e.relAddr) ∧
      n = min size (e.codeLen - (rel - e.relAddr)) ∧
      fileOff + n ≤ e.codeOff + e.codeLen ∧ fileOff + n ≤ fileLen := by
  unfold readJit at h
  split at h
  · simp at h
  · rename_i e he
    obtain ⟨hmem, hle⟩ := jitFind_some he
    simp only at h
    split at h
    · simp at h
    · rename_i hlt
      split at h
      · rename_i hio
        simp only [JitRead.ok.injEq] at h
        obtain ⟨rfl, rfl⟩ := h
        refine ⟨e, hmem, hle, by omega, rfl, rfl, by omega, hio⟩
      · simp at h

/-! ### The judge's decidable check of a tabulated oracle implies the assumptions of the theorems -/

theorem tableOk_get {adjust n : Nat} :
    ∀ (tab : List Dec) (k : Nat), tableOk adjust n tab k = true →
      ∀ i d, tab[i]? = some d →
        (∀ len, d = .ok len → 1 ≤ len ∧ k + i + len ≤ n) ∧ (d = .invalid → k + i + adjust ≤ n) := by
  intro tab
  induction tab with
  | nil => intro k _ i d hd; simp at hd
  | cons x rest ih =>
    intro k h i d hd
    unfold tableOk at h
    simp only [Bool.and_eq_true] at h
    obtain ⟨hx, hrest⟩ := h
    cases i with
    | zero =>
      simp only [List.getElem?_cons_zero, Option.some.injEq] at hd
      subst hd
      constructor
      · intro len hl
        subst hl
        simp only [Bool.and_eq_true, decide_eq_true_eq] at hx
        omega
      · intro hi
        subst hi
        simp only [decide_eq_true_eq] at hx
        omega
    | succ j =>
      simp only [List.getElem?_cons_succ] at hd
      have := ih (k + 1) hrest j d hd
      constructor
      · intro len hl
        have := this.1 len hl
        omega
      · intro hi
        have := this.2 hi
        omega

theorem tableOk_oracle {adjust n : Nat} {tab : List Dec} (h : tableOk adjust n tab 0 = true) :
    OracleOK n (decOfTable tab) ∧ OracleTail adjust n (decOfTable tab) := by
  constructor
  · intro p len hp
    unfold decOfTable at hp
    split at hp
    · rename_i d hd
      have := (tableOk_get tab 0 h p d hd).1 len hp
      omega
    · simp at hp
  · intro p hp
    unfold decOfTable at hp
    split at hp
    · rename_i d hd
      have := (tableOk_get tab 0 h p d hd).2 hp
      omega
    · simp at hp

/-! ### Rows of a listing over a file range -/

theorem decode_file_rows {adjust len fo n : Nat} {D : ByteDec} {file : List UInt8}
    (hD : ByteDecOK adjust D) (hadj : 1 ≤ adjust) (hfile : fo + n ≤ file.length)
    {items : List Item} {size : Nat}
    (h : decode adjust len n (decAt D (fileBytes file fo n)) = .done items size) :
    chainOk (decAt D (fileBytes file fo n)) adjust len 0 items size = true ∧ size ≤ n ∧
    (∀ it ∈ items,
      (it.inv = false → ∃ l, D (fileBytes file (fo + it.off) (n - it.off)) = .ok l ∧ 1 ≤ l ∧ it.off + l ≤ n) ∧
      (it.inv = true → D (fileBytes file (fo + it.off) (n - it.off)) = .invalid ∧ it.off + adjust ≤ n ∧
          shown (fileBytes file fo n) adjust it.off = fileBytes file (fo + it.off) adjust)) ∧
    (len ≤ size ∨ D (fileBytes file (fo + size) (n - size)) = .exhausted) := by
  have hor := decAt_oracle hadj hD (fileBytes file fo n)
  rw [fileBytes_length hfile] at hor
  obtain ⟨hc, hf, hall, hcomp⟩ := decode_facts hor.1 hor.2 hadj h
  refine ⟨hc, hf, ?_, ?_⟩
  · intro it hit
    obtain ⟨s, hs, hs1, hw⟩ := hall it hit
    constructor
    · intro hi
      have hd := stepAt_decoded hi hs
      unfold decAt at hd
      rw [fileBytes_drop] at hd
      exact ⟨s, hd, hs1, hw⟩
    · intro hi
      obtain ⟨hd, rfl⟩ := stepAt_undecodable hi hs
      unfold decAt at hd
      rw [fileBytes_drop] at hd
      exact ⟨hd, hw, shown_fileBytes file fo n _ _ hw⟩
  · rcases hcomp with h1 | h2
    · exact Or.inl h1
    · right
      unfold decAt at h2
      rw [fileBytes_drop] at h2
      exact h2

/-- a range of a range of the file is a range of the file -/
theorem fileBytes_fileBytes (file : List UInt8) (start size fo n : Nat) (h : fo + n ≤ size) :
    fileBytes (fileBytes file start size) fo n = fileBytes file (start + fo) n := by
  unfold fileBytes
  rw [List.drop_take, List.drop_drop, List.take_take]
  congr 1
  omega

end Asm
