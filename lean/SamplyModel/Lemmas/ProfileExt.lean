import SamplyModel.Lemmas.ProfileDecode
import SamplyModel.Lemmas.ProfileCanonical
/-!
Stability of everything a frame description is made of (improvement round, reviewer's item 1, part 2):

* `SE gs st st'` — the thread string table `st'` is obtained from `st` by interning strings
  (`index_for_string`) and by converting global string handles whose string is `gs[g]`
  (`index_for_global_string`). Consequences: the string array is extended at the end; the correctness of
  the global→local map (`SDec`) is preserved.
* `Ext p p'` — global strings, libraries (all / used), categories (name, colour; subcategories extended at the
  end) and every thread's strings / native symbol columns are only extended.
* `step_ext`: every operation extends (`Ext p (step p op).1`), for every state whose global string table
  is consistent.
-/
namespace PT

/-! ### string tables -/

theorem StringTable.indexFor_prefix (t : StringTable) (s : Str) : t.strings <+: (t.indexFor s).1.strings := by
  unfold StringTable.indexFor
  split
  · exact List.prefix_refl _
  · exact List.prefix_append _ _

inductive SE (gs : List Str) : ThreadStrings → ThreadStrings → Prop
  | refl (st : ThreadStrings) : SE gs st st
  | idx {st st' : ThreadStrings} (s : Str) : SE gs st st' → SE gs st (st'.indexFor s).1
  | glob {st st' : ThreadStrings} (g : Nat) (s : Str) : SE gs st st' → gs[g]? = some s →
      SE gs st (st'.forGlobal g s).1

theorem SE.trans {gs : List Str} {a b c : ThreadStrings} (h1 : SE gs a b) (h2 : SE gs b c) : SE gs a c := by
  induction h2 with
  | refl => exact h1
  | idx s _ ih => exact .idx s ih
  | glob g s _ hg ih => exact .glob g s ih hg

theorem SE.mono {gs gs' : List Str} {a b : ThreadStrings} (hp : gs <+: gs') (h : SE gs a b) : SE gs' a b := by
  induction h with
  | refl => exact .refl _
  | idx s _ ih => exact .idx s ih
  | glob g s _ hg ih => exact .glob g s ih (prefix_getElem? hp hg)

theorem ThreadStrings.forGlobal_prefix (st : ThreadStrings) (g : Nat) (s : Str) :
    st.table.strings <+: (st.forGlobal g s).1.table.strings := by
  unfold ThreadStrings.forGlobal
  split
  · exact List.prefix_refl _
  · exact st.table.indexFor_prefix s

theorem SE.prefix {gs : List Str} {a b : ThreadStrings} (h : SE gs a b) : a.table.strings <+: b.table.strings := by
  induction h with
  | refl => exact List.prefix_refl _
  | idx s _ ih => exact ih.trans (StringTable.indexFor_prefix _ s)
  | glob g s _ _ ih => exact ih.trans (ThreadStrings.forGlobal_prefix _ g s)

/-- the thread string table decodes: the index map is right, and a converted global handle `g` points at
the string `gs[g]` -/
def SDec (gs : List Str) (st : ThreadStrings) : Prop :=
  StrInv st.table ∧ ∀ kv ∈ st.g2l, ∃ str, gs[kv.1]? = some str ∧ st.table.strings[kv.2]? = some str

theorem SDec.mono {gs gs' : List Str} {st : ThreadStrings} (h : SDec gs st) (hp : gs <+: gs') : SDec gs' st :=
  ⟨h.1, fun kv hkv => by
    obtain ⟨str, h1, h2⟩ := h.2 kv hkv
    exact ⟨str, prefix_getElem? hp h1, h2⟩⟩

theorem SDec.indexFor {gs : List Str} {st : ThreadStrings} (h : SDec gs st) (s : Str) :
    SDec gs (st.indexFor s).1 ∧ (st.indexFor s).1.table.strings[(st.indexFor s).2]? = some s := by
  have h1 := st.table.indexFor_spec s h.1
  have h2 := st.table.indexFor_get s h.1
  refine ⟨⟨h1.1, ?_⟩, h2.1⟩
  intro kv hkv
  obtain ⟨str, g1, g2⟩ := h.2 kv hkv
  exact ⟨str, g1, prefix_getElem? h2.2 g2⟩

theorem SDec.forGlobal {gs : List Str} {st : ThreadStrings} (h : SDec gs st) (g : Nat) (s : Str)
    (hg : gs[g]? = some s) :
    SDec gs (st.forGlobal g s).1 ∧ (st.forGlobal g s).1.table.strings[(st.forGlobal g s).2]? = some s := by
  unfold ThreadStrings.forGlobal
  cases hl : alookup st.g2l g with
  | some l =>
    obtain ⟨str, g1, g2⟩ := h.2 _ (alookup_mem _ _ _ hl)
    simp only at g1 g2
    rw [hg] at g1
    cases g1
    exact ⟨h, g2⟩
  | none =>
    have h1 := st.table.indexFor_spec s h.1
    have h2 := st.table.indexFor_get s h.1
    refine ⟨⟨h1.1, ?_⟩, h2.1⟩
    intro kv hkv
    simp only [List.mem_cons] at hkv
    rcases hkv with rfl | hkv
    · exact ⟨s, hg, h2.1⟩
    · obtain ⟨str, g1, g2⟩ := h.2 kv hkv
      exact ⟨str, g1, prefix_getElem? h2.2 g2⟩

theorem SE.sdec {gs : List Str} {a b : ThreadStrings} (h : SE gs a b) (ha : SDec gs a) : SDec gs b := by
  induction h with
  | refl => exact ha
  | idx s _ ih => exact (ih.indexFor s).1
  | glob g s _ hg ih => exact (ih.forGlobal g s hg).1

/-! ### the interning tables only intern strings -/

theorem ResourceTable.forLib_SE (gs : List Str) (rt : ResourceTable) (lib : Nat) (g : GlobalLibs)
    (st : ThreadStrings) (r : ResourceTable × ThreadStrings × Nat) (h : rt.forLib lib g st = some r) :
    SE gs st r.2.1 := by
  unfold ResourceTable.forLib at h
  split at h
  · cases h; exact .refl _
  · split at h
    · cases h
    · cases h; exact .idx _ (.refl _)

theorem FuncTable.indexFor_SE (gs : List Str) (ft : FuncTable) (k : FuncKey) (rt : ResourceTable)
    (g : GlobalLibs) (st : ThreadStrings) (r : FuncTable × ResourceTable × ThreadStrings × Nat)
    (h : ft.indexFor k rt g st = some r) : SE gs st r.2.2.1 := by
  unfold FuncTable.indexFor at h
  dsimp only at h
  split at h
  · cases h; exact .refl _
  · split at h
    · cases h; exact .refl _
    · split at h
      · cases h
      · rename_i hfl
        cases h
        have := ResourceTable.forLib_SE gs _ _ _ _ _ hfl
        exact this

theorem FrameTable.indexFor_SE (gs : List Str) (t : FrameTable) (f : Frame) (g : GlobalLibs)
    (st : ThreadStrings) (r : FrameTable × ThreadStrings × Nat) (h : t.indexFor f g st = some r) :
    SE gs st r.2.1 := by
  unfold FrameTable.indexFor at h
  dsimp only at h
  split at h
  · cases h; exact .refl _
  · split at h
    · cases h
    · rename_i hfi
      have := FuncTable.indexFor_SE gs _ _ _ _ _ _ hfi
      split at h
      · cases h; exact this
      · split at h
        · cases h; exact this
        · cases h

/-- native symbol columns only grow -/
def NsExt (a b : NativeSymbols) : Prop :=
  a.addrs <+: b.addrs ∧ a.sizes <+: b.sizes ∧ a.libs <+: b.libs ∧ a.names <+: b.names

theorem NsExt.refl (a : NativeSymbols) : NsExt a a :=
  ⟨List.prefix_refl _, List.prefix_refl _, List.prefix_refl _, List.prefix_refl _⟩

theorem NsExt.trans {a b c : NativeSymbols} (h1 : NsExt a b) (h2 : NsExt b c) : NsExt a c :=
  ⟨h1.1.trans h2.1, h1.2.1.trans h2.2.1, h1.2.2.1.trans h2.2.2.1, h1.2.2.2.trans h2.2.2.2⟩

theorem NativeSymbols.indexFor_ext (gs : List Str) (ns : NativeSymbols) (lib : Nat) (sym : Sym)
    (st : ThreadStrings) (r : NativeSymbols × ThreadStrings × Nat × Nat) (h : ns.indexFor lib sym st = some r) :
    SE gs st r.2.1 ∧ NsExt ns r.1 := by
  unfold NativeSymbols.indexFor at h
  split at h
  · split at h
    · cases h; exact ⟨.refl _, NsExt.refl _⟩
    · cases h
  · cases h
    exact ⟨.idx _ (.refl _), List.prefix_append _ _, List.prefix_append _ _, List.prefix_append _ _,
      List.prefix_append _ _⟩

theorem markerFields_SE (gs : List Str) : ∀ (fields : List Fmt) (vals : List (Nat × Str)) (st : ThreadStrings)
    (strs : List Nat) (nums : Nat) (r : ThreadStrings × List Nat × Nat),
    (∀ v ∈ vals, gs[v.1]? = some v.2) → markerFields fields vals st strs nums = some r → SE gs st r.1
  | [], _, st, strs, nums, r, _, h => by simp only [markerFields, Option.some.injEq] at h; subst h; exact .refl _
  | .n :: fs, vals, st, strs, nums, r, hv, h => by
    simp only [markerFields] at h
    exact markerFields_SE gs fs vals st strs (nums + 1) r hv h
  | .u :: fs, (g, s) :: vals, st, strs, nums, r, hv, h => by
    simp only [markerFields] at h
    have h1 : SE gs st (st.forGlobal g s).1 := .glob g s (.refl _) (hv (g, s) List.mem_cons_self)
    exact h1.trans (markerFields_SE gs fs vals _ _ nums r (fun v hv' => hv v (List.mem_cons_of_mem _ hv')) h)
  | .s :: fs, (g, _) :: vals, st, strs, nums, r, hv, h => by
    simp only [markerFields] at h
    exact markerFields_SE gs fs vals st _ nums r (fun v hv' => hv v (List.mem_cons_of_mem _ hv')) h
  | .u :: _, [], _, _, _, _, _, h => by simp [markerFields] at h
  | .s :: _, [], _, _, _, _, _, h => by simp [markerFields] at h

theorem convertOpt_SE (p : P) (st : ThreadStrings) (o : Option Nat) (r : ThreadStrings × Option Nat)
    (h : convertOpt p st o = some r) : SE p.gstrings.strings st r.1 := by
  cases o with
  | none => simp only [convertOpt, Option.some.injEq] at h; subst h; exact .refl _
  | some g =>
    simp only [convertOpt] at h
    split at h
    · cases h
    · rename_i s hs
      cases h
      exact .glob g s (.refl _) hs

theorem resolveStrs_vals (p : P) : ∀ (gs : List Nat) (vals : List (Nat × Str)),
    resolveStrs p gs = some vals → ∀ v ∈ vals, p.gstrings.strings[v.1]? = some v.2
  | [], vals, h => by
    simp only [resolveStrs, Option.some.injEq] at h
    subst h
    exact fun _ hv => (nomatch hv)
  | g :: gs, vals, h => by
    simp only [resolveStrs] at h
    split at h
    · rename_i s r hs hr
      simp only [Option.some.injEq] at h
      subst h
      intro v hv
      simp only [List.mem_cons] at hv
      rcases hv with rfl | hv
      · exact hs
      · exact resolveStrs_vals p gs r hr v hv
    · cases h

/-! ### categories -/

def CatsExt (a b : List Cat) : Prop :=
  ∀ (c : Nat) (cat : Cat), a[c]? = some cat →
    ∃ cat', b[c]? = some cat' ∧ cat'.name = cat.name ∧ cat'.color = cat.color ∧ cat.subs <+: cat'.subs

theorem CatsExt.refl (a : List Cat) : CatsExt a a :=
  fun _ cat h => ⟨cat, h, rfl, rfl, List.prefix_refl _⟩

theorem CatsExt.trans {a b c : List Cat} (h1 : CatsExt a b) (h2 : CatsExt b c) : CatsExt a c := by
  intro i cat h
  obtain ⟨cat', g1, g2, g3, g4⟩ := h1 i cat h
  obtain ⟨cat'', k1, k2, k3, k4⟩ := h2 i cat' g1
  exact ⟨cat'', k1, k2.trans g2, k3.trans g3, g4.trans k4⟩

theorem P.handleForCategory_cats (p : P) (n : Str) (c : Nat) : CatsExt p.cats (p.handleForCategory n c).1.cats := by
  unfold P.handleForCategory
  simp only
  split
  · exact CatsExt.refl _
  · intro i cat h
    exact ⟨cat, getElem?_append_old _ h, rfl, rfl, List.prefix_refl _⟩

theorem P.handleForSubcategory_cats (p : P) (c : Nat) (n : Str) :
    CatsExt p.cats (p.handleForSubcategory c n).1.cats := by
  unfold P.handleForSubcategory
  split
  · exact CatsExt.refl _
  · rename_i cat hc
    simp only
    split
    · exact CatsExt.refl _
    · intro i cat0 h
      by_cases he : c = i
      · subst he
        rw [hc] at h
        cases h
        exact ⟨{ cat with subs := cat.subs ++ [n] },
          by simp [List.getElem?_set, (List.getElem?_eq_some_iff.mp hc).1], rfl, rfl, List.prefix_append _ _⟩
      · exact ⟨cat0, by rw [List.getElem?_set_ne he]; exact h, rfl, rfl, List.prefix_refl _⟩

/-! ### the relation on profiles -/

structure Ext (p p' : P) : Prop where
  gstr : p.gstrings.strings <+: p'.gstrings.strings
  all : p.libs.all <+: p'.libs.all
  used : p.libs.used <+: p'.libs.used
  cats : CatsExt p.cats p'.cats
  threads : ∀ (i : Nat) (th : Thread), p.threads[i]? = some th →
    ∃ th', p'.threads[i]? = some th' ∧ SE p'.gstrings.strings th.strings th'.strings ∧ NsExt th.nsyms th'.nsyms

theorem Ext.refl (p : P) : Ext p p :=
  ⟨List.prefix_refl _, List.prefix_refl _, List.prefix_refl _, CatsExt.refl _,
   fun _ th h => ⟨th, h, .refl _, NsExt.refl _⟩⟩

theorem Ext.trans {a b c : P} (h1 : Ext a b) (h2 : Ext b c) : Ext a c :=
  ⟨h1.gstr.trans h2.gstr, h1.all.trans h2.all, h1.used.trans h2.used, h1.cats.trans h2.cats, by
    intro i th h
    obtain ⟨th', g1, g2, g3⟩ := h1.threads i th h
    obtain ⟨th'', k1, k2, k3⟩ := h2.threads i th' g1
    exact ⟨th'', k1, (g2.mono h2.gstr).trans k2, g3.trans k3⟩⟩

/-- only global tables changed -/
theorem Ext.globals {p p' : P} (ht : p'.threads = p.threads) (hg : p.gstrings.strings <+: p'.gstrings.strings)
    (ha : p.libs.all <+: p'.libs.all) (hu : p.libs.used <+: p'.libs.used) (hc : CatsExt p.cats p'.cats) :
    Ext p p' :=
  ⟨hg, ha, hu, hc, fun i th h => ⟨th, by rw [ht]; exact h, .refl _, NsExt.refl _⟩⟩

theorem Ext.setThread (p : P) (t : Nat) (th' : Thread)
    (h : ∀ th, p.threads[t]? = some th → SE p.gstrings.strings th.strings th'.strings ∧ NsExt th.nsyms th'.nsyms) :
    Ext p (p.setThread t th') := by
  refine ⟨List.prefix_refl _, List.prefix_refl _, List.prefix_refl _, CatsExt.refl _, ?_⟩
  intro i th hi
  simp only [P.setThread]
  by_cases he : t = i
  · subst he
    exact ⟨{ th' with process := th.process, tid := th.tid }, by simp [List.getElem?_modify_eq, hi], h th hi⟩
  · exact ⟨th, by simp only [List.getElem?_modify_ne _ _ he]; exact hi, .refl _, NsExt.refl _⟩

theorem Ext.setThread_same {p : P} {t : Nat} {th : Thread} (th' : Thread) (heq : p.threads[t]? = some th)
    (e1 : th'.strings = th.strings) (e2 : th'.nsyms = th.nsyms) : Ext p (p.setThread t th') :=
  Ext.setThread p t th' (fun th0 h0 => by
    rw [heq] at h0; cases h0; rw [e1, e2]; exact ⟨.refl _, NsExt.refl _⟩)

/-! ### helpers -/

@[simp] theorem P.handleForCategory_gstrings (p : P) (n : Str) (c : Nat) :
    (p.handleForCategory n c).1.gstrings = p.gstrings := by
  unfold P.handleForCategory; simp only; split <;> rfl
@[simp] theorem P.handleForCategory_libs (p : P) (n : Str) (c : Nat) :
    (p.handleForCategory n c).1.libs = p.libs := by
  unfold P.handleForCategory; simp only; split <;> rfl
@[simp] theorem P.handleForSubcategory_gstrings (p : P) (c : Nat) (n : Str) :
    (p.handleForSubcategory c n).1.gstrings = p.gstrings := by
  unfold P.handleForSubcategory
  split
  · rfl
  · simp only; split <;> rfl
@[simp] theorem P.handleForSubcategory_libs (p : P) (c : Nat) (n : Str) :
    (p.handleForSubcategory c n).1.libs = p.libs := by
  unfold P.handleForSubcategory
  split
  · rfl
  · simp only; split <;> rfl

theorem P.handleForCategory_ext (p : P) (n : Str) (c : Nat) : Ext p (p.handleForCategory n c).1 :=
  Ext.globals (by simp) (by simp) (by simp) (by simp) (p.handleForCategory_cats n c)

theorem P.handleForSubcategory_ext (p : P) (c : Nat) (n : Str) : Ext p (p.handleForSubcategory c n).1 :=
  Ext.globals (by simp) (by simp) (by simp) (by simp) (p.handleForSubcategory_cats c n)

theorem P.resolveSub_ext (p : P) (sc : SubSpec) : Ext p (p.resolveSub sc).1 := by
  cases sc with
  | other => exact Ext.refl p
  | cat c => simp only [P.resolveSub]; split <;> exact Ext.refl p
  | sub c s =>
    simp only [P.resolveSub]
    split
    · split <;> exact Ext.refl p
    · exact Ext.refl p
  | catVal n c => simp only [P.resolveSub]; exact p.handleForCategory_ext n c
  | subVal n c s =>
    simp only [P.resolveSub]
    have h1 := p.handleForCategory_ext n c
    have h2 := (p.handleForCategory n c).1.handleForSubcategory_ext (p.handleForCategory n c).2 s
    split <;> (rename_i h; have := congrArg (fun x => x.1) h; simp only at this; rw [← this]; exact h1.trans h2)

@[simp] theorem P.resolveSub_gstrings (p : P) (sc : SubSpec) : (p.resolveSub sc).1.gstrings = p.gstrings := by
  cases sc with
  | other => rfl
  | cat c => simp only [P.resolveSub]; split <;> rfl
  | sub c s =>
    simp only [P.resolveSub]
    split
    · split <;> rfl
    · rfl
  | catVal n c => simp [P.resolveSub]
  | subVal n c s =>
    simp only [P.resolveSub]
    split <;> (rename_i h; have := congrArg (fun x => x.1.gstrings) h; simp at this; simp [← this])

theorem GlobalLibs.indexForUsed_ext (g : GlobalLibs) (lib : Nat) :
    g.all <+: (g.indexForUsed lib).1.all ∧ g.used <+: (g.indexForUsed lib).1.used := by
  unfold GlobalLibs.indexForUsed
  split
  · exact ⟨List.prefix_refl _, List.prefix_refl _⟩
  · exact ⟨List.prefix_refl _, List.prefix_append _ _⟩

theorem resolveAddr_ext (libs : GlobalLibs) (maps : List Mapping) (a : AddrSpec) :
    libs.all <+: (resolveAddr libs maps a).1.all ∧ libs.used <+: (resolveAddr libs maps a).1.used := by
  cases a with
  | abs k x =>
    simp only [resolveAddr]
    split
    · exact ⟨List.prefix_refl _, List.prefix_refl _⟩
    · exact ⟨List.prefix_refl _, List.prefix_refl _⟩
    · exact libs.indexForUsed_ext _
  | rel k lib x =>
    simp only [resolveAddr]
    split
    · exact libs.indexForUsed_ext _
    · exact ⟨List.prefix_refl _, List.prefix_refl _⟩

/-- `p1` differs from `p` in libs and global strings only, both extended -/
theorem Ext.libs_gstr (p : P) (libs : GlobalLibs) (gs : StringTable) (ha : p.libs.all <+: libs.all)
    (hu : p.libs.used <+: libs.used) (hg : p.gstrings.strings <+: gs.strings) :
    Ext p { p with libs := libs, gstrings := gs } :=
  Ext.globals rfl hg ha hu (CatsExt.refl _)

/-! ### per operation -/

theorem P.internFrame_ext (p : P) (t : Nat) (th th0 : Thread) (st : ThreadStrings) (f : Frame)
    (h0 : p.threads[t]? = some th0) (hs : SE p.gstrings.strings th0.strings st) (hn : NsExt th0.nsyms th.nsyms) :
    Ext p (p.internFrame t th st f).1 := by
  unfold P.internFrame
  cases hi : th.frames.indexFor f p.libs st with
  | none => exact Ext.refl p
  | some r =>
    obtain ⟨ft, st', i⟩ := r
    simp only
    refine Ext.setThread p t _ ?_
    intro th1 h1
    rw [h0] at h1
    cases h1
    exact ⟨hs.trans (FrameTable.indexFor_SE _ _ _ _ _ _ hi), hn⟩

theorem P.frameLabel_ext (p : P) (t str : Nat) (src : Option (Option Nat × Option Nat × Option Nat))
    (c s flags : Nat) : Ext p (p.frameLabel t str src c s flags).1 := by
  unfold P.frameLabel
  split
  · rename_i th label hth hl
    have h1 : SE p.gstrings.strings th.strings (th.strings.forGlobal str label).1 := .glob str label (.refl _) hl
    split
    · exact p.internFrame_ext t th th _ _ hth h1 (NsExt.refl _)
    · dsimp only
      split
      · exact Ext.refl p
      · rename_i st file' hco
        exact p.internFrame_ext t th th _ _ hth (h1.trans (convertOpt_SE p _ _ _ hco)) (NsExt.refl _)
  · exact Ext.refl p

theorem P.hexString_get (p : P) (a : Nat) (hg : StrInv p.gstrings) :
    (p.hexString a).1.gstrings.strings[(p.hexString a).2.1]? = some (p.hexString a).2.2 ∧
    p.gstrings.strings <+: (p.hexString a).1.gstrings.strings :=
  p.gstrings.indexFor_get (hexStr a) hg

theorem P.frameAddr_ext (p : P) (hg : StrInv p.gstrings) (t : Nat) (a : AddrSpec) (c s flags : Nat) :
    Ext p (p.frameAddr t a c s flags).1 := by
  unfold P.frameAddr
  split
  · exact Ext.refl p
  · rename_i th hth
    split
    · exact Ext.refl p
    · rename_i pr _
      have hra := resolveAddr_ext p.libs (effMaps p.kmaps pr.maps a) a
      split
      · exact Ext.refl p
      · exact Ext.refl p
      · rename_i libs addr hr
        have hl : libs = (resolveAddr p.libs (effMaps p.kmaps pr.maps a) a).1 := by rw [hr]
        obtain ⟨g1, g2⟩ := P.hexString_get { p with libs := libs } addr hg
        simp only [P.hexString] at g1 g2 ⊢
        have e1 : Ext p { p with libs := libs, gstrings := (p.gstrings.indexFor (hexStr addr)).1 } :=
          Ext.libs_gstr p libs _ (hl ▸ hra.1) (hl ▸ hra.2) g2
        refine e1.trans (P.internFrame_ext _ t th th _ _ hth (.glob _ _ (.refl _) g1) (NsExt.refl _))
      · rename_i libs rel lib hr
        have hl : libs = (resolveAddr p.libs (effMaps p.kmaps pr.maps a) a).1 := by rw [hr]
        split
        · rename_i sym _
          split
          · exact Ext.refl p
          · rename_i ns st i name hni
            obtain ⟨k1, k2⟩ := NativeSymbols.indexFor_ext p.gstrings.strings _ _ _ _ _ hni
            have e1 : Ext p { p with libs := libs } :=
              Ext.globals rfl (List.prefix_refl _) (hl ▸ hra.1) (hl ▸ hra.2) (CatsExt.refl _)
            exact e1.trans (P.internFrame_ext _ t _ th _ _ hth k1 k2)
        · obtain ⟨g1, g2⟩ := P.hexString_get { p with libs := libs } rel hg
          simp only [P.hexString] at g1 g2 ⊢
          have e1 : Ext p { p with libs := libs, gstrings := (p.gstrings.indexFor (hexStr rel)).1 } :=
            Ext.libs_gstr p libs _ (hl ▸ hra.1) (hl ▸ hra.2) g2
          refine e1.trans (P.internFrame_ext _ t th th _ _ hth (.glob _ _ (.refl _) g1) (NsExt.refl _))

theorem P.symVariant_ext (p : P) (hg : StrInv p.gstrings) (th : Thread) (st : ThreadStrings) (res : AddrRes)
    (n' : Option Nat) (i d : Nat) (r : P × ThreadStrings × Option NativeData × Nat)
    (h : P.symVariant p th st res n' i d = some r) :
    r.1.threads = p.threads ∧ r.1.libs = p.libs ∧ r.1.cats = p.cats ∧
    p.gstrings.strings <+: r.1.gstrings.strings ∧ SE r.1.gstrings.strings st r.2.1 := by
  unfold P.symVariant at h
  split at h
  · split at h
    · cases h; exact ⟨rfl, rfl, rfl, List.prefix_refl _, .refl _⟩
    · rename_i addr _
      cases h
      obtain ⟨g1, g2⟩ := P.hexString_get p addr hg
      exact ⟨rfl, rfl, rfl, g2, .glob _ _ (.refl _) g1⟩
  · split at h
    · cases h; exact ⟨rfl, rfl, rfl, List.prefix_refl _, .refl _⟩
    · split at h
      · cases h; exact ⟨rfl, rfl, rfl, List.prefix_refl _, .refl _⟩
      · cases h
  · cases h

theorem P.frameSym_ext (p : P) (hg : StrInv p.gstrings) (t : Nat) (a : AddrSpec) (name : Option Nat) (nsym : TH)
    (file line col : Option Nat) (depth c s flags : Nat) :
    Ext p (p.frameSym t a name nsym file line col depth c s flags).1 := by
  unfold P.frameSym
  split
  · exact Ext.refl p
  · split
    · exact Ext.refl p
    · rename_i th hth
      split
      · exact Ext.refl p
      · rename_i pr _
        have hra := resolveAddr_ext p.libs (effMaps p.kmaps pr.maps a) a
        generalize resolveAddr p.libs (effMaps p.kmaps pr.maps a) a = ra at hra ⊢
        obtain ⟨libs, res⟩ := ra
        simp only at hra
        have rest : ∀ (res : AddrRes), Ext p
            (match convertOpt { p with libs := libs } th.strings name with
              | none => (p, Out.invalid)
              | some (st1, name') =>
                match P.symVariant { p with libs := libs } th st1 res name' nsym.2 depth with
                | none => (p, .invalid)
                | some (p2, st2, variant, n) =>
                  match convertOpt p2 st2 file with
                  | none => (p, .invalid)
                  | some (st3, file') => p2.internFrame t th st3 ⟨n, variant, c, s, file', line, col, flags⟩).1 := by
          intro res
          split
          · exact Ext.refl p
          · rename_i st1 name' hc1
            have s1 : SE p.gstrings.strings th.strings st1 := convertOpt_SE { p with libs := libs } _ _ _ hc1
            split
            · exact Ext.refl p
            · rename_i p2 st2 variant n hsv
              obtain ⟨k1, k2, k3, k4, k5⟩ := P.symVariant_ext { p with libs := libs } hg _ _ _ _ _ _ _ hsv
              simp only at k1 k2 k3 k4 k5
              split
              · exact Ext.refl p
              · rename_i st3 file' hc3
                have s3 : SE p2.gstrings.strings st2 st3 := convertOpt_SE p2 _ _ _ hc3
                have e1 : Ext p p2 := Ext.globals k1 k4 (by rw [k2]; exact hra.1) (by rw [k2]; exact hra.2)
                  (by rw [k3]; exact CatsExt.refl _)
                exact e1.trans (P.internFrame_ext p2 t th th _ _ (by rw [k1]; exact hth)
                  (((s1.mono k4).trans k5).trans s3) (NsExt.refl _))
        cases res with
        | invalid => exact Ext.refl p
        | panic => exact Ext.refl p
        | unknown addr => exact rest _
        | inLib rel lib => exact rest _

theorem P.nativeSymbol_ext (p : P) (t lib : Nat) (sym : Sym) : Ext p (p.nativeSymbol t lib sym).1 := by
  unfold P.nativeSymbol
  split
  · exact Ext.refl p
  · rename_i th hth
    split
    · dsimp only
      split
      · exact Ext.refl p
      · rename_i ns st i _ hni
        obtain ⟨k1, k2⟩ := NativeSymbols.indexFor_ext p.gstrings.strings _ _ _ _ _ hni
        have hu := p.libs.indexForUsed_ext lib
        have e1 : Ext p { p with libs := (p.libs.indexForUsed lib).1 } :=
          Ext.globals rfl (List.prefix_refl _) hu.1 hu.2 (CatsExt.refl _)
        refine e1.trans (Ext.setThread _ t _ ?_)
        intro th1 h1
        have h1' : p.threads[t]? = some th1 := h1
        rw [hth] at h1'
        cases h1'
        exact ⟨k1, k2⟩
    · exact Ext.refl p

theorem P.stack_ext (p : P) (t : Nat) (f : TH) (par : Option TH) : Ext p (p.stack t f par).1 := by
  unfold P.stack
  split
  · exact Ext.refl p
  · rename_i th hth
    split
    · split
      · exact Ext.refl p
      · split
        · exact Ext.refl p
        · exact Ext.setThread_same _ hth rfl rfl
    · split
      · exact Ext.refl p
      · exact Ext.setThread_same _ hth rfl rfl

theorem P.stackFrames_ext (p : P) (t : Nat) (fs : List TH) : Ext p (p.stackFrames t fs).1 := by
  unfold P.stackFrames
  split
  · exact Ext.refl p
  · rename_i th hth
    cases hl : stackFramesLoop t th.stacks none fs with
    | mk st res =>
      cases res with
      | none => exact Ext.setThread_same _ hth rfl rfl
      | some o => cases o <;> exact Ext.setThread_same _ hth rfl rfl

theorem P.sample_ext (p : P) (t : Nat) (st : Option TH) (z : Bool) : Ext p (p.sample t st z).1 := by
  unfold P.sample
  split
  · exact Ext.refl p
  · split
    · exact Ext.refl p
    · rename_i th hth; exact Ext.setThread_same _ hth rfl rfl

theorem P.sameSample_ext (p : P) (t : Nat) : Ext p (p.sameSample t).1 := by
  unfold P.sameSample
  split
  · exact Ext.refl p
  · rename_i th hth
    split
    · split <;> exact Ext.refl p
    · exact Ext.setThread_same _ hth rfl rfl

theorem P.allocSample_ext (p : P) (t : Nat) (st : Option TH) : Ext p (p.allocSample t st).1 := by
  unfold P.allocSample
  split
  · exact Ext.refl p
  · split
    · exact Ext.refl p
    · split
      · exact Ext.refl p
      · split
        · exact Ext.refl p
        · split
          · exact Ext.refl p
          · rename_i ft hft; exact Ext.setThread_same _ hft rfl rfl

theorem P.markerTypeOf_ext (p : P) (ty : MType) (r : P × Nat) (h : p.markerTypeOf ty = some r) :
    Ext p r.1 ∧ r.1.gstrings = p.gstrings ∧ r.1.threads = p.threads := by
  cases ty with
  | runtime k =>
    simp only [P.markerTypeOf] at h
    split at h
    · cases h; exact ⟨Ext.refl p, rfl, rfl⟩
    · cases h
  | static k =>
    simp only [P.markerTypeOf] at h
    split at h
    · cases h; exact ⟨Ext.refl p, rfl, rfl⟩
    · split at h
      · cases h
      · cases h
        have e := p.handleForCategory_ext ‹_› ‹_›
        refine ⟨?_, by simp, by simp⟩
        exact ⟨by simp, by simp, by simp, e.cats, fun i th hi => ⟨th, by simpa using hi, .refl _, NsExt.refl _⟩⟩

theorem P.marker_ext (p : P) (t : Nat) (ty : MType) (name : Nat) (strs : List Nat) (tm : MTiming) :
    Ext p (p.marker t ty name strs tm).1 := by
  unfold P.marker
  split
  · exact Ext.refl p
  · rename_i p1 hh hmt
    obtain ⟨e1, eg, et⟩ := P.markerTypeOf_ext _ _ _ hmt
    simp only at e1 eg et
    split
    · rename_i th nameStr vals schema hth hn hv _
      dsimp only
      split
      · exact Ext.refl p
      · split
        · exact Ext.refl p
        · rename_i mt st i hadd
          refine e1.trans (Ext.setThread _ t _ ?_)
          intro th1 h1
          rw [hth] at h1
          cases h1
          refine ⟨?_, NsExt.refl _⟩
          have s1 : SE p1.gstrings.strings th.strings (th.strings.forGlobal name nameStr).1 :=
            .glob name nameStr (.refl _) hn
          unfold MarkerTable.add at hadd
          split at hadd
          · cases hadd
          · rename_i st' strs' nums' hmf
            cases hadd
            exact s1.trans (markerFields_SE _ _ _ _ _ _ _ (resolveStrs_vals p1 _ _ hv) hmf)
    · exact Ext.refl p

theorem P.markerStack_ext (p : P) (t m : Nat) (st : Option TH) : Ext p (p.markerStack t m st).1 := by
  unfold P.markerStack
  split
  · exact Ext.refl p
  · split
    · exact Ext.refl p
    · rename_i th hth
      split
      · exact Ext.refl p
      · exact Ext.setThread_same _ hth rfl rfl

theorem P.withSub_ext (p : P) (sc : SubSpec) (k : P → Nat → Nat → P × Out)
    (hk : ∀ p' c s, p'.gstrings = p.gstrings → Ext p' (k p' c s).1) : Ext p (p.withSub sc k).1 := by
  unfold P.withSub
  have hr := p.resolveSub_ext sc
  have hg := p.resolveSub_gstrings sc
  split
  · exact Ext.refl p
  · rename_i p' h
    have : p' = (p.resolveSub sc).1 := by rw [h]
    rw [this]; exact hr
  · rename_i p' c s h
    have hp : p' = (p.resolveSub sc).1 := by rw [h]
    split
    · exact Ext.refl p
    · exact (hp ▸ hr).trans (hk p' c s (by rw [hp]; exact hg))

/-- **everything a description is made of is append-only**: every operation extends -/
theorem step_ext (p : P) (hg : StrInv p.gstrings) (op : Op) : Ext p (step p op).1 := by
  have same : ∀ p' : P, p'.threads = p.threads → p'.gstrings = p.gstrings → p'.libs = p.libs → p'.cats = p.cats →
      Ext p p' := fun p' h1 h2 h3 h4 =>
    Ext.globals h1 (by rw [h2]; exact List.prefix_refl _) (by rw [h3]; exact List.prefix_refl _)
      (by rw [h3]; exact List.prefix_refl _) (by rw [h4]; exact CatsExt.refl _)
  cases op with
  | addProcess a b c => exact same _ rfl rfl rfl rfl
  | addThread a b c d =>
    simp only [step]
    split
    · exact Ext.refl p
    · refine ⟨List.prefix_refl _, List.prefix_refl _, List.prefix_refl _, CatsExt.refl _, ?_⟩
      intro i th hi
      refine ⟨th, ?_, .refl _, NsExt.refl _⟩
      simp only
      rw [List.getElem?_append_left (List.getElem?_eq_some_iff.mp hi).1]
      exact hi
  | setTid t tid =>
    simp only [step]
    split
    · exact Ext.refl p
    · refine ⟨List.prefix_refl _, List.prefix_refl _, List.prefix_refl _, CatsExt.refl _, ?_⟩
      intro i th hi
      simp only
      by_cases he : t = i
      · subst he
        exact ⟨{ th with tid := (makeUnique p.usedTids tid).2 }, by simp [List.getElem?_modify_eq, hi], .refl _,
          NsExt.refl _⟩
      · exact ⟨th, by simp only [List.getElem?_modify_ne _ _ he]; exact hi, .refl _, NsExt.refl _⟩
  | setName t name =>
    simp only [step]
    split
    · exact Ext.refl p
    · rename_i th hth; exact Ext.setThread_same _ hth rfl rfl
  | setStart t s =>
    simp only [step]
    split
    · exact Ext.refl p
    · rename_i th hth; exact Ext.setThread_same _ hth rfl rfl
  | setPName a b => simp only [step]; split <;> exact same _ rfl rfl rfl rfl
  | setPStart a b => simp only [step]; split <;> exact same _ rfl rfl rfl rfl
  | addLib a =>
    simp only [step]
    refine Ext.globals rfl (List.prefix_refl _) ?_ ?_ (CatsExt.refl _)
    · simp only [GlobalLibs.handleFor]; split
      · exact List.prefix_refl _
      · exact List.prefix_append _ _
    · simp only [GlobalLibs.handleFor]; split <;> exact List.prefix_refl _
  | libSyms a b =>
    simp only [step]
    split
    · exact Ext.globals rfl (List.prefix_refl _) (List.prefix_refl _) (List.prefix_refl _) (CatsExt.refl _)
    · exact Ext.refl p
  | addMapping a b c d e =>
    simp only [step]
    split
    · exact Ext.refl p
    · split
      · split <;> exact same _ rfl rfl rfl rfl
      · exact Ext.refl p
  | addKernelMapping a b c d =>
    simp only [step]
    split
    · split <;> exact same _ rfl rfl rfl rfl
    · exact Ext.refl p
  | removeKernelMapping a => exact same _ rfl rfl rfl rfl
  | removeMapping a b => simp only [step]; split <;> exact same _ rfl rfl rfl rfl
  | clearMappings a => simp only [step]; split <;> exact same _ rfl rfl rfl rfl
  | string s =>
    simp only [step]
    exact Ext.globals rfl (p.gstrings.indexFor_prefix s) (List.prefix_refl _) (List.prefix_refl _) (CatsExt.refl _)
  | category a b => simp only [step]; exact p.handleForCategory_ext a b
  | subcategory a b =>
    simp only [step]
    have e := p.handleForSubcategory_ext a b
    split
    · split <;> (rename_i h; have := congrArg (fun x => x.1) h; simp only at this; rw [← this]; exact e)
    · exact Ext.refl p
  | frameLabel t str src sc fl =>
    simp only [step]; exact p.withSub_ext sc _ (fun p' c s _ => p'.frameLabel_ext t str src c s fl)
  | frameAddr t a sc fl =>
    simp only [step]; exact p.withSub_ext sc _ (fun p' c s e => p'.frameAddr_ext (e ▸ hg) t a c s fl)
  | nativeSymbol t lib sym => simp only [step]; exact p.nativeSymbol_ext t lib sym
  | frameSym t a n ns f l c d sc fl =>
    simp only [step]
    exact p.withSub_ext sc _ (fun p' c' s' e => p'.frameSym_ext (e ▸ hg) t a n ns f l c d c' s' fl)
  | stack t f par => simp only [step]; exact p.stack_ext t f par
  | stackFrames t fs => simp only [step]; exact p.stackFrames_ext t fs
  | sample t st z => simp only [step]; exact p.sample_ext t st z
  | sameSample t => simp only [step]; exact p.sameSample_ext t
  | allocSample t st => simp only [step]; exact p.allocSample_ext t st
  | markerType a b c => simp only [step]; split <;> exact same _ rfl rfl rfl rfl
  | marker t ty n strs tm => simp only [step]; exact p.marker_ext t ty n strs tm
  | markerStack t m st => simp only [step]; exact p.markerStack_ext t m st
  | counter a => simp only [step]; split <;> exact same _ rfl rfl rfl rfl
  | counterSample a => simp only [step]; split <;> exact same _ rfl rfl rfl rfl
  | visible a => simp only [step]; split <;> exact same _ rfl rfl rfl rfl
  | selected a => simp only [step]; split <;> exact same _ rfl rfl rfl rfl

/-- along an accepted run -/
theorem runFrom_ext : ∀ (ops : List Op) (p : P), Inv p → AcceptedFrom p ops = true →
    Ext p (ops.foldl (fun p op => (step p op).1) p)
  | [], p, _, _ => Ext.refl p
  | op :: ops, p, h, ha => by
    simp only [AcceptedFrom, Bool.and_eq_true] at ha
    exact (step_ext p h.1.gstr op).trans (runFrom_ext ops _ (h.step op ha.1.1 ha.1.2) ha.2)

end PT
