import SamplyModel.Lemmas.ProfileStackDecode
/-!
The pid / tid strings of the model follow the caller-side rule `idSpec` (improvement round).
-/
namespace PT


structure IdInv (p : P) (s : IdSpec) : Prop where
  pids : p.processes.map (·.pid) = s.pids
  tids : p.threads.map (·.tid) = s.tids
  np : ∀ id, nextOf p.usedPids id = s.pidUses.count id
  nt : ∀ id, nextOf p.usedTids id = s.tidUses.count id

theorem IdInv.of_skel {p p' : P} {s : IdSpec} (h : IdInv p s) (e : skel p' = skel p) : IdInv p' s := by
  have e1 : p'.threads.map (fun t => (t.process, t.tid)) = p.threads.map (fun t => (t.process, t.tid)) :=
    congrArg (·.1) e
  have e2 : p'.processes.map (fun pr => (pr.threads, pr.pid)) = p.processes.map (fun pr => (pr.threads, pr.pid)) :=
    congrArg (·.2.1) e
  have e3 : p'.usedPids = p.usedPids := congrArg (·.2.2.1) e
  have e4 : p'.usedTids = p.usedTids := congrArg (·.2.2.2) e
  refine ⟨?_, ?_, by rw [e3]; exact h.np, by rw [e4]; exact h.nt⟩
  · have := congrArg (List.map (·.2)) e2
    simp only [List.map_map, Function.comp_def] at this
    rw [this]; exact h.pids
  · have := congrArg (List.map (·.2)) e1
    simp only [List.map_map, Function.comp_def] at this
    rw [this]; exact h.tids

theorem idInv_step (p : P) (s : IdSpec) (op : Op) (h : IdInv p s) : IdInv (step p op).1 (s.step op) := by
  by_cases h1 : ∃ a b c, op = .addProcess a b c
  · obtain ⟨pid, b, c, rfl⟩ := h1
    refine ⟨?_, ?_, ?_, h.nt⟩
    · simp only [step, makeUnique_eq, IdSpec.step, List.map_append, List.map_cons, List.map_nil, h.pids, h.np]
    · exact h.tids
    · intro id
      simp only [step, makeUnique_eq, IdSpec.step, nextOf_cons, List.count_cons, h.np]
      by_cases he : pid = id
      · subst he; simp
      · simp [he]
  by_cases h2 : ∃ a b c d, op = .addThread a b c d
  · obtain ⟨proc, tid, c, d, rfl⟩ := h2
    have hlen : s.pids.length = p.processes.length := by rw [← h.pids, List.length_map]
    by_cases hp : proc < p.processes.length
    · simp only [step, List.getElem?_eq_getElem hp, makeUnique_eq, IdSpec.step, hlen, hp, if_true]
      refine ⟨?_, ?_, h.np, ?_⟩
      · rw [← h.pids]
        exact List.map_set_of (fun x : Process => x.pid) _ _ _ _ (List.getElem?_eq_getElem hp) rfl
      · simp only [List.map_append, List.map_cons, List.map_nil, h.tids, h.nt]
      · intro id
        simp only [nextOf_cons, List.count_cons, h.nt]
        by_cases he : tid = id
        · subst he; simp
        · simp [he]
    · have hnone : p.processes[proc]? = none := List.getElem?_eq_none (by omega)
      simp only [step, hnone, IdSpec.step, hlen, hp, if_false]
      exact h
  by_cases h3 : ∃ a b, op = .setTid a b
  · obtain ⟨t, tid, rfl⟩ := h3
    have hlen : s.tids.length = p.threads.length := by rw [← h.tids, List.length_map]
    by_cases ht : t < p.threads.length
    · simp only [step, List.getElem?_eq_getElem ht, makeUnique_eq, IdSpec.step, hlen, ht, if_true]
      refine ⟨h.pids, ?_, h.np, ?_⟩
      · rw [← h.tids, h.nt]
        exact List.map_modify_comm (fun x : Thread => x.tid) _ _ (fun _ => rfl) _ _
      · intro id
        simp only [nextOf_cons, List.count_cons, h.nt]
        by_cases he : tid = id
        · subst he; simp
        · simp [he]
    · have hnone : p.threads[t]? = none := List.getElem?_eq_none (by omega)
      simp only [step, hnone, IdSpec.step, hlen, ht, if_false]
      exact h
  · have hsk := step_skel p op (fun a b c e => h1 ⟨a, b, c, e⟩) (fun a b c d e => h2 ⟨a, b, c, d, e⟩)
      (fun a b e => h3 ⟨a, b, e⟩)
    have hs : s.step op = s := by
      cases op <;> first
        | rfl
        | exact absurd ⟨_, _, _, rfl⟩ h1
        | exact absurd ⟨_, _, _, _, rfl⟩ h2
        | exact absurd ⟨_, _, rfl⟩ h3
    rw [hs]
    exact h.of_skel hsk

theorem idInv_run : ∀ (ops : List Op) (p : P) (s : IdSpec), IdInv p s →
    IdInv (ops.foldl (fun p op => (step p op).1) p) (ops.foldl IdSpec.step s)
  | [], _, _, h => h
  | op :: ops, p, s, h => idInv_run ops _ _ (idInv_step p s op h)

end PT
