import SamplyModel.Lemmas.ProfileIdentSer
import SamplyModel.Model.ProfileDecode
/-!
Decoding half of canonical interning (improvement round, reviewer's item 1): the serialized frame /
func / resource columns reconstruct exactly the interned frame key of every row.
-/
namespace PT

/-- a table whose rows carry their keys: reading row `i` back gives the key -/
theorem FrameDec.row {t : FrameTable} (hd : FrameDec t) (i : Nat) (k : Frame) (hk : t.keys[i]? = some k) :
    t.rowFrame i = some k := by
  obtain ⟨j, h1, h2, h3, h4, h5, h6, h7, h8, h9⟩ := hd.2 i k hk
  obtain ⟨g1, g2, g3, g4⟩ := hd.1 j _ h2
  unfold FrameTable.rowFrame rowOfCols
  obtain ⟨name, native, cat, sub, file, line, col, flags⟩ := k
  cases native with
  | none =>
    simp only [Frame.funcKey, Option.map_none] at g1 g2 g3 g4
    simp only [Option.map_none, Option.bind_none, Option.getD_none] at h7 h8 h9
    simp [h1, h3, h4, h5, h6, h7, h8, h9, g1, g2, g3, g4]
  | some n =>
    simp only [Frame.funcKey, Option.map_some] at g1 g2 g3 g4
    obtain ⟨r, hr1, hr2⟩ := g4
    simp only [Option.map_some, Option.bind_some, Option.getD_some] at h7 h8 h9
    simp [h1, h3, h4, h5, h6, h7, h8, h9, g1, g2, g3, hr1, hr2]

theorem serThread_rowFrame (p : P) (th : Thread) (st : SerThread) (h : serThread p th = some st) (i : Nat) :
    st.rowFrame i = th.frames.rowFrame i := by
  unfold serThread at h
  split at h
  · cases h; rfl
  · cases h

theorem mapM'_mem {α β : Type} (f : α → Option β) : ∀ (l : List α) (bs : List β), mapM' f l = some bs →
    ∀ a ∈ l, ∃ b ∈ bs, f a = some b
  | [], _, _, _, ha => (nomatch ha)
  | x :: xs, r, h, a, ha => by
    obtain ⟨b, bs, hb, hbs, rfl⟩ := mapM'_cons_inv f x xs r h
    rcases List.mem_cons.mp ha with rfl | ha
    · exact ⟨b, List.mem_cons_self, hb⟩
    · obtain ⟨b', hb', hfb⟩ := mapM'_mem f xs bs hbs a ha
      exact ⟨b', List.mem_cons_of_mem _ hb', hfb⟩

theorem mapM'_getElem? {α β : Type} (f : α → Option β) : ∀ (l : List α) (bs : List β), mapM' f l = some bs →
    ∀ (i : Nat), bs[i]? = (l[i]?).bind f
  | [], bs, h, i => by simp only [mapM', Option.some.injEq] at h; subst h; simp
  | x :: xs, r, h, i => by
    obtain ⟨b, bs, hb, hbs, rfl⟩ := mapM'_cons_inv f x xs r h
    cases i with
    | zero => simp [hb]
    | succ i => simpa using mapM'_getElem? f xs bs hbs i

/-- shape of the serialized profile: libs, cats, and every thread of the state -/
theorem serialize_parts (p : P) (hS : SInv p) (s : SerProfile) (hs : serialize p = some s) :
    (∀ (l : Nat), s.libs[l]? = (p.libs.used[l]?).bind (fun h => p.libs.all[h]?)) ∧
    s.cats = p.cats.map (fun c => (c.name, c.color, c.subs)) ∧
    ∀ (t : Nat) (th : Thread), p.threads[t]? = some th → ∃ st ∈ s.threads, serThread p th = some st := by
  unfold serialize at hs
  simp only at hs
  split at hs
  · rename_i libs threads counters hl ht _
    split at hs
    · cases hs
      refine ⟨fun l => mapM'_getElem? _ _ _ hl l, rfl, ?_⟩
      intro t th hth
      have hm : t ∈ sortedThreads p := (mem_sortedThreads p hS t).mpr (List.getElem?_eq_some_iff.mp hth).1
      obtain ⟨st, hst, hf⟩ := mapM'_mem _ _ _ ht t hm
      rw [hth] at hf
      exact ⟨st, hst, hf⟩
    · cases hs
  · cases hs

end PT
