import SamplyModel.Lemmas.QuotaConc
/-!
Helper lemmas for C15, part 7: **bookkeeping = disk after quiescence, for every interleaving** of the
sections of eviction passes with notifications, for every file that no notification of the schedule
names.
-/
namespace Quota

/-- side condition on one notification of a schedule, relative to the key `k` of the file under
consideration: the notification is valid (`OpOk`: a `created` path resolves, times are after the epoch, the
sizes sum below 2^63) and **does not name `k`** — the path, as `relative_path_under_managed_directory`
resolves it when the notification is issued, is not `root/k`. Everything that is not a notification is
excluded (`NoteSched`). -/
def NoteOk (R : Path) (now : Nat) (k : Path) (w : World) : Op → Prop
  | .created p size t => OpOk R now w (.created p size t) ∧ relUnder w.fs R p ≠ some k
  | .accessed p t => 0 ≤ t ∧ relUnder w.fs R p ≠ some k
  | .deleted p => relUnder w.fs R p ≠ some k
  | _ => False

/-- the side conditions along a schedule (the state the notification is issued in is the state the schedule
has reached) -/
def QuietSched (R : Path) (now : Nat) (k : Path) : CWorld → List CEv → Prop
  | _, [] => True
  | cw, .ext op :: es => NoteOk R now k cw.w op ∧ QuietSched R now k (cstep now cw (.ext op)) es
  | cw, .begin :: es => QuietSched R now k (cstep now cw .begin) es
  | cw, .pass :: es => QuietSched R now k (cstep now cw .pass) es

/-! ### a row under notifications about other keys -/

theorem mem_upsert_of_ne (r x : Row) (l : List Row) (hx : x ∈ l) (hne : x.rel ≠ r.rel) : x ∈ upsert r l := by
  induction l with
  | nil => cases hx
  | cons y ys ih =>
    simp only [upsert]
    split
    · next e =>
      rcases List.mem_cons.mp hx with h | h
      · exact absurd (by rw [h]; exact e) hne
      · exact List.mem_cons_of_mem _ h
    · rcases List.mem_cons.mp hx with h | h
      · rw [h]; exact List.mem_cons_self
      · exact List.mem_cons_of_mem _ (ih h)

theorem mem_upsert_iff_ne (r x : Row) (l : List Row) (hne : x.rel ≠ r.rel) : x ∈ upsert r l ↔ x ∈ l := by
  constructor
  · intro h
    rcases mem_upsert r l x h with e | h'
    · exact absurd (by rw [e]) hne
    · exact h'
  · intro h; exact mem_upsert_of_ne r x l h hne

theorem mem_setAtime_iff_ne (rel : Path) (t : Nat) (l : List Row) (x : Row) (hne : x.rel ≠ rel) :
    x ∈ setAtime rel t l ↔ x ∈ l := by
  unfold setAtime
  constructor
  · intro h
    obtain ⟨y, hy, e⟩ := List.mem_map.mp h
    split at e
    · next he => subst e; exact absurd he hne
    · subst e; exact hy
  · intro h
    exact List.mem_map.mpr ⟨x, h, by rw [if_neg hne]⟩

theorem mem_invDelete_iff_ne (rel : Path) (l : List Row) (x : Row) (hne : x.rel ≠ rel) :
    x ∈ invDelete rel l ↔ x ∈ l := by
  rw [invDelete_eq_filter, List.mem_filter]
  constructor
  · exact fun h => h.1
  · intro h; exact ⟨h, by simpa using hne⟩

/-- a valid notification that does not name the key of `x`: the invariant of histories is kept, the file
system and the manager are untouched, and `x` is in the table afterwards iff it was before -/
theorem note_step (R : Path) (now : Nat) (w : World) (op : Op) (H : HistInv R now w) (m : Mgr)
    (inv : List Row) (hm : w.mgr = some m) (hdb : w.db = some inv) (x : Row)
    (hok : NoteOk R now x.rel w op) :
    HistInv R now (step now w op).1 ∧ (step now w op).1.fs = w.fs ∧ (step now w op).1.mgr = some m ∧
    ∃ inv', (step now w op).1.db = some inv' ∧ (x ∈ inv' ↔ x ∈ inv) := by
  obtain ⟨hroot, hpois, _⟩ := H.mgr m hm
  obtain ⟨fs, db, mg⟩ := w
  simp only at hm hdb
  subst hm hdb
  cases op with
  | created p size t =>
    obtain ⟨hop, hne⟩ := hok
    have ht : 0 ≤ t := hop.1
    have hnt : ¬ t < 0 := by omega
    refine ⟨H.step _ hop, step_note_fs now _ _ rfl, ?_⟩
    rw [← hroot] at hne
    simp only at hne
    cases hrel : relUnder fs m.cfg.root p with
    | none =>
      simp [Quota.step, hpois, onCreated, hrel]
    | some rel =>
      have hk : x.rel ≠ rel := fun h => hne (by rw [hrel, h])
      simp only [Quota.step, hpois, onCreated, hrel, hnt, if_false, Bool.false_eq_true]
      exact ⟨trivial, _, rfl, mem_upsert_iff_ne _ x inv hk⟩
  | accessed p t =>
    obtain ⟨ht, hne⟩ := hok
    have hnt : ¬ t < 0 := by omega
    refine ⟨H.step _ ht, step_note_fs now _ _ rfl, ?_⟩
    rw [← hroot] at hne
    simp only at hne
    cases hrel : relUnder fs m.cfg.root p with
    | none =>
      simp [Quota.step, hpois, onAccessed, hrel]
    | some rel =>
      have hk : x.rel ≠ rel := fun h => hne (by rw [hrel, h])
      simp only [Quota.step, hpois, onAccessed, hrel, hnt, if_false, Bool.false_eq_true]
      exact ⟨trivial, _, rfl, mem_setAtime_iff_ne _ _ inv x hk⟩
  | deleted p =>
    have hne : relUnder fs R p ≠ some x.rel := hok
    refine ⟨H.step _ trivial, step_note_fs now _ _ rfl, ?_⟩
    rw [← hroot] at hne
    cases hrel : relUnder fs m.cfg.root p with
    | none =>
      simp [Quota.step, hpois, onDeleted, hrel]
    | some rel =>
      have hk : x.rel ≠ rel := fun h => hne (by rw [hrel, h])
      simp only [Quota.step, hpois, onDeleted, hrel, if_false, Bool.false_eq_true]
      exact ⟨trivial, _, rfl, mem_invDelete_iff_ne _ inv x hk⟩
  | _ => exact absurd hok id

/-- the age selection on a good table -/
theorem ageCandidates_plain {fs : FS} {root : Path} {inv : List Row} (G : Good fs root inv) (cut : Nat) :
    ageCandidates fs root inv cut
      = some (((sortLRU inv).filter (fun r => decide (r.atime < cut))).map fun r => (r, root ++ r.rel)) := by
  unfold ageCandidates
  exact mapConv_eq _ _ _ fun r hr =>
    have hm := (List.mem_filter.mp ((mem_sortLRU_filter inv _ r).mp hr)).1
    convert_plain fs root r G.rootOk (G.plain r hm) (G.sizes r hm)

/-! ### the invariant -/

/-- invariant along a schedule, for one row `x` of the initial table whose key no notification names;
`fs0` = the file system at the start -/
structure BkInv (R : Path) (now : Nat) (fs0 : FS) (x : Row) (cw : CWorld) : Prop where
  hist : HistInv R now cw.w
  mgr : ∃ m, cw.w.mgr = some m
  runOk : ∀ r, cw.run = some r → r.cfg.root = R ∧ (∀ a, r.cfg.maxAge = some a → a ≤ now) ∧
    (∀ c ∈ r.pending, c.2 = R ++ c.1.rel ∧ NoLinkBelow cw.w.fs R c.1.rel) ∧
    (∀ row p res, r.unlinked = some (row, p, res) →
      p = R ++ row.rel ∧ NoLinkBelow cw.w.fs R row.rel ∧ (⟨row, p, res⟩ : Attempt) ∈ cw.log)
  /-- the row is forgotten only through an attempt that did not fail -/
  A : ∀ inv, cw.w.db = some inv → x ∉ inv → ∃ a ∈ cw.log, a.row.rel = x.rel ∧ a.res ≠ .err
  /-- after such an attempt the row is forgotten, at the latest by the pending bookkeeping section -/
  B : (∃ a ∈ cw.log, a.row.rel = x.rel ∧ a.res ≠ .err) → (∀ inv, cw.w.db = some inv → x ∉ inv) ∨
    ∃ r row p res, cw.run = some r ∧ r.unlinked = some (row, p, res) ∧ row.rel = x.rel ∧ res ≠ .err
  /-- without a successful unlink of its file the file is untouched -/
  C : (∀ a ∈ cw.log, a.row.rel = x.rel → a.res ≠ .ok) → cw.w.fs.lookup (R ++ x.rel) = fs0.lookup (R ++ x.rel)
  /-- a successfully unlinked file is gone -/
  D : ∀ a ∈ cw.log, a.row.rel = x.rel → a.res = .ok → cw.w.fs.lookup (R ++ x.rel) = none

theorem noNewLinks_of_sub {a b : FS} (h : Sub a b) : NoNewLinks b a := fun k t hk => h k _ hk

theorem BkInv.note {R : Path} {now : Nat} {fs0 : FS} {x : Row} {cw : CWorld} (I : BkInv R now fs0 x cw)
    (op : Op) (hok : NoteOk R now x.rel cw.w op) : BkInv R now fs0 x (cstep now cw (.ext op)) := by
  obtain ⟨m, hm⟩ := I.mgr
  obtain ⟨inv, hdb⟩ := I.hist.mgrDb m hm
  obtain ⟨h1, h2, h3, inv', h4, h5⟩ := note_step R now cw.w op I.hist m inv hm hdb x hok
  refine ⟨h1, ⟨m, h3⟩, ?_, ?_, ?_, ?_, ?_⟩
  · intro r hr
    have := I.runOk r hr
    simpa only [cstep, h2] using this
  · intro inv'' hd hx
    have e : inv'' = inv' := by
      have : (step now cw.w op).1.db = some inv'' := hd
      rw [h4] at this; cases this; rfl
    subst e
    exact I.A inv hdb (fun h => hx (h5.mpr h))
  · intro hex
    rcases I.B hex with h | h
    · left
      intro inv'' hd
      have e : inv'' = inv' := by
        have : (step now cw.w op).1.db = some inv'' := hd
        rw [h4] at this; cases this; rfl
      subst e
      exact fun hx => h inv hdb (h5.mp hx)
    · exact Or.inr h
  · intro hall
    show (step now cw.w op).1.fs.lookup _ = _
    rw [h2]; exact I.C hall
  · intro a ha hr hk
    show (step now cw.w op).1.fs.lookup _ = _
    rw [h2]; exact I.D a ha hr hk

theorem BkInv.begin {R : Path} {now : Nat} {fs0 : FS} {x : Row} {cw : CWorld} (I : BkInv R now fs0 x cw) :
    BkInv R now fs0 x (passBegin cw) := by
  obtain ⟨m, hm⟩ := I.mgr
  obtain ⟨inv, hdb⟩ := I.hist.mgrDb m hm
  obtain ⟨hroot, hpois, hage⟩ := I.hist.mgr m hm
  cases hrun : cw.run with
  | some r =>
    have e : passBegin cw = cw := by unfold passBegin; simp only [hrun]
    rw [e]; exact I
  | none =>
    have G : Good cw.w.fs m.cfg.root inv := by rw [hroot]; exact I.hist.good inv hdb
    have e : passBegin cw =
        { cw with
          run := some ⟨m.cfg, .size,
            (sizeSel (sortLRU inv) inv m.cfg.maxSize).map (fun r => (r, m.cfg.root ++ r.rel)), none⟩
          sel := cw.sel ++ (sizeSel (sortLRU inv) inv m.cfg.maxSize).map (fun r => (r, m.cfg.root ++ r.rel)) } := by
      unfold passBegin
      simp only [hrun, hm, hdb, hpois, sizeCands_plain G (sortLRU_perm inv) m.cfg.maxSize]
      simp
    rw [e]
    refine ⟨I.hist, ⟨m, hm⟩, ?_, I.A, ?_, I.C, I.D⟩
    · intro r hr
      cases hr
      refine ⟨hroot, hage, ?_, fun row p res h => by cases h⟩
      intro c hc
      obtain ⟨y, hy, ey⟩ := List.mem_map.mp hc
      subst ey
      have hyin : y ∈ inv :=
        (sortLRU_perm inv).mem_iff.mp ((sizeSel_prefix (sortLRU inv) inv m.cfg.maxSize).subset hy)
      exact ⟨by rw [hroot], by rw [← hroot]; exact G.plain y hyin⟩
    · intro hex
      rcases I.B hex with h | ⟨r, _, _, _, hr, _⟩
      · exact Or.inl h
      · rw [hrun] at hr; cases hr

theorem BkInv.pstep {R : Path} {now : Nat} {fs0 : FS} {x : Row} {cw : CWorld} (I : BkInv R now fs0 x cw) :
    BkInv R now fs0 x (Quota.pstep now cw) := by
  obtain ⟨m, hm⟩ := I.mgr
  obtain ⟨inv, hdb⟩ := I.hist.mgrDb m hm
  obtain ⟨hroot, hpois, hage⟩ := I.hist.mgr m hm
  have G : Good cw.w.fs R inv := I.hist.good inv hdb
  cases hrun : cw.run with
  | none =>
    have e : Quota.pstep now cw = cw := by unfold Quota.pstep; simp only [hrun]
    rw [e]; exact I
  | some r =>
    obtain ⟨hrr, hrage, hpend, hunl⟩ := I.runOk r hrun
    have Bleft : ∀ {P : Prop}, (∃ a ∈ cw.log, a.row.rel = x.rel ∧ a.res ≠ .err) → r.unlinked = none →
        (P ∨ True) → ∀ inv', cw.w.db = some inv' → x ∉ inv' := by
      intro P hex hu _
      rcases I.B hex with h | ⟨r', row, p, res, hr', hu', _, _⟩
      · exact h
      · rw [hrun] at hr'; cases hr'; rw [hu] at hu'; cases hu'
    cases hu : r.unlinked with
    | some trip =>
      obtain ⟨row, p, res⟩ := trip
      obtain ⟨hp, hplain, hlog⟩ := hunl row p res hu
      by_cases hres : res = .err
      · -- a failed delete: no bookkeeping
        have e : Quota.pstep now cw = { cw with run := some { r with unlinked := none } } := by
          unfold Quota.pstep
          simp only [hrun, hm, hdb, hu, hres]
        rw [e]
        refine ⟨I.hist, ⟨m, hm⟩, ?_, I.A, ?_, I.C, I.D⟩
        · intro r' hr'
          cases hr'
          exact ⟨hrr, hrage, hpend, fun row p res h => by cases h⟩
        · intro hex
          rcases I.B hex with h | ⟨r', row', p', res', hr', hu', _, hne⟩
          · exact Or.inl h
          · rw [hrun] at hr'; cases hr'
            rw [hu] at hu'; cases hu'
            exact absurd hres hne
      · -- bookkeeping: exactly the key of the unlinked file is forgotten
        have hu' : r.unlinked = some (row, r.cfg.root ++ row.rel, res) := by rw [hu, hp, hrr]
        obtain ⟨e1, e2⟩ := Quota.pstep_forget_exact now cw r m inv row res hrun hm hdb hpois hu' hres
          (by rw [hrr]; exact I.hist.rootOk) (by rw [hrr]; exact hplain)
        have e : Quota.pstep now cw =
            { cw with
              w := { cw.w with db := some (inv.filter fun y => !(y.rel == row.rel)) }
              run := some { r with unlinked := none } } := by
          unfold Quota.pstep
          simp only [hrun, hm, hdb, hu, hpois]
          cases res with
          | err => exact absurd rfl hres
          | ok =>
            have := relUnder_plain cw.w.fs r.cfg.root row.rel (by rw [hrr]; exact I.hist.rootOk)
              (by rw [hrr]; exact hplain)
            simp [onDeleted, hp, ← hrr, this, invDelete]
          | notFound =>
            have := relUnder_plain cw.w.fs r.cfg.root row.rel (by rw [hrr]; exact I.hist.rootOk)
              (by rw [hrr]; exact hplain)
            simp [onDeleted, hp, ← hrr, this, invDelete]
        rw [e]
        have Hh : HistInv R now { cw.w with db := some (inv.filter fun y => !(y.rel == row.rel)) } :=
          ⟨I.hist.rootOk, (fun inv' h => by cases h; exact G.filter _), I.hist.mgr, (fun m' _ => ⟨_, rfl⟩)⟩
        refine ⟨Hh, ⟨m, hm⟩, ?_, ?_, ?_, I.C, I.D⟩
        · intro r' hr'
          cases hr'
          exact ⟨hrr, hrage, hpend, fun row p res h => by cases h⟩
        · intro inv' h hx
          cases h
          by_cases hin : x ∈ inv
          · have hk : x.rel = row.rel := by
              by_cases hne : x.rel = row.rel
              · exact hne
              · exact absurd (List.mem_filter.mpr ⟨hin, by simpa using hne⟩) hx
            exact ⟨⟨row, p, res⟩, hlog, hk.symm, hres⟩
          · exact I.A inv hdb hin
        · intro hex
          left
          intro inv' h
          cases h
          rcases I.B hex with h | ⟨r', row', p', res', hr', hu'', hk, _⟩
          · exact fun hx => h inv hdb (List.mem_filter.mp hx).1
          · rw [hrun] at hr'; cases hr'
            rw [hu] at hu''; cases hu''
            intro hx
            have := (List.mem_filter.mp hx).2
            simp [hk] at this
    | none =>
      cases hpd : r.pending with
      | cons c rest =>
        obtain ⟨row, p⟩ := c
        obtain ⟨hp, hplain⟩ := hpend (row, p) (by rw [hpd]; simp)
        simp only at hp hplain
        obtain ⟨e1, e2, e3⟩ := Quota.pstep_unlink now cw r m inv row p rest hrun hm hdb hu hpd
        have e : Quota.pstep now cw =
            { cw with
              w := { cw.w with fs := (unlink cw.w.fs p).2 }
              run := some { r with pending := rest, unlinked := some (row, p, (unlink cw.w.fs p).1) }
              log := cw.log ++ [⟨row, p, (unlink cw.w.fs p).1⟩] } := by
          unfold Quota.pstep
          simp only [hrun, hm, hdb, hu, hpd]
        rw [e]
        have hsub := sub_unlink cw.w.fs p
        have Hh : HistInv R now { cw.w with fs := (unlink cw.w.fs p).2 } :=
          I.hist.fsChange _ (dirChain_unlink _ _ _ _ I.hist.rootOk) (noNewLinks_of_sub hsub)
        have hfs : ∀ q, q ≠ R ++ row.rel ∨ (unlink cw.w.fs p).1 ≠ .ok →
            (unlink cw.w.fs p).2.lookup q = cw.w.fs.lookup q := by
          intro q hq
          by_cases hok : (unlink cw.w.fs p).1 = .ok
          · have he := unlink_ok_plain cw.w.fs R row.rel I.hist.rootOk hplain (by rw [← hp]; exact hok)
            rw [← hp] at he
            rw [he, lookup_eraseKey, hp]
            rcases hq with hq | hq
            · rw [if_neg hq]
            · exact absurd hok hq
          · rw [unlink_fs_of_not_ok _ _ hok]
        refine ⟨Hh, ⟨m, hm⟩, ?_, ?_, ?_, ?_, ?_⟩
        · intro r' hr'
          cases hr'
          refine ⟨hrr, hrage, ?_, ?_⟩
          · intro c hc
            have := hpend c (by rw [hpd]; exact List.mem_cons_of_mem _ hc)
            exact ⟨this.1, noLinkBelow_unlink _ _ _ _ this.2⟩
          · intro row' p' res' h
            cases h
            exact ⟨hp, noLinkBelow_unlink _ _ _ _ hplain, List.mem_append_right _ (List.mem_singleton.mpr rfl)⟩
        · intro inv' h hx
          obtain ⟨a, ha, h1, h2⟩ := I.A inv' h hx
          exact ⟨a, List.mem_append_left _ ha, h1, h2⟩
        · rintro ⟨a, ha, hk, hne⟩
          rcases List.mem_append.mp ha with h | h
          · exact Or.inl (Bleft (P := True) ⟨a, h, hk, hne⟩ hu (Or.inr trivial))
          · simp only [List.mem_singleton] at h
            subst h
            exact Or.inr ⟨_, row, p, _, rfl, rfl, hk, hne⟩
        · intro hall
          have hold := I.C (fun a ha => hall a (List.mem_append_left _ ha))
          show (unlink cw.w.fs p).2.lookup _ = _
          rw [hfs _ ?_, hold]
          by_cases hk : row.rel = x.rel
          · right
            exact hall ⟨row, p, _⟩ (List.mem_append_right _ (List.mem_singleton.mpr rfl)) hk
          · left
            intro h
            exact hk (List.append_cancel_left h).symm
        · intro a ha hk hok
          show (unlink cw.w.fs p).2.lookup _ = none
          rcases List.mem_append.mp ha with h | h
          · exact lookup_none_unlink _ _ _ (I.D a h hk hok)
          · simp only [List.mem_singleton] at h
            subst h
            simp only at hk hok
            have he := unlink_ok_plain cw.w.fs R row.rel I.hist.rootOk hplain (by rw [← hp]; exact hok)
            rw [← hp] at he
            rw [he, lookup_eraseKey, hp, hk, if_pos rfl]
      | nil =>
        -- end of a list: age selection or end of the pass
        have Iend : BkInv R now fs0 x { cw with run := none } := by
          refine ⟨I.hist, ⟨m, hm⟩, (fun r' h => by cases h), I.A, ?_, I.C, I.D⟩
          intro hex
          exact Or.inl (Bleft (P := True) hex hu (Or.inr trivial))
        cases hph : r.phase with
        | age =>
          have e : Quota.pstep now cw = { cw with run := none } := by
            unfold Quota.pstep
            simp only [hrun, hm, hdb, hu, hpd, hph]
          rw [e]; exact Iend
        | size =>
          cases hma : r.cfg.maxAge with
          | none =>
            have e : Quota.pstep now cw = { cw with run := none } := by
              unfold Quota.pstep
              simp only [hrun, hm, hdb, hu, hpd, hph, hma]
            rw [e]; exact Iend
          | some a =>
            have ha := hrage a hma
            have G' : Good cw.w.fs r.cfg.root inv := by rw [hrr]; exact G
            have e : Quota.pstep now cw =
                { cw with
                  run := some { r with
                    phase := .age
                    pending := ((sortLRU inv).filter (fun y => decide (y.atime < now - a))).map
                      (fun y => (y, r.cfg.root ++ y.rel)) }
                  sel := cw.sel ++ ((sortLRU inv).filter (fun y => decide (y.atime < now - a))).map
                    (fun y => (y, r.cfg.root ++ y.rel)) } := by
              unfold Quota.pstep
              have h1 : ¬ now + 2 ^ 63 < a := by omega
              have h2 : ¬ now < a := by omega
              simp only [hrun, hm, hdb, hu, hpd, hph, hma, hpois, ageCandidates_plain G' (now - a), h1, h2,
                if_false, Bool.false_eq_true]
            rw [e]
            refine ⟨I.hist, ⟨m, hm⟩, ?_, I.A, ?_, I.C, I.D⟩
            · intro r' hr'
              cases hr'
              refine ⟨hrr, hrage, ?_, fun row p res h => by rw [hu] at h; cases h⟩
              intro c hc
              obtain ⟨y, hy, ey⟩ := List.mem_map.mp hc
              subst ey
              have hyin : y ∈ inv := (List.mem_filter.mp ((mem_sortLRU_filter inv _ y).mp hy)).1
              exact ⟨by rw [hrr], G.plain y hyin⟩
            · intro hex
              exact Or.inl (Bleft (P := True) hex hu (Or.inr trivial))

theorem BkInv.crun {R : Path} {now : Nat} {fs0 : FS} {x : Row} {cw : CWorld} (I : BkInv R now fs0 x cw)
    (evs : List CEv) (hq : QuietSched R now x.rel cw evs) : BkInv R now fs0 x (crun now cw evs) := by
  induction evs generalizing cw with
  | nil => exact I
  | cons e es ih =>
    cases e with
    | begin => exact ih I.begin hq
    | pass => exact ih I.pstep hq
    | ext op => exact ih (I.note op hq.1) hq.2

end Quota
