import SamplyModel.Lemmas.FileCreation
/-!
Progress of a solo creator (C16, "a failed or killed attempt never blocks a later one").

From any state that satisfies the invariant and in which every *other* creator is quiet (finished, failed,
killed — whatever they left behind: a `.lock` file, a half-written `.part` file), a creator whose operations
all succeed runs to completion by itself: `solo_progress`. Termination measure: `rank`.
-/
namespace FC

/-- number of steps a solo creator still needs at most (`len` = number of chunks of its payload) -/
def rank (len : Nat) : PC → Nat
  | .idle => len + 9
  | .opened _ => len + 8
  | .locked _ => len + 7
  | .absent _ => len + 6
  | .writing _ _ k => (len - k) + 5
  | .wroteOk _ => 3
  | .renamed _ => 2
  | .crClosed => 1
  | .sawExists _ => 3
  | .exClosed => 2
  | .exUnlinked => 1
  | _ => 0

/-- program points of a fault-free solo run; `created = true`: the run that finds the destination absent -/
def onTrack (created : Bool) : PC → Bool
  | .idle | .opened _ | .locked _ => true
  | .absent _ | .writing _ _ _ | .wroteOk _ | .renamed _ | .crClosed | .doneCreated => created
  | .sawExists _ | .exClosed | .exUnlinked | .doneExisting => !created
  | _ => false

def finished : PC → Bool
  | .doneCreated | .doneExisting => true
  | _ => false

/-- does not stand in anybody's way: finished / failed / killed / not started, or a cancelled waiter whose
detached flock thread is still blocked (it owns no lock) -/
def passive : PC → Bool
  | .idle | .doneExisting | .doneCreated | .doneErr _ | .dead | .zombieWait _ => true
  | _ => false

/-- the situation of a solo run of creator `p` that started with destination `d0` -/
structure Solo (pl : Pid → Content) (p : Pid) (d0 : Option Inode) (s : State) : Prop where
  inv : Inv pl s
  others : ∀ q, q ≠ p → passive (s.pc q) = true
  track : onTrack d0.isNone (s.pc p) = true
  destNone : d0 = none → afterRename (s.pc p) = false → s.dest = none
  destSame : ∀ j, d0 = some j → s.dest = some j

theorem quiet_holds {pc : PC} (h : quiet pc = true) : holdsLock pc = none := by
  cases pc <;> simp [quiet] at h <;> simp [holdsLock]

theorem passive_holds {pc : PC} (h : passive pc = true) : holdsLock pc = none := by
  cases pc <;> simp [passive] at h <;> simp [holdsLock]

theorem quiet_passive {pc : PC} (h : quiet pc = true) : passive pc = true := by
  cases pc <;> simp [quiet] at h <;> simp [passive]

set_option maxHeartbeats 1000000 in
/-- one more step is enabled, stays on the track, and decreases the measure -/
theorem solo_step {pl : Pid → Content} {p : Pid} {d0 : Option Inode} {s : State}
    (h : Solo pl p d0 s) (hf : finished (s.pc p) = false) :
    ∃ s', stepP pl s p = some s' ∧ Solo pl p d0 s' ∧
      rank (pl p).length (s'.pc p) < rank (pl p).length (s.pc p) := by
  obtain ⟨hinv, hoth, htr, hdn, hds⟩ := h
  have hfree : ∀ i q, s.holder i = some q → q = p := by
    intro i q hq
    apply Classical.byContradiction
    intro hne
    have := hinv.holdB q i hq
    rw [passive_holds (hoth q hne)] at this
    exact absurd this (by simp)
  have hB := hinv.holdB p
  have hE := hinv.writing p
  have hF := hinv.wrote p
  have hI := hinv.saw p
  have hD := hinv.noCS
  cases d0 <;> simp only [Option.isNone_none, Option.isNone_some, reduceCtorEq, forall_const,
    false_implies, Option.some.injEq, forall_eq'] at htr hdn hds <;>
  cases hpc : s.pc p <;> simp [hpc, onTrack, finished, afterRename] at htr hf hdn
  all_goals
    simp only [stepP, hpc]
    (try split)
    all_goals (first
      | (exfalso; simp_all; done)
      | (refine ⟨_, rfl, ⟨?_, ?_, ?_, ?_, ?_⟩, ?_⟩
         · exact inv_stepP (p := p) hinv (by simp [stepP, *])
         all_goals (try simp only [upd])
         all_goals (grind [onTrack, afterRename, rank, holdsLock, passive, sawDest, inCS]))
      | (exfalso; grind [onTrack, afterRename, rank, holdsLock, passive, sawDest, inCS]))

/-- a solo creator whose operations all succeed finishes -/
theorem solo_progress {pl : Pid → Content} {p : Pid} {d0 : Option Inode} :
    ∀ (n : Nat) (s : State), Solo pl p d0 s → rank (pl p).length (s.pc p) ≤ n →
      ∃ m s', run pl s (List.replicate m (Act.step p)) = some s' ∧ Solo pl p d0 s' ∧
        finished (s'.pc p) = true := by
  intro n
  induction n with
  | zero =>
    intro s h hr
    cases hf : finished (s.pc p) with
    | true => exact ⟨0, s, rfl, h, hf⟩
    | false =>
      obtain ⟨s', _, _, hlt⟩ := solo_step h hf
      omega
  | succ n ih =>
    intro s h hr
    cases hf : finished (s.pc p) with
    | true => exact ⟨0, s, rfl, h, hf⟩
    | false =>
      obtain ⟨s1, hs1, hsolo1, hlt⟩ := solo_step h hf
      obtain ⟨m, s', hrun, hsolo', hfin⟩ := ih s1 hsolo1 (by omega)
      refine ⟨m + 1, s', ?_, hsolo', hfin⟩
      simp [List.replicate_succ, run, next, hs1, hrun]

end FC
