import SamplyModel.Lemmas.ConvHistFinal
import SamplyModel.Lemmas.ConvCs
/-!
`C01_no_panic` (convD2): a conversion without context-switch records performs no failing `u64` operation of
`ContextSwitchHandler` when, per thread incarnation, the sample timestamps never decrease
(`ConvSpec.samplesMonotone`). Thread-object invariant: no off-CPU stack is stored, and the context-switch state is
`Unknown` before the thread's first sample and `On(t)` after a sample at `t` — through on-demand creation, FORK,
renames, EXIT / EXEC resets and the samples of all other threads (`Lemmas/ConvObs.lean`).
-/
namespace Conv
open ConvSpec

/-- the thread triple of a recording without context-switch records -/
def PlainTQ (q : TQ) : Prop :=
  q.2.2 = none ∧ q.2.1.state = (match q.1 with | none => CS.TState.unknown | some t => CS.TState.on t)

theorem plainTQ_fresh : PlainTQ tqFresh := ⟨rfl, rfl⟩

theorem cs_sample_state (i : Nat) (st : CS.St) (t : Nat) : (CS.step i st (.sample t)).1.state = .on t := by
  obtain ⟨s0, on, off⟩ := st
  cases s0 <;> rfl

/-- the sample path on a plain thread: the new triple is plain again, nothing but the sample is emitted, and the
checked arithmetic fails exactly for a sample older than the thread's previous one -/
theorem sampleThread_np (s : St) (th : ThreadC) (pid tid t period : Nat) (stack : List SFrame)
    (h : PlainTQ (tqOf th)) :
    PlainTQ (tqOf (sampleThread s th pid tid t period stack).1) ∧
    (sampleThread s th pid tid t period stack).1.lastTs = some t ∧
    (sampleThread s th pid tid t period stack).2.2 =
      (match th.lastTs with | none => true | some t0 => decide (t0 ≤ t)) := by
  obtain ⟨ho, hst⟩ := h
  have ho' : th.offStack = none := ho
  have hst' : th.cs.state = (match th.lastTs with | none => CS.TState.unknown | some t => CS.TState.on t) := hst
  have hsafe : CS.stepSafe s.cfg.interval th.cs (.sample t) =
      (match th.lastTs with | none => true | some t0 => decide (t0 ≤ t)) := by
    generalize hcs : th.cs = c at hst'
    obtain ⟨st0, on, off⟩ := c
    simp only at hst'
    cases hl : th.lastTs with
    | none => rw [hl] at hst'; simp only at hst'; subst hst'; rfl
    | some t0 => rw [hl] at hst'; simp only at hst'; subst hst'; rfl
  unfold sampleThread
  simp only [wake_plain s { th with lastTs := some t } (.sample t) pid tid ho']
  by_cases ho2 : s.cfg.offCpu.isSome = true
  · simp only [ho2, if_true]
    refine ⟨⟨rfl, ?_⟩, trivial, hsafe⟩
    show (CS.step s.cfg.interval (CS.step s.cfg.interval th.cs (.sample t)).1 .consume).1.state = CS.TState.on t
    rw [(step_consume _ _).2.2.2.2]
    exact cs_sample_state _ _ _
  · simp only [ho2, if_false, Bool.false_eq_true]
    exact ⟨⟨rfl, cs_sample_state _ _ _⟩, trivial, hsafe⟩

/-! ### the state invariant -/

structure NP (cfg : Config) (s : St) (last : Last) : Prop where
  sim : ∃ acc, Sim cfg s (last, acc)
  bad : s.bad = false
  plain : ∀ pid tid, PlainTQ ((pobs s.procs pid).thr tid)

/-- the check `samplesMonotone` makes for one record -/
def monoOk (last : Last) : Rec → Bool
  | .sample pid tid t _ _ _ _ =>
    if tid = 0 then true else
    match lastGet last pid tid with
    | some t0 => decide (t0 ≤ t)
    | none => true
  | _ => true

theorem np_step {cfg : Config} {s : St} {last : Last} (h : NP cfg s last) (r : Rec)
    (hcs : isCsRec r = false) (hm : monoOk last r = true) : NP cfg (step s r) (accStep (last, []) r).1 := by
  obtain ⟨acc, hsim⟩ := h.sim
  have hsim' : ∃ acc', Sim cfg (step s r) ((accStep (last, []) r).1, acc') :=
    ⟨(accStep (last, acc) r).2, by rw [← accStep_fst last acc r]; exact step_sim hsim r⟩
  have hinv := hsim.inv
  cases r with
  | switchIn => cases hcs
  | switchOut => cases hcs
  | sched => cases hcs
  | otherEvent pid' tid' t km ip chain =>
    obtain ⟨_, _, o3, u, _, _, _, _, _, _, _, o4⟩ := obs_otherEvent hinv pid' tid' t km ip chain
    refine ⟨hsim', o3.trans h.bad, fun a b => ?_⟩
    rw [o4 a]
    unfold upd; split
    · exact h.plain pid' b
    · exact h.plain a b
  | fork pid' tid' ppid ptid t =>
    obtain ⟨o1, _, _, o4⟩ := obs_fork hinv pid' tid' ppid ptid t
    refine ⟨hsim', o4.trans h.bad, fun a b => ?_⟩
    rw [o1 a]
    split
    · unfold upd; split
      · next e => exact h.plain pid' b
      · exact h.plain a b
    · exact h.plain a b
  | mmap2 pid' tid' addr len pgoff exec path t =>
    obtain ⟨o1, _, _, o4⟩ := obs_mmap2 hinv pid' tid' addr len pgoff exec path t
    refine ⟨hsim', o4.trans h.bad, fun a b => ?_⟩
    rw [o1 a]
    split
    · unfold upd; split
      · next e => exact h.plain pid' b
      · exact h.plain a b
    · exact h.plain a b
  | exit pid' tid' t =>
    obtain ⟨o1, _, _, o4⟩ := obs_exit hinv pid' tid' t
    refine ⟨hsim', o4.trans h.bad, fun a b => ?_⟩
    rw [o1 a]
    split
    · unfold upd; split
      · exact plainTQ_fresh
      · exact h.plain a b
    · unfold upd; split
      · simp only [PObs.setThr]
        split
        · exact plainTQ_fresh
        · exact h.plain pid' b
      · exact h.plain a b
  | comm pid' tid' name isExec t =>
    obtain ⟨o1, _, _, o4⟩ := obs_comm hinv pid' tid' name isExec t
    refine ⟨hsim', o4.trans h.bad, fun a b => ?_⟩
    rw [o1 a]
    split
    · split
      · unfold upd; split
        · exact plainTQ_fresh
        · exact h.plain a b
      · unfold upd; split
        · simp only [PObs.setThr]
          split
          · exact plainTQ_fresh
          · exact h.plain pid' b
        · exact h.plain a b
    · exact h.plain a b
  | sample p t' t km period ip chain =>
    by_cases h0 : t' = 0
    · have hstep : step s (.sample p t' t km period ip chain) = s := by rw [h0]; simp [step]
      have ha : (accStep (last, []) (.sample p t' t km period ip chain)).1 = last := by simp [accStep, h0]
      rw [hstep, ha]; exact h
    · have hinv0 : InvA { s with cur := t } := ((skel_cur s t).goodT hinv).inv
      obtain ⟨c1, c2, c3, c4, _, _, c7⟩ := obs_commit hinv0 p t'
        (fun s2 th => sampleThread s2 th p t' t period (sampleStack s2.cfg km ip chain))
      rw [LifeL.step_sample, if_neg h0] at hsim' ⊢
      simp only [] at hsim' ⊢
      generalize getThread (getByPid { s with cur := t } p).1 (getByPid { s with cur := t } p).2 t' = gt at *
      have c2' : tqOf gt.2.2 = (pobs s.procs p).thr t' := c2
      have hpl : PlainTQ (tqOf gt.2.2) := by rw [c2']; exact h.plain p t'
      have hl : gt.2.2.lastTs = lastGet last p t' := by
        have : (tqOf gt.2.2).1 = ((pobs s.procs p).thr t').1 := by rw [c2']
        rw [← hsim.htl, tl_eq_thr]; exact this
      by_cases hd : gt.2.2.lastTs = some t
      · rw [if_pos hd] at hsim' ⊢
        exact ⟨hsim', c3.bad.trans h.bad, fun a b => by rw [c3.obs a]; exact h.plain a b⟩
      · rw [if_neg hd] at hsim' ⊢
        obtain ⟨n1, n2, n3⟩ := sampleThread_np gt.1 gt.2.2 p t' t period (sampleStack gt.1.cfg km ip chain) hpl
        have hsafe : (sampleThread gt.1 gt.2.2 p t' t period (sampleStack gt.1.cfg km ip chain)).2.2 = true := by
          rw [n3, hl]
          simp only [monoOk, h0, if_false] at hm
          cases hg : lastGet last p t' with
          | none => rfl
          | some t0 => rw [hg] at hm; exact hm
        refine ⟨hsim', ?_, fun a b => ?_⟩
        · have hb : s.bad = false := h.bad
          rw [c7, hsafe]; simp only [Bool.not_true, Bool.or_false]; exact hb
        · rw [c4 a]; unfold upd; split
          · simp only [PObs.setThr]
            split
            · exact n1
            · exact h.plain p b
          · exact h.plain a b

/-! ### whole histories -/

def monoAll : Last → List Rec → Bool
  | _, [] => true
  | last, r :: rs => monoOk last r && monoAll (accStep (last, []) r).1 rs

theorem samplesMonotone_fold (rs : List Rec) (last : Last) (b : Bool) :
    (rs.foldl (fun (st : Last × Bool) r =>
      let ok := match r with
        | .sample pid tid t _ _ _ _ =>
          if tid = 0 then true else
          match lastGet st.1 pid tid with
          | some t0 => decide (t0 ≤ t)
          | none => true
        | _ => true
      ((accStep (st.1, []) r).1, st.2 && ok)) (last, b)).2 = (b && monoAll last rs) := by
  induction rs generalizing last b with
  | nil => simp [monoAll]
  | cons r rs ih =>
    rw [List.foldl_cons]
    simp only []
    rw [ih]
    have : (match r with
        | .sample pid tid t _ _ _ _ =>
          if tid = 0 then true else
          match lastGet last pid tid with
          | some t0 => decide (t0 ≤ t)
          | none => true
        | _ => true) = monoOk last r := by cases r <;> rfl
    rw [this, monoAll, Bool.and_assoc]

theorem monoAll_of_samplesMonotone {rs : List Rec} (h : samplesMonotone rs = true) : monoAll [] rs = true := by
  have e : samplesMonotone rs = (true && monoAll [] rs) := samplesMonotone_fold rs [] true
  rw [e] at h
  simpa using h

theorem isCsRec_of_hasCsRec {rs : List Rec} (h : hasCsRec rs = false) : ∀ r ∈ rs, isCsRec r = false := by
  intro r hr
  cases hc : isCsRec r with
  | false => rfl
  | true =>
    have : hasCsRec rs = true := List.any_eq_true.mpr ⟨r, hr, hc⟩
    rw [h] at this; cases this

theorem np_fold {cfg : Config} (rs : List Rec) :
    ∀ (s : St) (last : Last), NP cfg s last → monoAll last rs = true → (∀ r ∈ rs, isCsRec r = false) →
      NP cfg (rs.foldl step s) (lastFold last rs) := by
  induction rs with
  | nil => intro s last h _ _; exact h
  | cons r rs ih =>
    intro s last h hm hcs
    simp only [monoAll, Bool.and_eq_true] at hm
    exact ih (step s r) _ (np_step h r (hcs r List.mem_cons_self) hm.1) hm.2
      (fun x hx => hcs x (List.mem_cons_of_mem _ hx))

/-- no failing `u64` operation along a history without context-switch records whose per-thread sample times
never decrease -/
theorem no_panic_run (cfg : Config) (rs : List Rec) (hcs : hasCsRec rs = false)
    (hm : samplesMonotone rs = true) : (run cfg rs).bad = false :=
  (np_fold rs (St.init cfg) [] ⟨⟨[], Sim.init cfg⟩, rfl, fun _ _ => plainTQ_fresh⟩
    (monoAll_of_samplesMonotone hm) (isCsRec_of_hasCsRec hcs)).bad

end Conv
