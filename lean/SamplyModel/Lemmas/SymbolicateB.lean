import SamplyModel.Lemmas.SymbolicateA
/-!
Helper lemmas for C07, part B: the per-library lookup passes fill the address table with exactly what a
direct lookup says, for every requested address, and never hit one of the `get_mut().unwrap()`s.
-/
namespace Sym

/-- the rearrangement of the external addresses keeps exactly the same entries -/
def ExtOrderOk (extOrder : List (Nat × Option (List Frame)) → List (Nat × Option (List Frame))) : Prop :=
  ∀ l p, p ∈ extOrder l ↔ p ∈ l

def symOnly (info : AddrInfo) : AddressResult := ⟨info.symAddr, info.symName, info.symSize, none⟩

def withFrames (info : AddrInfo) (fs : List Frame) : AddressResult :=
  ⟨info.symAddr, nameOr (outerFunctionName fs) info.symName, info.symSize, some fs⟩

/-- table entry of an address after the synchronous pass -/
def midEntry (f : Nat → Option AddrInfo) (a : Nat) : Option AddressResult :=
  match f a with
  | none => none
  | some info =>
    match info.frames with
    | .available fs => some (withFrames info fs)
    | _ => some (symOnly info)

/-- table entry of an address after both passes: what a direct lookup says -/
def finalEntry (f : Nat → Option AddrInfo) (a : Nat) : Option AddressResult :=
  match f a with
  | none => none
  | some info =>
    match info.frames.resolved with
    | some fs => some (withFrames info fs)
    | none => some (symOnly info)

theorem addDebugInfoEntry_symOnly (a : Nat) (info : AddrInfo) (fs : List Frame) :
    addDebugInfoEntry a fs (some (symOnly info)) = some (withFrames info fs) := by
  simp [addDebugInfoEntry, symOnly, withFrames]

theorem addDebugInfoEntry_withFrames (a : Nat) (info : AddrInfo) (fs : List Frame) :
    addDebugInfoEntry a fs (some (withFrames info fs)) = some (withFrames info fs) := by
  unfold addDebugInfoEntry withFrames
  cases outerFunctionName fs <;> simp [nameOr]

theorem addAddressSymbol_ok {tbl : AddressResults} {a : Nat} (h : btGet tbl a ≠ none) (sa : Nat) (n : String)
    (sz : Option Nat) :
    ∃ tbl1, addAddressSymbol tbl a sa n sz = .ok tbl1 ∧
      ∀ x, btGet tbl1 x = if a = x then some (some ⟨sa, n, sz, none⟩) else btGet tbl x := by
  unfold addAddressSymbol
  cases hm : btModify tbl a (fun _ => some ⟨sa, n, sz, none⟩) with
  | none => exact absurd ((btModify_none_iff _ _ _).mp hm) h
  | some tbl1 =>
    refine ⟨tbl1, rfl, fun x => ?_⟩
    rw [btGet_btModify hm]
    by_cases hx : a = x
    · simp only [hx, if_true]
      subst hx
      cases hg : btGet tbl a with
      | none => exact absurd hg h
      | some v => rfl
    · simp [hx]

theorem addAddressDebugInfo_ok {tbl : AddressResults} {a : Nat} {e : Option AddressResult}
    (h : btGet tbl a = some e) (fs : List Frame) :
    ∃ tbl1, addAddressDebugInfo tbl a fs = .ok tbl1 ∧
      ∀ x, btGet tbl1 x = if a = x then some (addDebugInfoEntry a fs e) else btGet tbl x := by
  unfold addAddressDebugInfo
  cases hm : btModify tbl a (addDebugInfoEntry a fs) with
  | none =>
    have := (btModify_none_iff _ _ _).mp hm
    rw [h] at this; simp at this
  | some tbl1 =>
    refine ⟨tbl1, rfl, fun x => ?_⟩
    rw [btGet_btModify hm]
    by_cases hx : a = x
    · subst hx; simp [h]
    · simp [hx]

/-- the synchronous pass (mod.rs:96-114) -/
theorem firstPass_spec (f : Nat → Option AddrInfo) (as : List Nat) (tbl : AddressResults)
    (ext : List (Nat × Option (List Frame)))
    (hpre : ∀ x ∈ as, btGet tbl x = some none ∨ btGet tbl x = some (midEntry f x)) :
    ∃ tbl' ext', firstPass f as tbl ext = .ok (tbl', ext') ∧
      (∀ x, btGet tbl' x = if x ∈ as then some (midEntry f x) else btGet tbl x) ∧
      (∀ p, p ∈ ext' ↔ p ∈ ext ∨ ∃ info, p.1 ∈ as ∧ f p.1 = some info ∧ info.frames = .external p.2) := by
  induction as generalizing tbl ext with
  | nil =>
    refine ⟨tbl, ext, rfl, by simp, ?_⟩
    intro p; simp
  | cons a rest ih =>
    have hrestpre : ∀ tbl2 : AddressResults,
        (∀ x, btGet tbl2 x = if a = x then some (midEntry f a) else btGet tbl x) →
        ∀ x ∈ rest, btGet tbl2 x = some none ∨ btGet tbl2 x = some (midEntry f x) := by
      intro tbl2 h2 x hx
      rw [h2]
      by_cases hax : a = x
      · subst hax; simp
      · simp only [hax, if_false]; exact hpre x (List.mem_cons_of_mem _ hx)
    have hfinish : ∀ (tbl2 tbl' : AddressResults),
        (∀ x, btGet tbl2 x = if a = x then some (midEntry f a) else btGet tbl x) →
        (∀ x, btGet tbl' x = if x ∈ rest then some (midEntry f x) else btGet tbl2 x) →
        ∀ x, btGet tbl' x = if x ∈ a :: rest then some (midEntry f x) else btGet tbl x := by
      intro tbl2 tbl' h2 h3 x
      rw [h3, h2]
      by_cases hx : x ∈ rest
      · simp [hx]
      · by_cases hax : a = x
        · subst hax; simp
        · have : ¬ x = a := fun h => hax h.symm
          simp [hx, hax, this]
    have hkey : btGet tbl a ≠ none := by
      rcases hpre a List.mem_cons_self with h | h <;> simp [h]
    cases hfa : f a with
    | none =>
      have hmid : midEntry f a = none := by simp [midEntry, hfa]
      have h2 : ∀ x, btGet tbl x = if a = x then some (midEntry f a) else btGet tbl x := by
        intro x
        by_cases hax : a = x
        · subst hax
          rcases hpre a List.mem_cons_self with h | h <;> simp [h, hmid]
        · simp [hax]
      obtain ⟨tbl', ext', e1, e2, e3⟩ := ih tbl ext (hrestpre tbl h2)
      refine ⟨tbl', ext', by simp [firstPass, hfa, e1], hfinish tbl tbl' h2 e2, ?_⟩
      intro p
      rw [e3]
      constructor
      · rintro (h | ⟨info, h1, h2, h3⟩)
        · exact Or.inl h
        · exact Or.inr ⟨info, List.mem_cons_of_mem _ h1, h2, h3⟩
      · rintro (h | ⟨info, h1, h2, h3⟩)
        · exact Or.inl h
        · rcases List.mem_cons.mp h1 with h1 | h1
          · rw [h1, hfa] at h2; simp at h2
          · exact Or.inr ⟨info, h1, h2, h3⟩
    | some info =>
      obtain ⟨tbl1, s1, s2⟩ := addAddressSymbol_ok hkey info.symAddr info.symName info.symSize
      have hg1 : btGet tbl1 a = some (some (symOnly info)) := by rw [s2]; simp [symOnly]
      cases hfr : info.frames with
      | available fs =>
        obtain ⟨tbl2, d1, d2⟩ := addAddressDebugInfo_ok hg1 fs
        have hmid : midEntry f a = some (withFrames info fs) := by simp [midEntry, hfa, hfr]
        have h2 : ∀ x, btGet tbl2 x = if a = x then some (midEntry f a) else btGet tbl x := by
          intro x
          rw [d2, s2]
          by_cases hax : a = x
          · subst hax; simp [hmid, addDebugInfoEntry_symOnly]
          · simp [hax]
        obtain ⟨tbl', ext', e1, e2, e3⟩ := ih tbl2 ext (hrestpre tbl2 h2)
        refine ⟨tbl', ext', by simp [firstPass, hfa, s1, hfr, d1, e1], hfinish tbl2 tbl' h2 e2, ?_⟩
        intro p
        rw [e3]
        constructor
        · rintro (h | ⟨info', h1, h2, h3⟩)
          · exact Or.inl h
          · exact Or.inr ⟨info', List.mem_cons_of_mem _ h1, h2, h3⟩
        · rintro (h | ⟨info', h1, h2, h3⟩)
          · exact Or.inl h
          · rcases List.mem_cons.mp h1 with h1 | h1
            · rw [h1, hfa] at h2
              simp only [Option.some.injEq] at h2
              subst h2
              rw [hfr] at h3; simp at h3
            · exact Or.inr ⟨info', h1, h2, h3⟩
      | external r =>
        have hmid : midEntry f a = some (symOnly info) := by simp [midEntry, hfa, hfr]
        have h2 : ∀ x, btGet tbl1 x = if a = x then some (midEntry f a) else btGet tbl x := by
          intro x
          rw [s2]
          by_cases hax : a = x
          · subst hax; simp [hmid, symOnly]
          · simp [hax]
        obtain ⟨tbl', ext', e1, e2, e3⟩ := ih tbl1 (ext ++ [(a, r)]) (hrestpre tbl1 h2)
        refine ⟨tbl', ext', by simp [firstPass, hfa, s1, hfr, e1], hfinish tbl1 tbl' h2 e2, ?_⟩
        intro p
        rw [e3]
        constructor
        · rintro (h | ⟨info', h1, h2, h3⟩)
          · rcases List.mem_append.mp h with h | h
            · exact Or.inl h
            · simp only [List.mem_singleton] at h
              subst h
              exact Or.inr ⟨info, List.mem_cons_self, hfa, hfr⟩
          · exact Or.inr ⟨info', List.mem_cons_of_mem _ h1, h2, h3⟩
        · rintro (h | ⟨info', h1, h2, h3⟩)
          · exact Or.inl (List.mem_append_left _ h)
          · rcases List.mem_cons.mp h1 with h1 | h1
            · rw [h1, hfa] at h2
              simp only [Option.some.injEq] at h2
              subst h2
              rw [hfr] at h3
              simp only [FramesResult.external.injEq] at h3
              refine Or.inl (List.mem_append_right _ ?_)
              simp only [List.mem_singleton]
              exact Prod.ext h1 h3.symm
            · exact Or.inr ⟨info', h1, h2, h3⟩
      | none =>
        have hmid : midEntry f a = some (symOnly info) := by simp [midEntry, hfa, hfr]
        have h2 : ∀ x, btGet tbl1 x = if a = x then some (midEntry f a) else btGet tbl x := by
          intro x
          rw [s2]
          by_cases hax : a = x
          · subst hax; simp [hmid, symOnly]
          · simp [hax]
        obtain ⟨tbl', ext', e1, e2, e3⟩ := ih tbl1 ext (hrestpre tbl1 h2)
        refine ⟨tbl', ext', by simp [firstPass, hfa, s1, hfr, e1], hfinish tbl1 tbl' h2 e2, ?_⟩
        intro p
        rw [e3]
        constructor
        · rintro (h | ⟨info', h1, h2, h3⟩)
          · exact Or.inl h
          · exact Or.inr ⟨info', List.mem_cons_of_mem _ h1, h2, h3⟩
        · rintro (h | ⟨info', h1, h2, h3⟩)
          · exact Or.inl h
          · rcases List.mem_cons.mp h1 with h1 | h1
            · rw [h1, hfa] at h2
              simp only [Option.some.injEq] at h2
              subst h2
              rw [hfr] at h3; simp at h3
            · exact Or.inr ⟨info', h1, h2, h3⟩

/-- the external pass (mod.rs:122-126) -/
theorem secondPass_spec (f : Nat → Option AddrInfo) (es : List (Nat × Option (List Frame))) (tbl : AddressResults)
    (hvalid : ∀ p ∈ es, ∃ info, f p.1 = some info ∧ info.frames = .external p.2)
    (hpre : ∀ p ∈ es, btGet tbl p.1 = some (midEntry f p.1) ∨ btGet tbl p.1 = some (finalEntry f p.1)) :
    ∃ tbl', secondPass es tbl = .ok tbl' ∧
      ∀ x, btGet tbl' x = if x ∈ es.map Prod.fst then some (finalEntry f x) else btGet tbl x := by
  induction es generalizing tbl with
  | nil => exact ⟨tbl, rfl, by simp⟩
  | cons p rest ih =>
    obtain ⟨a, r⟩ := p
    obtain ⟨info, hfa, hfr⟩ := hvalid (a, r) List.mem_cons_self
    simp only at hfa hfr
    have hmid : midEntry f a = some (symOnly info) := by simp [midEntry, hfa, hfr]
    have hvalid' : ∀ p ∈ rest, ∃ info, f p.1 = some info ∧ info.frames = .external p.2 :=
      fun p hp => hvalid p (List.mem_cons_of_mem _ hp)
    have hstep : ∀ tbl1 : AddressResults,
        (∀ x, btGet tbl1 x = if a = x then some (finalEntry f a) else btGet tbl x) →
        ∃ tbl', secondPass rest tbl1 = .ok tbl' ∧
          ∀ x, btGet tbl' x =
            if x ∈ ((a, r) :: rest).map Prod.fst then some (finalEntry f x) else btGet tbl x := by
      intro tbl1 h1
      have hpre' : ∀ p ∈ rest, btGet tbl1 p.1 = some (midEntry f p.1) ∨ btGet tbl1 p.1 = some (finalEntry f p.1) := by
        intro p hp
        rw [h1]
        by_cases hap : a = p.1
        · rw [← hap]; simp
        · simp only [hap, if_false]; exact hpre p (List.mem_cons_of_mem _ hp)
      obtain ⟨tbl', e1, e2⟩ := ih tbl1 hvalid' hpre'
      refine ⟨tbl', e1, fun x => ?_⟩
      rw [e2, h1]
      simp only [List.map_cons, List.mem_cons]
      by_cases hx : x ∈ rest.map Prod.fst
      · simp [hx]
      · by_cases hax : a = x
        · subst hax; simp
        · have : ¬ x = a := fun h => hax h.symm
          simp [hx, hax, this]
    cases r with
    | none =>
      have hfin : finalEntry f a = some (symOnly info) := by
        simp [finalEntry, hfa, hfr, FramesResult.resolved]
      have h1 : ∀ x, btGet tbl x = if a = x then some (finalEntry f a) else btGet tbl x := by
        intro x
        by_cases hax : a = x
        · subst hax
          rcases hpre (a, none) List.mem_cons_self with h | h
          · simp only at h; simp [h, hmid, hfin]
          · simp only at h; simp [h]
        · simp [hax]
      obtain ⟨tbl', e1, e2⟩ := hstep tbl h1
      exact ⟨tbl', by simp [secondPass, e1], e2⟩
    | some fs =>
      have hfin : finalEntry f a = some (withFrames info fs) := by
        simp [finalEntry, hfa, hfr, FramesResult.resolved]
      rcases hpre (a, some fs) List.mem_cons_self with h | h
      · simp only at h
        obtain ⟨tbl1, d1, d2⟩ := addAddressDebugInfo_ok h fs
        have h1 : ∀ x, btGet tbl1 x = if a = x then some (finalEntry f a) else btGet tbl x := by
          intro x; rw [d2]
          by_cases hax : a = x
          · rw [if_pos hax, if_pos hax, hmid, hfin, addDebugInfoEntry_symOnly]
          · simp [hax]
        obtain ⟨tbl', e1, e2⟩ := hstep tbl1 h1
        exact ⟨tbl', by simp [secondPass, d1, e1], e2⟩
      · simp only at h
        obtain ⟨tbl1, d1, d2⟩ := addAddressDebugInfo_ok h fs
        have h1 : ∀ x, btGet tbl1 x = if a = x then some (finalEntry f a) else btGet tbl x := by
          intro x; rw [d2]
          by_cases hax : a = x
          · rw [if_pos hax, if_pos hax, hfin, addDebugInfoEntry_withFrames]
          · simp [hax]
        obtain ⟨tbl', e1, e2⟩ := hstep tbl1 h1
        exact ⟨tbl', by simp [secondPass, d1, e1], e2⟩

theorem mid_eq_final_of_not_external {f : Nat → Option AddrInfo} {a : Nat}
    (h : ∀ info r, f a = some info → info.frames ≠ .external r) : midEntry f a = finalEntry f a := by
  unfold midEntry finalEntry
  cases hfa : f a with
  | none => rfl
  | some info =>
    simp only
    cases hfr : info.frames with
    | none => simp [FramesResult.resolved]
    | available fs => simp [FramesResult.resolved]
    | external r => exact absurd hfr (h info r hfa)

/-- the lookup passes never panic, and — when the library loads — the table they return has, for every
address of the list they are given, exactly the entry a direct lookup determines (and nothing else) -/
theorem lookupAddresses_spec (look : Look) (extOrder) (hext : ExtOrderOk extOrder) (lib : Lib)
    (addrs : List Nat) :
    ∃ r, lookupAddresses look extOrder lib addrs = .ok r ∧
      match look lib with
      | .error e => r = .error e
      | .ok f => ∃ tbl, r = .ok tbl ∧ keysSorted tbl ∧
          ∀ x, btGet tbl x = if x ∈ addrs then some (finalEntry f x) else none := by
  unfold lookupAddresses
  cases hl : look lib with
  | error e => exact ⟨.error e, rfl, rfl⟩
  | ok f =>
    simp only
    have hmem : ∀ x, x ∈ addrs ↔ x ∈ addrs := fun _ => Iff.rfl
    have hpre : ∀ x ∈ addrs, btGet (forAddresses addrs) x = some none ∨
        btGet (forAddresses addrs) x = some (midEntry f x) := by
      intro x hx; left; rw [btGet_forAddresses]; simp [hx]
    obtain ⟨tbl1, ext, e1, e2, e3⟩ := firstPass_spec f addrs (forAddresses addrs) [] hpre
    have hvalid : ∀ p ∈ extOrder ext, ∃ info, f p.1 = some info ∧ info.frames = .external p.2 := by
      intro p hp
      rcases (e3 p).mp ((hext ext p).mp hp) with h | ⟨info, _, h2, h3⟩
      · simp at h
      · exact ⟨info, h2, h3⟩
    have hpre2 : ∀ p ∈ extOrder ext, btGet tbl1 p.1 = some (midEntry f p.1) ∨
        btGet tbl1 p.1 = some (finalEntry f p.1) := by
      intro p hp
      rcases (e3 p).mp ((hext ext p).mp hp) with h | ⟨info, h1, _, _⟩
      · simp at h
      · left; rw [e2]; simp [h1]
    obtain ⟨tbl2, s1, s2⟩ := secondPass_spec f (extOrder ext) tbl1 hvalid hpre2
    refine ⟨.ok tbl2, by simp [e1, s1], tbl2, rfl, ?_, ?_⟩
    · -- sortedness: the key list never changes after `for_addresses`
      have hk1 : ∀ (as : List Nat) (t : AddressResults) (x : List (Nat × Option (List Frame))) t' x',
          firstPass f as t x = .ok (t', x') → t'.map Prod.fst = t.map Prod.fst := by
        intro as
        induction as with
        | nil => intro t x t' x' h; simp only [firstPass, Except.ok.injEq, Prod.mk.injEq] at h; rw [h.1]
        | cons a rest ih =>
          intro t x t' x' h
          simp only [firstPass] at h
          cases hfa : f a with
          | none => rw [hfa] at h; exact ih _ _ _ _ h
          | some info =>
            rw [hfa] at h
            simp only at h
            unfold addAddressSymbol at h
            cases hm : btModify t a (fun _ => some ⟨info.symAddr, info.symName, info.symSize, none⟩) with
            | none => rw [hm] at h; simp at h
            | some t1 =>
              rw [hm] at h
              simp only at h
              have k1 := btModify_keys hm
              cases hfr : info.frames with
              | none => rw [hfr] at h; rw [ih _ _ _ _ h, k1]
              | external r => rw [hfr] at h; rw [ih _ _ _ _ h, k1]
              | available fs =>
                rw [hfr] at h
                simp only at h
                unfold addAddressDebugInfo at h
                cases hm2 : btModify t1 a (addDebugInfoEntry a fs) with
                | none => rw [hm2] at h; simp at h
                | some t2 =>
                  rw [hm2] at h
                  simp only at h
                  rw [ih _ _ _ _ h, btModify_keys hm2, k1]
      have hk2 : ∀ (es : List (Nat × Option (List Frame))) (t t' : AddressResults),
          secondPass es t = .ok t' → t'.map Prod.fst = t.map Prod.fst := by
        intro es
        induction es with
        | nil => intro t t' h; simp only [secondPass, Except.ok.injEq] at h; rw [h]
        | cons p rest ih =>
          intro t t' h
          obtain ⟨a, r⟩ := p
          cases r with
          | none => simp only [secondPass] at h; exact ih _ _ h
          | some fs =>
            simp only [secondPass] at h
            unfold addAddressDebugInfo at h
            cases hm2 : btModify t a (addDebugInfoEntry a fs) with
            | none => rw [hm2] at h; simp at h
            | some t2 =>
              rw [hm2] at h
              simp only at h
              rw [ih _ _ h, btModify_keys hm2]
      unfold keysSorted
      rw [hk2 _ _ _ s1, hk1 _ _ _ _ _ e1]
      exact keysSorted_forAddresses addrs
    · intro x
      rw [s2]
      by_cases hx : x ∈ addrs
      · have hx' : x ∈ addrs := (hmem x).mpr hx
        rw [if_pos hx]
        by_cases hex : x ∈ (extOrder ext).map Prod.fst
        · rw [if_pos hex]
        · rw [if_neg hex, e2, if_pos hx']
          congr 1
          apply mid_eq_final_of_not_external
          intro info r hfa hfr
          apply hex
          exact List.mem_map.mpr ⟨(x, r), (hext ext (x, r)).mpr ((e3 (x, r)).mpr (Or.inr ⟨info, hx', hfa, hfr⟩)), rfl⟩
      · have hx' : ¬ x ∈ addrs := fun h => hx ((hmem x).mp h)
        rw [if_neg hx]
        have hex : ¬ x ∈ (extOrder ext).map Prod.fst := by
          intro hm
          obtain ⟨p, hp, hpx⟩ := List.mem_map.mp hm
          rcases (e3 p).mp ((hext ext p).mp hp) with h | ⟨_, h1, _, _⟩
          · simp at h
          · rw [hpx] at h1; exact hx' h1
        rw [if_neg hex, e2, if_neg hx', btGet_forAddresses, if_neg hx']

/-- `symbolicate_requested_addresses_for_lib` never panics, and — when the library loads — the table it
returns has, for every requested address, exactly the entry a direct lookup determines. -/
theorem symbolicateLib_spec (look : Look) (extOrder) (hext : ExtOrderOk extOrder) (lib : Lib)
    (addresses : List Nat) :
    ∃ r, symbolicateLib look extOrder lib addresses = .ok r ∧
      match look lib with
      | .error e => r = .error e
      | .ok f => ∃ tbl, r = .ok tbl ∧ keysSorted tbl ∧
          ∀ x, btGet tbl x = if x ∈ addresses then some (finalEntry f x) else none := by
  unfold symbolicateLib
  obtain ⟨r, h1, h2⟩ := lookupAddresses_spec look extOrder hext lib (dedupAdj (sortNat addresses))
  refine ⟨r, h1, ?_⟩
  cases hl : look lib with
  | error e => rw [hl] at h2; exact h2
  | ok f =>
    rw [hl] at h2
    obtain ⟨tbl, t1, t2, t3⟩ := h2
    refine ⟨tbl, t1, t2, fun x => ?_⟩
    rw [t3]
    simp only [mem_sortDedup]

/-- mod.rs:54-66 -/
theorem symbolicateAll_spec (look : Look) (extOrder) (hext : ExtOrderOk extOrder)
    (requested : List (Lib × List Nat)) :
    ∃ table, symbolicateAll look extOrder requested = .ok table ∧
      ∀ lib, match alookup requested lib with
        | none => alookup table lib = none
        | some addrs => ∃ r, alookup table lib = some r ∧ symbolicateLib look extOrder lib addrs = .ok r := by
  induction requested with
  | nil => exact ⟨[], rfl, fun lib => by simp [alookup]⟩
  | cons p rest ih =>
    obtain ⟨lib0, addrs0⟩ := p
    obtain ⟨r0, h0, _⟩ := symbolicateLib_spec look extOrder hext lib0 addrs0
    obtain ⟨table, h1, h2⟩ := ih
    refine ⟨(lib0, r0) :: table, by simp [symbolicateAll, h0, h1], fun lib => ?_⟩
    by_cases hl : lib0 = lib
    · subst hl
      simp only [alookup, if_true]
      exact ⟨r0, rfl, h0⟩
    · simp only [alookup, hl, if_false]
      exact h2 lib

end Sym
