import SamplyModel.Lemmas.ChunkCache
/-!
"Succeeds whenever the source does", sharpened: with a source that may fail but is *monotone* (if it delivered
a range it delivers every sub-range — e.g. any deterministic source that fails exactly on the requests
touching some bad set), a range read that lies inside a range returned successfully before never fails: the
buffer it would have to read (if any) lies inside a buffer the source has already delivered.

This is the formal version of the remark in notes/C13.md that "the covered set is always a union of whole
chunks whose bytes were all read successfully": second invariant `Inv2` (every registered buffer range was
delivered by the source, ends at a chunk boundary or at EOF, and is still present in the range map), the
monotone predicate `Covered`, and `getRangeLocation_covered`.

Hypothesis `chunk ∣ 2^64 ∨ F.length + chunk ≤ 2^64` (the first holds for the real chunk size 32768, so for
the code as it is there is no restriction on the file): for a chunk size that does not divide `2^64` and a
file within one chunk of `2^64` the saturating `round_up_to_multiple` (9c4312ce) plans a buffer up to EOF,
which may reach past the chunk boundary at which the covering buffer ended. Core Lean only.
-/
namespace CC

/-- a source that delivered a range delivers every sub-range -/
def SrcMono (src : Nat → Nat → Option (List UInt8)) : Prop :=
  ∀ o n o' n', (src o n).isSome = true → o ≤ o' → o' + n' ≤ o + n → (src o' n').isSome = true

/-- `[a, b)` lies inside one registered buffer range -/
def Covered (st : St) (a b : Nat) : Prop :=
  ∃ (idx : Nat) (br : BufRange), st.mgr.bufRanges[idx]? = some br ∧ br.range.lo ≤ a ∧ b ≤ br.range.hi

structure Inv2 (c : Cfg) (F : List UInt8) (st : St) : Prop where
  ok : ∀ (idx : Nat) (br : BufRange), st.mgr.bufRanges[idx]? = some br →
    (c.src br.range.lo (br.range.hi - br.range.lo)).isSome = true ∧
    (br.range.hi = F.length ∨ c.chunk ∣ br.range.hi) ∧ (br.range, idx) ∈ st.mgr.rmap

theorem inv2_init (c : Cfg) (F : List UInt8) : Inv2 c F (St.init F.length) := by
  constructor; intro idx br h; simp [St.init] at h

theorem roundUp_dvd (v f : Nat) (h : ¬ U64 ≤ v + (f - 1)) : f ∣ roundUp v f := by
  unfold roundUp
  simp only [h, if_false]
  exact Nat.dvd_mul_left f _

theorem roundUp_le_of_dvd (v f q : Nat) (hf : 0 < f) (hd : f ∣ q) (hv : v ≤ q) (h : ¬ U64 ≤ v + (f - 1)) :
    roundUp v f ≤ q := by
  unfold roundUp
  simp only [h, if_false]
  obtain ⟨k, rfl⟩ := hd
  have : (v + (f - 1)) / f < k + 1 := by
    apply Nat.div_lt_of_lt_mul
    rw [Nat.mul_add, Nat.mul_one]
    omega
  have h2 : (v + (f - 1)) / f ≤ k := by omega
  calc (v + (f - 1)) / f * f ≤ k * f := Nat.mul_le_mul_right f h2
    _ = f * k := Nat.mul_comm k f

/-- the start of a covered range is answered by the range map -/
theorem rmapGet_of_covered {c : Cfg} {F : List UInt8} {st : St} (h2 : Inv2 c F st) {a b : Nat} (hab : a < b)
    (hcov : Covered st a b) : rmapGet st.mgr.rmap a ≠ none := by
  obtain ⟨idx, br, hbr, hlo, hhi⟩ := hcov
  have hmem := (h2.ok idx br hbr).2.2
  unfold rmapGet
  intro hnone
  simp only [Option.map_eq_none_iff] at hnone
  rw [List.find?_eq_none] at hnone
  have := hnone _ hmem
  simp only [Range.contains, Bool.and_eq_true, decide_eq_true_eq, not_and, Nat.not_lt] at this
  have := this hlo
  omega

/-- `determine_range_sourcing`, with what the second invariant needs -/
theorem determine_cases2 (chunk : Nat) (F : List UInt8) (st : St) (hinv : Inv F st) (r : Range)
    (h1 : r.lo < r.hi) (h2 : r.hi ≤ F.length) (hc : 0 < chunk) :
    (∃ (l : Loc) (idx : Nat) (br : BufRange), determineRangeSourcing chunk st.mgr r = .ok (.existing l) ∧
        st.mgr.bufRanges[idx]? = some br ∧ br.range.lo ≤ r.lo ∧ r.hi ≤ br.range.hi) ∨
    (∃ rr, determineRangeSourcing chunk st.mgr r = .ok (.needNew rr) ∧
        rr.hi = min (roundUp r.hi chunk) F.length ∧
        ((rmapGet st.mgr.rmap r.lo ≠ none ∧ rr.lo = r.lo) ∨
         (rmapGet st.mgr.rmap r.lo = none ∧ rr.lo = roundDown r.lo chunk))) := by
  have hm := hinv.mgrLen
  have n1 : ¬ ¬ r.lo < r.hi := by omega
  have n2 : ¬ ¬ r.hi ≤ st.mgr.fileLen := by omega
  have n3 : ¬ chunk = 0 := by omega
  unfold determineRangeSourcing
  simp only [n1, n2, if_false]
  cases hg : rmapGet st.mgr.rmap r.lo with
  | none =>
    right
    refine ⟨⟨roundDown r.lo chunk, min (roundUp r.hi chunk) st.mgr.fileLen⟩, ?_, by rw [hm], Or.inr ⟨rfl, rfl⟩⟩
    simp only [n3, if_false, Bool.false_eq_true]
  | some idx =>
    simp only
    have hg' := hg
    unfold rmapGet at hg
    cases hf : st.mgr.rmap.find? (fun e => e.1.contains r.lo) with
    | none => simp [hf] at hg
    | some e =>
      simp only [hf, Option.map_some, Option.some.injEq] at hg
      have hmem := List.mem_of_find?_eq_some hf
      have hcont := List.find?_some hf
      obtain ⟨br, hbr, hrange⟩ := hinv.rmap e hmem
      rw [hg] at hbr
      rw [hbr]
      simp only [Range.contains, Bool.and_eq_true, decide_eq_true_eq] at hcont
      by_cases hle : r.hi ≤ br.range.hi
      · left
        have n5 : ¬ r.lo < br.range.lo := by rw [hrange]; omega
        exact ⟨⟨br.handle, r.lo - br.range.lo, r.hi - r.lo⟩, idx, br,
          by simp only [hle, n5, if_true, if_false], hbr, by rw [hrange]; omega, hle⟩
      · right
        refine ⟨⟨r.lo, min (roundUp r.hi chunk) st.mgr.fileLen⟩, ?_, by rw [hm], Or.inl ⟨by simp, rfl⟩⟩
        simp only [hle, n3, if_false, if_true]

theorem covered_mono_push {st : St} {a b : Nat} (rr : Range) (buf : List UInt8) (h : Covered st a b) :
    Covered { st with
      buffers := st.buffers ++ [buf], bufferCount := st.bufferCount + 1,
      mgr := { st.mgr with bufRanges := st.mgr.bufRanges ++ [⟨rr, st.bufferCount⟩],
                           rmap := (rr, st.mgr.bufRanges.length) :: st.mgr.rmap } } a b := by
  obtain ⟨idx, br, hbr, h1, h2⟩ := h
  exact ⟨idx, br, getElem?_append_some _ hbr, h1, h2⟩

/-- `get_range_location` and the second invariant: it is kept, covered ranges stay covered, a located range
is covered afterwards, and a covered range is located without the source failing. -/
theorem getRangeLocation_cover (c : Cfg) (F : List UInt8) (hc : 0 < c.chunk) (hsz : F.length < U64)
    (hch : c.chunk ∣ U64 ∨ F.length + c.chunk ≤ U64)
    (hmono : SrcMono c.src) (st : St) (hinv : Inv F st) (h2 : Inv2 c F st) (r : Range)
    (h1 : r.lo < r.hi) (hb : r.hi ≤ F.length) :
    Inv2 c F (getRangeLocation c st r).1 ∧
    (∀ a b, Covered st a b → Covered (getRangeLocation c st r).1 a b) ∧
    (∀ l, (getRangeLocation c st r).2 = .ok l → Covered (getRangeLocation c st r).1 r.lo r.hi) ∧
    (Covered st r.lo r.hi → (getRangeLocation c st r).2 ≠ .err .source) := by
  rcases determine_cases2 c.chunk F st hinv r h1 hb hc with
    ⟨l, idx, br, hd, hbr, g1, g2⟩ | ⟨rr, hd, ghi, glo⟩
  · unfold getRangeLocation
    rw [hd]
    exact ⟨h2, fun _ _ h => h, fun _ _ => ⟨idx, br, hbr, g1, g2⟩, (fun _ h => by cases h)⟩
  · have hup := le_roundUp r.hi c.chunk hc (by omega)
    have hdn := roundDown_le r.lo c.chunk
    have hrrlo : rr.lo ≤ r.lo := by rcases glo with ⟨_, h⟩ | ⟨_, h⟩ <;> omega
    have hrrhi : r.hi ≤ rr.hi := by omega
    have hrrF : rr.hi ≤ F.length := by omega
    unfold getRangeLocation
    rw [hd]
    have n1 : ¬ ¬ rr.lo ≤ rr.hi := by omega
    simp only [n1, if_false]
    cases hsrc : c.src rr.lo (rr.hi - rr.lo) with
    | none =>
      refine ⟨h2, fun _ _ h => h, (fun _ h => by cases h), ?_⟩
      intro hcov _
      -- the start is cached, so the planned buffer starts at `r.lo` and ends inside the covering buffer
      have hne := rmapGet_of_covered h2 h1 hcov
      have hlo : rr.lo = r.lo := by
        rcases glo with ⟨_, h⟩ | ⟨hn, _⟩
        · exact h
        · exact absurd hn hne
      obtain ⟨idx, br, hbr, c1, c2⟩ := hcov
      obtain ⟨s1, s2, _⟩ := h2.ok idx br hbr
      have hbrF := (hinv.bufs idx br hbr).2.1
      have hhi : rr.hi ≤ br.range.hi := by
        rcases s2 with s2 | s2
        · omega
        · have hnov : ¬ U64 ≤ r.hi + (c.chunk - 1) := by
            rcases hch with hd | hd
            · have d1 : c.chunk ∣ U64 - br.range.hi := Nat.dvd_sub hd s2
              have d2 : c.chunk ≤ U64 - br.range.hi := Nat.le_of_dvd (by omega) d1
              omega
            · omega
          have := roundUp_le_of_dvd r.hi c.chunk br.range.hi hc s2 c2 hnov
          omega
      have := hmono br.range.lo (br.range.hi - br.range.lo) rr.lo (rr.hi - rr.lo) s1 (by omega) (by omega)
      rw [hsrc] at this
      cases this
    | some buf =>
      simp only
      by_cases hlen : buf.length = rr.hi - rr.lo
      · have n2 : ¬ buf.length ≠ rr.hi - rr.lo := by omega
        have n3 : ¬ ¬ rr.lo < rr.hi := by omega
        have n4 : ¬ r.lo < rr.lo := by omega
        simp only [n2, if_false, insertBufferRange, n3, n4]
        refine ⟨?_, fun a b h => covered_mono_push rr buf h, ?_, (fun _ h => by cases h)⟩
        · constructor
          intro idx br h
          simp only at h ⊢
          rcases Nat.lt_or_ge idx st.mgr.bufRanges.length with hlt | hge
          · rw [List.getElem?_append_left hlt] at h
            obtain ⟨a1, a2, a3⟩ := h2.ok idx br h
            exact ⟨a1, a2, List.mem_cons_of_mem _ a3⟩
          · rw [List.getElem?_append_right hge] at h
            cases hk : idx - st.mgr.bufRanges.length with
            | zero =>
              rw [hk] at h
              simp only [List.getElem?_cons_zero, Option.some.injEq] at h
              subst h
              simp only
              have hidx : idx = st.mgr.bufRanges.length := by omega
              refine ⟨by rw [hsrc]; rfl, ?_, by rw [hidx]; exact List.mem_cons_self⟩
              rw [ghi]
              by_cases hsat : U64 ≤ r.hi + (c.chunk - 1)
              · left
                have : roundUp r.hi c.chunk = U64 - 1 := by simp only [roundUp, hsat, if_true]
                rw [this]; omega
              · rcases Nat.le_total (roundUp r.hi c.chunk) F.length with hle | hle
                · right; rw [Nat.min_eq_left hle]; exact roundUp_dvd r.hi c.chunk hsat
                · left; exact Nat.min_eq_right hle
            | succ k => rw [hk] at h; simp at h
        · intro l _
          refine ⟨st.mgr.bufRanges.length, ⟨rr, st.bufferCount⟩, ?_, hrrlo, hrrhi⟩
          simp
      · simp only [ne_eq, hlen, not_false_eq_true, if_true]
        exact ⟨h2, fun _ _ h => h, (fun _ h => by cases h), (fun _ h => by cases h)⟩

/-- what of a call is covered after it succeeded -/
def okCover (op : Op) (out : Out (List UInt8)) (st : St) : Prop :=
  match op, out with
  | .read o n, .ok _ => n = 0 ∨ Covered st o (o + n)
  | _, _ => True

/-- every public call keeps the second invariant and covered ranges; a successful range read leaves its
range covered; a range read of a covered range does not fail with the source's error -/
theorem step_cover (c : Cfg) (F : List UInt8) (hc : 0 < c.chunk) (hsz : F.length < U64)
    (hch : c.chunk ∣ U64 ∨ F.length + c.chunk ≤ U64)
    (hmono : SrcMono c.src) (st : St) (hinv : Inv F st) (h2 : Inv2 c F st) (op : Op) :
    Inv2 c F (step c st op).1 ∧
    (∀ a b, Covered st a b → Covered (step c st op).1 a b) ∧
    okCover op (step c st op).2 (step c st op).1 := by
  have hl := hinv.fileLen
  cases op with
  | into o n =>
    simp only [step, readBytesInto]
    cases c.src o n <;> exact ⟨h2, fun _ _ h => h, trivial⟩
  | read o n =>
    simp only [step, readBytesAt, hl]
    by_cases h0 : n = 0
    · simp only [h0, if_true]; exact ⟨h2, fun _ _ h => h, Or.inl rfl⟩
    by_cases h1 : U64 ≤ o + n
    · simp only [h0, h1, if_true, if_false]; exact ⟨h2, fun _ _ h => h, trivial⟩
    by_cases h3 : F.length < o + n
    · simp only [h0, h1, h3, if_true, if_false]; exact ⟨h2, fun _ _ h => h, trivial⟩
    simp only [h0, h1, h3, if_false]
    have hg := getRangeLocation_cover c F hc hsz hch hmono st hinv h2 ⟨o, o + n⟩ (by simp only; omega)
      (by simp only; omega)
    generalize getRangeLocation c st ⟨o, o + n⟩ = res at hg ⊢
    obtain ⟨st', out⟩ := res
    obtain ⟨g1, g2, g3, _⟩ := hg
    simp only at g1 g2 g3
    cases out with
    | ok l =>
      simp only
      refine ⟨g1, g2, ?_⟩
      cases sliceFromLocation st' l with
      | ok bs => exact Or.inr (g3 l rfl)
      | err e => trivial
      | panic => trivial
    | err e => exact ⟨g1, g2, trivial⟩
    | panic => exact ⟨g1, g2, trivial⟩
  | until_ r d =>
    simp only [step, readBytesAtUntil, hl]
    by_cases h1 : r.hi < r.lo
    · simp only [h1, if_true]; exact ⟨h2, fun _ _ h => h, trivial⟩
    by_cases h3 : F.length < r.hi
    · simp only [h1, h3, if_true, if_false]; exact ⟨h2, fun _ _ h => h, trivial⟩
    simp only [h1, h3, if_false]
    generalize hM : min (r.hi - r.lo) maxLenInclDelim = maxLen
    cases cacheGet st.strCache (r.lo, d) with
    | some loc =>
      simp only
      split <;> exact ⟨h2, fun _ _ h => h, trivial⟩
    | none =>
      simp only
      by_cases hz : maxLen = 0
      · simp only [hz, if_true]; exact ⟨h2, fun _ _ h => h, trivial⟩
      have hov : ¬ U64 ≤ r.lo + maxLen := by omega
      simp only [hz, hov, if_false]
      have hg := getRangeLocation_cover c F hc hsz hch hmono st hinv h2 ⟨r.lo, r.lo + maxLen⟩
        (by simp only; omega) (by simp only; omega)
      generalize getRangeLocation c st ⟨r.lo, r.lo + maxLen⟩ = res at hg ⊢
      obtain ⟨st', out⟩ := res
      obtain ⟨g1, g2, _, _⟩ := hg
      simp only at g1 g2
      cases out with
      | err e => exact ⟨g1, g2, trivial⟩
      | panic => exact ⟨g1, g2, trivial⟩
      | ok l =>
        simp only
        cases sliceFromLocation st' l with
        | err e => exact ⟨g1, g2, trivial⟩
        | panic => exact ⟨g1, g2, trivial⟩
        | ok bytes =>
          simp only
          cases memchr d bytes with
          | none => exact ⟨g1, g2, trivial⟩
          | some len =>
            simp only
            refine ⟨⟨fun idx br h => g1.ok idx br h⟩, ?_, trivial⟩
            intro a b h
            obtain ⟨idx, br, hbr, x1, x2⟩ := g2 a b h
            exact ⟨idx, br, hbr, x1, x2⟩

/-- a range read of a covered range returns the file's bytes — the source's failure is not an option -/
theorem readBytesAt_covered (c : Cfg) (F : List UInt8) (hc : 0 < c.chunk) (hsz : F.length < U64)
    (hch : c.chunk ∣ U64 ∨ F.length + c.chunk ≤ U64)
    (hf : Faithful F c.src) (hmono : SrcMono c.src) (st : St) (hinv : Inv F st) (h2 : Inv2 c F st)
    (o n : Nat) (hn : 0 < n) (hcov : Covered st o (o + n)) :
    (readBytesAt c st o n).2 = .ok (slice F o n) := by
  obtain ⟨idx, br, hbr, c1, c2⟩ := hcov
  have hbrF := (hinv.bufs idx br hbr).2.1
  have hin : o + n ≤ F.length := by omega
  rcases (readBytesAt_spec c F hc hsz hf st hinv o n).2 with hs | ⟨he, _⟩
  · rw [hs]
    have n0 : ¬ n = 0 := by omega
    have n1 : ¬ U64 ≤ o + n := by omega
    have n2 : ¬ F.length < o + n := by omega
    simp only [specRead, n0, n1, n2, if_false]
  · exfalso
    have hl := hinv.fileLen
    have n0 : ¬ n = 0 := by omega
    have n1 : ¬ U64 ≤ o + n := by omega
    have n2 : ¬ F.length < o + n := by omega
    simp only [readBytesAt, hl, n0, n1, n2, if_false] at he
    have hg := (getRangeLocation_cover c F hc hsz hch hmono st hinv h2 ⟨o, o + n⟩ (by simp only; omega)
      (by simp only; omega)).2.2.2 ⟨idx, br, hbr, c1, c2⟩
    generalize getRangeLocation c st ⟨o, o + n⟩ = res at hg he
    obtain ⟨st', out⟩ := res
    cases out with
    | ok l =>
      simp only at he
      -- the slice of a location cannot be the source's error
      unfold sliceFromLocation at he
      repeat' split at he
      all_goals cases he
    | err e => simp only at he hg; cases he; exact hg rfl
    | panic => simp only at he; cases he

/-- the state after `ops` satisfies both invariants, and `Covered` only grows along a history -/
theorem run_inv2 (c : Cfg) (F : List UInt8) (hc : 0 < c.chunk) (hsz : F.length < U64)
    (hch : c.chunk ∣ U64 ∨ F.length + c.chunk ≤ U64)
    (hf : Faithful F c.src) (hmono : SrcMono c.src) (ops : List Op) (st : St) (hinv : Inv F st)
    (h2 : Inv2 c F st) :
    Inv F (ops.foldl (fun st op => (step c st op).1) st) ∧
    Inv2 c F (ops.foldl (fun st op => (step c st op).1) st) ∧
    ∀ a b, Covered st a b → Covered (ops.foldl (fun st op => (step c st op).1) st) a b := by
  induction ops generalizing st with
  | nil => exact ⟨hinv, h2, fun _ _ h => h⟩
  | cons op ops ih =>
    have s1 := (step_spec c F hc hsz hf st hinv op).1
    obtain ⟨s2, s3, _⟩ := step_cover c F hc hsz hch hmono st hinv h2 op
    obtain ⟨i1, i2, i3⟩ := ih _ s1 s2
    exact ⟨i1, i2, fun a b h => i3 a b (s3 a b h)⟩

end CC
