import SamplyModel.Model.SampleTable
/-!
Helper lemmas for C04.

1. `permute`, `deltasFrom`, `runningSums`, `sortedIndexes`: reading columns through an index permutation.
2. `Inv`: the link between the model state (four parallel columns + bookkeeping flags) and the logical rows
   of the bare call history; `step_inv` is the one-step lemma, `runFrom_inv` the induction.
3. `serializeWith_rows`: what a serialization through a valid index vector produces.
-/
namespace STab

/-! ### 1. columns through an index vector -/

theorem permute_map {α β : Type} (f : α → β) (l : List α) (idx : List Nat) :
    permute (l.map f) idx = (permute l idx).map (List.map f) := by
  induction idx with
  | nil => simp [permute]
  | cons i is ih =>
    simp only [permute, ih, List.getElem?_map]
    cases l[i]? <;> cases permute l is <;> simp

theorem permute_of_lt {α : Type} (l : List α) (idx : List Nat) (h : ∀ i ∈ idx, i < l.length) :
    permute l idx = some (idx.filterMap (fun i => l[i]?)) := by
  induction idx with
  | nil => simp [permute]
  | cons i is ih =>
    have hi : i < l.length := h i (by simp)
    have his : ∀ j ∈ is, j < l.length := fun j hj => h j (by simp [hj])
    simp [permute, ih his, List.getElem?_eq_getElem hi]

theorem filterMap_range' {α : Type} (l pre : List α) :
    (List.range' pre.length l.length).filterMap (fun i => (pre ++ l)[i]?) = l := by
  induction l generalizing pre with
  | nil => simp
  | cons x xs ih =>
    have h := ih (pre ++ [x])
    simp only [List.length_append, List.length_cons, List.length_nil, Nat.zero_add,
      List.append_assoc, List.cons_append, List.nil_append] at h
    simp [List.range'_succ, h]

theorem filterMap_range {α : Type} (l : List α) :
    (List.range l.length).filterMap (fun i => l[i]?) = l := by
  have := filterMap_range' l []
  simpa [List.range_eq_range'] using this

/-- reading a column through a permutation of its indices yields a permutation of the column -/
theorem permute_perm {α : Type} (l : List α) (idx : List Nat) (h : idx.Perm (List.range l.length)) :
    ∃ out, permute l idx = some out ∧ out.Perm l := by
  have hlt : ∀ i ∈ idx, i < l.length := fun i hi => by
    have := (h.mem_iff).1 hi
    simpa using this
  refine ⟨_, permute_of_lt l idx hlt, ?_⟩
  have := h.filterMap (fun i => l[i]?)
  rwa [filterMap_range] at this

theorem permute_range {α : Type} (l : List α) : permute l (List.range l.length) = some l := by
  rw [permute_of_lt l _ (by simp), filterMap_range]

theorem permute_pairs {α : Type} (l : List α) (ps : List (α × Nat))
    (h : ∀ p ∈ ps, l[p.2]? = some p.1) :
    permute l (ps.map (·.2)) = some (ps.map (·.1)) := by
  induction ps with
  | nil => simp [permute]
  | cons p ps ih =>
    have h1 := h p (by simp)
    have h2 := ih (fun q hq => h q (by simp [hq]))
    simp [permute, h1, h2]

theorem deltasFrom_sorted (ts : List Nat) (prev : Nat) (hs : ts.Pairwise (· ≤ ·))
    (hp : ∀ t ∈ ts, prev ≤ t) :
    ∃ ds, deltasFrom prev ts = some ds ∧ runningSums prev ds = ts := by
  induction ts generalizing prev with
  | nil => exact ⟨[], rfl, rfl⟩
  | cons t ts ih =>
    have hpt : prev ≤ t := hp t (by simp)
    rw [List.pairwise_cons] at hs
    obtain ⟨ds, h1, h2⟩ := ih t hs.2 hs.1
    refine ⟨(t - prev) :: ds, ?_, ?_⟩
    · simp [deltasFrom, hpt, h1]
    · have : prev + (t - prev) = t := by omega
      simp [runningSums, this, h2]

theorem toNat_ofNat_map (ds : List Nat) : List.map Int.toNat (List.map Int.ofNat ds) = ds := by
  induction ds with
  | nil => rfl
  | cons d ds ih => simp [ih]

theorem runningSums_length (acc : Nat) (ds : List Nat) : (runningSums acc ds).length = ds.length := by
  induction ds generalizing acc with
  | nil => rfl
  | cons d ds ih => simp [runningSums, ih]

theorem nondecreasing_iff (l : List Nat) : nondecreasing l = true ↔ l.Pairwise (· ≤ ·) := by
  induction l with
  | nil => simp [nondecreasing]
  | cons a l ih =>
    cases l with
    | nil => simp [nondecreasing]
    | cons b rest =>
      simp only [nondecreasing, Bool.and_eq_true, decide_eq_true_eq, ih, List.pairwise_cons]
      constructor
      · rintro ⟨hab, hb, hr⟩
        refine ⟨?_, hb, hr⟩
        intro x hx
        rcases List.mem_cons.1 hx with rfl | hx
        · exact hab
        · exact Nat.le_trans hab (hb x hx)
      · rintro ⟨ha, hb, hr⟩
        exact ⟨ha b (by simp), hb, hr⟩

/-- the model's sort produces a valid index vector -/
theorem sortedIndexes_valid (times : List Nat) : ValidIdx times (sortedIndexes times) := by
  unfold ValidIdx sortedIndexes
  have hperm := List.mergeSort_perm times.zipIdx (fun a b => decide (a.1 ≤ b.1))
  refine ⟨?_, ?_⟩
  · have := hperm.map (·.2)
    simpa [List.range_eq_range'] using this
  · refine ⟨(times.zipIdx.mergeSort (fun a b => decide (a.1 ≤ b.1))).map (·.1), ?_, ?_⟩
    · apply permute_pairs
      intro p hp
      have := (hperm.mem_iff).1 hp
      exact List.mem_zipIdx_iff_getElem?.1 this
    · rw [List.pairwise_map]
      have := List.pairwise_mergeSort (le := fun (a b : Nat × Nat) => decide (a.1 ≤ b.1))
        (by intro a b c; simp only [decide_eq_true_eq]; omega)
        (by intro a b; simp only [Bool.or_eq_true, decide_eq_true_eq]; omega) times.zipIdx
      exact this.imp (by simp)

/-- the identity is a valid index vector of a table whose timestamps are in order -/
theorem range_valid (times : List Nat) (h : times.Pairwise (· ≤ ·)) :
    ValidIdx times (List.range times.length) :=
  ⟨List.Perm.refl _, times, permute_range times, h⟩

/-! ### 2. the invariant linking the model state to the logical rows -/

/-- The four columns are the projections of the logical rows (so they are parallel and lossless), the
sortedness flag is sound, and the three "last sample" fields describe the last logical row. -/
structure Inv (th : Thread) (rows : List LRow) : Prop where
  weights : th.samples.weights = rows.map (·.w)
  times : th.samples.times = rows.map (·.t)
  stacks : th.samples.stacks = rows.map (·.stack)
  cpus : th.samples.cpus = rows.map (·.cpu)
  sorted : th.samples.isSorted = true → (rows.map (·.t)).Pairwise (· ≤ ·)
  lastTs : th.samples.lastTs = (match rows.getLast? with | some r => r.t | none => 0)
  lastZero : th.lastZero = (match rows.getLast? with | some r => decide (r.cpu = 0) | none => false)
  lastStack : th.lastStack = (match rows.getLast? with | some r => r.stack | none => none)

theorem inv_new : Inv Thread.new [] := by
  constructor <;> simp [Thread.new, SampleTable.new]

theorem pairwise_concat_le (l : List Nat) (x y : Nat) (h : (l ++ [x]).Pairwise (· ≤ ·)) (hxy : x ≤ y) :
    (l ++ [y]).Pairwise (· ≤ ·) ∧ (l ++ [x] ++ [y]).Pairwise (· ≤ ·) := by
  rw [List.pairwise_append] at h
  obtain ⟨h1, _, h3⟩ := h
  have hle : ∀ a ∈ l, a ≤ y := fun a ha => Nat.le_trans (h3 a ha x (by simp)) hxy
  refine ⟨?_, ?_⟩
  · rw [List.pairwise_append]
    exact ⟨h1, by simp, fun a ha b hb => by simp at hb; subst hb; exact hle a ha⟩
  · rw [List.pairwise_append]
    refine ⟨?_, by simp, ?_⟩
    · rw [List.pairwise_append]
      exact ⟨h1, by simp, h3⟩
    · intro a ha b hb
      simp at hb; subst hb
      rcases List.mem_append.1 ha with ha | ha
      · exact hle a ha
      · simp at ha; subst ha; exact hxy

theorem add_inv (th : Thread) (rows : List LRow) (h : Inv th rows) (t : Nat) (stack : Option Nat)
    (cpu : Nat) (w : Int) : Inv (th.add t stack cpu w) (rows ++ [⟨t, stack, cpu, w⟩]) := by
  obtain ⟨⟨ws, ts, ss, cs, srt, lts⟩, ls, lz⟩ := th
  obtain ⟨h1, h2, h3, h4, h5, h6, h7, h8⟩ := h
  simp only at h1 h2 h3 h4 h5 h6 h7 h8
  subst h1 h2 h3 h4
  constructor <;> simp only [Thread.add, SampleTable.addSample, List.map_append, List.map_cons,
    List.map_nil, List.getLast?_concat]
  · intro hs
    by_cases hlt : t < lts
    · simp [hlt] at hs
    · simp only [hlt, if_false] at hs
      have hp := h5 hs
      rcases List.eq_nil_or_concat rows with rfl | ⟨init, r, rfl⟩
      · simp
      · simp only [List.concat_eq_append, List.getLast?_concat] at h6
        subst h6
        simp only [List.concat_eq_append, List.map_append, List.map_cons, List.map_nil] at hp ⊢
        exact (pairwise_concat_le _ _ t hp (by omega)).2
  · cases hc : decide (cpu = 0) <;> simp_all

theorem merge_of_not_zero (th : Thread) (t : Nat) (w : Int) (h : th.lastZero = false) :
    th.merge t w = some (th.add t th.lastStack 0 w) := by
  simp [Thread.merge, Thread.add, h]

theorem merge_inv (th : Thread) (rows : List LRow) (h : Inv th rows) (t : Nat) (w : Int) :
    (opFits rows (.merge t w) = true →
      ∃ th', th.merge t w = some th' ∧ Inv th' (logicalStep rows (.merge t w))) ∧
    (opFits rows (.merge t w) = false → th.merge t w = none) := by
  rcases List.eq_nil_or_concat rows with rfl | ⟨init, r, rfl⟩
  · -- no sample yet: the call appends a stack-less zero-CPU sample
    have hz : th.lastZero = false := by simpa using h.lastZero
    have hst : th.lastStack = none := by simpa using h.lastStack
    refine ⟨fun _ => ⟨_, merge_of_not_zero th t w hz, ?_⟩, fun hf => by simp [opFits] at hf⟩
    have := add_inv th [] h t th.lastStack 0 w
    simpa [logicalStep, hst] using this
  · simp only [List.concat_eq_append] at h ⊢
    by_cases hc : r.cpu = 0
    · -- the last sample is extended
      obtain ⟨⟨ws, ts, ss, cs, srt, lts⟩, ls, lz⟩ := th
      obtain ⟨h1, h2, h3, h4, h5, h6, h7, h8⟩ := h
      simp only [List.getLast?_concat, List.map_append, List.map_cons, List.map_nil] at h1 h2 h3 h4 h5 h6 h7 h8
      subst h1 h2 h3 h4 h6 h8
      have hz : lz = true := by simpa [hc] using h7
      subst hz
      simp only [opFits, logicalStep, List.getLast?_concat, hc, if_true, List.dropLast_concat]
      refine ⟨fun hf => ?_, fun hf => ?_⟩
      · refine ⟨⟨⟨init.map (·.w) ++ [r.w + w], init.map (·.t) ++ [t], init.map (·.stack) ++ [r.stack],
          init.map (·.cpu) ++ [r.cpu], if t < r.t then false else srt, t⟩, r.stack, true⟩, ?_, ?_⟩
        · simp [Thread.merge, SampleTable.modifyLast, modifyLastOf, hf, hc]
        · constructor <;> simp only [List.map_append, List.map_cons, List.map_nil, List.getLast?_concat]
          case cpus => simp [hc]
          case lastZero => simp
          case sorted =>
            intro hs
            by_cases hlt : t < r.t
            · simp [hlt] at hs
            · simp only [hlt, if_false] at hs
              exact (pairwise_concat_le _ _ t (h5 hs) (by omega)).1
      · simp [Thread.merge, SampleTable.modifyLast, hf]
    · -- the last sample had CPU time: a new zero-CPU sample with its stack is appended
      have hz : th.lastZero = false := by simpa [hc] using h.lastZero
      have hst : th.lastStack = r.stack := by simpa using h.lastStack
      refine ⟨fun _ => ⟨_, merge_of_not_zero th t w hz, ?_⟩, fun hf => by simp [opFits, hc] at hf⟩
      have := add_inv th _ h t th.lastStack 0 w
      simpa [logicalStep, hc, hst] using this

/-- one API call: the model panics exactly when the merged weight leaves `i32`, and otherwise the
invariant is carried to the next logical state -/
theorem step_inv (th : Thread) (rows : List LRow) (h : Inv th rows) (op : Op) :
    (opFits rows op = true → ∃ th', th.step op = some th' ∧ Inv th' (logicalStep rows op)) ∧
    (opFits rows op = false → th.step op = none) := by
  cases op with
  | add t stack c w =>
    refine ⟨fun _ => ⟨_, rfl, ?_⟩, fun hf => by simp [opFits] at hf⟩
    exact add_inv th rows h t stack (cpuOfNanos c) w
  | merge t w => exact merge_inv th rows h t w

theorem runFrom_inv (ops : List Op) (th : Thread) (rows : List LRow) (h : Inv th rows) :
    (fitsFrom rows ops = true → ∃ th', runFrom th ops = some th' ∧ Inv th' (logicalFrom rows ops)) ∧
    (fitsFrom rows ops = false → runFrom th ops = none) := by
  induction ops generalizing th rows with
  | nil => exact ⟨fun _ => ⟨th, rfl, h⟩, fun hf => by simp [fitsFrom] at hf⟩
  | cons op ops ih =>
    obtain ⟨s1, s2⟩ := step_inv th rows h op
    cases hfit : opFits rows op with
    | false => exact ⟨fun hf => by simp [fitsFrom, hfit] at hf, fun _ => by simp [runFrom, s2 hfit]⟩
    | true =>
      obtain ⟨th', e1, i1⟩ := s1 hfit
      obtain ⟨r1, r2⟩ := ih th' (logicalStep rows op) i1
      simp only [fitsFrom, hfit, Bool.true_and, runFrom, e1, logicalFrom, List.foldl_cons]
      exact ⟨r1, r2⟩

theorem run_inv (ops : List Op) :
    (fits ops = true → ∃ th, run ops = some th ∧ Inv th (logical ops)) ∧
    (fits ops = false → run ops = none) :=
  runFrom_inv ops Thread.new [] inv_new

theorem run_some_inv (ops : List Op) (th : Thread) (h : run ops = some th) : Inv th (logical ops) := by
  cases hf : fits ops with
  | false => rw [(run_inv ops).2 hf] at h; cases h
  | true =>
    obtain ⟨th', e, i⟩ := (run_inv ops).1 hf
    rw [e] at h; cases h; exact i

/-! ### 3. serialization through a valid index vector -/

theorem mkRows_map (rows : List LRow) :
    mkRows (rows.map (·.t)) (rows.map (·.stack)) (rows.map (·.cpu)) (rows.map (·.w)) = rows := by
  induction rows with
  | nil => rfl
  | cons r rs ih => simp [mkRows, ih]

theorem perm_sum_int {l₁ l₂ : List Int} (h : l₁.Perm l₂) : l₁.sum = l₂.sum := by
  induction h with
  | nil => rfl
  | cons x _ ih => simp [ih]
  | swap x y l => simp only [List.sum_cons]; omega
  | trans _ _ ih1 ih2 => exact ih1.trans ih2

/-- Serializing through *any* valid index vector: the output columns are the projections of one
rearrangement `rows'` of the logical rows, that rearrangement is in time order, every delta is defined and
the running sums of the deltas are the timestamps. -/
theorem serializeWith_rows (th : Thread) (rows : List LRow) (h : Inv th rows) (idx : List Nat)
    (hv : ValidIdx th.samples.times idx) :
    ∃ (rows' : List LRow) (ds : List Nat), rows'.Perm rows ∧ (rows'.map (·.t)).Pairwise (· ≤ ·) ∧
      permute th.samples.times idx = some (rows'.map (·.t)) ∧
      deltasFrom 0 (rows'.map (·.t)) = some ds ∧ runningSums 0 ds = rows'.map (·.t) ∧
      th.samples.serializeWith idx
        = some ⟨rows'.map (·.stack), ds, rows'.map (·.w), rows'.map (·.cpu)⟩ := by
  obtain ⟨hperm, ts, hts, hsorted⟩ := hv
  rw [h.times, List.length_map] at hperm
  obtain ⟨rows', hp, hpr⟩ := permute_perm rows idx hperm
  have ht : permute th.samples.times idx = some (rows'.map (·.t)) := by
    rw [h.times, permute_map, hp]; rfl
  have hts' : ts = rows'.map (·.t) := by rw [hts] at ht; exact Option.some.inj ht
  subst hts'
  obtain ⟨ds, hd1, hd2⟩ := deltasFrom_sorted _ 0 hsorted (fun _ _ => Nat.zero_le _)
  refine ⟨rows', ds, hpr, hsorted, ht, hd1, hd2, ?_⟩
  simp only [SampleTable.serializeWith, ht, h.stacks, h.weights, h.cpus, permute_map, hp,
    Option.map_some, hd1]

/-- the model's own serializer is `serializeWith` for a valid index vector: the identity when the
sortedness flag is set (sound by the invariant), the merge sort's result otherwise -/
theorem serialize_eq (th : Thread) (rows : List LRow) (h : Inv th rows) :
    ∃ idx, ValidIdx th.samples.times idx ∧ th.samples.serialize = th.samples.serializeWith idx := by
  cases hs : th.samples.isSorted with
  | false =>
    exact ⟨_, sortedIndexes_valid _, by simp [SampleTable.serialize, hs]⟩
  | true =>
    have hp := h.sorted hs
    rw [← h.times] at hp
    refine ⟨_, range_valid _ hp, ?_⟩
    have l1 : th.samples.stacks.length = th.samples.times.length := by simp [h.stacks, h.times]
    have l2 : th.samples.weights.length = th.samples.times.length := by simp [h.weights, h.times]
    have l3 : th.samples.cpus.length = th.samples.times.length := by simp [h.cpus, h.times]
    have p0 := permute_range th.samples.times
    have p1 := permute_range th.samples.stacks
    have p2 := permute_range th.samples.weights
    have p3 := permute_range th.samples.cpus
    rw [l1] at p1; rw [l2] at p2; rw [l3] at p3
    simp only [SampleTable.serialize, hs, if_true, SampleTable.serializeSorted,
      SampleTable.serializeWith, p0, p1, p2, p3]

theorem logicalStep_sums (rows : List LRow) (op : Op) :
    ((logicalStep rows op).map (·.w)).sum = (rows.map (·.w)).sum + op.weight ∧
    ((logicalStep rows op).map (·.cpu)).sum = (rows.map (·.cpu)).sum + op.cpuMicros := by
  cases op with
  | add t stack c w => simp [logicalStep, Op.weight, Op.cpuMicros]
  | merge t w =>
    rcases List.eq_nil_or_concat rows with rfl | ⟨init, r, rfl⟩
    · simp [logicalStep, Op.weight, Op.cpuMicros]
    · by_cases hc : r.cpu = 0
      · simp only [List.concat_eq_append, logicalStep, List.getLast?_concat, hc, if_true,
          List.dropLast_concat, Op.weight, Op.cpuMicros, List.map_append, List.map_cons, List.map_nil,
          List.sum_append_int, List.sum_append_nat, List.sum_cons, List.sum_nil]
        omega
      · simp [logicalStep, hc, Op.weight, Op.cpuMicros]
        omega

theorem logicalFrom_sums (ops : List Op) (rows : List LRow) :
    ((logicalFrom rows ops).map (·.w)).sum = (rows.map (·.w)).sum + (ops.map Op.weight).sum ∧
    ((logicalFrom rows ops).map (·.cpu)).sum = (rows.map (·.cpu)).sum + (ops.map Op.cpuMicros).sum := by
  induction ops generalizing rows with
  | nil => simp [logicalFrom]
  | cons op ops ih =>
    obtain ⟨a, b⟩ := ih (logicalStep rows op)
    obtain ⟨c, d⟩ := logicalStep_sums rows op
    simp only [logicalFrom, List.foldl_cons, List.map_cons, List.sum_cons] at a b ⊢
    constructor <;> omega

theorem logical_sums (ops : List Op) :
    ((logical ops).map (·.w)).sum = (ops.map Op.weight).sum ∧
    ((logical ops).map (·.cpu)).sum = (ops.map Op.cpuMicros).sum := by
  have := logicalFrom_sums ops []
  simpa [logical] using this

/-! ### 4. counters -/

theorem CVal.json_of_finite (v : CVal) (h : v.isFinite = true) : v.json = v := by
  simp [CVal.json, h]

theorem CVal.intPart_json (v : CVal) : v.json.intPart = v.intPart := by
  cases v <;> simp only [CVal.json] <;> split <;> simp_all [CVal.intPart, CVal.isFinite]

structure CInv (c : CounterSamples) (rows : List CRow) : Prop where
  time : c.time = rows.map (·.t)
  count : c.count = rows.map (·.value)
  number : c.number = rows.map (·.n)
  sorted : c.isSorted = true → (rows.map (·.t)).Pairwise (· ≤ ·)
  lastTs : c.lastTs = (match rows.getLast? with | some r => r.t | none => 0)

theorem cinv_new : CInv CounterSamples.new [] := by
  constructor <;> simp [CounterSamples.new]

theorem caddSample_inv (c : CounterSamples) (rows : List CRow) (h : CInv c rows) (t : Nat) (v : CVal)
    (n : Nat) : CInv (c.addSample t v n) (rows ++ [⟨t, v, n⟩]) := by
  obtain ⟨ts, ns, cs, srt, lts⟩ := c
  obtain ⟨h1, h2, h3, h5, h6⟩ := h
  simp only at h1 h2 h3 h5 h6
  subst h1 h2 h3
  constructor <;> simp only [CounterSamples.addSample, List.map_append, List.map_cons,
    List.map_nil, List.getLast?_concat]
  intro hs
  by_cases hlt : t < lts
  · simp [hlt] at hs
  · simp only [hlt, if_false] at hs
    have hp := h5 hs
    rcases List.eq_nil_or_concat rows with rfl | ⟨init, r, rfl⟩
    · simp
    · simp only [List.concat_eq_append, List.getLast?_concat] at h6
      subst h6
      simp only [List.concat_eq_append, List.map_append, List.map_cons, List.map_nil] at hp ⊢
      exact (pairwise_concat_le _ _ t hp (by omega)).2

theorem runCFrom_inv (ops : List COp) (c : CounterSamples) (rows : List CRow) (h : CInv c rows) :
    CInv (runCFrom c ops) (rows ++ rowsC ops) := by
  unfold runCFrom
  induction ops generalizing c rows with
  | nil => simpa [rowsC] using h
  | cons op ops ih =>
    have := ih _ _ (caddSample_inv c rows h op.t op.value op.n)
    simpa [rowsC] using this

theorem runC_inv (ops : List COp) : CInv (runC ops) (rowsC ops) := by
  have := runCFrom_inv ops _ _ cinv_new
  simpa [runC] using this

theorem runCFrom_append (c : CounterSamples) (a b : List COp) :
    runCFrom c (a ++ b) = runCFrom (runCFrom c a) b := by
  simp [runCFrom, List.foldl_append]

theorem mkCRows_map (rows : List CRow) :
    mkCRows (rows.map (·.t)) (rows.map (·.value)) (rows.map (·.n)) = rows := by
  induction rows with
  | nil => rfl
  | cons r rs ih => simp [mkCRows, ih]

/-- `rows'` is a rearrangement of the stored rows; the output shows `rows'` with `CVal.json` applied to the
values -/
theorem cserializeWith_rows (c : CounterSamples) (rows : List CRow) (h : CInv c rows) (idx : List Nat)
    (hv : ValidIdx c.time idx) :
    ∃ (rows' : List CRow) (ds : List Nat), rows'.Perm rows ∧ (rows'.map (·.t)).Pairwise (· ≤ ·) ∧
      permute c.time idx = some (rows'.map (·.t)) ∧
      deltasFrom 0 (rows'.map (·.t)) = some ds ∧ runningSums 0 ds = rows'.map (·.t) ∧
      c.serializeWith idx = some ⟨rows'.map (·.value.json), rows'.map (·.n), ds⟩ := by
  obtain ⟨hperm, ts, hts, hsorted⟩ := hv
  rw [h.time, List.length_map] at hperm
  obtain ⟨rows', hp, hpr⟩ := permute_perm rows idx hperm
  have ht : permute c.time idx = some (rows'.map (·.t)) := by
    rw [h.time, permute_map, hp]; rfl
  have hts' : ts = rows'.map (·.t) := by rw [hts] at ht; exact Option.some.inj ht
  subst hts'
  obtain ⟨ds, hd1, hd2⟩ := deltasFrom_sorted _ 0 hsorted (fun _ _ => Nat.zero_le _)
  refine ⟨rows', ds, hpr, hsorted, ht, hd1, hd2, ?_⟩
  simp only [CounterSamples.serializeWith, ht, h.count, h.number, permute_map, hp,
    Option.map_some, hd1, List.map_map, Function.comp_def]

theorem cserialize_eq (c : CounterSamples) (rows : List CRow) (h : CInv c rows) :
    ∃ idx, ValidIdx c.time idx ∧ c.serialize = c.serializeWith idx := by
  cases hs : c.isSorted with
  | false =>
    exact ⟨_, sortedIndexes_valid _, by simp [CounterSamples.serialize, hs]⟩
  | true =>
    have hp := h.sorted hs
    rw [← h.time] at hp
    refine ⟨_, range_valid _ hp, ?_⟩
    have l1 : c.count.length = c.time.length := by simp [h.count, h.time]
    have l2 : c.number.length = c.time.length := by simp [h.number, h.time]
    have p0 := permute_range c.time
    have p1 := permute_range c.count
    have p2 := permute_range c.number
    rw [l1] at p1; rw [l2] at p2
    simp only [CounterSamples.serialize, hs, if_true, CounterSamples.serializeSorted,
      CounterSamples.serializeWith, p0, p1, p2]

end STab
