import SamplyModel.Lemmas.ProfileSymFrame
/-!
Decoding a stack row = walking it, then decoding every frame (improvement round).
-/
namespace PT


theorem mapM'_map_eq {α β γ : Type} (f : β → Option γ) (g : α → β) : ∀ (l : List α),
    mapM' f (l.map g) = mapM' (fun a => f (g a)) l
  | [] => rfl
  | a :: as => by simp only [List.map_cons, mapM', mapM'_map_eq f g as]

theorem serThread_stack_cols (p : P) (th : Thread) (st : SerThread) (h : serThread p th = some st) :
    st.stPrefix = th.stacks.prefixes ∧ st.stFrame = th.stacks.frames := by
  unfold serThread at h
  split at h
  · cases h; exact ⟨rfl, rfl⟩
  · cases h

/-- decoding a stack = walking it in the model, then decoding every frame -/
theorem decodeStack_of_inv (p : P) (hS : SInv p) (s : SerProfile) (hs : serialize p = some s)
    (t : Nat) (th : Thread) (ht : p.threads[t]? = some th) :
    ∃ st ∈ s.threads, st.tid = idString th.tid ∧
      ∀ i, decodeStack s st i = (p.stackFrames? (t, i)).bind (mapM' (decodeFrame s st)) := by
  obtain ⟨_, _, hthreads⟩ := serialize_parts p hS s hs
  obtain ⟨st, hst, hser⟩ := hthreads t th ht
  refine ⟨st, hst, (serThread_fields p th st hser).1, ?_⟩
  intro i
  obtain ⟨c1, c2⟩ := serThread_stack_cols p th st hser
  simp only [decodeStack, P.stackFrames?, ht, c1, c2]

theorem mapM'_append_one {α β : Type} (f : α → Option β) (x : α) : ∀ (l : List α),
    mapM' f (l ++ [x]) = (mapM' f l).bind (fun r => (f x).map (fun y => r ++ [y]))
  | [] => by
    simp only [List.nil_append, mapM', Option.bind_some]
    cases f x <;> rfl
  | a :: as => by
    simp only [List.cons_append, mapM', mapM'_append_one f x as]
    cases f a with
    | none => cases mapM' f as <;> rfl
    | some b =>
      cases mapM' f as with
      | none => rfl
      | some bs =>
        simp only [Option.bind_some]
        cases f x <;> rfl

end PT
