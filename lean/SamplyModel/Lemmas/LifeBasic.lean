import SamplyModel.Model.ConvSpec
/-!
Basic facts used by the C17 refinement proof (`Lemmas/LifeSim.lean`, `Lemmas/LifeStep.lean`):
association lists (`alGet` / `alPut` / `alDel`), `modifyNth`, and `Life.findIdx` (= `List.findIdx?`).
-/
open Conv ConvSpec

namespace LifeL

theorem alGet_eq_some_mem {β} {l : List (Nat × β)} {k : Nat} {v : β} (h : alGet l k = some v) : (k, v) ∈ l := by
  unfold alGet at h
  cases hf : l.find? (fun p => p.1 == k) with
  | none => simp [hf] at h
  | some x =>
    simp [hf] at h
    have h1 := List.find?_some hf
    have h2 := List.mem_of_find?_eq_some hf
    simp at h1
    subst h; subst h1; exact h2

theorem alGet_cons {β} (l : List (Nat × β)) (k k' : Nat) (v : β) :
    alGet ((k', v) :: l) k = if k' = k then some v else alGet l k := by
  unfold alGet
  by_cases h : k' = k <;> simp [h]

theorem alGet_alDel_self {β} (l : List (Nat × β)) (k : Nat) : alGet (alDel l k) k = none := by
  induction l with
  | nil => simp [alGet, alDel]
  | cons x xs ih =>
    obtain ⟨a, b⟩ := x
    by_cases h : a = k
    · simpa [alDel, h] using ih
    · have : alDel ((a, b) :: xs) k = (a, b) :: alDel xs k := by simp [alDel, h]
      rw [this, alGet_cons]; simp [h, ih]

theorem alGet_alDel_ne {β} (l : List (Nat × β)) (k k' : Nat) (hne : k' ≠ k) : alGet (alDel l k) k' = alGet l k' := by
  induction l with
  | nil => simp [alGet, alDel]
  | cons x xs ih =>
    obtain ⟨a, b⟩ := x
    by_cases h : a = k
    · have : alDel ((a, b) :: xs) k = alDel xs k := by simp [alDel, h]
      rw [this, alGet_cons, ih]; simp [h, Ne.symm hne]
    · have : alDel ((a, b) :: xs) k = (a, b) :: alDel xs k := by simp [alDel, h]
      rw [this, alGet_cons, alGet_cons, ih]

theorem alGet_alPut_self {β} (l : List (Nat × β)) (k : Nat) (v : β) : alGet (alPut l k v) k = some v := by
  simp [alPut, alGet_cons]

theorem alGet_alPut_ne {β} (l : List (Nat × β)) (k k' : Nat) (v : β) (hne : k' ≠ k) :
    alGet (alPut l k v) k' = alGet l k' := by
  simp [alPut, alGet_cons, Ne.symm hne, alGet_alDel_ne _ _ _ hne]

theorem mem_alDel {β} {l : List (Nat × β)} {k k' : Nat} {v : β} : (k', v) ∈ alDel l k ↔ k' ≠ k ∧ (k', v) ∈ l := by
  simp [alDel, List.mem_filter]; exact And.comm

theorem mem_alPut {β} {l : List (Nat × β)} {k k' : Nat} {v v' : β} :
    (k', v') ∈ alPut l k v ↔ (k' = k ∧ v' = v) ∨ (k' ≠ k ∧ (k', v') ∈ l) := by
  simp [alPut, mem_alDel]

theorem alGet_none_not_mem {β} {l : List (Nat × β)} {k : Nat} (h : alGet l k = none) (v : β) : (k, v) ∉ l := by
  intro hm
  unfold alGet at h
  simp at h
  exact h _ _ hm rfl


theorem getElem?_modifyNth {α} (l : List α) (i j : Nat) (f : α → α) :
    (modifyNth l i f)[j]? = if i = j then (l[j]?).map f else l[j]? := by
  induction l generalizing i j with
  | nil => simp [modifyNth]
  | cons x xs ih =>
    cases i <;> cases j <;> simp [modifyNth, ih]

theorem length_modifyNth {α} (l : List α) (i : Nat) (f : α → α) : (modifyNth l i f).length = l.length := by
  induction l generalizing i with
  | nil => simp [modifyNth]
  | cons x xs ih => cases i <;> simp [modifyNth, ih]

theorem map_modifyNth {α β} (l : List α) (i : Nat) (f : α → α) (g : α → β) (f' : β → β)
    (h : ∀ x, g (f x) = f' (g x)) : (modifyNth l i f).map g = modifyNth (l.map g) i f' := by
  induction l generalizing i with
  | nil => simp [modifyNth]
  | cons x xs ih => cases i <;> simp [modifyNth, ih, h]

theorem modifyNth_id {α} (l : List α) (i : Nat) (f : α → α) (h : ∀ x, l[i]? = some x → f x = x) :
    modifyNth l i f = l := by
  induction l generalizing i with
  | nil => simp [modifyNth]
  | cons x xs ih =>
    cases i with
    | zero => simp [modifyNth]; exact h x (by simp)
    | succ n => simp [modifyNth]; exact ih n (fun y hy => h y (by simpa using hy))

theorem filter_modifyNth_length {α} (l : List α) (i : Nat) (f : α → α) (q : α → Bool) (h : ∀ x, q (f x) = q x) :
    ((modifyNth l i f).filter q).length = (l.filter q).length := by
  induction l generalizing i with
  | nil => simp [modifyNth]
  | cons x xs ih =>
    cases i with
    | zero => simp only [modifyNth, List.filter_cons, h]; split <;> simp
    | succ n => simp only [modifyNth, List.filter_cons]; split <;> simp [ih]

theorem filter_map_length {α} (l : List α) (f : α → α) (q : α → Bool) (h : ∀ x, q (f x) = q x) :
    ((l.map f).filter q).length = (l.filter q).length := by
  induction l with
  | nil => simp
  | cons x xs ih => simp only [List.map_cons, List.filter_cons, h]; split <;> simp [ih]

theorem findIdx_go {α} (l : List α) (q : α → Bool) (n : Nat) :
    Life.findIdx.go q l n = (l.findIdx? q).map (· + n) := by
  induction l generalizing n with
  | nil => simp [Life.findIdx.go]
  | cons x xs ih =>
    simp only [Life.findIdx.go, List.findIdx?_cons]
    split
    · simp
    · rw [ih]; simp [Option.map_map, Function.comp_def, Nat.add_comm, Nat.add_left_comm]

theorem findIdx_eq {α} (l : List α) (q : α → Bool) : Life.findIdx l q = l.findIdx? q := by
  simp [Life.findIdx, findIdx_go]

theorem findIdx_some {α} {l : List α} {q : α → Bool} {j : Nat} (h : Life.findIdx l q = some j) :
    ∃ x, l[j]? = some x ∧ q x = true := by
  rw [findIdx_eq] at h
  have := List.findIdx?_eq_some_iff_getElem.mp h
  obtain ⟨hlt, hq, _⟩ := this
  exact ⟨l[j], by simp [hlt], hq⟩

theorem findIdx_none {α} {l : List α} {q : α → Bool} (h : Life.findIdx l q = none) :
    ∀ (j : Nat) (x : α), l[j]? = some x → q x = false := by
  rw [findIdx_eq] at h
  intro j x hx
  have := List.findIdx?_eq_none_iff.mp h x (List.mem_of_getElem? hx)
  simpa using this

theorem findIdx_exists {α} {l : List α} {q : α → Bool} {j : Nat} {x : α} (hx : l[j]? = some x) (hq : q x = true) :
    ∃ i, Life.findIdx l q = some i := by
  cases h : Life.findIdx l q with
  | some i => exact ⟨i, rfl⟩
  | none => have := findIdx_none h j x hx; simp [hq] at this


theorem getElem?_concat {α} (l : List α) (x : α) (i : Nat) :
    (l ++ [x])[i]? = if i < l.length then l[i]? else if i = l.length then some x else none := by
  rw [List.getElem?_append]
  split
  · rfl
  · split
    · next h => simp [h]
    · next h1 h2 =>
      have : 0 < i - l.length := by omega
      cases hk : i - l.length with
      | zero => omega
      | succ n => simp

theorem getElem?_concat_len {α} (l : List α) (x : α) : (l ++ [x])[l.length]? = some x := by
  simp

theorem getElem?_concat_of_some {α} {l : List α} {i : Nat} {y : α} (x : α) (h : l[i]? = some y) :
    (l ++ [x])[i]? = some y := by
  have := (List.getElem?_eq_some_iff.mp h).1
  rw [getElem?_concat, if_pos this, h]

theorem lt_of_getElem?_some {α} {l : List α} {i : Nat} {y : α} (h : l[i]? = some y) : i < l.length :=
  (List.getElem?_eq_some_iff.mp h).1


theorem getElem?_modifyNth_self {α} {l : List α} {i : Nat} {x : α} (f : α → α) (h : l[i]? = some x) :
    (modifyNth l i f)[i]? = some (f x) := by
  rw [getElem?_modifyNth, if_pos rfl, h, Option.map_some]

theorem getElem?_modifyNth_ne {α} (l : List α) {i j : Nat} (f : α → α) (h : i ≠ j) :
    (modifyNth l i f)[j]? = l[j]? := by
  rw [getElem?_modifyNth, if_neg h]


theorem findIdx_modifyNth {α} (l : List α) (k : Nat) (f : α → α) (q : α → Bool) (h : ∀ x, q (f x) = q x) :
    Life.findIdx (modifyNth l k f) q = Life.findIdx l q := by
  rw [findIdx_eq, findIdx_eq]
  induction l generalizing k with
  | nil => rfl
  | cons x xs ih =>
    cases k with
    | zero => simp only [modifyNth, List.findIdx?_cons, h]
    | succ n => simp only [modifyNth, List.findIdx?_cons, ih n]

theorem modifyNth_get {α} (l : List α) (i : Nat) (f : α → α) : (modifyNth l i f)[i]? = (l[i]?).map f := by
  induction l generalizing i with
  | nil => simp [modifyNth]
  | cons x xs ih => cases i <;> simp [modifyNth, ih]

theorem modifyNth_get_ne {α} (l : List α) (i j : Nat) (f : α → α) (h : i ≠ j) :
    (modifyNth l i f)[j]? = l[j]? := by
  induction l generalizing i j with
  | nil => simp [modifyNth]
  | cons x xs ih =>
    cases i <;> cases j <;> simp [modifyNth] at h ⊢
    exact ih _ _ h


end LifeL
