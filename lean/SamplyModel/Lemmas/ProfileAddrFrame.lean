import SamplyModel.Lemmas.ProfileNsym
/-!
Canonical interning of address frames (improvement round): `handle_for_frame_with_address`.
-/
namespace PT


/-- interning a native key whose name index, library and native symbol row are right: the new row's
description -/
theorem P.internFrame_native (p : P) (t : Nat) (th th0 : Thread) (st : ThreadStrings) (l c s flags : Nat)
    (file' line col : Option Nat) (file : Option Str)
    (nd : NativeData) (name id : Str) (cs : (Str × Nat) × Str) (nsd : Option (Str × Nat × Option Nat × Str))
    (h0 : p.threads[t]? = some th0) (hl : st.table.strings[l]? = some name)
    (hf : optStr st.table.strings file' = some file) (hcs : subNames p.cats c s = some cs)
    (hlib : p.libs.getLibName nd.lib = some id)
    (hns : match nd.nsym with
      | none => nsd = none
      | some j => nsymOfCols st.table.strings p.libs.getLibName th.nsyms.addrs th.nsyms.sizes th.nsyms.libs
          th.nsyms.names j = nsd ∧ nsd.isSome)
    (p2 : P) (t' i : Nat) (h : p.internFrame t th st ⟨l, some nd, c, s, file', line, col, flags⟩ = (p2, .h [t', i])) :
    t' = t ∧ ∃ th2, p2.threads[t]? = some th2 ∧
      th2.frames.keys[i]? = some ⟨l, some nd, c, s, file', line, col, flags⟩ ∧ th2.nsyms = th.nsyms ∧
      p2.libs = p.libs ∧
      p2.descOf th2 ⟨l, some nd, c, s, file', line, col, flags⟩ =
        some ⟨name, cs.1, cs.2, some id, some nd.addr, nsd, nd.depth, file, line, col, flags⟩ := by
  unfold P.internFrame at h
  cases hi : th.frames.indexFor ⟨l, some nd, c, s, file', line, col, flags⟩ p.libs st with
  | none => simp [hi] at h
  | some r =>
    obtain ⟨ft, st', i'⟩ := r
    simp only [hi, Prod.mk.injEq, Out.h.injEq, List.cons.injEq, and_true] at h
    obtain ⟨hp2, ht', hi'⟩ := h
    subst hp2; subst hi'
    refine ⟨ht'.symm, _, P.setThread_get p t th0 _ h0, FrameTable.indexFor_key _ _ _ _ _ hi, rfl, rfl, ?_⟩
    have hpre := (FrameTable.indexFor_SE p.gstrings.strings _ _ _ _ _ hi).prefix
    simp only at hpre
    unfold subNames at hcs
    split at hcs
    · cases hcs
    · rename_i cat hcat
      split at hcs
      · cases hcs
      · rename_i sub hsub
        cases hcs
        obtain ⟨nlib, nns, naddr, ndepth⟩ := nd
        cases nns with
        | none =>
          simp only at hns hlib
          subst hns
          simp [P.descOf, descOfCols, P.setThread, prefix_getElem? hpre hl, optStr_stable hpre hf, hcat, hsub, hlib]
        | some j =>
          simp only at hns hlib
          obtain ⟨hq, hsome⟩ := hns
          cases nsd with
          | none => simp at hsome
          | some q =>
            have hq' := nsymOfCols_stable (S' := st'.table.strings) (L' := p.libs.getLibName) j q hpre
              (fun _ _ hx => hx) (List.prefix_refl _) (List.prefix_refl _) (List.prefix_refl _) (List.prefix_refl _) hq
            unfold nsymOfCols at hq'
            split at hq'
            · rename_i nl na nsz nn g1 g2 g3 g4
              cases hq'
              simp [P.descOf, descOfCols, P.setThread, prefix_getElem? hpre hl, optStr_stable hpre hf, hcat, hsub, hlib, g1, g2, g3, g4]
            · cases hq'

/-- `resolve_frame_address` marks the library used and returns its used-lib index -/
theorem resolveAddr_lib (libs : GlobalLibs) (hL : LibsInv libs) (maps : List Mapping)
    (hm : ∀ m ∈ maps, m.lib < libs.all.length) (a : AddrSpec) (libs' : GlobalLibs) (res : AddrRes)
    (h : resolveAddr libs maps a = (libs', res)) :
    (∀ addr, res = .unknown addr → resolveLib maps a = some (.unknown addr) ∧ libs' = libs) ∧
    (∀ rel u, res = .inLib rel u → ∃ lib, resolveLib maps a = some (.inLib rel lib) ∧ lib < libs.all.length ∧
      libs' = (libs.indexForUsed lib).1 ∧ u = (libs.indexForUsed lib).2) := by
  cases a with
  | abs k x =>
    simp only [resolveAddr, resolveLib] at h ⊢
    cases hc : mappingConvert maps (k.adjust x) with
    | none =>
      simp only [hc, Prod.mk.injEq] at h
      obtain ⟨_, rfl⟩ := h
      exact ⟨fun _ e => (by cases e), fun _ _ e => (by cases e)⟩
    | some o =>
      cases o with
      | none =>
        simp only [hc, Prod.mk.injEq] at h
        obtain ⟨rfl, rfl⟩ := h
        exact ⟨fun addr e => (by cases e; exact ⟨rfl, rfl⟩), fun _ _ e => (by cases e)⟩
      | some rl =>
        obtain ⟨rel, lib⟩ := rl
        simp only [hc, Prod.mk.injEq] at h
        obtain ⟨rfl, rfl⟩ := h
        refine ⟨fun _ e => (by cases e), fun rel' u e => ?_⟩
        cases e
        refine ⟨lib, rfl, ?_, rfl, rfl⟩
        obtain ⟨m, hmm, hml⟩ := mappingConvert_lib maps _ rel lib hc
        rw [← hml]
        exact hm m hmm
  | rel k lib x =>
    simp only [resolveAddr, resolveLib] at h ⊢
    by_cases hl : lib < libs.all.length
    · simp only [hl, if_true, Prod.mk.injEq] at h
      obtain ⟨rfl, rfl⟩ := h
      exact ⟨fun _ e => (by cases e), fun rel' u e => (by cases e; exact ⟨lib, rfl, hl, rfl, rfl⟩)⟩
    · simp only [hl, if_false, Prod.mk.injEq] at h
      obtain ⟨_, rfl⟩ := h
      exact ⟨fun _ e => (by cases e), fun _ _ e => (by cases e)⟩

/-- interning the native symbol of an address frame: the row's description -/
theorem nsym_intern (libs : GlobalLibs) (hL : LibsInv libs) (th : Thread)
    (hns : NsInv th.strings.n libs.used.length th.nsyms) (hts : TSInv th.strings) (lib : Nat)
    (hl : lib < libs.all.length) (sym : Sym) (ns : NativeSymbols) (st : ThreadStrings) (i nmi : Nat)
    (hni : th.nsyms.indexFor (libs.indexForUsed lib).2 sym th.strings = some (ns, st, i, nmi)) :
    ∃ sz nm, nsymOfCols st.table.strings (libs.indexForUsed lib).1.getLibName ns.addrs ns.sizes ns.libs ns.names i
        = some (libs.all[lib], sym.addr, sz, nm) ∧ st.table.strings[nmi]? = some nm ∧
      ((∀ u : Nat, libs.used[u]? = some lib →
          ¬ ∃ j' : Nat, th.nsyms.libs[j']? = some u ∧ th.nsyms.addrs[j']? = some sym.addr) →
        sz = sym.size ∧ nm = sym.name) ∧
      (∀ (u j' : Nat) (d0 : Str × Nat × Option Nat × Str), libs.used[u]? = some lib →
        th.nsyms.libs[j']? = some u → th.nsyms.addrs[j']? = some sym.addr →
        nsymOfCols th.strings.table.strings libs.getLibName th.nsyms.addrs th.nsyms.sizes th.nsyms.libs
          th.nsyms.names j' = some d0 → d0 = (libs.all[lib], sym.addr, sz, nm)) := by
  have hu := libs.indexForUsed_spec lib hL hl
  have hug := libs.indexForUsed_get lib hL
  have hue := libs.indexForUsed_ext lib
  obtain ⟨g1, g2, g3, g4, g5⟩ := th.nsyms.indexFor_get _ sym th.strings _ _ hns hts.1 _ hni
  simp only at g1 g2 g3 g4 g5
  have hid : libs.all[lib]? = some (libs.all[lib]) := List.getElem?_eq_getElem hl
  have hlibname : (libs.indexForUsed lib).1.getLibName (libs.indexForUsed lib).2 = some (libs.all[lib]) := by
    rw [getLibName_eq, hug, Option.bind_some, hu.2.2.2.1]
    exact hid
  obtain ⟨ns', st', i', nm', e', hs', _, hns', hi', hnm', _⟩ :=
    th.nsyms.indexFor_spec (libs.indexForUsed lib).2 sym th.strings (libs.indexForUsed lib).1.used.length
      (hns.mono (Nat.le_refl _) hu.2.2.1) hts hu.2.1
  rw [hni] at e'
  cases e'
  obtain ⟨n1, n2, n3, _⟩ := hns'
  obtain ⟨sz, hsz⟩ : ∃ sz, ns.sizes[i]? = some sz := ⟨_, List.getElem?_eq_getElem (by omega)⟩
  have hnmlt : nmi < st.table.strings.length := hnm'
  -- a used-list entry of `lib` is the index `indexForUsed` returns
  have huniq : ∀ u : Nat, libs.used[u]? = some lib → u = (libs.indexForUsed lib).2 := by
    intro u hu'
    have := hL.2.2.2 u lib hu'
    unfold GlobalLibs.indexForUsed
    rw [this]
  refine ⟨sz, st.table.strings[nmi], ?_, List.getElem?_eq_getElem hnmlt, ?_, ?_⟩
  · simp only [nsymOfCols, g1, g2, g3, hsz, Option.bind_some, hlibname, List.getElem?_eq_getElem hnmlt]
  · intro hfirst
    have hno : ¬ ∃ j' : Nat, th.nsyms.libs[j']? = some (libs.indexForUsed lib).2 ∧
        th.nsyms.addrs[j']? = some sym.addr := by
      rintro ⟨j', hj1, hj2⟩
      have hlt : (libs.indexForUsed lib).2 < libs.used.length := hns.2.2.2.1 _ (List.mem_of_getElem? hj1)
      have hold : libs.used[(libs.indexForUsed lib).2]? = some lib := by
        obtain ⟨tl, htl⟩ := hue.2
        rw [← htl, List.getElem?_append_left hlt] at hug
        exact hug
      exact hfirst _ hold ⟨j', hj1, hj2⟩
    obtain ⟨k1, k2⟩ := g5 hno
    rw [hsz] at k1
    cases k1
    refine ⟨rfl, ?_⟩
    rw [List.getElem?_eq_getElem hnmlt] at k2
    exact Option.some.inj k2
  · intro u j' d0 hu' hj1 hj2 hd0
    have hue' := huniq u hu'
    subst hue'
    -- the row exists, so the table was not touched and `i = j'`
    obtain ⟨e1, e2⟩ := g4 ⟨j', hj1, hj2⟩
    subst e1; subst e2
    have hlk := hns.2.2.2.2.2.2.2 j' _ _ hj1 hj2
    have hij : i = j' := by
      unfold NativeSymbols.indexFor at hni
      rw [hlk] at hni
      simp only at hni
      split at hni
      · cases hni; rfl
      · cases hni
    subst hij
    have hd' := nsymOfCols_stable (S' := th.strings.table.strings) (L' := (libs.indexForUsed lib).1.getLibName) i d0
      (List.prefix_refl _) (getLibName_stable hue.1 hue.2) (List.prefix_refl _) (List.prefix_refl _)
      (List.prefix_refl _) (List.prefix_refl _) hd0
    have : nsymOfCols th.strings.table.strings (libs.indexForUsed lib).1.getLibName th.nsyms.addrs th.nsyms.sizes
        th.nsyms.libs th.nsyms.names i = some (libs.all[lib], sym.addr, sz, th.strings.table.strings[nmi]) := by
      simp only [nsymOfCols, g1, g2, g3, hsz, Option.bind_some, hlibname, List.getElem?_eq_getElem hnmlt]
    rw [this] at hd'
    exact (Option.some.inj hd').symm

theorem getSymtab_indexForUsed (libs : GlobalLibs) (hL : LibsInv libs) (lib : Nat) :
    (libs.indexForUsed lib).1.getSymtab (libs.indexForUsed lib).2 = alookup libs.symtabs lib := by
  unfold GlobalLibs.getSymtab
  rw [libs.indexForUsed_get lib hL]
  simp only
  unfold GlobalLibs.indexForUsed
  split <;> rfl

theorem P.frameAddr_after (p1 : P) (hT : TInv p1) (hd : SDecAll p1) (t : Nat) (a : AddrSpec) (c s flags : Nat)
    (cs : (Str × Nat) × Str) (hcs : subNames p1.cats c s = some cs) (p2 : P) (t' i : Nat)
    (h : p1.frameAddr t a c s flags = (p2, .h [t', i])) :
    t' = t ∧ ∃ th pr la th2 k d, p1.threads[t]? = some th ∧ p1.processes[th.process]? = some pr ∧
      resolveLib (effMaps p1.kmaps pr.maps a) a = some la ∧ p2.threads[t]? = some th2 ∧ th2.frames.keys[i]? = some k ∧
      p2.descOf th2 k = some d ∧
      d.cat = cs.1 ∧ d.sub = cs.2 ∧ d.depth = 0 ∧ d.file = none ∧ d.line = none ∧ d.col = none ∧ d.flags = flags ∧
      addrTail p1.libs th la d := by
  unfold P.frameAddr at h
  cases hth : p1.threads[t]? with
  | none => simp [hth] at h
  | some th =>
    simp only [hth] at h
    cases hpr : p1.processes[th.process]? with
    | none => simp [hpr] at h
    | some pr =>
      simp only [hpr] at h
      have hthI := hT.threads th (List.mem_of_getElem? hth)
      obtain ⟨a1, _, a3, _⟩ := hthI
      have hmaps : ∀ m ∈ effMaps p1.kmaps pr.maps a, m.lib < p1.libs.all.length :=
          effMaps_libs hT.kmaps (hT.maps pr (List.mem_of_getElem? hpr)) a
      have hsd := hd th (List.mem_of_getElem? hth)
      cases hr : resolveAddr p1.libs (effMaps p1.kmaps pr.maps a) a with
      | mk libs res =>
        obtain ⟨hun, hin⟩ := resolveAddr_lib p1.libs hT.libs (effMaps p1.kmaps pr.maps a) hmaps a libs res hr
        rw [hr] at h
        cases res with
        | invalid => simp at h
        | panic => simp at h
        | unknown addr =>
          obtain ⟨hla, hlibs⟩ := hun addr rfl
          subst hlibs
          simp only at h
          obtain ⟨g1, g2⟩ := P.hexString_get p1 addr hT.gstr
          obtain ⟨k1, k2⟩ := (hsd.mono g2).forGlobal _ _ g1
          obtain ⟨e1, th2, e2, e3, e4⟩ := P.internFrame_label (p1.hexString addr).1 t th th _ _ c s flags none none none
            (hexStr addr) none cs hth k2 rfl hcs p2 t' i h
          exact ⟨e1, th, pr, _, th2, _, _, rfl, hpr, hla, e2, e3, e4, rfl, rfl, rfl, rfl, rfl, rfl, rfl,
            ⟨rfl, rfl, rfl, rfl⟩⟩
        | inLib rel u =>
          obtain ⟨lib, hla, hl, hlibs, hu⟩ := hin rel u rfl
          subst hlibs; subst hu
          simp only at h
          have hid : p1.libs.all[lib]? = some (p1.libs.all[lib]) := List.getElem?_eq_getElem hl
          have hus := p1.libs.indexForUsed_spec lib hT.libs hl
          have hlibname : (p1.libs.indexForUsed lib).1.getLibName (p1.libs.indexForUsed lib).2 =
              some (p1.libs.all[lib]) := by
            rw [getLibName_eq, p1.libs.indexForUsed_get lib hT.libs, Option.bind_some, hus.2.2.2.1]
            exact hid
          rw [getSymtab_indexForUsed p1.libs hT.libs lib] at h
          cases hsym : (alookup p1.libs.symtabs lib).bind (fun tab => symLookup tab rel) with
          | some sym =>
            simp only [hsym] at h
            cases hni : th.nsyms.indexFor (p1.libs.indexForUsed lib).2 sym th.strings with
            | none => simp [hni] at h
            | some r =>
              obtain ⟨ns, st, i', nmi⟩ := r
              simp only [hni] at h
              obtain ⟨sz, nm, q1, q2, q3, q4⟩ := nsym_intern p1.libs hT.libs th a3 a1 lib hl sym ns st i' nmi hni
              obtain ⟨e1, th2, e2, e3, _, _, e4⟩ := P.internFrame_native { p1 with libs := (p1.libs.indexForUsed lib).1 }
                t { th with nsyms := ns } th st nmi c s flags none none none none
                ⟨(p1.libs.indexForUsed lib).2, some i', rel, 0⟩ nm
                (p1.libs.all[lib]) cs (some (p1.libs.all[lib], sym.addr, sz, nm)) hth q2 rfl hcs hlibname
                ⟨q1, rfl⟩ p2 t' i h
              refine ⟨e1, th, pr, _, th2, _, _, rfl, hpr, hla, e2, e3, e4, rfl, rfl, rfl, rfl, rfl, rfl, rfl, ?_⟩
              refine ⟨p1.libs.all[lib], hid, rfl, rfl, ?_⟩
              simp only [hsym]
              exact ⟨sz, nm, rfl, rfl, q3, q4⟩
          | none =>
            simp only [hsym] at h
            obtain ⟨g1, g2⟩ := P.hexString_get { p1 with libs := (p1.libs.indexForUsed lib).1 } rel hT.gstr
            obtain ⟨k1, k2⟩ := (hsd.mono g2).forGlobal _ _ g1
            obtain ⟨e1, th2, e2, e3, _, _, e4⟩ := P.internFrame_native
              (P.hexString { p1 with libs := (p1.libs.indexForUsed lib).1 } rel).1
              t th th _ _ c s flags none none none none ⟨(p1.libs.indexForUsed lib).2, none, rel, 0⟩ (hexStr rel)
              (p1.libs.all[lib]) cs none hth k2 rfl hcs hlibname rfl p2 t' i h
            refine ⟨e1, th, pr, _, th2, _, _, rfl, hpr, hla, e2, e3, e4, rfl, rfl, rfl, rfl, rfl, rfl, rfl, ?_⟩
            refine ⟨p1.libs.all[lib], hid, rfl, rfl, ?_⟩
            simp [hsym]

/-- the address-frame call: the handle it returns has, right after the call, a description satisfying the
caller-side specification -/
theorem addr_step (p : P) (hI : Inv p) (hd : SDecAll p) (t : Nat) (a : AddrSpec) (sc : SubSpec) (flags : Nat)
    (hv : handlesValid p (.frameAddr t a sc flags) = true) (i : Nat)
    (hout : (step p (.frameAddr t a sc flags)).2 = .h [t, i]) :
    ∃ d th2 k, p.AddrFrameSpec t a sc flags d ∧
      (step p (.frameAddr t a sc flags)).1.threads[t]? = some th2 ∧ th2.frames.keys[i]? = some k ∧
      (step p (.frameAddr t a sc flags)).1.descOf th2 k = some d := by
  simp only [handlesValid, Bool.and_eq_true, decide_eq_true_eq] at hv
  obtain ⟨_, hsc⟩ := hv
  obtain ⟨e, hle, hpos, hok, hinv⟩ := p.resolveSub_spec sc hI.1.subsPos hI.1.catsPos hsc
  have hp1 : TInv (p.resolveSub sc).1 := by rw [e]; exact hI.1.setCats _ hle hpos
  have hg := p.resolveSub_gstrings sc
  have hth := p.resolveSub_threads sc
  have hlibs : (p.resolveSub sc).1.libs = p.libs := by rw [e]
  have hprocs : (p.resolveSub sc).1.processes = p.processes := by rw [e]
  have hkm : (p.resolveSub sc).1.kmaps = p.kmaps := by rw [e]
  simp only [step] at hout ⊢
  unfold P.withSub at hout ⊢
  unfold P.AddrFrameSpec
  cases hr : p.resolveSub sc with
  | mk p1 r =>
    rw [hr] at hok hinv hg hth hout hp1 hlibs hprocs hkm
    simp only at hok hinv hg hth hout hp1 hlibs hprocs hkm ⊢
    cases r with
    | invalid => exact absurd rfl hinv
    | panic => simp at hout
    | ok c s =>
      simp only at hout ⊢
      obtain ⟨cs, hcs⟩ := subNames_some p1.cats c s (hok c s rfl)
      have hd1 : SDecAll p1 := by
        intro th hth'
        rw [hth] at hth'
        rw [hg]
        exact hd th hth'
      cases hk : p1.frameAddr t a c s flags with
      | mk p2 o =>
        rw [hk] at hout
        cases o with
        | invalid => simp at hout
        | h vals =>
          simp only [Out.h.injEq] at hout ⊢
          subst hout
          obtain ⟨_, th, pr, la, th2, k, d, e1, e2, e3, e4, e5, e6, f1, f2, f3, f4, f5, f6, f7, f8⟩ :=
            p1.frameAddr_after hp1 hd1 t a c s flags cs hcs p2 t i hk
          refine ⟨d, th2, k, ⟨p1, c, s, cs, th, pr, la, rfl, hcs, by rw [← hth]; exact e1, by rw [← hprocs]; exact e2,
            by rw [← hkm]; exact e3, f1, f2, f3, f4, f5, f6, f7, by rw [← hlibs]; exact f8⟩, e4, e5, e6⟩
        | ok => simp at hout
        | noStack => simp at hout
        | rejected => simp at hout
        | panic => simp at hout
        | bug => simp at hout

end PT
