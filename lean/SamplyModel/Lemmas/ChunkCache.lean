import SamplyModel.Model.ChunkCache
/-!
Helper lemmas for C13: list slicing, `memchr`, chunk rounding, the cache invariant `Inv` and the step lemma
`step_spec` (every public call preserves the invariant and returns what the file alone dictates).
Core Lean only.
-/
namespace CC

/-! ### slices -/

theorem slice_length {F : List UInt8} {o n : Nat} (h : o + n ≤ F.length) : (slice F o n).length = n := by
  simp only [slice, List.length_take, List.length_drop]; omega

theorem slice_zero (F : List UInt8) (o : Nat) : slice F o 0 = [] := by simp [slice]

/-- a sub-slice of a slice is a slice of the file -/
theorem slice_slice (F : List UInt8) (a n off sz : Nat) (h : off + sz ≤ n) :
    ((slice F a n).drop off).take sz = slice F (a + off) sz := by
  simp only [slice, List.drop_take, List.take_take, List.drop_drop]
  congr 1; omega

theorem slice_take (F : List UInt8) (o n k : Nat) (h : k ≤ n) : (slice F o n).take k = slice F o k := by
  simp only [slice, List.take_take]; congr 1; omega

theorem getElem?_append_some {α} {l : List α} {i : Nat} {a : α} (ext : List α) (h : l[i]? = some a) :
    (l ++ ext)[i]? = some a := by
  have hi : i < l.length := by
    rcases Nat.lt_or_ge i l.length with h' | h'
    · exact h'
    · rw [List.getElem?_eq_none h'] at h; cases h
  rw [List.getElem?_append_left hi]; exact h

/-! ### memchr -/

theorem memchr_lt {d : UInt8} {l : List UInt8} {k : Nat} (h : memchr d l = some k) : k < l.length := by
  induction l generalizing k with
  | nil => simp [memchr] at h
  | cons b bs ih =>
    simp only [memchr] at h
    split at h
    · cases h; simp
    · cases hm : memchr d bs with
      | none => simp [hm] at h
      | some j => simp [hm] at h; subst h; have := ih hm; simp; omega

/-- searching a prefix finds the same first occurrence, if it lies inside the prefix -/
theorem memchr_take (d : UInt8) (l : List UInt8) (m : Nat) :
    memchr d (l.take m) = match memchr d l with
      | some k => if k < m then some k else none
      | none => none := by
  induction l generalizing m with
  | nil => simp [memchr]
  | cons b bs ih =>
    cases m with
    | zero =>
      simp only [List.take_zero, memchr]
      split <;> simp
    | succ m =>
      simp only [List.take_succ_cons, memchr]
      by_cases hb : b = d
      · simp [hb]
      · simp only [hb, if_false, ih m]
        cases memchr d bs with
        | none => simp
        | some j =>
          simp only [Option.map_some]
          by_cases hj : j < m
          · simp [hj]
          · simp [hj]

theorem memchr_of_take {d : UInt8} {l : List UInt8} {m k : Nat} (h : memchr d (l.take m) = some k) :
    memchr d l = some k ∧ k < m := by
  rw [memchr_take] at h
  cases hm : memchr d l with
  | none => simp [hm] at h
  | some j =>
    simp only [hm] at h
    split at h
    · cases h; exact ⟨rfl, by assumption⟩
    · cases h

/-- `memchr` returns the position of the first occurrence -/
theorem memchr_eq_some_iff (d : UInt8) (l : List UInt8) (k : Nat) :
    memchr d l = some k ↔ l[k]? = some d ∧ ∀ j, j < k → l[j]? ≠ some d := by
  induction l generalizing k with
  | nil => simp [memchr]
  | cons b bs ih =>
    simp only [memchr]
    by_cases hb : b = d
    · subst hb
      simp only [if_true]
      constructor
      · intro h; cases h; simp
      · intro ⟨_, h2⟩
        cases k with
        | zero => rfl
        | succ k => exact absurd (by simp) (h2 0 (by omega))
    · simp only [hb, if_false]
      cases k with
      | zero =>
        simp only [List.getElem?_cons_zero, Option.some.injEq, hb, false_and, iff_false]
        cases memchr d bs <;> simp
      | succ k =>
        simp only [List.getElem?_cons_succ]
        constructor
        · intro h
          cases hm : memchr d bs with
          | none => simp [hm] at h
          | some j =>
            simp only [hm, Option.map_some, Option.some.injEq] at h
            have hj : j = k := by omega
            subst hj
            obtain ⟨h1, h2⟩ := (ih j).1 hm
            refine ⟨h1, ?_⟩
            intro i hi
            cases i with
            | zero => simp [hb]
            | succ i => simp only [List.getElem?_cons_succ]; exact h2 i (by omega)
        · intro ⟨h1, h2⟩
          have : memchr d bs = some k := (ih k).2 ⟨h1, fun j hj => by
            have := h2 (j + 1) (by omega); simpa using this⟩
          simp [this]

theorem memchr_eq_none_iff (d : UInt8) (l : List UInt8) : memchr d l = none ↔ d ∉ l := by
  induction l with
  | nil => simp [memchr]
  | cons b bs ih =>
    simp only [memchr]
    by_cases hb : b = d
    · simp [hb]
    · simp only [hb, if_false, Option.map_eq_none_iff, ih, List.mem_cons, not_or]
      constructor
      · intro h; exact ⟨fun h' => hb h'.symm, h⟩
      · intro h; exact h.2

/-! ### chunk rounding -/

theorem roundDown_le (v f : Nat) : roundDown v f ≤ v := Nat.div_mul_le_self v f

theorem le_roundUp (v f : Nat) (hf : 0 < f) (hv : v < U64) : v ≤ roundUp v f := by
  unfold roundUp
  split
  · omega
  · have h := Nat.div_add_mod (v + (f - 1)) f
    have h2 := Nat.mod_lt (v + (f - 1)) hf
    rw [Nat.mul_comm] at h
    generalize (v + (f - 1)) / f * f = q at *
    omega

/-! ### the invariant -/

/-- location `l` of `buffers` holds the file's bytes `F[s, s + l.size)` and can be sliced without panic -/
def LocOk (F : List UInt8) (buffers : List (List UInt8)) (s : Nat) (l : Loc) : Prop :=
  ∃ b, buffers[l.handle]? = some b ∧ l.off + l.size ≤ b.length ∧
    (b.drop l.off).take l.size = slice F s l.size

theorem LocOk.append {F : List UInt8} {buffers : List (List UInt8)} {s : Nat} {l : Loc}
    (h : LocOk F buffers s l) (ext : List (List UInt8)) : LocOk F (buffers ++ ext) s l := by
  obtain ⟨b, h1, h2, h3⟩ := h
  exact ⟨b, getElem?_append_some ext h1, h2, h3⟩

/-- a string-cache entry `((s, d), loc)` is correct: `loc` holds `F[s, s + size)` and `size` is the distance
from `s` to the first `d` at or after `s` in the file -/
def StrOk (F : List UInt8) (buffers : List (List UInt8)) (e : (Nat × UInt8) × Loc) : Prop :=
  LocOk F buffers e.1.1 e.2 ∧ memchr e.1.2 (F.drop e.1.1) = some e.2.size

/-- The cache invariant: the two copies of the length are the file's length; handles are allocated in
step with the buffer vector; every buffer range lies inside the file and its buffer holds exactly the
file's bytes of that range; every range-map entry points to the buffer range it was inserted with;
every string-cache entry is correct. -/
structure Inv (F : List UInt8) (st : St) : Prop where
  fileLen : st.fileLen = F.length
  mgrLen : st.mgr.fileLen = F.length
  count : st.bufferCount = st.buffers.length
  bufs : ∀ (idx : Nat) (br : BufRange), st.mgr.bufRanges[idx]? = some br →
    br.range.lo ≤ br.range.hi ∧ br.range.hi ≤ F.length ∧
    st.buffers[br.handle]? = some (slice F br.range.lo (br.range.hi - br.range.lo))
  rmap : ∀ e : Range × Nat, e ∈ st.mgr.rmap →
    ∃ br : BufRange, st.mgr.bufRanges[e.2]? = some br ∧ br.range = e.1
  strs : ∀ e : (Nat × UInt8) × Loc, e ∈ st.strCache → StrOk F st.buffers e

theorem inv_init (F : List UInt8) : Inv F (St.init F.length) := by
  constructor <;> simp [St.init]

theorem sliceFromLocation_of_LocOk {F : List UInt8} {st : St} {s : Nat} {l : Loc}
    (h : LocOk F st.buffers s l) : sliceFromLocation st l = .ok (slice F s l.size) := by
  obtain ⟨b, h1, h2, h3⟩ := h
  unfold sliceFromLocation
  rw [h1]
  have a1 : ¬ b.length < l.off := by omega
  have a2 : ¬ b.length - l.off < l.size := by omega
  simp only [a1, a2, if_false, h3]

/-- `determine_range_sourcing` on a valid request: either a location that holds the requested bytes, or a
range to read that contains the request, lies inside the file and inside the chunk-rounded hull. -/
theorem determine_cases (chunk : Nat) (F : List UInt8) (st : St) (hinv : Inv F st) (r : Range)
    (h1 : r.lo < r.hi) (h2 : r.hi ≤ F.length) (hc : 0 < chunk) (hsz : F.length < U64) :
    (∃ l, determineRangeSourcing chunk st.mgr r = .ok (.existing l) ∧ LocOk F st.buffers r.lo l
        ∧ l.size = r.hi - r.lo) ∨
    (∃ rr, determineRangeSourcing chunk st.mgr r = .ok (.needNew rr) ∧ roundDown r.lo chunk ≤ rr.lo ∧
        rr.lo ≤ r.lo ∧ r.hi ≤ rr.hi ∧ rr.hi ≤ F.length ∧ rr.hi ≤ roundUp r.hi chunk) := by
  have hm := hinv.mgrLen
  have n1 : ¬ ¬ r.lo < r.hi := by omega
  have n2 : ¬ ¬ r.hi ≤ st.mgr.fileLen := by omega
  have n3 : ¬ chunk = 0 := by omega
  have hup := le_roundUp r.hi chunk hc (by omega)
  have hdn := roundDown_le r.lo chunk
  -- the two `planNew` results
  have plan : ∀ b : Bool, ∃ rr : Range,
      (if chunk = 0 then (Out.panic : Out Sourcing) else
        .ok (.needNew ⟨if b = true then r.lo else roundDown r.lo chunk, min (roundUp r.hi chunk) st.mgr.fileLen⟩))
        = .ok (.needNew rr) ∧ roundDown r.lo chunk ≤ rr.lo ∧
        rr.lo ≤ r.lo ∧ r.hi ≤ rr.hi ∧ rr.hi ≤ F.length ∧ rr.hi ≤ roundUp r.hi chunk := by
    intro b
    refine ⟨⟨if b = true then r.lo else roundDown r.lo chunk, min (roundUp r.hi chunk) st.mgr.fileLen⟩,
      by simp only [n3, if_false], ?_⟩
    cases b <;> simp only [Bool.false_eq_true, if_false, if_true] <;> omega
  unfold determineRangeSourcing
  simp only [n1, n2, if_false]
  cases hg : rmapGet st.mgr.rmap r.lo with
  | none => right; exact plan false
  | some idx =>
    simp only
    unfold rmapGet at hg
    cases hf : st.mgr.rmap.find? (fun e => e.1.contains r.lo) with
    | none => simp [hf] at hg
    | some e =>
      simp only [hf, Option.map_some, Option.some.injEq] at hg
      have hmem := List.mem_of_find?_eq_some hf
      have hcont := List.find?_some hf
      obtain ⟨br, hbr, hrange⟩ := hinv.rmap e hmem
      rw [hg] at hbr
      rw [hbr]
      simp only [Range.contains, Bool.and_eq_true, decide_eq_true_eq] at hcont
      obtain ⟨b1, b2, b3⟩ := hinv.bufs idx br hbr
      by_cases hle : r.hi ≤ br.range.hi
      · left
        have n5 : ¬ r.lo < br.range.lo := by rw [hrange]; omega
        refine ⟨⟨br.handle, r.lo - br.range.lo, r.hi - r.lo⟩, by simp only [hle, n5, if_true, if_false], ?_, rfl⟩
        refine ⟨_, b3, ?_, ?_⟩
        · rw [slice_length (by omega)]; simp only; rw [hrange] at *; omega
        · simp only
          rw [slice_slice F _ _ _ _ (by rw [hrange] at *; omega)]
          congr 1; rw [hrange] at *; omega
      · right
        simp only [hle, if_false]
        exact plan true

/-- pushing a freshly read buffer (holding the file's bytes of `rr`) and registering it keeps the invariant -/
theorem inv_push {F : List UInt8} {st : St} (hinv : Inv F st) (rr : Range) (hlo : rr.lo < rr.hi)
    (hhi : rr.hi ≤ F.length) :
    Inv F { st with
      buffers := st.buffers ++ [slice F rr.lo (rr.hi - rr.lo)], bufferCount := st.bufferCount + 1,
      mgr := { st.mgr with bufRanges := st.mgr.bufRanges ++ [⟨rr, st.bufferCount⟩],
                           rmap := (rr, st.mgr.bufRanges.length) :: st.mgr.rmap } } := by
  obtain ⟨i1, i2, i3, i4, i5, i6⟩ := hinv
  refine ⟨i1, i2, by simp [i3], ?_, ?_, ?_⟩
  · intro idx br h
    simp only at h ⊢
    rcases Nat.lt_or_ge idx st.mgr.bufRanges.length with hlt | hge
    · rw [List.getElem?_append_left hlt] at h
      obtain ⟨a1, a2, a3⟩ := i4 idx br h
      exact ⟨a1, a2, getElem?_append_some _ a3⟩
    · rw [List.getElem?_append_right hge] at h
      cases hk : idx - st.mgr.bufRanges.length with
      | zero =>
        rw [hk] at h
        simp only [List.getElem?_cons_zero, Option.some.injEq] at h
        subst h
        simp only
        refine ⟨by omega, hhi, ?_⟩
        rw [i3]; exact List.getElem?_concat_length
      | succ k => rw [hk] at h; simp at h
  · intro e he
    simp only [List.mem_cons] at he
    rcases he with he | he
    · subst he
      exact ⟨⟨rr, st.bufferCount⟩, by simp, rfl⟩
    · obtain ⟨br, hb, hr⟩ := i5 e he
      exact ⟨br, getElem?_append_some _ hb, hr⟩
  · intro e he
    obtain ⟨l1, l2⟩ := i6 e he
    exact ⟨l1.append _, l2⟩

/-- the source failed on an in-bounds request that contains `[lo, hi)` and lies inside its chunk-rounded
hull `[roundDown lo, min (roundUp hi) |F|)` -/
def SrcFailsIn (c : Cfg) (F : List UInt8) (lo hi : Nat) : Prop :=
  ∃ o n, c.src o n = none ∧ roundDown lo c.chunk ≤ o ∧ o ≤ lo ∧ hi ≤ o + n ∧
    o + n ≤ roundUp hi c.chunk ∧ o + n ≤ F.length

/-- `get_range_location` on a valid request: keeps the invariant, only appends buffers, leaves the string
cache alone, never panics; it returns a location that holds `F[r.lo, r.hi)`, or the source's failure (and
then the state is unchanged). -/
theorem getRangeLocation_spec (c : Cfg) (F : List UInt8) (hc : 0 < c.chunk) (hsz : F.length < U64)
    (hf : Faithful F c.src) (st : St) (hinv : Inv F st) (r : Range) (h1 : r.lo < r.hi)
    (h2 : r.hi ≤ F.length) :
    Inv F (getRangeLocation c st r).1 ∧
    (∃ ext, (getRangeLocation c st r).1.buffers = st.buffers ++ ext) ∧
    (getRangeLocation c st r).1.strCache = st.strCache ∧
    ((∃ l, (getRangeLocation c st r).2 = .ok l ∧ LocOk F (getRangeLocation c st r).1.buffers r.lo l
        ∧ l.size = r.hi - r.lo) ∨
     ((getRangeLocation c st r).2 = .err .source ∧ (getRangeLocation c st r).1 = st ∧
        SrcFailsIn c F r.lo r.hi)) := by
  rcases determine_cases c.chunk F st hinv r h1 h2 hc hsz with ⟨l, hd, hl, hs⟩ | ⟨rr, hd, g1, g2, g3, g4, g5⟩
  · unfold getRangeLocation
    rw [hd]
    exact ⟨hinv, ⟨[], by simp⟩, rfl, Or.inl ⟨l, rfl, hl, hs⟩⟩
  · unfold getRangeLocation
    rw [hd]
    have n1 : ¬ ¬ rr.lo ≤ rr.hi := by omega
    simp only [n1, if_false]
    cases hsrc : c.src rr.lo (rr.hi - rr.lo) with
    | none =>
      refine ⟨hinv, ⟨[], by simp⟩, rfl, Or.inr ⟨rfl, rfl, ?_⟩⟩
      exact ⟨rr.lo, rr.hi - rr.lo, hsrc, g1, g2, by omega, by omega, by omega⟩
    | some buf =>
      have hbuf : buf = slice F rr.lo (rr.hi - rr.lo) := hf _ _ _ (by omega) hsrc
      have hlen : buf.length = rr.hi - rr.lo := by rw [hbuf]; exact slice_length (by omega)
      have n2 : ¬ buf.length ≠ rr.hi - rr.lo := by omega
      have n3 : ¬ ¬ rr.lo < rr.hi := by omega
      have n4 : ¬ r.lo < rr.lo := by omega
      simp only [n2, if_false, insertBufferRange, n3, n4]
      subst hbuf
      refine ⟨inv_push hinv rr (by omega) g4, ⟨[_], rfl⟩, trivial, Or.inl ⟨_, rfl, ?_, rfl⟩⟩
      refine ⟨slice F rr.lo (rr.hi - rr.lo), ?_, ?_, ?_⟩
      · simp only; rw [hinv.count]; exact List.getElem?_concat_length
      · simp only; rw [hlen]; omega
      · simp only
        rw [slice_slice F _ _ _ _ (by omega)]
        congr 1; omega

/-! ### the public calls -/

/-- `read_bytes_at`: keeps the invariant and returns what the file alone dictates (`specRead`), unless the
source fails on the buffer it has to read (then: clean error, state unchanged). -/
theorem readBytesAt_spec (c : Cfg) (F : List UInt8) (hc : 0 < c.chunk) (hsz : F.length < U64)
    (hf : Faithful F c.src) (st : St) (hinv : Inv F st) (o n : Nat) :
    Inv F (readBytesAt c st o n).1 ∧
    ((readBytesAt c st o n).2 = specRead F o n ∨
     ((readBytesAt c st o n).2 = .err .source ∧ (readBytesAt c st o n).1 = st ∧ 0 < n ∧
        o + n ≤ F.length ∧ SrcFailsIn c F o (o + n))) := by
  unfold readBytesAt specRead
  rw [hinv.fileLen]
  by_cases h0 : n = 0
  · simp only [h0, if_true]; exact ⟨hinv, Or.inl trivial⟩
  by_cases h1 : U64 ≤ o + n
  · simp only [h0, h1, if_true, if_false]; exact ⟨hinv, Or.inl trivial⟩
  by_cases h2 : F.length < o + n
  · simp only [h0, h1, h2, if_true, if_false]; exact ⟨hinv, Or.inl trivial⟩
  simp only [h0, h1, h2, if_false]
  have hg := getRangeLocation_spec c F hc hsz hf st hinv ⟨o, o + n⟩ (by simp only; omega) (by simp only; omega)
  generalize getRangeLocation c st ⟨o, o + n⟩ = res at hg ⊢
  obtain ⟨st', out⟩ := res
  obtain ⟨g1, _, _, g4⟩ := hg
  simp only at g1 g4
  rcases g4 with ⟨l, hl, hok, hs⟩ | ⟨he, hst, hfail⟩
  · subst hl
    simp only
    refine ⟨g1, Or.inl ?_⟩
    rw [sliceFromLocation_of_LocOk hok, hs]
    congr 2; omega
  · subst he
    simp only
    exact ⟨g1, Or.inr ⟨trivial, hst, by omega, by omega, hfail⟩⟩

theorem cacheGet_mem {m : List ((Nat × UInt8) × Loc)} {k : Nat × UInt8} {l : Loc}
    (h : cacheGet m k = some l) : (k, l) ∈ m := by
  unfold cacheGet at h
  cases hf : m.find? (fun e => e.1 = k) with
  | none => simp [hf] at h
  | some e =>
    simp only [hf, Option.map_some, Option.some.injEq] at h
    have h1 := List.mem_of_find?_eq_some hf
    have h2 := List.find?_some hf
    simp only [decide_eq_true_eq] at h2
    obtain ⟨a, b⟩ := e
    simp only at h h2
    subst h; subst h2
    exact h1

/-- `read_bytes_at_until`: keeps the invariant and returns what the file alone dictates (`specUntil`),
unless the source fails on the buffer it has to read (then: clean error, state unchanged). -/
theorem readBytesAtUntil_spec (c : Cfg) (F : List UInt8) (hc : 0 < c.chunk) (hsz : F.length < U64)
    (hf : Faithful F c.src) (st : St) (hinv : Inv F st) (r : Range) (d : UInt8) :
    Inv F (readBytesAtUntil c st r d).1 ∧
    ((readBytesAtUntil c st r d).2 = specUntil F r d ∨
     ((readBytesAtUntil c st r d).2 = .err .source ∧ (readBytesAtUntil c st r d).1 = st ∧
        r.lo < r.hi ∧ r.hi ≤ F.length ∧
        SrcFailsIn c F r.lo (r.lo + min (r.hi - r.lo) maxLenInclDelim))) := by
  unfold readBytesAtUntil specUntil
  rw [hinv.fileLen]
  by_cases h1 : r.hi < r.lo
  · simp only [h1, if_true]; exact ⟨hinv, Or.inl trivial⟩
  by_cases h2 : F.length < r.hi
  · simp only [h1, h2, if_true, if_false]; exact ⟨hinv, Or.inl trivial⟩
  simp only [h1, h2, if_false]
  generalize hM : min (r.hi - r.lo) maxLenInclDelim = maxLen
  have hMle : maxLen ≤ r.hi - r.lo := by omega
  cases hcg : cacheGet st.strCache (r.lo, d) with
  | some loc =>
    -- string-cache hit
    obtain ⟨hlok, hmem⟩ := hinv.strs _ (cacheGet_mem hcg)
    simp only at hlok hmem
    have hspec : memchr d (slice F r.lo maxLen) =
        if loc.size < maxLen then some loc.size else none := by
      unfold slice; rw [memchr_take, hmem]
    simp only
    rw [hspec]
    by_cases hlt : loc.size < maxLen
    · simp only [hlt, if_true]
      exact ⟨hinv, Or.inl (sliceFromLocation_of_LocOk hlok)⟩
    · simp only [hlt, if_false]
      exact ⟨hinv, Or.inl trivial⟩
  | none =>
    simp only
    by_cases hz : maxLen = 0
    · simp only [hz, if_true, slice_zero, memchr]
      exact ⟨hinv, Or.inl trivial⟩
    have hov : ¬ U64 ≤ r.lo + maxLen := by omega
    simp only [hz, hov, if_false]
    have hg := getRangeLocation_spec c F hc hsz hf st hinv ⟨r.lo, r.lo + maxLen⟩
      (by simp only; omega) (by simp only; omega)
    generalize getRangeLocation c st ⟨r.lo, r.lo + maxLen⟩ = res at hg ⊢
    obtain ⟨st', out⟩ := res
    obtain ⟨g1, ⟨ext, g2⟩, g3, g4⟩ := hg
    simp only at g1 g2 g3 g4
    rcases g4 with ⟨l, hl, hok, hs⟩ | ⟨he, hst, hfail⟩
    · subst hl
      simp only
      have hsz' : l.size = maxLen := by omega
      rw [sliceFromLocation_of_LocOk hok, hsz']
      simp only
      cases hm : memchr d (slice F r.lo maxLen) with
      | none => exact ⟨g1, Or.inl rfl⟩
      | some len =>
        simp only
        have hlen := memchr_of_take (l := F.drop r.lo) (m := maxLen) (by simpa [slice] using hm)
        refine ⟨?_, Or.inl (by rw [slice_take F r.lo maxLen len (by omega)])⟩
        obtain ⟨i1, i2, i3, i4, i5, i6⟩ := g1
        refine ⟨i1, i2, i3, i4, i5, ?_⟩
        intro e he
        simp only [List.mem_cons] at he
        rcases he with he | he
        · subst he
          refine ⟨?_, hlen.1⟩
          obtain ⟨b, b1, b2, b3⟩ := hok
          refine ⟨b, b1, by simp only; omega, ?_⟩
          simp only
          have : (b.drop l.off).take len = ((b.drop l.off).take l.size).take len := by
            rw [List.take_take]; congr 1; omega
          rw [this, b3, hsz', slice_take F r.lo maxLen len (by omega)]
        · exact i6 e he
    · subst he
      simp only
      exact ⟨g1, Or.inr ⟨trivial, hst, by omega, by omega, hfail⟩⟩

/-- the source failed on the buffer this call has to read -/
def SrcFails (c : Cfg) (F : List UInt8) : Op → Prop
  | .read o n => 0 < n ∧ o + n ≤ F.length ∧ SrcFailsIn c F o (o + n)
  | .until_ r _ => r.lo < r.hi ∧ r.hi ≤ F.length ∧
      SrcFailsIn c F r.lo (r.lo + min (r.hi - r.lo) maxLenInclDelim)
  | .into _ _ => False

/-- **Step lemma.** From any state satisfying the invariant, a public call re-establishes the invariant and
returns exactly what the file (and, for the uncached `read_bytes_into`, the source) dictates — or the
source's failure on the buffer it had to read, leaving the state unchanged. -/
theorem step_spec (c : Cfg) (F : List UInt8) (hc : 0 < c.chunk) (hsz : F.length < U64)
    (hf : Faithful F c.src) (st : St) (hinv : Inv F st) (op : Op) :
    Inv F (step c st op).1 ∧
    ((step c st op).2 = spec F c.src op ∨
     ((step c st op).2 = .err .source ∧ (step c st op).1 = st ∧ SrcFails c F op)) := by
  cases op with
  | read o n => exact readBytesAt_spec c F hc hsz hf st hinv o n
  | until_ r d => exact readBytesAtUntil_spec c F hc hsz hf st hinv r d
  | into o n =>
    simp only [step, readBytesInto, spec]
    cases c.src o n <;> exact ⟨hinv, Or.inl rfl⟩

theorem srcFails_not_ok {c : Cfg} {F : List UInt8} (hok : SourceOk F c.src) (op : Op) : ¬ SrcFails c F op := by
  intro h
  have key : ∀ lo hi, ¬ SrcFailsIn c F lo hi := by
    intro lo hi ⟨o, n, h1, _, _, _, _, h6⟩
    have := hok o n h6
    rw [h1] at this; cases this
  cases op with
  | read o n => exact key _ _ h.2.2
  | until_ r d => exact key _ _ h.2.2
  | into o n => exact h

/-- every state reached by a history of public calls satisfies the invariant -/
theorem foldl_inv (c : Cfg) (F : List UInt8) (hc : 0 < c.chunk) (hsz : F.length < U64)
    (hf : Faithful F c.src) (ops : List Op) (st : St) (hinv : Inv F st) :
    Inv F (ops.foldl (fun st op => (step c st op).1) st) := by
  induction ops generalizing st with
  | nil => exact hinv
  | cons op ops ih => exact ih _ (step_spec c F hc hsz hf st hinv op).1

theorem run_inv (c : Cfg) (F : List UInt8) (hc : 0 < c.chunk) (hsz : F.length < U64)
    (hf : Faithful F c.src) (ops : List Op) : Inv F (run c F.length ops) :=
  foldl_inv c F hc hsz hf ops _ (inv_init F)

theorem faithful_srcOf (F : List UInt8) : Faithful F (srcOf F) := by
  intro o n bs h1 h2
  simp only [srcOf, h1, if_true, Option.some.injEq] at h2
  exact h2.symm

theorem sourceOk_srcOf (F : List UInt8) : SourceOk F (srcOf F) := by
  intro o n h; simp [srcOf, h]

/-- buffers are append-only (what keeps slices handed out earlier valid in the `FrozenVec`) -/
theorem getRangeLocation_append (c : Cfg) (st : St) (r : Range) :
    ∃ ext, (getRangeLocation c st r).1.buffers = st.buffers ++ ext := by
  have nil : ∃ ext, st.buffers = st.buffers ++ ext := ⟨[], (List.append_nil _).symm⟩
  unfold getRangeLocation
  cases determineRangeSourcing c.chunk st.mgr r with
  | panic => exact nil
  | err e => exact nil
  | ok s =>
    cases s with
    | existing l => exact nil
    | needNew rr =>
      simp only
      by_cases h1 : rr.lo ≤ rr.hi
      · simp only [h1, not_true_eq_false, if_false]
        cases c.src rr.lo (rr.hi - rr.lo) with
        | none => exact nil
        | some buf =>
          simp only
          by_cases h2 : buf.length = rr.hi - rr.lo
          · simp only [h2, ne_eq, not_true_eq_false, if_false]
            cases insertBufferRange st.mgr rr st.bufferCount with
            | none => exact nil
            | some m =>
              simp only
              by_cases h3 : r.lo < rr.lo
              · simp only [h3, if_true]; exact ⟨[buf], rfl⟩
              · simp only [h3, if_false]; exact ⟨[buf], rfl⟩
          · simp only [ne_eq, h2, not_false_eq_true, if_true]; exact nil
      · simp only [h1, not_false_eq_true, if_true]; exact nil

theorem step_append (c : Cfg) (st : St) (op : Op) :
    ∃ ext, (step c st op).1.buffers = st.buffers ++ ext := by
  cases op with
  | read o n =>
    simp only [step, readBytesAt]
    have := getRangeLocation_append c st ⟨o, o + n⟩
    generalize getRangeLocation c st ⟨o, o + n⟩ = res at this ⊢
    obtain ⟨st', out⟩ := res
    obtain ⟨ext, hext⟩ := this
    simp only at hext
    repeat' split
    all_goals first
      | (refine ⟨[], ?_⟩; simp; done)
      | (refine ⟨ext, ?_⟩; simp_all; done)
  | until_ r d =>
    simp only [step, readBytesAtUntil]
    have := getRangeLocation_append c st ⟨r.lo, r.lo + min (r.hi - r.lo) maxLenInclDelim⟩
    generalize getRangeLocation c st ⟨r.lo, r.lo + min (r.hi - r.lo) maxLenInclDelim⟩ = res at this ⊢
    obtain ⟨st', out⟩ := res
    obtain ⟨ext, hext⟩ := this
    simp only at hext
    repeat' split
    all_goals first
      | (refine ⟨[], ?_⟩; simp; done)
      | (refine ⟨ext, ?_⟩; simp_all; done)
  | into o n =>
    simp only [step, readBytesInto]
    split <;> exact ⟨[], by simp⟩

end CC
