import SamplyModel.Model.ObjectFile
import SamplyModel.Lemmas.SymbolList
/-!
Lemmas about the object-file presentation layer (C05): the `.pdata` decoder, the fuel of the
LC_FUNCTION_STARTS loop, and what `mapOf` hands to the lookup.
-/
namespace ObjFile
open SymLookup SymList

theorem short_of_no_chunk (b : List UInt8)
    (h : ∀ (b0 b1 b2 b3 b4 b5 b6 b7 b8 b9 b10 b11 : UInt8) (rest : List UInt8),
      b = b0 :: b1 :: b2 :: b3 :: b4 :: b5 :: b6 :: b7 :: b8 :: b9 :: b10 :: b11 :: rest → False) : b.length < 12 := by
  match b with
  | [] => simp
  | [_] => simp
  | [_, _] => simp
  | [_, _, _] => simp
  | [_, _, _, _] => simp
  | [_, _, _, _, _] => simp
  | [_, _, _, _, _, _] => simp
  | [_, _, _, _, _, _, _] => simp
  | [_, _, _, _, _, _, _, _] => simp
  | [_, _, _, _, _, _, _, _, _] => simp
  | [_, _, _, _, _, _, _, _, _, _] => simp
  | [_, _, _, _, _, _, _, _, _, _, _] => simp
  | b0 :: b1 :: b2 :: b3 :: b4 :: b5 :: b6 :: b7 :: b8 :: b9 :: b10 :: b11 :: rest =>
    exact absurd rfl (h b0 b1 b2 b3 b4 b5 b6 b7 b8 b9 b10 b11 rest)

theorem pdataAddrs_length (b : List UInt8) : (pdataAddrs b).length = b.length / 12 := by
  fun_induction pdataAddrs b with
  | case1 b0 b1 b2 b3 b4 b5 b6 b7 b8 b9 b10 b11 rest ih =>
    simp only [List.length_cons, ih]
    omega
  | case2 b h =>
    have := short_of_no_chunk b h
    simp only [List.length_nil]
    omega

/-- entry `k` of the result is decoded from the bytes at offset `12 * k` -/
theorem pdataAddrs_drop (b : List UInt8) (k : Nat) : (pdataAddrs b).drop k = pdataAddrs (b.drop (12 * k)) := by
  induction k generalizing b with
  | zero => simp
  | succ k ih =>
    fun_cases pdataAddrs b with
    | case1 b0 b1 b2 b3 b4 b5 b6 b7 b8 b9 b10 b11 rest =>
      have : 12 * (k + 1) = 12 * k + 12 := by omega
      rw [this]
      simp only [List.drop_succ_cons, ih rest]
    | case2 =>
      rename_i hnc
      have hlen := short_of_no_chunk b hnc
      have hd : b.drop (12 * (k + 1)) = [] := List.drop_eq_nil_of_le (by omega)
      rw [hd]
      simp [pdataAddrs]

/-- more fuel than bytes + 1 changes nothing: every decoded delta consumes at least one byte -/
theorem machoStartsFrom_fuel (bytes : List UInt8) : ∀ (fuel extra prev : Nat), bytes.length < fuel →
    machoStartsFrom (fuel + extra) bytes prev = machoStartsFrom fuel bytes prev := by
  intro fuel
  induction fuel generalizing bytes with
  | zero => intro _ _ h; omega
  | succ f ih =>
    intro extra prev h
    have : f + 1 + extra = (f + extra) + 1 := by omega
    rw [this]
    unfold machoStartsFrom
    cases hr : readUleb128 bytes with
    | none => rfl
    | some p =>
      obtain ⟨delta, rest⟩ := p
      have hlen := readUlebFrom_length bytes 0 0 delta rest hr
      simp only
      split
      · rfl
      · split
        · rfl
        · rw [ih rest extra (prev + delta) (by omega)]

/-- what `mapOf` returns is a `build` of a description together with that description's base -/
theorem mapOf_spec {p : Pres} {m : ObjMap} (h : mapOf p = some m) :
    ∃ d, descOf p = some d ∧ buildSafe d = true ∧ m = ⟨build d, d.base, rangesOf p⟩ := by
  unfold mapOf at h
  split at h
  · simp at h
  next d hd =>
    split at h
    next hb =>
      injection h with h
      exact ⟨d, hd, hb, h.symm⟩
    · simp at h

end ObjFile
