import SamplyModel.Model.ObjectFile
import SamplyModel.Lemmas.SymbolList
/-!
Lemmas about the object-file presentation layer (C05): the `.pdata` decoder, the fuel of the
LC_FUNCTION_STARTS loop, and what `mapOf` hands to the lookup.
-/
namespace ObjFile
open SymLookup SymList

theorem short_of_no_chunk (b : List UInt8)
    (h : ∀ (b0 b1 b2 b3 b4 b5 b6 b7 b8 b9 b10 b11 : UInt8) (rest : List UInt8),
      b = b0 :: b1 :: b2 :: b3 :: b4 :: b5 :: b6 :: b7 :: b8 :: b9 :: b10 :: b11 :: rest → False) : b.length < 12 := by
  match b with
  | [] => simp
  | [_] => simp
  | [_, _] => simp
  | [_, _, _] => simp
  | [_, _, _, _] => simp
  | [_, _, _, _, _] => simp
  | [_, _, _, _, _, _] => simp
  | [_, _, _, _, _, _, _] => simp
  | [_, _, _, _, _, _, _, _] => simp
  | [_, _, _, _, _, _, _, _, _] => simp
  | [_, _, _, _, _, _, _, _, _, _] => simp
  | [_, _, _, _, _, _, _, _, _, _, _] => simp
  | b0 :: b1 :: b2 :: b3 :: b4 :: b5 :: b6 :: b7 :: b8 :: b9 :: b10 :: b11 :: rest =>
    exact absurd rfl (h b0 b1 b2 b3 b4 b5 b6 b7 b8 b9 b10 b11 rest)

theorem pdataAddrs_length (b : List UInt8) : (pdataAddrs b).length = b.length / 12 := by
  fun_induction pdataAddrs b with
  | case1 b0 b1 b2 b3 b4 b5 b6 b7 b8 b9 b10 b11 rest ih =>
    simp only [List.length_cons, ih]
    omega
  | case2 b h =>
    have := short_of_no_chunk b h
    simp only [List.length_nil]
    omega

/-- entry `k` of the result is decoded from the bytes at offset `12 * k` -/
theorem pdataAddrs_drop (b : List UInt8) (k : Nat) : (pdataAddrs b).drop k = pdataAddrs (b.drop (12 * k)) := by
  induction k generalizing b with
  | zero => simp
  | succ k ih =>
    fun_cases pdataAddrs b with
    | case1 b0 b1 b2 b3 b4 b5 b6 b7 b8 b9 b10 b11 rest =>
      have : 12 * (k + 1) = 12 * k + 12 := by omega
      rw [this]
      simp only [List.drop_succ_cons, ih rest]
    | case2 =>
      rename_i hnc
      have hlen := short_of_no_chunk b hnc
      have hd : b.drop (12 * (k + 1)) = [] := List.drop_eq_nil_of_le (by omega)
      rw [hd]
      simp [pdataAddrs]

/-- more fuel than bytes + 1 changes nothing: every decoded delta consumes at least one byte -/
theorem machoStartsFrom_fuel (bytes : List UInt8) : ∀ (fuel extra prev : Nat), bytes.length < fuel →
    machoStartsFrom (fuel + extra) bytes prev = machoStartsFrom fuel bytes prev := by
  intro fuel
  induction fuel generalizing bytes with
  | zero => intro _ _ h; omega
  | succ f ih =>
    intro extra prev h
    have : f + 1 + extra = (f + extra) + 1 := by omega
    rw [this]
    unfold machoStartsFrom
    cases hr : readUleb128 bytes with
    | none => rfl
    | some p =>
      obtain ⟨delta, rest⟩ := p
      have hlen := readUlebFrom_length bytes 0 0 delta rest hr
      simp only
      split
      · rfl
      · split
        · rfl
        · rw [ih rest extra (prev + delta) (by omega)]

/-- what `mapOf` returns is a `build` of a description together with that description's base -/
theorem mapOf_spec {p : Pres} {m : ObjMap} (h : mapOf p = some m) :
    ∃ d, descOf p = some d ∧ buildSafe d = true ∧ m = ⟨build d, d.base, rangesOf p⟩ := by
  unfold mapOf at h
  split at h
  · simp at h
  next d hd =>
    split at h
    next hb =>
      injection h with h
      exact ⟨d, hd, hb, h.symm⟩
    · simp at h

/-! ### LC_FUNCTION_STARTS: decoding inverts the standard encoding -/

/-- the standard ULEB128 encoder (specification side) -/
def ulebEncode (n : Nat) : List UInt8 :=
  if h : n < 128 then [UInt8.ofNat n] else UInt8.ofNat (n % 128 + 128) :: ulebEncode (n / 128)
termination_by n
decreasing_by omega

theorem or_shift_split (n shift : Nat) :
    ((n % 128) <<< shift) ||| ((n / 128) <<< (shift + 7)) = n <<< shift := by
  have h1 : (n % 128) <<< shift < 2 ^ (shift + 7) := by
    rw [Nat.shiftLeft_eq, Nat.pow_add, Nat.mul_comm]
    exact Nat.mul_lt_mul_of_pos_left (Nat.mod_lt _ (by decide)) (Nat.two_pow_pos _)
  rw [Nat.or_comm, ← Nat.shiftLeft_add_eq_or_of_lt h1]
  simp only [Nat.shiftLeft_eq, Nat.pow_add]
  have : n = 128 * (n / 128) + n % 128 := (Nat.div_add_mod n 128).symm
  generalize 2 ^ shift = p at *
  generalize n / 128 = q at *
  generalize n % 128 = r at *
  subst this
  simp [Nat.mul_add, Nat.mul_comm, Nat.mul_left_comm]

theorem readUlebFrom_encode (rest : List UInt8) : ∀ (n shift result : Nat), n * 2 ^ shift < U64 → shift ≤ 63 →
    readUlebFrom (ulebEncode n ++ rest) shift result = some (result ||| (n <<< shift), rest) := by
  intro n
  induction n using Nat.strongRecOn with
  | _ n ih =>
    intro shift result hb hs
    unfold ulebEncode
    split
    next hlt =>
      simp only [List.singleton_append]
      unfold readUlebFrom
      have hto : (UInt8.ofNat n).toNat = n := by simp [UInt8.toNat_ofNat']; omega
      have hcheck : ¬ (shift = 63 ∧ UInt8.ofNat n ≠ 0 ∧ UInt8.ofNat n ≠ 1) := by
        rintro ⟨rfl, h0, h1⟩
        have : n < 2 := by
          unfold U64 at hb
          omega
        rcases (by omega : n = 0 ∨ n = 1) with rfl | rfl
        · exact h0 rfl
        · exact h1 rfl
      rw [if_neg hcheck]
      simp only [hto]
      rw [if_pos hlt, Nat.mod_eq_of_lt hlt, Nat.mod_eq_of_lt (by rw [Nat.shiftLeft_eq]; exact hb)]
    next hge =>
      simp only [List.cons_append]
      unfold readUlebFrom
      have hto : (UInt8.ofNat (n % 128 + 128)).toNat = n % 128 + 128 := by simp [UInt8.toNat_ofNat']; omega
      have hs' : shift ≤ 56 := by
        rcases Nat.lt_or_ge 56 shift with h | h
        · exfalso
          have h57 : 2 ^ 57 ≤ 2 ^ shift := Nat.pow_le_pow_right (by decide) h
          have : 128 * 2 ^ 57 ≤ n * 2 ^ shift := Nat.mul_le_mul (by omega) h57
          unfold U64 at hb
          omega
        · exact h
      rw [if_neg (by omega)]
      simp only [hto]
      rw [if_neg (by omega)]
      have hmod : (n % 128 + 128) % 128 = n % 128 := by omega
      rw [hmod]
      have hsm : (n % 128) <<< shift < U64 := by
        rw [Nat.shiftLeft_eq]
        have : n % 128 ≤ n := Nat.mod_le _ _
        exact Nat.lt_of_le_of_lt (Nat.mul_le_mul_right _ this) hb
      rw [Nat.mod_eq_of_lt hsm]
      have hb' : n / 128 * 2 ^ (shift + 7) < U64 := by
        rw [Nat.pow_add]
        have : n / 128 * (2 ^ shift * 2 ^ 7) = (n / 128 * 128) * 2 ^ shift := by
          simp [Nat.mul_comm, Nat.mul_left_comm]
        rw [this]
        have : n / 128 * 128 ≤ n := Nat.div_mul_le_self n 128
        exact Nat.lt_of_le_of_lt (Nat.mul_le_mul_right _ this) hb
      rw [ih (n / 128) (by omega) (shift + 7) _ hb' (by omega), Nat.or_assoc, or_shift_split]

/-- decoding inverts the standard encoder for every `u64` value, whatever follows -/
theorem readUleb128_encode (n : Nat) (hn : n < U64) (rest : List UInt8) :
    readUleb128 (ulebEncode n ++ rest) = some (n, rest) := by
  have := readUlebFrom_encode rest n 0 0 (by simpa using hn) (by omega)
  simpa [readUleb128] using this
theorem ulebEncode_length_pos (n : Nat) : 0 < (ulebEncode n).length := by
  unfold ulebEncode
  split <;> simp

/-- running sums of the deltas -/
def runningSums (prev : Nat) : List Nat → List Nat
  | [] => []
  | d :: ds => (prev + d) :: runningSums (prev + d) ds

theorem machoStartsFrom_encode (junk : List UInt8) : ∀ (ds : List Nat) (prev fuel : Nat),
    (∀ d ∈ ds, 0 < d) → prev + ds.sum < U64 →
    ((ds.flatMap ulebEncode) ++ 0 :: junk).length < fuel →
    machoStartsFrom fuel ((ds.flatMap ulebEncode) ++ 0 :: junk) prev = some ((runningSums prev ds).map (· % U32)) := by
  intro ds
  induction ds with
  | nil =>
    intro prev fuel _ _ hf
    cases fuel with
    | zero => simp at hf
    | succ f =>
      have h0 : readUleb128 (0 :: junk) = some (0, junk) := by
        have := readUleb128_encode 0 (by decide) junk
        simpa [ulebEncode] using this
      simp [machoStartsFrom, h0, runningSums]
  | cons d ds ih =>
    intro prev fuel hpos hsum hf
    have hd := hpos d (by simp)
    simp only [List.sum_cons] at hsum
    cases fuel with
    | zero => simp at hf
    | succ f =>
      simp only [List.flatMap_cons, List.append_assoc]
      have hr := readUleb128_encode d (by omega) ((ds.flatMap ulebEncode) ++ 0 :: junk)
      unfold machoStartsFrom
      rw [hr]
      simp only
      rw [if_neg (by omega), if_neg (by omega)]
      have hlen := ulebEncode_length_pos d
      rw [ih (prev + d) f (fun x hx => hpos x (List.mem_cons_of_mem _ hx)) (by omega)
        (by simp only [List.flatMap_cons, List.append_assoc, List.length_append] at hf ⊢; omega)]
      simp [runningSums]

/-- `get_function_starts` on the standard encoding of a list of non-zero deltas followed by the zero terminator (and
anything after it): the running sums, each truncated to `u32` -/
theorem machoStarts_encode (ds : List Nat) (junk : List UInt8) (hpos : ∀ d ∈ ds, 0 < d) (hsum : ds.sum < U64) :
    machoStarts ((ds.flatMap ulebEncode) ++ 0 :: junk) = some ((runningSums 0 ds).map (· % U32)) := by
  unfold machoStarts
  exact machoStartsFrom_encode junk ds 0 _ hpos (by omega) (by omega)
end ObjFile
