import SamplyModel.Lemmas.ConvElide
/-!
Under time-ordered delivery of MMAP2 and SAMPLE records the spec-side reading of samply's present queue mechanism
(`ExpSample.legacyQ`: queue *prefix* against the running maximum of the buffer's sample times) coincides with the
statement's reading (cut-off by timestamp): the judge's `[backdated-record]` tag is never attached inside
`queuedOrdered` (convD2).
-/
namespace Conv
open ConvSpec

theorem takeWhile_eq_filter {α} (p : α → Bool) (l : List α)
    (h : l.Pairwise (fun a b => p b = true → p a = true)) : l.takeWhile p = l.filter p := by
  induction l with
  | nil => rfl
  | cons x xs ih =>
    have hp := List.pairwise_cons.mp h
    rw [List.takeWhile_cons, List.filter_cons]
    cases hx : p x with
    | true => simp only [if_true]; rw [ih hp.2]
    | false =>
      simp only [Bool.false_eq_true, if_false]
      symm
      rw [List.filter_eq_nil_iff]
      intro y hy hpy
      have := hp.1 y hy hpy
      rw [hx] at this; cases this

/-- the announcements the rest of the history makes for `pid` carry timestamps from `T` on, in order -/
theorem laterAnn_sorted (legacy : Bool) (cfg : Config) (pid : Nat) (rest : List Rec) :
    ∀ T, orderedFrom T rest = true →
      SortedQ (laterAnn legacy cfg pid none rest) ∧ ∀ o ∈ laterAnn legacy cfg pid none rest, T ≤ o.1 := by
  induction rest with
  | nil => intro T _; exact ⟨List.Pairwise.nil, fun o ho => by cases ho⟩
  | cons r rest ih =>
    intro T ho
    cases r with
    | mmap2 p td addr len pgoff exec path t' =>
      cases exec with
      | false =>
        have ho' : orderedFrom T rest = true := by simpa [orderedFrom, queuedTime] using ho
        simpa [laterAnn] using ih T ho'
      | true =>
        simp only [orderedFrom, queuedTime, Bool.and_eq_true, decide_eq_true_eq] at ho
        obtain ⟨i1, i2⟩ := ih t' ho.2
        simp only [laterAnn]
        split
        · refine ⟨?_, ?_⟩
          · unfold SortedQ
            rw [List.pairwise_append]
            refine ⟨?_, i1, ?_⟩
            · unfold annOf
              split
              · exact List.pairwise_singleton _ _
              · exact mapOps_sorted _ _ _ _ _ _
            · intro a ha b hb
              rw [annOf_time _ _ _ _ _ _ a ha]
              exact i2 b hb
          · intro o ho'
            rcases List.mem_append.mp ho' with ho' | ho'
            · rw [annOf_time _ _ _ _ _ _ o ho']; exact ho.1
            · exact Nat.le_trans ho.1 (i2 o ho')
        · exact ⟨i1, fun o ho' => Nat.le_trans ho.1 (i2 o ho')⟩
    | sample p td t km pe ip chain =>
      simp only [laterAnn]
      by_cases h0 : td = 0
      · have ho' : orderedFrom T rest = true := by simpa [orderedFrom, queuedTime, h0] using ho
        exact ih T ho'
      · simp only [orderedFrom, queuedTime, h0, if_false, Bool.and_eq_true, decide_eq_true_eq] at ho
        obtain ⟨i1, i2⟩ := ih t ho.2
        exact ⟨i1, fun o ho' => Nat.le_trans ho.1 (i2 o ho')⟩
    | exit p td t' =>
      have ho' : orderedFrom T rest = true := by simpa [orderedFrom, queuedTime] using ho
      simp only [laterAnn]
      split
      · exact ⟨List.Pairwise.nil, fun o ho => by cases ho⟩
      · exact ih T ho'
    | comm p td nm ex t' =>
      have ho' : orderedFrom T rest = true := by simpa [orderedFrom, queuedTime] using ho
      cases ex with
      | false => simpa [laterAnn] using ih T ho'
      | true =>
        simp only [laterAnn]
        split
        · exact ⟨List.Pairwise.nil, fun o ho => by cases ho⟩
        · exact ih T ho'
    | fork =>
      have ho' : orderedFrom T rest = true := by simpa [orderedFrom, queuedTime] using ho
      simpa [laterAnn] using ih T ho'
    | switchIn =>
      have ho' : orderedFrom T rest = true := by simpa [orderedFrom, queuedTime] using ho
      simpa [laterAnn] using ih T ho'
    | switchOut =>
      have ho' : orderedFrom T rest = true := by simpa [orderedFrom, queuedTime] using ho
      simpa [laterAnn] using ih T ho'
    | sched =>
      have ho' : orderedFrom T rest = true := by simpa [orderedFrom, queuedTime] using ho
      simpa [laterAnn] using ih T ho'
    | otherEvent p td t km ip chain =>
      simp only [laterAnn]
      simp only [orderedFrom, queuedTime, Bool.and_eq_true, decide_eq_true_eq] at ho
      obtain ⟨i1, i2⟩ := ih t ho.2
      exact ⟨i1, fun o ho' => Nat.le_trans ho.1 (i2 o ho')⟩

/-- the queue-prefix reading equals the timestamp reading when everything announced so far is at or before `t` and
the later announcements are in time order from `t` on -/
theorem takeWhileLe_filter (a later : Announced) (t : Nat) (ha : ∀ o ∈ a, o.1 ≤ t) (hs : SortedQ later) :
    (takeWhileLe (a ++ later) t).filter (fun e => decide (e.1 ≤ t)) = (a ++ later).filter (fun e => decide (e.1 ≤ t)) := by
  unfold takeWhileLe
  have hpw : (a ++ later).Pairwise (fun x y => decide (y.1 ≤ t) = true → decide (x.1 ≤ t) = true) := by
    rw [List.pairwise_append]
    refine ⟨?_, ?_, ?_⟩
    · exact List.Pairwise.imp_of_mem (R := fun _ _ => True)
        (fun {x y} hx _ _ _ => by simpa using ha x hx) (List.pairwise_of_forall (fun _ _ => trivial))
    · exact List.Pairwise.imp (fun {x y} hxy hy => by
        simp only [decide_eq_true_eq] at hy ⊢; exact Nat.le_trans hxy hy) hs
    · intro x hx y _ _
      simpa using ha x hx
  rw [takeWhile_eq_filter _ _ hpw, List.filter_filter]
  congr 1
  funext e
  simp

def nextT (T : Nat) (r : Rec) : Nat :=
  match queuedTime r with
  | some t => t
  | none => T

theorem orderedFrom_cons {T : Nat} {r : Rec} {rest : List Rec} (h : orderedFrom T (r :: rest) = true) :
    T ≤ nextT T r ∧ orderedFrom (nextT T r) rest = true := by
  unfold nextT
  cases hq : queuedTime r with
  | none => simp only [orderedFrom, hq] at h; exact ⟨Nat.le_refl _, h⟩
  | some t =>
    simp only [orderedFrom, hq, Bool.and_eq_true, decide_eq_true_eq] at h
    exact h

theorem ann_bound (cfg : Config) (st : List (Nat × Announced)) (r : Rec) (T : Nat)
    (hb : ∀ pid, ∀ o ∈ (alGet st pid).getD [], o.1 ≤ T) (hle : T ≤ nextT T r) :
    ∀ pid, ∀ o ∈ (alGet (annStepX false cfg st r) pid).getD [], o.1 ≤ nextT T r := by
  have hb' : ∀ pid, ∀ o ∈ (alGet st pid).getD [], o.1 ≤ nextT T r :=
    fun pid o ho => Nat.le_trans (hb pid o ho) hle
  cases r with
  | fork pid' tid' ppid ptid t =>
    simp only [annStepX]
    split
    · intro pid o ho
      rw [getD_alPut] at ho
      split at ho
      · exact hb' ppid o ho
      · exact hb' pid o ho
    · exact hb'
  | exit pid' tid' t =>
    simp only [annStepX]
    split
    · intro pid o ho
      rw [getD_alDel] at ho
      split at ho
      · cases ho
      · exact hb' pid o ho
    · exact hb'
  | comm pid' tid' nm ex t =>
    cases ex with
    | false => exact hb'
    | true =>
      simp only [annStepX]
      split
      · intro pid o ho
        rw [getD_alDel] at ho
        split at ho
        · cases ho
        · exact hb' pid o ho
      · exact hb'
  | mmap2 pid' tid' addr len pgoff exec path t =>
    cases exec with
    | false => exact hb'
    | true =>
      have hn : nextT T (.mmap2 pid' tid' addr len pgoff true path t) = t := rfl
      simp only [annStepX, Bool.false_and, Bool.false_eq_true, if_false]
      intro pid o ho
      rw [getD_alPut] at ho
      split at ho
      · rcases List.mem_append.mp ho with ho | ho
        · exact hb' pid' o ho
        · rw [annOf_time _ _ _ _ _ _ o ho, hn]; exact Nat.le_refl _
      · exact hb' pid o ho
  | sample => exact hb'
  | switchIn => exact hb'
  | switchOut => exact hb'
  | sched => exact hb'
  | otherEvent => exact hb'

theorem expectedSamples_go_legacyQ (cfg : Config) (rs : List Rec) :
    ∀ (st : List (Nat × Announced)) (mx : List (Nat × Nat)) (last : Last) (T : Nat),
      noSpecial rs = true → orderedFrom T rs = true →
      (∀ pid, ∀ o ∈ (alGet st pid).getD [], o.1 ≤ T) → (∀ pid, (alGet mx pid).getD 0 ≤ T) →
      ∀ e ∈ expectedSamples.go cfg st st mx last rs, e.legacyQ = e.frames := by
  induction rs with
  | nil => intro st mx last T _ _ _ _ e he; simp [expectedSamples.go] at he
  | cons r rest ih =>
    intro st mx last T h ho hb hm e he
    have h1 : noSpecial [r] = true := by
      simp only [noSpecial, List.all_cons, Bool.and_eq_true] at h ⊢
      exact ⟨h.1, by simp⟩
    have h2 : noSpecial rest = true := by
      simp only [noSpecial, List.all_cons, Bool.and_eq_true] at h ⊢
      exact h.2
    obtain ⟨hle, ho'⟩ := orderedFrom_cons ho
    have hb' := ann_bound cfg st r T hb hle
    have hmx : ∀ mx' : List (Nat × Nat), (∀ pid, (alGet mx' pid).getD 0 ≤ T) →
        ∀ pid, (alGet mx' pid).getD 0 ≤ nextT T r := fun mx' hh pid => Nat.le_trans (hh pid) hle
    have hmdel : ∀ k, ∀ pid, (alGet (alDel mx k) pid).getD 0 ≤ T := by
      intro k pid
      rw [getD_alDel]
      split
      · exact Nat.zero_le _
      · exact hm pid
    unfold expectedSamples.go at he
    dsimp only at he
    rw [annStepX_noSpecial cfg st r h1] at he
    split at he
    · next pid tid t km pe ip chain x heq =>
      have h0 : tid ≠ 0 := by
        intro h0
        simp [accStep, h0] at heq
      have hn : nextT T (.sample pid tid t km pe ip chain) = t := by simp [nextT, queuedTime, h0]
      rw [hn] at hle ho' hb'
      have hteff : max ((alGet mx pid).getD 0) t = t := Nat.max_eq_right (Nat.le_trans (hm pid) hle)
      rcases List.mem_cons.mp he with rfl | he
      · simp only [hteff]
        congr 1
        apply List.map_congr_left
        intro f _
        apply expectInfo_filter_congr
        obtain ⟨ls, _⟩ := laterAnn_sorted true cfg pid rest t ho'
        rw [takeWhileLe_filter _ _ t (fun o ho'' => Nat.le_trans (hb pid o ho'') hle) ls,
          List.filter_append, List.filter_append, ← laterAnn_filter, laterAnn_noSpecial cfg pid (some t) rest h2]
      · refine ih _ _ _ t h2 ho' hb' ?_ e he
        intro pid'
        rw [hteff, getD_alPut]
        split
        · exact Nat.le_refl _
        · exact Nat.le_trans (hm pid') hle
    · refine ih _ _ _ _ h2 ho' hb' ?_ e he
      intro pid'
      split
      · split
        · exact Nat.le_trans (hmdel _ pid') hle
        · exact hmx mx hm pid'
      · split
        · exact Nat.le_trans (hmdel _ pid') hle
        · exact hmx mx hm pid'
      · exact hmx mx hm pid'

/-- inside `noSpecial` and `queuedOrdered` the queue-prefix reading `legacyQ` is the statement's reading -/
theorem expectedSamples_legacyQ (cfg : Config) (rs : List Rec) (h1 : noSpecial rs = true)
    (h2 : queuedOrdered rs = true) : ∀ e ∈ expectedSamples cfg rs, e.legacyQ = e.frames :=
  expectedSamples_go_legacyQ cfg rs [] [] [] 0 h1 h2 (fun _ o ho => by cases ho) (fun _ => Nat.le_refl _)

end Conv
