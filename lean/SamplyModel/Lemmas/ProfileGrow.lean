import SamplyModel.Lemmas.ProfileCanon
/-!
Append-only: no operation ever changes an existing row of a stack table or an existing frame key;
the tables of every thread only grow at the end (`Grow p (step p op).1`).
-/
namespace PT

abbrev Proj := List (Option Nat) × List Nat × List Frame

def TProj (t : Thread) : Proj := (t.stacks.prefixes, t.stacks.frames, t.frames.keys)

def ProjLe (a b : Proj) : Prop := a.1 <+: b.1 ∧ a.2.1 <+: b.2.1 ∧ a.2.2 <+: b.2.2

theorem ProjLe.refl (a : Proj) : ProjLe a a := ⟨List.prefix_refl _, List.prefix_refl _, List.prefix_refl _⟩

theorem ProjLe.trans {a b c : Proj} (h1 : ProjLe a b) (h2 : ProjLe b c) : ProjLe a c :=
  ⟨h1.1.trans h2.1, h1.2.1.trans h2.2.1, h1.2.2.trans h2.2.2⟩

/-- every thread of `p` is still there in `p'`, with its stack rows and frame keys extended at the end -/
def Grow (p p' : P) : Prop :=
  ∀ (i : Nat) (th : Thread), p.threads[i]? = some th →
    ∃ th', p'.threads[i]? = some th' ∧ ProjLe (TProj th) (TProj th')

theorem Grow.refl (p : P) : Grow p p := fun _ th h => ⟨th, h, ProjLe.refl _⟩

theorem Grow.trans {a b c : P} (h1 : Grow a b) (h2 : Grow b c) : Grow a c := by
  intro i th h
  obtain ⟨th', h', l1⟩ := h1 i th h
  obtain ⟨th'', h'', l2⟩ := h2 i th' h'
  exact ⟨th'', h'', l1.trans l2⟩

theorem Grow.of_eq {p p' : P} (h : p'.threads = p.threads) : Grow p p' :=
  fun i th hi => ⟨th, by rw [h]; exact hi, ProjLe.refl _⟩

theorem Grow.setThread (p : P) (t : Nat) (th' : Thread)
    (h : ∀ th, p.threads[t]? = some th → ProjLe (TProj th) (TProj th')) : Grow p (p.setThread t th') := by
  intro i th hi
  simp only [P.setThread]
  by_cases he : t = i
  · subst he
    refine ⟨{ th' with process := th.process, tid := th.tid }, by simp [List.getElem?_modify_eq, hi], h th hi⟩
  · exact ⟨th, by simp only [List.getElem?_modify_ne _ _ he]; exact hi, ProjLe.refl _⟩

theorem Grow.setThread_same {p : P} {t : Nat} {th : Thread} (th' : Thread) (heq : p.threads[t]? = some th)
    (e : TProj th' = TProj th) : Grow p (p.setThread t th') :=
  Grow.setThread p t th' (fun th0 h0 => by rw [heq] at h0; cases h0; rw [e]; exact ProjLe.refl _)

/-! ### helpers leave the thread list alone -/

@[simp] theorem P.handleForCategory_threads (p : P) (n : Str) (c : Nat) :
    (p.handleForCategory n c).1.threads = p.threads := by
  unfold P.handleForCategory
  simp only
  split <;> rfl

@[simp] theorem P.handleForSubcategory_threads (p : P) (c : Nat) (n : Str) :
    (p.handleForSubcategory c n).1.threads = p.threads := by
  unfold P.handleForSubcategory
  split
  · rfl
  · simp only
    split <;> rfl

@[simp] theorem P.resolveSub_threads (p : P) (sc : SubSpec) : (p.resolveSub sc).1.threads = p.threads := by
  cases sc with
  | other => rfl
  | cat c => simp only [P.resolveSub]; split <;> rfl
  | sub c s =>
    simp only [P.resolveSub]
    split
    · split <;> rfl
    · rfl
  | catVal n c => simp [P.resolveSub]
  | subVal n c s =>
    simp only [P.resolveSub]
    split <;> (rename_i h; have := congrArg (fun x => x.1.threads) h; simp at this; simp [← this])

/-! ### table operations extend -/

theorem StackTable.indexFor_prefix (t : StackTable) (pre : Option Nat) (f : Nat) :
    t.prefixes <+: (t.indexFor pre f).1.prefixes ∧ t.frames <+: (t.indexFor pre f).1.frames := by
  unfold StackTable.indexFor
  split
  · exact ⟨List.prefix_refl _, List.prefix_refl _⟩
  · exact ⟨List.prefix_append _ _, List.prefix_append _ _⟩

theorem stackFramesLoop_prefix (t : Nat) : ∀ (frames : List TH) (st : StackTable) (pre : Option Nat),
    st.prefixes <+: (stackFramesLoop t st pre frames).1.prefixes ∧
    st.frames <+: (stackFramesLoop t st pre frames).1.frames
  | [], st, _ => ⟨List.prefix_refl _, List.prefix_refl _⟩
  | f :: fs, st, pre => by
    unfold stackFramesLoop
    split
    · exact ⟨List.prefix_refl _, List.prefix_refl _⟩
    · have h1 := st.indexFor_prefix pre f.2
      have h2 := stackFramesLoop_prefix t fs (st.indexFor pre f.2).1 (some (st.indexFor pre f.2).2)
      exact ⟨h1.1.trans h2.1, h1.2.trans h2.2⟩

theorem FrameTable.indexFor_keys (t : FrameTable) (f : Frame) (g : GlobalLibs) (st : ThreadStrings)
    (r : FrameTable × ThreadStrings × Nat) (h : t.indexFor f g st = some r) : t.keys <+: r.1.keys := by
  unfold FrameTable.indexFor at h
  dsimp only at h
  split at h
  · cases h; exact List.prefix_refl _
  · split at h
    · cases h
    · split at h
      · cases h; exact List.prefix_append _ _
      · split at h
        · cases h; exact List.prefix_append _ _
        · cases h

/-! ### per operation -/

theorem P.internFrame_grow (p : P) (t : Nat) (th th0 : Thread) (st : ThreadStrings) (f : Frame)
    (h0 : p.threads[t]? = some th0) (hs : th.stacks = th0.stacks) (hf : th.frames = th0.frames) :
    Grow p (p.internFrame t th st f).1 := by
  unfold P.internFrame
  cases hi : th.frames.indexFor f p.libs st with
  | none => exact Grow.refl p
  | some r =>
    obtain ⟨ft, st', i⟩ := r
    simp only
    refine Grow.setThread p t _ ?_
    intro th1 h1
    rw [h0] at h1
    cases h1
    have := th.frames.indexFor_keys f p.libs st _ hi
    refine ⟨by simp [TProj, hs], by simp [TProj, hs], ?_⟩
    simp only [TProj]
    rw [← hf]; exact this

theorem P.frameLabel_grow (p : P) (t str : Nat) (src : Option (Option Nat × Option Nat × Option Nat))
    (c s flags : Nat) : Grow p (p.frameLabel t str src c s flags).1 := by
  unfold P.frameLabel
  split
  · rename_i th label hth _
    split
    · exact p.internFrame_grow t th th _ _ hth rfl rfl
    · dsimp only
      split
      · exact Grow.refl p
      · exact p.internFrame_grow t th th _ _ hth rfl rfl
  · exact Grow.refl p

theorem Grow.libs (p : P) (l : GlobalLibs) : Grow p { p with libs := l } := Grow.of_eq rfl

theorem P.frameAddr_grow (p : P) (t : Nat) (a : AddrSpec) (c s flags : Nat) :
    Grow p (p.frameAddr t a c s flags).1 := by
  unfold P.frameAddr
  split
  · exact Grow.refl p
  · rename_i th hth
    split
    · exact Grow.refl p
    · split
      · exact Grow.refl p
      · exact Grow.refl p
      · rename_i libs addr _
        simp only [P.hexString]
        exact (Grow.of_eq (p' := { p with libs := libs, gstrings := (p.gstrings.indexFor (hexStr addr)).1 }) rfl).trans
          (P.internFrame_grow _ t th th _ _ hth rfl rfl)
      · rename_i libs rel lib _
        split
        · split
          · exact Grow.refl p
          · exact (Grow.libs p libs).trans (P.internFrame_grow _ t _ th _ _ hth rfl rfl)
        · simp only [P.hexString]
          exact (Grow.of_eq (p' := { p with libs := libs, gstrings := (p.gstrings.indexFor (hexStr rel)).1 }) rfl).trans
            (P.internFrame_grow _ t th th _ _ hth rfl rfl)

theorem P.symVariant_threads (p : P) (th : Thread) (st : ThreadStrings) (res : AddrRes) (n' : Option Nat)
    (i d : Nat) (r : P × ThreadStrings × Option NativeData × Nat)
    (h : P.symVariant p th st res n' i d = some r) : r.1.threads = p.threads := by
  unfold P.symVariant at h
  split at h
  · split at h
    · cases h; rfl
    · cases h; rfl
  · split at h
    · cases h; rfl
    · split at h
      · cases h; rfl
      · cases h
  · cases h

theorem P.frameSym_grow (p : P) (t : Nat) (a : AddrSpec) (name : Option Nat) (nsym : TH)
    (file line col : Option Nat) (depth c s flags : Nat) :
    Grow p (p.frameSym t a name nsym file line col depth c s flags).1 := by
  unfold P.frameSym
  split
  · exact Grow.refl p
  · split
    · exact Grow.refl p
    · rename_i th hth
      split
      · exact Grow.refl p
      · split
        · exact Grow.refl p
        · exact Grow.refl p
        · rename_i libs res _ _
          split
          · exact Grow.refl p
          · split
            · exact Grow.refl p
            · rename_i p2 st2 variant n hsv
              have hthr := P.symVariant_threads _ _ _ _ _ _ _ _ hsv
              simp only at hthr
              split
              · exact Grow.refl p
              · exact (Grow.of_eq hthr).trans
                  (P.internFrame_grow p2 t th th _ _ (by rw [hthr]; exact hth) rfl rfl)

theorem P.nativeSymbol_grow (p : P) (t lib : Nat) (sym : Sym) : Grow p (p.nativeSymbol t lib sym).1 := by
  unfold P.nativeSymbol
  split
  · exact Grow.refl p
  · rename_i th hth
    split
    · dsimp only
      split
      · exact Grow.refl p
      · exact (Grow.libs p _).trans (Grow.setThread_same _ hth rfl)
    · exact Grow.refl p

theorem P.stack_grow (p : P) (t : Nat) (f : TH) (par : Option TH) : Grow p (p.stack t f par).1 := by
  unfold P.stack
  split
  · exact Grow.refl p
  · rename_i th hth
    have key : ∀ pre fi, Grow p (p.setThread t { th with stacks := (th.stacks.indexFor pre fi).1 }) := by
      intro pre fi
      refine Grow.setThread p t _ ?_
      intro th1 h1
      rw [hth] at h1
      cases h1
      have := th.stacks.indexFor_prefix pre fi
      exact ⟨this.1, this.2, List.prefix_refl _⟩
    split
    · split
      · exact Grow.refl p
      · split
        · exact Grow.refl p
        · exact key _ _
    · split
      · exact Grow.refl p
      · exact key _ _

theorem P.stackFrames_grow (p : P) (t : Nat) (fs : List TH) : Grow p (p.stackFrames t fs).1 := by
  unfold P.stackFrames
  split
  · exact Grow.refl p
  · rename_i th hth
    have key : Grow p (p.setThread t { th with stacks := (stackFramesLoop t th.stacks none fs).1 }) := by
      refine Grow.setThread p t _ ?_
      intro th1 h1
      rw [hth] at h1
      cases h1
      have := stackFramesLoop_prefix t fs th.stacks none
      exact ⟨this.1, this.2, List.prefix_refl _⟩
    cases hl : stackFramesLoop t th.stacks none fs with
    | mk st res =>
      rw [hl] at key
      cases res with
      | none => exact key
      | some o => cases o <;> exact key

theorem P.sample_grow (p : P) (t : Nat) (st : Option TH) (z : Bool) : Grow p (p.sample t st z).1 := by
  unfold P.sample
  split
  · exact Grow.refl p
  · split
    · exact Grow.refl p
    · rename_i th hth; exact Grow.setThread_same _ hth rfl

theorem P.sameSample_grow (p : P) (t : Nat) : Grow p (p.sameSample t).1 := by
  unfold P.sameSample
  split
  · exact Grow.refl p
  · rename_i th hth
    split
    · split <;> exact Grow.refl p
    · exact Grow.setThread_same _ hth rfl

theorem P.allocSample_grow (p : P) (t : Nat) (st : Option TH) : Grow p (p.allocSample t st).1 := by
  unfold P.allocSample
  split
  · exact Grow.refl p
  · split
    · exact Grow.refl p
    · split
      · exact Grow.refl p
      · split
        · exact Grow.refl p
        · split
          · exact Grow.refl p
          · rename_i ft hft; exact Grow.setThread_same _ hft rfl

theorem P.markerTypeOf_threads (p : P) (ty : MType) (r : P × Nat) (h : p.markerTypeOf ty = some r) :
    r.1.threads = p.threads := by
  cases ty with
  | runtime k =>
    simp only [P.markerTypeOf] at h
    split at h
    · cases h; rfl
    · cases h
  | static k =>
    simp only [P.markerTypeOf] at h
    split at h
    · cases h; rfl
    · split at h
      · cases h
      · cases h
        exact P.handleForCategory_threads _ _ _

theorem P.marker_grow (p : P) (t : Nat) (ty : MType) (name : Nat) (strs : List Nat) (tm : MTiming) :
    Grow p (p.marker t ty name strs tm).1 := by
  unfold P.marker
  split
  · exact Grow.refl p
  · rename_i p1 hh hmt
    have hthr := P.markerTypeOf_threads _ _ _ hmt
    simp only at hthr
    split
    · rename_i th _ _ _ hth _ _ _
      dsimp only
      split
      · exact Grow.refl p
      · split
        · exact Grow.refl p
        · exact (Grow.of_eq hthr).trans (Grow.setThread_same _ hth rfl)
    · exact Grow.refl p

theorem P.markerStack_grow (p : P) (t m : Nat) (st : Option TH) : Grow p (p.markerStack t m st).1 := by
  unfold P.markerStack
  split
  · exact Grow.refl p
  · split
    · exact Grow.refl p
    · rename_i th hth
      split
      · exact Grow.refl p
      · exact Grow.setThread_same _ hth rfl

theorem P.withSub_grow (p : P) (sc : SubSpec) (k : P → Nat → Nat → P × Out)
    (hk : ∀ p' c s, Grow p' (k p' c s).1) : Grow p (p.withSub sc k).1 := by
  unfold P.withSub
  split
  · exact Grow.refl p
  · rename_i p' h
    have : p'.threads = p.threads := by
      have := congrArg (fun x => x.1.threads) h
      simpa using this.symm
    exact Grow.of_eq this
  · rename_i p' c s h
    have : p'.threads = p.threads := by
      have := congrArg (fun x => x.1.threads) h
      simpa using this.symm
    split
    · exact Grow.refl p
    · exact (Grow.of_eq this).trans (hk p' c s)

/-- **append-only**: no operation changes an existing stack row or frame key -/
theorem step_grow (p : P) (op : Op) : Grow p (step p op).1 := by
  cases op with
  | addProcess a b c => exact Grow.of_eq rfl
  | addThread a b c d =>
    simp only [step]
    split
    · exact Grow.refl p
    · intro i th hi
      refine ⟨th, ?_, ProjLe.refl _⟩
      simp only
      rw [List.getElem?_append_left (List.getElem?_eq_some_iff.mp hi).1]
      exact hi
  | setTid t tid =>
    simp only [step]
    split
    · exact Grow.refl p
    · intro i th hi
      simp only
      by_cases he : t = i
      · subst he
        exact ⟨{ th with tid := (makeUnique p.usedTids tid).2 }, by simp [List.getElem?_modify_eq, hi], ProjLe.refl _⟩
      · exact ⟨th, by simp only [List.getElem?_modify_ne _ _ he]; exact hi, ProjLe.refl _⟩
  | setName t name =>
    simp only [step]
    split
    · exact Grow.refl p
    · rename_i th hth; exact Grow.setThread_same _ hth rfl
  | setStart t s =>
    simp only [step]
    split
    · exact Grow.refl p
    · rename_i th hth; exact Grow.setThread_same _ hth rfl
  | setPName a b => simp only [step]; split <;> exact Grow.of_eq rfl
  | setPStart a b => simp only [step]; split <;> exact Grow.of_eq rfl
  | addLib a => exact Grow.of_eq rfl
  | libSyms a b => simp only [step]; split <;> exact Grow.of_eq rfl
  | addMapping a b c d e =>
    simp only [step]
    split
    · exact Grow.refl p
    · split
      · split <;> exact Grow.of_eq rfl
      · exact Grow.refl p
  | addKernelMapping a b c d =>
    simp only [step]
    split
    · split <;> exact Grow.of_eq rfl
    · exact Grow.refl p
  | removeKernelMapping a => exact Grow.of_eq rfl
  | removeMapping a b => simp only [step]; split <;> exact Grow.of_eq rfl
  | clearMappings a => simp only [step]; split <;> exact Grow.of_eq rfl
  | string s => exact Grow.of_eq rfl
  | category a b => simp only [step]; exact Grow.of_eq (by simp)
  | subcategory a b =>
    simp only [step]
    split
    · split <;> (rename_i h; exact Grow.of_eq (by have := congrArg (fun x => x.1.threads) h; simpa using this.symm))
    · exact Grow.refl p
  | frameLabel t str src sc fl => simp only [step]; exact p.withSub_grow sc _ (fun p' c s => p'.frameLabel_grow t str src c s fl)
  | frameAddr t a sc fl => simp only [step]; exact p.withSub_grow sc _ (fun p' c s => p'.frameAddr_grow t a c s fl)
  | nativeSymbol t lib sym => simp only [step]; exact p.nativeSymbol_grow t lib sym
  | frameSym t a n ns f l c d sc fl => simp only [step]; exact p.withSub_grow sc _ (fun p' c' s' => p'.frameSym_grow t a n ns f l c d c' s' fl)
  | stack t f par => simp only [step]; exact p.stack_grow t f par
  | stackFrames t fs => simp only [step]; exact p.stackFrames_grow t fs
  | sample t st z => simp only [step]; exact p.sample_grow t st z
  | sameSample t => simp only [step]; exact p.sameSample_grow t
  | allocSample t st => simp only [step]; exact p.allocSample_grow t st
  | markerType a b c => simp only [step]; split <;> exact Grow.of_eq rfl
  | marker t ty n strs tm => simp only [step]; exact p.marker_grow t ty n strs tm
  | markerStack t m st => simp only [step]; exact p.markerStack_grow t m st
  | counter a => simp only [step]; split <;> exact Grow.of_eq rfl
  | counterSample a => simp only [step]; split <;> exact Grow.of_eq rfl
  | visible a => simp only [step]; split <;> exact Grow.of_eq rfl
  | selected a => simp only [step]; split <;> exact Grow.of_eq rfl

theorem run_grow : ∀ (ops : List Op) (p : P), Grow p (ops.foldl (fun p op => (step p op).1) p)
  | [], p => Grow.refl p
  | op :: ops, p => (step_grow p op).trans (run_grow ops _)

end PT
