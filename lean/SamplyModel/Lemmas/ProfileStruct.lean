import SamplyModel.Lemmas.ProfileSerWf
/-!
The process/thread skeleton (`Thread::process`, `Process::threads`) is changed only by `add_process`
and `add_thread`; the structural invariant `SInv` (every thread is listed exactly once, in the thread
list of its own process) follows.
-/
namespace PT

/-- the immutable identity data: process and tid of every thread, thread list and pid of every
process, the two suffix maps -/
def skel (p : P) : List (Nat × IdStr) × List (List Nat × IdStr) × List (Nat × Nat) × List (Nat × Nat) :=
  (p.threads.map (fun t => (t.process, t.tid)), p.processes.map (fun pr => (pr.threads, pr.pid)),
   p.usedPids, p.usedTids)

theorem List.map_modify_of {α β : Type} (g : α → β) (f : α → α) (hf : ∀ x, g (f x) = g x) (l : List α) (i : Nat) :
    (l.modify i f).map g = l.map g := by
  induction l generalizing i with
  | nil => simp
  | cons a as ih =>
    cases i with
    | zero => simp [hf]
    | succ i => simp [ih]

theorem List.map_set_of {α β : Type} (g : α → β) (l : List α) (i : Nat) (x y : α) (hx : l[i]? = some x)
    (hg : g y = g x) : (l.set i y).map g = l.map g := by
  induction l generalizing i with
  | nil => simp
  | cons a as ih =>
    cases i with
    | zero =>
      simp only [List.getElem?_cons_zero, Option.some.injEq] at hx
      subst hx
      simp [hg]
    | succ i =>
      simp only [List.getElem?_cons_succ] at hx
      simp [ih i hx]

@[simp] theorem skel_setThread (p : P) (i : Nat) (t : Thread) : skel (p.setThread i t) = skel p := by
  simp only [skel, P.setThread]
  congr 1
  exact List.map_modify_of (fun x : Thread => (x.process, x.tid))
    (fun old => { t with process := old.process, tid := old.tid }) (fun _ => rfl) _ _

@[simp] theorem skel_libs (p : P) (x : GlobalLibs) : skel { p with libs := x } = skel p := rfl
@[simp] theorem skel_cats (p : P) (x : List Cat) : skel { p with cats := x } = skel p := rfl
@[simp] theorem skel_gstrings (p : P) (x : StringTable) : skel { p with gstrings := x } = skel p := rfl

/-- closes `skel X = skel p` when `X` is `p` updated in fields other than the skeleton -/
macro "skel_leaf" : tactic => `(tactic| first | rfl | (simp <;> rfl))

@[simp] theorem P.handleForCategory_skel (p : P) (n : Str) (c : Nat) : skel (p.handleForCategory n c).1 = skel p := by
  unfold P.handleForCategory
  simp only
  split <;> rfl

@[simp] theorem P.handleForSubcategory_skel (p : P) (c : Nat) (n : Str) :
    skel (p.handleForSubcategory c n).1 = skel p := by
  unfold P.handleForSubcategory
  split
  · rfl
  · simp only
    split <;> rfl

@[simp] theorem P.resolveSub_skel (p : P) (sc : SubSpec) : skel (p.resolveSub sc).1 = skel p := by
  cases sc with
  | other => rfl
  | cat c => simp only [P.resolveSub]; split <;> rfl
  | sub c s =>
    simp only [P.resolveSub]
    split
    · split <;> rfl
    · rfl
  | catVal n c => simp [P.resolveSub]
  | subVal n c s =>
    simp only [P.resolveSub]
    split <;> (rename_i h; have := congrArg (fun x => skel x.1) h; simp at this; simp [← this])

@[simp] theorem P.hexString_skel (p : P) (a : Nat) : skel (p.hexString a).1 = skel p := rfl

@[simp] theorem P.internFrame_skel (p : P) (t : Nat) (th : Thread) (st : ThreadStrings) (f : Frame) :
    skel (p.internFrame t th st f).1 = skel p := by
  unfold P.internFrame
  split <;> simp

@[simp] theorem P.frameLabel_skel (p : P) (t str : Nat) (src : Option (Option Nat × Option Nat × Option Nat))
    (c s flags : Nat) : skel (p.frameLabel t str src c s flags).1 = skel p := by
  unfold P.frameLabel
  split
  · split
    · simp
    · dsimp only
      split <;> skel_leaf
  · rfl

@[simp] theorem P.frameAddr_skel (p : P) (t : Nat) (a : AddrSpec) (c s flags : Nat) :
    skel (p.frameAddr t a c s flags).1 = skel p := by
  unfold P.frameAddr
  split
  · rfl
  · split
    · rfl
    · split
      · rfl
      · rfl
      · simp [P.hexString]; rfl
      · split
        · split <;> skel_leaf
        · simp [P.hexString]; rfl

theorem P.symVariant_skel (p : P) (th : Thread) (st : ThreadStrings) (res : AddrRes) (n' : Option Nat)
    (i d : Nat) (r : P × ThreadStrings × Option NativeData × Nat)
    (h : P.symVariant p th st res n' i d = some r) : skel r.1 = skel p := by
  unfold P.symVariant at h
  split at h
  · split at h
    · cases h; rfl
    · cases h; rfl
  · split at h
    · cases h; rfl
    · split at h
      · cases h; rfl
      · cases h
  · cases h

@[simp] theorem P.frameSym_skel (p : P) (t : Nat) (a : AddrSpec) (name : Option Nat) (nsym : TH)
    (file line col : Option Nat) (depth c s flags : Nat) :
    skel (p.frameSym t a name nsym file line col depth c s flags).1 = skel p := by
  unfold P.frameSym
  split
  · rfl
  · split
    · rfl
    · split
      · rfl
      · split
        · rfl
        · rfl
        · split
          · rfl
          · split
            · rfl
            · rename_i hsv
              have := P.symVariant_skel _ _ _ _ _ _ _ _ hsv
              split
              · rfl
              · simp only [P.internFrame_skel]
                simpa using this

@[simp] theorem P.nativeSymbol_skel (p : P) (t lib : Nat) (sym : Sym) : skel (p.nativeSymbol t lib sym).1 = skel p := by
  unfold P.nativeSymbol
  split
  · rfl
  · split
    · dsimp only
      split <;> skel_leaf
    · rfl

@[simp] theorem P.stack_skel (p : P) (t : Nat) (f : TH) (par : Option TH) : skel (p.stack t f par).1 = skel p := by
  unfold P.stack
  split
  · rfl
  · split
    · split
      · rfl
      · split <;> simp
    · split <;> simp

@[simp] theorem P.stackFrames_skel (p : P) (t : Nat) (fs : List TH) : skel (p.stackFrames t fs).1 = skel p := by
  unfold P.stackFrames
  split
  · rfl
  · split <;> simp

@[simp] theorem P.sample_skel (p : P) (t : Nat) (st : Option TH) (z : Bool) : skel (p.sample t st z).1 = skel p := by
  unfold P.sample
  split
  · rfl
  · split <;> simp

@[simp] theorem P.sameSample_skel (p : P) (t : Nat) : skel (p.sameSample t).1 = skel p := by
  unfold P.sameSample
  split
  · rfl
  · split
    · split <;> rfl
    · simp

@[simp] theorem P.allocSample_skel (p : P) (t : Nat) (st : Option TH) : skel (p.allocSample t st).1 = skel p := by
  unfold P.allocSample
  split
  · rfl
  · split
    · rfl
    · split
      · rfl
      · split
        · rfl
        · split <;> simp

theorem P.markerTypeOf_skel (p : P) (ty : MType) (r : P × Nat) (h : p.markerTypeOf ty = some r) :
    skel r.1 = skel p := by
  cases ty with
  | runtime k =>
    simp only [P.markerTypeOf] at h
    split at h
    · cases h; rfl
    · cases h
  | static k =>
    simp only [P.markerTypeOf] at h
    split at h
    · cases h; rfl
    · split at h
      · cases h
      · cases h
        exact P.handleForCategory_skel _ _ _

@[simp] theorem P.marker_skel (p : P) (t : Nat) (ty : MType) (name : Nat) (strs : List Nat) (tm : MTiming) :
    skel (p.marker t ty name strs tm).1 = skel p := by
  unfold P.marker
  split
  · rfl
  · rename_i hmt
    have := P.markerTypeOf_skel _ _ _ hmt
    split
    · dsimp only
      split
      · rfl
      · split
        · rfl
        · simpa using this
    · rfl

@[simp] theorem P.markerStack_skel (p : P) (t m : Nat) (st : Option TH) : skel (p.markerStack t m st).1 = skel p := by
  unfold P.markerStack
  split
  · rfl
  · split
    · rfl
    · split <;> simp

theorem P.withSub_skel (p : P) (sc : SubSpec) (k : P → Nat → Nat → P × Out)
    (hk : ∀ p' c s, skel (k p' c s).1 = skel p') : skel (p.withSub sc k).1 = skel p := by
  unfold P.withSub
  split
  · rfl
  · rename_i h
    have := congrArg (fun x => skel x.1) h
    simpa using this.symm
  · rename_i h
    have := congrArg (fun x => skel x.1) h
    simp only [P.resolveSub_skel] at this
    split
    · rfl
    · rw [hk]; exact this.symm

/-- only `add_process`, `add_thread` and `set_thread_tid` change the skeleton -/
theorem step_skel (p : P) (op : Op) (h1 : ∀ a b c, op ≠ .addProcess a b c) (h2 : ∀ a b c d, op ≠ .addThread a b c d)
    (h3 : ∀ a b, op ≠ .setTid a b) :
    skel (step p op).1 = skel p := by
  cases op with
  | addProcess a b c => exact absurd rfl (h1 a b c)
  | addThread a b c d => exact absurd rfl (h2 a b c d)
  | setTid t tid => exact absurd rfl (h3 t tid)
  | setName t name => simp only [step]; split <;> skel_leaf
  | setStart t s => simp only [step]; split <;> skel_leaf
  | setPName pi name =>
    simp only [step]
    split
    · rfl
    · rename_i pr hpr
      simp only [skel]
      congr 1; congr 1
      exact List.map_set_of (fun x : Process => (x.threads, x.pid)) _ _ _ _ hpr (by rfl)
  | setPStart pi start =>
    simp only [step]
    split
    · rfl
    · rename_i pr hpr
      simp only [skel]
      congr 1; congr 1
      exact List.map_set_of (fun x : Process => (x.threads, x.pid)) _ _ _ _ hpr (by rfl)
  | addLib name => rfl
  | libSyms lib syms => simp only [step]; split <;> rfl
  | addMapping pi lib s e r =>
    simp only [step]
    split
    · rfl
    · rename_i pr hpr
      split
      · split
        · rfl
        · simp only [skel]
          congr 1; congr 1
          exact List.map_set_of (fun x : Process => (x.threads, x.pid)) _ _ _ _ hpr (by rfl)
      · rfl
  | addKernelMapping lib s e r =>
    simp only [step]
    split
    · split <;> rfl
    · rfl
  | removeKernelMapping s => rfl
  | removeMapping pi start =>
    simp only [step]
    split
    · rfl
    · rename_i pr hpr
      simp only [skel]
      congr 1; congr 1
      exact List.map_set_of (fun x : Process => (x.threads, x.pid)) _ _ _ _ hpr (by rfl)
  | clearMappings pi =>
    simp only [step]
    split
    · rfl
    · rename_i pr hpr
      simp only [skel]
      congr 1; congr 1
      exact List.map_set_of (fun x : Process => (x.threads, x.pid)) _ _ _ _ hpr (by rfl)
  | string s => rfl
  | category n c => simp [step]
  | subcategory c n =>
    simp only [step]
    split
    · split <;> (rename_i h; have := congrArg (fun x => skel x.1) h; simpa using this.symm)
    · rfl
  | frameLabel t str src sc fl => simp only [step]; exact p.withSub_skel sc _ (fun _ _ _ => by simp)
  | frameAddr t a sc fl => simp only [step]; exact p.withSub_skel sc _ (fun _ _ _ => by simp)
  | nativeSymbol t lib sym => simp [step]
  | frameSym t a n ns f l c d sc fl => simp only [step]; exact p.withSub_skel sc _ (fun _ _ _ => by simp)
  | stack t f par => simp [step]
  | stackFrames t fs => simp [step]
  | sample t st z => simp [step]
  | sameSample t => simp [step]
  | allocSample t st => simp [step]
  | markerType n c f => simp only [step]; split <;> rfl
  | marker t ty n strs tm => simp [step]
  | markerStack t m st => simp [step]
  | counter pi => simp only [step]; split <;> rfl
  | counterSample c => simp only [step]; split <;> rfl
  | visible t => simp only [step]; split <;> rfl
  | selected t => simp only [step]; split <;> rfl

end PT
