import SamplyModel.Lemmas.ConvObs
import SamplyModel.Lemmas.ConvFinal
import SamplyModel.Lemmas.ConvStacks
import SamplyModel.Lemmas.ConvJit
/-!
History-level link between the converter run and the judged specification `ConvSpec.expectedSamples` (C02, C14):
list lemmas about association lists observed through `pobs`, the look-ahead of the specification
(`laterAnn` with and without cut-off), and the specification's recursion in a form suited to induction.
-/
namespace Conv
open ConvSpec

/-! ### sums over the process table, through observations -/

section perm
variable {γ : Type}

/-- a per-process contribution that depends on the pid and the observation only -/
def FF (F : Nat → PObs → List γ) (e : Nat × ProcC) : List γ := F e.1 (pobsP e.2)

theorem alGet_of_mem_nodup {β} {l : List (Nat × β)} (hn : NodupKeys l) {e : Nat × β} (he : e ∈ l) :
    alGet l e.1 = some e.2 := by
  induction l with
  | nil => cases he
  | cons a l ih =>
    have hp := List.pairwise_cons.mp hn
    rw [alGet_cons]
    rcases List.mem_cons.mp he with rfl | he
    · simp
    · have : a.1 ≠ e.1 := hp.1 e he
      simp only [this, if_false]
      exact ih hp.2 he

theorem flatMap_decomp (F : Nat → PObs → List γ) (hF : ∀ k, F k PObs.empty = []) {l : List (Nat × ProcC)}
    (hn : NodupKeys l) (k : Nat) :
    List.Perm (l.flatMap (FF F)) (F k (pobs l k) ++ (alDel l k).flatMap (FF F)) := by
  cases h : alGet l k with
  | none => rw [pobs_of_none h, hF, alDel_of_none h]; exact List.Perm.refl _
  | some p =>
    rw [pobs_of_get h]
    have := (perm_of_alGet hn h).flatMap_right (FF F)
    simpa [FF] using this

theorem flatMap_nil_of_obs (F : Nat → PObs → List γ) {l : List (Nat × ProcC)} (hn : NodupKeys l)
    (h : ∀ a, F a (pobs l a) = []) : l.flatMap (FF F) = [] := by
  rw [List.flatMap_eq_nil_iff]
  intro e he
  have := h e.1
  rw [pobs_of_get (alGet_of_mem_nodup hn he)] at this
  exact this

/-- two process tables whose contributions agree pid by pid contribute the same multiset -/
theorem flatMap_perm_of_obs (F1 F2 : Nat → PObs → List γ) (h1 : ∀ k, F1 k PObs.empty = [])
    (h2 : ∀ k, F2 k PObs.empty = []) {l1 l2 : List (Nat × ProcC)} (hn1 : NodupKeys l1) (hn2 : NodupKeys l2)
    (h : ∀ a, F2 a (pobs l2 a) = F1 a (pobs l1 a)) :
    List.Perm (l2.flatMap (FF F2)) (l1.flatMap (FF F1)) := by
  induction l1 generalizing l2 with
  | nil =>
    have : l2.flatMap (FF F2) = [] := flatMap_nil_of_obs F2 hn2 (fun a => by rw [h a]; exact h1 a)
    rw [this]; exact List.Perm.refl _
  | cons e t ih =>
    obtain ⟨k, p⟩ := e
    have hp := List.pairwise_cons.mp hn1
    have hk : alGet ((k, p) :: t) k = some p := by rw [alGet_cons]; simp
    have htk : alGet t k = none := by
      cases hg : alGet t k with
      | none => rfl
      | some q => exact absurd rfl (hp.1 (k, q) (alGet_mem hg))
    refine (flatMap_decomp F2 h2 hn2 k).trans ?_
    rw [List.flatMap_cons]
    have e1 : F2 k (pobs l2 k) = FF F1 (k, p) := by rw [h k, pobs_of_get hk]; rfl
    rw [e1]
    refine List.Perm.append_left _ (ih hp.2 (hn2.alDel k) ?_)
    intro a
    rw [pobs_alDel]
    by_cases ha : a = k
    · subst ha
      simp only [if_true]
      rw [h2, pobs_of_none htk, h1]
    · simp only [ha, if_false]
      rw [h a]
      congr 1
      unfold pobs
      rw [alGet_cons]
      have : ¬ k = a := fun e => ha e.symm
      simp only [this, if_false]

/-- the same with one exceptional pid, whose contributions are split off on both sides -/
theorem flatMap_perm_except (F1 F2 : Nat → PObs → List γ) (h1 : ∀ k, F1 k PObs.empty = [])
    (h2 : ∀ k, F2 k PObs.empty = []) {l1 l2 : List (Nat × ProcC)} (hn1 : NodupKeys l1) (hn2 : NodupKeys l2)
    (k : Nat) (h : ∀ a, a ≠ k → F2 a (pobs l2 a) = F1 a (pobs l1 a)) :
    ∃ R, List.Perm (l1.flatMap (FF F1)) (F1 k (pobs l1 k) ++ R) ∧
         List.Perm (l2.flatMap (FF F2)) (F2 k (pobs l2 k) ++ R) := by
  refine ⟨(alDel l1 k).flatMap (FF F1), flatMap_decomp F1 h1 hn1 k, ?_⟩
  refine (flatMap_decomp F2 h2 hn2 k).trans (List.Perm.append_left _ ?_)
  refine flatMap_perm_of_obs F1 F2 h1 h2 (hn1.alDel k) (hn2.alDel k) ?_
  intro a
  rw [pobs_alDel, pobs_alDel]
  by_cases ha : a = k
  · simp only [ha, if_true]; rw [h1, h2]
  · simp only [ha, if_false]; exact h a ha

end perm

/-! ### the look-ahead of the specification -/

theorem annOf_time (cfg : Config) (addr len pgoff : Nat) (path : String) (t : Nat) :
    ∀ e ∈ annOf cfg addr len pgoff path t, e.1 = t := by
  intro e he
  unfold annOf at he
  split at he
  · simp only [List.mem_singleton] at he; rw [he]
  · unfold mapOps at he
    split at he
    · simp only [List.mem_singleton] at he; rw [he]
    · cases he

theorem annOf_noSpecial {cfg : Config} {addr len pgoff : Nat} {path : String} {t : Nat}
    (h : specialPath path = false) : annOf cfg addr len pgoff path t = mapOps cfg addr len pgoff path t := by
  unfold annOf; simp [h]

/-- the cut-off of the look-ahead is by timestamp: with or without it the mappings announced at or before `t`
are the same -/
theorem laterAnn_filter (legacy : Bool) (cfg : Config) (pid t : Nat) (rest : List Rec) :
    (laterAnn legacy cfg pid (some t) rest).filter (fun e => decide (e.1 ≤ t)) =
      (laterAnn legacy cfg pid none rest).filter (fun e => decide (e.1 ≤ t)) := by
  induction rest with
  | nil => rfl
  | cons r rest ih =>
    cases r with
    | mmap2 p td addr len pgoff exec path t' =>
      cases exec with
      | false => simpa [laterAnn] using ih
      | true =>
        simp only [laterAnn]
        by_cases hc : (p == pid && !(legacy && specialPath path)) = true
        · by_cases ht : t' ≤ t
          · have c1 : (p == pid && decide (t' ≤ t) && !(legacy && specialPath path)) = true := by
              simp only [Bool.and_eq_true] at hc ⊢
              exact ⟨⟨hc.1, by simpa using ht⟩, hc.2⟩
            have c2 : (p == pid && true && !(legacy && specialPath path)) = true := by
              simpa using hc
            rw [if_pos c1, if_pos c2, List.filter_append, List.filter_append, ih]
          · have c1 : (p == pid && decide (t' ≤ t) && !(legacy && specialPath path)) = false := by
              have : decide (t' ≤ t) = false := by simpa using ht
              rw [this]; simp
            have c2 : (p == pid && true && !(legacy && specialPath path)) = true := by
              simpa using hc
            rw [c1, if_pos c2, List.filter_append]
            simp only [Bool.false_eq_true, if_false]
            rw [ih]
            have : (annOf cfg addr len pgoff path t').filter (fun e => decide (e.1 ≤ t)) = [] := by
              rw [List.filter_eq_nil_iff]
              intro e he
              rw [annOf_time cfg addr len pgoff path t' e he]
              simpa using ht
            rw [this]; rfl
        · have c1 : (p == pid && decide (t' ≤ t) && !(legacy && specialPath path)) = false := by
            cases h1 : (p == pid) <;> cases h2 : (!(legacy && specialPath path)) <;> simp_all
          have c2 : (p == pid && true && !(legacy && specialPath path)) = false := by
            cases h1 : (p == pid) <;> cases h2 : (!(legacy && specialPath path)) <;> simp_all
          rw [c1, c2]
          exact ih
    | exit p td t' =>
      simp only [laterAnn]
      split
      · rfl
      · exact ih
    | comm p td nm ex t' =>
      cases ex with
      | false => simpa [laterAnn] using ih
      | true =>
        simp only [laterAnn]
        split
        · rfl
        · exact ih
    | sample => simpa [laterAnn] using ih
    | fork => simpa [laterAnn] using ih
    | switchIn => simpa [laterAnn] using ih
    | switchOut => simpa [laterAnn] using ih
    | sched => simpa [laterAnn] using ih
    | otherEvent => simpa [laterAnn] using ih

theorem resolveDecl_filter_congr {a b : Announced} {t : Nat}
    (h : a.filter (fun e => decide (e.1 ≤ t)) = b.filter (fun e => decide (e.1 ≤ t))) (la : Nat) :
    resolveDecl a t la = resolveDecl b t la := by
  unfold resolveDecl
  simp only [h]

theorem expectInfo_filter_congr {a b : Announced} {t : Nat}
    (h : a.filter (fun e => decide (e.1 ≤ t)) = b.filter (fun e => decide (e.1 ≤ t))) (pm : List MapAdd)
    (f : SFrame) : expectInfo a t pm f = expectInfo b t pm f := by
  unfold expectInfo resolveH
  simp only [resolveDecl_filter_congr h]

/-- Lemma A: for the attribution of a sample at `t` the look-ahead may as well run to the end of the process
incarnation -/
theorem expectInfo_lookahead (cfg : Config) (pid t : Nat) (q : Announced) (rest : List Rec) (pm : List MapAdd)
    (f : SFrame) :
    expectInfo (q ++ laterAnn false cfg pid (some t) rest) t pm f =
      expectInfo (q ++ laterAnn false cfg pid none rest) t pm f := by
  apply expectInfo_filter_congr
  rw [List.filter_append, List.filter_append, laterAnn_filter]

/-! ### the specification's recursion, in a form suited to induction -/

/-- what the judged specification expects of one output sample: (pid, tid, profile time, frames after the depth
limiter with the recorded length as hint) -/
def ExpSample.out (cfg : Config) (e : ExpSample) : Nat × Nat × Nat × List Frame :=
  (e.pid, e.tid, e.t - cfg.ref, depthLimit depthN e.frames e.nrec)

def expX (cfg : Config) (st : List (Nat × Announced)) (pid tid t : Nat) (km : Bool) (ip : Nat) (chain : List Nat)
    (rest : List Rec) : Nat × Nat × Nat × List Frame :=
  (pid, tid, t - cfg.ref,
    depthLimit depthN (expandJs ((sampleStack cfg km ip chain).reverse.map
      (expectInfo ((alGet st pid).getD [] ++ laterAnn false cfg pid (some t) rest) t (pmCands cfg pid))))
      (sampleStack cfg km ip chain).length)

def expGo (cfg : Config) : List (Nat × Announced) → Last → List Rec → List (Nat × Nat × Nat × List Frame)
  | _, _, [] => []
  | st, last, .sample pid tid t km _ ip chain :: rest =>
    if tid = 0 ∨ lastGet last pid tid = some t then expGo cfg st last rest
    else expX cfg st pid tid t km ip chain rest :: expGo cfg st (lastSet last pid tid t) rest
  | st, last, r :: rest => expGo cfg (annStep cfg st r) (accStep (last, []) r).1 rest

theorem expGo_eq (cfg : Config) (rs : List Rec) (st stL : List (Nat × Announced)) (mx : List (Nat × Nat))
    (last : Last) :
    (expectedSamples.go cfg st stL mx last rs).map (ExpSample.out cfg) = expGo cfg st last rs := by
  induction rs generalizing st stL mx last with
  | nil => simp [expectedSamples.go, expGo]
  | cons r rest ih =>
    cases r with
    | sample pid tid t km pe ip chain =>
      unfold expectedSamples.go
      simp only [expGo, accStep]
      by_cases h0 : tid = 0
      · simp only [h0, true_or, if_true]
        exact ih _ _ _ _
      · by_cases hd : lastGet last pid tid = some t
        · simp only [h0, hd, or_true, if_true, if_false]
          exact ih _ _ _ _
        · simp only [h0, hd, or_self, if_false, List.nil_append, List.map_cons]
          rw [ih]
          congr 1
          simp only [ExpSample.out, expX, List.length_reverse]
    | fork pid tid ppid ptid t => unfold expectedSamples.go; simp only [expGo, accStep]; exact ih _ _ _ _
    | exit pid tid t =>
      unfold expectedSamples.go; simp only [expGo, accStep]
      split <;> exact ih _ _ _ _
    | comm pid tid nm ex t =>
      cases ex
      · unfold expectedSamples.go; simp only [expGo, accStep]; exact ih _ _ _ _
      · unfold expectedSamples.go; simp only [expGo, accStep]
        split <;> exact ih _ _ _ _
    | mmap2 pid tid addr len pgoff exec path t =>
      unfold expectedSamples.go; simp only [expGo, accStep]; exact ih _ _ _ _
    | switchIn pid tid t => unfold expectedSamples.go; simp only [expGo, accStep]; exact ih _ _ _ _
    | switchOut pid tid t => unfold expectedSamples.go; simp only [expGo, accStep]; exact ih _ _ _ _
    | sched pid tid t km ip chain => unfold expectedSamples.go; simp only [expGo, accStep]; exact ih _ _ _ _
    | otherEvent pid tid t km ip chain => unfold expectedSamples.go; simp only [expGo, accStep]; exact ih _ _ _ _

theorem expectedSamples_out (cfg : Config) (rs : List Rec) :
    (expectedSamples cfg rs).map (ExpSample.out cfg) = expGo cfg [] [] rs := expGo_eq cfg rs [] [] [] []

end Conv
