import SamplyModel.Model.QuotaConc
import SamplyModel.Lemmas.QuotaHist
/-!
Helper lemmas for C15, part 6: the pass split into its atomic sections (`Model/QuotaConc.lean`),
interleaved with notifications. Order-independent facts, for every interleaving.
-/
namespace Quota

theorem safePath_mono {fs0 fs : FS} {p : Path} (h : SafePath fs0 p) (hs : Sub fs fs0) : SafePath fs p := by
  rcases h with h | h
  · exact Or.inl (noLinkBelow_sub hs [] _ h)
  · exact Or.inr (fun fs' hs' => h fs' (hs'.trans hs))

/-! ### notifications do not touch the file system, the settings or the root -/

theorem step_note_fs (now : Nat) (w : World) (op : Op) (h : isNote op = true) :
    (step now w op).1.fs = w.fs := by
  cases op <;> simp only [isNote, Bool.false_eq_true] at h
  all_goals (simp only [Quota.step]; repeat' split)
  all_goals rfl

theorem step_note_cfg (now : Nat) (w : World) (op : Op) (h : isNote op = true) (m' : Mgr)
    (hm : (step now w op).1.mgr = some m') : ∃ m, w.mgr = some m ∧ m'.cfg = m.cfg := by
  cases hw : w.mgr with
  | none =>
    exfalso
    cases op <;> simp only [isNote, Bool.false_eq_true] at h
    all_goals (simp only [Quota.step, hw] at hm; cases hm)
  | some m =>
    refine ⟨m, rfl, ?_⟩
    cases op <;> simp only [isNote, Bool.false_eq_true] at h
    all_goals (simp only [Quota.step, hw] at hm; repeat' split at hm)
    all_goals first
      | (cases hm; rfl)
      | (cases hm; rename_i heq _ _; cases heq; rfl)
      | (cases hm; rename_i heq _ _ _; cases heq; rfl)
      | (cases hm; rename_i heq _ _ _ _; cases heq; rfl)
      | (simp only [hw] at hm; cases hm; rfl)

/-! ### confinement, for every interleaving -/

/-- invariant: `fs0` = the file system when the schedule started -/
structure ConfInv (R : Path) (fs0 : FS) (cw : CWorld) : Prop where
  root : ∀ m, cw.w.mgr = some m → m.cfg.root = R
  runRoot : ∀ r, cw.run = some r → r.cfg.root = R
  pend : ∀ r, cw.run = some r → ∀ c ∈ r.pending, (∃ rel, c.2 = R ++ rel) ∧ SafePath cw.w.fs c.2
  sub : Sub cw.w.fs fs0
  only : ∀ q, cw.w.fs.lookup q = fs0.lookup q ∨ (cw.w.fs.lookup q = none ∧ ∃ rel, q = R ++ rel)

theorem ConfInv.kill {R : Path} {fs0 : FS} {cw : CWorld} (H : ConfInv R fs0 cw) (b : Bool) :
    ConfInv R fs0 (killPass cw b) := by
  unfold killPass
  split
  · next m hm =>
    exact ⟨(fun m' h => by cases h; exact H.root m hm), (fun r h => by cases h), (fun r h => by cases h), H.sub, H.only⟩
  · exact ⟨H.root, (fun r h => by cases h), (fun r h => by cases h), H.sub, H.only⟩

theorem sizeCands_safe (fs : FS) (root : Path) (ord inv : List Row) (ms : Option Nat) (cs : List (Row × Path))
    (hsc : sizeCands fs root ord inv ms = some cs) :
    ∀ x ∈ cs, (∃ r ∈ ord, x.1 = r) ∧ (∃ rel, x.2 = root ++ rel) ∧ SafePath fs x.2 := by
  cases ms with
  | none => simp [sizeCands] at hsc; subst hsc; simp
  | some m =>
    simp only [sizeCands, sizeCandidates] at hsc
    split at hsc
    · cases hsc; simp
    · intro x hx
      obtain ⟨r, hr, hcv⟩ := selectLoop_mem _ _ _ _ hsc x hx
      have hs := convert_safe _ _ _ _ hcv
      exact ⟨⟨r, hr, (convert_confined _ _ _ _ hcv).1⟩, hs.1, hs.2⟩

theorem ageCands_safe (fs : FS) (root : Path) (inv : List Row) (cut : Nat) (cs : List (Row × Path))
    (hac : ageCandidates fs root inv cut = some cs) :
    ∀ x ∈ cs, x.1 ∈ inv ∧ (∃ rel, x.2 = root ++ rel) ∧ SafePath fs x.2 := by
  intro x hx
  obtain ⟨r, hr, hcv⟩ := mapConv_mem _ _ _ hac x hx
  have hs := convert_safe _ _ _ _ hcv
  have hin : r ∈ inv := (List.mem_filter.mp ((mem_sortLRU_filter _ _ r).mp hr)).1
  exact ⟨by rw [(convert_confined _ _ _ _ hcv).1]; exact hin, hs.1, hs.2⟩

theorem ConfInv.begin {R : Path} {fs0 : FS} {cw : CWorld} (H : ConfInv R fs0 cw) :
    ConfInv R fs0 (passBegin cw) := by
  unfold passBegin
  split
  · next m inv hr hm hdb =>
    split
    · exact H
    · split
      · exact H.kill true
      · next cs hsc =>
        have hroot := H.root m hm
        refine ⟨H.root, (fun r h => by cases h; exact hroot), ?_, H.sub, H.only⟩
        intro r h c hc
        cases h
        have := sizeCands_safe _ _ _ _ _ _ hsc c hc
        rw [hroot] at this
        exact ⟨this.2.1, this.2.2⟩
  · exact H

theorem unlink_step_conf (R : Path) (fs : FS) (p : Path) (hp : (∃ rel, p = R ++ rel) ∧ SafePath fs p) :
    ∀ q, (unlink fs p).2.lookup q = fs.lookup q ∨ ((unlink fs p).2.lookup q = none ∧ ∃ rel, q = R ++ rel) := by
  intro q
  by_cases hok : (unlink fs p).1 = .ok
  · rcases hp.2 with hn | hbad
    · have he := unlink_ok_parent_noLink fs p hn hok
      by_cases hq : q = p
      · right; exact ⟨by rw [he, lookup_eraseKey, if_pos hq], by rw [hq]; exact hp.1⟩
      · left; rw [he, lookup_eraseKey, if_neg hq]
    · exact absurd hok (hbad fs (Sub.refl fs))
  · left; rw [unlink_fs_of_not_ok fs p hok]

theorem ConfInv.pstep {R : Path} {fs0 : FS} {cw : CWorld} (H : ConfInv R fs0 cw) (now : Nat) :
    ConfInv R fs0 (pstep now cw) := by
  unfold Quota.pstep
  split
  · next r m inv hr hm hdb =>
    have hrr := H.runRoot r hr
    have hpend := H.pend r hr
    split
    · next row p res hu =>
      split
      · exact ⟨H.root, (fun r' h => by cases h; exact hrr), (fun r' h c hc => by cases h; exact hpend c hc),
          H.sub, H.only⟩
      · split
        · exact H.kill false
        · exact ⟨H.root, (fun r' h => by cases h; exact hrr), (fun r' h c hc => by cases h; exact hpend c hc),
            H.sub, H.only⟩
    · split
      · next row p rest hpd =>
        have hc := hpend (row, p) (by rw [hpd]; simp)
        have hsub1 : Sub (unlink cw.w.fs p).2 cw.w.fs := sub_unlink _ _
        refine ⟨H.root, (fun r' h => by cases h; exact hrr), ?_, hsub1.trans H.sub, ?_⟩
        · intro r' h c hcm
          cases h
          have := hpend c (by rw [hpd]; exact List.mem_cons_of_mem _ hcm)
          exact ⟨this.1, safePath_mono this.2 hsub1⟩
        · intro q
          rcases unlink_step_conf R cw.w.fs p hc q with h | h
          · rcases H.only q with h0 | h0
            · left; show (unlink cw.w.fs p).2.lookup q = _; rw [h, h0]
            · right; exact ⟨by show (unlink cw.w.fs p).2.lookup q = _; rw [h]; exact h0.1, h0.2⟩
          · exact Or.inr h
      · have Hend : ConfInv R fs0 { cw with run := none } :=
          ⟨H.root, (fun r' h => by cases h), (fun r' h => by cases h), H.sub, H.only⟩
        split
        · exact Hend
        · split
          · exact Hend
          · split
            · exact H.kill false
            · split
              · exact H.kill false
              · split
                · exact H.kill true
                · split
                  · exact H.kill true
                  · next cs hac =>
                    refine ⟨H.root, (fun r' h => by cases h; exact hrr), ?_, H.sub, H.only⟩
                    intro r' h c hcm
                    cases h
                    have := ageCands_safe _ _ _ _ _ hac c hcm
                    rw [hrr] at this
                    exact ⟨this.2.1, this.2.2⟩
  · exact H

theorem ConfInv.note {R : Path} {fs0 : FS} {cw : CWorld} (H : ConfInv R fs0 cw) (now : Nat) (op : Op)
    (hn : isNote op = true) : ConfInv R fs0 (cstep now cw (.ext op)) := by
  have hfs := step_note_fs now cw.w op hn
  refine ⟨?_, H.runRoot, ?_, ?_, ?_⟩
  · intro m' hm'
    obtain ⟨m, hm, e⟩ := step_note_cfg now cw.w op hn m' hm'
    rw [e]; exact H.root m hm
  · intro r hr c hc
    have := H.pend r hr c hc
    show _ ∧ SafePath (step now cw.w op).1.fs c.2
    rw [hfs]; exact this
  · show Sub (step now cw.w op).1.fs fs0
    rw [hfs]; exact H.sub
  · intro q
    show (step now cw.w op).1.fs.lookup q = _ ∨ ((step now cw.w op).1.fs.lookup q = none ∧ _)
    rw [hfs]; exact H.only q

/-- a schedule in which the other tasks only issue notifications -/
def NoteSched : List CEv → Prop
  | [] => True
  | .ext op :: es => isNote op = true ∧ NoteSched es
  | _ :: es => NoteSched es

theorem ConfInv.crun {R : Path} {fs0 : FS} {cw : CWorld} (H : ConfInv R fs0 cw) (now : Nat) (evs : List CEv)
    (hs : NoteSched evs) : ConfInv R fs0 (crun now cw evs) := by
  induction evs generalizing cw with
  | nil => exact H
  | cons e es ih =>
    cases e with
    | begin => exact ih H.begin hs
    | pass => exact ih (H.pstep now) hs
    | ext op => exact ih (H.note now op hs.1) hs.2

/-! ### every `remove_file` call is for a candidate some selection of the pass returned -/

structure SelInv (cw : CWorld) : Prop where
  log : ∀ a ∈ cw.log, (a.row, a.path) ∈ cw.sel
  pend : ∀ r, cw.run = some r → ∀ c ∈ r.pending, c ∈ cw.sel

theorem SelInv.kill {cw : CWorld} (H : SelInv cw) (b : Bool) : SelInv (killPass cw b) := by
  unfold killPass
  split <;> exact ⟨H.log, (fun r h => by cases h)⟩

theorem SelInv.cstep {cw : CWorld} (H : SelInv cw) (now : Nat) (e : CEv) : SelInv (cstep now cw e) := by
  cases e with
  | ext op => exact ⟨H.log, H.pend⟩
  | begin =>
    show SelInv (passBegin cw)
    unfold passBegin
    split
    · split
      · exact H
      · split
        · exact H.kill true
        · next cs _ =>
          refine ⟨fun a ha => List.mem_append_left _ (H.log a ha), ?_⟩
          intro r h c hc
          cases h
          exact List.mem_append_right _ hc
    · exact H
  | pass =>
    show SelInv (pstep now cw)
    unfold pstep
    split
    · next r m inv hr hm hdb =>
      have hpend := H.pend r hr
      split
      · split
        · exact ⟨H.log, (fun r' h c hc => by cases h; exact hpend c hc)⟩
        · split
          · exact H.kill false
          · exact ⟨H.log, (fun r' h c hc => by cases h; exact hpend c hc)⟩
      · split
        · next row p rest hpd =>
          refine ⟨?_, (fun r' h c hc => by cases h; exact hpend c (by rw [hpd]; exact List.mem_cons_of_mem _ hc))⟩
          intro a ha
          rcases List.mem_append.mp ha with h | h
          · exact H.log a h
          · simp only [List.mem_singleton] at h
            subst h
            exact hpend (row, p) (by rw [hpd]; simp)
        · have Hend : SelInv { cw with run := none } := ⟨H.log, (fun r' h => by cases h)⟩
          split
          · exact Hend
          · split
            · exact Hend
            · split
              · exact H.kill false
              · split
                · exact H.kill false
                · split
                  · exact H.kill true
                  · split
                    · exact H.kill true
                    · refine ⟨fun a ha => List.mem_append_left _ (H.log a ha), ?_⟩
                      intro r' h c hc
                      cases h
                      exact List.mem_append_right _ hc
    · exact H

theorem SelInv.crun {cw : CWorld} (H : SelInv cw) (now : Nat) (evs : List CEv) : SelInv (crun now cw evs) := by
  induction evs generalizing cw with
  | nil => exact H
  | cons e es ih => exact ih (H.cstep now e)


/-! ### bookkeeping sections -/

theorem killPass_db (cw : CWorld) (b : Bool) : (killPass cw b).w.db = cw.w.db := by
  unfold killPass; split <;> rfl

theorem killPass_fs (cw : CWorld) (b : Bool) : (killPass cw b).w.fs = cw.w.fs := by
  unfold killPass; split <;> rfl

theorem mem_onDeleted (fs : FS) (root : Path) (inv : List Row) (p : Path) (x : Row)
    (h : x ∈ onDeleted fs root inv p) : x ∈ inv := by
  unfold onDeleted at h
  split at h
  · exact h
  · rw [invDelete_eq_filter] at h; exact (List.mem_filter.mp h).1

/-- no section of a pass adds or alters a row -/
theorem pstep_rows_subset (now : Nat) (cw : CWorld) (inv inv' : List Row) (hdb : cw.w.db = some inv)
    (h' : (pstep now cw).w.db = some inv') : ∀ x ∈ inv', x ∈ inv := by
  intro x hx
  unfold pstep at h'
  repeat' split at h'
  all_goals first
    | (rw [hdb] at h'; cases h'; exact hx)
    | (rw [killPass_db, hdb] at h'; cases h'; exact hx)
    | (simp only [Option.some.injEq] at h'; subst h'
       have hx' := mem_onDeleted _ _ _ _ _ hx
       simp only [hdb, Option.some.injEq] at *
       subst_vars
       exact hx')

/-- the bookkeeping section after a successful (or "not found") unlink of a plain candidate forgets exactly
the row with that key — whatever ran since the selection -/
theorem pstep_forget_exact (now : Nat) (cw : CWorld) (r : Running) (m : Mgr) (inv : List Row)
    (row : Row) (res : DelRes) (hr : cw.run = some r) (hm : cw.w.mgr = some m) (hdb : cw.w.db = some inv)
    (hp : m.poisoned = false) (hu : r.unlinked = some (row, r.cfg.root ++ row.rel, res)) (hres : res ≠ .err)
    (hroot : DirChain cw.w.fs [] r.cfg.root) (hplain : NoLinkBelow cw.w.fs r.cfg.root row.rel) :
    (pstep now cw).w.db = some (inv.filter fun x => !(x.rel == row.rel)) ∧ (pstep now cw).w.fs = cw.w.fs := by
  have hrel := relUnder_plain cw.w.fs r.cfg.root row.rel hroot hplain
  unfold pstep
  simp only [hr, hm, hdb, hu, hp]
  cases res with
  | err => exact absurd rfl hres
  | ok => simp [onDeleted, hrel, invDelete]
  | notFound => simp [onDeleted, hrel, invDelete]

/-- the unlink section leaves the table alone; a successful unlink of a plain candidate removes exactly that
node -/
theorem pstep_unlink (now : Nat) (cw : CWorld) (r : Running) (m : Mgr) (inv : List Row) (row : Row) (p : Path)
    (rest : List (Row × Path)) (hr : cw.run = some r) (hm : cw.w.mgr = some m) (hdb : cw.w.db = some inv)
    (hu : r.unlinked = none) (hpd : r.pending = (row, p) :: rest) :
    (pstep now cw).w.db = some inv ∧ (pstep now cw).w.fs = (unlink cw.w.fs p).2 ∧
    (pstep now cw).log = cw.log ++ [⟨row, p, (unlink cw.w.fs p).1⟩] := by
  unfold pstep
  simp only [hr, hm, hdb, hu, hpd]
  exact ⟨trivial, trivial, trivial⟩

end Quota
