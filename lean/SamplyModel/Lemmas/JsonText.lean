import SamplyModel.Model.JsonText
/-!
The hand-built error object `{"error":"<escaped message>"}` is accepted by the JSON recogniser, for every
message (C08, clauses (a) and (b) on the error paths of `Api::query_api`).
-/
namespace JT

theorem isHex_hexLower (k : Nat) (h : k < 16) : isHex (hexLower k) = true := by
  have : ∀ j : Fin 16, isHex (hexLower j.val) = true := by decide
  exact this ⟨k, h⟩

theorem strBody_quote (f : Nat) (rest : List Byte) : strBody (f + 1) (34 :: rest) = some ([], rest) := by
  simp [strBody]

theorem strBody_simple (f : Nat) (b e : Byte) (rest : List Byte) (hb : b.toNat = 92)
    (he : isSimpleEscape e = true) (hu : e.toNat ≠ 117) :
    strBody (f + 1) (b :: e :: rest) = (strBody f rest).map fun p => (b :: e :: p.1, p.2) := by
  simp [strBody, hb, he, hu]

theorem strBody_u (f : Nat) (b e h1 h2 h3 h4 : Byte) (rest : List Byte) (hb : b.toNat = 92) (he : e.toNat = 117)
    (hh : (isHex h1 && isHex h2 && isHex h3 && isHex h4) = true) :
    strBody (f + 1) (b :: e :: h1 :: h2 :: h3 :: h4 :: rest) =
      (strBody f rest).map fun p => (b :: e :: h1 :: h2 :: h3 :: h4 :: p.1, p.2) := by
  simp only [strBody, hb, he]
  simp [hh]

theorem strBody_plain (f : Nat) (b : Byte) (rest : List Byte) (h1 : b.toNat ≠ 34) (h2 : b.toNat ≠ 92)
    (h3 : ¬ b.toNat < 32) : strBody (f + 1) (b :: rest) = (strBody f rest).map fun p => (b :: p.1, p.2) := by
  simp [strBody, h1, h2, h3]

/-- the escaped form of any byte string, followed by a quote, is read back as exactly that string literal -/
theorem strBody_escape (m rest : List Byte) (f : Nat) (hf : (escape m).length + 1 ≤ f) :
    strBody f (escape m ++ 34 :: rest) = some (escape m, rest) := by
  induction m generalizing f with
  | nil =>
    cases f with
    | zero => simp [escape] at hf
    | succ f => simp [escape, strBody_quote]
  | cons b m ih =>
    cases f with
    | zero => omega
    | succ f =>
      simp only [escape, List.length_append] at hf
      simp only [escape, List.append_assoc]
      have step : ∀ (pre : List Byte), 1 ≤ pre.length → escapeByte b = pre →
          (strBody f (escape m ++ 34 :: rest) = some (escape m, rest) →
            strBody (f + 1) (pre ++ (escape m ++ 34 :: rest)) = some (pre ++ escape m, rest)) →
          strBody (f + 1) (escapeByte b ++ (escape m ++ 34 :: rest)) = some (escapeByte b ++ escape m, rest) := by
        intro pre hl he hstep
        rw [he]
        rw [he] at hf
        exact hstep (ih f (by omega))
      by_cases c34 : b.toNat = 34
      · refine step [92, 34] (by simp) (by simp [escapeByte, c34]) ?_
        intro h
        simp only [List.cons_append, List.nil_append]
        rw [strBody_simple f 92 34 _ (by decide) (by decide) (by decide), h]; rfl
      by_cases c92 : b.toNat = 92
      · refine step [92, 92] (by simp) (by simp [escapeByte, c92]) ?_
        intro h
        simp only [List.cons_append, List.nil_append]
        rw [strBody_simple f 92 92 _ (by decide) (by decide) (by decide), h]; rfl
      by_cases c8 : b.toNat = 8
      · refine step [92, 98] (by simp) (by simp [escapeByte, c8]) ?_
        intro h
        simp only [List.cons_append, List.nil_append]
        rw [strBody_simple f 92 98 _ (by decide) (by decide) (by decide), h]; rfl
      by_cases c9 : b.toNat = 9
      · refine step [92, 116] (by simp) (by simp [escapeByte, c9]) ?_
        intro h
        simp only [List.cons_append, List.nil_append]
        rw [strBody_simple f 92 116 _ (by decide) (by decide) (by decide), h]; rfl
      by_cases c10 : b.toNat = 10
      · refine step [92, 110] (by simp) (by simp [escapeByte, c10]) ?_
        intro h
        simp only [List.cons_append, List.nil_append]
        rw [strBody_simple f 92 110 _ (by decide) (by decide) (by decide), h]; rfl
      by_cases c12 : b.toNat = 12
      · refine step [92, 102] (by simp) (by simp [escapeByte, c12]) ?_
        intro h
        simp only [List.cons_append, List.nil_append]
        rw [strBody_simple f 92 102 _ (by decide) (by decide) (by decide), h]; rfl
      by_cases c13 : b.toNat = 13
      · refine step [92, 114] (by simp) (by simp [escapeByte, c13]) ?_
        intro h
        simp only [List.cons_append, List.nil_append]
        rw [strBody_simple f 92 114 _ (by decide) (by decide) (by decide), h]; rfl
      by_cases c32 : b.toNat < 32
      · refine step [92, 117, 48, 48, hexLower (b.toNat / 16), hexLower (b.toNat % 16)] (by simp)
          (by simp [escapeByte, c34, c92, c8, c9, c10, c12, c13, c32]) ?_
        intro h
        simp only [List.cons_append, List.nil_append]
        have hh : (isHex 48 && isHex 48 && isHex (hexLower (b.toNat / 16)) && isHex (hexLower (b.toNat % 16))) = true := by
          rw [isHex_hexLower _ (by omega), isHex_hexLower _ (by omega)]; decide
        rw [strBody_u f 92 117 48 48 _ _ _ (by decide) (by decide) hh, h]; rfl
      · refine step [b] (by simp) (by simp [escapeByte, c34, c92, c8, c9, c10, c12, c13, c32]) ?_
        intro h
        simp only [List.cons_append, List.nil_append]
        rw [strBody_plain f b _ c34 c92 c32, h]; rfl

theorem skipWs_cons_not (b : Byte) (l : List Byte) (h : isWs b = false) : skipWs (b :: l) = b :: l := by
  simp [skipWs, List.dropWhile_cons, h]

/-- **the error object is a JSON object with exactly the key `error`, holding a string** -/
theorem topObject_errorJson (m : List Byte) : topObject (errorJson m) = some [(kError, Kind.str)] := by
  have hlen : (errorJson m).length = (escape m).length + 12 := by simp [errorJson]
  unfold topObject
  rw [hlen]
  simp only [errorJson, List.cons_append, List.nil_append]
  rw [skipWs_cons_not 123 _ (by decide)]
  simp only [show (123 : Byte).toNat ≠ 123 ↔ False by decide, if_false]
  rw [skipWs_cons_not 34 _ (by decide)]
  simp only [show ((34 : Byte).toNat = 125) ↔ False by decide, if_false]
  -- the member `"error":"…"`
  simp only [members, show ((34 : Byte).toNat ≠ 34) ↔ False by decide, if_false]
  have hkey : ∀ (r : List Byte) (k : Nat),
      strBody (k + 6) (101 :: 114 :: 114 :: 111 :: 114 :: 34 :: r) = some (kError, r) := by
    intro r k
    simp [strBody, kError]
  simp only [List.length_cons]
  rw [hkey]
  simp only
  rw [skipWs_cons_not 58 _ (by decide)]
  simp only [show ((58 : Byte).toNat ≠ 58) ↔ False by decide, if_false]
  rw [skipWs_cons_not 34 _ (by decide)]
  -- the value: a string
  have hval : ∀ k : Nat, value (k + 1) (34 :: (escape m ++ [34, 125])) = some (Kind.str, [125]) := by
    intro k
    simp only [value, show ((34 : Byte).toNat = 34) ↔ True by decide, if_true]
    have := strBody_escape m [125] ((escape m ++ [34, 125]).length + 1) (by simp)
    rw [this]; rfl
  rw [show (escape m).length + 12 = ((escape m).length + 11) + 1 by omega]
  simp only [hval]
  rw [skipWs_cons_not 125 _ (by decide)]
  simp [skipWs]

end JT
