import SamplyModel.Lemmas.ProfileSorted
/-!
`serialize` succeeds on states satisfying `TInv` and `SInv`; shape of its result.
-/
namespace PT

theorem mapM'_some {α β : Type} (f : α → Option β) : ∀ (l : List α), (∀ a ∈ l, ∃ b, f a = some b) →
    ∃ bs, mapM' f l = some bs
  | [], _ => ⟨[], rfl⟩
  | a :: as, h => by
    obtain ⟨b, hb⟩ := h a List.mem_cons_self
    obtain ⟨bs, hbs⟩ := mapM'_some f as (fun x hx => h x (List.mem_cons_of_mem _ hx))
    exact ⟨b :: bs, by simp [mapM', hb, hbs]⟩

theorem mapM'_cons_inv {α β : Type} (f : α → Option β) (a : α) (as : List α) (r : List β)
    (h : mapM' f (a :: as) = some r) : ∃ b bs, f a = some b ∧ mapM' f as = some bs ∧ r = b :: bs := by
  simp only [mapM'] at h
  split at h
  · rename_i b bs hb hbs
    cases h
    exact ⟨b, bs, hb, hbs, rfl⟩
  · cases h

theorem mapM'_length {α β : Type} (f : α → Option β) : ∀ (l : List α) (bs : List β),
    mapM' f l = some bs → bs.length = l.length
  | [], bs, h => by simp only [mapM', Option.some.injEq] at h; subst h; rfl
  | a :: as, r, h => by
    obtain ⟨b, bs, _, hbs, rfl⟩ := mapM'_cons_inv f a as r h
    simp [mapM'_length f as bs hbs]

theorem mapM'_all {α β : Type} (f : α → Option β) (Q : β → Prop) : ∀ (l : List α) (bs : List β),
    (∀ a b, a ∈ l → f a = some b → Q b) → mapM' f l = some bs → ∀ b ∈ bs, Q b
  | [], bs, _, h => by simp only [mapM', Option.some.injEq] at h; subst h; exact fun _ hb => (nomatch hb)
  | a :: as, r, hq, h => by
    obtain ⟨b, bs, hb, hbs, rfl⟩ := mapM'_cons_inv f a as r h
    intro x hx
    simp only [List.mem_cons] at hx
    rcases hx with rfl | hx
    · exact hq a x List.mem_cons_self hb
    · exact mapM'_all f Q as bs (fun a' b' ha' => hq a' b' (List.mem_cons_of_mem _ ha')) hbs x hx

theorem mapM'_map {α β γ : Type} (f : α → Option β) (φ : β → γ) (ψ : α → γ) : ∀ (l : List α) (bs : List β),
    (∀ a b, a ∈ l → f a = some b → φ b = ψ a) → mapM' f l = some bs → bs.map φ = l.map ψ
  | [], bs, _, h => by simp only [mapM', Option.some.injEq] at h; subst h; rfl
  | a :: as, r, hq, h => by
    obtain ⟨b, bs, hb, hbs, rfl⟩ := mapM'_cons_inv f a as r h
    simp only [List.map_cons, List.cons.injEq]
    exact ⟨hq a b List.mem_cons_self hb,
      mapM'_map f φ ψ as bs (fun a' b' ha' => hq a' b' (List.mem_cons_of_mem _ ha')) hbs⟩

/-- pid string, tid string, main flag of the thread behind a handle (as serialized) -/
def pidOf (p : P) (h : Nat) : Str :=
  match p.threads[h]? with
  | some t => match p.processes[t.process]? with
    | some pr => idString pr.pid
    | none => ""
  | none => ""

def tidOf (p : P) (h : Nat) : Str :=
  match p.threads[h]? with
  | some t => idString t.tid
  | none => ""

def mainOf (p : P) (h : Nat) : Bool :=
  match p.threads[h]? with
  | some t => t.isMain
  | none => true

theorem serThread_fields (p : P) (t : Thread) (st : SerThread) (h : serThread p t = some st) :
    st.tid = idString t.tid ∧ st.isMain = t.isMain ∧
    st.pid = (match p.processes[t.process]? with
      | some pr => idString pr.pid
      | none => "") := by
  unfold serThread at h
  split at h
  · rename_i pr ustr hpr _
    cases h
    simp [hpr]
  · cases h

theorem serialize_spec (p : P) (ht : TInv p) (hs : SInv p) :
    ∃ s, serialize p = some s ∧
      (∀ st ∈ s.threads, wfThread s.libs.length s.cats st = true) ∧
      s.threads.map (·.tid) = (sortedThreads p).map (tidOf p) ∧
      s.threads.map (·.pid) = (sortedThreads p).map (pidOf p) ∧
      s.threads.map (fun t => (t.pid, t.isMain)) = (sortedThreads p).map (fun h => (pidOf p h, mainOf p h)) ∧
      s.threads.length = p.threads.length ∧
      s.visible = p.visible.map (newThreadIndex p) ∧ s.selected = p.selected.map (newThreadIndex p) := by
  -- libs
  obtain ⟨libs, hlibs⟩ := mapM'_some (fun h => p.libs.all[h]?) p.libs.used (by
    intro a ha
    exact ⟨_, List.getElem?_eq_getElem (ht.libs.1 a ha)⟩)
  have hlen := mapM'_length _ _ _ hlibs
  -- threads
  have hvalid : ∀ h ∈ sortedThreads p, h < p.threads.length := fun h hm => (mem_sortedThreads p hs h).mp hm
  obtain ⟨threads, hthreads⟩ := mapM'_some (fun h => (p.threads[h]?).bind (serThread p)) (sortedThreads p) (by
    intro h hm
    have hlt := hvalid h hm
    obtain ⟨st, hst, _⟩ := serThread_wf p ht _ (List.getElem_mem hlt)
    exact ⟨st, by rw [List.getElem?_eq_getElem hlt]; exact hst⟩)
  -- counters
  obtain ⟨counters, hcounters⟩ := mapM'_some (fun (c : Counter) => if c.process < p.processes.length then
      some (⟨idString c.pid, firstThreadIndex p c.process, c.samples⟩ : SerCounter) else none) p.counters (by
    intro c hc
    exact ⟨_, by rw [if_pos (ht.counters_lt c hc)]⟩)
  have hvs : (p.visible ++ p.selected).all (· < p.threads.length) = true := by
    rw [List.all_eq_true]
    intro x hx
    simp only [List.mem_append] at hx
    rcases hx with hx | hx
    · exact decide_eq_true (ht.visible x hx)
    · exact decide_eq_true (ht.selected x hx)
  refine ⟨{ libs := libs, cats := p.cats.map (fun c => (c.name, c.color, c.subs)),
            visible := p.visible.map (newThreadIndex p), selected := p.selected.map (newThreadIndex p),
            counters := counters, threads := threads },
    by simp only [serialize, hlibs, hthreads, hcounters, hvs, if_true], ?_, ?_, ?_, ?_, ?_, rfl, rfl⟩
  · -- per-thread tables
    simp only [hlen]
    refine mapM'_all _ _ _ _ ?_ hthreads
    intro h st hm hst
    have hlt := hvalid h hm
    rw [List.getElem?_eq_getElem hlt] at hst
    obtain ⟨st', hst', hwf⟩ := serThread_wf p ht _ (List.getElem_mem hlt)
    simp only [Option.bind_some] at hst
    rw [hst'] at hst
    cases hst
    exact hwf
  · refine mapM'_map _ _ _ _ _ ?_ hthreads
    intro h st hm hst
    have hlt := hvalid h hm
    rw [List.getElem?_eq_getElem hlt] at hst
    simp only [tidOf, List.getElem?_eq_getElem hlt]
    exact (serThread_fields p _ st hst).1
  · refine mapM'_map _ _ _ _ _ ?_ hthreads
    intro h st hm hst
    have hlt := hvalid h hm
    rw [List.getElem?_eq_getElem hlt] at hst
    simp only [pidOf, List.getElem?_eq_getElem hlt]
    exact (serThread_fields p _ st hst).2.2
  · refine mapM'_map _ _ _ _ _ ?_ hthreads
    intro h st hm hst
    have hlt := hvalid h hm
    rw [List.getElem?_eq_getElem hlt] at hst
    simp only [pidOf, mainOf, List.getElem?_eq_getElem hlt]
    rw [(serThread_fields p _ st hst).2.2, (serThread_fields p _ st hst).2.1]
  · rw [mapM'_length _ _ _ hthreads]
    -- sortedThreads is a duplicate-free list of exactly the valid handles
    have hperm : (sortedThreads p).Perm (List.range p.threads.length) := by
      rw [List.perm_ext_iff_of_nodup (nodup_sortedThreads p hs) List.nodup_range]
      intro a
      rw [mem_sortedThreads p hs, List.mem_range]
    rw [hperm.length_eq, List.length_range]

end PT
