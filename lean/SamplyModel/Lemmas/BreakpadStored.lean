import SamplyModel.Model.BreakpadWholesym
import SamplyModel.Lemmas.BreakpadMap
import SamplyModel.Model.BreakpadSpec
import SamplyModel.Lemmas.BreakpadReadIndex
/-!
Helper lemmas for C10, improvement round: what `parse_symindex_file` demands of the length of its input
(so that every proper prefix of a serialized index is rejected), array lengths of a parsed index, and the
read loops of wholesym as chunkings.
-/
namespace BP
open LB (Byte)

theorem decList_length {α : Type} (dec : List Byte → Option (α × List Byte)) (n : Nat) (bs : List Byte)
    (l : List α) (h : decList dec n bs = some l) : l.length = n := by
  induction n generalizing bs l with
  | zero => simp only [decList, Option.some.injEq] at h; subst h; rfl
  | succ n ih =>
    simp only [decList] at h
    split at h
    · cases h
    · rename_i a bs' _
      split at h
      · cases h
      · rename_i l' hl'
        simp only [Option.some.injEq] at h
        subst h
        simp [ih bs' l' hl']

theorem readAt_some_le (bs : List Byte) (off len : Nat) (x : List Byte) (h : readAt bs off len = some x) :
    off + len ≤ bs.length := by
  unfold readAt at h
  split at h
  · assumption
  · cases h

theorem readAt_zero (bs : List Byte) (len : Nat) (x : List Byte) (h : readAt bs 0 len = some x) :
    x = bs.take len := by
  unfold readAt at h
  split at h
  · simp only [List.drop_zero, Option.some.injEq] at h; exact h.symm
  · cases h

/-- what a successful `parse_symindex_file` implies about the input: a 48-byte header, whose symbol-entry
table lies inside the input, and symbol arrays of the length the header announces -/
theorem parseSymindex_shape (bs : List Byte) (ix : Index) (h : parseSymindex bs = some ix) :
    ∃ hd, 48 ≤ bs.length ∧ decHeader (bs.take 48) = some hd ∧ hd.entOff + hd.symCount * 16 ≤ bs.length ∧
      ix.addrs.length = hd.symCount ∧ ix.entries.length = hd.symCount := by
  unfold parseSymindex at h
  split at h
  · cases h
  rename_i hb hhb
  split at h
  · cases h
  rename_i hd hhd
  split at h
  · cases h
  split at h
  · cases h
  split at h
  · cases h
  split at h
  · cases h
  split at h
  · cases h
  split at h
  · cases h
  split at h
  · cases h
  split at h
  · cases h
  split at h
  · cases h
  split at h
  · cases h
  rename_i eb heb
  split at h
  · rename_i files origins addrs entries h1 h2 h3 h4
    simp only [Option.some.injEq] at h
    subst h
    refine ⟨hd, ?_, ?_, readAt_some_le _ _ _ _ heb, decList_length _ _ _ _ h3, decList_length _ _ _ _ h4⟩
    · have := readAt_some_le _ _ _ _ hhb; omega
    · rw [← readAt_zero _ _ _ hhb]; exact hhd
  · cases h

theorem serialize_length (ix : Index) (hlen : ix.addrs.length = ix.entries.length) :
    (serialize ix).length = totalLen ix := by
  have lF : (ix.files.flatMap encFEntry).length = ix.files.length * 16 :=
    flatMap_length_const _ 16 _ encFEntry_length
  have lO : (ix.origins.flatMap encFEntry).length = ix.origins.length * 16 :=
    flatMap_length_const _ 16 _ encFEntry_length
  have lA : (ix.addrs.flatMap le32).length = ix.addrs.length * 4 := flatMap_length_const _ 4 _ le32_length
  have lE : (ix.entries.flatMap encSymEntry).length = ix.entries.length * 16 :=
    flatMap_length_const _ 16 _ encSymEntry_length
  simp only [serialize, List.length_append, encHeader_length, List.length_replicate, lF, lO, lA, lE, totalLen,
    layout]
  omega

theorem layout_ok (ix : Index) (hT : totalLen ix < pow32) : (layout ix).ok := by
  simp only [totalLen, layout] at hT
  simp only [Header.ok, layout, pow32] at *
  omega

/-- the first 48 bytes of a serialized index decode to its layout -/
theorem decHeader_serialize (ix : Index) (hT : totalLen ix < pow32) :
    decHeader ((serialize ix).take 48) = some (layout ix) := by
  have : (serialize ix).take 48 = encHeader (layout ix) := by
    unfold serialize
    rw [List.take_append_of_le_length (by rw [encHeader_length]; exact Nat.le_refl _)]
    rw [List.take_of_length_le (by rw [encHeader_length]; exact Nat.le_refl _)]
  rw [this]
  exact decHeader_enc _ (layout_ok ix hT)

/-- **every proper prefix of a serialized index is rejected by `parse_symindex_file`** (the last table
ends exactly at the end of the file, and every table is bounds-checked) -/
theorem parse_truncated (ix : Index) (hs : serializeSafe ix = true) (n : Nat)
    (hn : n < (serialize ix).length) : parseSymindex ((serialize ix).take n) = none := by
  obtain ⟨hT, hlen⟩ := (serializeSafe_iff ix).1 hs
  cases hp : parseSymindex ((serialize ix).take n) with
  | none => rfl
  | some ix' =>
    exfalso
    obtain ⟨hd, h48, hdec, hend, _, _⟩ := parseSymindex_shape _ _ hp
    have hl : ((serialize ix).take n).length = n := by
      rw [List.length_take]; omega
    rw [hl] at h48 hend
    have ht : ((serialize ix).take n).take 48 = (serialize ix).take 48 := by
      rw [List.take_take]; congr 1; omega
    rw [ht, decHeader_serialize ix hT] at hdec
    simp only [Option.some.injEq] at hdec
    subst hdec
    have := serialize_length ix hlen
    simp only [totalLen] at this
    simp only [layout] at hend this
    omega

/-- a lookup through ANY index `parse_symindex_file` accepts — also a foreign or corrupted one — cannot
hit the out-of-range `symbol_entries[index]` -/
theorem lookup_parsed_no_panic (bs : List Byte) (ix : Index) (h : parseSymindex bs = some ix)
    (text : List Byte) (a : Nat) : lookup text ix a ≠ .panic := by
  obtain ⟨hd, _, _, _, ha, he⟩ := parseSymindex_shape _ _ h
  unfold lookup
  split
  · simp
  · rename_i i _
    split
    · simp
    · rename_i symAddr hsa
      have hi : i < ix.addrs.length := by
        rcases Nat.lt_or_ge i ix.addrs.length with h' | h'
        · exact h'
        · rw [List.getElem?_eq_none h'] at hsa; cases hsa
      split
      · rename_i hnone
        rw [List.getElem?_eq_none_iff] at hnone
        omega
      · split
        · split
          · simp
          · split <;> simp
        · split
          · split
            · simp
            · split
              · simp
              · split <;> simp
          · simp

/-! ### read loops are chunkings -/

theorem readLoop_flatten (cap : Nat) (hc : 0 < cap) (fuel : Nat) (lens : List Nat) (l : List Byte)
    (h : l.length ≤ fuel) : (readLoop cap fuel lens l).flatten = l := by
  induction fuel generalizing lens l with
  | zero =>
    have : l = [] := List.length_eq_zero_iff.1 (Nat.le_zero.1 h)
    subst this; simp [readLoop]
  | succ f ih =>
    simp only [readLoop]
    split
    · rename_i he
      have : l = [] := by simpa using he
      subst this; simp
    · rename_i he
      have hne : l ≠ [] := by simpa using he
      have hpos : 0 < l.length := List.length_pos_iff.2 hne
      simp only [List.flatten_cons]
      cases lens with
      | nil =>
        simp only
        rw [ih _ (l.drop _) (by simp only [List.length_drop]; omega)]
        exact List.take_append_drop _ l
      | cons x xs =>
        simp only
        have hw : 0 < min (max x 1) cap := by omega
        rw [ih _ (l.drop _) (by simp only [List.length_drop]; omega)]
        exact List.take_append_drop _ l

/-- the index of either wholesym builder is the index of the whole text, whatever the reads return -/
theorem wsIndex_eq (pick : Pick) (lens : List Nat) (text : List Byte) :
    wsIndex pick lens text = index pick [text] := by
  unfold wsIndex
  rw [index_chunk_independent, readLoop_flatten wsCap (by decide) _ _ _ (Nat.le_refl _)]

end BP

namespace BPS
open BP
open LB (Byte)

/-! ### the index of a well-formed file passes the MODULE-line test of `make_index_storage` -/

theorem foldl_infoStep_shape (ls : List SLine) (acc : List Byte) :
    ∃ X, ls.foldl infoStep acc = acc ++ X ∧ (X = [] ∨ ∃ t, X = 10 :: t) := by
  induction ls generalizing acc with
  | nil => exact ⟨[], by simp, Or.inl rfl⟩
  | cons l ls ih =>
    simp only [List.foldl_cons]
    cases hr : l.r with
    | info rest =>
      obtain ⟨X, hX, _⟩ := ih (acc ++ 10 :: l.r.content)
      refine ⟨10 :: l.r.content ++ X, ?_, Or.inr ⟨_, rfl⟩⟩
      simp only [infoStep, hr] at hX ⊢
      rw [hX]; simp
    | file _ _ => simpa [infoStep, hr] using ih acc
    | origin _ _ => simpa [infoStep, hr] using ih acc
    | pub _ _ _ _ => simpa [infoStep, hr] using ih acc
    | func _ _ _ _ _ => simpa [infoStep, hr] using ih acc
    | line _ _ _ _ => simpa [infoStep, hr] using ih acc
    | inline _ _ _ _ _ _ => simpa [infoStep, hr] using ih acc
    | stack _ => simpa [infoStep, hr] using ih acc

theorem takeWhile_ne10 (m X : List Byte) (hm : (10 : Byte) ∉ m) (hX : X = [] ∨ ∃ t, X = 10 :: t) :
    (m ++ X).takeWhile (· ≠ 10) = m := by
  induction m with
  | nil =>
    rcases hX with rfl | ⟨t, rfl⟩
    · rfl
    · simp [List.takeWhile]
  | cons b m ih =>
    have hb : b ≠ 10 := by intro e; subst e; simp at hm
    have hm' : (10 : Byte) ∉ m := by intro h; exact hm (List.mem_cons_of_mem _ h)
    have ih' := ih hm'
    simp only [List.cons_append, List.takeWhile_cons, ne_eq, hb, not_false_eq_true, decide_true, if_true]
    rw [show (fun x : Byte => decide (¬ x = 10)) = (fun x => decide (x ≠ 10)) from rfl, ih']

theorem storedModuleLine_spec (s : SymFile) (h : WFIndex s) :
    storedModuleLine (specIndex s) = s.moduleLine := by
  obtain ⟨X, hX, hsh⟩ := foldl_infoStep_shape s.lines s.moduleLine
  unfold storedModuleLine
  show (specModInfo s).takeWhile (· ≠ 10) = s.moduleLine
  unfold specModInfo
  rw [hX]
  exact takeWhile_ne10 _ _ h.moduleNoNl hsh

theorem joinNl_prefix (first : List Byte) (ls : List (List Byte)) : first <+: LB.joinNl first ls := by
  cases ls with
  | nil => exact List.prefix_refl _
  | cons l ls => exact List.prefix_append _ _

/-! ### the module-info block the creator writes reports the id of its first line -/

theorem joinNl_shape (first : List Byte) (infos : List (List Byte)) :
    ∃ X, LB.joinNl first infos = first ++ X ∧ (X = [] ∨ ∃ t, X = 10 :: t) := by
  cases infos with
  | nil => exact ⟨[], by simp [LB.joinNl], Or.inl rfl⟩
  | cons l ls => exact ⟨10 :: LB.joinNl l ls, by simp [LB.joinNl], Or.inr ⟨_, rfl⟩⟩

theorem deriveModule_shape_eq (first : List Byte) (infos : List (List Byte))
    (hf : (10 : Byte) ∉ first) (hi : ∀ l ∈ infos, (10 : Byte) ∉ l ∧ (tag tINFO_ l).isSome = true)
    (hm : (moduleLine first).isSome = true) :
    deriveModule (LB.joinNl first infos) = moduleLine first := by
  have hne : first ≠ [] := by
    intro e; subst e; simp [moduleLine, tag, tMODULE] at hm
  have hine : ∀ l ∈ infos, l ≠ [] := by
    intro l hl e; subst e
    have := (hi [] hl).2
    simp [tag, tINFO_] at this
  unfold deriveModule
  rw [moduleInfoLines_shape first infos hf (fun l hl => (hi l hl).1) hne hine]
  simp only [List.foldl_cons]
  cases hm' : moduleLine first with
  | none => simp [hm'] at hm
  | some m =>
    simp only
    rw [foldl_keep _ infos (some m) ?_]
    intro b l hl
    rw [moduleLine_of_info l (hi l hl).2]

/-- a module-info block of the creator's shape (MODULE line, then INFO lines): its first line is that
MODULE line and the id the parsed index reports is the id of that line -/
theorem storedIdAgrees_of_shape (ix : Index) (h : ModShape ix.moduleInfo) :
    storedIdAgrees ix = true ∧ (moduleLine (storedModuleLine ix)).isSome = true := by
  obtain ⟨first, infos, hmi, hf, hi, hm⟩ := h
  obtain ⟨X, hX, hsh⟩ := joinNl_shape first infos
  have hline : storedModuleLine ix = first := by
    unfold storedModuleLine
    rw [hmi, hX]
    exact takeWhile_ne10 _ _ hf hsh
  have hd : deriveModule ix.moduleInfo = moduleLine first := by
    rw [hmi]; exact deriveModule_shape_eq first infos hf hi hm
  refine ⟨?_, by rw [hline]; exact hm⟩
  rw [storedIdAgrees_iff]
  cases hm' : moduleLine first with
  | none => simp [hm'] at hm
  | some m =>
    exact ⟨debugIdValue m.id, by simp [debugIdOfModuleLine, hline, hm'], by simp [indexDebugId, hd, hm']⟩

theorem modShape_specIndex (s : SymFile) (h : WFIndex s) : ModShape (specIndex s).moduleInfo := by
  obtain ⟨st, hc, _, he⟩ := preIndex_spec Pick.first (render s)
  rw [preIndex_render Pick.first s h] at he
  cases hm : st.hasModule with
  | false => simp [hm] at he
  | true =>
    simp only [hm, if_true, Pre.ix.injEq] at he
    rw [he]
    exact hc.module hm

theorem storedMatches_render (s : SymFile) (h : WFIndex s) : storedMatches (render s) (specIndex s) = true := by
  rw [storedMatches_iff, storedModuleLine_spec s h]
  refine ⟨?_, ?_, (storedIdAgrees_of_shape _ (modShape_specIndex s h)).1⟩
  · intro e
    have := h.moduleOk
    rw [e] at this
    simp [moduleLine, tag, tMODULE] at this
  · unfold render
    exact List.IsPrefix.trans (List.prefix_append _ _)
      (List.IsPrefix.trans (joinNl_prefix _ _) (List.prefix_append _ _))

end BPS
