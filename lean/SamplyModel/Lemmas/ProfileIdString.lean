import Std.Data.String.ToNat
import SamplyModel.Model.ProfileSer
/-!
The rendering of a pid / tid pair `(number, suffix)` as `"<number>"` / `"<number>.<suffix>"`
(`make_unique_pid_or_tid`, profile.rs:308-320) is injective.
-/
namespace PT

theorem toString_toList (n : Nat) : (toString n).toList = Nat.toDigits 10 n := Nat.toList_repr

theorem idString_toList (i : IdStr) :
    (idString i).toList = Nat.toDigits 10 i.1 ++ (if i.2 = 0 then [] else '.' :: Nat.toDigits 10 i.2) := by
  unfold idString
  split
  · simp [*]
  · simp only [String.toList_append, toString_toList, List.append_assoc]
    rfl

theorem toDigits_inj {a b : Nat} (h : Nat.toDigits 10 a = Nat.toDigits 10 b) : a = b := by
  apply Nat.repr_injective
  apply String.toList_injective
  rw [Nat.toList_repr, Nat.toList_repr, h]

theorem digits_split : ∀ (d1 d2 r1 r2 : List Char), (∀ c ∈ d1, c.isDigit = true) → (∀ c ∈ d2, c.isDigit = true) →
    (r1 = [] ∨ ∃ t, r1 = '.' :: t) → (r2 = [] ∨ ∃ t, r2 = '.' :: t) → d1 ++ r1 = d2 ++ r2 → d1 = d2 ∧ r1 = r2
  | [], [], r1, r2, _, _, _, _, h => ⟨rfl, by simpa using h⟩
  | [], c :: d2, r1, r2, _, h2, hr1, _, h => by
    simp only [List.nil_append, List.cons_append] at h
    rcases hr1 with rfl | ⟨t, rfl⟩
    · cases h
    · simp only [List.cons.injEq] at h
      have := h2 c List.mem_cons_self
      rw [← h.1] at this
      exact absurd this (by decide)
  | c :: d1, [], r1, r2, h1, _, _, hr2, h => by
    simp only [List.nil_append, List.cons_append] at h
    rcases hr2 with rfl | ⟨t, rfl⟩
    · cases h
    · simp only [List.cons.injEq] at h
      have := h1 c List.mem_cons_self
      rw [h.1] at this
      exact absurd this (by decide)
  | c1 :: d1, c2 :: d2, r1, r2, h1, h2, hr1, hr2, h => by
    simp only [List.cons_append, List.cons.injEq] at h
    obtain ⟨e1, e2⟩ := digits_split d1 d2 r1 r2 (fun c hc => h1 c (List.mem_cons_of_mem _ hc))
      (fun c hc => h2 c (List.mem_cons_of_mem _ hc)) hr1 hr2 h.2
    exact ⟨by rw [h.1, e1], e2⟩

theorem idString_injective {i j : IdStr} (h : idString i = idString j) : i = j := by
  have hl := congrArg String.toList h
  rw [idString_toList, idString_toList] at hl
  have hd : ∀ n, ∀ c ∈ Nat.toDigits 10 n, c.isDigit = true :=
    fun n c hc => Nat.isDigit_of_mem_toDigits (by decide) (by decide) hc
  have hr : ∀ k : Nat, (if k = 0 then ([] : List Char) else '.' :: Nat.toDigits 10 k) = [] ∨
      ∃ t, (if k = 0 then ([] : List Char) else '.' :: Nat.toDigits 10 k) = '.' :: t := by
    intro k
    by_cases hk : k = 0
    · exact Or.inl (by simp [hk])
    · exact Or.inr ⟨Nat.toDigits 10 k, by simp [hk]⟩
  obtain ⟨e1, e2⟩ := digits_split _ _ _ _ (hd i.1) (hd j.1) (hr i.2) (hr j.2) hl
  have h1 : i.1 = j.1 := toDigits_inj e1
  have h2 : i.2 = j.2 := by
    by_cases hi : i.2 = 0
    · by_cases hj : j.2 = 0
      · rw [hi, hj]
      · simp [hi, hj] at e2
    · by_cases hj : j.2 = 0
      · simp [hi, hj] at e2
      · simp only [hi, hj, if_false, List.cons.injEq, true_and] at e2
        exact toDigits_inj e2
  exact Prod.ext h1 h2

end PT
