import SamplyModel.Lemmas.ProfileMain
import SamplyModel.Model.ProfileCanon
/-!
Canonical interning of stacks and frames: the index map of a stack table agrees with its rows, a row is
never stored twice, `walk` of a returned handle is the parent's walk plus the frame, and rows never change.
-/
namespace PT

/-! ### walk -/

theorem walk_fuel (prefixes : List (Option Nat)) (frames : List Nat) (hp : PrefixOk prefixes) :
    ∀ (f1 f2 i : Nat), i < f1 → i < f2 → walk prefixes frames f1 i = walk prefixes frames f2 i := by
  intro f1
  induction f1 with
  | zero => intro f2 i hi; omega
  | succ n ih =>
    intro f2 i h1 h2
    cases f2 with
    | zero => omega
    | succ m =>
      simp only [walk]
      cases hf : frames[i]? with
      | none => rfl
      | some f =>
        cases hq : prefixes[i]? with
        | none => rfl
        | some o =>
          cases o with
          | none => rfl
          | some q =>
            have hqi : q < i := hp i q hq
            simp only
            rw [ih m q (by omega) (by omega)]

/-- rows below the old length are unaffected by appending rows -/
theorem walk_append (prefixes px : List (Option Nat)) (frames fx : List Nat) (hl : frames.length = prefixes.length)
    (hp : PrefixOk prefixes) : ∀ (fuel i : Nat), i < prefixes.length →
      walk (prefixes ++ px) (frames ++ fx) fuel i = walk prefixes frames fuel i := by
  intro fuel
  induction fuel with
  | zero => intro i _; rfl
  | succ n ih =>
    intro i hi
    simp only [walk]
    rw [List.getElem?_append_left (by omega), List.getElem?_append_left hi]
    cases hf : frames[i]? with
    | none => rfl
    | some f =>
      cases hq : prefixes[i]? with
      | none => rfl
      | some o =>
        cases o with
        | none => rfl
        | some q =>
          have hqi : q < i := hp i q hq
          simp only
          rw [ih q (by omega)]

/-! ### the stack table is a faithful trie (`StCanon`, part of `StInv`) -/

/-- the returned stack denotes the parent's frames followed by the frame -/
theorem StackTable.indexFor_walk (t : StackTable) (pre : Option Nat) (frame nFrames : Nat)
    (h : StInv nFrames t) (hp : ∀ q, pre = some q → q < t.prefixes.length) :
    walk (t.indexFor pre frame).1.prefixes (t.indexFor pre frame).1.frames ((t.indexFor pre frame).2 + 1)
        (t.indexFor pre frame).2 =
      match pre with
      | none => some [frame]
      | some q => (walk t.prefixes t.frames (q + 1) q).map (· ++ [frame]) := by
  obtain ⟨a1, a2, a3, a4, hc⟩ := h
  unfold StackTable.indexFor
  cases hl : alookup t.index (pre, frame) with
  | some s =>
    simp only
    obtain ⟨h1, h2⟩ := hc.1 _ (alookup_mem _ _ _ hl)
    cases pre with
    | none => simp only [walk, h1, h2]
    | some q =>
      have e : walk t.prefixes t.frames (s + 1) s = (walk t.prefixes t.frames s q).map (· ++ [frame]) := by
        simp only [walk, h1, h2]
      simp only
      rw [e, walk_fuel _ _ a3 s (q + 1) q (a3 s q h1) (by omega)]
  | none =>
    simp only
    have hf : (t.frames ++ [frame])[t.prefixes.length]? = some frame := by
      rw [List.getElem?_append_right (by omega)]; simp [a1]
    have hpq : (t.prefixes ++ [pre])[t.prefixes.length]? = some pre := by
      rw [List.getElem?_append_right (by omega)]; simp
    cases pre with
    | none => simp only [walk, hf, hpq]
    | some q =>
      have hq := hp q rfl
      have e : walk (t.prefixes ++ [some q]) (t.frames ++ [frame]) (t.prefixes.length + 1) t.prefixes.length =
          (walk (t.prefixes ++ [some q]) (t.frames ++ [frame]) t.prefixes.length q).map (· ++ [frame]) := by
        simp only [walk, hf, hpq]
      simp only
      rw [e, walk_append _ _ _ _ a1 a3 _ q hq, walk_fuel _ _ a3 _ (q + 1) q hq (by omega)]

/-- existing rows keep their denotation -/
theorem StackTable.indexFor_stable (t : StackTable) (pre : Option Nat) (frame nFrames : Nat)
    (h : StInv nFrames t) (i : Nat) (hi : i < t.prefixes.length) :
    walk (t.indexFor pre frame).1.prefixes (t.indexFor pre frame).1.frames (i + 1) i =
      walk t.prefixes t.frames (i + 1) i := by
  obtain ⟨a1, _, a3, _, _⟩ := h
  unfold StackTable.indexFor
  cases alookup t.index (pre, frame) with
  | some s => rfl
  | none => exact walk_append _ _ _ _ a1 a3 _ i hi

/-- every existing row has a denotation -/
theorem walk_isSome (t : StackTable) (nFrames : Nat) (h : StInv nFrames t) :
    ∀ (k : Nat), k < t.prefixes.length → (walk t.prefixes t.frames (k + 1) k).isSome = true := by
  obtain ⟨a1, _, a3, _, _⟩ := h
  intro k
  induction k using Nat.strongRecOn with
  | _ k ihk =>
    intro hk
    have hfk : t.frames[k]? = some t.frames[k] := List.getElem?_eq_getElem (by omega)
    have hpk : t.prefixes[k]? = some t.prefixes[k] := List.getElem?_eq_getElem hk
    simp only [walk, hfk, hpk]
    cases hq : t.prefixes[k] with
    | none => rfl
    | some q =>
      simp only
      have hqk : q < k := a3 k q (by rw [hpk, hq])
      have := ihk q hqk (by omega)
      rw [walk_fuel _ _ a3 (q + 1) k q (by omega) hqk] at this
      simpa using this

/-- different rows denote different frame lists: each call stack is interned exactly once -/
theorem walk_injective (t : StackTable) (nFrames : Nat) (h : StInv nFrames t) :
    ∀ (i j : Nat), i < t.prefixes.length → j < t.prefixes.length →
      walk t.prefixes t.frames (i + 1) i = walk t.prefixes t.frames (j + 1) j → i = j := by
  obtain ⟨a1, _, a3, _, hc⟩ := h
  intro i
  induction i using Nat.strongRecOn with
  | _ i ih =>
    intro j hi hj he
    have hfi : t.frames[i]? = some t.frames[i] := List.getElem?_eq_getElem (by omega)
    have hfj : t.frames[j]? = some t.frames[j] := List.getElem?_eq_getElem (by omega)
    have hpi : t.prefixes[i]? = some t.prefixes[i] := List.getElem?_eq_getElem hi
    have hpj : t.prefixes[j]? = some t.prefixes[j] := List.getElem?_eq_getElem hj
    -- both rows are found through the index: equal keys give equal rows
    suffices hkey : t.prefixes[i] = t.prefixes[j] ∧ t.frames[i]'(by omega) = t.frames[j]'(by omega) by
      have h1 := hc.2 i _ _ hpi hfi
      have h2 := hc.2 j _ _ hpj hfj
      rw [hkey.1, hkey.2, h2] at h1
      exact (Option.some.inj h1).symm
    simp only [walk, hfi, hfj, hpi, hpj] at he
    -- a walk is never empty and ends with the row's frame
    have hne : ∀ (k : Nat) (l : List Nat), k < t.prefixes.length →
        walk t.prefixes t.frames (k + 1) k = some l → l ≠ [] := by
      intro k l hk hw
      have hfk : t.frames[k]? = some t.frames[k] := List.getElem?_eq_getElem (by omega)
      have hpk : t.prefixes[k]? = some t.prefixes[k] := List.getElem?_eq_getElem hk
      simp only [walk, hfk, hpk] at hw
      cases hq : t.prefixes[k] with
      | none => rw [hq] at hw; cases hw; simp
      | some q =>
        rw [hq] at hw
        simp only [Option.map_eq_some_iff] at hw
        obtain ⟨l', _, rfl⟩ := hw
        simp
    cases hqi : t.prefixes[i] with
    | none =>
      cases hqj : t.prefixes[j] with
      | none =>
        rw [hqi, hqj] at he
        simp only [Option.some.injEq, List.cons.injEq, and_true] at he
        exact ⟨rfl, he⟩
      | some qj =>
        rw [hqi, hqj] at he
        simp only at he
        have hqjlt : qj < j := a3 j qj (by rw [hpj, hqj])
        cases hw : walk t.prefixes t.frames j qj with
        | none => rw [hw] at he; cases he
        | some l =>
          rw [hw] at he
          simp only [Option.map_some, Option.some.injEq] at he
          have hl : l ≠ [] := hne qj l (by omega)
            (by rw [walk_fuel _ _ a3 (qj + 1) j qj (by omega) hqjlt]; exact hw)
          cases l with
          | nil => exact absurd rfl hl
          | cons x xs => cases xs <;> simp at he
    | some qi =>
      have hqilt : qi < i := a3 i qi (by rw [hpi, hqi])
      cases hqj : t.prefixes[j] with
      | none =>
        rw [hqi, hqj] at he
        simp only at he
        cases hw : walk t.prefixes t.frames i qi with
        | none => rw [hw] at he; cases he
        | some l =>
          rw [hw] at he
          simp only [Option.map_some, Option.some.injEq] at he
          have hl : l ≠ [] := hne qi l (by omega)
            (by rw [walk_fuel _ _ a3 (qi + 1) i qi (by omega) hqilt]; exact hw)
          cases l with
          | nil => exact absurd rfl hl
          | cons x xs => cases xs <;> simp at he
      | some qj =>
        have hqjlt : qj < j := a3 j qj (by rw [hpj, hqj])
        rw [hqi, hqj] at he
        simp only at he
        cases hwi : walk t.prefixes t.frames i qi with
        | none =>
          rw [hwi] at he
          cases hwj : walk t.prefixes t.frames j qj with
          | none =>
            -- both walks fail: impossible, a walk below the length is defined; not needed — rows equal anyway
            exfalso
            have : ∀ (k : Nat), k < t.prefixes.length → (walk t.prefixes t.frames (k + 1) k).isSome := by
              intro k
              induction k using Nat.strongRecOn with
              | _ k ihk =>
                intro hk
                have hfk : t.frames[k]? = some t.frames[k] := List.getElem?_eq_getElem (by omega)
                have hpk : t.prefixes[k]? = some t.prefixes[k] := List.getElem?_eq_getElem hk
                simp only [walk, hfk, hpk]
                cases hq : t.prefixes[k] with
                | none => rfl
                | some q =>
                  simp only
                  have hqk : q < k := a3 k q (by rw [hpk, hq])
                  have := ihk q hqk (by omega)
                  rw [walk_fuel _ _ a3 (q + 1) k q (by omega) hqk] at this
                  simpa using this
            have h1 := this qi (by omega)
            rw [walk_fuel _ _ a3 (qi + 1) i qi (by omega) hqilt, hwi] at h1
            cases h1
          | some l => rw [hwj] at he; cases he
        | some li =>
          rw [hwi] at he
          cases hwj : walk t.prefixes t.frames j qj with
          | none => rw [hwj] at he; cases he
          | some lj =>
            rw [hwj] at he
            simp only [Option.map_some, Option.some.injEq] at he
            have happ := List.append_inj' he rfl
            have hq : qi = qj := by
              apply ih qi hqilt qj (by omega) (by omega)
              rw [walk_fuel _ _ a3 (qi + 1) i qi (by omega) hqilt, hwi,
                  walk_fuel _ _ a3 (qj + 1) j qj (by omega) hqjlt, hwj, happ.1]
            subst hq
            simp only [List.cons.injEq, and_true] at happ
            exact ⟨rfl, happ.2⟩

end PT
