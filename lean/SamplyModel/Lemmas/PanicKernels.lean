import SamplyModel.Model.PanicKernels
/-!
Helper lemmas for `Props/C08.lean` (core Lean only).
-/
namespace PK

theorem two32_eq : two32 = 4294967296 := rfl

/-! ### `Res` plumbing -/

@[simp] theorem bind_ok {ε α β : Type} (v : α) (f : α → Res ε β) : (Res.ok v >>= f) = f v := rfl
@[simp] theorem bind_err {ε α β : Type} (e : ε) (f : α → Res ε β) :
    ((Res.err e : Res ε α) >>= f) = Res.err e := rfl
@[simp] theorem bind_panic {ε α β : Type} (f : α → Res ε β) :
    ((Res.panic : Res ε α) >>= f) = Res.panic := rfl
@[simp] theorem pure_eq {ε α : Type} (v : α) : (pure v : Res ε α) = Res.ok v := rfl

theorem bind_ne_panic {ε α β : Type} (r : Res ε α) (f : α → Res ε β)
    (h1 : r ≠ .panic) (h2 : ∀ v, r = .ok v → f v ≠ .panic) : (r >>= f) ≠ .panic := by
  cases r with
  | ok v => simpa using h2 v rfl
  | err e => simp
  | panic => exact absurd rfl h1

theorem ofOption_ne_panic {α : Type} (o : Option α) : ofOption o ≠ .panic := by
  cases o <;> simp [ofOption]

theorem ofOption_ok {α : Type} (o : Option α) (v : α) : ofOption o = .ok v ↔ o = some v := by
  cases o <;> simp [ofOption]



/-! ### Kernel A -/
theorem asmDisassemblyLen_spec (start size : Nat) (cont : Bool) (fe : Option Nat) :
    ∃ len, asmDisassemblyLen start size cont fe = .ok len ∧ size ≤ len ∧
      (len = size ∨ ∃ e, fe = some e ∧ start ≤ e ∧ len = e - start) := by
  unfold asmDisassemblyLen
  cases cont with
  | false => exact ⟨size, by simp, Nat.le_refl _, Or.inl rfl⟩
  | true =>
    cases fe with
    | none => exact ⟨size, by simp, Nat.le_refl _, Or.inl rfl⟩
    | some e =>
      by_cases h : e ≥ start
      · by_cases h2 : e - start > size
        · refine ⟨e - start, ?_, by omega, Or.inr ⟨e, rfl, h, rfl⟩⟩
          simp [h, subU32, h2]
        · refine ⟨size, ?_, Nat.le_refl _, Or.inl rfl⟩
          simp [h, subU32, h2]
      · exact ⟨size, by simp [h], Nat.le_refl _, Or.inl rfl⟩

theorem asmPlan_ne_panic (arch : Arch) (start size : Nat) (cont : Bool) (fe : Option Nat) :
    asmPlan arch start size cont fe ≠ .panic := by
  obtain ⟨len, h, _, _⟩ := asmDisassemblyLen_spec start size cont fe
  simp [asmPlan, h]

theorem relAddress_le (arch : Arch) (start : Nat) : relAddress arch start ≤ start := by
  cases arch <;> simp [relAddress] <;> omega





theorem mod_facts (pos n L : Nat) (h : pos + n ≤ L) (hL : L ≤ 4294967295) :
    (pos + n) % 4294967296 = pos + n ∧ pos % 4294967296 = pos := by omega

theorem decodeLoop_done (dec : List UInt8 → Dec) (adjust : Nat) (bytes : List UInt8) (decodeLen : Nat)
    (hc : DecContract dec adjust) (ha : 1 ≤ adjust) (hb : bytes.length ≤ u32Max)
    (offset base pos : Nat) (h1 : offset = base + pos) (h2 : base + pos ≤ bytes.length) :
    ∃ sz, decodeLoop dec adjust bytes decodeLen offset base pos = .done sz ∧ sz ≤ bytes.length + adjust := by
  have hb' : bytes.length ≤ 4294967295 := hb
  fun_induction decodeLoop dec adjust bytes decodeLen offset base pos with
  | case1 offset base pos h => exact ⟨offset, rfl, by omega⟩
  | case2 offset base pos h before n hdec after hlt =>
    exfalso
    have hk := (hc.ok_bounds _ _ hdec).2
    simp only [List.length_drop] at hk
    have hm := mod_facts pos n bytes.length (by omega) hb'
    simp only [before, after, two32, hm.1, hm.2] at hlt
    omega
  | case3 offset base pos h before n hdec after hlt delta hd =>
    exfalso
    have hk := hc.ok_bounds _ _ hdec
    simp only [List.length_drop] at hk
    have hm := mod_facts pos n bytes.length (by omega) hb'
    simp only [delta, before, after, two32, hm.1, hm.2] at hd
    omega
  | case4 offset base pos h before n hdec after hlt delta hd hov =>
    exfalso
    have hk := hc.ok_bounds _ _ hdec
    simp only [List.length_drop] at hk
    have hm := mod_facts pos n bytes.length (by omega) hb'
    simp only [delta, before, after, two32, hm.1, hm.2, u32Max] at hov
    omega
  | case5 offset base pos h before n hdec after hlt delta hd hov ih =>
    have hk := hc.ok_bounds _ _ hdec
    simp only [List.length_drop] at hk
    have hm := mod_facts pos n bytes.length (by omega) hb'
    have hdl : delta = n := by simp only [delta, before, after, two32, hm.1, hm.2]; omega
    apply ih
    · rw [hdl]; omega
    · omega
  | case6 offset base pos h hdec => exact ⟨offset, rfl, by omega⟩
  | case7 offset base pos h hdec hgt => exfalso; omega
  | case8 offset base pos h hdec hgt ha0 => exfalso; omega
  | case9 offset base pos h hdec hgt ha0 hov =>
    exfalso
    have hk := hc.invalid_avail _ hdec
    simp only [List.length_drop] at hk
    simp only [u32Max] at hov
    omega
  | case10 offset base pos h hdec hgt ha0 hov hend => exact ⟨_, rfl, by omega⟩
  | case11 offset base pos h hdec hgt ha0 hov hend ih =>
    apply ih <;> omega




/-! ### Kernel B -/
theorem peCodeIdFromStr_ne_panic (s : List UInt8) : peCodeIdFromStr s ≠ .panic := by
  unfold peCodeIdFromStr
  split
  · simp
  · cases strGet s 0 8 <;> simp [ofOption]
    cases fromStrRadix16 u32Max _ <;> simp
    cases strGet s 8 s.length <;> simp
    cases fromStrRadix16 u32Max _ <;> simp

theorem elfBytes_ne_panic (s : List UInt8) (i n : Nat) : elfBytes s i n ≠ .panic := by
  induction n generalizing i with
  | zero => simp [elfBytes]
  | succ n ih =>
    unfold elfBytes
    cases strGet s (i * 2) (i * 2 + 2) <;> simp [ofOption]
    cases fromStrRadix16 u8Max _ <;> simp
    have := ih (i + 1)
    cases h : elfBytes s (i + 1) n <;> simp_all

theorem codeIdFromStr_ne_panic (s : List UInt8) : codeIdFromStr s ≠ .panic := by
  unfold codeIdFromStr
  split
  · have := peCodeIdFromStr_ne_panic s
    cases h : peCodeIdFromStr s <;> simp_all
  · split
    · cases hexPairs s <;> simp [ofOption]
    · have := elfBytes_ne_panic s 0 (s.length / 2)
      unfold elfBuildIdFromStr
      cases h : elfBytes s 0 (s.length / 2) <;> simp_all

/-- what `PeCodeId::from_str` accepts -/
theorem peCodeIdFromStr_ok_iff (s : List UInt8) (t z : Nat) :
    peCodeIdFromStr s = .ok (t, z) ↔
      (9 ≤ s.length ∧ s.length ≤ 16 ∧
        ∃ a b, strGet s 0 8 = some a ∧ strGet s 8 s.length = some b ∧
          fromStrRadix16 u32Max a = some t ∧ fromStrRadix16 u32Max b = some z) := by
  unfold peCodeIdFromStr
  split
  · constructor
    · intro h; cases h
    · rintro ⟨h1, h2, _⟩; omega
  · rename_i hlen
    constructor
    · intro h
      refine ⟨by omega, by omega, ?_⟩
      cases ha : strGet s 0 8 <;> simp [ha, ofOption] at h
      rename_i a
      cases hta : fromStrRadix16 u32Max a <;> simp [hta] at h
      cases hb : strGet s 8 s.length <;> simp [hb] at h
      rename_i b
      cases htb : fromStrRadix16 u32Max b <;> simp [htb] at h
      obtain ⟨rfl, rfl⟩ := h
      exact ⟨a, b, rfl, rfl, hta, htb⟩
    · rintro ⟨_, _, a, b, ha, hb, hta, htb⟩
      simp [ha, hb, hta, htb, ofOption]

/-! ### Kernel C -/
theorem hexVal_le {b : UInt8} {d : Nat} (h : hexVal b = some d) : d ≤ 15 := by
  unfold hexVal at h
  simp only at h
  split at h
  · cases h; omega
  · split at h
    · cases h; omega
    · split at h
      · cases h; omega
      · cases h

theorem hexStrGo_k (bits : Nat) (f : Nat) (inp : List UInt8) (res k : Nat) :
    k ≤ (hexStrGo bits f inp res k).2 ∧ (hexStrGo bits f inp res k).2 ≤ k + inp.length := by
  induction f generalizing inp res k with
  | zero => simp [hexStrGo]
  | succ f ih =>
    cases inp with
    | nil => simp [hexStrGo]
    | cons b rest =>
      unfold hexStrGo
      cases hexVal b with
      | none => simp
      | some d =>
        have := ih rest ((res * 16) % 2 ^ bits + d) (k + 1)
        simp only [List.length_cons]
        omega

theorem hexStr_ne_panic (bits : Nat) (inp : List UInt8) : hexStr bits inp ≠ .panic := by
  unfold hexStr
  have := hexStrGo_k bits (bits / 4) inp 0 0
  simp only
  split
  · simp
  · split
    · simp
    · omega

theorem hexStrGo_lt (M : Nat) (hM : 16 ∣ M) (bits : Nat) (hb : 2 ^ bits = M) (f : Nat) (inp : List UInt8)
    (res k : Nat) (hr : res < M) : (hexStrGo bits f inp res k).1 < M := by
  induction f generalizing inp res k with
  | zero => simpa [hexStrGo]
  | succ f ih =>
    cases inp with
    | nil => simpa [hexStrGo]
    | cons b rest =>
      unfold hexStrGo
      cases hd : hexVal b with
      | none => simpa
      | some d =>
        apply ih
        have hd' := hexVal_le hd
        rw [hb]
        have h1 : 16 ∣ (res * 16) % M := (Nat.dvd_mod_iff hM).2 (Nat.dvd_mul_left 16 res)
        have h2 : (res * 16) % M < M := Nat.mod_lt _ (by omega)
        obtain ⟨a, ha⟩ := h1
        obtain ⟨c, hc⟩ := hM
        rw [ha]; rw [ha] at h2
        subst hc
        have : a < c := by
          apply Nat.lt_of_mul_lt_mul_left (a := 16); exact h2
        omega

theorem hexStr32_lt (inp rest : List UInt8) (v : Nat) (h : hexStr 32 inp = .ok (rest, v)) : v ≤ u32Max := by
  unfold hexStr at h
  simp only at h
  split at h
  · cases h
  · split at h
    · injection h with h; injection h with _ h2
      have := hexStrGo_lt 4294967296 ⟨268435456, by decide⟩ 32 (by decide) (32 / 4) inp 0 0 (by decide)
      simp only [u32Max]; omega
    · cases h

theorem hexStr64_lt (inp rest : List UInt8) (v : Nat) (h : hexStr 64 inp = .ok (rest, v)) : v ≤ u64Max := by
  unfold hexStr at h
  simp only at h
  split at h
  · cases h
  · split at h
    · injection h with h; injection h with _ h2
      have := hexStrGo_lt 18446744073709551616 ⟨1152921504606846976, by decide⟩ 64 (by decide) (64 / 4) inp 0 0 (by decide)
      simp only [u64Max]; omega
    · cases h

theorem decVal_le {b : UInt8} {d : Nat} (h : decVal b = some d) : d ≤ 9 := by
  unfold decVal at h
  simp only at h
  split at h
  · cases h; omega
  · cases h

/-- invariant of `decimalGo`: with `f` digits still allowed, `(res + 1) * 10^f ≤ 10^10` -/
theorem decimalGo_spec (f : Nat) (inp : List UInt8) (res k : Nat) (hr : (res + 1) * 10 ^ f ≤ 10 ^ 10) :
    ∃ r k', decimalGo f inp res k = .ok (r, k') ∧ k ≤ k' ∧ k' ≤ k + inp.length ∧ r < 10 ^ 10 := by
  have hpos : ∀ n : Nat, 1 ≤ 10 ^ n := fun n => Nat.pos_of_ne_zero (by simp)
  have hres : ∀ (x q : Nat), 1 ≤ q → (x + 1) * q ≤ 10 ^ 10 → x < 10 ^ 10 := by
    intro x q hq h
    have : (x + 1) * 1 ≤ (x + 1) * q := Nat.mul_le_mul_left _ hq
    omega
  induction f generalizing inp res k with
  | zero => exact ⟨res, k, by simp [decimalGo], Nat.le_refl _, by omega, hres _ _ (hpos 0) hr⟩
  | succ f ih =>
    cases inp with
    | nil => exact ⟨res, k, by simp [decimalGo], Nat.le_refl _, by omega, hres _ _ (hpos _) hr⟩
    | cons b rest =>
      unfold decimalGo
      cases hd : decVal b with
      | none => exact ⟨res, k, by simp, Nat.le_refl _, by omega, hres _ _ (hpos _) hr⟩
      | some d =>
        have hd' := decVal_le hd
        have hnext : (res * 10 + d + 1) * 10 ^ f ≤ 10 ^ 10 := by
          have e : (res + 1) * 10 ^ (f + 1) = (res * 10 + 10) * 10 ^ f := by
            rw [Nat.pow_succ, Nat.mul_comm (10 ^ f) 10, ← Nat.mul_assoc, Nat.add_mul]
          rw [e] at hr
          exact Nat.le_trans (Nat.mul_le_mul_right _ (by omega)) hr
        have hlt := hres _ _ (hpos f) hnext
        have hov : res * 10 + d ≤ u64Max := by simp only [u64Max]; omega
        simp only [hov, if_true]
        obtain ⟨r, k', h1, h2, h3, h4⟩ := ih rest (res * 10 + d) (k + 1) hnext
        exact ⟨r, k', h1, by omega, by simp only [List.length_cons]; omega, h4⟩

theorem decimalU32_ne_panic (inp : List UInt8) : decimalU32 inp ≠ .panic := by
  unfold decimalU32
  obtain ⟨r, k', h1, _, h3, _⟩ := decimalGo_spec 10 inp 0 0 (by decide)
  simp only [h1, bind_ok]
  split
  · simp
  · split
    · simp
    · split
      · simp
      · omega

theorem decimalU32_le (inp rest : List UInt8) (v : Nat) (h : decimalU32 inp = .ok (rest, v)) : v ≤ u32Max := by
  unfold decimalU32 at h
  obtain ⟨r, k', h1, _, h3, _⟩ := decimalGo_spec 10 inp 0 0 (by decide)
  simp only [h1, bind_ok] at h
  split at h
  · cases h
  · split at h
    · cases h
    · split at h
      · injection h with h; injection h with _ h2; omega
      · cases h




/-! ### Kernel D -/

theorem lookupIndex_spec (r : BsRes) (len : Nat) (h : BsOk r len) :
    lookupIndex r len = .ok none ∨ ∃ i, i < len ∧ lookupIndex r len = .ok (some i) := by
  cases r with
  | found i => right; exact ⟨i, h, by simp [lookupIndex, (show i < len from h)]⟩
  | notFound i =>
    cases i with
    | zero => left; rfl
    | succ i =>
      right
      have : i < len := by simp only [BsOk] at h; omega
      exact ⟨i, this, by simp [lookupIndex, this]⟩

theorem bsearch1_ok (elem key : Nat) : BsOk (bsearch1 elem key) 1 := by
  unfold bsearch1; split <;> (try split) <;> simp [BsOk]

theorem funcLookup_ne_panic (r : BsRes) (addrs : List Nat) (size addr : Nat) (h : BsOk r addrs.length)
    (ha : ∀ a ∈ addrs, a ≤ u32Max) (hs : size ≤ u32Max) : funcLookup r addrs size addr ≠ .panic := by
  unfold funcLookup
  rcases lookupIndex_spec r _ h with h0 | ⟨i, hi, h0⟩
  · simp [h0]
  · simp only [h0, bind_ok]
    have hget : addrs[i]? = some addrs[i] := by simp [hi]
    simp only [hget]
    have := ha addrs[i] (List.getElem_mem hi)
    have hok : addrs[i] + size ≤ u64Max := by simp only [u32Max, u64Max] at *; omega
    simp only [funcCovers, addU64, hok, if_true, bind_ok, pure_eq]
    split <;> simp

theorem publicLookup_ne_panic (r : BsRes) (addrs : List Nat) (h : BsOk r addrs.length) :
    publicLookup r addrs ≠ .panic := by
  unfold publicLookup
  rcases lookupIndex_spec r _ h with h0 | ⟨i, hi, h0⟩
  · simp [h0]
  · have hget : addrs[i]? = some addrs[i] := by simp [hi]
    simp [h0, hget]

theorem inlineeAt_ne_panic (r : BsRes) (inls : List Inlinee) (depth addr : Nat) (h : BsOk r inls.length) :
    inlineeAt r inls depth addr ≠ .panic := by
  unfold inlineeAt
  rcases lookupIndex_spec r _ h with h0 | ⟨i, hi, h0⟩
  · simp [h0]
  · have hget : inls[i]? = some inls[i] := by simp [hi]
    simp only [h0, bind_ok, hget]
    split
    · simp
    · split
      · simp
      · split <;> simp

theorem sourcelocAt_ne_panic (r : BsRes) (n : Nat) (h : BsOk r n) : sourcelocAt r n ≠ .panic := by
  unfold sourcelocAt
  rcases lookupIndex_spec r _ h with h0 | ⟨i, _, h0⟩ <;> simp [h0]

/-! ### Kernel E -/
theorem readBytesAt_length (data : List UInt8) (off size : Nat) (bs : List UInt8)
    (h : readBytesAt data off size = some bs) : bs.length = size := by
  unfold readBytesAt at h
  split at h
  · split at h
    · injection h with h; subst h; simp; omega
    · cases h
  · cases h

theorem readSection_ne_panic (data : List UInt8) (count elem off : Nat) (eo er : SymErr) (_he : 0 < elem) :
    readSection data count elem off eo er ≠ .panic := by
  unfold readSection checkedMulU32
  split
  · simp
  · rename_i len hlen
    split at hlen
    · injection hlen with hlen
      split
      · simp
      · rename_i bs hbs
        have := readBytesAt_length _ _ _ _ hbs
        simp [refFromBytes, this, ← hlen, Nat.mul_mod_left]
    · cases hlen

theorem parseSymindex_ne_panic (data : List UInt8) (modInfoOk : Bool) :
    parseSymindex data modInfoOk ≠ .panic := by
  unfold parseSymindex
  split
  · simp
  · rename_i hdr hh
    have hl := readBytesAt_length _ _ _ _ hh
    simp only [hl, ne_eq, not_true_eq_false, if_false]
    split
    · simp
    · split
      · simp
      · split
        · simp
        · apply bind_ne_panic _ _ (readSection_ne_panic _ _ _ _ _ _ (by decide))
          intro _ _
          apply bind_ne_panic _ _ (readSection_ne_panic _ _ _ _ _ _ (by decide))
          intro _ _
          apply bind_ne_panic _ _ (readSection_ne_panic _ _ _ _ _ _ (by decide))
          intro _ _
          apply bind_ne_panic _ _ (readSection_ne_panic _ _ _ _ _ _ (by decide))
          intro _ _
          simp

/-- the layout arithmetic stays inside `u32` as long as the serialized file is below 4 GiB -/
theorem symindexLayout_ne_panic (m f i s : Nat)
    (hfit : 48 + (m + 3) + 16 * f + 16 * i + 20 * s ≤ u32Max) : symindexLayout m f i s ≠ .panic := by
  simp only [u32Max] at hfit
  unfold symindexLayout
  have h1 : m + 4 ≤ u32Max := by simp only [u32Max]; omega
  simp only [addU32, h1, if_true, bind_ok, subU32, mulU32]
  have h2 : 1 ≤ m + 4 := by omega
  simp only [h2, if_true, bind_ok]
  have h3 : (m + 4 - 1) / 4 * 4 ≤ u32Max := by simp only [u32Max]; omega
  simp only [h3, if_true, bind_ok]
  have h4 : m ≤ (m + 4 - 1) / 4 * 4 := by omega
  simp only [h4, if_true, bind_ok]
  have h5 : 48 + m ≤ u32Max := by simp only [u32Max]; omega
  simp only [h5, if_true, bind_ok]
  have h6 : 48 + m + ((m + 4 - 1) / 4 * 4 - m) ≤ u32Max := by simp only [u32Max]; omega
  simp only [h6, if_true, bind_ok]
  have h7 : f * 16 ≤ u32Max := by simp only [u32Max]; omega
  simp only [h7, if_true, bind_ok]
  have h8 : 48 + m + ((m + 4 - 1) / 4 * 4 - m) + f * 16 ≤ u32Max := by simp only [u32Max]; omega
  simp only [h8, if_true, bind_ok]
  have h9 : i * 16 ≤ u32Max := by simp only [u32Max]; omega
  simp only [h9, if_true, bind_ok]
  have h10 : 48 + m + ((m + 4 - 1) / 4 * 4 - m) + f * 16 + i * 16 ≤ u32Max := by simp only [u32Max]; omega
  simp only [h10, if_true, bind_ok]
  have h11 : s * 4 ≤ u32Max := by simp only [u32Max]; omega
  simp only [h11, if_true, bind_ok]
  have h12 : 48 + m + ((m + 4 - 1) / 4 * 4 - m) + f * 16 + i * 16 + s * 4 ≤ u32Max := by simp only [u32Max]; omega
  simp only [h12, if_true, bind_ok]
  have h13 : s * 16 ≤ u32Max := by simp only [u32Max]; omega
  simp only [h13, if_true, bind_ok]
  have h14 : 48 + m + ((m + 4 - 1) / 4 * 4 - m) + f * 16 + i * 16 + s * 4 + s * 16 ≤ u32Max := by simp only [u32Max]; omega
  simp only [h14, if_true]
  simp




/-! ### Kernel F -/
theorem consumeGo_spec (rest lo : List UInt8) (cur : Nat) (piece : List UInt8) (out : List (Nat × List UInt8))
    (h1 : lo.length ≤ cur) (h2 : cur + piece.length + rest.length ≤ u64Max) :
    ∃ st' out', consumeGo lo cur piece out rest = .ok (st', out') ∧ st'.leftover.length ≤ st'.cur ∧
      st'.cur = cur + piece.length + rest.length := by
  induction rest generalizing lo cur piece out with
  | nil =>
    refine ⟨⟨lo ++ piece, cur + piece.length⟩, out, ?_, ?_, ?_⟩
    · have : cur + piece.length ≤ u64Max := by simpa using h2
      simp [consumeGo, addU64, this]
    · simp; omega
    · simp
  | cons b rest ih =>
    unfold consumeGo
    simp only [List.length_cons] at h2
    split
    · have hs : ∃ start, (if lo.isEmpty = true then (pure cur : R Nat) else subU64 cur lo.length) = .ok start := by
        split
        · exact ⟨cur, rfl⟩
        · exact ⟨cur - lo.length, by simp [subU64, h1]⟩
      obtain ⟨start, hs⟩ := hs
      have hp1 : piece.length + 1 ≤ u64Max := by omega
      have hc : cur + (piece.length + 1) ≤ u64Max := by omega
      simp only [hs, bind_ok, addU64, hp1, hc, if_true]
      obtain ⟨st', out', e, a, c⟩ := ih [] (cur + (piece.length + 1)) [] (out ++ [(start, lo ++ piece)])
        (by simp) (by simp; omega)
      exact ⟨st', out', e, a, by rw [c]; simp; omega⟩
    · obtain ⟨st', out', e, a, c⟩ := ih lo cur (piece ++ [b]) out h1 (by simp; omega)
      exact ⟨st', out', e, a, by rw [c]; simp; omega⟩

theorem consume_spec (st : LB) (chunk : List UInt8) (h1 : st.leftover.length ≤ st.cur)
    (h2 : st.cur + chunk.length ≤ u64Max) :
    ∃ st' out', st.consume chunk = .ok (st', out') ∧ st'.leftover.length ≤ st'.cur ∧
      st'.cur = st.cur + chunk.length := by
  unfold LB.consume
  simp only [h1, if_true]
  obtain ⟨st', out', e, a, c⟩ := consumeGo_spec chunk st.leftover st.cur [] [] h1 (by simpa using h2)
  exact ⟨st', out', e, a, by simpa using c⟩

theorem finish_ne_panic (st : LB) (h1 : st.leftover.length ≤ st.cur) : st.finish ≠ .panic := by
  unfold LB.finish
  split
  · simp
  · simp [subU64, h1]


theorem lbRun_ne_panic (chunks : List (List UInt8)) (st : LB) (h1 : st.leftover.length ≤ st.cur)
    (h2 : st.cur + totalLen chunks ≤ u64Max) : lbRun st chunks ≠ .panic := by
  induction chunks generalizing st with
  | nil => simpa [lbRun] using finish_ne_panic st h1
  | cons c cs ih =>
    unfold lbRun
    simp only [totalLen, List.map_cons, List.sum_cons] at h2
    obtain ⟨st', out', e, a, cc⟩ := consume_spec st c h1 (by omega)
    simp only [e, bind_ok]
    have := ih st' a (by rw [cc]; simp only [totalLen]; omega)
    cases h : lbRun st' cs with
    | ok v => simp
    | err e => simp
    | panic => exact absurd h this

/-! ### Kernel G -/
theorem fromPrefixedHexStr_ne_panic (s : List UInt8) : fromPrefixedHexStr s ≠ .panic := by
  unfold fromPrefixedHexStr
  split
  · split
    · exact ofOption_ne_panic _
    · simp
  · simp

/-! ### Kernel H -/
theorem asciiFollow_tail (a : UInt8) (s : List UInt8) (h : asciiFollow (a :: s) = true) : asciiFollow s = true := by
  cases s with
  | nil => rfl
  | cons b rest => simp [asciiFollow] at h; exact h.2

theorem isCont_of_ascii (b : UInt8) (h : b.toNat < 128) : isCont b = false := by
  simp [isCont]; omega

/-- a boundary sits before and after the last `-` -/
theorem rsplitDash_spec (s pre post : List UInt8) (h : rsplitDash s = some (pre, post)) :
    ∃ d : UInt8, d.toNat = 45 ∧ s = pre ++ d :: post := by
  induction s generalizing pre with
  | nil => simp [rsplitDash] at h
  | cons b rest ih =>
    unfold rsplitDash at h
    cases hr : rsplitDash rest with
    | some pp =>
      obtain ⟨p1, p2⟩ := pp
      simp only [hr] at h
      injection h with h; injection h with h1 h2
      subst h1; subst h2
      obtain ⟨d, hd, e⟩ := ih p1 hr
      exact ⟨d, hd, by rw [e]; rfl⟩
    | none =>
      simp only [hr] at h
      split at h
      · injection h with h; injection h with h1 h2
        subst h1; subst h2
        exact ⟨b, by assumption, rfl⟩
      · cases h

theorem asciiFollow_drop (pre s : List UInt8) (h : asciiFollow (pre ++ s) = true) : asciiFollow s = true := by
  induction pre with
  | nil => simpa using h
  | cons a pre ih => exact ih (asciiFollow_tail a _ h)

theorem cargoSplit_ne_panic (s : List UInt8) (h : asciiFollow s = true) : cargoSplit s ≠ .panic := by
  unfold cargoSplit
  cases hr : rsplitDash s with
  | none => simp
  | some pp =>
    obtain ⟨pre, post⟩ := pp
    obtain ⟨d, hd, e⟩ := rsplitDash_spec s pre post hr
    simp only
    have hlen : s.length = pre.length + 1 + post.length := by rw [e]; simp; omega
    have hget : s[pre.length]? = some d := by rw [e]; simp
    have hb1 : isCharBoundary s pre.length = true := by
      unfold isCharBoundary
      split
      · rfl
      · split
        · rfl
        · simp [hget, isCont_of_ascii d (by omega)]
    have hb0 : isCharBoundary s 0 = true := by simp [isCharBoundary]
    have hbl : isCharBoundary s s.length = true := by simp [isCharBoundary]
    have hb2 : isCharBoundary s (pre.length + 1) = true := by
      unfold isCharBoundary
      split
      · rfl
      · split
        · rfl
        · cases post with
          | nil => exfalso; simp at hlen; omega
          | cons c post' =>
            have hg : s[pre.length + 1]? = some c := by
              rw [e]; simp
            have haf : asciiFollow (d :: c :: post') = true := asciiFollow_drop pre _ (by rw [← e]; exact h)
            simp only [asciiFollow, Bool.and_eq_true, Bool.not_eq_true', Bool.and_eq_false_imp,
              decide_eq_true_eq] at haf
            simp [hg, haf.1 (by omega)]
    have g1 : strGet s 0 pre.length = some ((s.drop 0).take (pre.length - 0)) := by
      unfold strGet; simp [hb0, hb1]; omega
    have g2 : strGet s (pre.length + 1) s.length = some ((s.drop (pre.length + 1)).take (s.length - (pre.length + 1))) := by
      unfold strGet; simp only [hb2, hbl]; simp; omega
    simp [strIndex, g1, g2]




theorem asciiFollow_prefix (pre post : List UInt8) (h : asciiFollow (pre ++ post) = true) :
    asciiFollow pre = true := by
  induction pre with
  | nil => rfl
  | cons a pre ih =>
    cases pre with
    | nil => rfl
    | cons b rest =>
      simp only [List.cons_append, asciiFollow, Bool.and_eq_true] at h ⊢
      exact ⟨h.1, ih h.2⟩

theorem takeUntil1_parts (c : Nat) (s pre after : List UInt8) (h : takeUntil1 c s = some (pre, after)) :
    ∃ d : UInt8, s = pre ++ d :: after := by
  unfold takeUntil1 at h
  simp only at h
  split at h
  · cases h
  · rename_i d aft hdw
    split at h
    · cases h
    · injection h with h; injection h with h1 h2
      refine ⟨d, ?_⟩
      rw [← h1, ← h2, ← hdw]
      exact (List.takeWhile_append_dropWhile).symm

theorem stripTag_parts (tag s r : List UInt8) (h : stripTag tag s = some r) : ∃ p, s = p ++ r := by
  unfold stripTag at h
  split at h
  · injection h with h
    exact ⟨s.take tag.length, by rw [← h]; exact (List.take_append_drop _ _).symm⟩
  · cases h

theorem specialPath_ne_panic (s : List UInt8) (h : asciiFollow s = true) : specialPath s ≠ .panic := by
  unfold specialPath
  split
  · simp
  · split
    · simp
    · split
      · simp
      · split
        · simp
        · rename_i s1 hs1
          split
          · simp
          · rename_i registry s2 hs2
            split
            · simp
            · rename_i cnv path hs3
              obtain ⟨p1, e1⟩ := stripTag_parts _ _ _ hs1
              obtain ⟨d2, e2⟩ := takeUntil1_parts _ _ _ _ hs2
              obtain ⟨d3, e3⟩ := takeUntil1_parts _ _ _ _ hs3
              have a1 : asciiFollow s1 = true := asciiFollow_drop p1 _ (by rw [← e1]; exact h)
              have a2 : asciiFollow s2 = true := by
                have := asciiFollow_drop registry _ (by rw [← e2]; exact a1)
                exact asciiFollow_tail _ _ this
              have a3 : asciiFollow cnv = true := asciiFollow_prefix cnv (d3 :: path) (by rw [← e3]; exact a2)
              have := cargoSplit_ne_panic cnv a3
              cases hc : cargoSplit cnv with
              | ok v => simp
              | err e => simp
              | panic => exact absurd hc this




theorem isCont_ge (b : UInt8) (h : isCont b = true) : 128 ≤ b.toNat ∧ b.toNat < 192 := by
  simpa [isCont] using h

theorem af_cons_nonascii (a : UInt8) (s : List UInt8) (h : 128 ≤ a.toNat) (hs : asciiFollow s = true) :
    asciiFollow (a :: s) = true := by
  cases s with
  | nil => rfl
  | cons b rest =>
    simp only [asciiFollow, Bool.and_eq_true, Bool.not_eq_true', Bool.and_eq_false_imp, decide_eq_true_eq]
    exact ⟨fun h' => by omega, hs⟩

theorem utf8Shape_head (b : UInt8) (s : List UInt8) (h : utf8Shape (b :: s) = true) : isCont b = false := by
  unfold utf8Shape at h
  simp only [isCont]
  split at h
  · simp; omega
  · split at h
    · simp; omega
    · split at h
      · simp; omega
      · split at h
        · simp; omega
        · cases h

theorem utf8Shape_asciiFollow (s : List UInt8) (h : utf8Shape s = true) : asciiFollow s = true := by
  fun_induction utf8Shape s with
  | case1 => rfl
  | case2 b rest hb ih =>
    have ih := ih h
    cases rest with
    | nil => rfl
    | cons c r =>
      simp only [asciiFollow, Bool.and_eq_true, Bool.not_eq_true', Bool.and_eq_false_imp, decide_eq_true_eq]
      exact ⟨fun _ => utf8Shape_head c r h, ih⟩
  | case3 b hb h2 c1 r ih =>
    simp only [Bool.and_eq_true] at h
    exact af_cons_nonascii _ _ (by omega) (af_cons_nonascii _ _ (isCont_ge _ h.1).1 (ih h.2))
  | case4 => cases h
  | case5 b hb h2 h3 c1 c2 r ih =>
    simp only [Bool.and_eq_true] at h
    exact af_cons_nonascii _ _ (by omega) (af_cons_nonascii _ _ (isCont_ge _ h.1.1).1
      (af_cons_nonascii _ _ (isCont_ge _ h.1.2).1 (ih h.2)))
  | case6 => cases h
  | case7 b hb h2 h3 h4 c1 c2 c3 r ih =>
    simp only [Bool.and_eq_true] at h
    exact af_cons_nonascii _ _ (by omega) (af_cons_nonascii _ _ (isCont_ge _ h.1.1.1).1
      (af_cons_nonascii _ _ (isCont_ge _ h.1.1.2).1 (af_cons_nonascii _ _ (isCont_ge _ h.1.2).1 (ih h.2))))
  | case8 => cases h
  | case9 => cases h




theorem fullHex32_spec (tok : List UInt8) :
    fullHex 32 tok = .err () ∨ ∃ v, fullHex 32 tok = .ok v ∧ v ≤ u32Max := by
  unfold fullHex
  cases h : hexStr 32 tok with
  | ok p =>
    obtain ⟨rest, v⟩ := p
    simp only [bind_ok]
    split
    · right; exact ⟨v, rfl, hexStr32_lt _ _ _ h⟩
    · left; rfl
  | err e => left; rfl
  | panic => exact absurd h (hexStr_ne_panic _ _)

theorem fullHex64_spec (tok : List UInt8) :
    fullHex 64 tok = .err () ∨ ∃ v, fullHex 64 tok = .ok v ∧ v ≤ u64Max := by
  unfold fullHex
  cases h : hexStr 64 tok with
  | ok p =>
    obtain ⟨rest, v⟩ := p
    simp only [bind_ok]
    split
    · right; exact ⟨v, rfl, hexStr64_lt _ _ _ h⟩
    · left; rfl
  | err e => left; rfl
  | panic => exact absurd h (hexStr_ne_panic _ _)

theorem fullDec_spec (tok : List UInt8) :
    fullDec tok = .err () ∨ ∃ v, fullDec tok = .ok v ∧ v ≤ u32Max := by
  unfold fullDec
  cases h : decimalU32 tok with
  | ok p =>
    obtain ⟨rest, v⟩ := p
    simp only [bind_ok]
    split
    · right; exact ⟨v, rfl, decimalU32_le _ _ _ h⟩
    · left; rfl
  | err e => left; rfl
  | panic => exact absurd h (decimalU32_ne_panic _)

theorem bpFunc_ne_panic (aTok sTok : List UInt8) (addr : Nat) : bpFunc false aTok sTok addr ≠ .panic := by
  unfold bpFunc
  rcases fullHex32_spec aTok with ha | ⟨a, ha, hal⟩
  · simp [ha, orNone]
  · rcases fullHex32_spec sTok with hs | ⟨s, hs, hsl⟩
    · simp [ha, hs, orNone]
    · simp only [ha, hs, bind_ok, pure_eq, orNone]
      exact funcLookup_ne_panic _ _ _ _ (bsearch1_ok _ _) (by simpa using hal) hsl

theorem bpPublic_ne_panic (aTok : List UInt8) (addr : Nat) : bpPublic aTok addr ≠ .panic := by
  unfold bpPublic
  rcases fullHex64_spec aTok with ha | ⟨a, ha, _⟩
  · simp [ha, orNone]
  · simp only [ha, orNone, bind_ok]
    exact publicLookup_ne_panic _ _ (bsearch1_ok _ _)

theorem prefixHex32_spec (tok : List UInt8) :
    prefixHex 32 tok = .err () ∨ ∃ v, prefixHex 32 tok = .ok v ∧ v ≤ u32Max := by
  unfold prefixHex
  cases h : hexStr 32 tok with
  | ok p =>
    obtain ⟨rest, v⟩ := p
    right; exact ⟨v, rfl, hexStr32_lt _ _ _ h⟩
  | err e => left; rfl
  | panic => exact absurd h (hexStr_ne_panic _ _)

theorem prefixDec_spec (tok : List UInt8) :
    prefixDec tok = .err () ∨ ∃ v, prefixDec tok = .ok v ∧ v ≤ u32Max := by
  unfold prefixDec
  cases h : decimalU32 tok with
  | ok p =>
    obtain ⟨rest, v⟩ := p
    right; exact ⟨v, rfl, decimalU32_le _ _ _ h⟩
  | err e => left; rfl
  | panic => exact absurd h (decimalU32_ne_panic _)

theorem bpLine_ne_panic (aTok sTok lTok fTok : List UInt8) (addr : Nat) :
    bpLine aTok sTok lTok fTok addr ≠ .panic := by
  unfold bpLine
  split
  · simp
  rcases fullHex64_spec aTok with ha | ⟨a, ha, _⟩
  · simp [ha, orNone]
  · rcases fullHex32_spec sTok with hs | ⟨s, hs, _⟩
    · simp [ha, hs, orNone]
    · rcases fullDec_spec lTok with hl | ⟨l, hl, _⟩
      · simp [ha, hs, hl, orNone]
      · rcases prefixDec_spec fTok with hf | ⟨f, hf, _⟩
        · simp [ha, hs, hl, hf, orNone]
        · simp only [ha, hs, hl, hf, bind_ok, pure_eq, orNone]
          have := sourcelocAt_ne_panic (bsearch1 (a % two32) addr) 1 (bsearch1_ok _ _)
          cases h : sourcelocAt (bsearch1 (a % two32) addr) 1 with
          | ok v => cases v <;> simp
          | err e => simp
          | panic => exact absurd h this

theorem bsearchInl1_ok (inl : Inlinee) (d a : Nat) : BsOk (bsearchInl1 inl d a) 1 := by
  unfold bsearchInl1; split <;> (try split) <;> simp [BsOk]

theorem bpInline_ne_panic (dTok aTok sTok : List UInt8) (addr : Nat) :
    bpInline dTok aTok sTok addr ≠ .panic := by
  unfold bpInline
  split
  · simp
  rcases fullDec_spec dTok with hd | ⟨d, hd, _⟩
  · simp [hd, orNone]
  · rcases fullHex32_spec aTok with ha | ⟨a, ha, _⟩
    · simp [hd, ha, orNone]
    · rcases prefixHex32_spec sTok with hs | ⟨s, hs, _⟩
      · simp [hd, ha, hs, orNone]
      · simp only [hd, ha, hs, bind_ok, pure_eq, orNone]
        have h0 := inlineeAt_ne_panic (bsearchInl1 ⟨d, a, s⟩ 0 addr) [⟨d, a, s⟩] 0 addr (bsearchInl1_ok _ _ _)
        have h1 := inlineeAt_ne_panic (bsearchInl1 ⟨d, a, s⟩ 1 addr) [⟨d, a, s⟩] 1 addr (bsearchInl1_ok _ _ _)
        cases e0 : inlineeAt (bsearchInl1 ⟨d, a, s⟩ 0 addr) [⟨d, a, s⟩] 0 addr with
        | ok v =>
          cases v with
          | none => simp
          | some x =>
            simp only [bind_ok]
            cases e1 : inlineeAt (bsearchInl1 ⟨d, a, s⟩ 1 addr) [⟨d, a, s⟩] 1 addr with
            | ok w => cases w <;> simp
            | err e => simp
            | panic => exact absurd e1 h1
        | err e => simp
        | panic => exact absurd e0 h0


end PK
