import SamplyModel.Lemmas.LifeBasic
/-!
The simulation relation between the converter model (`Conv.St`: handles into entry tables) and the eager
lifecycle specification (`ConvSpec.Life.S`: incarnation tables searched for the alive one), for C17.

* `Tab s l`  — the entry tables are the incarnation tables (`pOf` / `tOf` forget the `alive` flag and apply the
  `<pid>` placeholder), the pid / tid suffix counters count incarnations, clock and reference agree;
* `Live procs l` — the handles stored in the process table point exactly at the alive incarnations.
-/
open Conv ConvSpec

namespace LifeL

def pOf (p : Life.PInc) : PEntry :=
  { pid := p.pid, suffix := p.suffix, name := p.name.getD (pidLabel p.pid), start := p.start, end_ := p.end_ }

def tOf (t : Life.TInc) : TEntry :=
  { proc := t.pinc, tid := t.tid, suffix := t.suffix, name := t.name, start := t.start, end_ := t.end_,
    isMain := t.isMain }

/-- the thread handle `t`, bound under `tid` in the process with handle `ph`, points at an alive incarnation -/
def ThrOK (l : Life.S) (ph tid : Nat) (isMain : Bool) (t : ThreadC) : Prop :=
  ∃ ti, l.ts[t.h]? = some ti ∧ ti.alive = true ∧ ti.pinc = ph ∧ ti.tid = tid ∧ ti.isMain = isMain ∧
    ti.name = t.name

structure ProcOK (l : Life.S) (pid : Nat) (p : ProcC) : Prop where
  pid_eq : p.pid = pid
  pinc : ∃ pi, l.ps[p.h]? = some pi ∧ pi.alive = true ∧ pi.pid = pid ∧ pi.name = p.name
  mname : p.main.name = p.name
  main : ThrOK l p.h pid true p.main
  thr : ∀ tid t, (tid, t) ∈ p.threads → tid ≠ pid ∧ ThrOK l p.h tid false t
  /-- every alive thread incarnation of this process incarnation is reachable from the handles -/
  back : ∀ (i : Nat) (ti : Life.TInc), l.ts[i]? = some ti → ti.alive = true → ti.pinc = p.h →
    (ti.isMain = true → p.main.h = i) ∧ (ti.isMain = false → ∃ t, alGet p.threads ti.tid = some t ∧ t.h = i)

structure Live (procs : List (Nat × ProcC)) (l : Life.S) : Prop where
  fwd : ∀ pid p, (pid, p) ∈ procs → ProcOK l pid p
  backP : ∀ (j : Nat) (pi : Life.PInc), l.ps[j]? = some pi → pi.alive = true →
    ∃ p, alGet procs pi.pid = some p ∧ p.h = j
  backT : ∀ (i : Nat) (ti : Life.TInc), l.ts[i]? = some ti → ti.alive = true →
    ∃ pi, l.ps[ti.pinc]? = some pi ∧ pi.alive = true

structure Tab (s : St) (l : Life.S) : Prop where
  cur : s.cur = l.cur
  ref : s.cfg.ref = l.ref
  reuse : s.cfg.reuse = false
  pents : s.pents = l.ps.map pOf
  tents : s.tents = l.ts.map tOf
  upids : ∀ pid, (alGet s.usedPids pid).getD 0 = Life.countP l pid
  utids : ∀ tid, (alGet s.usedTids tid).getD 0 = Life.countT l tid

structure Sim (s : St) (l : Life.S) : Prop where
  tab : Tab s l
  live : Live s.procs l

/-! ### What the handles say about the searches of the specification -/

theorem Live.ok {procs l pid p} (h : Live procs l) (hb : alGet procs pid = some p) : ProcOK l pid p :=
  h.fwd _ _ (alGet_eq_some_mem hb)

theorem Live.curProc_bound {procs l pid p} (h : Live procs l) (hb : alGet procs pid = some p) :
    Life.curProc l pid = some p.h := by
  obtain ⟨pi, hpi, hal, hpid, _⟩ := (h.ok hb).pinc
  obtain ⟨j, hj⟩ := findIdx_exists (q := fun p => p.alive && p.pid == pid) hpi (by simp [hal, hpid])
  obtain ⟨pj, hpj, hq⟩ := findIdx_some hj
  simp only [Bool.and_eq_true, beq_iff_eq] at hq
  obtain ⟨p', hb', hh⟩ := h.backP j pj hpj hq.1
  rw [hq.2, hb] at hb'
  cases hb'
  unfold Life.curProc
  rw [hj, hh]

theorem Live.curProc_unbound {procs l pid} (h : Live procs l) (hb : alGet procs pid = none) :
    Life.curProc l pid = none := by
  cases hc : Life.curProc l pid with
  | none => rfl
  | some j =>
    obtain ⟨pj, hpj, hq⟩ := findIdx_some hc
    simp only [Bool.and_eq_true, beq_iff_eq] at hq
    obtain ⟨p', hb', _⟩ := h.backP j pj hpj hq.1
    rw [hq.2, hb] at hb'
    cases hb'

theorem ProcOK.curThread_main {l pid p} (h : ProcOK l pid p) : Life.curThread l p.h pid = some p.main.h := by
  obtain ⟨ti, hti, hal, hpinc, htid, hmain, _⟩ := h.main
  obtain ⟨i, hi⟩ := findIdx_exists (q := fun t => t.alive && t.pinc == p.h && t.tid == pid) hti
    (by simp [hal, hpinc, htid])
  obtain ⟨tj, htj, hq⟩ := findIdx_some hi
  simp only [Bool.and_eq_true, beq_iff_eq] at hq
  obtain ⟨⟨h1, h2⟩, h3⟩ := hq
  have hb := h.back i tj htj h1 h2
  unfold Life.curThread
  rw [hi]
  cases hm : tj.isMain with
  | true => rw [hb.1 hm]
  | false =>
    obtain ⟨t, ht, _⟩ := hb.2 hm
    rw [h3] at ht
    exact absurd rfl (h.thr _ _ (alGet_eq_some_mem ht)).1

theorem ProcOK.curThread_bound {l pid p tid t} (h : ProcOK l pid p) (ht : alGet p.threads tid = some t) :
    Life.curThread l p.h tid = some t.h := by
  obtain ⟨hne, ti, hti, hal, hpinc, htid, hmain, _⟩ := h.thr _ _ (alGet_eq_some_mem ht)
  obtain ⟨i, hi⟩ := findIdx_exists (q := fun t => t.alive && t.pinc == p.h && t.tid == tid) hti
    (by simp [hal, hpinc, htid])
  obtain ⟨tj, htj, hq⟩ := findIdx_some hi
  simp only [Bool.and_eq_true, beq_iff_eq] at hq
  obtain ⟨⟨h1, h2⟩, h3⟩ := hq
  have hb := h.back i tj htj h1 h2
  unfold Life.curThread
  rw [hi]
  cases hm : tj.isMain with
  | true =>
    have := hb.1 hm
    obtain ⟨tm, htm, _, _, htidm, _⟩ := h.main
    rw [this, htj] at htm
    cases htm
    exact absurd (h3.symm.trans htidm) hne
  | false =>
    obtain ⟨t', ht', hh⟩ := hb.2 hm
    rw [h3, ht] at ht'
    cases ht'
    rw [hh]

theorem ProcOK.curThread_unbound {l pid p tid} (h : ProcOK l pid p) (hne : tid ≠ pid)
    (ht : alGet p.threads tid = none) : Life.curThread l p.h tid = none := by
  cases hc : Life.curThread l p.h tid with
  | none => rfl
  | some i =>
    obtain ⟨tj, htj, hq⟩ := findIdx_some hc
    simp only [Bool.and_eq_true, beq_iff_eq] at hq
    obtain ⟨⟨h1, h2⟩, h3⟩ := hq
    have hb := h.back i tj htj h1 h2
    cases hm : tj.isMain with
    | true =>
      have := hb.1 hm
      obtain ⟨tm, htm, _, _, htidm, _⟩ := h.main
      rw [this, htj] at htm
      cases htm
      exact absurd (h3.symm.trans htidm) hne
    | false =>
      obtain ⟨t', ht', _⟩ := hb.2 hm
      rw [h3, ht] at ht'
      cases ht'

/-- distinct pids are bound to distinct process handles -/
theorem Live.h_ne {procs : List (Nat × ProcC)} {l : Life.S} {pid pid' : Nat} {p p' : ProcC} (h : Live procs l) (hp : (pid, p) ∈ procs) (hp' : (pid', p') ∈ procs)
    (hne : pid' ≠ pid) : p'.h ≠ p.h := by
  intro heq
  obtain ⟨pi, hpi, _, hpid, _⟩ := (h.fwd _ _ hp).pinc
  obtain ⟨pi', hpi', _, hpid', _⟩ := (h.fwd _ _ hp').pinc
  rw [heq, hpi] at hpi'
  cases hpi'
  exact hne (hpid'.symm.trans hpid)

/-! ### Frame and update -/

theorem ProcOK.frame {l l' : Life.S} {pid : Nat} {q : ProcC} (h : ProcOK l pid q)
    (hps : ∀ pi, l.ps[q.h]? = some pi → l'.ps[q.h]? = some pi)
    (hts : ∀ (i : Nat) (ti : Life.TInc), l.ts[i]? = some ti → ti.pinc = q.h → l'.ts[i]? = some ti)
    (hback : ∀ (i : Nat) (ti : Life.TInc), l'.ts[i]? = some ti → ti.alive = true → ti.pinc = q.h →
      l.ts[i]? = some ti) : ProcOK l' pid q := by
  refine ⟨h.pid_eq, ?_, h.mname, ?_, ?_, ?_⟩
  · obtain ⟨pi, hpi, r⟩ := h.pinc
    exact ⟨pi, hps _ hpi, r⟩
  · obtain ⟨ti, hti, hal, hpinc, r⟩ := h.main
    exact ⟨ti, hts _ _ hti hpinc, hal, hpinc, r⟩
  · intro tid t hm
    obtain ⟨hne, ti, hti, hal, hpinc, r⟩ := h.thr tid t hm
    exact ⟨hne, ti, hts _ _ hti hpinc, hal, hpinc, r⟩
  · intro i ti hti hal hpinc
    exact h.back i ti (hback i ti hti hal hpinc) hal hpinc

theorem Live.update {procs : List (Nat × ProcC)} {l l' : Life.S} {pid : Nat} {p p' : ProcC}
    (h : Live procs l) (hb : alGet procs pid = some p) (hh : p'.h = p.h) (hok : ProcOK l' pid p')
    (hps : ∀ (j : Nat), j ≠ p.h → l'.ps[j]? = l.ps[j]?)
    (hts : ∀ (i : Nat) (ti : Life.TInc), ti.pinc ≠ p.h → (l'.ts[i]? = some ti ↔ l.ts[i]? = some ti)) :
    Live (alPut procs pid p') l' := by
  have hmem := alGet_eq_some_mem hb
  refine ⟨?_, ?_, ?_⟩
  · intro pid' q hq
    rcases mem_alPut.mp hq with ⟨h1, h2⟩ | ⟨h1, h2⟩
    · subst h1; subst h2; exact hok
    · have hne := h.h_ne hmem h2 h1
      refine (h.fwd _ _ h2).frame ?_ ?_ ?_
      · intro pi hpi; rw [hps _ hne]; exact hpi
      · intro i ti hti hpinc; exact (hts i ti (by rw [hpinc]; exact hne)).mpr hti
      · intro i ti hti _ hpinc; exact (hts i ti (by rw [hpinc]; exact hne)).mp hti
  · intro j pi hpi hal
    by_cases hj : j = p.h
    · obtain ⟨pi', hpi', _, hpid', _⟩ := hok.pinc
      rw [hh, ← hj, hpi] at hpi'
      cases hpi'
      exact ⟨p', by rw [hpid', alGet_alPut_self], by rw [hh, hj]⟩
    · rw [hps j hj] at hpi
      obtain ⟨q, hq, hqh⟩ := h.backP j pi hpi hal
      have : pi.pid ≠ pid := by
        intro heq; rw [heq, hb] at hq; cases hq; exact hj hqh.symm
      exact ⟨q, by rw [alGet_alPut_ne _ _ _ _ this]; exact hq, hqh⟩
  · intro i ti hti hal
    by_cases hp : ti.pinc = p.h
    · obtain ⟨pi', hpi', hal', _⟩ := hok.pinc
      exact ⟨pi', by rw [hp, ← hh]; exact hpi', hal'⟩
    · obtain ⟨pi, hpi, hal'⟩ := h.backT i ti ((hts i ti hp).mp hti) hal
      exact ⟨pi, by rw [hps _ hp]; exact hpi, hal'⟩

/-! ### A new process incarnation -/

theorem Live.newProc {procs : List (Nat × ProcC)} {l : Life.S} {pid : Nat} (h : Live procs l)
    (hb : alGet procs pid = none) (name : Option String) (start : Nat) (p : ProcC)
    (hpid : p.pid = pid) (hh : p.h = l.ps.length) (hname : p.name = name) (hmh : p.main.h = l.ts.length)
    (hmn : p.main.name = name) (hthr : p.threads = []) :
    Live (alPut procs pid p) (Life.newProc l pid name start).1 := by
  simp only [Life.newProc]
  have hlt : ∀ (i : Nat) (ti : Life.TInc), l.ts[i]? = some ti → ti.alive = true → ti.pinc < l.ps.length := by
    intro i ti hti hal
    obtain ⟨pi, hpi, _⟩ := h.backT i ti hti hal
    exact lt_of_getElem?_some hpi
  refine ⟨?_, ?_, ?_⟩
  · intro pid' q hq
    rcases mem_alPut.mp hq with ⟨h1, h2⟩ | ⟨h1, h2⟩
    · subst h1; subst h2
      refine ⟨hpid, ?_, by rw [hmn, hname], ?_, ?_, ?_⟩
      · exact ⟨_, by rw [hh]; exact getElem?_concat_len _ _, rfl, rfl, hname.symm⟩
      · exact ⟨_, by rw [hmh]; exact getElem?_concat_len _ _, rfl, hh.symm, rfl, rfl, hmn.symm⟩
      · intro tid t hm; rw [hthr] at hm; cases hm
      · intro i ti hti hal hpinc
        simp only [getElem?_concat] at hti
        split at hti
        · have := hlt i ti hti hal; omega
        · split at hti
          · next hi => cases hti; simp [hmh, hi]
          · cases hti
    · have hq' := h.fwd _ _ h2
      have hqlt : q.h < l.ps.length := by
        obtain ⟨pi, hpi, _⟩ := hq'.pinc
        exact lt_of_getElem?_some hpi
      refine hq'.frame ?_ ?_ ?_
      · intro pi hpi; exact getElem?_concat_of_some _ hpi
      · intro i ti hti _; exact getElem?_concat_of_some _ hti
      · intro i ti hti _ hpinc
        simp only [getElem?_concat] at hti
        split at hti
        · exact hti
        · split at hti
          · cases hti; simp at hpinc; omega
          · cases hti
  · intro j pi hpi hal
    simp only [getElem?_concat] at hpi
    split at hpi
    · obtain ⟨q, hq, hqh⟩ := h.backP j pi hpi hal
      have : pi.pid ≠ pid := by intro heq; rw [heq, hb] at hq; cases hq
      exact ⟨q, by rw [alGet_alPut_ne _ _ _ _ this]; exact hq, hqh⟩
    · split at hpi
      · next hj => cases hpi; exact ⟨p, by simp [alGet_alPut_self], by rw [hh, hj]⟩
      · cases hpi
  · intro i ti hti hal
    simp only [getElem?_concat] at hti
    split at hti
    · obtain ⟨pi, hpi, hal'⟩ := h.backT i ti hti hal
      exact ⟨pi, getElem?_concat_of_some _ hpi, hal'⟩
    · split at hti
      · cases hti; exact ⟨_, getElem?_concat_len _ _, rfl⟩
      · cases hti

/-! ### The end of a process incarnation -/

def killT (pi time : Nat) (t : Life.TInc) : Life.TInc :=
  if t.alive && t.pinc == pi then { t with end_ := some time, alive := false } else t

theorem killT_alive {pi time : Nat} {t : Life.TInc} (h : (killT pi time t).alive = true) :
    killT pi time t = t ∧ t.pinc ≠ pi := by
  unfold killT at h ⊢
  split at h
  · simp at h
  · next hc =>
    simp only [Bool.and_eq_true, beq_iff_eq, not_and] at hc
    simp only [Bool.and_eq_true, beq_iff_eq]
    exact ⟨by rw [if_neg]; intro hh; exact hc hh.1 hh.2, hc h⟩

theorem killT_ne {pi time : Nat} {t : Life.TInc} (h : t.pinc ≠ pi) : killT pi time t = t := by
  unfold killT; simp [h]

theorem Live.endProc {procs : List (Nat × ProcC)} {l : Life.S} {pid : Nat} {p : ProcC} (h : Live procs l)
    (hb : alGet procs pid = some p) (time : Nat) : Live (alDel procs pid) (Life.endProc l p.h time) := by
  have hmem := alGet_eq_some_mem hb
  have hE : Life.endProc l p.h time =
      { l with ts := l.ts.map (killT p.h time),
               ps := modifyNth l.ps p.h (fun p => { p with end_ := some time, alive := false }) } := rfl
  rw [hE]
  refine ⟨?_, ?_, ?_⟩
  · intro pid' q hq
    obtain ⟨h1, h2⟩ := mem_alDel.mp hq
    have hne := h.h_ne hmem h2 h1
    refine (h.fwd _ _ h2).frame ?_ ?_ ?_
    · intro pi hpi
      simp only [getElem?_modifyNth, if_neg (Ne.symm hne)]; exact hpi
    · intro i ti hti hpinc
      simp only [List.getElem?_map, hti, Option.map_some, killT_ne (hpinc ▸ hne)]
    · intro i ti hti hal hpinc
      simp only [List.getElem?_map] at hti
      cases hx : l.ts[i]? with
      | none => simp [hx] at hti
      | some x =>
        simp only [hx, Option.map_some, Option.some.injEq] at hti
        subst hti
        rw [(killT_alive hal).1]
  · intro j pi hpi hal
    simp only [getElem?_modifyNth] at hpi
    split at hpi
    · cases hx : l.ps[j]? with
      | none => simp [hx] at hpi
      | some x => simp only [hx, Option.map_some, Option.some.injEq] at hpi; subst hpi; simp at hal
    · next hj =>
      obtain ⟨q, hq, hqh⟩ := h.backP j pi hpi hal
      have : pi.pid ≠ pid := by
        intro heq; rw [heq, hb] at hq; cases hq; exact hj hqh
      exact ⟨q, by rw [alGet_alDel_ne _ _ _ this]; exact hq, hqh⟩
  · intro i ti hti hal
    simp only [List.getElem?_map] at hti
    cases hx : l.ts[i]? with
    | none => simp [hx] at hti
    | some x =>
      simp only [hx, Option.map_some, Option.some.injEq] at hti
      subst hti
      obtain ⟨e1, e2⟩ := killT_alive hal
      rw [e1] at hal ⊢
      obtain ⟨pi, hpi, hal'⟩ := h.backT i x hx hal
      exact ⟨pi, by simp only [getElem?_modifyNth, if_neg (Ne.symm e2)]; exact hpi, hal'⟩

/-! ### Touching a process record -/

theorem ThrOK.congr {l : Life.S} {ph tid : Nat} {m : Bool} {t t' : ThreadC} (h : ThrOK l ph tid m t)
    (hh : t'.h = t.h) (hn : t'.name = t.name) : ThrOK l ph tid m t' := by
  obtain ⟨ti, hti, r1, r2, r3, r4, r5⟩ := h
  exact ⟨ti, by rw [hh]; exact hti, r1, r2, r3, r4, by rw [hn]; exact r5⟩

theorem ProcOK.thr_h_ne_main {l : Life.S} {pid : Nat} {p : ProcC} (h : ProcOK l pid p) {tid : Nat} {t : ThreadC}
    (ht : (tid, t) ∈ p.threads) : t.h ≠ p.main.h := by
  intro heq
  obtain ⟨_, ti, hti, _, _, _, hm, _⟩ := h.thr _ _ ht
  obtain ⟨tm, htm, _, _, _, hm', _⟩ := h.main
  rw [heq, htm] at hti; cases hti
  rw [hm] at hm'; cases hm'

theorem ProcOK.thr_h_ne {l : Life.S} {pid : Nat} {p : ProcC} (h : ProcOK l pid p) {tid tid' : Nat}
    {t t' : ThreadC} (ht : (tid, t) ∈ p.threads) (ht' : (tid', t') ∈ p.threads) (hne : tid' ≠ tid) :
    t'.h ≠ t.h := by
  intro heq
  obtain ⟨_, ti, hti, _, _, htid, _⟩ := h.thr _ _ ht
  obtain ⟨_, ti', hti', _, _, htid', _⟩ := h.thr _ _ ht'
  rw [heq, hti] at hti'; cases hti'
  exact hne (htid'.symm.trans htid)

/-- touching fields of a process that carry no lifecycle information (`lastTs`, buffers, pools) -/
structure PEq (p p' : ProcC) : Prop where
  pid : p'.pid = p.pid
  h : p'.h = p.h
  name : p'.name = p.name
  mh : p'.main.h = p.main.h
  mn : p'.main.name = p.main.name
  fwd : ∀ tid t', (tid, t') ∈ p'.threads → ∃ t, (tid, t) ∈ p.threads ∧ t'.h = t.h ∧ t'.name = t.name
  bwd : ∀ tid t, alGet p.threads tid = some t → ∃ t', alGet p'.threads tid = some t' ∧ t'.h = t.h

theorem ProcOK.peq {l : Life.S} {pid : Nat} {p p' : ProcC} (h : ProcOK l pid p) (e : PEq p p') :
    ProcOK l pid p' := by
  refine ⟨e.pid.trans h.pid_eq, ?_, by rw [e.mn, e.name]; exact h.mname, ?_, ?_, ?_⟩
  · rw [e.h, e.name]; exact h.pinc
  · rw [e.h]; exact h.main.congr e.mh e.mn
  · intro tid t' ht'
    obtain ⟨t, ht, hh, hn⟩ := e.fwd tid t' ht'
    obtain ⟨hne, hok⟩ := h.thr tid t ht
    rw [e.h]
    exact ⟨hne, hok.congr hh hn⟩
  · intro i ti hti hal hpinc
    rw [e.h] at hpinc
    obtain ⟨b1, b2⟩ := h.back i ti hti hal hpinc
    refine ⟨fun hm => by rw [e.mh]; exact b1 hm, fun hm => ?_⟩
    obtain ⟨t, ht, hh⟩ := b2 hm
    obtain ⟨t', ht', hh'⟩ := e.bwd _ _ ht
    exact ⟨t', ht', hh'.trans hh⟩

theorem Live.touch {procs : List (Nat × ProcC)} {l : Life.S} {pid : Nat} {p p' : ProcC}
    (h : Live procs l) (hb : alGet procs pid = some p) (e : PEq p p') : Live (alPut procs pid p') l :=
  h.update hb e.h ((h.ok hb).peq e) (fun _ _ => rfl) (fun _ _ _ => Iff.rfl)

theorem PEq.of_same {p p' : ProcC} (h1 : p'.pid = p.pid) (h2 : p'.h = p.h) (h3 : p'.name = p.name)
    (h4 : p'.main = p.main) (h5 : p'.threads = p.threads) : PEq p p' :=
  ⟨h1, h2, h3, by rw [h4], by rw [h4], fun tid t' ht' => ⟨t', by rw [← h5]; exact ht', rfl, rfl⟩,
   fun tid t ht => ⟨t, by rw [h5]; exact ht, rfl⟩⟩

theorem PEq.trans {p p' p'' : ProcC} (e : PEq p p') (e' : PEq p' p'') : PEq p p'' := by
  refine ⟨e'.pid.trans e.pid, e'.h.trans e.h, e'.name.trans e.name, e'.mh.trans e.mh, e'.mn.trans e.mn, ?_, ?_⟩
  · intro tid t'' h''
    obtain ⟨t', h', a, b⟩ := e'.fwd _ _ h''
    obtain ⟨t, h0, c, d⟩ := e.fwd _ _ h'
    exact ⟨t, h0, a.trans c, b.trans d⟩
  · intro tid t h0
    obtain ⟨t', h', a⟩ := e.bwd _ _ h0
    obtain ⟨t'', h'', b⟩ := e'.bwd _ _ h'
    exact ⟨t'', h'', b.trans a⟩

/-- `putThread` with a thread record that keeps handle and name -/
theorem PEq.putThread {p : ProcC} {tid : Nat} {th th' : ThreadC}
    (hth : if tid = p.pid then th = p.main else alGet p.threads tid = some th)
    (hh : th'.h = th.h) (hn : th'.name = th.name) : PEq p (putThread p tid th') := by
  unfold Conv.putThread
  split
  · next heq =>
    rw [if_pos heq] at hth
    subst hth
    exact ⟨rfl, rfl, rfl, hh, hn, fun tid t' ht' => ⟨t', ht', rfl, rfl⟩, fun tid t ht => ⟨t, ht, rfl⟩⟩
  · next hne =>
    rw [if_neg hne] at hth
    refine ⟨rfl, rfl, rfl, rfl, rfl, ?_, ?_⟩
    · intro tid' t' ht'
      rcases mem_alPut.mp ht' with ⟨h1, h2⟩ | ⟨h1, h2⟩
      · subst h1; subst h2; exact ⟨th, alGet_eq_some_mem hth, hh, hn⟩
      · exact ⟨t', h2, rfl, rfl⟩
    · intro tid' t ht
      by_cases heq : tid' = tid
      · subst heq
        rw [hth] at ht; cases ht
        exact ⟨th', alGet_alPut_self _ _ _, hh⟩
      · exact ⟨t, by simp only [alGet_alPut_ne _ _ _ _ heq]; exact ht, rfl⟩

/-! ### New thread, rename, end of a thread -/

theorem ThrOK.concat {l : Life.S} {ph tid : Nat} {m : Bool} {t : ThreadC} (h : ThrOK l ph tid m t)
    (x : Life.TInc) : ThrOK { l with ts := l.ts ++ [x] } ph tid m t := by
  obtain ⟨ti, hti, r⟩ := h
  exact ⟨ti, getElem?_concat_of_some _ hti, r⟩

theorem ThrOK.modT_ne {l : Life.S} {ph tid : Nat} {m : Bool} {t : ThreadC} (h : ThrOK l ph tid m t)
    (k : Nat) (f : Life.TInc → Life.TInc) (hne : k ≠ t.h) :
    ThrOK { l with ts := modifyNth l.ts k f } ph tid m t := by
  obtain ⟨ti, hti, r⟩ := h
  exact ⟨ti, by simp only [getElem?_modifyNth, if_neg hne]; exact hti, r⟩

theorem Live.newThread {procs : List (Nat × ProcC)} {l : Life.S} {pid tid : Nat} {p p' : ProcC}
    (h : Live procs l) (hb : alGet procs pid = some p) (hne : tid ≠ pid) (hnb : alGet p.threads tid = none)
    (name : Option String) (start : Nat) (t : ThreadC)
    (hpid : p'.pid = p.pid) (hh : p'.h = p.h) (hname : p'.name = p.name) (hmain : p'.main = p.main)
    (hthr : p'.threads = alPut p.threads tid t) (hth : t.h = l.ts.length) (htn : t.name = name) :
    Live (alPut procs pid p') (Life.newThread l p.h tid name start) := by
  have hok := h.ok hb
  have hE : Life.newThread l p.h tid name start = { l with ts := l.ts ++
    [{ pinc := p.h, tid, suffix := Life.countT l tid, name, start, isMain := false }] } := rfl
  rw [hE]
  refine h.update hb hh ?_ (fun _ _ => rfl) ?_
  · refine ⟨hpid.trans hok.pid_eq, by rw [hh, hname]; exact hok.pinc, by rw [hmain, hname]; exact hok.mname,
      by rw [hh, hmain]; exact hok.main.concat _, ?_, ?_⟩
    · intro tid' t' ht'
      rw [hthr] at ht'
      rw [hh]
      rcases mem_alPut.mp ht' with ⟨h1, h2⟩ | ⟨h1, h2⟩
      · subst h1; subst h2
        exact ⟨hne, _, by rw [hth]; exact getElem?_concat_len _ _, rfl, rfl, rfl, rfl, htn.symm⟩
      · obtain ⟨a, b⟩ := hok.thr _ _ h2
        exact ⟨a, b.concat _⟩
    · intro i ti hti hal hpinc
      rw [hh] at hpinc
      rw [hmain, hthr]
      simp only [getElem?_concat] at hti
      split at hti
      · obtain ⟨b1, b2⟩ := hok.back i ti hti hal hpinc
        refine ⟨b1, fun hm => ?_⟩
        obtain ⟨t0, ht0, hh0⟩ := b2 hm
        have : ti.tid ≠ tid := by intro heq; rw [heq, hnb] at ht0; cases ht0
        exact ⟨t0, by rw [alGet_alPut_ne _ _ _ _ this]; exact ht0, hh0⟩
      · split at hti
        · next hi =>
          cases hti
          exact ⟨fun hm => (by cases hm), fun _ => ⟨t, alGet_alPut_self _ _ _, by rw [hth, hi]⟩⟩
        · cases hti
  · intro i ti hpinc
    simp only [getElem?_concat]
    split
    · exact Iff.rfl
    · next hi =>
      have : l.ts[i]? = none := by simp at hi ⊢; exact hi
      rw [this]
      split
      · constructor
        · intro hx; cases hx; exact absurd rfl hpinc
        · intro hx; cases hx
      · exact Iff.rfl

/-- modifying one thread incarnation of the process with handle `ph` does not touch the others' threads -/
theorem modT_other {ts : List Life.TInc} {k ph : Nat} {f : Life.TInc → Life.TInc}
    (hk : ∀ x, ts[k]? = some x → x.pinc = ph) (hf : ∀ x, (f x).pinc = x.pinc) (i : Nat) (ti : Life.TInc)
    (hne : ti.pinc ≠ ph) : (modifyNth ts k f)[i]? = some ti ↔ ts[i]? = some ti := by
  simp only [getElem?_modifyNth]
  split
  · next hki =>
    subst hki
    cases hx : ts[k]? with
    | none => simp
    | some x =>
      have := hk x hx
      simp only [Option.map_some, Option.some.injEq]
      constructor
      · intro e; subst e; rw [hf] at hne; exact absurd this hne
      · intro e; subst e; exact absurd this hne
  · exact Iff.rfl

theorem Live.renameThread {procs : List (Nat × ProcC)} {l : Life.S} {pid tid : Nat} {p p' : ProcC} {t t' : ThreadC}
    (h : Live procs l) (hb : alGet procs pid = some p) (ht : alGet p.threads tid = some t) (n : String)
    (hpid : p'.pid = p.pid) (hh : p'.h = p.h) (hname : p'.name = p.name) (hmain : p'.main = p.main)
    (hthr : p'.threads = alPut p.threads tid t') (hth : t'.h = t.h) (htn : t'.name = some n) :
    Live (alPut procs pid p') (Life.modT l t.h (fun t => { t with name := some n })) := by
  have hok := h.ok hb
  have htm := alGet_eq_some_mem ht
  obtain ⟨hne, ti, hti, hal, hpinc, htid, hism, _⟩ := hok.thr _ _ htm
  simp only [Life.modT]
  refine h.update hb hh ?_ (fun _ _ => rfl) ?_
  · refine ⟨hpid.trans hok.pid_eq, by rw [hh, hname]; exact hok.pinc, by rw [hmain, hname]; exact hok.mname,
      by rw [hh, hmain]; exact hok.main.modT_ne _ _ (hok.thr_h_ne_main htm), ?_, ?_⟩
    · intro tid' t'' ht''
      rw [hthr] at ht''
      rw [hh]
      rcases mem_alPut.mp ht'' with ⟨h1, h2⟩ | ⟨h1, h2⟩
      · subst h1; subst h2
        exact ⟨hne, { ti with name := some n }, by rw [hth]; exact getElem?_modifyNth_self _ hti,
          hal, hpinc, htid, hism, htn.symm⟩
      · obtain ⟨a, b⟩ := hok.thr _ _ h2
        exact ⟨a, b.modT_ne _ _ (Ne.symm (hok.thr_h_ne htm h2 h1))⟩
    · intro i ti' hti' hal' hpinc'
      rw [hh] at hpinc'
      rw [hmain, hthr]
      simp only [getElem?_modifyNth] at hti'
      split at hti'
      · next hi =>
        subst hi
        simp only [hti, Option.map_some, Option.some.injEq] at hti'
        subst hti'
        refine ⟨fun hm => ?_, fun _ => ⟨t', ?_, hth⟩⟩
        · simp only [hism] at hm; cases hm
        · simp only [htid, alGet_alPut_self]
      · next hi =>
        obtain ⟨b1, b2⟩ := hok.back i ti' hti' hal' hpinc'
        refine ⟨b1, fun hm => ?_⟩
        obtain ⟨t0, ht0, hh0⟩ := b2 hm
        have : ti'.tid ≠ tid := by
          intro heq; rw [heq, ht] at ht0; cases ht0; exact hi hh0
        exact ⟨t0, by rw [alGet_alPut_ne _ _ _ _ this]; exact ht0, hh0⟩
  · intro i ti' hp'
    refine modT_other ?_ ?_ i ti' hp'
    · intro x hx; rw [hti] at hx; cases hx; exact hpinc
    · intro x; rfl

theorem Live.endThread {procs : List (Nat × ProcC)} {l : Life.S} {pid tid : Nat} {p p' : ProcC} {t : ThreadC}
    (h : Live procs l) (hb : alGet procs pid = some p) (ht : alGet p.threads tid = some t) (time : Nat)
    (hpid : p'.pid = p.pid) (hh : p'.h = p.h) (hname : p'.name = p.name) (hmain : p'.main = p.main)
    (hthr : p'.threads = alDel p.threads tid) :
    Live (alPut procs pid p') (Life.endThread l t.h time) := by
  have hok := h.ok hb
  have htm := alGet_eq_some_mem ht
  obtain ⟨hne, ti, hti, hal, hpinc, htid, hism, _⟩ := hok.thr _ _ htm
  simp only [Life.endThread, Life.modT]
  refine h.update hb hh ?_ (fun _ _ => rfl) ?_
  · refine ⟨hpid.trans hok.pid_eq, by rw [hh, hname]; exact hok.pinc, by rw [hmain, hname]; exact hok.mname,
      by rw [hh, hmain]; exact hok.main.modT_ne _ _ (hok.thr_h_ne_main htm), ?_, ?_⟩
    · intro tid' t'' ht''
      rw [hthr] at ht''
      rw [hh]
      obtain ⟨h1, h2⟩ := mem_alDel.mp ht''
      obtain ⟨a, b⟩ := hok.thr _ _ h2
      exact ⟨a, b.modT_ne _ _ (Ne.symm (hok.thr_h_ne htm h2 h1))⟩
    · intro i ti' hti' hal' hpinc'
      rw [hh] at hpinc'
      rw [hmain, hthr]
      simp only [getElem?_modifyNth] at hti'
      split at hti'
      · next hi =>
        subst hi
        simp only [hti, Option.map_some, Option.some.injEq] at hti'
        subst hti'
        simp at hal'
      · next hi =>
        obtain ⟨b1, b2⟩ := hok.back i ti' hti' hal' hpinc'
        refine ⟨b1, fun hm => ?_⟩
        obtain ⟨t0, ht0, hh0⟩ := b2 hm
        have : ti'.tid ≠ tid := by
          intro heq; rw [heq, ht] at ht0; cases ht0; exact hi hh0
        exact ⟨t0, by rw [alGet_alDel_ne _ _ _ this]; exact ht0, hh0⟩
  · intro i ti' hp'
    refine modT_other ?_ ?_ i ti' hp'
    · intro x hx; rw [hti] at hx; cases hx; exact hpinc
    · intro x; rfl

theorem Live.renameProc {procs : List (Nat × ProcC)} {l : Life.S} {pid : Nat} {p p' : ProcC}
    (h : Live procs l) (hb : alGet procs pid = some p) (n : String)
    (hpid : p'.pid = p.pid) (hh : p'.h = p.h) (hname : p'.name = some n) (hmh : p'.main.h = p.main.h)
    (hmn : p'.main.name = some n) (hthr : p'.threads = p.threads) :
    Live (alPut procs pid p')
      (Life.modT (Life.modP l p.h (fun p => { p with name := some n })) p.main.h
        (fun t => { t with name := some n })) := by
  have hok := h.ok hb
  obtain ⟨pi, hpi, hpal, hppid, _⟩ := hok.pinc
  obtain ⟨tm, htm, hal, hpinc, htid, hism, _⟩ := hok.main
  simp only [Life.modT, Life.modP]
  refine h.update hb hh ?_ ?_ ?_
  · refine ⟨hpid.trans hok.pid_eq, ?_, by rw [hmn, hname], ?_, ?_, ?_⟩
    · exact ⟨{ pi with name := some n }, by rw [hh]; exact getElem?_modifyNth_self _ hpi, hpal, hppid,
        hname.symm⟩
    · exact ⟨{ tm with name := some n }, by rw [hmh]; exact getElem?_modifyNth_self _ htm, hal,
        by rw [hh]; exact hpinc, htid, hism, hmn.symm⟩
    · intro tid' t'' ht''
      rw [hthr] at ht''
      rw [hh]
      obtain ⟨a, ti, hti, r⟩ := hok.thr _ _ ht''
      exact ⟨a, ti, by simp only [getElem?_modifyNth, if_neg (Ne.symm (hok.thr_h_ne_main ht''))]; exact hti, r⟩
    · intro i ti' hti' hal' hpinc'
      rw [hh] at hpinc'
      rw [hmh, hthr]
      simp only [getElem?_modifyNth] at hti'
      split at hti'
      · next hi => exact ⟨fun _ => hi, fun hm => by
          subst hi
          simp only [htm, Option.map_some, Option.some.injEq] at hti'
          subst hti'
          simp only [hism] at hm; cases hm⟩
      · exact hok.back i ti' hti' hal' hpinc'
  · intro j hj
    simp only [getElem?_modifyNth, if_neg (Ne.symm hj)]
  · intro i ti' hp'
    refine modT_other ?_ ?_ i ti' hp'
    · intro x hx; rw [htm] at hx; cases hx; exact hpinc
    · intro x; rfl

end LifeL
