import SamplyModel.Model.LineBuffer
/-!
Lemmas about the `LineBuffer` model: the `memchr`-level `consume` equals the bytewise reference, the
invariant `leftover.length ≤ off` is preserved, and any partition of a byte stream into chunks gives the
same state and callback log as one chunk (`LB.chunk_independent`).
-/
namespace LB

theorem foldl_log (st : St) (log : Log) (bs : List Byte) :
    bs.foldl pushByte (st, log) = ((bs.foldl pushByte (st, [])).1, log ++ (bs.foldl pushByte (st, [])).2) := by
  induction bs generalizing st log with
  | nil => simp
  | cons b bs ih =>
    simp only [List.foldl_cons]
    by_cases hb : b = 10
    · simp only [pushByte, hb, if_true]
      rw [ih, ih (log := [] ++ _)]
      simp
    · simp only [pushByte, hb, if_false]
      rw [ih]

/-- bytes without newline just extend leftover -/
theorem bytewise_noNl (st : St) (bs : List Byte) (h : splitNl bs = none) :
    bytewise st bs = ({ leftover := st.leftover ++ bs, off := st.off + bs.length }, []) := by
  unfold bytewise
  induction bs generalizing st with
  | nil => simp
  | cons b bs ih =>
    simp only [splitNl] at h
    split at h
    · cases h
    · rename_i hb
      split at h
      · simp only [List.foldl_cons, pushByte, hb, if_false]
        rename_i hn
        rw [ih _ hn]
        simp [Nat.add_assoc, Nat.add_comm 1]
      · cases h

theorem bytewise_split (st : St) (bs l r : List Byte) (h : splitNl bs = some (l, r)) :
    bytewise st bs =
      ((bytewise { leftover := [], off := st.off + l.length + 1 } r).1,
       (st.off - st.leftover.length, st.leftover ++ l) :: (bytewise { leftover := [], off := st.off + l.length + 1 } r).2) := by
  unfold bytewise
  induction bs generalizing st l with
  | nil => simp [splitNl] at h
  | cons b bs ih =>
    simp only [splitNl] at h
    split at h
    · rename_i hb
      cases h
      simp only [List.foldl_cons, pushByte, hb, if_true]
      rw [foldl_log]
      simp
    · rename_i hb
      split at h
      · cases h
      · rename_i l' r' heq
        cases h
        simp only [List.foldl_cons, pushByte, hb, if_false]
        rw [ih _ _ heq]
        simp [Nat.add_assoc, Nat.add_comm 1]

theorem consume_eq_bytewise (st : St) (chunk : List Byte) (hinv : Inv st) :
    consume st chunk = bytewise st chunk := by
  fun_induction consume st chunk with
  | case1 st chunk h => rw [bytewise_noNl _ _ h]
  | case2 st chunk l r h line start hls st' st'' log hrec ih =>
    rw [bytewise_split _ _ _ _ h]
    have ih' := ih (by simp [Inv, st'])
    rw [hrec] at ih'
    rw [← ih']
    simp only
    by_cases he : st.leftover.isEmpty
    · simp [he] at hls
      have : st.leftover = [] := by simpa using he
      obtain ⟨h1, h2⟩ := hls
      subst h1 h2
      simp [this]
    · simp [he] at hls
      obtain ⟨h1, h2⟩ := hls
      subst h1 h2
      rfl

theorem bytewise_inv (st : St) (bs : List Byte) (h : Inv st) : Inv (bytewise st bs).1 := by
  unfold bytewise
  induction bs generalizing st with
  | nil => simpa
  | cons b bs ih =>
    simp only [List.foldl_cons]
    by_cases hb : b = 10
    · simp only [pushByte, hb, if_true]; rw [foldl_log]; exact ih _ (by simp [Inv])
    · simp only [pushByte, hb, if_false]; exact ih _ (by simp [Inv] at *; omega)

theorem consume_inv (st : St) (chunk : List Byte) (h : Inv st) : Inv (consume st chunk).1 := by
  rw [consume_eq_bytewise _ _ h]; exact bytewise_inv _ _ h

theorem bytewise_append (st : St) (a b : List Byte) :
    bytewise st (a ++ b) = ((bytewise (bytewise st a).1 b).1, (bytewise st a).2 ++ (bytewise (bytewise st a).1 b).2) := by
  unfold bytewise
  rw [List.foldl_append]
  generalize List.foldl pushByte (st, []) a = p
  obtain ⟨s, l⟩ := p
  rw [foldl_log]

/-- Chunk independence: any partition gives the same state and log as one big chunk. -/
theorem chunk_independent (st : St) (chunks : List (List Byte)) (h : Inv st) :
    consumeAll st chunks = consume st chunks.flatten := by
  rw [consume_eq_bytewise _ _ h]
  induction chunks generalizing st with
  | nil => simp [consumeAll, bytewise]
  | cons c cs ih =>
    simp only [consumeAll, List.flatten_cons]
    rw [consume_eq_bytewise _ _ h, bytewise_append]
    rw [ih _ (bytewise_inv _ _ h)]

theorem consumeAll_inv (st : St) (chunks : List (List Byte)) (h : Inv st) :
    Inv (consumeAll st chunks).1 := by
  rw [chunk_independent _ _ h]; exact consume_inv _ _ h

theorem inv_init : Inv St.init := by simp [Inv, St.init]

theorem consumeSafe_of_inv (st : St) (h : Inv st) : consumeSafe st = true := by
  simpa [consumeSafe, Inv] using h

theorem finish_of_inv (st : St) (h : Inv st) :
    finish st = some (if st.leftover.isEmpty then [] else [(st.off - st.leftover.length, st.leftover)], st.off) := by
  unfold finish
  have h' : st.leftover.length ≤ st.off := h
  by_cases he : st.leftover.isEmpty <;> simp [he, h']

/-- every logged line is free of `\n` -/
theorem bytewise_lines_noNl (st : St) (bs : List Byte) (h : (10 : Byte) ∉ st.leftover) :
    (∀ p ∈ (bytewise st bs).2, (10 : Byte) ∉ p.2) ∧ (10 : Byte) ∉ (bytewise st bs).1.leftover := by
  unfold bytewise
  induction bs generalizing st with
  | nil => simpa
  | cons b bs ih =>
    simp only [List.foldl_cons]
    by_cases hb : b = 10
    · simp only [pushByte, hb, if_true]
      rw [foldl_log]
      have := ih { leftover := [], off := st.off + 1 } (by simp)
      refine ⟨?_, this.2⟩
      intro p hp
      simp only [List.nil_append, List.cons_append, List.mem_cons] at hp
      rcases hp with hp | hp
      · subst hp; exact h
      · exact this.1 p hp
    · simp only [pushByte, hb, if_false]
      apply ih
      simp only [List.mem_append, List.mem_singleton, not_or]
      exact ⟨h, fun e => hb e.symm⟩

end LB

namespace LB

/-- offset at which the line currently being collected starts -/
def lineStart (st : St) : Nat := st.off - st.leftover.length

/-- the offsets of a log are non-decreasing and lie between `lo` and `hi` -/
def LogMono : Nat → Log → Nat → Prop
  | lo, [], hi => lo ≤ hi
  | lo, p :: rest, hi => lo ≤ p.1 ∧ LogMono p.1 rest hi

theorem LogMono.weaken {lo lo' hi : Nat} {log : Log} (h : LogMono lo log hi) (hl : lo' ≤ lo) :
    LogMono lo' log hi := by
  cases log with
  | nil => exact Nat.le_trans hl h
  | cons p rest => exact ⟨Nat.le_trans hl h.1, h.2⟩

theorem LogMono.le {lo hi : Nat} {log : Log} (h : LogMono lo log hi) : lo ≤ hi := by
  induction log generalizing lo with
  | nil => exact h
  | cons p rest ih => exact Nat.le_trans h.1 (ih h.2)

theorem LogMono.append {lo mid hi : Nat} {a b : Log} (ha : LogMono lo a mid) (hb : LogMono mid b hi) :
    LogMono lo (a ++ b) hi := by
  induction a generalizing lo with
  | nil => exact hb.weaken ha
  | cons p rest ih => exact ⟨ha.1, ih ha.2⟩

theorem bytewise_logMono (st : St) (bs : List Byte) (h : Inv st) :
    LogMono (lineStart st) (bytewise st bs).2 (lineStart (bytewise st bs).1) := by
  unfold bytewise
  induction bs generalizing st with
  | nil => simp [LogMono]
  | cons b bs ih =>
    simp only [List.foldl_cons]
    by_cases hb : b = 10
    · simp only [pushByte, hb, if_true]
      rw [foldl_log]
      have := ih { leftover := [], off := st.off + 1 } (by simp [Inv])
      simp only [List.nil_append, List.cons_append]
      refine ⟨Nat.le_refl _, this.weaken ?_⟩
      simp only [lineStart, List.length_nil]
      omega
    · simp only [pushByte, hb, if_false]
      have h' : st.leftover.length ≤ st.off := h
      have := ih { leftover := st.leftover ++ [b], off := st.off + 1 } (by simp [Inv]; omega)
      have e : lineStart { leftover := st.leftover ++ [b], off := st.off + 1 } = lineStart st := by
        simp only [lineStart, List.length_append, List.length_singleton]; omega
      rwa [e] at this

theorem splitNl_none_iff (bs : List Byte) : splitNl bs = none ↔ (10 : Byte) ∉ bs := by
  induction bs with
  | nil => simp [splitNl]
  | cons b bs ih =>
    simp only [splitNl, List.mem_cons, not_or]
    by_cases hb : b = 10
    · simp [hb]
    · simp only [hb, if_false]
      constructor
      · intro h
        refine ⟨fun e => hb e.symm, ?_⟩
        cases hs : splitNl bs with
        | none => exact ih.1 hs
        | some p => obtain ⟨l, r⟩ := p; simp [hs] at h
      · intro h
        rw [ih.2 h.2]

theorem bytewise_joinNl (st : St) (first : List Byte) (rest : List (List Byte))
    (hf : (10 : Byte) ∉ first) (hr : ∀ l ∈ rest, (10 : Byte) ∉ l) :
    ((bytewise st (joinNl first rest)).2.map (·.2) ++ [(bytewise st (joinNl first rest)).1.leftover])
      = (st.leftover ++ first) :: rest := by
  induction rest generalizing st first with
  | nil =>
    simp only [joinNl]
    rw [bytewise_noNl _ _ ((splitNl_none_iff _).2 hf)]
    simp
  | cons l ls ih =>
    simp only [joinNl]
    rw [bytewise_append]
    rw [bytewise_noNl _ _ ((splitNl_none_iff _).2 hf)]
    simp only [List.nil_append]
    have hstep : bytewise { leftover := st.leftover ++ first, off := st.off + first.length } (10 :: joinNl l ls)
        = ((bytewise { leftover := [], off := st.off + first.length + 1 } (joinNl l ls)).1,
           (st.off + first.length - (st.leftover ++ first).length, st.leftover ++ first)
             :: (bytewise { leftover := [], off := st.off + first.length + 1 } (joinNl l ls)).2) := by
      unfold bytewise
      simp only [List.foldl_cons, pushByte, if_true]
      rw [foldl_log]
      simp
    rw [hstep]
    simp only [List.map_cons, List.cons_append]
    have := ih { leftover := [], off := st.off + first.length + 1 } l (hr l (by simp))
      (fun x hx => hr x (by simp [hx]))
    simp only [List.nil_append] at this
    rw [this]

theorem bytewise_off (st : St) (bs : List Byte) : (bytewise st bs).1.off = st.off + bs.length := by
  unfold bytewise
  induction bs generalizing st with
  | nil => simp
  | cons b bs ih =>
    simp only [List.foldl_cons]
    by_cases hb : b = 10
    · simp only [pushByte, hb, if_true]; rw [foldl_log]; simp only; rw [ih]; simp; omega
    · simp only [pushByte, hb, if_false]; rw [ih]; simp; omega

/-- lines paired with the offsets of their first bytes when they are laid out with one `\n` between -/
def lineOffsets (off : Nat) : List (List Byte) → Log
  | [] => []
  | l :: ls => (off, l) :: lineOffsets (off + l.length + 1) ls

theorem joinNl_length_snoc (first : List Byte) (rest : List (List Byte)) (x : List Byte) :
    joinNl first (rest ++ [x]) = joinNl first rest ++ 10 :: x := by
  induction rest generalizing first with
  | nil => simp [joinNl]
  | cons l ls ih => simp [joinNl, ih]

/-- log and final state for `first \n l₁ … \n lₙ` fed to an empty buffer at offset `off` -/
theorem bytewise_joinNl_log (off : Nat) (first : List Byte) (rest : List (List Byte))
    (hf : (10 : Byte) ∉ first) (hr : ∀ l ∈ rest, (10 : Byte) ∉ l) :
    (bytewise ⟨[], off⟩ (joinNl first rest)).2 = lineOffsets off (first :: rest).dropLast ∧
    (bytewise ⟨[], off⟩ (joinNl first rest)).1.leftover = (first :: rest).getLastD [] ∧
    lineOffsets off (first :: rest) = lineOffsets off (first :: rest).dropLast ++
      [(off + (joinNl first rest).length - ((first :: rest).getLastD []).length, (first :: rest).getLastD [])] := by
  induction rest generalizing first off with
  | nil =>
    simp only [joinNl, List.dropLast_singleton, lineOffsets, List.getLastD_cons, List.getLastD_nil]
    rw [bytewise_noNl _ _ ((splitNl_none_iff _).2 hf)]
    simp
  | cons l ls ih =>
    simp only [joinNl]
    rw [bytewise_append, bytewise_noNl _ _ ((splitNl_none_iff _).2 hf)]
    simp only [List.nil_append]
    have hstep : bytewise { leftover := first, off := off + first.length } (10 :: joinNl l ls)
        = ((bytewise { leftover := [], off := off + first.length + 1 } (joinNl l ls)).1,
           (off, first) :: (bytewise { leftover := [], off := off + first.length + 1 } (joinNl l ls)).2) := by
      unfold bytewise
      simp only [List.foldl_cons, pushByte, if_true]
      rw [foldl_log]
      simp
    rw [hstep]
    obtain ⟨h1, h2, h3⟩ := ih (off + first.length + 1) l (hr l (by simp)) (fun x hx => hr x (by simp [hx]))
    simp only
    refine ⟨?_, ?_, ?_⟩
    · rw [h1]
      cases ls <;> simp [lineOffsets, List.dropLast]
    · rw [h2]
      cases ls <;> simp [List.getLastD]
    · have e1 : (first :: l :: ls).dropLast = first :: (l :: ls).dropLast := by
        cases ls <;> simp [List.dropLast]
      have e2 : (first :: l :: ls).getLastD [] = (l :: ls).getLastD [] := by
        cases ls <;> simp [List.getLastD]
      rw [e1, e2]
      rw [show lineOffsets off (first :: l :: ls) = (off, first) :: lineOffsets (off + first.length + 1) (l :: ls)
        from rfl]
      rw [show lineOffsets off (first :: (l :: ls).dropLast)
        = (off, first) :: lineOffsets (off + first.length + 1) (l :: ls).dropLast from rfl]
      rw [h3]
      simp only [List.cons_append, List.length_append, List.length_cons]
      congr 4
      omega

end LB
