import SamplyModel.Lemmas.LifeStab
/-!
Process incarnations of the eager lifecycle along a history (convD2, `C17_exec_splits_samples`): `Life.step` only
appends process incarnations, never revives one, never changes pid / suffix, and gives a new incarnation the next
free suffix of its pid — so suffixes of one pid are strictly below the incarnation count, and incarnations created
later carry larger suffixes.
-/
open Conv ConvSpec
namespace LifeL

structure PStab (l l' : Life.S) : Prop where
  old : ∀ (j : Nat) (p : Life.PInc), l.ps[j]? = some p →
    ∃ p', l'.ps[j]? = some p' ∧ p'.pid = p.pid ∧ p'.suffix = p.suffix ∧ (p.alive = false → p'.alive = false)
  new : ∀ (j : Nat) (p' : Life.PInc), l'.ps[j]? = some p' → l.ps.length ≤ j →
    Life.countP l p'.pid ≤ p'.suffix ∧ p'.suffix < Life.countP l' p'.pid
  cnt : ∀ pid, Life.countP l pid ≤ Life.countP l' pid
  len : l.ps.length ≤ l'.ps.length

theorem PStab.of_ps {l l' : Life.S} (h : l'.ps = l.ps) : PStab l l' := by
  refine ⟨fun j p hp => ⟨p, by rw [h]; exact hp, rfl, rfl, fun x => x⟩, ?_, ?_, by rw [h]; exact Nat.le_refl _⟩
  · intro j p' hp' hj
    rw [h] at hp'
    have := lt_of_getElem?_some hp'
    omega
  · intro pid; unfold Life.countP; rw [h]; exact Nat.le_refl _

theorem PStab.refl (l : Life.S) : PStab l l := PStab.of_ps rfl

theorem PStab.trans {a b c : Life.S} (h1 : PStab a b) (h2 : PStab b c) : PStab a c := by
  refine ⟨?_, ?_, fun pid => Nat.le_trans (h1.cnt pid) (h2.cnt pid), Nat.le_trans h1.len h2.len⟩
  · intro j p hp
    obtain ⟨p1, e1, a1, a2, a3⟩ := h1.old j p hp
    obtain ⟨p2, e2, b1, b2, b3⟩ := h2.old j p1 e1
    exact ⟨p2, e2, b1.trans a1, b2.trans a2, fun x => b3 (a3 x)⟩
  · intro j p' hp' hj
    by_cases hjb : j < b.ps.length
    · -- the entry already exists in `b`
      have hb : ∃ pb, b.ps[j]? = some pb := ⟨b.ps[j], by simp [hjb]⟩
      obtain ⟨pb, hpb⟩ := hb
      obtain ⟨p2, e2, b1, b2, _⟩ := h2.old j pb hpb
      rw [hp'] at e2; cases e2
      obtain ⟨n1, n2⟩ := h1.new j pb hpb hj
      rw [b1, b2]
      exact ⟨n1, Nat.lt_of_lt_of_le n2 (h2.cnt _)⟩
    · obtain ⟨n1, n2⟩ := h2.new j p' hp' (by omega)
      exact ⟨Nat.le_trans (h1.cnt _) n1, n2⟩

theorem pstab_newProc (l : Life.S) (pid : Nat) (name : Option String) (start : Nat) :
    PStab l (Life.newProc l pid name start).1 := by
  have hps : (Life.newProc l pid name start).1.ps =
      l.ps ++ [{ pid, suffix := Life.countP l pid, name, start }] := rfl
  have hcnt : ∀ k, Life.countP (Life.newProc l pid name start).1 k =
      Life.countP l k + (if pid = k then 1 else 0) := by
    intro k
    simp only [Life.newProc]
    exact countP_concat l _ _ k
  refine ⟨?_, ?_, fun k => by rw [hcnt]; omega, by rw [hps]; simp⟩
  · intro j p hp
    exact ⟨p, by rw [hps, List.getElem?_append_left (lt_of_getElem?_some hp)]; exact hp, rfl, rfl, fun x => x⟩
  · intro j p' hp' hj
    rw [hps] at hp'
    have hlt := lt_of_getElem?_some hp'
    simp only [List.length_append, List.length_cons, List.length_nil] at hlt
    have hjeq : j = l.ps.length := by omega
    subst hjeq
    rw [getElem?_concat_len] at hp'
    cases hp'
    simp only [hcnt, if_true]
    omega

theorem pstab_ensureProc (l : Life.S) (pid : Nat) : PStab l (Life.ensureProc l pid).1 := by
  unfold Life.ensureProc
  split
  · exact PStab.refl l
  · exact pstab_newProc l pid none 0

theorem pstab_ensureThread (l : Life.S) (pid tid : Nat) : PStab l (Life.ensureThread l pid tid) := by
  unfold Life.ensureThread
  have h1 := pstab_ensureProc l pid
  generalize Life.ensureProc l pid = ep at *
  obtain ⟨l1, pi⟩ := ep
  dsimp only at *
  split
  · exact h1
  · exact h1.trans (PStab.of_ps rfl)

theorem pstab_modP (l : Life.S) (i : Nat) (f : Life.PInc → Life.PInc)
    (hf : ∀ p, (f p).pid = p.pid ∧ (f p).suffix = p.suffix ∧ (p.alive = false → (f p).alive = false)) :
    PStab l (Life.modP l i f) := by
  have hlen : (Life.modP l i f).ps.length = l.ps.length := length_modifyNth _ _ _
  have hcnt : ∀ k, Life.countP (Life.modP l i f) k = Life.countP l k := by
    intro k
    simp only [Life.countP, Life.modP]
    exact filter_modifyNth_length _ _ _ _ (fun x => by simp [(hf x).1])
  refine ⟨?_, ?_, fun k => by rw [hcnt]; exact Nat.le_refl _, by rw [hlen]; exact Nat.le_refl _⟩
  · intro j p hp
    simp only [Life.modP, getElem?_modifyNth]
    split
    · next e => subst e; rw [hp]; exact ⟨f p, rfl, (hf p).1, (hf p).2.1, (hf p).2.2⟩
    · exact ⟨p, hp, rfl, rfl, fun x => x⟩
  · intro j p' hp' hj
    have := lt_of_getElem?_some hp'
    omega

theorem pstab_endProc (l : Life.S) (pi time : Nat) : PStab l (Life.endProc l pi time) := by
  have h0 : PStab l { l with ts := l.ts.map (fun t => if t.alive && t.pinc == pi then
      { t with end_ := some time, alive := false } else t) } := PStab.of_ps rfl
  exact h0.trans
    (pstab_modP _ pi (fun p => { p with end_ := some time, alive := false }) (fun _ => ⟨rfl, rfl, fun _ => rfl⟩))

theorem pstab_step (l : Life.S) (r : Rec) : PStab l (Life.step l r) := by
  cases r with
  | sample pid tid t km period ip chain =>
    simp only [Life.step]
    split
    · exact PStab.refl l
    · have h0 : PStab l { l with cur := t } := PStab.of_ps rfl
      exact h0.trans (pstab_ensureThread _ pid tid)
  | switchIn pid tid t =>
    simp only [Life.step]
    split
    · exact PStab.refl l
    · exact pstab_ensureThread _ pid tid
  | switchOut pid tid t =>
    simp only [Life.step]
    split
    · exact PStab.refl l
    · exact pstab_ensureThread _ pid tid
  | sched pid tid t km ip chain => exact pstab_ensureThread _ pid tid
  | otherEvent pid tid t km ip chain => exact pstab_ensureThread _ pid tid
  | exit pid tid t =>
    rw [lstep_exit]
    split
    · split
      · exact pstab_endProc _ _ _
      · exact PStab.refl l
    · split
      · exact PStab.refl l
      · have h1 := pstab_ensureProc l pid
        split
        · exact h1.trans (PStab.of_ps rfl)
        · exact h1
  | mmap2 pid tid addr len pgoff exec path t =>
    rw [lstep_mmap2]
    have h1 : PStab l (if l.cur = l.ref || path.isEmpty then l else Life.ensureThread l pid tid) := by
      split
      · exact PStab.refl l
      · exact pstab_ensureThread _ pid tid
    simp only []
    split
    · exact h1.trans (pstab_ensureProc _ pid)
    · exact h1
  | comm pid tid name isExec t =>
    cases isExec with
    | true =>
      by_cases hpt : pid = tid
      · subst hpt
        rw [lstep_comm_exec_main]
        have h1 : PStab l (match Life.curProc l pid with
            | some pi => Life.endProc l pi (Life.conv l (if t = 0 then l.cur else t))
            | none => l) := by
          split
          · exact pstab_endProc _ _ _
          · exact PStab.refl l
        exact h1.trans (pstab_newProc _ _ _ _)
      · simp only [Life.step, if_true, if_neg hpt]
        have h1 := pstab_ensureProc l pid
        generalize Life.ensureProc l pid = ep at *
        obtain ⟨l1, pi⟩ := ep
        dsimp only at *
        have h2 : PStab l1 (match Life.curThread l1 pi tid with
            | some i => Life.endThread l1 i (Life.conv l (if t = 0 then l.cur else t))
            | none => l1) := by
          split
          · exact PStab.of_ps rfl
          · exact PStab.refl l1
        exact (h1.trans h2).trans (PStab.of_ps rfl)
    | false =>
      by_cases hpt : pid = tid
      · subst hpt
        rw [lstep_comm_main]
        split
        · exact pstab_newProc _ _ _ _
        · next pi _ =>
          have h1 := pstab_modP l pi (fun p => { p with name := some name }) (fun _ => ⟨rfl, rfl, fun x => x⟩)
          split
          · exact h1.trans (PStab.of_ps rfl)
          · exact h1
      · rw [lstep_comm_thread _ _ _ _ _ hpt]
        have h1 := pstab_ensureProc l pid
        split
        · exact h1.trans (PStab.of_ps rfl)
        · exact h1.trans (PStab.of_ps rfl)
  | fork pid tid ppid ptid t =>
    rw [lstep_fork]
    have h1 := pstab_ensureProc l ppid
    split
    · split
      · exact h1.trans (pstab_newProc _ _ _ _)
      · exact h1
    · have h2 := h1.trans (pstab_ensureThread (Life.ensureProc l ppid).1 ppid ptid)
      split
      · exact h2
      · exact h2.trans (PStab.of_ps rfl)

/-- suffixes of one pid lie strictly below the number of its incarnations -/
def SufInv (l : Life.S) : Prop := ∀ (j : Nat) (p : Life.PInc), l.ps[j]? = some p → p.suffix < Life.countP l p.pid

theorem SufInv.step {l : Life.S} (h : SufInv l) (r : Rec) : SufInv (Life.step l r) := by
  have hs := pstab_step l r
  intro j p' hp'
  by_cases hj : j < l.ps.length
  · obtain ⟨p, hp⟩ : ∃ p, l.ps[j]? = some p := ⟨l.ps[j], by simp [hj]⟩
    obtain ⟨p2, e2, a1, a2, _⟩ := hs.old j p hp
    rw [hp'] at e2; cases e2
    rw [a1, a2]
    exact Nat.lt_of_lt_of_le (h j p hp) (hs.cnt _)
  · exact (hs.new j p' hp' (by omega)).2

end LifeL
