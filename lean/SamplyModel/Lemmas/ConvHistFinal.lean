import SamplyModel.Lemmas.ConvHistStep
/-!
Whole histories (C02_history): the fold of `hist_step` / `sort_step`, the flush of sorted buffers in terms of the
declarative attribution, and the grouping of the flushed samples into views.
-/
namespace Conv
open ConvSpec

def isCsRec (r : Rec) : Bool :=
  match r with
  | .switchIn .. | .switchOut .. | .sched .. => true
  | _ => false

theorem recOk_of {rs : List Rec} (h1 : noSpecial rs = true) (h2 : hasCsRec rs = false) : ∀ r ∈ rs, recOk r := by
  intro r hr
  have a1 := List.all_eq_true.mp h1 r hr
  have a2 : isCsRec r = false := by
    cases hc : isCsRec r with
    | false => rfl
    | true =>
      have : hasCsRec rs = true := List.any_eq_true.mpr ⟨r, hr, hc⟩
      rw [h2] at this; cases this
  cases r with
  | mmap2 pid tid addr len pgoff exec path t =>
    cases exec with
    | false => trivial
    | true => simpa [recOk] using a1
  | switchIn => cases a2
  | switchOut => cases a2
  | sched => cases a2
  | otherEvent => trivial
  | sample => trivial
  | fork => trivial
  | exit => trivial
  | comm => trivial

/-- the specification's dedup table along a history -/
def lastFold (last : Last) (rs : List Rec) : Last := rs.foldl (fun l r => (accStep (l, []) r).1) last

theorem hist_fold (cfg : Config) (rs : List Rec) :
    ∀ (s : St) (st : List (Nat × Announced)) (last : Last) (g : Life.G) (T : Nat),
      HInv cfg s st last g.s → HSort s T → (rs.foldl Life.gStep g).ok = true → (∀ r ∈ rs, recOk r) →
      orderedFrom T rs = true →
      HInv cfg (rs.foldl step s) (rs.foldl (annStep cfg) st) (lastFold last rs) (rs.foldl Life.step g.s) ∧
      (∃ T', HSort (rs.foldl step s) T') ∧
        List.Perm (Phi cfg (rs.foldl step s) []) (Phi cfg s rs ++ expGo cfg st last rs) := by
  induction rs with
  | nil =>
    intro s st last g T h hs _ _ _
    exact ⟨h, ⟨T, hs⟩, by simp [expGo]⟩
  | cons r rs ih =>
    intro s st last g T h hs hg hok ho
    have hf := (LifeL.gStep_ok (LifeL.foldl_gStep_ok (g := Life.gStep g r) hg)).2
    have hr := hok r List.mem_cons_self
    obtain ⟨h1, p1⟩ := hist_step h r rs hf hr
    obtain ⟨T1, hs1, ho1⟩ := sort_step h hs r rs hf hr ho
    obtain ⟨h2, hs2, p2⟩ := ih (step s r) _ _ (Life.gStep g r) T1 h1 hs1 hg
      (fun x hx => hok x (List.mem_cons_of_mem _ hx)) ho1
    exact ⟨h2, hs2, p2.trans p1⟩

theorem HInv.init (cfg : Config) (hr : cfg.reuse = false) :
    HInv cfg (St.init cfg) [] [] { ref := cfg.ref, cur := cfg.ref } :=
  ⟨⟨[], Sim.init cfg⟩, LifeL.sim_init cfg hr, fun _ => rfl, fun _ _ => rfl⟩

theorem HSort.init (cfg : Config) : HSort (St.init cfg) 0 :=
  ⟨fun _ => HSort.empty_q 0, fun _ => HSort.empty_u 0, fun b hb => by cases hb⟩

/-- the run of a history inside the quantifier: invariant (against the specification's tables), sorted buffers,
and the samples the flush will emit (attributed declaratively with the final queues) are the expected samples -/
theorem hist_run (cfg : Config) (rs : List Rec) (hr : cfg.reuse = false)
    (hg : Life.grammarOk cfg.ref rs = true) (hcs : hasCsRec rs = false) (hsp : noSpecial rs = true)
    (hord : queuedOrdered rs = true) :
    HInv cfg (run cfg rs) (rs.foldl (annStep cfg) []) (lastFold [] rs) (Life.run cfg.ref rs) ∧
      (∃ T, HSort (run cfg rs) T) ∧
      List.Perm (Phi cfg (run cfg rs) []) ((expectedSamples cfg rs).map (ExpSample.out cfg)) := by
  obtain ⟨h, hs, p⟩ := hist_fold cfg rs (St.init cfg) [] []
    { s := { ref := cfg.ref, cur := cfg.ref } } 0 (HInv.init cfg hr) (HSort.init cfg) hg (recOk_of hsp hcs) hord
  refine ⟨h, hs, ?_⟩
  rw [expectedSamples_out]
  exact p

/-! ### the flush of one sorted buffer -/

theorem convertStack_eq_expect (cfg : Config) (pid : Nat) (q : Announced) (t : Nat) (stack : List SFrame)
    (hpm : (loadPerfMap cfg pid).isSome = true) :
    convertStack (tableFrom [] q t) (perfMapTable cfg pid) stack =
      expandJs (stack.reverse.map (expectInfo q t (pmCands cfg pid))) := by
  unfold convertStack convertStackX
  simp only [Option.toList_none, List.nil_append]
  rw [emitJs_eq_expandJs, perfMapTable_eq cfg pid hpm]
  congr 1
  apply List.map_congr_left
  intro f _
  exact secondPass_eq_expect q t (pmCands cfg pid) f

theorem filter_map_synth (us : List USample) (f : USample → Nat × OutSample) (hf : ∀ u, (f u).2.synth = u.synth) :
    (us.map f).filter (fun o => !o.2.synth) = (us.filter (fun u => !u.synth)).map f := by
  induction us with
  | nil => rfl
  | cons u us ih =>
    simp only [List.map_cons, List.filter_cons, hf u]
    cases u.synth <;> simp [ih]

theorem flushBuffer_specBuf (cfg : Config) (key : Nat → Nat × Nat) (b : List USample × Announced × Nat)
    (hq : SortedQ b.2.1) (hu : MonoU b.1) (hpm : (loadPerfMap cfg b.2.2).isSome = true)
    (hk : ∀ u ∈ b.1, key u.th = (u.gpid, u.gtid)) :
    ((flushBuffer (perfMapTable cfg b.2.2) [] b.2.1 b.1).filter (fun o => !o.2.synth)).map
        (fun o => ((key o.1).1, (key o.1).2, o.2.t, o.2.frames)) = specBuf cfg b := by
  rw [flushBuffer_spec _ _ _ _ hq hu, filter_map_synth _ _ (fun _ => rfl)]
  unfold specBuf
  rw [List.map_map]
  apply List.map_congr_left
  intro u hu'
  have hmem := (List.mem_filter.mp hu').1
  simp only [Function.comp, flushOne, uExp, hk u hmem, convertStack_eq_expect cfg b.2.2 b.2.1 u.tmono u.stack hpm]

/-! ### all buffers -/

theorem Phi_nil_eq (cfg : Config) (s : St) (hk : ∀ e ∈ s.procs, e.2.pid = e.1) :
    Phi cfg s [] = (allBuffers s).flatMap (specBuf cfg) := by
  unfold Phi allBuffers
  rw [List.flatMap_append]
  congr 1
  generalize s.procs = procs at hk
  induction procs with
  | nil => rfl
  | cons e t ih =>
    have ih' := ih (fun x hx => hk x (List.mem_cons_of_mem _ hx))
    have he := hk e List.mem_cons_self
    rw [List.flatMap_cons, ih', List.filter_cons]
    have hF : FF (Fp cfg []) e = specBuf cfg (e.2.samples, e.2.mapq, e.2.pid) := by
      simp only [FF, Fp, laterAnn, List.append_nil, pobsP, he]
    rw [hF]
    cases hs : e.2.samples with
    | nil => simp [specBuf]
    | cons x xs => simp [hs]

/-! ### views -/

theorem recorded_flatMap_aux {γ} (vs : List View) (f : View → OutSample → γ) :
    (vs.flatMap (fun v => v.samples.map (fun o => (o.synth, f v o)))).filter (fun x => !x.1) =
      vs.flatMap (fun v => (v.samples.filter (fun o => !o.synth)).map (fun o => (false, f v o))) := by
  induction vs with
  | nil => rfl
  | cons v vs ih =>
    simp only [List.flatMap_cons, List.filter_append, ih]
    congr 1
    generalize v.samples = l
    induction l with
    | nil => rfl
    | cons o l ih2 =>
      simp only [List.map_cons, List.filter_cons]
      cases ho : o.synth <;> simp [ih2]

/-- the recorded samples of the views, keyed by anything computable from the entry index and the output sample,
are the recorded flushed samples -/
theorem views_recorded_flush {γ} (s : St) (hinv : InvA s) (hsok : ∀ u ∈ buffered s, u.th < (tsk s.tents).length)
    (F : View → OutSample → γ) (G : Nat → OutSample → γ)
    (hFG : ∀ i te v, s.tents[i]? = some te → viewOf s (flushAll s) i te = some v → ∀ o, F v o = G i o) :
    List.Perm ((views s).flatMap (fun v => (v.samples.filter (fun o => !o.synth)).map (F v)))
      (((flushAll s).filter (fun o => !o.2.synth)).map (fun o => G o.1 o.2)) := by
  have hv : ∀ te ∈ s.tents, te.proc < s.pents.length := by
    intro te hte
    have := hinv.tents (te.proc, te.tid) (List.mem_map_of_mem (f := fun e : TEntry => (e.proc, e.tid)) hte)
    simpa [psk] using this
  have hout : ∀ o ∈ flushAll s, o.1 < s.tents.length := by
    intro o ho
    have hm : (o.1, o.2.t, o.2.weight, o.2.synth) ∈ (flushAll s).map (fun o => (o.1, o.2.t, o.2.weight, o.2.synth)) :=
      List.mem_map_of_mem (f := fun o : Nat × OutSample => (o.1, o.2.t, o.2.weight, o.2.synth)) ho
    rw [flushAll_proj] at hm
    obtain ⟨u, hu, heq⟩ := List.mem_map.mp hm
    have h1 : u.th = o.1 := congrArg Prod.fst heq
    have := hsok u hu
    simp only [tsk, List.length_map] at this
    omega
  have h1 := views_perm s (flushAll s) (fun v o => (o.synth, F v o)) (fun i o => (o.synth, G i o)) hv hout
    (fun i te v hte hvw o => by rw [hFG i te v hte hvw o])
  have h2 := (h1.filter (fun x => !x.1)).map Prod.snd
  rw [recorded_flatMap_aux] at h2
  have e1 : ((viewsAux s (flushAll s) 0 s.tents).flatMap
        (fun v => (v.samples.filter (fun o => !o.synth)).map (fun o => (false, F v o)))).map Prod.snd =
      (views s).flatMap (fun v => (v.samples.filter (fun o => !o.synth)).map (F v)) := by
    unfold views
    rw [List.map_flatMap]; congr 1; funext v; rw [List.map_map]; rfl
  have e2 : ((((flushAll s).filter (fun o => !o.2.marker)).map (fun o => (o.2.synth, G o.1 o.2))).filter
        (fun x => !x.1)).map Prod.snd =
      ((flushAll s).filter (fun o => !o.2.synth)).map (fun o => G o.1 o.2) := by
    rw [List.filter_map, List.map_map, ← filter_marker_synthO (flushAll s)]; rfl
  rw [e1, e2] at h2
  exact h2

theorem mem_buffered_of_allBuffers {s : St} {b : List USample × List (Nat × MapAdd) × Nat} (hb : b ∈ allBuffers s)
    {u : USample} (hu : u ∈ b.1) : u ∈ buffered s := by
  unfold allBuffers at hb
  unfold buffered
  rcases List.mem_append.mp hb with hb | hb
  · exact List.mem_append_left _ (List.mem_flatMap.mpr ⟨b, hb, hu⟩)
  · obtain ⟨e, he, rfl⟩ := List.mem_map.mp hb
    exact List.mem_append_right _ (List.mem_flatMap.mpr ⟨e, (List.mem_filter.mp he).1, hu⟩)

theorem flatMap_congr' {α β} {l : List α} {f g : α → List β} (h : ∀ x ∈ l, f x = g x) : l.flatMap f = l.flatMap g := by
  induction l with
  | nil => rfl
  | cons a t ih =>
    rw [List.flatMap_cons, List.flatMap_cons, h a List.mem_cons_self,
      ih (fun x hx => h x (List.mem_cons_of_mem _ hx))]

/-- **The history-level statement behind `C02_history`.** -/
theorem history_views (cfg : Config) (rs : List Rec) (hr : cfg.reuse = false)
    (hg : Life.grammarOk cfg.ref rs = true) (hcs : hasCsRec rs = false) (hsp : noSpecial rs = true)
    (hord : queuedOrdered rs = true) (hpm : ∀ pid, (loadPerfMap cfg pid).isSome = true) :
    List.Perm
      ((views (run cfg rs)).flatMap (fun v => (v.samples.filter (fun o => !o.synth)).map
        (fun o => (v.pidBase, v.tidBase, o.t, o.frames))))
      ((expectedSamples cfg rs).map (ExpSample.out cfg)) := by
  obtain ⟨h, ⟨T, hs⟩, p⟩ := hist_run cfg rs hr hg hcs hsp hord
  generalize run cfg rs = s at h hs p
  obtain ⟨acc, hsim⟩ := h.sim
  have hinv := hsim.inv
  have hkey : ∀ u ∈ buffered s, entKey s u.th = (u.gpid, u.gtid) := by
    intro u hu
    obtain ⟨ph, h3, h4⟩ := (hsim.sok u hu).2 (by rw [hsim.hcfg]; exact hr)
    exact entKey_of_skel h3 h4
  have h1 := views_recorded_flush s hinv (fun u hu => (hsim.sok u hu).1)
    (fun v o => (v.pidBase, v.tidBase, o.t, o.frames))
    (fun i o => ((entKey s i).1, (entKey s i).2, o.t, o.frames))
    (fun i te v hte hv o => by
      have := viewOf_key hte hv
      simp only [← this])
  refine h1.trans (List.Perm.trans (List.Perm.of_eq ?_) p)
  rw [Phi_nil_eq cfg s (fun e he => (hinv.procs e he).1)]
  unfold flushAll
  rw [List.filter_flatMap, List.map_flatMap]
  apply flatMap_congr'
  intro b hb
  rw [h.cfg_eq]
  refine flushBuffer_specBuf cfg (entKey s) b ?_ ?_ (hpm _) (fun u hu => hkey u (mem_buffered_of_allBuffers hb hu))
  · -- sorted queue
    unfold allBuffers at hb
    rcases List.mem_append.mp hb with hb | hb
    · exact (hs.parked b hb).1
    · obtain ⟨e, he, rfl⟩ := List.mem_map.mp hb
      have hg' := alGet_of_mem_nodup hinv.nodup (List.mem_filter.mp he).1
      have := (hs.q e.1).1
      rw [pobs_of_get hg'] at this
      exact this
  · unfold allBuffers at hb
    rcases List.mem_append.mp hb with hb | hb
    · exact (hs.parked b hb).2
    · obtain ⟨e, he, rfl⟩ := List.mem_map.mp hb
      have hg' := alGet_of_mem_nodup hinv.nodup (List.mem_filter.mp he).1
      have := (hs.u e.1).1
      rw [pobs_of_get hg'] at this
      exact this

theorem allBuffers_sorted {s : St} {T : Nat} (hinv : InvA s) (hs : HSort s T) :
    ∀ b ∈ allBuffers s, SortedQ b.2.1 ∧ MonoU b.1 := by
  intro b hb
  unfold allBuffers at hb
  rcases List.mem_append.mp hb with hb | hb
  · exact hs.parked b hb
  · obtain ⟨e, he, rfl⟩ := List.mem_map.mp hb
    have hg' := alGet_of_mem_nodup hinv.nodup (List.mem_filter.mp he).1
    have h1 := (hs.q e.1).1
    have h2 := (hs.u e.1).1
    rw [pobs_of_get hg'] at h1 h2
    exact ⟨h1, h2⟩

theorem pobs_mapq (procs : List (Nat × ProcC)) (pid : Nat) :
    (pobs procs pid).mapq = ((alGet procs pid).map (·.mapq)).getD [] := by
  unfold pobs; cases alGet procs pid <;> rfl

def forkHit (l : Life.S) : Rec → List Nat
  | .fork pid _ ppid _ _ => if pid != ppid && (Life.curProc l pid).isSome then [pid] else []
  | _ => []

theorem forkOntoLive_eq (ref : Nat) (rs : List Rec) :
    Life.forkOntoLive ref rs =
      (rs.foldl (fun (st : Life.S × List Nat) r => (Life.step st.1 r, st.2 ++ forkHit st.1 r))
        ({ ref, cur := ref }, [])).2 := by
  unfold Life.forkOntoLive
  congr 2

theorem forkHit_fold_of_grammar (rs : List Rec) :
    ∀ (g : Life.G) (acc : List Nat), (rs.foldl Life.gStep g).ok = true →
      (rs.foldl (fun (st : Life.S × List Nat) r => (Life.step st.1 r, st.2 ++ forkHit st.1 r)) (g.s, acc)).2 = acc := by
  induction rs with
  | nil => intro g acc _; rfl
  | cons r rs ih =>
    intro g acc hg
    have hf := (LifeL.gStep_ok (LifeL.foldl_gStep_ok (g := Life.gStep g r) hg)).2
    rw [List.foldl_cons]
    have hhit : forkHit g.s r = [] := by
      cases r with
      | fork pid tid ppid ptid t =>
        simp only [LifeL.forkOk] at hf
        by_cases hpp : pid ≠ ppid
        · rw [if_pos hpp] at hf
          simp [forkHit, hf]
        · have : pid = ppid := Classical.not_not.mp hpp
          simp [forkHit, this]
      | _ => rfl
    rw [hhit, List.append_nil]
    exact ih (Life.gStep g r) acc hg

/-- the executable grammar check excludes every FORK onto a live pid (the judge's `[fork-onto-live-pid]` tag is
never attached inside `grammarOk`) -/
theorem forkOntoLive_of_grammar (ref : Nat) (rs : List Rec) (hg : Life.grammarOk ref rs = true) :
    Life.forkOntoLive ref rs = [] := by
  rw [forkOntoLive_eq]
  exact forkHit_fold_of_grammar rs { s := { ref, cur := ref } } [] hg

end Conv
