import SamplyModel.Lemmas.LibIdentity
/-! The reader's walk collects every library object of the document (specification side: `allObjs`,
`PDoc.sub`). -/
namespace LI

mutual
/-- every library object anywhere in the document, in document order: own `libs`, the threads' `libs`, then the
sub-processes -/
def PDoc.allObjs : PDoc → List JObj
  | .mk libs threads procs => libs ++ threads.flatten ++ PDoc.allObjsList procs
def PDoc.allObjsList : List PDoc → List JObj
  | [] => []
  | p :: ps => p.allObjs ++ PDoc.allObjsList ps
end

theorem parseLibs_append (a b : List JObj) :
    parseLibs (a ++ b) = match parseLibs a, parseLibs b with
      | some x, some y => some (x ++ y)
      | _, _ => none := by
  induction a with
  | nil => cases hb : parseLibs b <;> simp [parseLibs, hb]
  | cons o os ih =>
    simp only [List.cons_append, parseLibs, ih]
    cases parseLib o <;> cases parseLibs os <;> cases parseLibs b <;> simp

mutual
theorem collect_eq_parse_allObjs : ∀ d : PDoc, collect d = parseLibs d.allObjs
  | .mk libs threads procs => by
    rw [collect, PDoc.allObjs, parseLibs_append, parseLibs_append, collectAll_eq_parse_allObjs procs]
    cases parseLibs libs <;> cases parseLibs threads.flatten <;> cases parseLibs (PDoc.allObjsList procs) <;> simp
theorem collectAll_eq_parse_allObjs : ∀ ds : List PDoc, collectAll ds = parseLibs (PDoc.allObjsList ds)
  | [] => by simp [collectAll, PDoc.allObjsList, parseLibs]
  | d :: ds => by
    rw [collectAll, PDoc.allObjsList, parseLibs_append, collect_eq_parse_allObjs d, collectAll_eq_parse_allObjs ds]
    cases parseLibs d.allObjs <;> cases parseLibs (PDoc.allObjsList ds) <;> simp
end

theorem parseLibs_mem (os : List JObj) (ls : List JLib) (h : parseLibs os = some ls) (o : JObj) (ho : o ∈ os) :
    ∃ l ∈ ls, parseLib o = some l := by
  induction os generalizing ls with
  | nil => simp at ho
  | cons x xs ih =>
    simp only [parseLibs] at h
    cases hx : parseLib x with
    | none => simp [hx] at h
    | some lx =>
      cases hxs : parseLibs xs with
      | none => simp [hx, hxs] at h
      | some lxs =>
        simp [hx, hxs] at h; subst h
        rcases List.mem_cons.1 ho with h1 | h1
        · subst h1; exact ⟨lx, by simp, hx⟩
        · obtain ⟨l, hl, hp⟩ := ih lxs hxs h1
          exact ⟨l, List.mem_cons_of_mem _ hl, hp⟩

/-- the sub-process reached by following `processes[i]` for each index of the path -/
def PDoc.sub : List Nat → PDoc → Option PDoc
  | [], d => some d
  | i :: rest, .mk _ _ procs =>
    match procs[i]? with
    | some p => PDoc.sub rest p
    | none => none

theorem allObjsList_mem (ps : List PDoc) (i : Nat) (p : PDoc) (h : ps[i]? = some p) (o : JObj) (ho : o ∈ p.allObjs) :
    o ∈ PDoc.allObjsList ps := by
  induction ps generalizing i with
  | nil => simp at h
  | cons x xs ih =>
    simp only [PDoc.allObjsList, List.mem_append]
    cases i with
    | zero => simp at h; subst h; exact Or.inl ho
    | succ j => simp at h; exact Or.inr (ih j h)

theorem sub_allObjs (path : List Nat) (d sub : PDoc) (h : PDoc.sub path d = some sub) (o : JObj) (ho : o ∈ sub.allObjs) :
    o ∈ d.allObjs := by
  induction path generalizing d with
  | nil => simp [PDoc.sub] at h; subst h; exact ho
  | cons i rest ih =>
    obtain ⟨libs, threads, procs⟩ := d
    simp only [PDoc.sub] at h
    cases hp : procs[i]? with
    | none => simp [hp] at h
    | some p =>
      simp only [hp] at h
      have := ih p h
      simp only [PDoc.allObjs, List.mem_append]
      exact Or.inr (allObjsList_mem procs i p hp o this)

end LI
