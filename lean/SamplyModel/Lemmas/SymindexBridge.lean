import SamplyModel.Lemmas.PanicKernels
import SamplyModel.Lemmas.BreakpadServe
/-!
`PK.parseSymindex` (C08's panic kernel of `parse_symindex_file`: explicit `panic` at the five
`from_bytes().unwrap()`s, error kinds, module-info parse as an oracle bit) and `BP.parseSymindex` (C10's
byte-exact model: module-info parse modelled, `Option`) accept the same files with the same counts, when the
oracle bit is what C10's model of the module-info parse says.
-/
namespace C08T
open PK

theorem readBytesAt_eq (d : List UInt8) (o s : Nat) : readBytesAt d o s = BP.readAt d o s := by
  unfold readBytesAt BP.readAt
  by_cases h1 : o ≤ d.length
  · by_cases h2 : s ≤ d.length - o
    · have : o + s ≤ d.length := by omega
      simp [h1, h2, this]
    · have : ¬ o + s ≤ d.length := by omega
      simp [h1, h2, this]
  · have : ¬ o + s ≤ d.length := by omega
    simp [h1, this]

theorem readAt_length {d r : List UInt8} {o s : Nat} (h : BP.readAt d o s = some r) : r.length = s := by
  unfold BP.readAt at h
  split at h
  · cases h; simp; omega
  · cases h

theorem getD_eq (l : List UInt8) (k : Nat) (h : k < l.length) : l.getD k 0 = l[k] := by
  simp [List.getD, List.getElem?_eq_getElem h]

theorem take32_drop (l : List UInt8) (k : Nat) (h : k + 4 ≤ l.length) :
    BP.take32 (l.drop k) = some (le32 l k, l.drop (k + 4)) := by
  have e0 : l.drop k = l[k] :: l.drop (k + 1) := List.drop_eq_getElem_cons (by omega)
  have e1 : l.drop (k + 1) = l[k + 1] :: l.drop (k + 2) := List.drop_eq_getElem_cons (by omega)
  have e2 : l.drop (k + 2) = l[k + 2] :: l.drop (k + 3) := List.drop_eq_getElem_cons (by omega)
  have e3 : l.drop (k + 3) = l[k + 3] :: l.drop (k + 4) := List.drop_eq_getElem_cons (by omega)
  rw [e0, e1, e2, e3]
  simp only [BP.take32, le32, getD_eq l k (by omega), getD_eq l (k + 1) (by omega), getD_eq l (k + 2) (by omega),
    getD_eq l (k + 3) (by omega)]

theorem tag_append (t r : List UInt8) : BP.tag t (t ++ r) = some r := by
  induction t with
  | nil => simp [BP.tag]
  | cons a t ih => simp [BP.tag, ih]

theorem tag_some {t l r : List UInt8} (h : BP.tag t l = some r) : l = t ++ r := by
  induction t generalizing l with
  | nil => simp [BP.tag] at h; simp [h]
  | cons a t ih =>
    cases l with
    | nil => simp [BP.tag] at h
    | cons b l =>
      simp only [BP.tag] at h
      split at h
      · rename_i hab
        rw [hab, ih h]; rfl
      · cases h

theorem tag_magic (hb : List UInt8) (h48 : hb.length = 48) :
    BP.tag BP.tSYMINDEX hb = if hb.take 8 = magicSYMINDEX then some (hb.drop 8) else none := by
  have hm : BP.tSYMINDEX = magicSYMINDEX := rfl
  by_cases h : hb.take 8 = magicSYMINDEX
  · simp only [h, if_true]
    have : hb = magicSYMINDEX ++ hb.drop 8 := by rw [← h]; exact (List.take_append_drop 8 hb).symm
    rw [hm]
    conv => lhs; rw [this]
    exact tag_append _ _
  · simp only [h, if_false]
    cases ht : BP.tag BP.tSYMINDEX hb with
    | none => rfl
    | some r =>
      exfalso
      apply h
      have := tag_some ht
      rw [this, hm]
      simp [magicSYMINDEX]

/-- the header as both models read it -/
theorem decHeader_eq (hb : List UInt8) (h48 : hb.length = 48) :
    BP.decHeader hb =
      if hb.take 8 = magicSYMINDEX then
        some ⟨le32 hb 8, le32 hb 12, le32 hb 16, le32 hb 20, le32 hb 24, le32 hb 28, le32 hb 32, le32 hb 36,
              le32 hb 40, le32 hb 44⟩
      else none := by
  unfold BP.decHeader
  rw [tag_magic hb h48]
  by_cases h : hb.take 8 = magicSYMINDEX
  · simp only [h, if_true]
    simp only [take32_drop hb 8 (by omega), take32_drop hb 12 (by omega), take32_drop hb 16 (by omega),
      take32_drop hb 20 (by omega), take32_drop hb 24 (by omega), take32_drop hb 28 (by omega),
      take32_drop hb 32 (by omega), take32_drop hb 36 (by omega), take32_drop hb 40 (by omega),
      take32_drop hb 44 (by omega)]
  · simp only [h, if_false]

/-! ### fixed-size items always decode from a slice that is long enough -/

theorem take32_some (l : List UInt8) (h : 4 ≤ l.length) : ∃ a, BP.take32 l = some (a, l.drop 4) := by
  have := take32_drop l 0 (by omega)
  simp only [List.drop_zero, Nat.zero_add] at this
  exact ⟨_, this⟩

theorem take64_some (l : List UInt8) (h : 8 ≤ l.length) : ∃ a, BP.take64 l = some (a, l.drop 8) := by
  obtain ⟨a, ha⟩ := take32_some l (by omega)
  obtain ⟨b, hb⟩ := take32_some (l.drop 4) (by simp; omega)
  refine ⟨a + BP.pow32 * b, ?_⟩
  simp [BP.take64, ha, hb]

theorem decFEntry_some (l : List UInt8) (h : 16 ≤ l.length) : ∃ a, BP.decFEntry l = some (a, l.drop 16) := by
  obtain ⟨a, ha⟩ := take32_some l (by omega)
  obtain ⟨b, hb⟩ := take32_some (l.drop 4) (by simp; omega)
  obtain ⟨c, hc⟩ := take64_some (l.drop 8) (by simp; omega)
  have hb' : BP.take32 (l.drop 4) = some (b, l.drop 8) := by simpa [List.drop_drop] using hb
  have hc' : BP.take64 (l.drop 8) = some (c, l.drop 16) := by simpa [List.drop_drop] using hc
  refine ⟨⟨a, b, c⟩, ?_⟩
  simp [BP.decFEntry, ha, hb', hc']

theorem decSymEntry_some (l : List UInt8) (h : 16 ≤ l.length) : ∃ a, BP.decSymEntry l = some (a, l.drop 16) := by
  obtain ⟨a, ha⟩ := take32_some l (by omega)
  obtain ⟨b, hb⟩ := take32_some (l.drop 4) (by simp; omega)
  obtain ⟨c, hc⟩ := take64_some (l.drop 8) (by simp; omega)
  have hb' : BP.take32 (l.drop 4) = some (b, l.drop 8) := by simpa [List.drop_drop] using hb
  have hc' : BP.take64 (l.drop 8) = some (c, l.drop 16) := by simpa [List.drop_drop] using hc
  refine ⟨⟨a, b, c⟩, ?_⟩
  simp [BP.decSymEntry, ha, hb', hc']

theorem decList_some {α : Type} (dec : List UInt8 → Option (α × List UInt8)) (sz : Nat)
    (hdec : ∀ l, sz ≤ l.length → ∃ a, dec l = some (a, l.drop sz)) (n : Nat) (l : List UInt8)
    (h : n * sz ≤ l.length) : ∃ r, BP.decList dec n l = some r ∧ r.length = n := by
  induction n generalizing l with
  | zero => exact ⟨[], rfl, rfl⟩
  | succ n ih =>
    have h1 : sz ≤ l.length := by
      have : (n + 1) * sz = n * sz + sz := Nat.succ_mul n sz
      omega
    obtain ⟨a, ha⟩ := hdec l h1
    obtain ⟨r, hr, hl⟩ := ih (l.drop sz) (by
      have : (n + 1) * sz = n * sz + sz := Nat.succ_mul n sz
      simp; omega)
    exact ⟨a :: r, by simp [BP.decList, ha, hr], by simp [hl]⟩

/-- one counted section, both ways -/
theorem readSection_eq (data : List UInt8) (count elem off : Nat) (eo er : SymErr) (helem : 0 < elem) :
    readSection data count elem off eo er =
      if ¬ count * elem < BP.pow32 then .err eo
      else match BP.readAt data off (count * elem) with
        | none => .err er
        | some _ => .ok count := by
  unfold readSection checkedMulU32
  by_cases h : count * elem ≤ u32Max
  · have h' : count * elem < BP.pow32 := by simp only [u32Max] at h; simp only [BP.pow32]; omega
    simp only [h, if_true, h', not_true_eq_false, if_false]
    rw [readBytesAt_eq]
    cases hr : BP.readAt data off (count * elem) with
    | none => rfl
    | some bs =>
      simp only
      have hl := readAt_length hr
      unfold refFromBytes
      rw [hl]
      simp [Nat.mul_mod_left, Nat.mul_div_cancel _ helem]
  · have h' : ¬ count * elem < BP.pow32 := by simp only [u32Max] at h; simp only [BP.pow32]; omega
    simp only [h, if_false, h', not_false_eq_true, if_true]

/-- the oracle bit of `PK.parseSymindex`, computed by C10's model of the module-info parse -/
def modOk (data : List UInt8) : Bool :=
  match BP.readAt data 0 48 with
  | none => false
  | some hb =>
    match BP.readAt data (le32 hb 12) (le32 hb 16) with
    | none => false
    | some mi => (BP.deriveModule mi).isSome

def summary (ix : BP.Index) : SymIndexInfo :=
  ⟨ix.moduleInfo.length, ix.files.length, ix.origins.length, ix.addrs.length⟩

def okPart : Res SymErr SymIndexInfo → Option SymIndexInfo
  | .ok i => some i
  | _ => none

@[simp] theorem bind_err' {α β : Type} (e : SymErr) (f : α → Res SymErr β) : (Res.err e >>= f) = Res.err e := rfl

theorem parseSymindex_bridge (data : List UInt8) :
    okPart (parseSymindex data (modOk data)) = (BP.parseSymindex data).map summary ∧
    parseSymindex data (modOk data) ≠ .panic := by
  unfold parseSymindex BP.parseSymindex modOk
  rw [readBytesAt_eq]
  cases h0 : BP.readAt data 0 48 with
  | none => exact ⟨rfl, by simp⟩
  | some hb =>
    have h48 := readAt_length h0
    simp only [h48, ne_eq, not_true_eq_false, if_false]
    rw [decHeader_eq hb h48]
    by_cases hm : hb.take 8 = magicSYMINDEX
    case neg => simp [hm, okPart]
    simp only [hm, not_true_eq_false, if_false, if_true]
    rw [readBytesAt_eq]
    obtain hmi | ⟨mi, hmi⟩ : BP.readAt data (le32 hb 12) (le32 hb 16) = none ∨
        ∃ mi, BP.readAt data (le32 hb 12) (le32 hb 16) = some mi := by
      cases BP.readAt data (le32 hb 12) (le32 hb 16) <;> simp
    · simp only [hmi]
      exact ⟨rfl, by simp⟩
    · simp only [hmi]
      cases hd : (BP.deriveModule mi).isSome with
      | false =>
        have : (BP.deriveModule mi).isNone = true := by
          cases hx : BP.deriveModule mi <;> simp_all
        simp [this, okPart]
      | true =>
        have hn : (BP.deriveModule mi).isNone = false := by
          cases hx : BP.deriveModule mi <;> simp_all
        simp only [hn, Bool.not_true, Bool.false_eq_true, if_false]
        rw [readSection_eq _ _ 16 _ _ _ (by omega), readSection_eq _ _ 16 _ _ _ (by omega),
          readSection_eq _ _ 4 _ _ _ (by omega), readSection_eq _ _ 16 _ _ _ (by omega)]
        by_cases c1 : le32 hb 20 * 16 < BP.pow32
        case neg => simp [c1, okPart]
        simp only [c1, not_true_eq_false, if_false]
        cases r1 : BP.readAt data (le32 hb 24) (le32 hb 20 * 16) with
        | none => simp [okPart]
        | some fb =>
          simp only [bind_ok]
          by_cases c2 : le32 hb 28 * 16 < BP.pow32
          case neg => simp [c2, okPart]
          simp only [c2, not_true_eq_false, if_false]
          cases r2 : BP.readAt data (le32 hb 32) (le32 hb 28 * 16) with
          | none => simp [okPart]
          | some ob =>
            simp only [bind_ok]
            by_cases c3 : le32 hb 36 * 4 < BP.pow32
            case neg => simp [c3, okPart]
            simp only [c3, not_true_eq_false, if_false]
            cases r3 : BP.readAt data (le32 hb 40) (le32 hb 36 * 4) with
            | none => simp [okPart]
            | some ab =>
              simp only [bind_ok]
              by_cases c4 : le32 hb 36 * 16 < BP.pow32
              case neg => simp [c4, okPart]
              simp only [c4, not_true_eq_false, if_false]
              cases r4 : BP.readAt data (le32 hb 44) (le32 hb 36 * 16) with
              | none => simp [okPart]
              | some eb =>
                simp only [bind_ok]
                obtain ⟨files, hf, hfl⟩ := decList_some BP.decFEntry 16 decFEntry_some (le32 hb 20) fb
                  (by rw [readAt_length r1]; exact Nat.le_refl _)
                obtain ⟨origins, ho, hol⟩ := decList_some BP.decFEntry 16 decFEntry_some (le32 hb 28) ob
                  (by rw [readAt_length r2]; exact Nat.le_refl _)
                obtain ⟨addrs, ha, hal⟩ := decList_some BP.take32 4 take32_some (le32 hb 36) ab
                  (by rw [readAt_length r3]; exact Nat.le_refl _)
                obtain ⟨entries, he, hel⟩ := decList_some BP.decSymEntry 16 decSymEntry_some (le32 hb 36) eb
                  (by rw [readAt_length r4]; exact Nat.le_refl _)
                simp only [hf, ho, ha, he]
                refine ⟨?_, by simp [pure]⟩
                simp [okPart, summary, pure, readAt_length hmi, hfl, hol, hal]

end C08T
