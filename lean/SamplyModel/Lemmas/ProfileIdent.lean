import SamplyModel.Lemmas.ProfileStruct
/-!
The identity invariant of C03 on the skeleton: every thread is listed exactly once, in the thread
list of its own process; pid pairs `(number, suffix)` are pairwise distinct, tid pairs likewise
(the suffix map always holds the next unused suffix).
-/
namespace PT

/-- next suffix the map hands out for `id` (0 = the number has not been used) -/
def nextOf (m : List (Nat × Nat)) (id : Nat) : Nat := (alookup m id).getD 0

theorem makeUnique_eq (m : List (Nat × Nat)) (id : Nat) :
    makeUnique m id = ((id, nextOf m id + 1) :: m, (id, nextOf m id)) := by
  unfold makeUnique nextOf
  cases alookup m id <;> rfl

theorem nextOf_cons (m : List (Nat × Nat)) (id k x : Nat) :
    nextOf ((id, k) :: m) x = if id = x then k else nextOf m x := by
  unfold nextOf
  simp only [alookup]
  split <;> simp

abbrev Skel := List (Nat × IdStr) × List (List Nat × IdStr) × List (Nat × Nat) × List (Nat × Nat)

structure SkelOk (s : Skel) : Prop where
  listed : ∀ (pi : Nat) (l : List Nat) (pid : IdStr), s.2.1[pi]? = some (l, pid) →
    ∀ h ∈ l, ∃ tid, s.1[h]? = some (pi, tid)
  owner : ∀ (h pi : Nat) (tid : IdStr), s.1[h]? = some (pi, tid) →
    ∃ l pid, s.2.1[pi]? = some (l, pid) ∧ h ∈ l
  nodup : ∀ x ∈ s.2.1, x.1.Nodup
  pidsNodup : (s.2.1.map (·.2)).Nodup
  pidsBound : ∀ x ∈ s.2.1, x.2.2 < nextOf s.2.2.1 x.2.1
  tidsNodup : (s.1.map (·.2)).Nodup
  tidsBound : ∀ x ∈ s.1, x.2.2 < nextOf s.2.2.2 x.2.1

def SInv (p : P) : Prop := SkelOk (skel p)

theorem SInv.init : SInv P.init where
  listed := by intro pi l pid h; simp [skel, P.init] at h
  owner := by intro h pi tid hh; simp [skel, P.init] at hh
  nodup := fun _ hx => (nomatch hx)
  pidsNodup := List.nodup_nil
  pidsBound := fun _ hx => (nomatch hx)
  tidsNodup := List.nodup_nil
  tidsBound := fun _ hx => (nomatch hx)

/-- a fresh id pair is not among pairs that respect the bound -/
theorem fresh_not_mem {α : Type} (l : List α) (f : α → IdStr) (m : List (Nat × Nat)) (id : Nat)
    (hb : ∀ x ∈ l, (f x).2 < nextOf m (f x).1) : (id, nextOf m id) ∉ l.map f := by
  intro hmem
  simp only [List.mem_map] at hmem
  obtain ⟨x, hx, he⟩ := hmem
  have := hb x hx
  rw [he] at this
  simp at this

theorem bound_after {α : Type} (l : List α) (f : α → IdStr) (m : List (Nat × Nat)) (id : Nat)
    (hb : ∀ x ∈ l, (f x).2 < nextOf m (f x).1) :
    ∀ x ∈ l, (f x).2 < nextOf ((id, nextOf m id + 1) :: m) (f x).1 := by
  intro x hx
  rw [nextOf_cons]
  split
  · rename_i h; have := hb x hx; rw [← h] at this; omega
  · exact hb x hx

theorem skel_addProcess (p : P) (pid start : Nat) (name : Str) :
    skel (step p (.addProcess pid start name)).1 =
      ((skel p).1, (skel p).2.1 ++ [([], (pid, nextOf p.usedPids pid))],
       (pid, nextOf p.usedPids pid + 1) :: p.usedPids, p.usedTids) := by
  simp [step, skel, makeUnique_eq]

theorem SInv.addProcess (p : P) (h : SInv p) (pid start : Nat) (name : Str) :
    SInv (step p (.addProcess pid start name)).1 := by
  unfold SInv
  rw [skel_addProcess]
  obtain ⟨a1, a2, a3, a4, a5, a6, a7⟩ := h
  refine ⟨?_, ?_, ?_, ?_, ?_, a6, a7⟩
  · intro pi l pd hl x hx
    simp only at hl
    by_cases hlt : pi < (skel p).2.1.length
    · rw [List.getElem?_append_left hlt] at hl
      exact a1 pi l pd hl x hx
    · rw [List.getElem?_append_right (by omega)] at hl
      cases hk : pi - (skel p).2.1.length with
      | zero =>
        rw [hk] at hl
        simp only [List.getElem?_cons_zero, Option.some.injEq, Prod.mk.injEq] at hl
        rw [← hl.1] at hx
        cases hx
      | succ k => rw [hk] at hl; simp at hl
  · intro x pi tid hx
    obtain ⟨l, pd, hl, hm⟩ := a2 x pi tid hx
    refine ⟨l, pd, ?_, hm⟩
    simp only
    rw [List.getElem?_append_left (List.getElem?_eq_some_iff.mp hl).1]
    exact hl
  · intro x hx
    simp only [List.mem_append, List.mem_singleton] at hx
    rcases hx with hx | rfl
    · exact a3 x hx
    · exact List.nodup_nil
  · simp only [List.map_append, List.map_cons, List.map_nil]
    rw [List.nodup_append]
    refine ⟨a4, by simp, ?_⟩
    intro a ha b hb
    simp only [List.mem_singleton] at hb
    subst hb
    intro he
    subst he
    exact fresh_not_mem _ (fun x : List Nat × IdStr => x.2) p.usedPids pid a5 ha
  · intro x hx
    simp only [List.mem_append, List.mem_singleton] at hx
    rcases hx with hx | rfl
    · exact bound_after _ (fun x : List Nat × IdStr => x.2) p.usedPids pid a5 x hx
    · simp [nextOf_cons]

theorem skel_addThread (p : P) (proc tid start : Nat) (main : Bool) (pr : Process)
    (hpr : p.processes[proc]? = some pr) :
    skel (step p (.addThread proc tid start main)).1 =
      ((skel p).1 ++ [(proc, (tid, nextOf p.usedTids tid))],
       (skel p).2.1.set proc (pr.threads ++ [p.threads.length], pr.pid),
       p.usedPids, (tid, nextOf p.usedTids tid + 1) :: p.usedTids) := by
  simp [step, skel, makeUnique_eq, hpr, List.map_set]

theorem SInv.addThread (p : P) (h : SInv p) (proc tid start : Nat) (main : Bool)
    (hv : proc < p.processes.length) : SInv (step p (.addThread proc tid start main)).1 := by
  unfold SInv
  rw [skel_addThread p proc tid start main _ (List.getElem?_eq_getElem hv)]
  obtain ⟨a1, a2, a3, a4, a5, a6, a7⟩ := h
  have hn : (skel p).1.length = p.threads.length := by simp [skel]
  have hpl : (skel p).2.1.length = p.processes.length := by simp [skel]
  have hget : (skel p).2.1[proc]? = some ((p.processes[proc]).threads, (p.processes[proc]).pid) := by
    simp [skel, hv]
  have hold : ∀ x ∈ (p.processes[proc]).threads, x < p.threads.length := by
    intro x hx
    obtain ⟨td, htd⟩ := a1 proc _ _ hget x hx
    have := (List.getElem?_eq_some_iff.mp htd).1
    omega
  refine ⟨?_, ?_, ?_, ?_, ?_, ?_, ?_⟩
  · intro pi l pd hl x hx
    simp only [List.getElem?_set] at hl
    split at hl
    · rename_i he
      subst he
      split at hl
      · simp only [Option.some.injEq, Prod.mk.injEq] at hl
        rw [← hl.1] at hx
        simp only [List.mem_append, List.mem_singleton] at hx
        rcases hx with hx | rfl
        · obtain ⟨td, htd⟩ := a1 proc _ _ hget x hx
          exact ⟨td, by simp only; rw [List.getElem?_append_left (List.getElem?_eq_some_iff.mp htd).1]; exact htd⟩
        · refine ⟨(tid, nextOf p.usedTids tid), ?_⟩
          simp only
          rw [List.getElem?_append_right (by omega)]
          simp [hn]
      · cases hl
    · obtain ⟨td, htd⟩ := a1 pi l pd hl x hx
      exact ⟨td, by simp only; rw [List.getElem?_append_left (List.getElem?_eq_some_iff.mp htd).1]; exact htd⟩
  · intro x pi td hx
    simp only at hx
    by_cases hlt : x < (skel p).1.length
    · rw [List.getElem?_append_left hlt] at hx
      obtain ⟨l, pd, hl, hm⟩ := a2 x pi td hx
      by_cases he : proc = pi
      · subst he
        rw [hget] at hl
        simp only [Option.some.injEq, Prod.mk.injEq] at hl
        refine ⟨_, _, by simp only [List.getElem?_set, hpl, hv, if_true]; rfl, ?_⟩
        rw [← hl.1] at hm
        simp [hm]
      · exact ⟨l, pd, by simp only [List.getElem?_set, he, if_false]; exact hl, hm⟩
    · rw [List.getElem?_append_right (by omega)] at hx
      cases hk : x - (skel p).1.length with
      | zero =>
        rw [hk] at hx
        simp only [List.getElem?_cons_zero, Option.some.injEq, Prod.mk.injEq] at hx
        have hx' : x = p.threads.length := by omega
        obtain ⟨hx1, _⟩ := hx
        subst hx1
        refine ⟨_, _, by simp only [List.getElem?_set, hpl, hv, if_true]; rfl, ?_⟩
        simp [hx']
      | succ k => rw [hk] at hx; simp at hx
  · intro x hx
    rcases List.mem_or_eq_of_mem_set hx with hx | rfl
    · exact a3 x hx
    · simp only
      rw [List.nodup_append]
      refine ⟨a3 _ (List.mem_of_getElem? hget), by simp, ?_⟩
      intro a ha b hb
      simp only [List.mem_singleton] at hb
      subst hb
      have := hold a ha
      omega
  · -- pids are unchanged by the `set`
    have : ((skel p).2.1.set proc ((p.processes[proc]).threads ++ [p.threads.length], (p.processes[proc]).pid)).map (·.2)
        = (skel p).2.1.map (·.2) :=
      List.map_set_of (fun x : List Nat × IdStr => x.2) _ _ _ _ hget (by rfl)
    simp only
    rw [this]; exact a4
  · intro x hx
    rcases List.mem_or_eq_of_mem_set hx with hx | rfl
    · exact a5 x hx
    · have := a5 _ (List.mem_of_getElem? hget)
      exact this
  · simp only [List.map_append, List.map_cons, List.map_nil]
    rw [List.nodup_append]
    refine ⟨a6, by simp, ?_⟩
    intro a ha b hb
    simp only [List.mem_singleton] at hb
    subst hb
    intro he
    subst he
    exact fresh_not_mem _ (fun x : Nat × IdStr => x.2) p.usedTids tid a7 ha
  · intro x hx
    simp only [List.mem_append, List.mem_singleton] at hx
    rcases hx with hx | rfl
    · exact bound_after _ (fun x : Nat × IdStr => x.2) p.usedTids tid a7 x hx
    · simp [nextOf_cons]

theorem List.map_modify_comm {α β : Type} (g : α → β) (f : α → α) (f' : β → β) (hf : ∀ x, g (f x) = f' (g x))
    (l : List α) (i : Nat) : (l.modify i f).map g = (l.map g).modify i f' := by
  induction l generalizing i with
  | nil => simp
  | cons a as ih =>
    cases i with
    | zero => simp [hf]
    | succ i => simp [ih]

theorem List.nodup_modify_fresh {α : Type} (l : List α) (i : Nat) (a : α) (hn : l.Nodup) (ha : a ∉ l) :
    (l.modify i (fun _ => a)).Nodup := by
  induction l generalizing i with
  | nil => simp
  | cons x xs ih =>
    rw [List.nodup_cons] at hn
    cases i with
    | zero =>
      simp only [List.modify_zero_cons, List.nodup_cons]
      exact ⟨fun h => ha (List.mem_cons_of_mem _ h), hn.2⟩
    | succ i =>
      simp only [List.modify_succ_cons, List.nodup_cons]
      refine ⟨?_, ih i hn.2 (fun h => ha (List.mem_cons_of_mem _ h))⟩
      intro hx
      rcases List.mem_modify _ _ _ _ hx with hx | ⟨y, _, rfl⟩
      · exact hn.1 hx
      · exact ha List.mem_cons_self

theorem skel_setTid (p : P) (t tid : Nat) (ht : t < p.threads.length) :
    skel (step p (.setTid t tid)).1 =
      ((skel p).1.modify t (fun x => (x.1, (tid, nextOf p.usedTids tid))), (skel p).2.1, p.usedPids,
       (tid, nextOf p.usedTids tid + 1) :: p.usedTids) := by
  simp only [step, P.threads_get ht, skel, makeUnique_eq]
  congr 1
  exact List.map_modify_comm (fun x : Thread => (x.process, x.tid)) _ _ (fun _ => rfl) _ _

theorem SInv.setTid (p : P) (h : SInv p) (t tid : Nat) (ht : t < p.threads.length) :
    SInv (step p (.setTid t tid)).1 := by
  unfold SInv
  rw [skel_setTid p t tid ht]
  obtain ⟨a1, a2, a3, a4, a5, a6, a7⟩ := h
  refine ⟨?_, ?_, a3, a4, a5, ?_, ?_⟩
  · intro pi l pd hl x hx
    obtain ⟨td, htd⟩ := a1 pi l pd hl x hx
    by_cases he : t = x
    · subst he
      exact ⟨_, by simp only [List.getElem?_modify_eq, htd]; rfl⟩
    · exact ⟨td, by simp only [List.getElem?_modify_ne _ _ he]; exact htd⟩
  · intro x pi td hx
    by_cases he : t = x
    · subst he
      simp only [List.getElem?_modify_eq] at hx
      cases hxx : (skel p).1[t]? with
      | none => rw [hxx] at hx; cases hx
      | some v =>
        rw [hxx] at hx
        have hx' := Option.some.inj hx
        simp only [Prod.mk.injEq] at hx'
        exact a2 t pi v.2 (by rw [hxx, ← hx'.1])
    · simp only [List.getElem?_modify_ne _ _ he] at hx
      exact a2 x pi td hx
  · simp only
    rw [List.map_modify_comm (fun x : Nat × IdStr => x.2) _ (fun _ => (tid, nextOf p.usedTids tid)) (fun _ => rfl)]
    exact List.nodup_modify_fresh _ _ _ a6 (fresh_not_mem _ (fun x : Nat × IdStr => x.2) p.usedTids tid a7)
  · intro x hx
    rcases List.mem_modify _ _ _ _ hx with hx | ⟨y, _, rfl⟩
    · exact bound_after _ (fun x : Nat × IdStr => x.2) p.usedTids tid a7 x hx
    · simp [nextOf_cons]

theorem step_SInv (p : P) (h : SInv p) (op : Op) (hv : handlesValid p op = true) : SInv (step p op).1 := by
  by_cases h1 : ∃ a b c, op = .addProcess a b c
  · obtain ⟨a, b, c, rfl⟩ := h1
    exact h.addProcess p a b c
  by_cases h2 : ∃ a b c d, op = .addThread a b c d
  · obtain ⟨a, b, c, d, rfl⟩ := h2
    simp only [handlesValid, decide_eq_true_eq] at hv
    exact h.addThread p a b c d hv
  by_cases h3 : ∃ a b, op = .setTid a b
  · obtain ⟨a, b, rfl⟩ := h3
    simp only [handlesValid, decide_eq_true_eq] at hv
    exact h.setTid p a b hv
  unfold SInv
  rw [step_skel p op (fun a b c e => h1 ⟨a, b, c, e⟩) (fun a b c d e => h2 ⟨a, b, c, d, e⟩)
    (fun a b e => h3 ⟨a, b, e⟩)]
  exact h

end PT
