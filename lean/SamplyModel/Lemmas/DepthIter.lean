import SamplyModel.Model.DepthIter
/-! The three-state iterator computes the closed form `depthLimit`. -/
namespace Conv

theorem collect_noMore (fuel idx : Nat) (L : List Frame) (h : L.length < fuel) :
    collect fuel (.noMore idx) L = L := by
  induction L generalizing fuel idx with
  | nil => cases fuel <;> simp [collect, limNext]
  | cons f rest ih =>
    cases fuel with
    | zero => simp at h
    | succ k =>
      simp only [collect, limNext]
      rw [ih]
      simp only [List.length_cons] at h
      omega

/-- from `BeforeElidedPiece` with `k = firstElided − index ≥ 1` frames still to pass through -/
theorem collect_before (fuel idx fe fa c : Nat) (L : List Frame) (hidx : idx < fe) (hfa : fe ≤ fa)
    (hf : L.length + 1 < fuel) :
    collect fuel (.before idx fe fa c) L =
      if L.length < fe - idx then L
      else if L.length < fa - idx then L.take (fe - idx - 1)
      else L.take (fe - idx) ++ [Frame.elided c] ++ L.drop (fa - idx) := by
  induction L generalizing fuel idx with
  | nil =>
    cases fuel with
    | zero => simp at hf
    | succ k =>
      have : (0 : Nat) < fe - idx := by omega
      simp [collect, limNext, this]
  | cons f rest ih =>
    cases fuel with
    | zero => simp at hf
    | succ k =>
      simp only [List.length_cons] at hf
      unfold collect
      by_cases hlast : idx + 1 = fe
      · -- the frame just taken is the last kept root frame
        subst hlast
        have hk1 : idx + 1 - idx = 1 := by omega
        by_cases hdry : rest.length < fa - (idx + 1)
        · have h2 : rest.length + 1 < fa - idx := by omega
          have hstep : limNext (LimState.before idx (idx + 1) fa c) (f :: rest)
              = (none, LimState.before (idx + 1 + rest.length) (idx + 1) fa c, []) := by
            simp [limNext, hdry]
          rw [hstep]
          simp [hk1, h2]
        · have h2 : ¬ (rest.length + 1 < fa - idx) := by omega
          cases k with
          | zero => omega
          | succ k2 =>
            have hd : fa - idx = (fa - (idx + 1)) + 1 := by omega
            have hcol : collect k2 (LimState.noMore fa) (List.drop (fa - (idx + 1)) rest)
                = List.drop (fa - (idx + 1)) rest :=
              collect_noMore _ _ _ (by simp only [List.length_drop]; omega)
            have hstep : limNext (LimState.before idx (idx + 1) fa c) (f :: rest)
                = (some f, LimState.atElided c fa, List.drop (fa - (idx + 1)) rest) := by
              simp [limNext, hdry]
            rw [hstep]
            simp only [collect, limNext, hcol, List.length_cons, hk1, h2, if_false]
            rw [hd]
            simp
      · have hstep : limNext (LimState.before idx fe fa c) (f :: rest)
            = (some f, LimState.before (idx + 1) fe fa c, rest) := by
          simp [limNext, hlast]
        rw [hstep]
        simp only
        rw [ih k (idx + 1) (by omega) (by omega)]
        by_cases c1 : rest.length < fe - (idx + 1)
        · have y1 : rest.length + 1 < fe - idx := by omega
          simp [c1, y1]
        · have n1 : ¬ (rest.length + 1 < fe - idx) := by omega
          by_cases c2 : rest.length < fa - (idx + 1)
          · have y2 : rest.length + 1 < fa - idx := by omega
            have t : fe - idx - 1 = (fe - (idx + 1) - 1) + 1 := by omega
            simp only [c1, c2, if_false, if_true, n1, y2, List.length_cons]
            rw [t, List.take_succ_cons]
          · have n2 : ¬ (rest.length + 1 < fa - idx) := by omega
            have t1 : fe - idx = (fe - (idx + 1)) + 1 := by omega
            have t2 : fa - idx = (fa - (idx + 1)) + 1 := by omega
            simp only [c1, c2, if_false, n1, n2, List.length_cons]
            rw [t1, t2, List.take_succ_cons, List.drop_succ_cons]
            simp

theorem limRun_eq_depthLimit (N : Nat) (hN : 0 < N) (L : List Frame) (n : Nat) :
    limRun N L n = depthLimit N L n := by
  unfold limRun limInit depthLimit
  cases hs : shouldElide N n with
  | none => simp only; exact collect_noMore _ _ _ (by omega)
  | some p =>
    obtain ⟨fe, c⟩ := p
    have hfe : fe = N := by
      unfold shouldElide at hs
      split at hs
      · simp only [Option.some.injEq, Prod.mk.injEq] at hs; exact hs.1.symm
      · cases hs
    subst hfe
    simp only
    rw [collect_before _ 0 fe (fe + c) c L hN (by omega) (by omega)]
    have h0 : ¬ (fe = 0) := by omega
    simp only [Nat.sub_zero, h0, if_false]

/-! ## `ConvertedStackIterD`: the look-ahead iterator computes `extra ++ emitJs` -/

theorem csCollect_none (fuel : Nat) (st : Option JsName) (infos : List Info) (hf : 2 * infos.length < fuel) :
    csCollect fuel { pending := none, jsName := st } infos = emitJs st infos := by
  induction infos generalizing fuel st with
  | nil =>
    cases fuel with
    | zero => omega
    | succ k => simp [csCollect, csNext, emitJs]
  | cons i rest ih =>
    cases fuel with
    | zero => omega
    | succ k =>
      simp only [List.length_cons] at hf
      unfold csCollect emitJs
      simp only [csNext]
      cases hx : (jsStep st i.js).1 with
      | none =>
        simp only [framesOf, List.singleton_append, List.cons.injEq, true_and]
        exact ih k _ (by omega)
      | some n =>
        cases n with
        | selfHosted x =>
          simp only [framesOf, List.singleton_append, List.cons.injEq, true_and]
          exact ih k _ (by omega)
        | nonSelfHosted x =>
          cases k with
          | zero => omega
          | succ k2 =>
            simp only [framesOf, csCollect, csNext, List.cons_append, List.nil_append, List.cons.injEq, true_and]
            exact ih k2 _ (by omega)

theorem csRun_eq (extra : Option Frame) (infos : List Info) :
    csRun extra infos = extra.toList ++ emitJs none infos := by
  unfold csRun
  cases extra with
  | none => simpa using csCollect_none _ none infos (by omega)
  | some f =>
    show csCollect (2 * infos.length + 1 + 1) _ _ = _
    simp only [csCollect, csNext, Option.toList_some, List.singleton_append, List.cons.injEq, true_and]
    exact csCollect_none (2 * infos.length + 1) none infos (by omega)

end Conv
