import SamplyModel.Lemmas.DownloadWrite
import SamplyModel.Lemmas.FileCreation
/-!
Composition of the download callback (`DL`, Model/DownloadWrite.lean) with the file-creation protocol
(`FC`, Model/FileCreation.lean): whatever the stream and the disk do, the callback is a *writer of `FC`* —
it appends a prefix of the downloaded bytes to the temp file and returns `Ok` only if that prefix is
everything. Chunks of `FC` are taken to be single bytes here (`enc`), which only adds interleavings.
-/
namespace DL

/-- once a write has failed and is waiting to be observed, the callback writes nothing more -/
theorem callback_failed_file {env : Env} (wf : Bool) :
    ∀ (stream : List (Option (List UInt8))) (st : St), st.inflight = some false →
      (callback env wf st stream).2.file = st.file := by
  intro stream st h
  cases stream with
  | nil => simp only [callback]; split <;> rfl
  | cons x rest =>
    cases x with
    | none => rfl
    | some piece => simp [callback, h]

/-- the temp file always holds what it held before plus a prefix of the bytes the stream delivers -/
theorem callback_file_prefix {env : Env} (wf : Bool) :
    ∀ (stream : List (Option (List UInt8))) (st : St),
      ∃ k, (callback env wf st stream).2.file = st.file ++ (payload stream).take k := by
  intro stream
  induction stream with
  | nil => intro st; refine ⟨0, ?_⟩; simp only [callback]; split <;> simp
  | cons x rest ih =>
    intro st
    cases x with
    | none => exact ⟨0, by simp [callback]⟩
    | some piece =>
      simp only [callback]
      split
      · exact ⟨0, by simp⟩
      · cases hd : env.disk st.started with
        | true =>
          obtain ⟨k, hk⟩ := ih { startWrite env st piece with size := st.size + piece.length }
          refine ⟨piece.length + k, ?_⟩
          rw [hk]
          simp [startWrite, hd, payload, List.take_append]
          exact (List.take_of_length_le (Nat.le_add_right _ _)).symm
        | false =>
          refine ⟨min (env.short st.started) piece.length, ?_⟩
          rw [callback_failed_file wf rest _ (by simp [startWrite, hd])]
          simp only [startWrite, hd, payload]
          have : List.take (min (env.short st.started) piece.length) (piece ++ payload rest) =
              piece.take (env.short st.started) := by
            rw [List.take_append_of_le_length (Nat.min_le_right _ _), List.take_eq_take_iff]
            simp
          simp [this]

end DL

namespace FC

/-- bytes as chunks -/
def enc (l : List UInt8) : Content := l.map (·.toNat)

/-- `n` further chunk writes of the creator inside its callback -/
theorem run_writes {pl : Pid → Content} {p : Pid} {i j : Inode} :
    ∀ (n k : Nat) (s : State), s.pc p = .writing i j k → k + n ≤ (pl p).length →
      ∃ s', run pl s (List.replicate n (Act.step p)) = some s' ∧ s'.pc p = .writing i j (k + n) ∧
        s'.content j = s.content j ++ ((pl p).drop k).take n ∧
        s'.part = s.part ∧ s'.dest = s.dest ∧ s'.winners = s.winners ∧ (∀ q, q ≠ p → s'.pc q = s.pc q) := by
  intro n
  induction n with
  | zero => intro k s h _; exact ⟨s, rfl, by simpa using h, by simp, rfl, rfl, rfl, fun _ _ => rfl⟩
  | succ n ih =>
    intro k s h hk
    have hlt : k < (pl p).length := by omega
    have hc : (pl p)[k]? = some ((pl p)[k]) := by simp [hlt]
    let s1 : State := { s with pc := upd s.pc p (.writing i j (k + 1)),
                               content := upd s.content j (s.content j ++ [(pl p)[k]]),
                               trace := (p, .write) :: s.trace }
    have h1 : next pl s (.step p) = some s1 := by simp [next, stepP, h, hc, s1]
    obtain ⟨s', hr, hp, hcont, hpart, hdest, hwin, hoth⟩ := ih (k + 1) s1 (by simp [s1, upd]) (by omega)
    refine ⟨s', ?_, ?_, ?_, ?_, ?_, ?_, ?_⟩
    · simp [List.replicate_succ, run, h1, hr]
    · rw [hp]; congr 1; omega
    · rw [hcont]
      simp only [s1, upd, if_true, List.append_assoc]
      congr 1
      rw [List.drop_eq_getElem_cons hlt, List.take_succ_cons]
      rfl
    · simpa [s1] using hpart
    · simpa [s1] using hdest
    · simpa [s1] using hwin
    · intro q hq
      rw [hoth q hq]
      simp [s1, upd, hq]

end FC
