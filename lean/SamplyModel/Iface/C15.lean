import SamplyModel.Proto
import SamplyModel.Model.Quota
import SamplyModel.Model.QuotaConc
/-!
Line protocol for C15.

Paths are written `/a/b/c` relative to the case's base directory `B` (`/` = `B` itself); the managed
root is usually `/root`, sentinels live under `/out`, the database is `B/../inv.db`-like and never
listed. Times are tokens relative to the case's constant clock value "now": `n-<a>` / `n+<a>` (seconds
before / after now) or `e+<x>` / `e-<x>` (seconds after / before the Unix epoch). The model evaluates
them with `now = 4·10⁹`, the harness with the wall clock's current second (it re-runs a case when the
second ticks during the case); both agree as long as offsets stay below 10⁹ and epoch-relative values
below 10⁸, which the generator guarantees.

ops:
  open <root> [<path>:<size>:<atime>]*      QuotaManager::new (the listed files exist on disk; they only
                                            matter for pre-populating a fresh database)
  close | restart
  created <path> <size> <time> | accessed <path> <time> | deleted <path>
  maxsize <n|none> | maxage <n|none|now+<d>|now-<d>|max>
  evict            (hook `verif_evict_now`)
  evictasync       (trigger_eviction_if_needed, wait, finish())
  mkfile <path> | mkdir <path> | symlink <path> <target> | rm <path>      external file-system activity
  bulk <dir> <count> <size> <time0> <step> <mult> <mk>
                   a macro for `count` notifications with ONE observation at the end (large tables): for
                   i < count the file `<dir>/k<i>` is reported `created` with `size` at the time
                   `time0 - ((i·mult) mod count)·step`; before that it is really written (`mkfile`) when
                   `mk ≠ 0` and `mk ∣ i`. Stops at the first notification that does not return normally.
  passbegin | passstep | passend
                   the lock gap (Model/QuotaConc.lean): `passbegin` triggers a pass and lets it run up to its first
                   `remove_file` (selection done, inventory mutex released); every `passstep` lets exactly one file be
                   unlinked and its bookkeeping be done (and whatever follows up to the next `remove_file`: the age
                   selection, the end of the pass); `passend` lets the pass run to its end and calls `finish()`.
                   Between them notifications, settings and external file-system ops run "concurrently" with the
                   pass; open/close/restart/evict*/bulk are refused (`bad`).
  evictrace        `trigger_eviction_if_needed` immediately followed by `finish()` (no waiting): tokio's
                   `select!` runs the pass or not; the harness repeats the case until the pass ran, so the
                   expected observation is that of `evictasync` — a pass cut short by `finish()` is not.

out: one line per op: `<ok|panic|nomgr|bad> | <inventory> | <fs>`
  inventory = `nodb` | `-` | rows `rel:size:ctime:atime` in `ORDER BY LastAccessTime, rowid` order
              (`.` = empty rel)
  fs        = sorted node list, `/p` file, `/p/` directory, `/p@` symlink
-/
namespace C15
open Quota Proto

def vnow : Nat := 4000000000

def parsePath (s : String) : Path := (s.splitOn "/").filter (· ≠ "")

def showPath (p : Path) : String := "/" ++ "/".intercalate p

def showRel (p : Path) : String := if p.isEmpty then "." else "/".intercalate p

def parseTime (s : String) : Option Int :=
  if s.startsWith "n-" then (s.drop 2).toString.toNat?.map fun a => (vnow : Int) - a
  else if s.startsWith "n+" then (s.drop 2).toString.toNat?.map fun a => (vnow : Int) + a
  else if s.startsWith "e+" then (s.drop 2).toString.toNat?.map fun a => (a : Int)
  else if s.startsWith "e-" then (s.drop 2).toString.toNat?.map fun a => -(a : Int)
  else none

def showTime (t : Nat) : String :=
  if t + 1500000000 < vnow then s!"e+{t}"
  else if t ≤ vnow then s!"n-{vnow - t}"
  else if t ≤ vnow + 1500000000 then s!"n+{t - vnow}"
  else s!"e+{t}"

def parseOptNat' (s : String) : Option (Option Nat) :=
  if s = "none" then some none else s.toNat?.map some

def parseMaxAge (s : String) : Option (Option Nat) :=
  if s = "none" then some none
  else if s = "max" then some (some (2 ^ 64 - 1))
  else if s.startsWith "now+" then (s.drop 4).toString.toNat?.map fun d => some (vnow + d)
  else if s.startsWith "now-" then (s.drop 4).toString.toNat?.map fun d => some (vnow - d)
  else s.toNat?.map some

def parsePre (s : String) : Option (Path × Nat × Nat) :=
  match s.splitOn ":" with
  | [p, sz, at_] => do
    let sz ← sz.toNat?
    let t ← parseTime at_
    if t < 0 then none else pure (parsePath p, sz, t.toNat)
  | _ => none

def parseOp (l : String) : Option Op :=
  match words l with
  | "open" :: root :: pre => (pre.mapM parsePre).map fun pre => Op.open_ (parsePath root) pre
  | ["close"] => some .close
  | ["restart"] => some .restart
  | ["created", p, sz, t] => do
    let sz ← sz.toNat?
    let t ← parseTime t
    pure (.created (parsePath p) sz t)
  | ["accessed", p, t] => (parseTime t).map fun t => .accessed (parsePath p) t
  | ["deleted", p] => some (.deleted (parsePath p))
  | ["maxsize", v] => (parseOptNat' v).map .setMaxSize
  | ["maxage", v] => (parseMaxAge v).map .setMaxAge
  | ["evict"] => some .evict
  | ["evictasync"] => some .evictAsync
  | ["evictrace"] => some .evictAsync
  | ["mkfile", p] => some (.mkfile (parsePath p))
  | ["mkdir", p] => some (.mkdir (parsePath p))
  | ["symlink", p, t] => some (.symlink (parsePath p) (parsePath t))
  | ["rm", p] => some (.rm (parsePath p))
  | _ => none

/-- `bulk` line: a macro for many `mkfile` / `created` ops observed once -/
structure BulkSpec where
  dir : Path
  count : Nat
  size : Nat
  t0 : Int
  stepT : Nat
  mult : Nat
  every : Nat

def BulkSpec.path (b : BulkSpec) (i : Nat) : Path := b.dir ++ [s!"k{i}"]

def BulkSpec.time (b : BulkSpec) (i : Nat) : Int := b.t0 - ((((i * b.mult) % b.count) * b.stepT : Nat) : Int)

def BulkSpec.real (b : BulkSpec) (i : Nat) : Bool := b.every != 0 && i % b.every == 0

def BulkSpec.ops (b : BulkSpec) : List Op :=
  (List.range b.count).flatMap fun i =>
    (if b.real i then [Op.mkfile (b.path i)] else []) ++ [Op.created (b.path i) b.size (b.time i)]

def parseBulk (l : String) : Option BulkSpec :=
  match words l with
  | ["bulk", dir, count, size, t0, stepT, mult, mk] => do
    let count ← count.toNat?
    let size ← size.toNat?
    let t0 ← parseTime t0
    let stepT ← stepT.toNat?
    let mult ← mult.toNat?
    let mk ← mk.toNat?
    pure ⟨parsePath dir, count, size, t0, stepT, mult, mk⟩
  | _ => none

/-- run ops until one does not return `ok` -/
def runOps (w : World) : List Op → World × Status
  | [] => (w, .ok)
  | o :: os =>
    let r := step vnow w o
    if r.2 = .ok then runOps r.1 os else r

def showRow (r : Row) : String :=
  s!"{showRel r.rel}:{r.size}:{showTime r.ctime}:{showTime r.atime}"

def showInv : Option (List Row) → String
  | none => "nodb"
  | some [] => "-"
  | some rows => " ".intercalate ((sortLRU rows).map showRow)

def showNode (e : Path × Node) : String :=
  match e.2 with
  | .file => showPath e.1
  | .dir => showPath e.1 ++ "/"
  | .link _ => showPath e.1 ++ "@"

def showFs (fs : FS) : String :=
  let names := (fs.map showNode).mergeSort fun a b => decide (a ≤ b)
  if names.isEmpty then "-" else " ".intercalate names

def showStatus : Status → String
  | .ok => "ok" | .panic => "panic" | .nomgr => "nomgr" | .bad => "bad"

def showLine (st : Status) (w : World) : String :=
  s!"{showStatus st} | {showInv w.db} | {showFs w.fs}"

/-- may this op run while a stepped pass is parked? -/
def allowedInPass : Op → Bool
  | .created .. | .accessed .. | .deleted .. | .mkfile _ | .mkdir _ | .symlink .. | .rm _
  | .setMaxSize _ | .setMaxAge _ => true
  | _ => false

def showLineC (st : Status) (cw : CWorld) : String := showLine st cw.w

def model (ls : List String) : List String :=
  let rec go (cw : CWorld) (inPass : Bool) (ls : List String) (acc : List String) : List String :=
    match ls with
    | [] => acc.reverse
    | l :: rest =>
      match words l with
      | ["passbegin"] =>
        if inPass then go cw inPass rest (showLineC .bad cw :: acc)
        else if cw.w.mgr.isNone then go cw inPass rest (showLineC .nomgr cw :: acc)
        else
          let cw' := settle vnow (passBegin cw)
          go cw' true rest (showLineC .ok cw' :: acc)
      | ["passstep"] =>
        if !inPass then go cw inPass rest (showLineC .bad cw :: acc)
        else
          let cw' := settle vnow (pstep vnow (pstep vnow cw))
          go cw' true rest (showLineC .ok cw' :: acc)
      | ["passend"] =>
        if !inPass then go cw inPass rest (showLineC .bad cw :: acc)
        else
          let cw1 := finishPass vnow 1000000 cw
          let poisoned := match cw1.w.mgr with | some m => m.poisoned | none => false
          let cw' := { cw1 with w := (step vnow cw1.w .close).1 }
          go cw' false rest (showLineC (if poisoned then .panic else .ok) cw' :: acc)
      | _ =>
      match parseBulk l with
      | some b =>
        if inPass then go cw inPass rest (showLineC .bad cw :: acc)
        else
          let r := runOps cw.w b.ops
          let cw' := { cw with w := r.1 }
          go cw' inPass rest (showLineC r.2 cw' :: acc)
      | none =>
      match parseOp l with
      | none => go cw inPass rest ("bad-op" :: acc)
      | some op =>
        if inPass && !allowedInPass op then go cw inPass rest (showLineC .bad cw :: acc)
        else
          let r := step vnow cw.w op
          let cw' := { cw with w := r.1 }
          go cw' inPass rest (showLineC r.2 cw' :: acc)
  go (CWorld.ofWorld World.init) false ls []

/-! ### The judge: the statement of C15 evaluated on the implementation's own observations

Reference notions used (specification side, not the eviction mechanism): the POSIX semantics of
`Quota.canonicalize` / `Quota.unlink` to say which file a recorded row denotes (`root/rel`), whether it
exists, whether it can be unlinked, and whether it lies under the managed root; sums and comparisons
of the observed rows. Failure reasons start with a tag `[…]` (used by KNOWN_FINDINGS matching). -/

structure Obs where
  status : String
  inv : Option (List Row)
  fs : FS

def parseRow (s : String) : Option Row :=
  match s.splitOn ":" with
  | [rel, sz, ct, at_] => do
    let sz ← sz.toInt?
    let ct ← parseTime ct
    let at_ ← parseTime at_
    pure ⟨if rel = "." then [] else parsePath rel, sz, ct.toNat, at_.toNat⟩
  | _ => none

def parseNode (links : List (Path × Path)) (s : String) : Path × Node :=
  if s.endsWith "/" then (parsePath s, .dir)
  else if s.endsWith "@" then
    let p := parsePath (s.dropEnd 1).toString
    (p, .link ((links.lookup p).getD ["?unknown-target"]))
  else (parsePath s, .file)

def parseObs (links : List (Path × Path)) (l : String) : Option Obs :=
  match l.splitOn " | " with
  | [st, inv, fs] =>
    let invv : Option (Option (List Row)) :=
      if inv = "nodb" then some none
      else if inv = "-" then some (some [])
      else ((words inv).mapM parseRow).map some
    let fsv : FS := if fs = "-" then [] else (words fs).map (parseNode links)
    invv.map fun i => ⟨st, i, fsv⟩
  | _ => none

structure JSt where
  inv : Option (List Row) := none
  fs : FS := []
  root : Option Path := none
  /-- the root as it was spelled in `open` (a restart resolves it again) -/
  rootSpelling : Path := []
  maxSize : Option Nat := none
  maxAge : Option Nat := none
  poisonOk : Bool := false
  lastEvictOk : Bool := false
  links : List (Path × Path) := []
  /-- a stepped pass is running: table and listing at `passbegin`, keys notified / touched since -/
  pass : Option (List Row × FS × List Path × List Path) := none
  /-- the maximum age when the stepped pass began (the pass works with that snapshot) -/
  passAge : Option Nat := none

/-- where a name physically lives: the resolved path; for a name that does not resolve, its resolved
directory plus the name; the literal path when not even the directory resolves -/
def physPath (fs : FS) (p : Path) : Path :=
  match canonicalize fs p with
  | .ok q => q
  | .error _ =>
    match p.getLast? with
    | none => p
    | some last =>
      if last = ".." then p
      else match canonicalize fs p.dropLast with
        | .ok par => par ++ [last]
        | .error _ => p

/-- the path a row denotes (`root/rel`), as the operating system resolves it -/
def rowPath (fs : FS) (root : Path) (r : Row) : Path := physPath fs (root ++ r.rel)

def rowEscapes (fs : FS) (root : Path) (r : Row) : Bool := !isPrefix root (rowPath fs root r)

/-- can the row's file be unlinked (or is it already absent)? `err` = directory, ENOTDIR, … -/
def rowUnlink (fs : FS) (root : Path) (r : Row) : DelRes × FS := unlink fs (rowPath fs root r)

/-- the node `unlink(2)` of `p` removes when it succeeds: the resolved directory plus the last name -/
def unlinkTarget (fs : FS) (p : Path) : Option Path :=
  match p.getLast? with
  | none => none
  | some last =>
    match canonicalize fs p.dropLast with
    | .ok par => some (par ++ [last])
    | .error _ => none

def rowStuck (fs : FS) (root : Path) (r : Row) : Bool :=
  rowEscapes fs root r || (rowUnlink fs root r).1 == .err

/-- does a node (file, directory or link, not followed) exist under this name? -/
def nodeExists (fs : FS) (p : Path) : Bool :=
  match p.getLast? with
  | none => true
  | some last =>
    match canonicalize fs p.dropLast with
    | .ok par => if last = ".." then isDir fs par else (fs.lookup (par ++ [last])).isSome
    | .error _ => false

def rowPresent (fs : FS) (root : Path) (r : Row) : Bool := nodeExists fs (rowPath fs root r)

def sumI (l : List Row) : Int := l.foldl (fun a r => a + r.size) 0

def sizesValid (l : List Row) : Bool := l.all (fun r => decide (0 ≤ r.size)) && decide (sumI l < 2 ^ 63)

def fsKeys (fs : FS) : List Path := fs.map (·.1)

def isSublist : List Row → List Row → Bool
  | [], _ => true
  | _ :: _, [] => false
  | a :: as, b :: bs => if a = b then isSublist as bs else isSublist (a :: as) bs

def sameSet (a b : List Path) : Bool := a.all (b.contains ·) && b.all (a.contains ·)

/-- the judgement of one eviction pass that did not panic -/
def judgeEvict (st : JSt) (root : Path) (I I' : List Row) (F F' : FS) : Except String Unit := do
  -- inventory only shrinks, rows are never altered
  if !isSublist I' I then throw "[inventory-altered] a pass changed or added rows"
  let R := I.filter (fun r => !I'.contains r)
  -- file system only shrinks
  if !(fsKeys F').all (fun k => F.lookup k == F'.lookup k) then
    throw "[disk-altered] a pass created or changed a node"
  let D := (fsKeys F).filter (fun k => (F'.lookup k).isNone)
  -- confinement: nothing outside the managed root disappears
  match D.find? (fun k => !isPrefix root k) with
  | some k =>
    -- the one escape the code is known to allow: a symbolic link that does not resolve
    let dangling := match F.lookup k, canonicalize F k with
      | some (.link _), .error _ => true
      | _, _ => false
    let tag := if dangling then "[outside-root-deleted:dangling-link]" else "[outside-root-deleted]"
    throw s!"{tag} {showPath k} lies outside the managed root {showPath root} and was deleted"
  | none => pure ()
  -- bookkeeping: a row is not kept while the pass deletes its file
  match I'.find? (fun r => rowPresent F root r && !rowPresent F' root r) with
  | some r => throw s!"[kept-row-file-deleted] the file of row {showRel r.rel} was deleted by the pass but the row was kept"
  | none => pure ()
  -- bookkeeping: exactly the files of the forgotten rows are gone, and they are gone
  let expectD := R.filterMap (fun r => if (rowUnlink F root r).1 == .ok then unlinkTarget F (rowPath F root r) else none)
  if !sameSet D expectD then
    throw s!"[disk-inventory-mismatch] deleted files {D.map showPath} ≠ files of the forgotten rows {expectD.map showPath}"
  match R.find? (fun r => rowPresent F' root r) with
  | some r => throw s!"[forgotten-row-still-on-disk] {showRel r.rel}"
  | none => pure ()
  if !sizesValid I then pure () else
  let total := (sumI I).toNat
  let cutoff : Option Nat := st.maxAge.map (vnow - ·)
  let aged (r : Row) : Bool := match cutoff with | some c => decide (r.atime < c) | none => false
  -- age
  -- a kept row whose file is already missing (and whose name could be unlinked without error)
  let absentRow (r : Row) : Bool := !rowPresent F root r && !rowStuck F root r
  match I'.find? (fun r => aged r && !rowStuck F root r) with
  | some r =>
    if absentRow r then
      throw s!"[absent-row-kept] {showRel r.rel} is older than the maximum age, its file is already missing, and the row was not forgotten"
    throw s!"[age] {showRel r.rel} is older than the maximum age and was kept"
  | none => pure ()
  let R' := R.filter (fun r => !aged r)
  let keptDeletable := I'.filter (fun r => !rowStuck F root r)
  -- least recently used first (ties in any order)
  match R'.find? (fun r => keptDeletable.any (fun k => decide (k.atime < r.atime))) with
  | some r =>
    if (keptDeletable.filter (fun k => decide (k.atime < r.atime))).all absentRow then
      throw s!"[absent-row-kept] {showRel r.rel} was removed although a less recently used row, whose file is already missing, was not forgotten"
    throw s!"[lru-order] {showRel r.rel} was removed although a less recently used file was kept"
  | none => pure ()
  match st.maxSize with
  | none =>
    if !R'.isEmpty then throw "[over-eviction] rows removed although no size limit is set and they are not too old"
  | some m =>
    if total ≤ m then
      if !R'.isEmpty then throw s!"[over-eviction] total {total} ≤ max {m} but rows were removed that are not too old"
    else
      let excess := total - m
      let sumR := (sumI R).toNat
      -- minimal: some tie order makes the removed set a shortest covering prefix
      if !R'.isEmpty then
        let top := R.foldl (fun a r => max a r.atime) 0
        if !(R.any (fun r => r.atime == top && decide (sumR - r.size.toNat < excess))) then
          throw s!"[over-eviction] removed {sumR} bytes for an excess of {excess}: dropping the newest removed file would still cover it"
      -- fits: the excess is covered by the removed rows plus undeletable rows that are at least as old
      let minKept := keptDeletable.foldl (fun a r => min a r.atime) (2 ^ 64)
      let stuckOld := (I'.filter (fun r => rowStuck F root r && decide (r.atime ≤ minKept)))
      if sumR + (sumI stuckOld).toNat < excess then
        if keptDeletable.any (fun k => absentRow k && decide (k.atime ≤ minKept)) then
          throw s!"[absent-row-kept] total after the pass {(sumI I').toNat} > max {m}: a least recently used row whose file is already missing was not forgotten"
        throw s!"[fits] total after the pass {(sumI I').toNat} > max {m} although deletable files remain"
  -- idempotence
  if st.lastEvictOk && (!R.isEmpty || !D.isEmpty) then
    throw "[not-idempotent] a pass directly following another removed something"
  pure ()

/-- same rows regardless of the listing order -/
def sameRows (a b : List Row) : Bool := a.all (b.contains ·) && b.all (a.contains ·) && a.length == b.length

def isNotifier : Op → Bool
  | .created .. | .accessed .. | .deleted .. => true
  | _ => false

def judgeStep (st : JSt) (op : Op) (o : Obs) : Except String JSt := do
  if o.status ∉ ["ok", "panic", "nomgr", "bad"] then throw s!"[harness] status {o.status}"
  let st' : JSt := { st with inv := o.inv, fs := o.fs, lastEvictOk := false }
  if o.status = "nomgr" ∨ o.status = "bad" then
    if o.inv != st.inv ∨ fsKeys o.fs != fsKeys st.fs then throw "[harness] rejected op changed the state"
    return st'
  match op with
  | .mkfile _ | .mkdir _ | .symlink _ _ | .rm _ =>
    if o.inv != st.inv then throw "[inventory-changed-without-notification]"
    return st'
  | .setMaxSize v => 
    if o.inv != st.inv ∨ fsKeys o.fs != fsKeys st.fs then throw "[settings-changed-state]"
    return { st' with maxSize := v }
  | .setMaxAge v =>
    if o.inv != st.inv ∨ fsKeys o.fs != fsKeys st.fs then throw "[settings-changed-state]"
    return { st' with maxAge := v }
  | .close =>
    if o.status = "panic" then throw "[panic] finish() panicked"
    if o.inv != st.inv ∨ fsKeys o.fs != fsKeys st.fs then throw "[close-changed-state]"
    return { st' with root := none, poisonOk := false }
  | .open_ root _ =>
    if fsKeys o.fs != fsKeys st.fs then throw "[open-changed-disk]"
    if st.inv.isSome ∧ o.inv != st.inv then throw "[restart-changed-inventory] re-opening the database changed the inventory"
    return { st' with root := some (canonOrKeep o.fs root), rootSpelling := root, maxSize := none, maxAge := none,
                      poisonOk := false }
  | .restart =>
    if o.status = "panic" then throw "[panic] finish() panicked"
    if fsKeys o.fs != fsKeys st.fs then throw "[restart-changed-disk]"
    if o.inv != st.inv then throw "[restart-changed-inventory] restart changed the inventory"
    return { st' with root := some (canonOrKeep o.fs st.rootSpelling), maxSize := none, maxAge := none,
                      poisonOk := false }
  | .created p _ t | .accessed p t =>
    if fsKeys o.fs != fsKeys st.fs then throw "[notification-touched-disk]"
    if o.status = "panic" then
      if st.poisonOk then return st'
      if t < 0 then
        if o.inv != st.inv then throw "[rejected-call-changed-inventory]"
        return { st' with poisonOk := true }
      throw "[panic] a notification with valid arguments panicked"
    -- "calls for paths outside the managed directory are ignored"; a call for an existing file under
    -- the root records exactly what was reported (the LRU statement is about the reported history)
    match st.root, canonicalize st.fs p, st.inv, o.inv with
    | some root, .ok q, some I, some I' =>
      if !isPrefix root q then
        if o.inv != st.inv then throw "[outside-root-recorded] a path outside the root changed the inventory"
        return st'
      let rel := q.drop root.length
      let others (l : List Row) := l.filter (fun r => r.rel != rel)
      if !sameRows (others I) (others I') then throw "[record] a notification changed other rows"
      match op, I'.find? (fun r => r.rel == rel) with
      | .created _ size _, some r =>
        if r.size != toI64 size ∨ (r.ctime : Int) != t ∨ (r.atime : Int) != t then
          throw s!"[record] created {showRel rel}: recorded {showRow r}"
        return st'
      | .created .., none => throw s!"[record] created {showRel rel} was not recorded"
      | _, some r =>
        match I.find? (fun x => x.rel == rel) with
        | some r0 =>
          if (r.atime : Int) != t ∨ r.size != r0.size ∨ r.ctime != r0.ctime then
            throw s!"[record] accessed {showRel rel}: recorded {showRow r}"
          return st'
        | none => throw s!"[record] accessed {showRel rel} created a row"
      | _, none =>
        if (I.find? (fun x => x.rel == rel)).isSome then throw s!"[record] accessed {showRel rel} lost the row"
        return st'
    | _, _, _, _ => return st'
  | .deleted p =>
    if fsKeys o.fs != fsKeys st.fs then throw "[notification-touched-disk]"
    if o.status = "panic" then
      if st.poisonOk then return st'
      throw "[panic] on_file_deleted panicked"
    match st.root, canonicalize st.fs p, st.inv, o.inv with
    | some root, .ok q, some I, some I' =>
      if !isPrefix root q then
        if o.inv != st.inv then throw "[outside-root-recorded] a path outside the root changed the inventory"
        return st'
      let rel := q.drop root.length
      if !sameRows (I.filter (fun r => r.rel != rel)) I' then
        throw s!"[record] deleted {showRel rel}: the row is still recorded or other rows changed"
      return st'
    | _, _, _, _ => return st'
  | .evict | .evictAsync =>
    let closed := match op with | .evictAsync => true | _ => false
    let stN : JSt := if closed then { st' with root := none, poisonOk := false } else st'
    match st.root, st.inv, o.inv with
    | some root, some I, some I' =>
      if o.status = "panic" then
        if st.poisonOk then return stN
        -- nothing outside the root may disappear even when the pass dies
        match (fsKeys st.fs).find? (fun k => (o.fs.lookup k).isNone && !isPrefix root k) with
        | some k => throw s!"[outside-root-deleted] {showPath k} was deleted by a pass that then panicked"
        | none => pure ()
        let invalidAge := match st.maxAge with | some a => decide (vnow < a) | none => false
        if invalidAge then return { stN with poisonOk := !closed }
        if I.any (fun r => decide (r.size < 0)) then return { stN with poisonOk := !closed }
        match I.find? (fun r => rowEscapes st.fs root r) with
        | some r => throw s!"[evict-panic-escaped-row] the pass panicked: row {showRel r.rel} now resolves outside the managed root (assert in to_absolute_path); the inventory mutex is poisoned"
        | none => throw "[evict-panic] the eviction pass panicked"
      else
        match judgeEvict st root I I' st.fs o.fs with
        | .error e => throw e
        | .ok _ => return { stN with lastEvictOk := !closed }
    | _, _, _ => throw "[harness] eviction without manager or database"

/-- a `bulk` line (many `created` notifications, one observation): old nodes are untouched, new nodes
lie below the bulk directory, every other row is unchanged, and every reported file whose name is a
physical path under the root has exactly the reported row -/
def judgeBulk (st : JSt) (b : BulkSpec) (o : Obs) : Except String JSt := do
  if o.status ∉ ["ok", "panic", "nomgr"] then throw s!"[harness] status {o.status}"
  let st' : JSt := { st with inv := o.inv, fs := o.fs, lastEvictOk := false }
  if !(fsKeys st.fs).all (fun k => st.fs.lookup k == o.fs.lookup k) then
    throw "[bulk] an existing node changed"
  if !(fsKeys o.fs).all (fun k => (st.fs.lookup k).isSome || isPrefix b.dir k || isPrefix k b.dir) then
    throw "[bulk] a node appeared outside the bulk directory"
  if o.status = "nomgr" then
    if o.inv != st.inv then throw "[harness] rejected op changed the state"
    return st'
  if o.status = "panic" then
    if st.poisonOk then return st'
    if (List.range b.count).any (fun i => decide (b.time i < 0)) then return { st' with poisonOk := true }
    throw "[panic] a notification with valid arguments panicked"
  match st.root, st.inv, o.inv with
  | some root, some I, some I' =>
    let expected : List Row := (List.range b.count).filterMap fun i =>
      let p := b.path i
      if physPath o.fs p == p && isPrefix root p && !p.contains ".." then
        some ⟨p.drop root.length, toI64 b.size, (b.time i).toNat, (b.time i).toNat⟩
      else none
    let rels := expected.map (·.rel)
    if b.count != 0 && physPath o.fs b.dir == b.dir && isPrefix root b.dir && expected.length != b.count then
      throw "[harness] bulk: expected rows were not computed"
    match expected.find? (fun r => !I'.contains r) with
    | some r => throw s!"[record] bulk: {showRow r} was reported but is not recorded like that"
    | none => pure ()
    if !sameRows (I.filter (fun r => !rels.contains r.rel)) (I'.filter (fun r => !rels.contains r.rel)) then
      -- names that are not physical paths (symlinked directories) may be recorded under another key
      if expected.length == b.count then throw "[record] bulk: other rows changed"
    return st'
  | _, _, _ => return st'

/-- key (path relative to the root) a name denotes, for the racing clauses -/
def keyOf (fs : FS) (root p : Path) : Option Path :=
  let q := physPath fs p
  if isPrefix root q then some (q.drop root.length) else none

def opPath : Op → Option Path
  | .created p _ _ | .accessed p _ | .deleted p | .mkfile p | .mkdir p | .symlink p _ | .rm p => some p
  | _ => none

/-- **order-independent clauses** for one observation of a stepped pass (`passstep` / `passend`): only rows
disappear, only nodes disappear, none of them outside the root, every deleted node is the file of a row
that was in the table since the pass began; and the one order-*dependent* check that is a candidate
finding: a file reported `created` while the pass ran is deleted by the pass afterwards. -/
def judgePassDelta (st : JSt) (root : Path) (I0 I I' : List Row) (F F' : FS) (createdKeys : List Path) :
    Except String Unit := do
  if !isSublist I' I then throw "[inventory-altered] a pass changed or added rows"
  if !(fsKeys F').all (fun k => F.lookup k == F'.lookup k) then
    throw "[disk-altered] a pass created or changed a node"
  let D := (fsKeys F).filter (fun k => (F'.lookup k).isNone)
  match D.find? (fun k => !isPrefix root k) with
  | some k => throw s!"[outside-root-deleted] {showPath k} lies outside the managed root {showPath root} and was deleted"
  | none => pure ()
  let cands := (I0 ++ I).filterMap (fun r => unlinkTarget F (rowPath F root r))
  match D.find? (fun k => !cands.contains k) with
  | some k => throw s!"[race-unselected-file-deleted] {showPath k} was deleted but is not the file of any row recorded since the pass began"
  | none => pure ()
  let R := I.filter (fun r => !I'.contains r)
  -- a row reported while the pass ran can only have been selected *after* the report by the age selection
  -- (the size selection is over when `passbegin` returns): if it is not too old, it was selected before
  let cutoff : Option Nat := st.passAge.map (vnow - ·)
  let aged (r : Row) : Bool := match cutoff with | some c => decide (r.atime < c) | none => false
  match R.find? (fun r => createdKeys.contains r.rel && !aged r) with
  | some r => throw s!"[race-recreated-file-deleted] {showRel r.rel} was reported as created while the pass was running (after the selection); the pass then deleted the new file and forgot the new row although it is the most recently used one"
  | none => pure ()
  pure ()

/-- bookkeeping = disk after quiescence, for the rows of the table at `passbegin` whose key was neither
notified nor touched on disk while the pass ran -/
def judgeQuiescence (root : Path) (I0 Iend : List Row) (F0 Fend : FS) (touched : List Path) :
    Except String Unit := do
  let quiet := I0.filter (fun r => !touched.any (fun t => isPrefix t r.rel))
  match quiet.find? (fun r => !Iend.contains r && rowPresent Fend root r) with
  | some r => throw s!"[forgotten-row-still-on-disk] {showRel r.rel}"
  | none => pure ()
  match quiet.find? (fun r => Iend.contains r && rowPresent F0 root r && !rowPresent Fend root r) with
  | some r => throw s!"[kept-row-file-deleted] the file of row {showRel r.rel} was deleted by the pass but the row was kept"
  | none => pure ()

def judgePassOp (st : JSt) (w : String) (o : Obs) : Except String JSt := do
  if o.status ∉ ["ok", "panic", "nomgr", "bad"] then throw s!"[harness] status {o.status}"
  let st' : JSt := { st with inv := o.inv, fs := o.fs, lastEvictOk := false }
  if o.status = "nomgr" ∨ o.status = "bad" then
    if o.inv != st.inv ∨ fsKeys o.fs != fsKeys st.fs then throw "[harness] rejected op changed the state"
    return st'
  match st.root, st.inv, o.inv with
  | some root, some I, some I' =>
    if w = "passbegin" then
      if o.inv != st.inv ∨ fsKeys o.fs != fsKeys st.fs then throw "[pass] the selection changed the state"
      return { st' with pass := some (I, st.fs, [], []), passAge := st.maxAge }
    match st.pass with
    | none => throw "[harness] pass op without a running pass"
    | some (I0, F0, touched, createdKeys) =>
      match judgePassDelta st root I0 I I' st.fs o.fs createdKeys with
      | .error e => throw e
      | .ok _ => pure ()
      if w = "passstep" then
        if o.status = "panic" then throw "[panic] a pass step panicked"
        return st'
      -- passend
      if o.status = "panic" ∧ !st.poisonOk then throw "[panic] finish() panicked after a stepped pass"
      match judgeQuiescence root I0 I' F0 o.fs touched with
      | .error e => throw e
      | .ok _ => pure ()
      return { st' with pass := none, root := none, poisonOk := false }
  | _, _, _ => throw "[harness] pass op without manager or database"

def judge (ops impl : List String) : Bool × String :=
  if impl.length ≠ ops.length then (false, "[harness] wrong number of output lines") else
  let rec go (st : JSt) (ops impl : List String) (k : Nat) : Bool × String :=
    match ops, impl with
    | l :: ls, o :: os =>
      if l.trimAscii.toString ∈ ["passbegin", "passstep", "passend"] then
        match parseObs st.links o with
        | none => (false, s!"[harness] unparsable output line {k}: {o}")
        | some obs =>
          match judgePassOp st l.trimAscii.toString obs with
          | .error e => (false, s!"{e} (op {k}: {l})")
          | .ok st' => go st' ls os (k + 1)
      else
      match parseBulk l with
      | some b =>
        match parseObs st.links o with
        | none => (false, s!"[harness] unparsable output line {k}: {o}")
        | some obs =>
          match judgeBulk st b obs with
          | .error e => (false, s!"{e} (op {k}: {l})")
          | .ok st' => go st' ls os (k + 1)
      | none =>
      match parseOp l with
      | none => if o = "bad-op" then go st ls os (k + 1) else (false, "[harness] bad-op mismatch")
      | some op =>
        let links := match op with
          | .symlink p t => (p, t) :: st.links
          | _ => st.links
        match parseObs links o with
        | none => (false, s!"[harness] unparsable output line {k}: {o}")
        | some obs =>
          match judgeStep { st with links := links } op obs with
          | .error e => (false, s!"{e} (op {k}: {l})")
          | .ok st' =>
            let pass' := match st.pass, st.root, opPath op with
              | some (I0, F0, touched, cr), some root, some p =>
                match keyOf obs.fs root p with
                | some key =>
                  let cr' := match op with | .created .. => key :: cr | _ => cr
                  some (I0, F0, key :: touched, cr')
                | none => some (I0, F0, touched, cr)
              | ps, _, _ => ps
            go { st' with pass := pass' } ls os (k + 1)
    | _, _ => (true, "ok")
  go {} ops impl 0

end C15
