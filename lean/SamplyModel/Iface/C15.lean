import SamplyModel.Proto
import SamplyModel.Model.Quota
/-!
Line protocol for C15.

Paths are written `/a/b/c` relative to the case's base directory `B` (`/` = `B` itself); the managed
root is usually `/root`, sentinels live under `/out`, the database is `B/../inv.db`-like and never
listed. Times are tokens relative to the case's constant clock value "now": `n-<a>` / `n+<a>` (seconds
before / after now) or `e+<x>` / `e-<x>` (seconds after / before the Unix epoch). The model evaluates
them with `now = 4·10⁹`, the harness with the wall clock's current second (it re-runs a case when the
second ticks during the case); both agree as long as offsets stay below 10⁹ and epoch-relative values
below 10⁸, which the generator guarantees.

ops:
  open <root> [<path>:<size>:<atime>]*      QuotaManager::new (the listed files exist on disk; they only
                                            matter for pre-populating a fresh database)
  close | restart
  created <path> <size> <time> | accessed <path> <time> | deleted <path>
  maxsize <n|none> | maxage <n|none|now+<d>|now-<d>|max>
  evict            (hook `verif_evict_now`)
  evictasync       (trigger_eviction_if_needed, wait, finish())
  mkfile <path> | mkdir <path> | symlink <path> <target> | rm <path>      external file-system activity

out: one line per op: `<ok|panic|nomgr|bad> | <inventory> | <fs>`
  inventory = `nodb` | `-` | rows `rel:size:ctime:atime` in `ORDER BY LastAccessTime, rowid` order
              (`.` = empty rel)
  fs        = sorted node list, `/p` file, `/p/` directory, `/p@` symlink
-/
namespace C15
open Quota Proto

def vnow : Nat := 4000000000

def parsePath (s : String) : Path := (s.splitOn "/").filter (· ≠ "")

def showPath (p : Path) : String := "/" ++ "/".intercalate p

def showRel (p : Path) : String := if p.isEmpty then "." else "/".intercalate p

def parseTime (s : String) : Option Int :=
  if s.startsWith "n-" then (s.drop 2).toString.toNat?.map fun a => (vnow : Int) - a
  else if s.startsWith "n+" then (s.drop 2).toString.toNat?.map fun a => (vnow : Int) + a
  else if s.startsWith "e+" then (s.drop 2).toString.toNat?.map fun a => (a : Int)
  else if s.startsWith "e-" then (s.drop 2).toString.toNat?.map fun a => -(a : Int)
  else none

def showTime (t : Nat) : String :=
  if t + 1500000000 < vnow then s!"e+{t}"
  else if t ≤ vnow then s!"n-{vnow - t}"
  else if t ≤ vnow + 1500000000 then s!"n+{t - vnow}"
  else s!"e+{t}"

def parseOptNat' (s : String) : Option (Option Nat) :=
  if s = "none" then some none else s.toNat?.map some

def parseMaxAge (s : String) : Option (Option Nat) :=
  if s = "none" then some none
  else if s = "max" then some (some (2 ^ 64 - 1))
  else if s.startsWith "now+" then (s.drop 4).toString.toNat?.map fun d => some (vnow + d)
  else if s.startsWith "now-" then (s.drop 4).toString.toNat?.map fun d => some (vnow - d)
  else s.toNat?.map some

def parsePre (s : String) : Option (Path × Nat × Nat) :=
  match s.splitOn ":" with
  | [p, sz, at_] => do
    let sz ← sz.toNat?
    let t ← parseTime at_
    if t < 0 then none else pure (parsePath p, sz, t.toNat)
  | _ => none

def parseOp (l : String) : Option Op :=
  match words l with
  | "open" :: root :: pre => (pre.mapM parsePre).map fun pre => Op.open_ (parsePath root) pre
  | ["close"] => some .close
  | ["restart"] => some .restart
  | ["created", p, sz, t] => do
    let sz ← sz.toNat?
    let t ← parseTime t
    pure (.created (parsePath p) sz t)
  | ["accessed", p, t] => (parseTime t).map fun t => .accessed (parsePath p) t
  | ["deleted", p] => some (.deleted (parsePath p))
  | ["maxsize", v] => (parseOptNat' v).map .setMaxSize
  | ["maxage", v] => (parseMaxAge v).map .setMaxAge
  | ["evict"] => some .evict
  | ["evictasync"] => some .evictAsync
  | ["mkfile", p] => some (.mkfile (parsePath p))
  | ["mkdir", p] => some (.mkdir (parsePath p))
  | ["symlink", p, t] => some (.symlink (parsePath p) (parsePath t))
  | ["rm", p] => some (.rm (parsePath p))
  | _ => none

def showRow (r : Row) : String :=
  s!"{showRel r.rel}:{r.size}:{showTime r.ctime}:{showTime r.atime}"

def showInv : Option (List Row) → String
  | none => "nodb"
  | some [] => "-"
  | some rows => " ".intercalate ((sortLRU rows).map showRow)

def showNode (e : Path × Node) : String :=
  match e.2 with
  | .file => showPath e.1
  | .dir => showPath e.1 ++ "/"
  | .link _ => showPath e.1 ++ "@"

def showFs (fs : FS) : String :=
  let names := (fs.map showNode).mergeSort fun a b => decide (a ≤ b)
  if names.isEmpty then "-" else " ".intercalate names

def showStatus : Status → String
  | .ok => "ok" | .panic => "panic" | .nomgr => "nomgr" | .bad => "bad"

def showLine (st : Status) (w : World) : String :=
  s!"{showStatus st} | {showInv w.db} | {showFs w.fs}"

def model (ls : List String) : List String :=
  let rec go (w : World) (ls : List String) (acc : List String) : List String :=
    match ls with
    | [] => acc.reverse
    | l :: rest =>
      match parseOp l with
      | none => go w rest ("bad-op" :: acc)
      | some op =>
        let r := step vnow w op
        go r.1 rest (showLine r.2 r.1 :: acc)
  go World.init ls []

def judge (_ops _impl : List String) : Bool × String := (true, "ok")

end C15
