import SamplyModel.Proto
import SamplyModel.Model.ConvFlush
import SamplyModel.Model.SvmaBias
/-!
Line protocol shared by the perf.data-driven properties (C01, C17, C02, C14).

ops (all numbers decimal, names/paths hex-encoded ASCII):
  cfg <reuse 0|1> <fold 0|1> <ref> [elf:<pathhex>:<baseSvma>:<svma>,<fileOff>,<size>;…]* [percpu:<ncpu>]
      (an `elf:` word declares that the file at that path exists on disk, with the image base and the LOAD
       segments the converter will read from it (`Config.files`): MMAP2 records naming it are attributed
       segment-based, or ignored when no segment relates to the mapped file range;
       `percpu:<n>` = `--per-cpu-threads`, the sample at raw time t is on CPU t mod n)
  perfmap <pid> <addr> <len> <namehex>     one line `<addr hex> <len hex> <name>` of /tmp/perf-<pid>.map
  perfmapraw <pid> <linehex>               one line of /tmp/perf-<pid>.map, verbatim (malformed lines, `0x`, …)
      (file order = op order; a pid with at least one such op has a file)
  sample <pid> <tid> <t> <k|u> <period> <ip> <chain: comma separated | ->
  fork <pid> <tid> <ppid> <ptid> <t>
  exit <pid> <tid> <t>
  comm <pid> <tid> <exec 0|1> <t> <namehex>
  mmap2 <pid> <tid> <addr> <len> <pgoff> <exec 0|1> <t> <pathhex>
  switchin <pid> <tid> <t>                 PERF_RECORD_SWITCH / SWITCH_CPU_WIDE, switch-in
  layout <i,j,…;k,…;…>                     file layout (rounds of record indices) for the perf.data writer; ignored here:
                                           the record lines are in *delivery* order, which need not be time order
  switchout <pid> <tid> <t> [preempt]      … with PERF_RECORD_MISC_SWITCH_OUT [| SWITCH_OUT_PREEMPT]
  sched <pid> <tid> <t> <k|u> <ip> <chain> SAMPLE of the second event `sched:sched_switch`
  oev <pid> <tid> <t> <k|u> <ip> <chain>   SAMPLE of another event (`probe:deep_call`; its attr exists in the file
                                           exactly when the case has such an op): becomes a marker with a stack
  cfg word `cs:<letters|->:<n>`: c = attr.context_switch on the main event, s = a second event named
      sched:sched_switch exists, h = the main event is a hardware event (not time based), f = attr.freq (n is a
      frequency in Hz, else the sample period), w = switch records are SWITCH_CPU_WIDE (no effect on the model)

output: one `thread …` line per thread entry, sorted by (pid string, tid string), followed by its
sample lines sorted by (time, frames); which fields appear depends on the projection. Then one line
`m <t> <stack>` per "Other event" marker of the thread (sorted as strings; `nostack` when the marker has no
cause stack): only cases with `oev` ops have such lines.
-/
namespace ConvIface
open Conv Proto

def strOfHex (h : String) : String := String.ofList ((hexBytes h).map (fun b => Char.ofNat b.toNat))
def hexOfStr (s : String) : String := bytesHex (s.toList.map (fun c => UInt8.ofNat c.toNat))

def parseChain (s : String) : List Nat :=
  if s = "-" then [] else (s.splitOn ",").filterMap (·.toNat?)

def parseRec (l : String) : Option Rec :=
  match words l with
  | ["sample", pid, tid, t, mode, period, ip, chain] =>
    some (.sample (nat! pid) (nat! tid) (nat! t) (mode == "k") (nat! period) (nat! ip) (parseChain chain))
  | ["fork", pid, tid, ppid, ptid, t] => some (.fork (nat! pid) (nat! tid) (nat! ppid) (nat! ptid) (nat! t))
  | ["exit", pid, tid, t] => some (.exit (nat! pid) (nat! tid) (nat! t))
  | ["comm", pid, tid, ex, t, name] => some (.comm (nat! pid) (nat! tid) (strOfHex name) (ex == "1") (nat! t))
  | ["mmap2", pid, tid, addr, len, pgoff, ex, t, path] =>
    some (.mmap2 (nat! pid) (nat! tid) (nat! addr) (nat! len) (nat! pgoff) (ex == "1") (strOfHex path) (nat! t))
  | ["switchin", pid, tid, t] => some (.switchIn (nat! pid) (nat! tid) (nat! t))
  | ["switchout", pid, tid, t] => some (.switchOut (nat! pid) (nat! tid) (nat! t))
  | ["switchout", pid, tid, t, "preempt"] => some (.switchOut (nat! pid) (nat! tid) (nat! t))
  | ["sched", pid, tid, t, mode, ip, chain] =>
    some (.sched (nat! pid) (nat! tid) (nat! t) (mode == "k") (nat! ip) (parseChain chain))
  | ["oev", pid, tid, t, mode, ip, chain] =>
    some (.otherEvent (nat! pid) (nat! tid) (nat! t) (mode == "k") (nat! ip) (parseChain chain))
  | _ => none

/-- a perf-map op: (pid, text of the line) -/
def parsePmOp (l : String) : Option (Nat × List Char) :=
  match words l with
  | ["perfmap", pid, addr, len, name] =>
    some (nat! pid, Nat.toDigits 16 (nat! addr) ++ [' '] ++ Nat.toDigits 16 (nat! len) ++ [' '] ++ (strOfHex name).toList)
  | ["perfmapraw", pid, line] => some (nat! pid, (strOfHex line).toList)
  | _ => none

def isPmOp (l : String) : Bool :=
  match words l with
  | "perfmap" :: _ => true
  | "perfmapraw" :: _ => true
  -- `layout <rounds>`: how the harness lays the records out in the perf.data file (rounds of record indices).
  -- The op lines list the records in the order the reader's round sorter delivers them, which is all the
  -- converter sees; the line is for the perf.data writer only.
  | "layout" :: _ => true
  | _ => false

/-- group the lines by pid, keeping the order of the lines and of the first mention of each pid -/
def groupPm : List (Nat × List Char) → List (Nat × List (List Char))
  | [] => []
  | (pid, l) :: rest =>
    let g := groupPm rest
    match g.find? (fun e => e.1 == pid) with
    | some e => (pid, l :: e.2) :: g.filter (fun e => !(e.1 == pid))
    | none => (pid, [l]) :: g

def parsePercpu (w : String) : Option Nat :=
  match w.splitOn ":" with
  | ["percpu", n] => some (nat! n)
  | _ => none

/-- `cs:<letters>:<n>` → (letters, n) -/
def parseCs (w : String) : Option (String × Nat) :=
  match w.splitOn ":" with
  | ["cs", letters, n] => some (letters, nat! n)
  | _ => none

/-- `EventInterpretation::divine_from_attrs` (event_interpretation.rs:45-73) + converter.rs:155-159 on the
attr the writer produces: (offCpu, interval, offWeight); `none` = the interpretation panics (frequency 0:
division by zero at :50; period 0 without `freq`: `NoSampling`, :47) -/
def interpretCs (letters : String) (n : Nat) : Option (Option OffCpu × Nat × Nat) :=
  let has (c : Char) := letters.toList.contains c
  let off := if has 'c' then some OffCpu.contextSwitches
    else if has 's' then some OffCpu.schedSwitchAndSamples else none
  if has 'f' then (if n = 0 then none else some (off, 1000000000 / n, 1))
  else if n = 0 then none
  else if has 'h' then some (off, 1000000, 0)
  else some (off, n, 1)

def parseElf (w : String) : Option (String × SvmaBias.FileInfo) :=
  match w.splitOn ":" with
  | ["elf", path, base, segs] =>
    let cs := (segs.splitOn ";").filterMap (fun seg =>
      match seg.splitOn "," with
      | [a, b, c] => some (⟨nat! a, nat! b, nat! c⟩ : SvmaBias.Contribution)
      | _ => none)
    some (strOfHex path, ⟨nat! base, cs⟩)
  | _ => none

/-- the `cs:` word of the cfg line, if any -/
def csWord (ls : List String) : Option (String × Nat) :=
  match ls with
  | l :: _ => ((words l).filterMap parseCs).head?
  | [] => none

/-- the event interpretation panics before any record is read -/
def cfgPanics (ls : List String) : Bool :=
  match csWord ls with
  | some (letters, n) => (interpretCs letters n).isNone
  | none => false

def parse (ls : List String) : Option (Config × List Rec) :=
  match ls with
  | l :: rest =>
    match words l with
    | "cfg" :: reuse :: fold :: ref :: elfs =>
      let files := elfs.filterMap parseElf
      let ncpu := ((elfs.filterMap parsePercpu).head?).getD 0
      let cs : Option OffCpu × Nat × Nat := match (elfs.filterMap parseCs).head? with
        | some (letters, n) => (interpretCs letters n).getD (none, 1000000, 1)
        | none => (none, 1000000, 1)
      let pm := groupPm (rest.filterMap parsePmOp)
      match (rest.filter (fun l => !isPmOp l)).mapM parseRec with
      | some rs => some ({ reuse := reuse == "1", fold := fold == "1", ref := nat! ref, perfMaps := pm, ncpu,
                           offCpu := cs.1, interval := cs.2.1, offWeight := cs.2.2, files }, rs)
      | none => none
    | _ => none
  | [] => none

inductive Proj | c01 | c17 | c02 | c14 | full | cs
deriving DecidableEq

/-- call-chain addresses of generated `sched:sched_switch` samples lie in this range and nowhere else (harness:
`OFF_STACK_BASE..OFF_STACK_END`): an output sample whose frames are all raw addresses in the range (or that has
no frames) carries a stored off-CPU stack -/
def isOffStack (fs : List Frame) : Bool :=
  fs.all (fun f => match f with | .raw a => decide (0x0ff00000 ≤ a) && decide (a < 0x0ff10000) | _ => false)

def showFrame : Frame → String
  | .lib p r => "l:" ++ hexOfStr p ++ ":" ++ toString r
  | .raw a => "r:" ++ toString a
  | .elided c => "e:" ++ toString c
  | .label n => "j:" ++ hexOfStr n
  | .tlabel n => "x:" ++ hexOfStr n

def showFrames (fs : List Frame) : String :=
  if fs.isEmpty then "-" else " ".intercalate (fs.map showFrame)

/-- C14 projection of a stack: depth, then the frames only when the stack is short, else the first 3,
the frames around the placeholder and the last 3 (keeps the files small for 8000-frame stacks) -/
def showFramesC14 (fs : List Frame) : String :=
  let n := fs.length
  let idx := (fs.findIdx? (fun f => match f with | .elided _ => true | _ => false))
  let pick (l : List Frame) := " ".intercalate (l.map showFrame)
  match idx with
  | none => s!"d={n} " ++ (if n ≤ 8 then showFrames fs else pick (fs.take 3) ++ " .. " ++ pick (fs.drop (n - 3)))
  | some i => s!"d={n} at={i} " ++ pick (fs.take 2) ++ " .. " ++ pick ((fs.drop (i - 2)).take 5) ++ " .. " ++ pick (fs.drop (n - 2))

def strLe (a b : String) : Bool := compare a b != .gt

def sampleLine (proj : Proj) (o : OutSample) : String :=
  match proj with
  | .c01 => s!"s {o.t} {o.weight}"
  | .c17 => ""
  | .c02 => s!"s {o.t} " ++ showFrames o.frames
  | .c14 => s!"s {o.t} " ++ showFramesC14 o.frames
  | .full => s!"s {o.t} {o.weight} {o.cpu} " ++ showFrames o.frames
  | .cs => s!"s {o.t} {if isOffStack o.frames then "off" else "on"} {o.weight} {o.cpu / 1000}"

/-- the line of a marker stack; an empty stack gives no stack handle (`handle_for_stack_frames` returns
`None`): the marker then has no `cause` -/
def markerLine (proj : Proj) (o : OutSample) : String :=
  if o.frames.isEmpty then s!"m {o.t} nostack" else
  match proj with
  | .c14 => s!"m {o.t} " ++ showFramesC14 o.frames
  | .c02 | .full => s!"m {o.t} " ++ showFrames o.frames
  | _ => s!"m {o.t}"

def keyOf (o : OutSample) : String := s!"{1000000000000000000000 + o.t} " ++ showFrames o.frames

/-- order of the `cs` projection: (time, off before on, weight, cpu µs) -/
def csLe (a b : OutSample) : Bool :=
  let k (o : OutSample) : Nat × Nat × Nat × Nat := (o.t, if isOffStack o.frames then 0 else 1, o.weight, o.cpu / 1000)
  let x := k a; let y := k b
  x.1 < y.1 || (x.1 == y.1 && (x.2.1 < y.2.1 || (x.2.1 == y.2.1 && (x.2.2.1 < y.2.2.1 ||
    (x.2.2.1 == y.2.2.1 && x.2.2.2 ≤ y.2.2.2)))))

def threadLines (proj : Proj) (v : View) : List String :=
  let samples := if proj == .cs then v.samples.mergeSort csLe
    else (v.samples.mergeSort (fun a b => strLe (keyOf a) (keyOf b)))
  let head := match proj with
    | .c01 => s!"thread {v.pid} {v.tid} n={v.samples.length}"
    | .c17 => s!"thread {v.pid} {v.tid} main={if v.isMain then 1 else 0} name={hexOfStr v.name} pname={hexOfStr v.processName} start={v.start} end={optNat v.end_} pstart={v.pstart} pend={optNat v.pend}"
    | .c02 | .c14 | .cs => s!"thread {v.pid} {v.tid} n={v.samples.length}"
    | .full => s!"thread {v.pid} {v.tid} main={if v.isMain then 1 else 0} name={hexOfStr v.name} pname={hexOfStr v.processName} start={v.start} end={optNat v.end_} pstart={v.pstart} pend={optNat v.pend} n={v.samples.length}"
  head :: (if proj == .c17 then [] else
    samples.map (sampleLine proj) ++ ((v.markers.map (markerLine proj)).mergeSort strLe))

def render (proj : Proj) (vs : List View) : List String :=
  let sorted := vs.mergeSort (fun a b => strLe (a.pid ++ " " ++ a.tid) (b.pid ++ " " ++ b.tid))
  sorted.flatMap (threadLines proj)

def model (proj : Proj) (ls : List String) : List String :=
  match parse ls with
  | none => ["bad-op"]
  | some (cfg, rs) =>
    if cfgPanics ls then ["panic"] else
    if rs.any (fun r => !recSafe cfg r) then ["panic"] else
    let s := run cfg rs
    if s.bad then ["panic"] else
    if !perfMapsSafe s then ["panic"] else
    if !flushAllSafe s then ["panic"] else
    -- recordings with context-switch settings are compared in the `cs` projection (time, on/off, weight, cpu
    -- delta), whatever property drives them
    let proj := if (csWord ls).isSome && (proj == .c01) then Proj.cs else proj
    render proj (views s ++ cpuViews s)

end ConvIface
