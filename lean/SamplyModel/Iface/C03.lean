import SamplyModel.Proto
import SamplyModel.Model.ProfileSer
/-!
Line protocol for C03 (shared with `harness/src/bin/c03.rs`).

Handles live in *registers*: an op that returns a handle names the register receiving it.

ops (strings are hex of UTF-8, `-` = empty string; `-` in a register position = `None`):

    process <dst> <pid> <startNs> <nameHex>           thread <dst> <proc> <tid> <startNs> <main01>
    settid <thread> <tid>      setname <thread> <nameHex>      setpname <proc> <nameHex>
    setstart <thread> <ns>     setpstart <proc> <ns>
    lib <dst> <nameHex>        libsyms <lib> (<addr>:<size|->:<nameHex>)*      map <proc> <lib> <start> <end> <rel>
    string <dst> <hex>         cat <dst> <nameHex> <color>     subcat <dst> <cat> <nameHex>
    flabel <dst> <thread> <str> <sub> <flags>
    flabelsrc <dst> <thread> <str> <fileStr|-> <line|-> <col|-> <sub> <flags>
    faddr <dst> <thread> <ip|ra|ara> <addr> <sub> <flags>
    frel <dst> <thread> <ip|ra|ara> <lib> <rel> <sub> <flags>
    nsym <dst> <thread> <lib> <addr> <size|-> <nameHex>
    fsym <dst> <thread> <abs|rel> <ip|ra|ara> <lib|-> <addr> <nameStr|-> <nsym> <fileStr|-> <line|-> <col|-> <depth> <sub> <flags>
    stack <dst> <thread> <frame> <parentStack|->      stackframes <dst> <thread> <frame>*
    sample <thread> <ns> <stack|-> <cpuZero01>        samesample <thread> <ns>
    allocsample <thread> <ns> <stack|-> foreign=<01>   (foreign=1: thread is not the first thread of its
                                                        process and a stack is passed — the known finding)
    mtype <dst> <typeNameHex> <cat> <formats|->        formats over u (unique-string) s (other string) n (number)
    marker <dst> <thread> <st:k|rt:mtype> <nameStr> <str>*     one <str> per string-kind field
    mstack <thread> <marker> <stack|->
    counter <dst> <proc>       csample <counter> <ns>          visible <thread>       selected <thread>

  <sub> = `o` (CategoryHandle::OTHER) | `c:<cat>` | `s:<subcat>` | `C:<nameHex>:<color>` (Category by
  value) | `S:<nameHex>:<color>:<subNameHex>` (Subcategory by value)

out: one line per op — `ok` | `h <numbers in the returned handle>` | `h none` | `rejected` | `panic` |
`skipped` (an operand register is unset because its defining op did not return) — then the tables of the
serialized profile (`libs`, `cats`, `vis`, `sel`, `counter`*, per thread `thread`, `S`, `FT…`, `FN…`,
`RT…`, `NS…`, `ST…`, `SA…`, `NA…`, `MK…`), or `panic` if serialization panics. An ill-formed op list
(unknown op, undefined register, wrong register kind) gives the single line `bad-op`.
-/
namespace C03
open PT Proto

/-! ### parsing helpers -/

def num? (s : String) : Option Nat :=
  if s.isEmpty || !s.toList.all Char.isDigit then none else
  match s.toNat? with
  | some n => if n < 4294967296 then some n else none
  | none => none

def optNum? (s : String) : Option (Option Nat) :=
  if s = "-" then some none else (num? s).map some

def flag? (s : String) : Option Bool :=
  if s = "0" then some false else if s = "1" then some true else none

def unhexStr? (s : String) : Option String :=
  if s = "-" then some "" else
  let cs := s.toList
  if cs.length % 2 ≠ 0 || !cs.all (fun c => (hexDigit? c).isSome) then none else
  String.fromUTF8? (ByteArray.mk (hexBytes s).toArray)

def hexOf (s : String) : String := bytesHex s.toUTF8.toList

def akind? (s : String) : Option AKind :=
  if s = "ip" then some .ip else if s = "ra" then some .ra else if s = "ara" then some .ara else none

def fmts? (s : String) : Option (List Fmt) :=
  if s = "-" then some [] else
  s.toList.mapM (fun c => if c = 'u' then some Fmt.u else if c = 's' then some Fmt.s
    else if c = 'n' then some Fmt.n else none)

def syms? (ws : List String) : Option (List Sym) :=
  ws.mapM (fun w =>
    match w.splitOn ":" with
    | [a, sz, n] => do
      let a ← num? a
      let sz ← optNum? sz
      let n ← unhexStr? n
      pure (⟨a, sz, n⟩ : Sym)
    | _ => none)

def strictlyIncreasing : List Nat → Bool
  | a :: b :: rest => decide (a < b) && strictlyIncreasing (b :: rest)
  | _ => true

/-! ### registers -/

inductive Kind
  | proc | thread | lib | str | cat | sub | frame | stack | nsym | mtype | marker | counter
deriving DecidableEq, Repr

inductive RVal
  | proc (i : Nat) | thread (i : Nat) | lib (i : Nat) | str (i : Nat) | cat (i : Nat)
  | sub (c s : Nat) | frame (t i : Nat) | stack (v : Option TH) | nsym (t i : Nat)
  | mtype (h : Nat) | marker (i : Nat) | counter (i : Nat)
deriving Repr

def lookupS {α : Type} (m : List (String × α)) (k : String) : Option α :=
  (m.find? (·.1 = k)).map (·.2)

/-- static state of the well-formedness check: register kinds, formats of marker types -/
structure Chk where
  kinds : List (String × Kind) := []
  fmts : List (String × List Fmt) := []

def Chk.is (c : Chk) (r : String) (k : Kind) : Option Unit :=
  if lookupS c.kinds r = some k then some () else none
def Chk.opt (c : Chk) (r : String) (k : Kind) : Option Unit :=
  if r = "-" then some () else c.is r k
def Chk.define (c : Chk) (r : String) (k : Kind) : Option Chk :=
  if r = "-" || r.isEmpty then none else some { c with kinds := (r, k) :: c.kinds }

def guard' (b : Bool) : Option Unit := if b then some () else none

def Chk.subSpec (c : Chk) (s : String) : Option Unit :=
  if s = "o" then some () else
  match s.splitOn ":" with
  | ["c", r] => c.is r .cat
  | ["s", r] => c.is r .sub
  | ["C", n, col] => do let _ ← unhexStr? n; let _ ← num? col; pure ()
  | ["S", n, col, sn] => do let _ ← unhexStr? n; let _ ← num? col; let _ ← unhexStr? sn; pure ()
  | _ => none

def stringFields (f : List Fmt) : Nat := (f.filter (· ≠ .n)).length

def staticFormats (k : Nat) : Option (List Fmt) := (staticSchema k).map (·.2.2.2)

/-- static well-formedness of one op line (mirrors `check_program` of the harness) -/
def checkLine (c : Chk) (w : List String) : Option Chk :=
  match w with
  | ["process", d, pid, st, nm] => do
    let _ ← num? pid; let _ ← num? st; let _ ← unhexStr? nm; c.define d .proc
  | ["thread", d, p, tid, st, m] => do
    c.is p .proc; let _ ← num? tid; let _ ← num? st; let _ ← flag? m; c.define d .thread
  | ["settid", t, n] => do c.is t .thread; let _ ← num? n; pure c
  | ["setstart", t, n] => do c.is t .thread; let _ ← num? n; pure c
  | ["setname", t, n] => do c.is t .thread; let _ ← unhexStr? n; pure c
  | ["setpname", p, n] => do c.is p .proc; let _ ← unhexStr? n; pure c
  | ["setpstart", p, n] => do c.is p .proc; let _ ← num? n; pure c
  | ["lib", d, n] => do let _ ← unhexStr? n; c.define d .lib
  | "libsyms" :: l :: rest => do
    c.is l .lib
    let syms ← syms? rest
    guard' (strictlyIncreasing (syms.map (·.addr)))
    pure c
  | ["map", p, l, s, e, r] => do
    c.is p .proc; c.is l .lib; let _ ← num? s; let _ ← num? e; let _ ← num? r; pure c
  | ["string", d, s] => do let _ ← unhexStr? s; c.define d .str
  | ["cat", d, n, col] => do let _ ← unhexStr? n; let _ ← num? col; c.define d .cat
  | ["subcat", d, ca, n] => do c.is ca .cat; let _ ← unhexStr? n; c.define d .sub
  | ["flabel", d, t, s, sc, fl] => do
    c.is t .thread; c.is s .str; c.subSpec sc; let _ ← num? fl; c.define d .frame
  | ["flabelsrc", d, t, s, f, li, co, sc, fl] => do
    c.is t .thread; c.is s .str; c.opt f .str; let _ ← optNum? li; let _ ← optNum? co
    c.subSpec sc; let _ ← num? fl; c.define d .frame
  | ["faddr", d, t, k, a, sc, fl] => do
    c.is t .thread; let _ ← akind? k; let _ ← num? a; c.subSpec sc; let _ ← num? fl; c.define d .frame
  | ["frel", d, t, k, l, a, sc, fl] => do
    c.is t .thread; let _ ← akind? k; c.is l .lib; let _ ← num? a; c.subSpec sc; let _ ← num? fl
    c.define d .frame
  | ["nsym", d, t, l, a, sz, n] => do
    c.is t .thread; c.is l .lib; let _ ← num? a; let _ ← optNum? sz; let _ ← unhexStr? n
    c.define d .nsym
  | ["fsym", d, t, mode, k, l, a, nm, ns, f, li, co, dp, sc, fl] => do
    c.is t .thread; let _ ← akind? k
    (if mode = "abs" then guard' (l = "-") else if mode = "rel" then c.is l .lib else none)
    let _ ← num? a; c.opt nm .str; c.is ns .nsym; c.opt f .str; let _ ← optNum? li; let _ ← optNum? co
    let dp ← num? dp; guard' (dp < 65536); c.subSpec sc; let _ ← num? fl; c.define d .frame
  | ["stack", d, t, f, par] => do c.is t .thread; c.is f .frame; c.opt par .stack; c.define d .stack
  | "stackframes" :: d :: t :: fs => do
    c.is t .thread; let _ ← fs.mapM (fun f => c.is f .frame); c.define d .stack
  | ["sample", t, n, st, z] => do c.is t .thread; let _ ← num? n; c.opt st .stack; let _ ← flag? z; pure c
  | ["samesample", t, n] => do c.is t .thread; let _ ← num? n; pure c
  | ["allocsample", t, n, st, fo] => do
    c.is t .thread; let _ ← num? n; c.opt st .stack; guard' (fo = "foreign=0" || fo = "foreign=1"); pure c
  | ["mtype", d, n, ca, f] => do
    let _ ← unhexStr? n; c.is ca .cat; let f ← fmts? f
    let c' ← c.define d .mtype
    pure { c' with fmts := (d, f) :: c'.fmts }
  | "marker" :: d :: t :: ty :: nm :: strs => do
    c.is t .thread
    let f ← (match ty.splitOn ":" with
      | ["st", k] => (num? k).bind staticFormats
      | ["rt", r] => (c.is r .mtype).bind (fun _ => lookupS c.fmts r)
      | _ => none)
    c.is nm .str
    guard' (strs.length = stringFields f)
    let _ ← strs.mapM (fun s => c.is s .str)
    c.define d .marker
  | ["mstack", t, m, st] => do c.is t .thread; c.is m .marker; c.opt st .stack; pure c
  | ["counter", d, p] => do c.is p .proc; c.define d .counter
  | ["csample", ct, n] => do c.is ct .counter; let _ ← num? n; pure c
  | ["visible", t] => do c.is t .thread; pure c
  | ["selected", t] => do c.is t .thread; pure c
  | _ => none

def checkProgram (ls : List (List String)) : Bool :=
  (ls.foldl (fun (c : Option Chk) w => c.bind (fun c => checkLine c w)) (some {})).isSome

/-! ### building `PT.Op`s from lines and registers -/

abbrev Regs := List (String × RVal)

def Regs.proc (r : Regs) (k : String) : Option Nat := match lookupS r k with | some (.proc i) => some i | _ => none
def Regs.thread (r : Regs) (k : String) : Option Nat := match lookupS r k with | some (.thread i) => some i | _ => none
def Regs.lib (r : Regs) (k : String) : Option Nat := match lookupS r k with | some (.lib i) => some i | _ => none
def Regs.str (r : Regs) (k : String) : Option Nat := match lookupS r k with | some (.str i) => some i | _ => none
def Regs.cat (r : Regs) (k : String) : Option Nat := match lookupS r k with | some (.cat i) => some i | _ => none
def Regs.frame (r : Regs) (k : String) : Option TH := match lookupS r k with | some (.frame t i) => some (t, i) | _ => none
def Regs.nsym (r : Regs) (k : String) : Option TH := match lookupS r k with | some (.nsym t i) => some (t, i) | _ => none
def Regs.marker (r : Regs) (k : String) : Option Nat := match lookupS r k with | some (.marker i) => some i | _ => none
def Regs.counter (r : Regs) (k : String) : Option Nat := match lookupS r k with | some (.counter i) => some i | _ => none
def Regs.mtype (r : Regs) (k : String) : Option Nat := match lookupS r k with | some (.mtype h) => some h | _ => none
def Regs.optStr (r : Regs) (k : String) : Option (Option Nat) := if k = "-" then some none else (r.str k).map some
def Regs.optStack (r : Regs) (k : String) : Option (Option TH) :=
  if k = "-" then some none else match lookupS r k with | some (.stack v) => some v | _ => none

def Regs.subSpec (r : Regs) (s : String) : Option SubSpec :=
  if s = "o" then some .other else
  match s.splitOn ":" with
  | ["c", k] => (r.cat k).map SubSpec.cat
  | ["s", k] => match lookupS r k with | some (.sub c s) => some (.sub c s) | _ => none
  | ["C", n, col] => do pure (.catVal (← unhexStr? n) ((← num? col) % 14))
  | ["S", n, col, sn] => do pure (.subVal (← unhexStr? n) ((← num? col) % 14) (← unhexStr? sn))
  | _ => none

def addrSpec (r : Regs) (mode k l a : String) : Option AddrSpec := do
  let k ← akind? k
  let a ← num? a
  if mode = "abs" then pure (.abs k a) else pure (.rel k (← r.lib l) a)

/-- the op of a (statically well-formed) line under the current registers; `none` = an operand
register is unset. The second component is the destination register and how to wrap the result. -/
def toOp (r : Regs) (w : List String) : Option (Op × Option (String × Kind)) :=
  match w with
  | ["process", d, pid, st, nm] => do pure (.addProcess (← num? pid) (← num? st) (← unhexStr? nm), some (d, .proc))
  | ["thread", d, p, tid, st, m] => do
    pure (.addThread (← r.proc p) (← num? tid) (← num? st) (← flag? m), some (d, .thread))
  | ["settid", t, n] => do pure (.setTid (← r.thread t) (← num? n), none)
  | ["setstart", t, n] => do pure (.setStart (← r.thread t) (← num? n), none)
  | ["setname", t, n] => do pure (.setName (← r.thread t) (← unhexStr? n), none)
  | ["setpname", p, n] => do pure (.setPName (← r.proc p) (← unhexStr? n), none)
  | ["setpstart", p, n] => do pure (.setPStart (← r.proc p) (← num? n), none)
  | ["lib", d, n] => do pure (.addLib (← unhexStr? n), some (d, .lib))
  | "libsyms" :: l :: rest => do pure (.libSyms (← r.lib l) (← syms? rest), none)
  | ["map", p, l, s, e, rl] => do
    pure (.addMapping (← r.proc p) (← r.lib l) (← num? s) (← num? e) (← num? rl), none)
  | ["string", d, s] => do pure (.string (← unhexStr? s), some (d, .str))
  | ["cat", d, n, col] => do pure (.category (← unhexStr? n) ((← num? col) % 14), some (d, .cat))
  | ["subcat", d, ca, n] => do pure (.subcategory (← r.cat ca) (← unhexStr? n), some (d, .sub))
  | ["flabel", d, t, s, sc, fl] => do
    let t ← r.thread t; let s ← r.str s; let sc ← r.subSpec sc
    pure (.frameLabel t s none sc ((← num? fl) % 4), some (d, .frame))
  | ["flabelsrc", d, t, s, f, li, co, sc, fl] => do
    let t ← r.thread t; let s ← r.str s; let f ← r.optStr f; let sc ← r.subSpec sc
    pure (.frameLabel t s (some (f, ← optNum? li, ← optNum? co)) sc ((← num? fl) % 4), some (d, .frame))
  | ["faddr", d, t, k, a, sc, fl] => do
    let t ← r.thread t; let sc ← r.subSpec sc
    pure (.frameAddr t (← addrSpec r "abs" k "-" a) sc ((← num? fl) % 4), some (d, .frame))
  | ["frel", d, t, k, l, a, sc, fl] => do
    let t ← r.thread t; let a ← addrSpec r "rel" k l a; let sc ← r.subSpec sc
    pure (.frameAddr t a sc ((← num? fl) % 4), some (d, .frame))
  | ["nsym", d, t, l, a, sz, n] => do
    pure (.nativeSymbol (← r.thread t) (← r.lib l) ⟨← num? a, ← optNum? sz, ← unhexStr? n⟩, some (d, .nsym))
  | ["fsym", d, t, mode, k, l, a, nm, ns, f, li, co, dp, sc, fl] => do
    let t ← r.thread t; let a ← addrSpec r mode k l a; let nm ← r.optStr nm; let ns ← r.nsym ns
    let f ← r.optStr f; let sc ← r.subSpec sc
    pure (.frameSym t a nm ns f (← optNum? li) (← optNum? co) (← num? dp) sc ((← num? fl) % 4), some (d, .frame))
  | ["stack", d, t, f, par] => do
    pure (.stack (← r.thread t) (← r.frame f) (← r.optStack par), some (d, .stack))
  | "stackframes" :: d :: t :: fs => do
    pure (.stackFrames (← r.thread t) (← fs.mapM r.frame), some (d, .stack))
  | ["sample", t, _, st, z] => do pure (.sample (← r.thread t) (← r.optStack st) (← flag? z), none)
  | ["samesample", t, _] => do pure (.sameSample (← r.thread t), none)
  | ["allocsample", t, _, st, _] => do pure (.allocSample (← r.thread t) (← r.optStack st), none)
  | ["mtype", d, n, ca, f] => do pure (.markerType (← unhexStr? n) (← r.cat ca) (← fmts? f), some (d, .mtype))
  | "marker" :: d :: t :: ty :: nm :: strs => do
    let t ← r.thread t
    let ty ← (match ty.splitOn ":" with
      | ["st", k] => (num? k).map MType.static
      | ["rt", k] => (r.mtype k).map MType.runtime
      | _ => none)
    pure (.marker t ty (← r.str nm) (← strs.mapM r.str), some (d, .marker))
  | ["mstack", t, m, st] => do pure (.markerStack (← r.thread t) (← r.marker m) (← r.optStack st), none)
  | ["counter", d, p] => do pure (.counter (← r.proc p), some (d, .counter))
  | ["csample", ct, _] => do pure (.counterSample (← r.counter ct), none)
  | ["visible", t] => do pure (.visible (← r.thread t), none)
  | ["selected", t] => do pure (.selected (← r.thread t), none)
  | _ => none

def wrap (k : Kind) (vals : List Nat) : Option RVal :=
  match k, vals with
  | .proc, [i] => some (.proc i)
  | .thread, [i] => some (.thread i)
  | .lib, [i] => some (.lib i)
  | .str, [i] => some (.str i)
  | .cat, [i] => some (.cat i)
  | .sub, [c, s] => some (.sub c s)
  | .frame, [t, i] => some (.frame t i)
  | .nsym, [t, i] => some (.nsym t i)
  | .stack, [t, i] => some (.stack (some (t, i)))
  | .mtype, [h] => some (.mtype h)
  | .marker, [i] => some (.marker i)
  | .counter, [i] => some (.counter i)
  | _, _ => none

def showOut : Out → String
  | .ok => "ok"
  | .h vals => "h " ++ " ".intercalate (vals.map toString)
  | .noStack => "h none"
  | .rejected => "rejected"
  | .panic => "panic"
  | .bug => "panic"
  | .invalid => "invalid-handle"

/-- run the op lines on the model; returns the final state, the per-op output lines and the ops that
were executed (for the judge's use of the call history) -/
def runLines (ls : List (List String)) : P × List String :=
  let rec go (p : P) (r : Regs) (ls : List (List String)) (acc : List String) : P × List String :=
    match ls with
    | [] => (p, acc.reverse)
    | w :: rest =>
      match toOp r w with
      | none => go p r rest ("skipped" :: acc)
      | some (op, dst) =>
        let (p', out) := step p op
        let r' := match dst, out with
          | some (d, k), .h vals => match wrap k vals with
            | some v => (d, v) :: r
            | none => r
          | some (d, .stack), .noStack => (d, .stack none) :: r
          | _, _ => r
        go p' r' rest (showOut out :: acc)
  go P.init [] ls []

/-! ### printing the serialized tables (same format as `dump` in the harness) -/

def line (tag : String) (toks : List String) : String :=
  if toks.isEmpty then tag else tag ++ " " ++ " ".intercalate toks

def optTok : Option Nat → String
  | none => "-"
  | some n => toString n

def colorName (n : Nat) : String :=
  (["transparent", "lightblue", "red", "lightred", "orange", "blue", "green", "purple", "yellow", "brown",
    "magenta", "lightgreen", "grey", "darkgray"][n % 14]?).getD "?"

def optLe : Option Nat → Option Nat → Bool
  | none, _ => true
  | some _, none => false
  | some a, some b => decide (a ≤ b)

def showThread (t : SerThread) : List String :=
  let nats (l : List Nat) := l.map toString
  let opts (l : List (Option Nat)) := l.map optTok
  [ s!"thread {t.pid} {t.tid} {if t.isMain then 1 else 0} {hexOf t.processName} {hexOf t.name}",
    line "S" (toString t.strings.length :: t.strings.map hexOf),
    line "FT" (toString t.ftLen :: nats t.ftCols),
    line "FT.func" (nats t.ftFunc), line "FT.cat" (nats t.ftCat), line "FT.sub" (nats t.ftSub),
    line "FT.line" (opts t.ftLine), line "FT.col" (opts t.ftCol), line "FT.addr" (opts t.ftAddr),
    line "FT.nsym" (opts t.ftNsym), line "FT.depth" (nats t.ftDepth),
    line "FN" (toString t.fnLen :: nats t.fnCols),
    line "FN.name" (nats t.fnName), line "FN.flags" (nats t.fnFlags), line "FN.res" (opts t.fnRes),
    line "FN.file" (opts t.fnFile),
    line "RT" (toString t.rtLen :: nats t.rtCols), line "RT.lib" (nats t.rtLib), line "RT.name" (nats t.rtName),
    line "NS" (toString t.nsLen :: nats t.nsCols), line "NS.addr" (nats t.nsAddr), line "NS.size" (opts t.nsSize),
    line "NS.lib" (nats t.nsLib), line "NS.name" (nats t.nsName),
    line "ST" (toString t.stLen :: nats t.stCols), line "ST.prefix" (opts t.stPrefix), line "ST.frame" (nats t.stFrame),
    line "SA" (toString t.saLen :: nats t.saCols),
    line "SA.stack" (opts (t.saStack.mergeSort optLe)) ]
  ++ (match t.na with
      | none => ["NA -"]
      | some (len, cols, st) => [line "NA" (toString len :: nats cols), line "NA.stack" (opts st)])
  ++ [ line "MK" (toString t.mkLen :: nats t.mkCols), line "MK.cat" (nats t.mkCat), line "MK.name" (nats t.mkName),
       line "MK.stack" (opts t.mkStack),
       line "MK.ustr" (t.mkUstr.map (fun iv => s!"{iv.1}:{iv.2}")) ]

def showProfile (s : SerProfile) : List String :=
  [ line "libs" (s.libs.map hexOf),
    line "cats" (s.cats.map (fun c => s!"{hexOf c.1}:{colorName c.2.1}:{",".intercalate (c.2.2.map hexOf)}")),
    line "vis" (s.visible.map toString), line "sel" (s.selected.map toString) ]
  ++ s.counters.map (fun c => s!"counter {c.pid} {c.mainThreadIndex} {c.samples}")
  ++ s.threads.flatMap showThread

def model (ls : List String) : List String :=
  let ws := ls.map words
  if !checkProgram ws then ["bad-op"] else
  let (p, outs) := runLines ws
  outs ++ (match serialize p with
    | none => ["panic"]
    | some s => showProfile s)

end C03

namespace C03
/-- placeholder, replaced below -/
def judgeStub (_ops _impl : List String) : Bool × String := (true, "ok")
end C03
